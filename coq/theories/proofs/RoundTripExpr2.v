(* Round trip, stages B-D: the expression core over Print3.exp2 — the port of
   RoundTripProofs.v (sections 1-4) to the contracts QP2 / UP2 / PQP2 / PP2 /
   KE2 / PNLP2 of RoundTripBase2.v.

     0. first tokens (expr_start2 / prim_start2 / first_tok2), wfg
     1. the loops stop: check_brace, primary_loop_stop2, binary_loop_stop2
     2. the chain  PQP2 -> UP2 -> QP2 -> PP2 -> KE2 (-> PNLP2)
     3. the productions: binary, unary, identifier, literal, parentheses,
        selector, index, call, slice, index list
     4. old_contracts: the case analysis over the ten constructors of the old
        fragment, from the induction hypothesis IHE

   [star_ok]: the clause of wf2 (E2Binary OStar l r) that excludes a left operand
   ENDING in a func type without result: `func() * x` is read by the parser as
   the func type `func() *x` (found here; the clause was added to wf2). *)
From Coq Require Import List Arith NArith Lia Bool.
From GoSyn Require Import Token Tok Ast Core.
From GoSyn.spec Require Import Prec Print Print2 Print3.
From GoSyn.proofs Require Import PrecProofs RoundTripProofs RoundTripTypesBase RoundTripBase2.
Import ListNotations.

(* ------------------------------------------------------------ 0. first tokens *)

(* the type-switch guard x.(type) is no wf2 derivation but goes through the chain *)
Definition wfg (hdr : bool) (e : exp2) : Prop :=
  wf2 hdr e \/ exists x, e = guard_of x /\ wf_guard hdr x.

Lemma wf2_wfg : forall hdr e, wf2 hdr e -> wfg hdr e.
Proof. intros hdr e H. left. exact H. Qed.

Lemma guard_wfg : forall hdr x, wf_guard hdr x -> wfg hdr (guard_of x).
Proof. intros hdr x H. right. exists x. split; [reflexivity | exact H]. Qed.

(* the first token of an expression / of a primary expression *)
Definition expr_start2 (t : token) : bool :=
  match t with
  | TLiteral _ _ => true
  | TOperator (OAdd | OSub | ONot | OXor | OStar | OAnd | OArrow | OParenLeft | OBarackLeft) => true
  | TKeyword (KFunc | KChan | KMap | KStruct | KInterface) => true
  | _ => false
  end.

Definition prim_start2 (t : token) : bool :=
  match t with
  | TLiteral _ _ => true
  | TOperator (OParenLeft | OBarackLeft) => true
  | TKeyword (KFunc | KChan | KMap | KStruct | KInterface) => true
  | _ => false
  end.

Lemma prim_start2_expr : forall t, prim_start2 t = true -> expr_start2 t = true.
Proof.
  intros t H. destruct t as [txt | k | op | lk txt]; simpl in *; try discriminate H; try exact H.
  destruct op; try discriminate H; reflexivity.
Qed.

Lemma first_tok2_wf : forall e hdr, wf2 hdr e ->
  exists t l, print2 e = t :: l /\ expr_start2 t = true /\ (primary2 e -> prim_start2 t = true).
Proof.
  induction e as [name | k text | e IH | op e IH | op l IHl r IHr | f IHf args ddd | e IH name
                 | e IH i IHi | e IH idx | e IH lo hi mx | t | sg body | ty IHty elems | e IH t];
    intros hdr Hwf; cbn [print2]; cbn [wf2] in Hwf.
  - eexists _, _; repeat split.
  - eexists _, _; repeat split.
  - eexists _, _; repeat split.
  - destruct Hwf as (Hop & _ & _). eexists _, _; split; [reflexivity |]. split; [| intros []].
    destruct op; try destruct Hop; reflexivity.
  - destruct Hwf as (_ & _ & _ & Hl & _). destruct (IHl _ Hl) as (t & l0 & Hp & Hs & _).
    rewrite Hp. eexists _, _; split; [reflexivity |]. split; [exact Hs | intros []].
  - destruct Hwf as (Hpr & _ & Hf & _). destruct (IHf _ Hf) as (t & l0 & Hp & Hs & Hq).
    rewrite Hp. eexists _, _; split; [reflexivity |]. split; [exact Hs | intros _; exact (Hq Hpr)].
  - destruct Hwf as (Hpr & _ & He). destruct (IH _ He) as (t & l0 & Hp & Hs & Hq).
    rewrite Hp. eexists _, _; split; [reflexivity |]. split; [exact Hs | intros _; exact (Hq Hpr)].
  - destruct Hwf as (Hpr & _ & He & _). destruct (IH _ He) as (t & l0 & Hp & Hs & Hq).
    rewrite Hp. eexists _, _; split; [reflexivity |]. split; [exact Hs | intros _; exact (Hq Hpr)].
  - destruct Hwf as (Hpr & _ & He & _). destruct (IH _ He) as (t & l0 & Hp & Hs & Hq).
    rewrite Hp. eexists _, _; split; [reflexivity |]. split; [exact Hs | intros _; exact (Hq Hpr)].
  - destruct Hwf as (Hpr & _ & He & _). destruct (IH _ He) as (t & l0 & Hp & Hs & Hq).
    rewrite Hp. eexists _, _; split; [reflexivity |]. split; [exact Hs | intros _; exact (Hq Hpr)].
  - destruct Hwf as (Hop & _).
    destruct t as [n | p n | b a | t | t | x t | t | k v | dir t | t | s | fs | es];
      simpl in Hop; try (exfalso; exact Hop); cbn [printT].
    + eexists _, _; repeat split.
    + eexists _, _; repeat split.
    + eexists _, _; repeat split.
    + eexists _, _; repeat split.
    + destruct dir; try (exfalso; apply Hop; reflexivity); eexists _, _; repeat split.
    + destruct s as [ps paren rs]. eexists _, _; repeat split.
    + eexists _, _; repeat split.
    + eexists _, _; repeat split.
  - eexists _, _; repeat split.
  - destruct Hwf as (Hm & Hty & _).
    assert (Hpr : primary2 ty) by (destruct ty; try exact I; destruct Hm).
    destruct (IHty _ Hty) as (t & l0 & Hp & Hs & Hq).
    rewrite Hp. eexists _, _; split; [reflexivity |]. split; [exact Hs | intros _; exact (Hq Hpr)].
  - destruct Hwf as (Hpr & _ & He & _). destruct (IH _ He) as (t0 & l0 & Hp & Hs & Hq).
    rewrite Hp. eexists _, _; split; [reflexivity |]. split; [exact Hs | intros _; exact (Hq Hpr)].
Qed.

Lemma first_tok2 : forall e hdr, wfg hdr e ->
  exists t l, print2 e = t :: l /\ expr_start2 t = true /\ (primary2 e -> prim_start2 t = true).
Proof.
  intros e hdr [Hwf | (x & -> & Hpr & _ & Hx)]; [exact (first_tok2_wf e hdr Hwf) |].
  destruct (first_tok2_wf x hdr Hx) as (t & l0 & Hp & Hs & Hq).
  unfold guard_of. cbn [print2]. rewrite Hp.
  eexists _, _; split; [reflexivity |]. split; [exact Hs | intros _; exact (Hq Hpr)].
Qed.

(* such a token neither closes nor separates, and it starts a simple statement *)
Lemma expr_start2_not : forall t, expr_start2 t = true ->
  tok_is t (KOp OParenRight) = false /\ tok_is t (KOp ODotDotDot) = false /\
  tok_is t (KOp OColon) = false /\ tok_is t (KOp OBarackRight) = false /\
  tok_is t (KOp OBraceRight) = false /\ tok_is t (KOp OSemiColon) = false /\
  tok_is t (KOp OBraceLeft) = false /\ tok_is t (KOp OComma) = false /\
  tok_is t (KKw KRange) = false /\ tok_is t (KKw KType) = false /\
  tok_is t (KKw KCase) = false /\ tok_is t (KKw KDefault) = false.
Proof.
  intros t H. destruct t as [txt | k | op | lk txt]; simpl in H; try discriminate H.
  - destruct k; simpl in H; try discriminate H; repeat split; reflexivity.
  - destruct op; simpl in H; try discriminate H; repeat split; reflexivity.
  - repeat split; reflexivity.
Qed.

Lemma expr_start2_simple : forall t, expr_start2 t = true -> classify_stmt t = SCSimple.
Proof.
  intros t H. destruct t as [txt | k | op | lk txt]; simpl in H; try discriminate H.
  - destruct k; simpl in H; try discriminate H; reflexivity.
  - destruct op; simpl in H; try discriminate H; reflexivity.
  - reflexivity.
Qed.

Lemma expr_start2_closing : forall t, expr_start2 t = true -> closing t = false.
Proof.
  intros t H. destruct t as [txt | k | op | lk txt]; simpl in H; try discriminate H; try reflexivity.
  destruct op; simpl in H; try discriminate H; reflexivity.
Qed.

(* an operand that is a type is an operand type *)
Definition opnd_ok (e : exp2) : Prop :=
  match e with E2Type t => operand_type t | _ => True end.

Lemma wfg_opnd_ok : forall hdr e, wfg hdr e -> opnd_ok e.
Proof.
  intros hdr e [Hwf | (x & -> & _)]; [| exact I].
  destruct e; try exact I. exact (proj1 Hwf).
Qed.

Lemma wf2_tighter0 : forall hdr e, wf2 hdr e -> tighter_than2 0 e.
Proof.
  intros hdr e H. destruct e; try exact I. cbn [wf2] in H. destruct H as (Hb & _). exact Hb.
Qed.

Lemma wfg_tighter0 : forall hdr e, wfg hdr e -> tighter_than2 0 e.
Proof.
  intros hdr e [Hwf | (x & -> & _)]; [exact (wf2_tighter0 hdr e Hwf) | exact I].
Qed.

(* the tree of an operand of "<-" that is no channel type is no channel type *)
Lemma shape2_not_chan : forall e,
  match e with E2Type (TChan _ _) => False | _ => True end ->
  is_tag GTypeChannel (shape2 e) = false.
Proof.
  intros e H. destruct e; try reflexivity.
  destruct t; try reflexivity; try (destruct H). destruct s; reflexivity.
Qed.

Lemma all2_Forall : forall (Y : Type) (P : Y -> Prop) l, all2 P l <-> Forall P l.
Proof.
  intros Y P l; induction l as [| a r IH]; simpl.
  - split; [constructor | exact (fun _ => I)].
  - split.
    + intros [Ha Hr]. constructor; [exact Ha | apply IH; exact Hr].
    + intro H. inversion H; subst. split; [assumption | apply IH; assumption].
Qed.

Lemma sum2_In : forall (Y : Type) (f : Y -> nat) l a, In a l -> f a <= sum2 f l.
Proof.
  intros Y f l a. induction l as [| b r IH]; simpl; [intros [] |].
  intros [-> | H]; [lia | specialize (IH H); lia].
Qed.

Lemma max2_cons : forall (Y : Type) (f : Y -> nat) a l, max2 f (a :: l) = Nat.max (f a) (max2 f l).
Proof. reflexivity. Qed.

Lemma max2_In : forall (Y : Type) (f : Y -> nat) l a, In a l -> f a <= max2 f l.
Proof.
  intros Y f l a. induction l as [| b r IH]; simpl; [intros [] |].
  intros [-> | H]; [lia | specialize (IH H); lia].
Qed.

(* the follow condition of the left operand of a binary operation: a type at
   its end must be over where the operator stands.  The only binary operator
   that continues a type is "*", after a func type without result:
   `func() * x` is read as the type `func() *x` (excluded by wf2) *)
Definition star_ok (e : exp2) : Prop :=
  match e with
  | E2Binary OStar l _ =>
      match last_prim l with E2Type ty => tail ty <> KFuncNoResult | _ => True end
  | _ => True
  end.

Lemma wf2_star_ok : forall hdr e, wf2 hdr e -> star_ok e.
Proof.
  intros hdr e H. destruct e; try exact I. cbn [wf2] in H.
  destruct H as (_ & _ & _ & _ & _ & H). destruct op; try exact I. exact (H eq_refl).
Qed.

Lemma binop_not_postfix3 : forall op, is_binary_op op -> postfix3 (tk op) = false.
Proof.
  intros op H. unfold is_binary_op in H.
  destruct op; try reflexivity; vm_compute in H; lia.
Qed.

Lemma binop_not_brace : forall op, is_binary_op op -> tk op <> tk OBraceLeft.
Proof.
  intros op H Heq. injection Heq as ->. unfold is_binary_op in H. vm_compute in H. lia.
Qed.

Lemma binop_tyfollow : forall op l r0 rst, is_binary_op op -> star_ok (E2Binary op l r0) ->
  tyfollow l (tk op :: rst).
Proof.
  intros op l r0 rst Hop Hst. unfold tyfollow. simpl in Hst.
  destruct (last_prim l); try exact I.
  unfold tfollow. destruct (tail t) eqn:Ht; try exact I.
  - unfold is_binary_op in Hop. destruct op; try (split; reflexivity); vm_compute in Hop; lia.
  - unfold is_binary_op in Hop. destruct op; try reflexivity; vm_compute in Hop; lia.
  - unfold is_binary_op in Hop.
    destruct op; try reflexivity; try (vm_compute in Hop; lia). exfalso. apply Hst. reflexivity.
Qed.

(* a type operand as the base of a postfix operation *)
Lemma base_call_opfollow : forall f r, base_call f -> opfollow f (tk OParenLeft :: r).
Proof.
  intros f r H. destruct f; try exact I. simpl in H |- *. split.
  - destruct (tail t); try exact I; try (split; reflexivity); try reflexivity.
    exfalso. apply H. reflexivity.
  - destruct t; try exact I. discriminate.
Qed.

Lemma base_dot_opfollow : forall e t r, base_dot e -> t <> tk OBraceLeft -> opfollow e (t :: r).
Proof.
  intros e t r H Hne. destruct e; try exact I. simpl in H |- *. split.
  - rewrite H. exact I.
  - destruct t0; try exact I. exact Hne.
Qed.

Lemma prim_follow2_opfollow : forall hdr e rst, prim_follow2 hdr e rst -> opfollow e rst.
Proof.
  intros hdr e rst (H & Hty). destruct e; try exact I. cbn [opfollow]. split; [exact Hty |].
  destruct t; try exact I. destruct rst as [| t0 r]; [exact I |].
  intro Heq. destruct H as (_ & Hb). specialize (Hb Heq). exact Hb.
Qed.

Lemma follow2_inner : forall hdr prec e rst,
  tighter_than2 prec e -> follow2 hdr prec e rst -> inner_follow2 hdr e rst.
Proof.
  intros hdr prec e rst Ht Hf. split; [exact (follow2_prim hdr prec e rst Hf) |].
  destruct rst as [| t r]; [exact I |]. destruct Hf as ((_ & _ & Hl) & _).
  intros op Ho. specialize (Hl op Ho). destruct e; simpl in *; try exact I. lia.
Qed.

(* ------------------------------------------------------------ 1. the loops stop *)

Section RT2.
Variables (A G D C E : Type).
Variable OPS : ops A G D C.
Notation nodeT := (node A C).
Notation pstateT := (pstate A G D E).
Notation parsersT := (parsers A G D C E).
Notation cur := (s_cur A G D E).
Notation srest := (s_rest A G D E).
Notation sdepth := (s_depth A G D E).
Notation lp := (s_lp A G D E).
Notation ln := (s_ln A G D E).
Notation PA := (parsers_at A G D C E OPS).
Notation erase := (@erase A C).
Notation at_toks := (@at_toks A G D E).
Notation frame := (@frame A G D E).
Notation upddepth := (upd_depth A G D E).
Notation lev := (lev A G D E).
Notation levw := (levw A G D E).
Notation QP2 := (QP2 A G D C E OPS).
Notation PP2 := (PP2 A G D C E OPS).
Notation UP2 := (UP2 A G D C E OPS).
Notation PQP2 := (PQP2 A G D C E OPS).
Notation KE2 := (KE2 A G D C E OPS).
Notation PNLP2 := (PNLP2 A G D C E OPS).
Notation PNL := (parse_next_level_expr A G D C E).
Notation BB := (binary_body A G D C E OPS).
Notation BL := (binary_loop A G D C E OPS).
Notation PE := (primary_expression A G D C E OPS).
Notation PL := (primary_loop A G D C E OPS).
Notation KU := (k_unary A G D C E).

Ltac ml := unfold depth2, need2 in *; lia.
Ltac msimp := unfold depth2, need2 in *; cbn [me ce cs omax] in *.

Lemma n_tag_erase : forall n : nodeT, n_tag (erase n) = n_tag n.
Proof. intro n; destruct n; reflexivity. Qed.

(* primary_step in front of "{": whether a literal value follows depends on
   the tag of the tree only, i.e. on [last_class] of the (primary) derivation;
   a func type is the exception: its "{" is taken by the operand production *)
Lemma check_brace_class : forall (n : nodeT) (s : pstateT) e,
  erase n = shape2 e -> primary2 e -> opnd_ok e ->
  check_brace A G D C E n s =
  match e with
  | E2Type (TFunc _) => false
  | _ => match last_class e with
         | BAlways => true
         | BLevel => level_nonneg A G D E s
         | BNever => false
         end
  end.
Proof.
  intros n s e He Hpr Hop. unfold check_brace. rewrite <- n_tag_erase, He.
  destruct e; try reflexivity; try (destruct Hpr).
  destruct t; simpl in Hop; try (exfalso; exact Hop); try reflexivity.
  destruct s0; reflexivity.
Qed.

Lemma check_brace_stop : forall hdr (n : nodeT) (s : pstateT) e,
  erase n = shape2 e -> primary2 e -> opnd_ok e -> brace_stop hdr e ->
  level_nonneg A G D E s = negb hdr -> check_brace A G D C E n s = false.
Proof.
  intros hdr n s e He Hpr Hop Hb Hl. rewrite (check_brace_class n s e He Hpr Hop).
  unfold brace_stop in Hb.
  destruct e; try reflexivity; try (destruct Hpr);
    try (simpl in Hb |- *; rewrite Hl, Hb; reflexivity).
  destruct t; try reflexivity; simpl in Hb; destruct Hb.
Qed.

Lemma primary_step_stop2 : forall (self : parsersT) hdr e x (s : pstateT) rst,
  at_toks s rst -> prim_follow2 hdr e rst -> erase x = shape2 e -> primary2 e -> opnd_ok e ->
  level_nonneg A G D E s = negb hdr ->
  primary_step A G D C E OPS self x s = Ok None s.
Proof.
  intros self hdr e x s rst Hat (Hfo & _) He Hpr Hop Hl. unfold primary_step.
  destruct rst as [| t r].
  - destruct (at_toks_nil _ Hat) as (Hc & _). rewrite Hc. reflexivity.
  - destruct (at_toks_cur _ _ _ Hat) as (p & Hc). rewrite Hc. destruct Hfo as (Hp & Hb).
    destruct t as [txt | kw | op | lk txt]; try reflexivity.
    destruct op; try reflexivity; try discriminate Hp.
    rewrite (check_brace_stop hdr x s e He Hpr Hop (Hb eq_refl) Hl). reflexivity.
Qed.

Lemma primary_loop_stop2 : forall (self : parsersT) hdr e f x (s : pstateT) rst,
  at_toks s rst -> prim_follow2 hdr e rst -> erase x = shape2 e -> primary2 e -> opnd_ok e ->
  level_nonneg A G D E s = negb hdr ->
  PL self (S f) x s = Ok x s.
Proof.
  intros self hdr e f x s rst Hat Hfo He Hpr Hop Hl. cbn [primary_loop].
  rewrite (primary_step_stop2 self hdr e x s rst Hat Hfo He Hpr Hop Hl). reflexivity.
Qed.

Lemma binary_loop_stop2 : forall (self : parsersT) hdr f prec e x (s : pstateT) rst,
  at_toks s rst -> follow2 hdr prec e rst -> BL self (S f) prec x s = Ok x s.
Proof.
  intros self hdr f prec e x s rst Hat (Hfo & _). cbn [binary_loop]. destruct rst as [| t r].
  - destruct (at_toks_nil _ Hat) as (Hc & _). rewrite Hc. reflexivity.
  - destruct (at_toks_cur _ _ _ Hat) as (p & Hc). rewrite Hc.
    destruct t as [txt | kw | op | lk txt]; try reflexivity.
    destruct Hfo as (_ & _ & Hl). specialize (Hl op eq_refl). rewrite prec_nat_level.
    destruct (prec <? level op) eqn:Hlt; [apply Nat.ltb_lt in Hlt; lia | reflexivity].
Qed.

(* ------------------------------------------------------------ 2. the chain *)

Lemma QP2_PP2 : forall hdr e, QP2 hdr e -> PP2 hdr e.
Proof.
  intros hdr e HQ d prec s rst Hd Htt Hat Hfo Hdep Hlev.
  destruct (HQ d prec s rst Hd Htt Hat (follow2_inner hdr prec e rst Htt Hfo) Hdep Hlev)
    as (n & s1 & fuel1 & He & Hat1 & Hf & Hfu & Heq).
  exists n, s1. split; [| split; [exact He | split; [exact Hat1 | exact Hf]]].
  rewrite Heq. destruct fuel1 as [| f]; [lia |].
  apply (binary_loop_stop2 (PA d) hdr f prec e n s1 rst Hat1 Hfo).
Qed.

Lemma PP2_KE2 : forall hdr e, tighter_than2 0 e -> PP2 hdr e -> KE2 hdr e.
Proof.
  intros hdr e Htt HP d s rst Hd Hat Hfo Hdep Hlev.
  destruct d as [| [| d0]]; try lia.
  change (k_expr A G D C E (PA (S (S d0))) s) with (BB (PA d0) None 0 s).
  apply (HP d0 0 s rst); try assumption. lia.
Qed.

Lemma UP2_QP2 : forall hdr e, unary_level2 e -> UP2 hdr e -> QP2 hdr e.
Proof.
  intros hdr e Hul HU d prec s rst Hd _ Hat Hfo Hdep Hlev.
  destruct (HU Hul d s rst Hd Hat (proj1 Hfo) Hdep Hlev) as (n & s1 & Hk & He & Hat1 & Hf).
  exists n, s1, (loop_fuel A G D E s1).
  split; [exact He |]. split; [exact Hat1 |]. split; [exact Hf |].
  split; [apply loop_fuel_toks; exact Hat1 |].
  unfold binary_body. rewrite Hk. reflexivity.
Qed.

Lemma unary_body_primary2 : forall (self : parsersT) (s : pstateT) t ts,
  at_toks s (t :: ts) -> prim_start2 t = true ->
  unary_body A G D C E OPS self s = PE self None s.
Proof.
  intros self s t ts Hat Hp. destruct (at_toks_cur _ _ _ Hat) as (p & Hc).
  unfold unary_body. rewrite Hc.
  destruct t as [txt | kw | op | lk txt]; simpl in Hp; try discriminate Hp; try reflexivity.
  destruct op; try discriminate Hp; reflexivity.
Qed.

Lemma PQP2_UP2 : forall hdr e, wfg hdr e -> primary2 e -> PQP2 hdr e -> UP2 hdr e.
Proof.
  intros hdr e Hwf Hpr HPQ _ d s rst Hd Hat Hfo Hdep Hlev.
  pose proof (need2_pos e) as Hnp. pose proof (depth2_pos e) as Hdp.
  destruct d as [| d0]; [lia |].
  change (KU (PA (S d0)) s) with (nested A G D E 141 (unary_body A G D C E OPS (PA d0)) s).
  set (s0 := upddepth s (S (sdepth s))).
  destruct (HPQ Hpr d0 s0 rst Hd Hat (prim_follow2_opfollow hdr e rst Hfo))
    as (n & s1 & fuel1 & He & Hat1 & Hf & Hfu & Heq).
  { change (sdepth s0) with (S (sdepth s)). lia. }
  { exact Hlev. }
  destruct (first_tok2 e hdr Hwf) as (t & l0 & Hpe & _ & Hps). specialize (Hps Hpr).
  assert (Hub : unary_body A G D C E OPS (PA d0) s0 = Ok n s1).
  { rewrite Hpe in Hat. simpl in Hat.
    rewrite (unary_body_primary2 (PA d0) s0 t _ Hat Hps), Heq.
    destruct fuel1 as [| f]; [lia |].
    apply (primary_loop_stop2 (PA d0) hdr e f n s1 rst Hat1 Hfo He Hpr (wfg_opnd_ok hdr e Hwf)).
    apply (lev_nonneg A G D E hdr s1 0). apply (lev_frame A G D E hdr s0 s1 _ _ Hf Hlev). lia. }
  exists n, (upddepth s1 (pred (sdepth s1))).
  split; [apply nested_intro; [lia | exact Hub] |].
  split; [exact He |]. split; [exact Hat1 |]. apply frame_nested. exact Hf.
Qed.

Theorem primary_contracts : forall hdr e, wfg hdr e -> primary2 e -> PQP2 hdr e ->
  QP2 hdr e /\ UP2 hdr e /\ PQP2 hdr e.
Proof.
  intros hdr e Hwf Hpr HPQ. pose proof (PQP2_UP2 hdr e Hwf Hpr HPQ) as HU.
  split; [apply UP2_QP2; [destruct e; try exact I; destruct Hpr | exact HU] |].
  split; [exact HU | exact HPQ].
Qed.

Theorem contracts_KE2 : forall hdr e, wfg hdr e -> QP2 hdr e -> KE2 hdr e.
Proof.
  intros hdr e Hwf HQ. apply PP2_KE2; [exact (wfg_tighter0 hdr e Hwf) |].
  apply QP2_PP2. exact HQ.
Qed.

Lemma contracts_PNLP2 : forall e, wfg false e -> QP2 false e -> PNLP2 e.
Proof. intros e Hwf HQ. apply KE2_PNLP2. apply contracts_KE2; assumption. Qed.

(* ------------------------------------------------------------ 3. the productions *)

Lemma Q_binary2 : forall hdr op l r, wf2 hdr (E2Binary op l r) ->
  QP2 hdr l -> QP2 hdr r -> QP2 hdr (E2Binary op l r).
Proof.
  intros hdr op l r Hwf HQl HQr d prec s rst Hd Htt Hat Hfo Hdep Hlev.
  pose proof (wf2_star_ok hdr _ Hwf) as Hst.
  cbn [wf2] in Hwf. destruct Hwf as (Hop & Hal & Htr & Hwl & Hwr & _).
  cbn [print2] in Hat. msimp. simpl in Htt.
  rewrite <- app_assoc in Hat. simpl in Hat.
  destruct (HQl d prec s (tk op :: print2 r ++ rst))
    as (nl & s1 & fuel1 & Hel & Hat1 & Hf1 & Hfu1 & Heq1).
  - ml.
  - destruct l; simpl in *; try exact I; lia.
  - exact Hat.
  - split; [split |].
    + split; [apply binop_not_postfix3; exact Hop |].
      intro Hb. exfalso. exact (binop_not_brace op Hop Hb).
    + exact (binop_tyfollow op l r _ Hop Hst).
    + intros op' Ho. injection Ho as <-. exact Hal.
  - ml.
  - apply (lev_frame A G D E hdr s s _ _ (frame_refl s) Hlev). ml.
  - rewrite Heq1. destruct fuel1 as [| f]; [simpl in Hfu1; lia |].
    cbn [binary_loop]. destruct (at_toks_cur _ _ _ Hat1) as (pos & Hc). rewrite Hc. unfold tk.
    rewrite prec_nat_level.
    destruct (prec <? level op) eqn:Hlt; [| apply Nat.ltb_ge in Hlt; lia].
    destruct (next_toks OPS _ _ (at_toks_rest' _ _ _ Hat1)) as (s2 & Hn & Hat2 & Hf2).
    rewrite Hn. cbn [bind].
    destruct d as [| d0]; [pose proof (need2_pos l); ml |].
    change (k_binary A G D C E (PA (S d0)) None (level op) s2)
      with (BB (PA d0) None (level op) s2).
    pose proof (frame_trans _ _ _ Hf1 Hf2) as Hf12.
    destruct (QP2_PP2 hdr r HQr d0 (level op) s2 rst) as (nr & s3 & Hk & Her & Hat3 & Hf3).
    + ml.
    + exact Htr.
    + exact Hat2.
    + destruct Hfo as ((Hp & Hty) & Hlv). split; [| exact Hty].
      destruct rst as [| t0 r0]; [exact I |]. destruct Hp as (Hp1 & Hp2).
      split; [exact Hp1 |]. split; [exact Hp2 |].
      intros op' Ho. exact (Hlv op' Ho).
    + apply (frame_depth s s2 _ _ Hf12). ml.
    + apply (lev_frame A G D E hdr s s2 _ _ Hf12 Hlev). ml.
    + rewrite Hk. cbn [bind].
      exists (n_operation A C pos op nl (Some nr)), s3, f.
      split; [simpl; rewrite Hel, Her; reflexivity |].
      split; [exact Hat3 |].
      split; [exact (frame_trans _ _ _ Hf12 Hf3) |].
      split; [| reflexivity].
      simpl in Hfu1. rewrite app_length in Hfu1. lia.
Qed.

Lemma U_unary2 : forall hdr op e, wf2 hdr (E2Unary op e) -> UP2 hdr e -> UP2 hdr (E2Unary op e).
Proof.
  intros hdr op e Hwf HU _ d s rst Hd Hat Hfo Hdep Hlev.
  cbn [wf2] in Hwf. destruct Hwf as (Hop & Hul & Hwf & Hch).
  cbn [print2] in Hat. msimp. simpl in Hat.
  destruct d as [| d0]; [lia |].
  change (KU (PA (S d0)) s) with (nested A G D E 141 (unary_body A G D C E OPS (PA d0)) s).
  set (s0 := upddepth s (S (sdepth s))).
  assert (Hat0 : at_toks s0 (tk op :: print2 e ++ rst)) by exact Hat.
  destruct (at_toks_cur _ _ _ Hat0) as (pos & Hc).
  destruct (next_toks OPS _ _ (at_toks_rest' _ _ _ Hat0)) as (s1 & Hn & Hat1 & Hf1).
  destruct (HU Hul d0 s1 rst) as (n & s2 & Hk & He & Hat2 & Hf2).
  - ml.
  - exact Hat1.
  - exact Hfo.
  - apply (frame_depth s0 s1 _ _ Hf1). change (sdepth s0) with (S (sdepth s)). ml.
  - assert (Hlev0 : lev hdr s0 (S (me false e))) by exact Hlev.
    apply (lev_frame A G D E hdr s0 s1 _ _ Hf1 Hlev0). ml.
  - assert (Hub : unary_body A G D C E OPS (PA d0) s0 = Ok (n_operation A C pos op n None) s2).
    { unfold unary_body. rewrite Hc. unfold tk.
      pose proof (unary_op_class op Hop) as Hcl.
      destruct (classify_unary op) eqn:Hcu; try (exfalso; apply Hcl; reflexivity);
        rewrite Hn; cbn [bind]; rewrite Hk; cbn [bind]; try reflexivity.
      rewrite <- (is_tag_erase GTypeChannel n), He, shape2_not_chan; [reflexivity |].
      apply Hch. destruct op; try discriminate Hcu. reflexivity. }
    exists (n_operation A C pos op n None), (upddepth s2 (pred (sdepth s2))).
    split; [apply nested_intro; [lia | exact Hub] |].
    split; [simpl; rewrite He; reflexivity |]. split; [exact Hat2 |].
    apply frame_nested. exact (frame_trans _ _ _ Hf1 Hf2).
Qed.

Lemma PQ_ident2 : forall hdr name, PQP2 hdr (E2Ident name).
Proof.
  intros hdr name _ d s rst Hd Hat _ Hdep Hlev. simpl in Hat.
  destruct (at_toks_cur _ _ _ Hat) as (p & Hc).
  destruct (identifier_toks OPS s name rst 68 Hat) as (p' & s1 & Hi & Hat1 & Hf).
  exists (n_ident A C p' name), s1, (loop_fuel A G D E s1).
  split; [reflexivity |]. split; [exact Hat1 |]. split; [exact Hf |].
  split; [apply loop_fuel_toks; exact Hat1 |].
  unfold primary_expression, operand. rewrite Hc, Hi. reflexivity.
Qed.

Lemma PQ_lit2 : forall hdr k text, wf2 hdr (E2Lit k text) -> PQP2 hdr (E2Lit k text).
Proof.
  intros hdr k text Hk _ d s rst Hd Hat _ Hdep Hlev. simpl in Hat, Hk.
  destruct (at_toks_cur _ _ _ Hat) as (p & Hc).
  destruct (literal_toks A G D C E OPS s k text rst Hat) as (p' & s1 & Hi & Hat1 & Hf).
  exists (n_basic A C p' k text), s1, (loop_fuel A G D E s1).
  split; [reflexivity |]. split; [exact Hat1 |]. split; [exact Hf |].
  split; [apply loop_fuel_toks; exact Hat1 |].
  unfold primary_expression, operand. rewrite Hc.
  destruct k; try (rewrite Hi; reflexivity). exfalso; apply Hk; reflexivity.
Qed.

Lemma PQ_paren2 : forall hdr e, PNLP2 e -> PQP2 hdr (E2Paren e).
Proof.
  intros hdr e HN _ d s rst Hd Hat _ Hdep Hlev. cbn [print2] in Hat. msimp. simpl in Hat.
  destruct (at_toks_cur _ _ _ Hat) as (p & Hc).
  destruct (next_toks OPS _ _ (at_toks_rest' _ _ _ Hat)) as (s1 & Hn & Hat1 & Hf1).
  rewrite <- app_assoc in Hat1. simpl in Hat1.
  destruct (HN d s1 (tk OParenRight :: rst)) as (n & s2 & Hk & He & Hat2 & Hf2).
  - ml.
  - exact Hat1.
  - apply efollow_close; reflexivity.
  - apply (frame_depth s s1 _ _ Hf1). ml.
  - apply (levw_frame A G D E s s1 _ _ Hf1 (lev_levw A G D E hdr s _ Hlev)). ml.
  - destruct (expect_toks OPS s2 _ rst (KOp OParenRight) 69 Hat2 eq_refl) as (p1 & s3 & Hx & Hat3 & Hf3).
    exists (mk A C GParen [cur_pos A G D E s; p1] [] [n]), s3, (loop_fuel A G D E s3).
    split; [simpl; rewrite He; reflexivity |]. split; [exact Hat3 |].
    split; [exact (frame_trans _ _ _ (frame_trans _ _ _ Hf1 Hf2) Hf3) |].
    split; [apply loop_fuel_toks; exact Hat3 |].
    unfold primary_expression, operand. rewrite Hc. unfold tk. cbv zeta.
    rewrite Hn. cbn [bind]. rewrite Hk. cbn [bind]. rewrite Hx. reflexivity.
Qed.

Lemma PQ_selector2 : forall hdr e name, wf2 hdr (E2Selector e name) -> PQP2 hdr e ->
  PQP2 hdr (E2Selector e name).
Proof.
  intros hdr e name Hwf HPQ _ d s rst Hd Hat _ Hdep Hlev.
  cbn [wf2] in Hwf. destruct Hwf as (Hpr & Hbd & Hwf).
  cbn [print2] in Hat. msimp.
  rewrite <- app_assoc in Hat. simpl in Hat.
  assert (Hof : opfollow e (tk ODot :: TLiteral LIdent name :: rst))
    by (apply base_dot_opfollow; [exact Hbd | discriminate]).
  destruct (HPQ Hpr d s _ Hd Hat Hof Hdep Hlev)
    as (n & s1 & fuel1 & He & Hat1 & Hf1 & Hfu1 & Heq).
  destruct (at_toks_cur _ _ _ Hat1) as (p & Hc).
  destruct (next_toks OPS _ _ (at_toks_rest' _ _ _ Hat1)) as (s2 & Hn & Hat2 & Hf2).
  destruct (at_toks_cur _ _ _ Hat2) as (p2 & Hc2).
  destruct (identifier_toks OPS s2 name rst 62 Hat2) as (p' & s3 & Hi & Hat3 & Hf3).
  destruct fuel1 as [| f]; [simpl in Hfu1; lia |].
  exists (mk A C GSelector [cur_pos A G D E s1] [] [n; n_ident A C p' name]), s3, f.
  split; [simpl; rewrite He; reflexivity |]. split; [exact Hat3 |].
  split; [exact (frame_trans _ _ _ (frame_trans _ _ _ Hf1 Hf2) Hf3) |].
  split; [simpl in Hfu1; lia |].
  rewrite Heq. cbn [primary_loop]. unfold primary_step. rewrite Hc. unfold tk. cbv zeta.
  rewrite Hn. cbn [bind]. rewrite Hc2, Hi. reflexivity.
Qed.

Ltac side2 :=
  solve [ assumption | reflexivity
        | unfold RoundTripBase2.levw in *; unframe; unfold depth2, need2 in *; lia ].
Ltac lev0 H := apply (lev_frame A G D E _ _ _ _ _ (frame_refl _) H); ml.
Ltac clo := solve [ apply efollow_close; reflexivity ].

Lemma cur_is_expr2 : forall hdr (s : pstateT) x r, wfg hdr x -> at_toks s (print2 x ++ r) ->
  cur_is A G D E s (KOp OBarackRight) = false /\ cur_is A G D E s (KOp OColon) = false.
Proof.
  intros hdr s x r Hwf Hat. destruct (first_tok2 x hdr Hwf) as (t & l0 & Hp & Hst & _).
  rewrite Hp in Hat. simpl in Hat. rewrite !(cur_is_toks s _ _ _ Hat).
  destruct (expr_start2_not t Hst) as (_ & _ & H3 & H4 & _). split; assumption.
Qed.

Lemma skipped_colon_expr2 : forall hdr (s : pstateT) x r, wfg hdr x -> at_toks s (print2 x ++ r) ->
  skipped A G D C E OPS (KOp OColon) s = Ok false s.
Proof.
  intros hdr s x r Hwf Hat. unfold skipped.
  rewrite (proj2 (cur_is_expr2 hdr s x r Hwf Hat)). reflexivity.
Qed.

Lemma PQ_index2 : forall hdr e i, wf2 hdr (E2Index e i) -> PQP2 hdr e -> PNLP2 i ->
  PQP2 hdr (E2Index e i).
Proof.
  intros hdr e i Hwf HPQ HN _ d s rst Hd Hat _ Hdep Hlev.
  cbn [wf2] in Hwf. destruct Hwf as (Hpr & Hbd & Hwf & Hwi).
  pose proof (lev_levw A G D E hdr s _ Hlev) as Hlw.
  cbn [print2] in Hat. msimp.
  rewrite <- app_assoc in Hat. simpl in Hat.
  assert (Hof : opfollow e (tk OBarackLeft :: (print2 i ++ [tk OBarackRight]) ++ rst))
    by (apply base_dot_opfollow; [exact Hbd | discriminate]).
  destruct (HPQ Hpr d s (tk OBarackLeft :: (print2 i ++ [tk OBarackRight]) ++ rst))
    as (n & s1 & fuel1 & He & Hat1 & Hf1 & Hfu1 & Heq);
    [ml | exact Hat | exact Hof | ml | lev0 Hlev |].
  destruct (at_toks_cur _ _ _ Hat1) as (p & Hc).
  destruct (next_toks OPS _ _ (at_toks_rest' _ _ _ Hat1)) as (s2 & Hn & Hat2 & Hf2).
  rewrite <- app_assoc in Hat2. simpl in Hat2.
  pose proof (frame_trans _ _ _ Hf1 Hf2) as Hf12.
  pose proof (skipped_colon_expr2 false s2 i _ (wf2_wfg _ _ Hwi) Hat2) as Hsk.
  destruct (HN d s2 (tk OBarackRight :: rst)) as (ni & s3 & Hk & Hei & Hat3 & Hf3);
    [side2 | exact Hat2 | clo | side2 | side2 |].
  destruct (expect_toks OPS s3 _ rst (KOp OBarackRight) 65 Hat3 eq_refl) as (p1 & s4 & Hx & Hat4 & Hf4).
  destruct fuel1 as [| f]; [simpl in Hfu1; lia |].
  exists (mk A C GIndex [cur_pos A G D E s1; p1] [] [n; ni]), s4, f.
  split; [simpl; rewrite He, Hei; reflexivity |]. split; [exact Hat4 |].
  split; [exact (frame_trans _ _ _ (frame_trans _ _ _ Hf12 Hf3) Hf4) |].
  split; [simpl in Hfu1; rewrite !app_length in Hfu1; simpl in Hfu1; lia |].
  rewrite Heq. cbn [primary_loop]. unfold primary_step. rewrite Hc. unfold tk. cbv zeta.
  unfold parse_slice_index_or_type_inst. rewrite Hn. cbn [bind]. rewrite Hsk. cbn [bind andb].
  rewrite Hk. cbn [bind].
  rewrite (cur_is_toks s3 _ _ (KOp OBarackRight) Hat3).
  change (tok_is (tk OBarackRight) (KOp OBarackRight)) with true. cbv iota. cbn [bind].
  rewrite Hx. reflexivity.
Qed.

(* ---- call arguments *)

Notation CAL := (call_args_loop A G D C E OPS).

Lemma efollow_args : forall e l cl rst, closer cl -> efollow false e (etail l ++ cl :: rst).
Proof.
  intros e l cl rst Hcl. destruct l; simpl.
  - destruct Hcl as [-> | ->]; apply efollow_close; reflexivity.
  - apply efollow_close; reflexivity.
Qed.

Lemma cur_not_start2 : forall (s : pstateT) t ts, at_toks s (t :: ts) -> expr_start2 t = true ->
  cur_not A G D E s (KOp OParenRight) && cur_not A G D E s (KOp ODotDotDot) = true.
Proof.
  intros s t ts Hat Hst. destruct (expr_start2_not t Hst) as (H1 & H2 & _).
  unfold cur_not. rewrite !(cur_is_toks s t ts _ Hat), H1, H2. reflexivity.
Qed.

Lemma cur_not_closer2 : forall (s : pstateT) cl ts, at_toks s (cl :: ts) -> closer cl ->
  cur_not A G D E s (KOp OParenRight) && cur_not A G D E s (KOp ODotDotDot) = false.
Proof.
  intros s cl ts Hat Hcl. unfold cur_not. rewrite !(cur_is_toks s cl ts _ Hat).
  destruct Hcl as [-> | ->]; reflexivity.
Qed.

Lemma args_tail2 : forall r, Forall (fun b => wf2 false b /\ PNLP2 b) r ->
  forall d fuel acc ewc (s : pstateT) cl rst,
    closer cl ->
    max2 need2 r + 2 <= d ->
    sdepth s + max2 depth2 r <= MAX_NESTING -> levw s (S (max2 depth2 r)) ->
    at_toks s (etail r ++ cl :: rst) ->
    length acc <> 0 ->
    length (etail r) + 1 <= fuel ->
    exists ns ewc' s1,
      CAL (PA d) fuel acc ewc s = Ok (acc ++ ns, ewc') s1 /\
      map erase ns = map shape2 r /\ at_toks s1 (cl :: rst) /\ frame s s1 /\
      ewc' = match r with [] => ewc | _ => false end.
Proof.
  intros r Hall. induction Hall as [| b r (Hwb & HNb) Hall IH];
    intros d fuel acc ewc s cl rst Hcl Hd Hdep Hlev Hat Hacc Hfu.
  - simpl in Hat. destruct fuel as [| f]; [lia |]. cbn [call_args_loop].
    rewrite (cur_not_closer2 s cl rst Hat Hcl).
    exists [], ewc, s. rewrite app_nil_r.
    split; [reflexivity |]. split; [reflexivity |]. split; [exact Hat |].
    split; [apply frame_refl | reflexivity].
  - rewrite max2_cons in Hd, Hdep, Hlev. cbn [etail flat_map] in Hat, Hfu.
    fold (etail r) in Hat, Hfu. simpl in Hat. rewrite <- app_assoc in Hat.
    destruct fuel as [| f]; [lia |]. cbn [call_args_loop].
    unfold cur_not at 1 2. rewrite !(cur_is_toks s _ _ _ Hat).
    change (tok_is (tk OComma) (KOp OParenRight)) with false.
    change (tok_is (tk OComma) (KOp ODotDotDot)) with false. cbn [negb andb].
    destruct acc as [| a0 acc0]; [exfalso; apply Hacc; reflexivity |].
    change (Nat.eqb (length (a0 :: acc0)) 0) with false. cbv iota.
    destruct (expect_toks OPS s _ _ (KOp OComma) 61 Hat eq_refl) as (pc & s1 & Hx & Hat1 & Hf1).
    rewrite Hx. cbn [bind].
    destruct (first_tok2 b false (wf2_wfg _ _ Hwb)) as (t & l0 & Hpb & Hst & _).
    assert (Hat1' : at_toks s1 (t :: l0 ++ etail r ++ cl :: rst)).
    { rewrite Hpb in Hat1. exact Hat1. }
    rewrite (cur_not_start2 s1 t _ Hat1' Hst).
    destruct (HNb d s1 (etail r ++ cl :: rst)) as (nb & s2 & Hk & Heb & Hat2 & Hf2);
      [side2 | exact Hat1 | apply efollow_args; exact Hcl | side2 | side2 |].
    rewrite Hk. cbn [bind].
    pose proof (frame_trans _ _ _ Hf1 Hf2) as Hf12.
    destruct (IH d f ((a0 :: acc0) ++ [nb]) false s2 cl rst)
      as (ns & ewc' & s3 & Hl & Hes & Hat3 & Hf3 & Hew);
      [exact Hcl | side2 | side2 | side2 | exact Hat2 | rewrite app_length; simpl; lia | |].
    { simpl in Hfu. rewrite app_length in Hfu. lia. }
    exists (nb :: ns), ewc', s3. split.
    { rewrite Hl. rewrite <- app_assoc. reflexivity. }
    split; [simpl; rewrite Heb, Hes; reflexivity |].
    split; [exact Hat3 |]. split; [exact (frame_trans _ _ _ Hf12 Hf3) |].
    rewrite Hew. destruct r; reflexivity.
Qed.

Lemma args_all2 : forall args, Forall (fun b => wf2 false b /\ PNLP2 b) args ->
  forall d fuel (s : pstateT) cl rst,
    closer cl ->
    max2 need2 args + 2 <= d ->
    sdepth s + max2 depth2 args <= MAX_NESTING -> levw s (S (max2 depth2 args)) ->
    at_toks s (commas (map print2 args) ++ cl :: rst) ->
    length (commas (map print2 args)) + 1 <= fuel ->
    exists ns s1,
      CAL (PA d) fuel [] false s = Ok (ns, false) s1 /\
      map erase ns = map shape2 args /\ at_toks s1 (cl :: rst) /\ frame s s1.
Proof.
  intros args Hall d fuel s cl rst Hcl Hd Hdep Hlev Hat Hfu.
  destruct Hall as [| a r (Hwa & HNa) Hall].
  - simpl in Hat. destruct fuel as [| f]; [lia |]. cbn [call_args_loop].
    rewrite (cur_not_closer2 s cl rst Hat Hcl).
    exists [], s.
    split; [reflexivity |]. split; [reflexivity |]. split; [exact Hat | apply frame_refl].
  - rewrite max2_cons in Hd, Hdep, Hlev. rewrite commas_cons2 in Hat, Hfu.
    rewrite <- app_assoc in Hat.
    destruct fuel as [| f]; [lia |]. cbn [call_args_loop].
    destruct (first_tok2 a false (wf2_wfg _ _ Hwa)) as (t & l0 & Hpa & Hst & _).
    assert (Hat' : at_toks s (t :: l0 ++ etail r ++ cl :: rst)).
    { rewrite Hpa in Hat. exact Hat. }
    rewrite (cur_not_start2 s t _ Hat' Hst).
    change (Nat.eqb (length (@nil nodeT)) 0) with true. cbv iota. cbn [bind].
    rewrite (cur_not_start2 s t _ Hat' Hst).
    destruct (HNa d s (etail r ++ cl :: rst)) as (na & s2 & Hk & Hea & Hat2 & Hf2);
      [side2 | exact Hat | apply efollow_args; exact Hcl | side2 | side2 |].
    rewrite Hk. cbn [bind].
    destruct (args_tail2 r Hall d f ([] ++ [na]) false s2 cl rst)
      as (ns & ewc' & s3 & Hl & Hes & Hat3 & Hf3 & Hew);
      [exact Hcl | side2 | side2 | side2 | exact Hat2 | simpl; lia | |].
    { rewrite app_length, Hpa in Hfu. simpl in Hfu. lia. }
    exists (na :: ns), s3. split.
    { rewrite Hl. replace ewc' with false by (rewrite Hew; destruct r; reflexivity).
      reflexivity. }
    split; [simpl; rewrite Hea, Hes; reflexivity |].
    split; [exact Hat3 | exact (frame_trans _ _ _ Hf2 Hf3)].
Qed.

Lemma PQ_call2 : forall hdr f args ddd, wf2 hdr (E2Call f args ddd) -> PQP2 hdr f ->
  Forall (fun b => wf2 false b /\ PNLP2 b) args -> PQP2 hdr (E2Call f args ddd).
Proof.
  intros hdr f args ddd Hwf HPQ Hall _ d s rst Hd Hat _ Hdep Hlev.
  cbn [wf2] in Hwf. destruct Hwf as (Hpr & Hbc & Hwf & Hwa & Hdd).
  pose proof (lev_levw A G D E hdr s _ Hlev) as Hlw.
  cbn [print2] in Hat. msimp.
  rewrite <- app_assoc in Hat. simpl in Hat.
  destruct (HPQ Hpr d s (tk OParenLeft ::
              (commas (map print2 args) ++ (if ddd then [tk ODotDotDot] else []) ++ [tk OParenRight])
              ++ rst))
    as (n & s1 & fuel1 & He & Hat1 & Hf1 & Hfu1 & Heq);
    [ml | exact Hat | apply base_call_opfollow; exact Hbc | ml | lev0 Hlev |].
  destruct (at_toks_cur _ _ _ Hat1) as (p & Hc).
  destruct (next_toks OPS _ _ (at_toks_rest' _ _ _ Hat1)) as (s2 & Hn & Hat2 & Hf2).
  rewrite <- !app_assoc in Hat2.
  pose proof (frame_trans _ _ _ Hf1 Hf2) as Hf12.
  destruct fuel1 as [| f0]; [simpl in Hfu1; lia |].
  assert (Hfu0 : length rst + 1 <= f0).
  { simpl in Hfu1; rewrite !app_length in Hfu1; simpl in Hfu1; lia. }
  destruct ddd; simpl in Hat2.
  - (* f(a, b...) *)
    destruct (args_all2 args Hall d (loop_fuel A G D E s2) s2 (tk ODotDotDot) (tk OParenRight :: rst))
      as (ns & s3 & Hl & Hes & Hat3 & Hf3);
      [right; reflexivity | side2 | side2 | side2 | exact Hat2 | |].
    { pose proof (loop_fuel_toks s2 _ Hat2) as H. rewrite app_length in H. lia. }
    destruct (skipped_yes OPS s3 _ _ (KOp ODotDotDot) Hat3 eq_refl) as (s4 & Hs1 & Hat4 & Hf4).
    assert (Hs2 : skipped A G D C E OPS (KOp OComma) s4 = Ok false s4).
    { apply (skipped_no OPS s4 _ _ Hat4). reflexivity. }
    destruct (expect_toks OPS s4 _ rst (KOp OParenRight) 67 Hat4 eq_refl)
      as (p1 & s5 & Hx & Hat5 & Hf5).
    assert (Hlen : Nat.eqb (length ns) 0 = false).
    { assert (Hl2 : length ns = length args).
      { rewrite <- (map_length erase ns), Hes, map_length. reflexivity. }
      rewrite Hl2. destruct args; [exfalso; apply (Hdd eq_refl); reflexivity | reflexivity]. }
    exists (mk A C GCall [cur_pos A G D E s1; p1] [] [n; nlist ns; npos (cur_pos A G D E s3)]),
      s5, f0.
    split; [simpl; rewrite He; change (fun x : nodeT => erase x) with erase; rewrite Hes;
            reflexivity |].
    split; [exact Hat5 |].
    split; [exact (frame_trans _ _ _ (frame_trans _ _ _ (frame_trans _ _ _ Hf12 Hf3) Hf4) Hf5) |].
    split; [exact Hfu0 |].
    rewrite Heq. cbn [primary_loop]. unfold primary_step. rewrite Hc. unfold tk. cbv zeta.
    rewrite Hn. cbn [bind]. rewrite Hl. cbn [bind]. rewrite Hs1. cbn [bind].
    rewrite Hlen. cbn [andb orb]. cbv iota.
    rewrite Hs2. cbn [bind]. rewrite Hx. reflexivity.
  - (* f(a, b) *)
    destruct (args_all2 args Hall d (loop_fuel A G D E s2) s2 (tk OParenRight) rst)
      as (ns & s3 & Hl & Hes & Hat3 & Hf3);
      [left; reflexivity | side2 | side2 | side2 | exact Hat2 | |].
    { pose proof (loop_fuel_toks s2 _ Hat2) as H. rewrite app_length in H. lia. }
    assert (Hs1 : skipped A G D C E OPS (KOp ODotDotDot) s3 = Ok false s3).
    { apply (skipped_no OPS s3 _ _ Hat3). reflexivity. }
    assert (Hs2 : skipped A G D C E OPS (KOp OComma) s3 = Ok false s3).
    { apply (skipped_no OPS s3 _ _ Hat3). reflexivity. }
    destruct (expect_toks OPS s3 _ rst (KOp OParenRight) 67 Hat3 eq_refl)
      as (p1 & s4 & Hx & Hat4 & Hf4).
    exists (mk A C GCall [cur_pos A G D E s1; p1] [] [n; nlist ns; nnone]), s4, f0.
    split; [simpl; rewrite He; change (fun x : nodeT => erase x) with erase; rewrite Hes;
            reflexivity |].
    split; [exact Hat4 |].
    split; [exact (frame_trans _ _ _ (frame_trans _ _ _ Hf12 Hf3) Hf4) |].
    split; [exact Hfu0 |].
    rewrite Heq. cbn [primary_loop]. unfold primary_step. rewrite Hc. unfold tk. cbv zeta.
    rewrite Hn. cbn [bind]. rewrite Hl. cbn [bind]. rewrite Hs1. cbn [bind andb]. cbv iota.
    rewrite Hs2. cbn [bind]. rewrite Hx. reflexivity.
Qed.

(* ---- slice expressions *)

Definition optPNLP2 (o : option exp2) : Prop :=
  match o with Some x => wf2 false x /\ PNLP2 x | None => True end.

Lemma PQ_slice2 : forall hdr e lo hi mx, wf2 hdr (E2Slice e lo hi mx) -> PQP2 hdr e ->
  optPNLP2 lo -> optPNLP2 hi -> optPNLP2 mx -> PQP2 hdr (E2Slice e lo hi mx).
Proof.
  intros hdr e lo hi mx Hwf HPQ Hlo Hhi Hm _ d s rst Hd Hat _ Hdep Hlev.
  cbn [wf2] in Hwf. destruct Hwf as (Hpr & Hbd & Hwf & _ & _ & _ & Hmx).
  pose proof (lev_levw A G D E hdr s _ Hlev) as Hlw.
  cbn [print2] in Hat.
  rewrite <- app_assoc in Hat. simpl in Hat.
  assert (Hof : forall r, opfollow e (tk OBarackLeft :: r))
    by (intro r; apply base_dot_opfollow; [exact Hbd | discriminate]).
  destruct (HPQ Hpr d s _ ltac:(msimp; lia) Hat (Hof _) ltac:(msimp; lia) ltac:(msimp; lev0 Hlev))
    as (n & s1 & fuel1 & He & Hat1 & Hf1 & Hfu1 & Heq).
  destruct (at_toks_cur _ _ _ Hat1) as (p & Hc).
  destruct (next_toks OPS _ _ (at_toks_rest' _ _ _ Hat1)) as (s2 & Hn & Hat2 & Hf2).
  pose proof (frame_trans _ _ _ Hf1 Hf2) as Hf12.
  destruct fuel1 as [| f0]; [simpl in Hfu1; lia |].
  assert (Hfu0 : length rst + 1 <= f0).
  { simpl in Hfu1; rewrite !app_length in Hfu1; simpl in Hfu1; lia. }
  clear Hlev Hof.
  destruct lo as [i |], hi as [j |], mx as [k |];
    try (exfalso; apply Hmx; [discriminate | reflexivity]);
    msimp; cbn [popt] in Hat2; repeat (rewrite <- app_assoc in Hat2; simpl in Hat2).
  - (* a[i:j:k] *)
    destruct Hlo as (Hwi & HNi). destruct Hhi as (Hwj & HNj). destruct Hm as (Hwk & HNk).
    pose proof (skipped_colon_expr2 false s2 i _ (wf2_wfg _ _ Hwi) Hat2) as Hsk.
    edestruct (HNi d s2) as (ni & s3 & Hki & Hei & Hat3 & Hf3); [side2 | exact Hat2 | clo | side2 | side2 |].
    pose proof (frame_trans _ _ _ Hf12 Hf3) as Hf13.
    destruct (at_toks_cur _ _ _ Hat3) as (p3 & Hc3).
    destruct (next_toks OPS _ _ (at_toks_rest' _ _ _ Hat3)) as (s4 & Hn4 & Hat4 & Hf4).
    pose proof (frame_trans _ _ _ Hf13 Hf4) as Hf14.
    destruct (cur_is_expr2 false s4 j _ (wf2_wfg _ _ Hwj) Hat4) as (Hb4 & _).
    edestruct (HNj d s4) as (nj & s5 & Hkj & Hej & Hat5 & Hf5); [side2 | exact Hat4 | clo | side2 | side2 |].
    pose proof (frame_trans _ _ _ Hf14 Hf5) as Hf15.
    destruct (expect_toks OPS s5 _ _ (KOp OColon) 59 Hat5 eq_refl) as (pc & s6 & Hx6 & Hat6 & Hf6).
    pose proof (frame_trans _ _ _ Hf15 Hf6) as Hf16.
    edestruct (HNk d s6) as (nk & s7 & Hkk & Hek & Hat7 & Hf7); [side2 | exact Hat6 | clo | side2 | side2 |].
    pose proof (frame_trans _ _ _ Hf16 Hf7) as Hf17.
    destruct (expect_toks OPS s7 _ rst (KOp OBarackRight) 65 Hat7 eq_refl) as (p1 & s8 & Hx & Hat8 & Hf8).
    exists (mk A C GSlice [cur_pos A G D E s1; p1] [] [n; ni; nj; nk]), s8, f0.
    split; [simpl; rewrite He, Hei, Hej, Hek; reflexivity |]. split; [exact Hat8 |].
    split; [exact (frame_trans _ _ _ Hf17 Hf8) |]. split; [exact Hfu0 |].
    rewrite Heq. cbn [primary_loop]. unfold primary_step. rewrite Hc. unfold tk. cbv zeta.
    unfold parse_slice_index_or_type_inst. rewrite Hn. cbn [bind]. rewrite Hsk. cbn [bind andb].
    rewrite Hki. cbn [bind].
    rewrite (cur_is_toks s3 _ _ (KOp OBarackRight) Hat3).
    change (tok_is (tk OColon) (KOp OBarackRight)) with false. cbv iota.
    rewrite Hc3. unfold tk. cbv iota. rewrite Hn4. cbn [bind]. rewrite Hb4.
    rewrite Hkj. cbn [bind].
    rewrite (cur_is_toks s5 _ _ (KOp OBarackRight) Hat5).
    change (tok_is (tk OColon) (KOp OBarackRight)) with false. cbv iota.
    cbn [app length Nat.eqb]. rewrite Hx6. cbn [bind]. rewrite Hkk. cbn [bind app].
    rewrite Hx. reflexivity.
  - (* a[i:j] *)
    destruct Hlo as (Hwi & HNi). destruct Hhi as (Hwj & HNj).
    pose proof (skipped_colon_expr2 false s2 i _ (wf2_wfg _ _ Hwi) Hat2) as Hsk.
    edestruct (HNi d s2) as (ni & s3 & Hki & Hei & Hat3 & Hf3); [side2 | exact Hat2 | clo | side2 | side2 |].
    pose proof (frame_trans _ _ _ Hf12 Hf3) as Hf13.
    destruct (at_toks_cur _ _ _ Hat3) as (p3 & Hc3).
    destruct (next_toks OPS _ _ (at_toks_rest' _ _ _ Hat3)) as (s4 & Hn4 & Hat4 & Hf4).
    pose proof (frame_trans _ _ _ Hf13 Hf4) as Hf14.
    destruct (cur_is_expr2 false s4 j _ (wf2_wfg _ _ Hwj) Hat4) as (Hb4 & _).
    edestruct (HNj d s4) as (nj & s5 & Hkj & Hej & Hat5 & Hf5); [side2 | exact Hat4 | clo | side2 | side2 |].
    pose proof (frame_trans _ _ _ Hf14 Hf5) as Hf15.
    destruct (expect_toks OPS s5 _ rst (KOp OBarackRight) 65 Hat5 eq_refl) as (p1 & s6 & Hx & Hat6 & Hf6).
    exists (mk A C GSlice [cur_pos A G D E s1; p1] [] [n; ni; nj; nnone]), s6, f0.
    split; [simpl; rewrite He, Hei, Hej; reflexivity |]. split; [exact Hat6 |].
    split; [exact (frame_trans _ _ _ Hf15 Hf6) |]. split; [exact Hfu0 |].
    rewrite Heq. cbn [primary_loop]. unfold primary_step. rewrite Hc. unfold tk. cbv zeta.
    unfold parse_slice_index_or_type_inst. rewrite Hn. cbn [bind]. rewrite Hsk. cbn [bind andb].
    rewrite Hki. cbn [bind].
    rewrite (cur_is_toks s3 _ _ (KOp OBarackRight) Hat3).
    change (tok_is (tk OColon) (KOp OBarackRight)) with false. cbv iota.
    rewrite Hc3. unfold tk. cbv iota. rewrite Hn4. cbn [bind]. rewrite Hb4.
    rewrite Hkj. cbn [bind].
    rewrite (cur_is_toks s5 _ _ (KOp OBarackRight) Hat5).
    change (tok_is (tk OBarackRight) (KOp OBarackRight)) with true. cbv iota. cbn [bind app].
    rewrite Hx. reflexivity.
  - (* a[i:] *)
    destruct Hlo as (Hwi & HNi).
    pose proof (skipped_colon_expr2 false s2 i _ (wf2_wfg _ _ Hwi) Hat2) as Hsk.
    edestruct (HNi d s2) as (ni & s3 & Hki & Hei & Hat3 & Hf3); [side2 | exact Hat2 | clo | side2 | side2 |].
    pose proof (frame_trans _ _ _ Hf12 Hf3) as Hf13.
    destruct (at_toks_cur _ _ _ Hat3) as (p3 & Hc3).
    destruct (next_toks OPS _ _ (at_toks_rest' _ _ _ Hat3)) as (s4 & Hn4 & Hat4 & Hf4).
    pose proof (frame_trans _ _ _ Hf13 Hf4) as Hf14.
    destruct (expect_toks OPS s4 _ rst (KOp OBarackRight) 65 Hat4 eq_refl) as (p1 & s5 & Hx & Hat5 & Hf5).
    exists (mk A C GSlice [cur_pos A G D E s1; p1] [] [n; ni; nnone; nnone]), s5, f0.
    split; [simpl; rewrite He, Hei; reflexivity |]. split; [exact Hat5 |].
    split; [exact (frame_trans _ _ _ Hf14 Hf5) |]. split; [exact Hfu0 |].
    rewrite Heq. cbn [primary_loop]. unfold primary_step. rewrite Hc. unfold tk. cbv zeta.
    unfold parse_slice_index_or_type_inst. rewrite Hn. cbn [bind]. rewrite Hsk. cbn [bind andb].
    rewrite Hki. cbn [bind].
    rewrite (cur_is_toks s3 _ _ (KOp OBarackRight) Hat3).
    change (tok_is (tk OColon) (KOp OBarackRight)) with false. cbv iota.
    rewrite Hc3. unfold tk. cbv iota. rewrite Hn4. cbn [bind].
    rewrite (cur_is_toks s4 _ _ (KOp OBarackRight) Hat4).
    change (tok_is (tk OBarackRight) (KOp OBarackRight)) with true. cbv iota. cbn [bind app].
    rewrite Hx. reflexivity.
  - (* a[:j:k] *)
    destruct Hhi as (Hwj & HNj). destruct Hm as (Hwk & HNk).
    destruct (skipped_yes OPS s2 _ _ (KOp OColon) Hat2 eq_refl) as (s3 & Hsk & Hat3 & Hf3).
    pose proof (frame_trans _ _ _ Hf12 Hf3) as Hf13.
    destruct (cur_is_expr2 false s3 j _ (wf2_wfg _ _ Hwj) Hat3) as (Hb3 & _).
    edestruct (HNj d s3) as (nj & s4 & Hkj & Hej & Hat4 & Hf4); [side2 | exact Hat3 | clo | side2 | side2 |].
    pose proof (frame_trans _ _ _ Hf13 Hf4) as Hf14.
    destruct (at_toks_cur _ _ _ Hat4) as (p4 & Hc4).
    destruct (next_toks OPS _ _ (at_toks_rest' _ _ _ Hat4)) as (s5 & Hn5 & Hat5 & Hf5).
    pose proof (frame_trans _ _ _ Hf14 Hf5) as Hf15.
    destruct (cur_is_expr2 false s5 k _ (wf2_wfg _ _ Hwk) Hat5) as (Hb5 & _).
    edestruct (HNk d s5) as (nk & s6 & Hkk & Hek & Hat6 & Hf6); [side2 | exact Hat5 | clo | side2 | side2 |].
    pose proof (frame_trans _ _ _ Hf15 Hf6) as Hf16.
    destruct (expect_toks OPS s6 _ rst (KOp OBarackRight) 65 Hat6 eq_refl) as (p1 & s7 & Hx & Hat7 & Hf7).
    exists (mk A C GSlice [cur_pos A G D E s1; p1] [] [n; nnone; nj; nk]), s7, f0.
    split; [simpl; rewrite He, Hej, Hek; reflexivity |]. split; [exact Hat7 |].
    split; [exact (frame_trans _ _ _ Hf16 Hf7) |]. split; [exact Hfu0 |].
    rewrite Heq. cbn [primary_loop]. unfold primary_step. rewrite Hc. unfold tk. cbv zeta.
    unfold parse_slice_index_or_type_inst. rewrite Hn. cbn [bind]. rewrite Hsk. cbn [bind andb].
    rewrite Hb3. rewrite Hkj. cbn [bind].
    rewrite (cur_is_toks s4 _ _ (KOp OBarackRight) Hat4).
    change (tok_is (tk OColon) (KOp OBarackRight)) with false. cbv iota.
    rewrite Hc4. unfold tk. cbv iota. rewrite Hn5. cbn [bind]. rewrite Hb5.
    rewrite Hkk. cbn [bind].
    rewrite (cur_is_toks s6 _ _ (KOp OBarackRight) Hat6).
    change (tok_is (tk OBarackRight) (KOp OBarackRight)) with true. cbv iota. cbn [bind app].
    rewrite Hx. reflexivity.
  - (* a[:j] *)
    destruct Hhi as (Hwj & HNj).
    destruct (skipped_yes OPS s2 _ _ (KOp OColon) Hat2 eq_refl) as (s3 & Hsk & Hat3 & Hf3).
    pose proof (frame_trans _ _ _ Hf12 Hf3) as Hf13.
    destruct (cur_is_expr2 false s3 j _ (wf2_wfg _ _ Hwj) Hat3) as (Hb3 & _).
    edestruct (HNj d s3) as (nj & s4 & Hkj & Hej & Hat4 & Hf4); [side2 | exact Hat3 | clo | side2 | side2 |].
    pose proof (frame_trans _ _ _ Hf13 Hf4) as Hf14.
    destruct (expect_toks OPS s4 _ rst (KOp OBarackRight) 65 Hat4 eq_refl) as (p1 & s5 & Hx & Hat5 & Hf5).
    exists (mk A C GSlice [cur_pos A G D E s1; p1] [] [n; nnone; nj; nnone]), s5, f0.
    split; [simpl; rewrite He, Hej; reflexivity |]. split; [exact Hat5 |].
    split; [exact (frame_trans _ _ _ Hf14 Hf5) |]. split; [exact Hfu0 |].
    rewrite Heq. cbn [primary_loop]. unfold primary_step. rewrite Hc. unfold tk. cbv zeta.
    unfold parse_slice_index_or_type_inst. rewrite Hn. cbn [bind]. rewrite Hsk. cbn [bind andb].
    rewrite Hb3. rewrite Hkj. cbn [bind].
    rewrite (cur_is_toks s4 _ _ (KOp OBarackRight) Hat4).
    change (tok_is (tk OBarackRight) (KOp OBarackRight)) with true. cbv iota. cbn [bind app].
    rewrite Hx. reflexivity.
  - (* a[:] *)
    destruct (skipped_yes OPS s2 _ _ (KOp OColon) Hat2 eq_refl) as (s3 & Hsk & Hat3 & Hf3).
    pose proof (frame_trans _ _ _ Hf12 Hf3) as Hf13.
    destruct (expect_toks OPS s3 _ rst (KOp OBarackRight) 65 Hat3 eq_refl) as (p1 & s4 & Hx & Hat4 & Hf4).
    exists (mk A C GSlice [cur_pos A G D E s1; p1] [] [n; nnone; nnone; nnone]), s4, f0.
    split; [simpl; rewrite He; reflexivity |]. split; [exact Hat4 |].
    split; [exact (frame_trans _ _ _ Hf13 Hf4) |]. split; [exact Hfu0 |].
    rewrite Heq. cbn [primary_loop]. unfold primary_step. rewrite Hc. unfold tk. cbv zeta.
    unfold parse_slice_index_or_type_inst. rewrite Hn. cbn [bind]. rewrite Hsk. cbn [bind andb].
    rewrite (cur_is_toks s3 _ _ (KOp OBarackRight) Hat3).
    change (tok_is (tk OBarackRight) (KOp OBarackRight)) with true. cbv iota. cbn [bind].
    rewrite Hx. reflexivity.
Qed.

(* ---- index lists (generic instantiation) *)

Lemma idx_tail2 : forall r, Forall (fun b => wf2 false b /\ PNLP2 b) r ->
  forall d fuel acc (s : pstateT) rst,
    max2 need2 r + 2 <= d ->
    sdepth s + max2 depth2 r <= MAX_NESTING -> levw s (S (max2 depth2 r)) ->
    at_toks s (etail r ++ tk OBarackRight :: rst) ->
    length (etail r) + 1 <= fuel ->
    exists ns s1,
      index_comma_loop A G D C E OPS (PA d) fuel acc s = Ok (acc ++ map Some ns) s1 /\
      map erase ns = map shape2 r /\ at_toks s1 (tk OBarackRight :: rst) /\ frame s s1.
Proof.
  intros r Hall. induction Hall as [| b r (Hwb & HNb) Hall IH];
    intros d fuel acc s rst Hd Hdep Hlev Hat Hfu.
  - simpl in Hat. destruct fuel as [| f]; [lia |]. cbn [index_comma_loop].
    rewrite (skipped_no OPS s _ (KOp OComma) Hat) by reflexivity. cbn [bind].
    exists [], s. rewrite app_nil_r.
    split; [reflexivity |]. split; [reflexivity |]. split; [exact Hat | apply frame_refl].
  - rewrite max2_cons in Hd, Hdep, Hlev. cbn [etail flat_map] in Hat, Hfu.
    fold (etail r) in Hat, Hfu. simpl in Hat. rewrite <- app_assoc in Hat.
    destruct fuel as [| f]; [lia |]. cbn [index_comma_loop].
    destruct (skipped_yes OPS s _ _ (KOp OComma) Hat eq_refl) as (s1 & Hs & Hat1 & Hf1).
    rewrite Hs. cbn [bind].
    edestruct (HNb d s1) as (nb & s2 & Hk & Heb & Hat2 & Hf2);
      [side2 | exact Hat1 | | side2 | side2 |].
    { destruct r; simpl; apply efollow_close; reflexivity. }
    rewrite Hk. cbn [bind].
    pose proof (frame_trans _ _ _ Hf1 Hf2) as Hf12.
    destruct (IH d f (acc ++ [Some nb]) s2 rst) as (ns & s3 & Hl & Hes & Hat3 & Hf3);
      [side2 | side2 | side2 | exact Hat2 | |].
    { simpl in Hfu. rewrite app_length in Hfu. lia. }
    exists (nb :: ns), s3. split; [rewrite Hl, <- app_assoc; reflexivity |].
    split; [simpl; rewrite Heb, Hes; reflexivity |].
    split; [exact Hat3 | exact (frame_trans _ _ _ Hf12 Hf3)].
Qed.

Lemma PQ_indexlist2 : forall hdr e idx, wf2 hdr (E2IndexList e idx) -> PQP2 hdr e ->
  Forall (fun b => wf2 false b /\ PNLP2 b) idx -> PQP2 hdr (E2IndexList e idx).
Proof.
  intros hdr e idx Hwf HPQ Hall _ d s rst Hd Hat _ Hdep Hlev.
  cbn [wf2] in Hwf. destruct Hwf as (Hpr & Hbd & Hwf & _ & Hlen).
  destruct Hall as [| i1 r1 (Hw1 & HN1) Hall]; [simpl in Hlen; lia |].
  destruct Hall as [| i2 r2 Hi2 Hall]; [simpl in Hlen; lia |].
  assert (Hall2 : Forall (fun b => wf2 false b /\ PNLP2 b) (i2 :: r2)) by (constructor; assumption).
  clear Hi2 Hall Hlen.
  pose proof (lev_levw A G D E hdr s _ Hlev) as Hlw.
  cbn [print2] in Hat. msimp. rewrite max2_cons in Hd. rewrite max2_cons in Hdep. rewrite max2_cons in Hlev.
  rewrite max2_cons in Hlw.
  rewrite commas_cons2 in Hat.
  rewrite <- app_assoc in Hat. simpl in Hat.
  assert (Hof : forall r, opfollow e (tk OBarackLeft :: r))
    by (intro r; apply base_dot_opfollow; [exact Hbd | discriminate]).
  destruct (HPQ Hpr d s _ ltac:(ml) Hat (Hof _) ltac:(ml) ltac:(lev0 Hlev))
    as (n & s1 & fuel1 & He & Hat1 & Hf1 & Hfu1 & Heq).
  destruct (at_toks_cur _ _ _ Hat1) as (p & Hc).
  destruct (next_toks OPS _ _ (at_toks_rest' _ _ _ Hat1)) as (s2 & Hn & Hat2 & Hf2).
  pose proof (frame_trans _ _ _ Hf1 Hf2) as Hf12.
  destruct fuel1 as [| f0]; [simpl in Hfu1; lia |].
  assert (Hfu0 : length rst + 1 <= f0).
  { simpl in Hfu1; rewrite !app_length in Hfu1; simpl in Hfu1; lia. }
  repeat (rewrite <- app_assoc in Hat2; simpl in Hat2).
  pose proof (skipped_colon_expr2 false s2 i1 _ (wf2_wfg _ _ Hw1) Hat2) as Hsk.
  edestruct (HN1 d s2) as (n1 & s3 & Hk1 & He1 & Hat3 & Hf3);
    [side2 | exact Hat2 | | side2 | side2 |].
  { apply efollow_close; reflexivity. }
  pose proof (frame_trans _ _ _ Hf12 Hf3) as Hf13.
  destruct (at_toks_cur _ _ _ Hat3) as (p3 & Hc3).
  assert (Hat3' : at_toks s3 (etail (i2 :: r2) ++ tk OBarackRight :: rst)).
  { simpl. rewrite <- app_assoc. exact Hat3. }
  destruct (idx_tail2 (i2 :: r2) Hall2 d (loop_fuel A G D E s3) ([] ++ [Some n1]) s3 rst)
    as (ns & s4 & Hl & Hes & Hat4 & Hf4); [side2 | side2 | side2 | exact Hat3' | |].
  { pose proof (loop_fuel_toks s3 _ Hat3') as H. rewrite app_length in H. lia. }
  pose proof (frame_trans _ _ _ Hf13 Hf4) as Hf14.
  destruct (expect_toks OPS s4 _ rst (KOp OBarackRight) 65 Hat4 eq_refl) as (p1 & s5 & Hx & Hat5 & Hf5).
  exists (mk A C GIndexList [cur_pos A G D E s1; p1] [] [n; nlist (n1 :: ns)]), s5, f0.
  split; [simpl; rewrite He, He1; change (fun x : nodeT => erase x) with erase; rewrite Hes;
          reflexivity |].
  split; [exact Hat5 |]. split; [exact (frame_trans _ _ _ Hf14 Hf5) |]. split; [exact Hfu0 |].
  rewrite Heq. cbn [primary_loop]. unfold primary_step. rewrite Hc. unfold tk. cbv zeta.
  unfold parse_slice_index_or_type_inst. rewrite Hn. cbn [bind]. rewrite Hsk. cbn [bind andb].
  rewrite Hk1. cbn [bind].
  rewrite (cur_is_toks s3 _ _ (KOp OBarackRight) Hat3).
  change (tok_is (tk OComma) (KOp OBarackRight)) with false. cbv iota.
  rewrite Hc3. unfold tk. cbv iota. rewrite Hl. cbn [bind]. rewrite Hx. cbn [bind].
  cbn [app flat_map]. rewrite flat_map_some. reflexivity.
Qed.

(* ------------------------------------------------------------ 4. the old constructors *)

Notation IHE := (IHE A G D C E OPS).

Lemma IHE_PNLP2 : forall n e, IHE n -> size2 e < n -> wf2 false e -> PNLP2 e.
Proof.
  intros n e (_ & IH2 & _) Hs Hwf. apply KE2_PNLP2. exact (IH2 e false Hs Hwf).
Qed.

Lemma IHE_args : forall n args, IHE n -> sum2 size2 args < n -> all2 (wf2 false) args ->
  Forall (fun b => wf2 false b /\ PNLP2 b) args.
Proof.
  intros n args HI. induction args as [| a r IH]; intros Hs Hw; [constructor |].
  simpl in Hs, Hw. destruct Hw as (Hwa & Hwr). constructor.
  - split; [exact Hwa |]. apply (IHE_PNLP2 n a HI); [lia | exact Hwa].
  - apply IH; [lia | exact Hwr].
Qed.

Lemma IHE_opt : forall n o, IHE n -> omax size2 o < n -> opt2 (wf2 false) o -> optPNLP2 o.
Proof.
  intros n [x |] HI Hs Hw; [| exact I]. simpl in Hs, Hw.
  split; [exact Hw |]. exact (IHE_PNLP2 n x HI Hs Hw).
Qed.

Theorem old_contracts : forall e hdr, IHE (size2 e) -> wf2 hdr e ->
  (match e with E2Type _ | E2FuncLit _ _ | E2Composite _ _ | E2Assert _ _ => False | _ => True end) ->
  QP2 hdr e /\ UP2 hdr e /\ PQP2 hdr e.
Proof.
  intros e hdr HI Hwf Hold. pose proof HI as (IH1 & IH2 & _).
  destruct e as [name | k text | e | op e | op l r | f args ddd | e name | e i | e idx
                 | e lo hi mx | t | sg body | ty elems | e t]; try (destruct Hold);
    cbn [size2] in HI, IH1, IH2.
  - apply primary_contracts; [exact (wf2_wfg _ _ Hwf) | exact I | apply PQ_ident2].
  - apply primary_contracts; [exact (wf2_wfg _ _ Hwf) | exact I | apply PQ_lit2; exact Hwf].
  - apply primary_contracts; [exact (wf2_wfg _ _ Hwf) | exact I |]. apply PQ_paren2.
    apply (IHE_PNLP2 _ e HI); [lia | exact Hwf].
  - pose proof Hwf as Hwf'. cbn [wf2] in Hwf'. destruct Hwf' as (_ & _ & He & _).
    destruct (IH1 e hdr ltac:(lia) He) as (_ & HUe & _).
    pose proof (U_unary2 hdr op e Hwf HUe) as HU.
    split; [apply UP2_QP2; [exact I | exact HU] |]. split; [exact HU | intros []].
  - pose proof Hwf as Hwf'. cbn [wf2] in Hwf'. destruct Hwf' as (_ & _ & _ & Hl & Hr & _).
    destruct (IH1 l hdr ltac:(lia) Hl) as (HQl & _ & _).
    destruct (IH1 r hdr ltac:(lia) Hr) as (HQr & _ & _).
    split; [apply Q_binary2; assumption |]. split; intros [].
  - pose proof Hwf as Hwf'. cbn [wf2] in Hwf'. destruct Hwf' as (_ & _ & Hf & Ha & _).
    destruct (IH1 f hdr ltac:(lia) Hf) as (_ & _ & HPQf).
    apply primary_contracts; [exact (wf2_wfg _ _ Hwf) | exact I |].
    apply PQ_call2; [exact Hwf | exact HPQf |]. apply (IHE_args _ args HI); [lia | exact Ha].
  - pose proof Hwf as Hwf'. cbn [wf2] in Hwf'. destruct Hwf' as (_ & _ & He).
    destruct (IH1 e hdr ltac:(lia) He) as (_ & _ & HPQe).
    apply primary_contracts; [exact (wf2_wfg _ _ Hwf) | exact I |].
    apply PQ_selector2; [exact Hwf | exact HPQe].
  - pose proof Hwf as Hwf'. cbn [wf2] in Hwf'. destruct Hwf' as (_ & _ & He & Hi).
    destruct (IH1 e hdr ltac:(lia) He) as (_ & _ & HPQe).
    apply primary_contracts; [exact (wf2_wfg _ _ Hwf) | exact I |].
    apply PQ_index2; [exact Hwf | exact HPQe |]. apply (IHE_PNLP2 _ i HI); [lia | exact Hi].
  - pose proof Hwf as Hwf'. cbn [wf2] in Hwf'. destruct Hwf' as (_ & _ & He & Ha & _).
    destruct (IH1 e hdr ltac:(lia) He) as (_ & _ & HPQe).
    apply primary_contracts; [exact (wf2_wfg _ _ Hwf) | exact I |].
    apply PQ_indexlist2; [exact Hwf | exact HPQe |]. apply (IHE_args _ idx HI); [lia | exact Ha].
  - pose proof Hwf as Hwf'. cbn [wf2] in Hwf'. destruct Hwf' as (_ & _ & He & Hlo & Hhi & Hm & _).
    destruct (IH1 e hdr ltac:(lia) He) as (_ & _ & HPQe).
    apply primary_contracts; [exact (wf2_wfg _ _ Hwf) | exact I |].
    apply PQ_slice2; [exact Hwf | exact HPQe | | |].
    + apply (IHE_opt _ lo HI); [lia | exact Hlo].
    + apply (IHE_opt _ hi HI); [lia | exact Hhi].
    + apply (IHE_opt _ mx HI); [lia | exact Hm].
Qed.

End RT2.

(* ------------------------------------------------------------ the exclusion [star_ok] *)

(* `func ( ) * x`: as a product (excluded by star_ok / wf2) and as the parser
   reads it, the func type with result *x.  Same printing, different trees; the
   parser returns the second. *)
Definition star_witness : exp2 :=
  E2Binary OStar (E2Type (TFunc (Sig [] false []))) (E2Ident [120%N]).
Definition star_reading : exp2 :=
  E2Type (TFunc (Sig [] false [Group [] false (TPtr (TName [120%N]))])).

Example star_witness_reparse :
  print2 star_witness = print2 star_reading /\
  demo_shape (print2 star_witness) = Some (shape2 star_reading) /\
  shape2 star_witness <> shape2 star_reading /\
  ~ star_ok star_witness /\ (forall hdr, ~ wf2 hdr star_witness).
Proof.
  split; [reflexivity |]. split; [vm_compute; reflexivity |].
  split; [discriminate |]. split.
  - intro H. apply H. reflexivity.
  - intros hdr H. apply (wf2_star_ok hdr _) in H. apply H. reflexivity.
Qed.
