(* Round trip, stages A-D: the recursion fuel of the theorems bounded by the
   number of TOKENS.

   The measures needT / need2 / need_elemv / need_stmt2 / need_funcdecl /
   need_file are "constant + max over the parts"; every constructor prints
   tokens of its own, and the constant it adds is at most 13 per own token:

     need.. x <= 13 * length (print.. x)

   13 is the smallest constant for which this holds without well-formedness
   hypotheses: need_elemv (VExpr (E2Type (TName n))) = 1 + (6 + (2 + 4)) = 13,
   printed as the single token n.  The induction carries a little slack where a
   constructor prints nothing of its own (E2Type: needT t + 11, VExpr:
   need2 e + 1). *)
From Coq Require Import List Arith NArith Lia Bool.
From GoSyn Require Import Token Tok Ast Core.
From GoSyn.spec Require Import Prec Print Print2 Print3.
From GoSyn.proofs Require Import PrecProofs RoundTripProofs RoundTripTypesBase RoundTripTypes
  RoundTripBase2 RoundTripAll.
Import ListNotations.

(* ------------------------------------------------------------ 0. lists *)

Ltac lens := repeat (rewrite app_length || (progress cbn [length])).

Lemma In_sum2' : forall (Y : Type) (f : Y -> nat) l a, In a l -> f a <= sum2 f l.
Proof.
  intros Y f l a. induction l as [| b r IH]; simpl; [intros [] |].
  intros [-> | H]; [lia | specialize (IH H); lia].
Qed.

Section ListBounds.
Variable Y : Type.
Variable f : Y -> nat.
Variable p : Y -> list token.

Lemma max2_flat : forall l, (forall a, In a l -> f a <= 13 * length (p a)) ->
  max2 f l <= 13 * length (flat_map p l).
Proof.
  induction l as [| a r IH]; intro H; simpl; [lia |].
  rewrite app_length.
  pose proof (H a (or_introl eq_refl)).
  assert (max2 f r <= 13 * length (flat_map p r)) by (apply IH; intros b Hb; apply H; right; exact Hb).
  lia.
Qed.

Lemma max2_sep : forall (t : token) l, (forall a, In a l -> f a <= 13 * length (p a)) ->
  max2 f l <= 13 * length (flat_map (fun y => t :: y) (map p l)).
Proof.
  intros t. induction l as [| a r IH]; intro H; simpl; [lia |].
  rewrite app_length.
  pose proof (H a (or_introl eq_refl)).
  assert (max2 f r <= 13 * length (flat_map (fun y => t :: y) (map p r)))
    by (apply IH; intros b Hb; apply H; right; exact Hb).
  lia.
Qed.

Lemma max2_commas : forall l, (forall a, In a l -> f a <= 13 * length (p a)) ->
  max2 f l <= 13 * length (commas (map p l)).
Proof.
  intros [| a r] H; simpl; [lia |]. rewrite app_length.
  pose proof (H a (or_introl eq_refl)).
  assert (max2 f r <= 13 * length (flat_map (fun y => tk OComma :: y) (map p r)))
    by (apply max2_sep; intros b Hb; apply H; right; exact Hb).
  lia.
Qed.

Lemma max2_bars : forall l, (forall a, In a l -> f a <= 13 * length (p a)) ->
  max2 f l <= 13 * length (bars (map p l)).
Proof.
  intros [| a r] H; simpl; [lia |]. rewrite app_length.
  pose proof (H a (or_introl eq_refl)).
  assert (max2 f r <= 13 * length (flat_map (fun y => tk OOr :: y) (map p r)))
    by (apply max2_sep; intros b Hb; apply H; right; exact Hb).
  lia.
Qed.
End ListBounds.

(* ------------------------------------------------------------ 1. types, generic in X *)

Section TypTokens.
Variable X : Type.
Variable printX : X -> list token.
Variable needX : X -> nat.
Variable f : X -> nat.          (* a size on X *)
Notation typ := (typ X).
Notation printT := (printT printX).
Notation needT := (needT needX).
Notation bound t := (needT t + 11 <= 13 * length (printT t)).

Definition szG (g : group typ) : nat := sizeX f (group_t g).
Definition szI (e : ielem typ) : nat :=
  match e with
  | IMethod _ (Sig ps _ rs) => S (sumT szG ps + sumT szG rs)
  | IUnion terms => S (sumT (fun bt : bool * typ => sizeX f (snd bt)) terms)
  end.
Definition ndI (e : ielem typ) : nat :=
  match e with
  | IMethod _ (Sig ps _ rs) => 4 + Nat.max (max2 (needG needX) ps) (max2 (needG needX) rs)
  | IUnion terms => 4 + max2 (fun bt : bool * typ => needT (snd bt)) terms
  end.

Lemma printG_len : forall g : group typ, length (printT (group_t g)) <= length (printG printX g).
Proof. intros [names v t]. unfold printG. simpl group_t. lens. lia. Qed.

Lemma printTerm_len : forall bt : bool * typ, length (printT (snd bt)) <= length (printTerm printX bt).
Proof. intros [b t]. unfold printTerm. lens. simpl. lia. Qed.

(* a list of groups (names type) whose types satisfy the bound *)
Lemma groups_tok : forall l : list (group typ),
  (forall g, In g l -> bound (group_t g)) ->
  max2 (needG needX) l <= 13 * length (commas (map (printG printX) l)).
Proof.
  intros l H. apply max2_commas. intros g Hg. unfold needG.
  pose proof (H g Hg). pose proof (printG_len g). lia.
Qed.

Lemma sig_tok : forall ps paren rs,
  (forall g, In g ps -> bound (group_t g)) -> (forall g, In g rs -> bound (group_t g)) ->
  Nat.max (max2 (needG needX) ps) (max2 (needG needX) rs) + 26 <=
  13 * length (printSig printX (Sig ps paren rs)).
Proof.
  intros ps paren rs Hp Hr. pose proof (groups_tok ps Hp). pose proof (groups_tok rs Hr).
  unfold printSig. destruct paren; lens; lia.
Qed.

Lemma needT_tokens_size : forall n (t : typ), sizeX f t <= n ->
  (forall x, f x < sizeX f t -> needX x <= 13 * length (printX x)) -> bound t.
Proof.
  induction n as [| n IH]; intros t Hn HX; [pose proof (sizeX_pos X f t); lia |].
  assert (HP : forall a : typ, sizeX f a < sizeX f t -> bound a).
  { intros a Ha. apply IH; [lia | intros x Hx; apply HX; lia]. }
  clear IH.
  assert (HG : forall l : list (group typ), sumT szG l < sizeX f t ->
                 forall g, In g l -> bound (group_t g)).
  { intros l Hl g Hg. apply HP. pose proof (sumT_In _ szG l g Hg). unfold szG in H at 1. lia. }
  destruct t as [name | pkg name | b args | t | t | x t | t | k v | dir t | t | sg | fs | es].
  - simpl. lia.
  - simpl. lia.
  - change (needT (TInst b args)) with (4 + max2 needT args).
    change (printT (TInst b args)) with
      (printT b ++ tk OBarackLeft :: commas (map printT args) ++ [tk OBarackRight]).
    change (sizeX f (TInst b args)) with (S (sizeX f b + sumT (sizeX f) args)) in HP.
    assert (H : max2 needT args <= 13 * length (commas (map printT args))).
    { apply max2_commas. intros a Ha. pose proof (sumT_In _ (sizeX f) args a Ha).
      assert (bound a) by (apply HP; lia). lia. }
    lens. lia.
  - assert (bound t) by (apply HP; simpl; lia). simpl. lia.
  - assert (bound t) by (apply HP; simpl; lia). simpl. lia.
  - assert (bound t) by (apply HP; simpl; lia).
    assert (needX x <= 13 * length (printX x)) by (apply HX; simpl; lia).
    change (needT (TArray x t)) with (4 + Nat.max (needX x + 2) (needT t)).
    change (printT (TArray x t)) with (tk OBarackLeft :: printX x ++ tk OBarackRight :: printT t).
    lens. lia.
  - assert (bound t) by (apply HP; simpl; lia). simpl. lia.
  - assert (bound k) by (apply HP; simpl; lia). assert (bound v) by (apply HP; simpl; lia).
    change (needT (TMap k v)) with (4 + Nat.max (needT k) (needT v)).
    change (printT (TMap k v)) with
      (kw KMap :: tk OBarackLeft :: printT k ++ tk OBarackRight :: printT v).
    lens. lia.
  - assert (bound t) by (apply HP; simpl; lia). destruct dir; simpl; lia.
  - assert (bound t) by (apply HP; simpl; lia).
    change (needT (TParen t)) with (4 + needT t).
    change (printT (TParen t)) with (tk OParenLeft :: printT t ++ [tk OParenRight]).
    lens. lia.
  - destruct sg as [ps paren rs]. rewrite printT_func.
    change (needT (TFunc (Sig ps paren rs))) with
      (4 + Nat.max (max2 (needG needX) ps) (max2 (needG needX) rs)).
    change (sizeX f (TFunc (Sig ps paren rs))) with (S (sumT szG ps + sumT szG rs)) in HG.
    pose proof (sig_tok ps paren rs (HG ps ltac:(lia)) (HG rs ltac:(lia))).
    lens. lia.
  - rewrite printT_struct.
    change (needT (TStruct fs)) with
      (4 + max2 (fun fd : sfield typ => match fd with Field _ t _ => needT t end) fs).
    change (sizeX f (TStruct fs)) with
      (S (sumT (fun fd : sfield typ => match fd with Field _ t _ => sizeX f t end) fs)) in HP.
    assert (H : max2 (fun fd : sfield typ => match fd with Field _ t _ => needT t end) fs <=
                13 * length (flat_map (printF printX) fs)).
    { apply max2_flat. intros [names t tag] Ha.
      pose proof (sumT_In _ (fun fd : sfield typ => match fd with Field _ t _ => sizeX f t end)
                    fs _ Ha) as Hs. simpl in Hs.
      assert (bound t) by (apply HP; lia). unfold printF. lens. lia. }
    lens. lia.
  - rewrite printT_interface.
    change (needT (TInterface es)) with (4 + max2 ndI es).
    change (sizeX f (TInterface es)) with (S (sumT szI es)) in HP, HG.
    assert (H : max2 ndI es <= 13 * length (flat_map (printI printX) es)).
    { apply max2_flat. intros e Ha. pose proof (sumT_In _ szI es e Ha) as Hs.
      destruct e as [name [ps paren rs] | terms]; cbn [szI ndI printI] in *.
      - pose proof (sig_tok ps paren rs (HG ps ltac:(lia)) (HG rs ltac:(lia))). lens. lia.
      - assert (Ht : max2 (fun bt : bool * typ => needT (snd bt)) terms <=
                     13 * length (printUnion printX terms)).
        { unfold printUnion. apply max2_bars. intros bt Hb.
          pose proof (sumT_In _ (fun bt : bool * typ => sizeX f (snd bt)) terms bt Hb) as Hs2.
          simpl in Hs2. assert (bound (snd bt)) by (apply HP; lia).
          pose proof (printTerm_len bt). lia. }
        lens. lia. }
    lens. lia.
Qed.

End TypTokens.

Theorem needT_tokens_slack : forall (X : Type) (printX : X -> list token) (needX : X -> nat),
  (forall x, needX x <= 13 * length (printX x)) ->
  forall t : typ X, needT needX t + 11 <= 13 * length (printT printX t).
Proof.
  intros X printX needX H t.
  apply (needT_tokens_size X printX needX (fun _ => 0) (sizeX (fun _ => 0) t) t (le_n _)).
  intros x _. apply H.
Qed.

Theorem needT_tokens : forall (X : Type) (printX : X -> list token) (needX : X -> nat),
  (forall x, needX x <= 13 * length (printX x)) ->
  forall t : typ X, needT needX t <= 13 * length (printT printX t).
Proof. intros X printX needX H t. pose proof (needT_tokens_slack X printX needX H t). lia. Qed.

(* ------------------------------------------------------------ 2. the pieces of statements *)

Section PieceTokens.
Variable E : Type.
Variables (fe sz : E -> nat) (pe : E -> list token) (n : nat).
Hypothesis HE : forall e, sz e < n -> fe e <= 13 * length (pe e).

Lemma exprs_tok : forall l, sum2 sz l < n -> max2 fe l <= 13 * length (commas (map pe l)).
Proof.
  intros l Hs. apply max2_commas. intros a Ha. apply HE.
  pose proof (In_sum2' _ sz l a Ha). lia.
Qed.

Lemma simple_tok : forall s, m_simple Nat.add sz s < n ->
  m_simple Nat.max fe s <= 13 * length (print_simple pe s).
Proof.
  intros [e | op l r | op e | ch v] Hs; cbn [m_simple print_simple] in *.
  - apply HE; exact Hs.
  - change (foldl E Nat.add sz l) with (sum2 sz l) in Hs.
    change (foldl E Nat.add sz r) with (sum2 sz r) in Hs.
    change (foldl E Nat.max fe l) with (max2 fe l).
    change (foldl E Nat.max fe r) with (max2 fe r).
    pose proof (exprs_tok l ltac:(lia)). pose proof (exprs_tok r ltac:(lia)). lens. lia.
  - pose proof (HE e Hs). lens. lia.
  - pose proof (HE ch ltac:(lia)). pose proof (HE v ltac:(lia)). lens. lia.
Qed.

Lemma osimple_tok : forall o, m_osimple Nat.add sz o < n ->
  m_osimple Nat.max fe o <= 13 * length (print_osimple pe o).
Proof.
  intros [s |] Hs; cbn [m_osimple print_osimple] in *; [apply simple_tok; exact Hs | lia].
Qed.

Lemma init_tok : forall o, m_osimple Nat.add sz o < n ->
  m_osimple Nat.max fe o <=
  13 * length (match o with Some i => print_simple pe i ++ [tk OSemiColon] | None => [] end).
Proof.
  intros [s |] Hs; cbn [m_osimple] in *; [| lia].
  pose proof (simple_tok s Hs). lens. lia.
Qed.

Lemma forhdr_tok : forall h, m_forhdr Nat.add sz h < n ->
  m_forhdr Nat.max fe h <= 13 * length (print_forhdr pe h).
Proof.
  intros [c | i c p] Hs; cbn [m_forhdr print_forhdr] in *.
  - apply osimple_tok; exact Hs.
  - pose proof (osimple_tok i ltac:(lia)). pose proof (osimple_tok c ltac:(lia)).
    pose proof (osimple_tok p ltac:(lia)). lens. lia.
Qed.

Lemma comm_tok : forall c, m_comm Nat.add sz c < n ->
  m_comm Nat.max fe c <= 13 * length (print_comm pe c).
Proof.
  intros [ch v | l op r | e] Hs; cbn [m_comm print_comm] in *.
  - pose proof (HE ch ltac:(lia)). pose proof (HE v ltac:(lia)). lens. lia.
  - change (foldl E Nat.add sz l) with (sum2 sz l) in Hs.
    change (foldl E Nat.max fe l) with (max2 fe l).
    pose proof (exprs_tok l ltac:(lia)). pose proof (HE r ltac:(lia)). lens. lia.
  - apply HE; exact Hs.
Qed.
End PieceTokens.

(* ------------------------------------------------------------ 3. expressions, literal values, statements *)

Definition ndE (kv : option elemv * elemv) : nat :=
  Nat.max (omax need_elemv (fst kv)) (need_elemv (snd kv)).
Definition szE (kv : option elemv * elemv) : nat := omax size_elemv (fst kv) + size_elemv (snd kv).
Definition ndT4 (t : typ2) : nat := needT need2 t + 4.
Definition ndCase (cl : option (list exp2) * list stmt2) : nat :=
  Nat.max (omax (max2 need2) (fst cl)) (6 + max2 need_stmt2 (snd cl)).
Definition szCase (cl : option (list exp2) * list stmt2) : nat :=
  S (omax (sum2 size2) (fst cl) + sum2 size_stmt (snd cl)).
Definition ndTCase (cl : option (list typ2) * list stmt2) : nat :=
  Nat.max (omax (max2 ndT4) (fst cl)) (6 + max2 need_stmt2 (snd cl)).
Definition szTCase (cl : option (list typ2) * list stmt2) : nat :=
  S (omax (sum2 (sizeX size2)) (fst cl) + sum2 size_stmt (snd cl)).
Definition ndCCase (cl : option (comm exp2) * list stmt2) : nat :=
  Nat.max (omax (m_comm Nat.max need2) (fst cl)) (6 + max2 need_stmt2 (snd cl)).
Definition szCCase (cl : option (comm exp2) * list stmt2) : nat :=
  S (omax (m_comm Nat.add size2) (fst cl) + sum2 size_stmt (snd cl)).
Definition ndTerm (bt : bool * typ2) : nat := ndT4 (snd bt).
Definition ndTG (g : list str * list (bool * typ2)) : nat := max2 ndTerm (snd g).
Definition szTG (g : list str * list (bool * typ2)) : nat :=
  sum2 (fun bt : bool * typ2 => sizeX size2 (snd bt)) (snd g).
Definition ndSpec (sp : spec2) : nat :=
  match sp with
  | SpVar _ ty vals | SpConst _ ty vals => Nat.max (max2 need2 vals) (omax ndT4 ty)
  | SpType _ _ t => ndT4 t
  | SpTypeG _ tps _ t => Nat.max (max2 ndTG tps) (ndT4 t)
  end.
Definition szSpec (sp : spec2) : nat :=
  match sp with
  | SpVar _ ty vals | SpConst _ ty vals => S (sum2 size2 vals + omax (sizeX size2) ty)
  | SpType _ _ t => S (sizeX size2 t)
  | SpTypeG _ tps _ t => S (sum2 szTG tps + sizeX size2 t)
  end.
Definition print_tg (g : list str * list (bool * typ2)) : list token :=
  printNames (fst g) ++
  bars (map (fun bt : bool * typ2 => (if fst bt then [tk OTiled] else []) ++ printT print2 (snd bt))
          (snd g)).

Definition print_else' (els : option stmt2) : list token :=
  match els with
  | None => [tk OSemiColon]
  | Some (StBlock b) =>
      kw KElse :: tk OBraceLeft :: flat_map print_stmt b ++ [tk OBraceRight; tk OSemiColon]
  | Some st => kw KElse :: print_stmt st
  end.

Definition PT (n : nat) : Prop :=
  (forall e, size2 e < n -> need2 e + 1 <= 13 * length (print2 e)) /\
  (forall v, size_elemv v < n -> need_elemv v <= 13 * length (print_elemv v)) /\
  (forall st, size_stmt st < n -> need_stmt2 st <= 13 * length (print_stmt st)).

Lemma PT_step : forall n, PT n -> PT (S n).
Proof.
  intros n (H1 & H2 & H3).
  assert (HEw : forall e, size2 e < n -> need2 e <= 13 * length (print2 e)).
  { intros e He. pose proof (H1 e He). lia. }
  assert (HT : forall t : typ2, sizeX size2 t <= n ->
                 needT need2 t + 11 <= 13 * length (printT print2 t)).
  { intros t Ht.
    apply (needT_tokens_size exp2 print2 need2 size2 (sizeX size2 t) t (le_n _)).
    intros x Hx. apply HEw. lia. }
  pose proof (exprs_tok exp2 need2 size2 print2 n HEw) as HL.
  pose proof (simple_tok exp2 need2 size2 print2 n HEw) as HSm.
  pose proof (init_tok exp2 need2 size2 print2 n HEw) as HInit.
  pose proof (forhdr_tok exp2 need2 size2 print2 n HEw) as HFor.
  pose proof (comm_tok exp2 need2 size2 print2 n HEw) as HComm.
  assert (HB : forall body, sum2 size_stmt body < n ->
                 max2 need_stmt2 body <= 13 * length (flat_map print_stmt body)).
  { intros body Hs. apply max2_flat. intros a Ha. apply H3.
    pose proof (In_sum2' _ size_stmt body a Ha). lia. }
  assert (HO : forall o, omax size2 o < n -> omax need2 o <= 13 * length (popt print2 o)).
  { intros [x |] Hs; cbn [omax popt] in *; [apply HEw; exact Hs | lia]. }
  assert (HEl : forall elems : elems2, sum2 szE elems < n ->
                  max2 ndE elems <= 13 * length (commas (map print_elem elems))).
  { intros elems Hs. apply max2_commas. intros [k v] Ha.
    pose proof (In_sum2' _ szE elems _ Ha) as Hle. unfold szE, ndE, print_elem in *.
    cbn [fst snd] in *. pose proof (H2 v ltac:(lia)).
    destruct k as [k |]; cbn [omax] in *; [pose proof (H2 k ltac:(lia)) |]; lens; lia. }
  assert (HTs : forall ts : list typ2, sum2 (sizeX size2) ts <= n ->
                  max2 ndT4 ts <= 13 * length (commas (map (printT print2) ts))).
  { intros ts Hs. apply max2_commas. intros a Ha. unfold ndT4.
    pose proof (In_sum2' _ (sizeX size2) ts a Ha). pose proof (HT a ltac:(lia)). lia. }
  assert (HElse : forall els, omax size_stmt els < n ->
                    omax need_stmt2 els <= 13 * length (print_else' els)).
  { intros [st |] Hs; cbn [omax] in *; [| simpl; lia].
    pose proof (H3 st Hs) as Hst.
    destruct st; try (unfold print_else'; lens; lia).
    change (print_stmt (StBlock body)) with
      (tk OBraceLeft :: flat_map print_stmt body ++ [tk OBraceRight]) in Hst.
    unfold print_else'. revert Hst. lens. lia. }
  split; [| split].
  - (* expressions *)
    intros e He.
    destruct e as [name | k text | e | op e | op l r | fn args ddd | e name | e i | e idx
                   | e lo hi mx | t | sg body | ty elems | e t].
    + simpl. lia.
    + simpl. lia.
    + change (size2 (E2Paren e)) with (S (size2 e)) in He.
      change (need2 (E2Paren e)) with (6 + need2 e).
      change (print2 (E2Paren e)) with (tk OParenLeft :: print2 e ++ [tk OParenRight]).
      pose proof (H1 e ltac:(lia)). lens. lia.
    + change (size2 (E2Unary op e)) with (S (size2 e)) in He.
      change (need2 (E2Unary op e)) with (S (need2 e)).
      change (print2 (E2Unary op e)) with (tk op :: print2 e).
      pose proof (H1 e ltac:(lia)). lens. lia.
    + change (size2 (E2Binary op l r)) with (S (size2 l + size2 r)) in He.
      change (need2 (E2Binary op l r)) with (S (Nat.max (need2 l) (need2 r))).
      change (print2 (E2Binary op l r)) with (print2 l ++ tk op :: print2 r).
      pose proof (H1 l ltac:(lia)). pose proof (H1 r ltac:(lia)). lens. lia.
    + change (size2 (E2Call fn args ddd)) with (S (size2 fn + sum2 size2 args)) in He.
      change (need2 (E2Call fn args ddd)) with (Nat.max (need2 fn) (6 + max2 need2 args)).
      change (print2 (E2Call fn args ddd)) with
        (print2 fn ++ tk OParenLeft :: commas (map print2 args) ++
         (if ddd then [tk ODotDotDot] else []) ++ [tk OParenRight]).
      pose proof (H1 fn ltac:(lia)). pose proof (HL args ltac:(lia)). lens. lia.
    + change (size2 (E2Selector e name)) with (S (size2 e)) in He.
      change (need2 (E2Selector e name)) with (need2 e).
      change (print2 (E2Selector e name)) with (print2 e ++ [tk ODot; TLiteral LIdent name]).
      pose proof (H1 e ltac:(lia)). lens. lia.
    + change (size2 (E2Index e i)) with (S (size2 e + size2 i)) in He.
      change (need2 (E2Index e i)) with (Nat.max (need2 e) (6 + need2 i)).
      change (print2 (E2Index e i)) with
        (print2 e ++ tk OBarackLeft :: print2 i ++ [tk OBarackRight]).
      pose proof (H1 e ltac:(lia)). pose proof (H1 i ltac:(lia)). lens. lia.
    + change (size2 (E2IndexList e idx)) with (S (size2 e + sum2 size2 idx)) in He.
      change (need2 (E2IndexList e idx)) with (Nat.max (need2 e) (6 + max2 need2 idx)).
      change (print2 (E2IndexList e idx)) with
        (print2 e ++ tk OBarackLeft :: commas (map print2 idx) ++ [tk OBarackRight]).
      pose proof (H1 e ltac:(lia)). pose proof (HL idx ltac:(lia)). lens. lia.
    + change (size2 (E2Slice e lo hi mx)) with
        (S (size2 e + omax size2 lo + omax size2 hi + omax size2 mx)) in He.
      change (need2 (E2Slice e lo hi mx)) with
        (Nat.max (need2 e)
           (6 + Nat.max (omax need2 lo) (Nat.max (omax need2 hi) (omax need2 mx)))).
      change (print2 (E2Slice e lo hi mx)) with
        (print2 e ++ tk OBarackLeft :: popt print2 lo ++ tk OColon :: popt print2 hi ++
         match mx with Some x => tk OColon :: print2 x | None => [] end ++ [tk OBarackRight]).
      pose proof (H1 e ltac:(lia)). pose proof (HO lo ltac:(lia)). pose proof (HO hi ltac:(lia)).
      assert (omax need2 mx <=
              13 * length (match mx with Some x => tk OColon :: print2 x | None => [] end)).
      { pose proof (HO mx ltac:(lia)) as Hm. destruct mx; cbn [omax popt] in *; lens; lia. }
      lens. lia.
    + change (size2 (E2Type t)) with (S (sizeX size2 t)) in He.
      change (need2 (E2Type t)) with (6 + (needT need2 t + 4)).
      change (print2 (E2Type t)) with (printT print2 t).
      pose proof (HT t ltac:(lia)). lia.
    + change (size2 (E2FuncLit sg body)) with
        (S (sizeX size2 (TFunc sg) + sum2 size_stmt body)) in He.
      change (need2 (E2FuncLit sg body)) with
        (6 + (needT need2 (TFunc sg) + 4) + max2 need_stmt2 body).
      change (print2 (E2FuncLit sg body)) with
        (kw KFunc :: printSig print2 sg ++ tk OBraceLeft :: flat_map print_stmt body ++
         [tk OBraceRight]).
      pose proof (HT (TFunc sg) ltac:(lia)) as Hsg. rewrite printT_func in Hsg.
      pose proof (HB body ltac:(lia)). revert Hsg. lens. lia.
    + change (size2 (E2Composite ty elems)) with (S (size2 ty + sum2 szE elems)) in He.
      change (need2 (E2Composite ty elems)) with (Nat.max (need2 ty) (6 + max2 ndE elems)).
      change (print2 (E2Composite ty elems)) with
        (print2 ty ++ tk OBraceLeft :: commas (map print_elem elems) ++ [tk OBraceRight]).
      pose proof (H1 ty ltac:(lia)). pose proof (HEl elems ltac:(lia)). lens. lia.
    + change (size2 (E2Assert e t)) with (S (size2 e + omax (sizeX size2) t)) in He.
      change (need2 (E2Assert e t)) with (Nat.max (need2 e) (6 + omax ndT4 t)).
      change (print2 (E2Assert e t)) with
        (print2 e ++ tk ODot :: tk OParenLeft ::
         match t with Some t => printT print2 t | None => [kw KType] end ++ [tk OParenRight]).
      pose proof (H1 e ltac:(lia)).
      destruct t as [t |]; cbn [omax] in *.
      * pose proof (HT t ltac:(lia)). unfold ndT4. lens. lia.
      * lens. lia.
  - (* literal values *)
    intros v Hv. destruct v as [e | elems].
    + change (size_elemv (VExpr e)) with (S (size2 e)) in Hv.
      change (need_elemv (VExpr e)) with (S (need2 e)).
      change (print_elemv (VExpr e)) with (print2 e).
      pose proof (H1 e ltac:(lia)). lia.
    + change (size_elemv (VLit elems)) with (S (sum2 szE elems)) in Hv.
      change (need_elemv (VLit elems)) with (6 + max2 ndE elems).
      change (print_elemv (VLit elems)) with
        (tk OBraceLeft :: commas (map print_elem elems) ++ [tk OBraceRight]).
      pose proof (HEl elems ltac:(lia)). lens. lia.
  - (* statements *)
    intros st Hs.
    destruct st as [sm | name st | body | c | c | es | k lbl | | init cond body els | h body
                    | lhs op x body | init tag cls | init bd x cls | cls | dc].
    + change (size_stmt (StSimple sm)) with (S (m_simple Nat.add size2 sm)) in Hs.
      change (need_stmt2 (StSimple sm)) with (6 + m_simple Nat.max need2 sm).
      change (print_stmt (StSimple sm)) with (print_simple print2 sm ++ [tk OSemiColon]).
      pose proof (HSm sm ltac:(lia)). lens. lia.
    + change (size_stmt (StLabel name st)) with (S (size_stmt st)) in Hs.
      change (need_stmt2 (StLabel name st)) with (6 + need_stmt2 st).
      change (print_stmt (StLabel name st)) with
        (ident_tok name :: tk OColon :: print_stmt st ++
         (if terminated st then [] else [tk OSemiColon])).
      pose proof (H3 st ltac:(lia)). lens. lia.
    + change (size_stmt (StBlock body)) with (S (sum2 size_stmt body)) in Hs.
      change (need_stmt2 (StBlock body)) with (6 + max2 need_stmt2 body).
      change (print_stmt (StBlock body)) with
        (tk OBraceLeft :: flat_map print_stmt body ++ [tk OBraceRight]).
      pose proof (HB body ltac:(lia)). lens. lia.
    + change (size_stmt (StGo c)) with (S (size2 c)) in Hs.
      change (need_stmt2 (StGo c)) with (6 + need2 c).
      change (print_stmt (StGo c)) with (kw KGo :: print2 c ++ [tk OSemiColon]).
      pose proof (H1 c ltac:(lia)). lens. lia.
    + change (size_stmt (StDefer c)) with (S (size2 c)) in Hs.
      change (need_stmt2 (StDefer c)) with (6 + need2 c).
      change (print_stmt (StDefer c)) with (kw KDefer :: print2 c ++ [tk OSemiColon]).
      pose proof (H1 c ltac:(lia)). lens. lia.
    + change (size_stmt (StReturn es)) with (S (sum2 size2 es)) in Hs.
      change (need_stmt2 (StReturn es)) with (6 + max2 need2 es).
      change (print_stmt (StReturn es)) with
        (kw KReturn :: commas (map print2 es) ++ [tk OSemiColon]).
      pose proof (HL es ltac:(lia)). lens. lia.
    + change (need_stmt2 (StBranch k lbl)) with 6.
      change (print_stmt (StBranch k lbl)) with
        (kw k :: popt (fun n => [ident_tok n]) lbl ++ [tk OSemiColon]).
      lens. lia.
    + change (need_stmt2 StEmpty) with 6. change (print_stmt StEmpty) with [tk OSemiColon].
      lens. lia.
    + change (size_stmt (StIf init cond body els)) with
        (S (m_osimple Nat.add size2 init + size2 cond + sum2 size_stmt body +
            omax size_stmt els)) in Hs.
      change (need_stmt2 (StIf init cond body els)) with
        (6 + Nat.max (m_osimple Nat.max need2 init)
               (Nat.max (need2 cond)
                  (Nat.max (6 + max2 need_stmt2 body) (omax need_stmt2 els)))).
      change (print_stmt (StIf init cond body els)) with
        (kw KIf :: match init with
                   | Some i => print_simple print2 i ++ [tk OSemiColon]
                   | None => []
                   end ++
         print2 cond ++ tk OBraceLeft :: flat_map print_stmt body ++ tk OBraceRight ::
         print_else' els).
      pose proof (HInit init ltac:(lia)). pose proof (H1 cond ltac:(lia)).
      pose proof (HB body ltac:(lia)). pose proof (HElse els ltac:(lia)). lens. lia.
    + change (size_stmt (StFor h body)) with
        (S (m_forhdr Nat.add size2 h + sum2 size_stmt body)) in Hs.
      change (need_stmt2 (StFor h body)) with
        (6 + Nat.max (m_forhdr Nat.max need2 h) (6 + max2 need_stmt2 body)).
      change (print_stmt (StFor h body)) with
        (kw KFor :: print_forhdr print2 h ++ tk OBraceLeft :: flat_map print_stmt body ++
         [tk OBraceRight]).
      pose proof (HFor h ltac:(lia)). pose proof (HB body ltac:(lia)). lens. lia.
    + change (size_stmt (StRange lhs op x body)) with
        (S (sum2 size2 lhs + size2 x + sum2 size_stmt body)) in Hs.
      change (need_stmt2 (StRange lhs op x body)) with
        (6 + Nat.max (max2 need2 lhs) (Nat.max (need2 x) (6 + max2 need_stmt2 body))).
      change (print_stmt (StRange lhs op x body)) with
        (kw KFor :: match lhs with [] => [] | _ => commas (map print2 lhs) ++ [tk op] end ++
         kw KRange :: print2 x ++ tk OBraceLeft :: flat_map print_stmt body ++ [tk OBraceRight]).
      pose proof (HL lhs ltac:(lia)) as Hl. pose proof (H1 x ltac:(lia)).
      pose proof (HB body ltac:(lia)).
      destruct lhs as [| a lhs].
      * cbn [max2 fold_right]. lens. lia.
      * lens. lia.
    + change (size_stmt (StSwitch init tag cls)) with
        (S (m_osimple Nat.add size2 init + omax size2 tag + sum2 szCase cls)) in Hs.
      change (need_stmt2 (StSwitch init tag cls)) with
        (6 + Nat.max (m_osimple Nat.max need2 init)
               (Nat.max (omax need2 tag) (max2 ndCase cls))).
      change (print_stmt (StSwitch init tag cls)) with
        (kw KSwitch :: match init with
                       | Some i => print_simple print2 i ++ [tk OSemiColon]
                       | None => []
                       end ++
         popt print2 tag ++ tk OBraceLeft :: flat_map print_case cls ++ [tk OBraceRight]).
      pose proof (HInit init ltac:(lia)). pose proof (HO tag ltac:(lia)).
      assert (max2 ndCase cls <= 13 * length (flat_map print_case cls)).
      { apply max2_flat. intros [es body] Ha. pose proof (In_sum2' _ szCase cls _ Ha) as Hle.
        unfold szCase, ndCase, print_case, print_stmts in *. cbn [fst snd] in *.
        pose proof (HB body ltac:(lia)).
        destruct es as [es |]; cbn [omax] in *; [pose proof (HL es ltac:(lia)) |]; lens; lia. }
      lens. lia.
    + change (size_stmt (StTypeSwitch init bd x cls)) with
        (S (m_osimple Nat.add size2 init + size2 x + sum2 szTCase cls)) in Hs.
      change (need_stmt2 (StTypeSwitch init bd x cls)) with
        (6 + Nat.max (m_osimple Nat.max need2 init)
               (Nat.max (Nat.max (need2 x) 6) (max2 ndTCase cls))).
      change (print_stmt (StTypeSwitch init bd x cls)) with
        (kw KSwitch :: match init with
                       | Some i => print_simple print2 i ++ [tk OSemiColon]
                       | None => []
                       end ++
         match bd with Some v => [ident_tok v; tk ODefine] | None => [] end ++
         print2 x ++ tk ODot :: tk OParenLeft :: kw KType :: tk OParenRight :: tk OBraceLeft ::
         flat_map print_tcase cls ++ [tk OBraceRight]).
      pose proof (HInit init ltac:(lia)). pose proof (H1 x ltac:(lia)).
      assert (max2 ndTCase cls <= 13 * length (flat_map print_tcase cls)).
      { apply max2_flat. intros [ts body] Ha. pose proof (In_sum2' _ szTCase cls _ Ha) as Hle.
        unfold szTCase, ndTCase, print_tcase, print_stmts in *. cbn [fst snd] in *.
        pose proof (HB body ltac:(lia)).
        destruct ts as [ts |]; cbn [omax] in *; [pose proof (HTs ts ltac:(lia)) |]; lens; lia. }
      lens. lia.
    + change (size_stmt (StSelect cls)) with (S (sum2 szCCase cls)) in Hs.
      change (need_stmt2 (StSelect cls)) with (6 + max2 ndCCase cls).
      change (print_stmt (StSelect cls)) with
        (kw KSelect :: tk OBraceLeft :: flat_map print_ccase cls ++ [tk OBraceRight]).
      assert (max2 ndCCase cls <= 13 * length (flat_map print_ccase cls)).
      { apply max2_flat. intros [cm body] Ha. pose proof (In_sum2' _ szCCase cls _ Ha) as Hle.
        unfold szCCase, ndCCase, print_ccase, print_stmts in *. cbn [fst snd] in *.
        pose proof (HB body ltac:(lia)).
        destruct cm as [cm |]; cbn [omax] in *; [pose proof (HComm cm ltac:(lia)) |]; lens; lia. }
      lens. lia.
    + destruct dc as [k g specs].
      change (size_stmt (StDecl (Decl k g specs))) with (S (sum2 szSpec specs)) in Hs.
      change (need_stmt2 (StDecl (Decl k g specs))) with (6 + max2 ndSpec specs).
      change (print_stmt (StDecl (Decl k g specs))) with
        (print_decl print2 (printT print2) (Decl k g specs)).
      assert (max2 ndSpec specs <=
              13 * length (flat_map (fun sp => print_spec print2 (printT print2) sp ++
                                               [tk OSemiColon]) specs)).
      { apply max2_flat. intros sp Ha. pose proof (In_sum2' _ szSpec specs _ Ha) as Hle.
        assert (HTy : forall ty : option typ2, omax (sizeX size2) ty < n ->
                        omax ndT4 ty <=
                        13 * length (match ty with Some t => printT print2 t | None => [] end)).
        { intros [t |] Hty; cbn [omax] in *; [| simpl; lia].
          pose proof (HT t ltac:(lia)). unfold ndT4. lia. }
        assert (HVals : forall vals : list exp2, sum2 size2 vals < n ->
                          max2 need2 vals <=
                          13 * length (match vals with
                                       | [] => []
                                       | _ => tk OAssign :: commas (map print2 vals)
                                       end)).
        { intros vals Hv. pose proof (HL vals Hv) as Hl.
          destruct vals; [simpl in *; lia | lens; lia]. }
        destruct sp as [names ty vals | names ty vals | name alias t | name tps alias t];
          cbn [szSpec ndSpec print_spec] in *.
        - pose proof (HTy ty ltac:(lia)). pose proof (HVals vals ltac:(lia)). lens. lia.
        - pose proof (HTy ty ltac:(lia)). pose proof (HVals vals ltac:(lia)). lens. lia.
        - pose proof (HT t ltac:(lia)). unfold ndT4. lens. lia.
        - pose proof (HT t ltac:(lia)).
          change (commas (map (fun g : list str * list (bool * typ2) =>
                     printNames (fst g) ++
                     bars (map (fun bt : bool * typ2 =>
                                  (if fst bt then [tk OTiled] else []) ++ printT print2 (snd bt))
                             (snd g))) tps)) with (commas (map print_tg tps)).
          assert (max2 ndTG tps <= 13 * length (commas (map print_tg tps))).
          { apply max2_commas. intros [ns terms] Hg.
            pose proof (In_sum2' _ szTG tps _ Hg) as Hle2.
            unfold szTG, ndTG, print_tg in *. cbn [fst snd] in *.
            assert (max2 ndTerm terms <=
                    13 * length (bars (map (fun bt : bool * typ2 =>
                                   (if fst bt then [tk OTiled] else []) ++ printT print2 (snd bt))
                                   terms))).
            { apply max2_bars. intros [b t'] Hb.
              pose proof (In_sum2' _ (fun bt : bool * typ2 => sizeX size2 (snd bt)) terms _ Hb)
                as Hle3.
              cbn [fst snd] in *. unfold ndTerm, ndT4. cbn [snd].
              pose proof (HT t' ltac:(lia)). lens. lia. }
            lens. lia. }
          unfold ndT4. lens. lia. }
      destruct g; cbn [print_decl]; lens; lia.
Qed.

Theorem tokens_main : forall n, PT n.
Proof.
  induction n as [| n IH]; [| exact (PT_step n IH)].
  repeat split; intros; lia.
Qed.

Theorem need2_tokens_slack : forall e, need2 e + 1 <= 13 * length (print2 e).
Proof. intro e. apply (proj1 (tokens_main (S (size2 e)))). lia. Qed.

Theorem need2_tokens : forall e, need2 e <= 13 * length (print2 e).
Proof. intro e. pose proof (need2_tokens_slack e). lia. Qed.

Theorem need_elemv_tokens : forall v, need_elemv v <= 13 * length (print_elemv v).
Proof. intro v. apply (proj1 (proj2 (tokens_main (S (size_elemv v))))). lia. Qed.

Theorem need_stmt2_tokens : forall st, need_stmt2 st <= 13 * length (print_stmt st).
Proof. intro st. apply (proj2 (proj2 (tokens_main (S (size_stmt st))))). lia. Qed.

(* 13 is attained (by a derivation that is not well-formed: a type name is no
   type operand) *)
Lemma tokens_13_tight : forall n,
  need_elemv (VExpr (E2Type (TName n))) = 13 /\
  length (print_elemv (VExpr (E2Type (TName n)))) = 1.
Proof. intro n. split; reflexivity. Qed.

(* types over exp2 *)
Theorem needT2_tokens_slack : forall t : typ2, needT2 t + 11 <= 13 * length (printT print2 t).
Proof. intro t. apply needT_tokens_slack. exact need2_tokens. Qed.

Theorem needT2_tokens : forall t : typ2, needT2 t <= 13 * length (printT print2 t).
Proof. intro t. pose proof (needT2_tokens_slack t). lia. Qed.

(* ------------------------------------------------------------ 4. functions, top-level declarations, files *)

Lemma stmts_tokens : forall body : list stmt2,
  max2 need_stmt2 body <= 13 * length (flat_map print_stmt body).
Proof. intro body. apply max2_flat. intros a _. apply need_stmt2_tokens. Qed.

Lemma params_tokens : forall r : list (group typ2),
  max2 (needG need2) r <= 13 * length (commas (map (printG print2) r)).
Proof.
  intro r. apply (groups_tok exp2 print2 need2 r). intros g _. apply needT2_tokens_slack.
Qed.

Lemma tparams_tokens : forall tps : list (list str * list (bool * typ2)),
  max2 (fun g : list str * list (bool * typ2) =>
          max2 (fun bt : bool * typ2 => needT2 (snd bt)) (snd g)) tps <=
  13 * length (print_tparams tps).
Proof.
  intros [| g0 tps]; [simpl; lia |].
  change (print_tparams (g0 :: tps)) with
    (tk OBarackLeft ::
     commas (map (fun g : list str * list (bool * typ2) =>
                    printNames (fst g) ++ printUnion print2 (snd g)) (g0 :: tps)) ++
     [tk OBarackRight]).
  assert (H : max2 (fun g : list str * list (bool * typ2) =>
                      max2 (fun bt : bool * typ2 => needT2 (snd bt)) (snd g)) (g0 :: tps) <=
              13 * length (commas (map (fun g : list str * list (bool * typ2) =>
                                          printNames (fst g) ++ printUnion print2 (snd g))
                                     (g0 :: tps)))).
  { apply max2_commas. intros [ns terms] _. cbn [fst snd].
    assert (max2 (fun bt : bool * typ2 => needT2 (snd bt)) terms <=
            13 * length (printUnion print2 terms)).
    { unfold printUnion. apply max2_bars. intros bt _.
      pose proof (needT2_tokens (snd bt)). pose proof (printTerm_len exp2 print2 bt). lia. }
    lens. lia. }
  lens. lia.
Qed.

Theorem need_funcdecl_tokens : forall f, need_funcdecl f <= 13 * length (print_funcdecl f).
Proof.
  intros [recv name tps sg body]. unfold need_funcdecl, print_funcdecl.
  assert (Hr : omax (max2 (needG need2)) recv <=
               13 * length (match recv with Some r => printParams print2 r | None => [] end)).
  { destruct recv as [r |]; cbn [omax]; [| simpl; lia].
    pose proof (params_tokens r). unfold printParams. lens. lia. }
  pose proof (tparams_tokens tps) as Htp.
  pose proof (needT2_tokens_slack (TFunc sg)) as Hsg. rewrite printT_func in Hsg.
  assert (Hb : omax (fun b => 6 + max2 need_stmt2 b) body <=
               13 * length (match body with Some b => print_block b | None => [] end)).
  { destruct body as [b |]; cbn [omax]; [| simpl; lia].
    pose proof (stmts_tokens b). unfold print_block, print_stmts. lens. lia. }
  revert Hsg. lens. lia.
Qed.

Theorem need_topdecl_tokens : forall d, need_topdecl d <= 13 * length (print_topdecl d).
Proof.
  intros [f | d]; [exact (need_funcdecl_tokens f) |].
  exact (need_stmt2_tokens (StDecl d)).
Qed.

Theorem need_file_tokens : forall f, need_file f <= 13 * length (print_file f).
Proof.
  intros [pkg imports decls]. unfold need_file, print_file.
  assert (H : max2 need_topdecl decls <= 13 * length (flat_map print_topdecl decls)).
  { apply max2_flat. intros a _. apply need_topdecl_tokens. }
  lens. lia.
Qed.

(* ------------------------------------------------------------ 5. the round trips with the fuel
   bounded by the number of tokens *)

Section Tokens.
Variables (A G D C E : Type).
Variable OPS : ops A G D C.
Notation PA := (parsers_at A G D C E OPS).

Theorem file_roundtrip_tokens : forall f, wf_file f -> depth_file f <= DEPTH_BOUND2 ->
  forall d a0 d0 (elems : list (selem A G)) ae ge,
    map tok_of elems = print_file f -> 13 * length elems <= d ->
    exists n s',
      parse_file A G D C E OPS (PA d) (init_state A G D E a0 d0 elems (TEof ae ge)) = Ok n s' /\
      erase n = shape_file f /\ s_cur A G D E s' = None /\ s_rest A G D E s' = [].
Proof.
  intros f Hwf Hb d a0 d0 elems ae ge Hel Hd.
  apply (file2_roundtrip A G D C E OPS f Hwf Hb d a0 d0 elems ae ge Hel).
  pose proof (need_file_tokens f) as H. rewrite <- Hel, map_length in H. lia.
Qed.

Theorem stmt2_roundtrip_tokens : forall st, wf_stmt st -> depth_stmt2 st <= DEPTH_BOUND2 ->
  forall d a0 d0 (elems : list (selem A G)) ae ge,
    map tok_of elems = print_stmt st -> 13 * length elems <= d ->
    exists n s',
      entry_stmt A G D C E OPS (PA d) (init_state A G D E a0 d0 elems (TEof ae ge)) = Ok n s' /\
      erase n = shape_stmt st /\ s_cur A G D E s' = None /\ s_rest A G D E s' = [].
Proof.
  intros st Hwf Hb d a0 d0 elems ae ge Hel Hd.
  apply (stmt2_roundtrip A G D C E OPS st Hwf Hb d a0 d0 elems ae ge Hel).
  pose proof (need_stmt2_tokens st) as H. rewrite <- Hel, map_length in H. lia.
Qed.

Theorem expr2_roundtrip_tokens : forall e, wf2 false e -> depth2 e <= DEPTH_BOUND2 ->
  forall d a0 d0 (elems : list (selem A G)) ae ge,
    map tok_of elems = print2 e -> 13 * length elems + 1 <= d ->
    exists n s',
      entry_expression A G D C E OPS (PA d) (init_state A G D E a0 d0 elems (TEof ae ge)) = Ok n s' /\
      erase n = shape2 e /\ s_cur A G D E s' = None /\ s_rest A G D E s' = [].
Proof.
  intros e Hwf Hb d a0 d0 elems ae ge Hel Hd.
  apply (expr2_roundtrip A G D C E OPS e Hwf Hb d a0 d0 elems ae ge Hel).
  pose proof (need2_tokens_slack e) as H. rewrite <- Hel, map_length in H. lia.
Qed.

(* stage A: array lengths are Print.exp, need e <= 3 * length (print e) *)
Theorem needA_tokens_slack : forall t : typA, needA t + 11 <= 13 * length (printA t).
Proof.
  intro t. apply (needT_tokens_slack exp print need).
  intro x. pose proof (need_le_tokens x). lia.
Qed.

Theorem typeA_roundtrip_tokens : forall t : typA, wfA t -> depthA t <= TDEPTH_BOUND ->
  forall d a0 d0 (elems : list (selem A G)) ae ge,
    map tok_of elems = printA t -> 13 * length elems <= d ->
    exists n s',
      entry_type A G D C E OPS (PA d) (init_state A G D E a0 d0 elems (TEof ae ge)) = Ok n s' /\
      erase n = shapeA t /\ s_cur A G D E s' = None /\ s_rest A G D E s' = [].
Proof.
  intros t Hwf Hb d a0 d0 elems ae ge Hel Hd.
  apply (typeA_roundtrip A G D C E OPS t Hwf Hb d a0 d0 elems ae ge Hel).
  pose proof (needA_tokens_slack t) as H. rewrite <- Hel, map_length in H. lia.
Qed.

End Tokens.
