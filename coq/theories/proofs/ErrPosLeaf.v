(* C16 (errors), part 2: the leaf parsers (no recursion through [self]). *)
From Coq Require Import List Bool Arith Lia.
From GoSyn Require Import Token Tok Ast Core.
From GoSyn.proofs Require Import Lift StreamProofs ErrPosBase.
Import ListNotations.

Section Leaf.
Variables (A G D C E : Type) (OPS : ops A G D C).
Notation pstate := (Core.pstate A G D E).
Notation res := (Core.res A G D E).
Notation selem := (Core.selem A G).
Notation sterm := (Core.sterm A G E).
Notation nodeT := (node A C).
Variable whole : list selem.
Variable term : sterm.

Notation J := (J whole term).
Notation rp := (rp OPS whole term).
Notation nok := (nok (C:=C) whole term).
Notation onok := (onok (C:=C) whole term).

Notation lnok := (Forall nok).

Lemma L_identifier site s : J s -> rp nok (identifier OPS site s).
Proof. rprod identifier. Qed.
Local Hint Resolve L_identifier : epos.

Lemma L_identifier_list_loop : forall fuel acc s,
  lnok acc -> J s -> rp lnok (identifier_list_loop OPS fuel acc s).
Proof. rloop identifier_list_loop fuel. Qed.
Local Hint Resolve L_identifier_list_loop : epos.

Lemma L_identifier_list first s : onok first -> J s -> rp lnok (identifier_list OPS first s).
Proof. rprod identifier_list. Qed.

Lemma L_string_literal_or_none s : J s -> rp onok (string_literal_or_none OPS s).
Proof. rprod string_literal_or_none. Qed.

Lemma L_string_literal site s : J s -> rp nok (string_literal OPS site s).
Proof. rprod string_literal. Qed.

Lemma L_literal s : J s -> rp nok (literal OPS s).
Proof. rprod literal. Qed.

Lemma check_fields_site named trailing (l : list nodeT) site :
  check_fields named trailing l = Some site -> site_class site = SNode.
Proof.
  induction l as [|f r IH]; cbn [check_fields]; [ discriminate | ].
  destruct (Bool.eqb _ _); [ intros [= <-]; reflexivity | ].
  destruct (_ && _); [ intros [= <-]; reflexivity | exact IH ].
Qed.

Lemma L_check_field_list (fl : nodeT) trailing s :
  nok fl -> J s -> rp nok (check_field_list fl trailing s).
Proof.
  rprod check_field_list.
  apply errok_else_error_at; [ eapply check_fields_site; eassumption | eauto with eposv ].
Qed.

Lemma L_check_single_expr (l : list nodeT) s : lnok l -> J s -> rp nok (check_single_expr l s).
Proof. rprod check_single_expr. Qed.

Lemma L_check_assign_stmt (l : list nodeT) : forall s, lnok l -> J s -> rp vtrue (check_assign_stmt l s).
Proof. induction l; intros; cbn [check_assign_stmt]; hide_panics; rsteps. Qed.

Lemma L_is_type_switch (tg : option nodeT) s : onok tg -> J s -> rp vtrue (is_type_switch tg s).
Proof. rprod is_type_switch. Qed.

Lemma L_semi_unless_brace site s : J s -> rp vtrue (semi_unless_brace OPS site s).
Proof. rprod semi_unless_brace. Qed.

Local Hint Resolve L_identifier_list L_string_literal_or_none L_string_literal L_literal
  L_check_field_list L_check_single_expr L_check_assign_stmt L_is_type_switch L_semi_unless_brace
  : epos.

Lemma L_finish_field c names typ s :
  lnok names -> nok typ -> J s -> rp nok (finish_field OPS c names typ s).
Proof. rprod finish_field. Qed.

Lemma L_parse_branch_stmt key s : J s -> rp nok (parse_branch_stmt OPS key s).
Proof. rprod parse_branch_stmt. Qed.

Lemma L_parse_package s : J s -> rp nok (parse_package OPS s).
Proof. rprod parse_package. Qed.

Lemma L_parse_import_spec s : J s -> rp nok (parse_import_spec OPS s).
Proof. rprod parse_import_spec. Qed.
Local Hint Resolve L_parse_import_spec : epos.

Lemma L_import_group_loop : forall fuel acc s,
  lnok acc -> J s -> rp lnok (import_group_loop OPS fuel acc s).
Proof. rloop import_group_loop fuel. Qed.
Local Hint Resolve L_import_group_loop : epos.

Lemma L_parse_import_decl s : J s -> rp lnok (parse_import_decl OPS s).
Proof. rprod parse_import_decl. Qed.
Local Hint Resolve L_parse_import_decl : epos.

Lemma L_imports_loop : forall fuel acc s,
  lnok acc -> J s -> rp lnok (imports_loop OPS fuel acc s).
Proof. rloop imports_loop fuel. Qed.

End Leaf.

#[export] Hint Resolve L_identifier L_identifier_list_loop L_identifier_list
  L_string_literal_or_none L_string_literal L_literal
  L_check_field_list L_check_single_expr L_check_assign_stmt L_is_type_switch L_semi_unless_brace
  L_finish_field L_parse_branch_stmt L_parse_package L_parse_import_spec L_import_group_loop
  L_parse_import_decl L_imports_loop : epos.
