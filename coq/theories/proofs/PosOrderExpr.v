(* Paired positions are ordered, stage 1: leaf lists, types, parameters, expressions. *)
From Coq Require Import List Bool Arith NArith Lia Sorted.
From GoSyn Require Import Token Tok Ast Core.
From GoSyn.proofs Require Import Lift StreamProofs AccountBase PosBase PosExpr PosOrder.
Import ListNotations.
Local Open Scope N_scope.

Section Leafs2.
Variables (G D C E : Type) (OPS : ops N G D C).
Notation pstate := (Core.pstate N G D E).
Notation res := (Core.res N G D E).
Notation selem := (Core.selem N G).
Notation nodeT := (node N C).
Variable whole : list selem.
Variable term : Core.sterm N G E.
Hypothesis Hsorted : StronglySorted N.lt (allp whole term).
Notation OSw := (OS (D:=D) whole term).

Lemma O_identifier_list_loop : forall fuel (acc : list nodeT),
  OSw (G1l acc) (identifier_list_loop OPS fuel acc).
Proof. unfold G1l. oloop identifier_list_loop fuel. Qed.
Local Hint Resolve O_identifier_list_loop : ord.

Lemma O_identifier_list (first : option nodeT) :
  OSw (fun lo hi r => forall lo0, lo0 <= lo -> ogo lo0 lo first -> Forall (og lo0 hi) r)
      (identifier_list OPS first).
Proof. oprod identifier_list. Qed.

Lemma O_check_field_list (fl : nodeT) trailing : OSw (G1 fl) (check_field_list fl trailing).
Proof. unfold G1. oprod check_field_list. Qed.

Lemma O_check_assign_stmt : forall (l : list nodeT), OSw anyo (check_assign_stmt l).
Proof.
  induction l; intros ? ? ? ?; cbn [check_assign_stmt]; hide_nats; o_steps; try (solve [ o_fin ]).
Qed.

Lemma O_is_type_switch (tg : option nodeT) : OSw anyo (is_type_switch tg).
Proof. oprod is_type_switch. Qed.

Lemma O_semi_unless_brace site : OSw anyo (semi_unless_brace OPS site).
Proof. oprod semi_unless_brace. Qed.

Lemma O_finish_field c (names : list nodeT) typ :
  OSw (fun lo hi r => forall lo0, lo0 <= lo -> Forall (og lo0 lo) names -> og lo0 lo typ ->
                                  og lo0 hi r)
      (finish_field OPS c names typ).
Proof. oprod finish_field. Qed.

End Leafs2.

#[export] Hint Resolve O_identifier_list_loop O_identifier_list O_check_field_list
  O_check_assign_stmt O_is_type_switch O_semi_unless_brace O_finish_field : ord.

(* ------------------------------------------------------------------ the table *)

Section Table.
Variables (G D C E : Type) (OPS : ops N G D C).
Notation pstate := (Core.pstate N G D E).
Notation res := (Core.res N G D E).
Notation parsers := (Core.parsers N G D C E).
Notation selem := (Core.selem N G).
Notation nodeT := (node N C).
Variable whole : list selem.
Variable term : Core.sterm N G E.
Hypothesis Hsorted : StronglySorted N.lt (allp whole term).
Notation OSw := (OS (D:=D) whole term).

Record GoodO (self : parsers) : Prop := {
  go_type : OSw og (k_type self);
  go_type_or_none : OSw ogo (k_type_or_none self);
  go_expr : OSw og (k_expr self);
  go_unary : OSw og (k_unary self);
  go_binary : forall p prec, OSw (G1o p) (k_binary self p prec);
  go_litvalue : OSw og (k_litvalue self);
  go_block : OSw og (k_block self);
  go_stmt : OSw og (k_stmt self);
  go_if : OSw og (k_if self)
}.

Lemma GoodO_no_fuel : GoodO (no_fuel N G D C E).
Proof. split; intros; intros ? ? ? ? HH; discriminate HH. Qed.

Lemma O_nested X (good : N -> N -> X -> Prop) site (f : pstate -> res X) :
  OSw good f -> OSw good (nested site f).
Proof.
  intros Hf s r s' Hs. unfold nested. cbv zeta.
  destruct (S MAX_NESTING <=? s_depth (upd_depth s (S (s_depth s))))%nat; [ discriminate | ].
  destruct (f (upd_depth s (S (s_depth s)))) as [x s2| | |] eqn:Hfs; try discriminate.
  intros [= <- <-].
  destruct (Hf _ _ _ (oinv_upd_depth _ _ _ _ _ _ _ Hs) Hfs) as (Hs2 & Hle & Hg).
  split; [ apply oinv_upd_depth, Hs2 | split; [ exact Hle | exact Hg ] ].
Qed.

(* reset_chan_arrow: the rewritten positions stay in the interval *)
Fixpoint reset_chan_arrow_og (typ : nodeT) :
  forall pos t a b, is_tag GTypeChannel typ = true -> og a b typ -> inr a b pos ->
                    @reset_chan_arrow N C E pos typ = inl t -> og a b t.
Proof.
  destruct typ as [tg ps ats d ks]. intros pos r a b Htag Hg Hpos.
  apply is_tag_true in Htag. cbn [n_tag] in Htag. subst tg.
  apply og_Nd in Hg. destruct Hg as (Hown & _ & Hks).
  cbn [reset_chan_arrow].
  assert (Hp0 : inr a b (nth 0 ps pos)).
  { cbn [opos] in Hown. destruct (at_dir ats) as [[|n]|]; destruct ps as [|c rest]; cbn [nth];
      try exact Hpos; inversion Hown; assumption. }
  assert (Hnew : Forall (inr a b) (opos GTypeChannel [nth 0 ps pos; pos] [ADir 2])).
  { cbn [opos at_dir]. repeat constructor; (apply Hp0 || apply Hpos). }
  destruct (match ats with ADir dir :: _ => dir | _ => 0%nat end) as [|[|[|n]]] eqn:Edir.
  - intros [= <-]. apply og_Nd_i; [ exact Hnew | exact I | exact Hks ].
  - destruct ks as [|inner rest']; [ discriminate | ].
    destruct (is_tag GTypeChannel inner) eqn:Hti; [ | discriminate ].
    destruct (@reset_chan_arrow N C E (nth 1 ps pos) inner) as [inner'|] eqn:Hi; [ | discriminate ].
    intros [= <-]. inversion Hks as [|? ? Hk1 Hk2]; subst.
    apply og_Nd_i; [ exact Hnew | exact I | ]. constructor; [ | exact Hk2 ].
    apply (reset_chan_arrow_og inner (nth 1 ps pos) inner' a b Hti Hk1); [ | exact Hi ].
    cbn [opos] in Hown. unfold at_dir in Hown. destruct ats as [|[| | | | |dd] ?]; try discriminate Edir.
    subst dd. destruct ps as [|c [|a1 rest]]; cbn [nth]; try exact Hpos.
    inversion Hown as [|? ? _ Hx]; subst. inversion Hx; assumption.
  - discriminate.
  - destruct ks as [|inner rest']; [ discriminate | ].
    destruct (is_tag GTypeChannel inner) eqn:Hti; [ | discriminate ].
    destruct (@reset_chan_arrow N C E (nth 1 ps pos) inner) as [inner'|] eqn:Hi; [ | discriminate ].
    intros [= <-]. inversion Hks as [|? ? Hk1 Hk2]; subst.
    apply og_Nd_i; [ exact Hnew | exact I | ]. constructor; [ | exact Hk2 ].
    apply (reset_chan_arrow_og inner (nth 1 ps pos) inner' a b Hti Hk1); [ | exact Hi ].
    cbn [opos] in Hown. unfold at_dir in Hown. destruct ats as [|[| | | | |dd] ?]; try discriminate Edir.
    subst dd. destruct ps as [|c [|a1 rest]]; cbn [nth]; try exact Hpos.
    inversion Hown as [|? ? _ Hx]; subst. inversion Hx; assumption.
Qed.

End Table.
Arguments GoodO {G D C E} whole term self.

(* ------------------------------------------------------------------ one unfolding, stage 1 *)

Section Step1.
Variables (G D C E : Type) (OPS : ops N G D C).
Notation pstate := (Core.pstate N G D E).
Notation res := (Core.res N G D E).
Notation parsers := (Core.parsers N G D C E).
Notation selem := (Core.selem N G).
Notation nodeT := (node N C).
Variable whole : list selem.
Variable term : Core.sterm N G E.
Hypothesis Hsorted : StronglySorted N.lt (allp whole term).
Notation OSw := (OS (D:=D) whole term).

Variable self : parsers.
Hypothesis HG : GoodO whole term self.
(* what is known of the state an error of parse_method_elem leaves behind *)
Hypothesis HGS : Good (fun _ : unit => stream_inv whole term) (fun _ => stream_inv whole term) self.

Lemma R_type : OSw og (k_type self). Proof. exact (go_type _ _ _ _ _ _ _ HG). Qed.
Lemma R_type_or_none : OSw ogo (k_type_or_none self).
Proof. exact (go_type_or_none _ _ _ _ _ _ _ HG). Qed.
Lemma R_expr : OSw og (k_expr self). Proof. exact (go_expr _ _ _ _ _ _ _ HG). Qed.
Lemma R_unary : OSw og (k_unary self). Proof. exact (go_unary _ _ _ _ _ _ _ HG). Qed.
Lemma R_binary p prec : OSw (G1o p) (k_binary self p prec).
Proof. exact (go_binary _ _ _ _ _ _ _ HG p prec). Qed.
Lemma R_litvalue : OSw og (k_litvalue self). Proof. exact (go_litvalue _ _ _ _ _ _ _ HG). Qed.
Lemma R_block : OSw og (k_block self). Proof. exact (go_block _ _ _ _ _ _ _ HG). Qed.
Lemma R_stmt : OSw og (k_stmt self). Proof. exact (go_stmt _ _ _ _ _ _ _ HG). Qed.
Lemma R_if : OSw og (k_if self). Proof. exact (go_if _ _ _ _ _ _ _ HG). Qed.
Local Hint Resolve R_type R_type_or_none R_expr R_unary R_binary R_litvalue R_block R_stmt R_if
  : ord.

Lemma O_parse_next_level_expr : OSw og (parse_next_level_expr self).
Proof. oprod parse_next_level_expr. Qed.
Local Hint Resolve O_parse_next_level_expr : ord.

Lemma O_comma_list_loop (item : pstate -> res nodeT) (Hitem : OSw og item) :
  forall fuel acc, OSw (G1l acc) (comma_list_loop OPS fuel item acc).
Proof. unfold G1l. oloop comma_list_loop fuel. Qed.
Local Hint Resolve O_comma_list_loop : ord.

Lemma O_expression_list : OSw G0l (expression_list OPS self).
Proof. unfold G0l. oprod expression_list. Qed.
Local Hint Resolve O_expression_list : ord.

Lemma O_parse_type_list : OSw G0l (parse_type_list OPS self).
Proof. unfold G0l. oprod parse_type_list. Qed.
Local Hint Resolve O_parse_type_list : ord.

Lemma O_type_list_loop : forall fuel acc, OSw (G1l acc) (type_list_loop OPS self fuel acc).
Proof. unfold G1l. oloop type_list_loop fuel. Qed.
Local Hint Resolve O_type_list_loop : ord.

Lemma O_type_list strict : OSw (fun lo hi r => og lo hi (fst r)) (type_list OPS self strict).
Proof. oprod type_list. Qed.
Local Hint Resolve O_type_list : ord.

Lemma O_type_instance (left : nodeT) : OSw (G1 left) (type_instance OPS self left).
Proof. unfold G1. oprod type_instance. Qed.
Local Hint Resolve O_type_instance : ord.

Lemma O_qualified_ident (name : option nodeT) : OSw (G1o name) (qualified_ident OPS self name).
Proof. unfold G1o. oprod qualified_ident. Qed.
Local Hint Resolve O_qualified_ident : ord.

Lemma O_parse_type_term : OSw og (parse_type_term OPS self).
Proof. oprod parse_type_term. Qed.
Local Hint Resolve O_parse_type_term : ord.

Lemma O_type_elem_loop : forall fuel typ, OSw (G1 typ) (type_elem_loop OPS self fuel typ).
Proof. unfold G1. oloop type_elem_loop fuel. Qed.
Local Hint Resolve O_type_elem_loop : ord.

Lemma O_parse_type_elem : OSw og (parse_type_elem OPS self).
Proof. oprod parse_type_elem. Qed.
Local Hint Resolve O_parse_type_elem : ord.

Lemma O_array_len : OSw og (array_len OPS self).
Proof. oprod array_len. Qed.
Local Hint Resolve O_array_len : ord.

Lemma O_array_or_typeargs : OSw og (array_or_typeargs OPS self).
Proof. oprod array_or_typeargs. Qed.
Local Hint Resolve O_array_or_typeargs : ord.

Lemma O_ellipsis_type : OSw og (ellipsis_type OPS self).
Proof. oprod ellipsis_type. Qed.
Local Hint Resolve O_ellipsis_type : ord.

Lemma O_param_decl_loop : forall fuel ewc ids,
  OSw (G1l ids) (param_decl_loop OPS self fuel ewc ids).
Proof. unfold G1l. oloop param_decl_loop fuel. Qed.
Local Hint Resolve O_param_decl_loop : ord.

Lemma O_parse_parameter_decl : OSw G0l (parse_parameter_decl OPS self).
Proof. unfold G0l. oprod parse_parameter_decl. Qed.
Local Hint Resolve O_parse_parameter_decl : ord.

Lemma O_params_loop : forall fuel close acc,
  OSw (G1l acc) (params_loop OPS self fuel close acc).
Proof. unfold G1l. oloop params_loop fuel. Qed.
Local Hint Resolve O_params_loop : ord.

Lemma O_params_list open close : OSw og (params_list OPS self open close).
Proof. oprod params_list. Qed.
Local Hint Resolve O_params_list : ord.

Lemma O_parameters : OSw og (parameters OPS self).
Proof. oprod parameters. Qed.
Local Hint Resolve O_parameters : ord.

Lemma O_type_parameters : OSw og (type_parameters OPS self).
Proof. oprod type_parameters. Qed.
Local Hint Resolve O_type_parameters : ord.

Lemma O_parse_result : OSw og (parse_result OPS self).
Proof. oprod parse_result. Qed.
Local Hint Resolve O_parse_result : ord.

Lemma O_signature : OSw (fun lo hi r => og lo hi (fst r) /\ og lo hi (snd r)) (signature OPS self).
Proof. oprod signature. Qed.
Local Hint Resolve O_signature : ord.

Lemma O_func_type : OSw og (func_type OPS self).
Proof. oprod func_type. Qed.
Local Hint Resolve O_func_type : ord.

Lemma O_type_params_loop : forall fuel acc,
  OSw (G1l acc) (type_params_loop OPS self fuel acc).
Proof. unfold G1l. oloop type_params_loop fuel. Qed.
Local Hint Resolve O_type_params_loop : ord.

Lemma O_parse_type_parameters : OSw og (parse_type_parameters OPS self).
Proof. oprod parse_type_parameters. Qed.
Local Hint Resolve O_parse_type_parameters : ord.

Lemma O_field_decl : OSw og (field_decl OPS self).
Proof. oprod field_decl. Qed.
Local Hint Resolve O_field_decl : ord.

Lemma O_struct_loop : forall fuel acc, OSw (G1l acc) (struct_loop OPS self fuel acc).
Proof. unfold G1l. oloop struct_loop fuel. Qed.
Local Hint Resolve O_struct_loop : ord.

Lemma O_struct_type : OSw og (struct_type OPS self).
Proof. oprod struct_type. Qed.
Local Hint Resolve O_struct_type : ord.

Lemma O_parse_method_elem : OSw og (parse_method_elem OPS self).
Proof. oprod parse_method_elem. Qed.
Local Hint Resolve O_parse_method_elem : ord.

(* an error of parse_method_elem leaves a state inside the stream *)
Lemma method_elem_err s e s1 :
  oinv whole term s -> parse_method_elem OPS self s = Err e s1 -> stream_inv whole term s1.
Proof.
  intros Ho He.
  pose proof (L_parse_method_elem _ _ _ _ _ OPS unit
                (fun _ => stream_inv whole term) (fun _ => stream_inv whole term)
                (fun k => k) (fun k => k) (fun k => k)
                (prim_closed_inv_closed _ _ _ _ _ OPS _ (stream_inv_closed _ _ _ _ _ OPS whole term))
                self HGS tt s (oinv_stream _ _ _ _ _ _ Ho)) as Hp.
  rewrite He in Hp. exact Hp.
Qed.

Lemma O_interface_loop : forall fuel acc, OSw (G1l acc) (interface_loop OPS self fuel acc).
Proof.
  unfold G1l. induction fuel; intros; intros ? ? ? ?; [ discriminate | ].
  cbn [interface_loop]; hide_nats; o_steps; try (solve [ o_fin ]).
  pose proof (method_elem_err _ _ _ H E2) as Hst0.
  o_steps; try (solve [ o_fin ]).
Qed.
Local Hint Resolve O_interface_loop : ord.

Lemma O_parse_interface_type : OSw og (parse_interface_type OPS self).
Proof. oprod parse_interface_type. Qed.
Local Hint Resolve O_parse_interface_type : ord.

Lemma O_type_or_none_body : OSw ogo (type_or_none_body OPS self).
Proof. oprod type_or_none_body. Qed.
Local Hint Resolve O_type_or_none_body : ord.

Lemma O_type_body : OSw og (type_body self).
Proof. oprod type_body. Qed.
Local Hint Resolve O_type_body : ord.

Lemma O_parse_element_value : OSw og (parse_element_value self).
Proof. oprod parse_element_value. Qed.
Local Hint Resolve O_parse_element_value : ord.

Lemma O_parse_element : OSw og (parse_element OPS self).
Proof. oprod parse_element. Qed.
Local Hint Resolve O_parse_element : ord.

Lemma O_lit_value_loop : forall fuel acc, OSw (G1l acc) (lit_value_loop OPS self fuel acc).
Proof. unfold G1l. oloop lit_value_loop fuel. Qed.
Local Hint Resolve O_lit_value_loop : ord.

Lemma O_lit_value_body : OSw og (lit_value_body OPS self).
Proof. oprod lit_value_body. Qed.
Local Hint Resolve O_lit_value_body : ord.

Lemma O_index_comma_loop : forall fuel acc,
  OSw (fun lo hi r => forall lo0, lo0 <= lo -> Forall (ogo lo0 lo) acc -> Forall (ogo lo0 hi) r)
      (index_comma_loop OPS self fuel acc).
Proof. oloop index_comma_loop fuel. Qed.
Local Hint Resolve O_index_comma_loop : ord.

(* the index expressions lie strictly after the `[` the production starts on *)
Lemma O_parse_slice_index_or_type_inst :
  OSP (D:=D) whole term (fun s => s_cur s <> None)
      (fun lo hi r => lo < hi /\ Forall (ogo (N.succ lo) hi) (snd r))
      (parse_slice_index_or_type_inst OPS self).
Proof. oprodP parse_slice_index_or_type_inst. Qed.
Local Hint Resolve O_parse_slice_index_or_type_inst : ord.

Lemma O_call_args_loop : forall fuel args ewc,
  OSw (fun lo hi r => forall lo0, lo0 <= lo -> Forall (og lo0 lo) args -> Forall (og lo0 hi) (fst r))
      (call_args_loop OPS self fuel args ewc).
Proof. oloop call_args_loop fuel. Qed.
Local Hint Resolve O_call_args_loop : ord.

Lemma O_primary_step (x : nodeT) :
  OSw (fun lo hi r => forall lo0, lo0 <= lo -> og lo0 lo x -> ogo lo0 hi r)
      (primary_step OPS self x).
Proof. oprod primary_step. Qed.
Local Hint Resolve O_primary_step : ord.

Lemma O_primary_loop : forall fuel x, OSw (G1 x) (primary_loop OPS self fuel x).
Proof. unfold G1. oloop primary_loop fuel. Qed.
Local Hint Resolve O_primary_loop : ord.

Lemma O_operand : OSw og (operand OPS self).
Proof. oprod operand. Qed.
Local Hint Resolve O_operand : ord.

Lemma O_primary_expression (p : option nodeT) : OSw (G1o p) (primary_expression OPS self p).
Proof. unfold G1o. oprod primary_expression. Qed.
Local Hint Resolve O_primary_expression : ord.

Lemma O_unary_body : OSw og (unary_body OPS self).
Proof.
  oprod unary_body.
  cbn [fst snd ogo] in *; o_sat. split; [ oinv_tac | split; [ lia | ] ].
  eapply reset_chan_arrow_og; [ exact E2 | | | exact E3 ].
  - eapply og_mono; [ exact Hg | lia | lia ].
  - unfold inr. lia.
Qed.
Local Hint Resolve O_unary_body : ord.

Lemma O_binary_loop : forall fuel prec x, OSw (G1 x) (binary_loop OPS self fuel prec x).
Proof. unfold G1. oloop binary_loop fuel. Qed.
Local Hint Resolve O_binary_loop : ord.

Lemma O_binary_body (p : option nodeT) prec : OSw (G1o p) (binary_body OPS self p prec).
Proof. unfold G1o. oprod binary_body. Qed.
Local Hint Resolve O_binary_body : ord.

Lemma O_expr_body : OSw og (expr_body self).
Proof. oprod expr_body. Qed.
Local Hint Resolve O_expr_body : ord.

End Step1.

#[export] Hint Resolve R_type R_type_or_none R_expr R_unary R_binary R_litvalue R_block R_stmt R_if
  O_parse_next_level_expr O_comma_list_loop O_expression_list O_parse_type_list O_type_list_loop
  O_type_list O_type_instance O_qualified_ident O_parse_type_term O_type_elem_loop
  O_parse_type_elem O_array_len O_array_or_typeargs O_ellipsis_type O_param_decl_loop
  O_parse_parameter_decl O_params_loop O_params_list O_parameters O_type_parameters O_parse_result
  O_signature O_func_type O_type_params_loop O_parse_type_parameters O_field_decl O_struct_loop
  O_struct_type O_parse_method_elem O_interface_loop O_parse_interface_type O_type_or_none_body
  O_type_body O_parse_element_value O_parse_element O_lit_value_loop O_lit_value_body
  O_index_comma_loop O_parse_slice_index_or_type_inst O_call_args_loop O_primary_step
  O_primary_loop O_operand O_primary_expression O_unary_body O_binary_loop O_binary_body
  O_expr_body : ord.
