(* C07 -- proofs: the token stream of the scanner model tiles the source;
   operators by longest match; keywords vs identifiers; the fuel of scan_all
   always suffices. *)
From Coq Require Import List NArith Bool Lia PeanoNat Permutation.
From GoSyn Require Import Token Tok Regex Scanner.
From GoSyn.spec Require Import NumLit StrLit Lex.
From GoSyn.proofs Require Import NumLitProofs StrLitProofs.
Import ListNotations.
Open Scope N_scope.

(* ------------------------------------------------------------ lists *)

Lemma firstn_length_app X (a b : list X) : firstn (length a) (a ++ b) = a.
Proof.
  induction a as [|x a IH]; [reflexivity|]. cbn [length app firstn]. f_equal. exact IH.
Qed.

Lemma firstn_add_split X : forall x y (m : list X),
  firstn (x + y) m = firstn x m ++ firstn y (skipn x m).
Proof.
  induction x as [|x IH]; intros y m; [reflexivity|].
  destruct m as [|a m]; cbn [Nat.add firstn skipn app].
  - rewrite firstn_nil. reflexivity.
  - f_equal. apply IH.
Qed.

Lemma skipn_skipn X : forall x y (l : list X), skipn x (skipn y l) = skipn (x + y) l.
Proof.
  intros x y. revert x. induction y as [|y IH]; intros x l.
  - rewrite Nat.add_0_r. reflexivity.
  - rewrite Nat.add_succ_r. destruct l as [|a l]; cbn [skipn].
    + destruct x; reflexivity.
    + apply IH.
Qed.

Lemma prefix_firstn p l : is_prefix p l -> firstn (length p) l = p.
Proof. intros [r ->]. apply firstn_length_app. Qed.

Lemma firstn_prefix n (l : str) : is_prefix (firstn n l) l.
Proof. exists (skipn n l). symmetry. apply firstn_skipn. Qed.

Lemma prefix_length p l : is_prefix p l -> (length p <= length l)%nat.
Proof. intros [r ->]. rewrite app_length. lia. Qed.

Lemma nonempty_lenN (t : str) : t <> [] -> 0 < lenN t.
Proof. destruct t as [|c t]; [congruence|]. intros _. unfold lenN. cbn [length]. lia. Qed.

(* ------------------------------------------------------------ slices *)

Lemma slice_empty src a : slice src a a = [].
Proof. unfold slice. rewrite N.sub_diag. reflexivity. Qed.

Lemma slice_app src a b c : a <= b -> b <= c ->
  slice src a b ++ slice src b c = slice src a c.
Proof.
  intros Hab Hbc. unfold slice.
  replace (N.to_nat (c - a)) with (N.to_nat (b - a) + N.to_nat (c - b))%nat by lia.
  rewrite firstn_add_split. rewrite skipn_skipn.
  replace (N.to_nat (b - a) + N.to_nat a)%nat with (N.to_nat b) by lia. reflexivity.
Qed.

Lemma slice_from_0 src e : slice src 0 e = firstn (N.to_nat e) src.
Proof. unfold slice. rewrite N.sub_0_r. reflexivity. Qed.

Lemma skipn_N_app src (a : N) (w r : str) :
  skipn (N.to_nat a) src = w ++ r -> a <= lenN src ->
  skipn (N.to_nat (a + lenN w)) src = r /\ a + lenN w <= lenN src /\
  slice src a (a + lenN w) = w.
Proof.
  intros H Ha. split; [|split].
  - replace (N.to_nat (a + lenN w)) with (length w + N.to_nat a)%nat by (unfold lenN; lia).
    rewrite <- skipn_skipn, H. apply skipn_length_app.
  - apply (f_equal (@length N)) in H. rewrite skipn_length, app_length in H.
    unfold lenN in *. lia.
  - unfold slice. rewrite H.
    replace (N.to_nat (a + lenN w - a)) with (length w) by (unfold lenN; lia).
    apply firstn_length_app.
Qed.

(* ------------------------------------------------------------ sets of strings, by computation *)

Definition str_inb (s : str) (l : list str) : bool := existsb (str_eqb s) l.

Lemma str_inb_iff s l : str_inb s l = true <-> In s l.
Proof.
  unfold str_inb. rewrite existsb_exists. split.
  - intros (y & Hy & E). apply str_eqb_eq in E. subst y. exact Hy.
  - intro H. exists s. split; [exact H|apply str_eqb_refl].
Qed.

Definition incl_b (a b : list str) : bool := forallb (fun s => str_inb s b) a.

Lemma incl_b_sound a b : incl_b a b = true -> incl a b.
Proof.
  unfold incl_b. rewrite forallb_forall. intros H s Hs. apply str_inb_iff. apply H. exact Hs.
Qed.

Fixpoint nodup_b (l : list str) : bool :=
  match l with
  | [] => true
  | x :: r => negb (str_inb x r) && nodup_b r
  end.

Lemma nodup_b_sound l : nodup_b l = true -> NoDup l.
Proof.
  induction l as [|x r IH]; cbn [nodup_b]; intro H; [constructor|].
  apply andb_true_iff in H as [H1 H2]. constructor; [|apply IH; exact H2].
  intro Hin. apply str_inb_iff in Hin. rewrite Hin in H1. discriminate H1.
Qed.

(* ------------------------------------------------------------ the operator table *)

Lemma In_all_operators op : In op all_operators.
Proof.
  destruct op; cbn [all_operators In]; repeat first [left; reflexivity | right].
Qed.

Lemma op_of_str_some s op : op_of_str s = Some op -> op_str op = s.
Proof.
  unfold op_of_str. intro H. apply find_some in H as [_ H]. apply str_eqb_eq in H. exact H.
Qed.

Lemma op_of_str_none s : op_of_str s = None -> forall op, op_str op <> s.
Proof.
  unfold op_of_str. intros H op E.
  pose proof (find_none _ _ H op (In_all_operators op)) as H1. cbv beta in H1.
  rewrite E, str_eqb_refl in H1. discriminate H1.
Qed.

Lemma op_of_str_complete op : op_of_str (op_str op) = Some op.
Proof. destruct op; vm_compute; reflexivity. Qed.

Lemma op_of_str_iff s op : op_of_str s = Some op <-> op_str op = s.
Proof.
  split; [apply op_of_str_some|]. intros <-. apply op_of_str_complete.
Qed.

Lemma op_str_inj a b : op_str a = op_str b -> a = b.
Proof.
  intro H. pose proof (op_of_str_complete a) as Ha. rewrite H, op_of_str_complete in Ha.
  congruence.
Qed.

Lemma op_len op : (1 <= length (op_str op) <= 3)%nat.
Proof. destruct op; cbn [op_str length]; lia. Qed.

Lemma op_str_nonempty op : op_str op <> [].
Proof. destruct op; discriminate. Qed.

(* the spec's table and the model's table are the same set of 48 strings *)
Theorem op_table_spec :
  Permutation (map op_str all_operators) spec_operators /\
  NoDup (map op_str all_operators) /\ NoDup spec_operators /\
  length spec_operators = 48%nat /\ length all_operators = 48%nat /\
  (forall op, In op all_operators) /\
  (forall op, (1 <= length (op_str op) <= 3)%nat).
Proof.
  assert (N1 : NoDup (map op_str all_operators))
    by (apply nodup_b_sound; vm_compute; reflexivity).
  assert (N2 : NoDup spec_operators) by (apply nodup_b_sound; vm_compute; reflexivity).
  assert (I1 : incl (map op_str all_operators) spec_operators)
    by (apply incl_b_sound; vm_compute; reflexivity).
  assert (I2 : incl spec_operators (map op_str all_operators))
    by (apply incl_b_sound; vm_compute; reflexivity).
  split; [|split; [exact N1|split; [exact N2|split; [reflexivity|split; [reflexivity|split]]]]].
  - apply NoDup_Permutation; [exact N1|exact N2|].
    intro s. split; [apply I1|apply I2].
  - exact In_all_operators.
  - exact op_len.
Qed.

Lemma in_spec_operators s : In s spec_operators <-> exists op, s = op_str op.
Proof.
  destruct op_table_spec as (P & _). split.
  - intro H. apply (Permutation_in _ (Permutation_sym P)) in H.
    apply in_map_iff in H as (op & Hop & _). exists op. symmetry. exact Hop.
  - intros (op & ->). apply (Permutation_in _ P). apply in_map. apply In_all_operators.
Qed.

(* a character that is below 128 and is neither an ASCII letter nor '_' *)
Definition nonletter (c : N) : Prop := c < 128 /\ ascii_letter c = false /\ c <> 95.

Lemma letter_nonletter U c : uclass_ascii_ok U -> is_letter U c = true -> nonletter c -> False.
Proof.
  intros HU Hl (H1 & H2 & H3). destruct (HU c H1) as (Hu & _ & _).
  unfold is_letter in Hl. rewrite Hu, H2 in Hl. apply N.eqb_neq in H3. rewrite H3 in Hl.
  cbn [orb] in Hl. discriminate Hl.
Qed.

Lemma digit_nonletter c : is_decimal_digit c = true -> nonletter c.
Proof.
  unfold is_decimal_digit, nonletter, ascii_letter. intro H.
  apply andb_true_iff in H as [H1 H2]. apply N.leb_le in H1, H2.
  repeat split; [lia| |lia].
  destruct (N.leb_spec 97 c), (N.leb_spec c 122), (N.leb_spec 65 c), (N.leb_spec c 90);
    cbn [andb orb]; try reflexivity; lia.
Qed.

(* operators never start with a letter, '_', a decimal digit or a quote, and
   the first character of every operator is itself an operator *)
Lemma op_first_char op : exists c r, op_str op = c :: r /\
  nonletter c /\ is_decimal_digit c = false /\ c <> 39 /\ c <> 34 /\ c <> 96 /\
  op_of_str [c] <> None.
Proof.
  destruct op; eexists; eexists; (split; [reflexivity|]); unfold nonletter;
    repeat split;
    first [vm_compute; reflexivity | vm_compute; intro HH; discriminate HH].
Qed.

(* comment openers are not prefixes of operators *)
Lemma op_not_comment_start op :
  firstn 2 (op_str op) <> [47; 47] /\ firstn 2 (op_str op) <> [47; 42].
Proof. destruct op; split; discriminate. Qed.

(* the only operator that starts with '.' and has a second character is "..." *)
Lemma op_dot_second op c r : op_str op = 46 :: c :: r -> c = 46.
Proof. destruct op; cbn [op_str]; intro H; try discriminate H; inversion H; reflexivity. Qed.

(* maximal munch from the order of the three table lookups *)
Lemma longest_from_lookups l n op :
  op_str op = firstn n l ->
  (forall m, (n < m <= 3)%nat -> op_of_str (firstn m l) = None) ->
  forall op', is_prefix (op_str op') l -> (length (op_str op') <= length (op_str op))%nat.
Proof.
  intros E Hnone op' Hp.
  pose proof (prefix_firstn _ _ Hp) as Hf.
  pose proof (op_len op') as Hl'.
  pose proof (prefix_length _ _ Hp) as Hlen.
  destruct (Nat.le_gt_cases (length (op_str op')) (length (op_str op))) as [Hle|Hgt];
    [exact Hle|exfalso].
  rewrite E, firstn_length in Hgt.
  assert (Hm : (n < length (op_str op') <= 3)%nat) by lia.
  apply (op_of_str_none _ (Hnone _ Hm) op'). symmetry. exact Hf.
Qed.

(* ------------------------------------------------------------ the keyword table *)

Lemma In_all_keywords k : In k all_keywords.
Proof.
  destruct k; cbn [all_keywords In]; repeat first [left; reflexivity | right].
Qed.

Lemma kw_of_str_some s k : kw_of_str s = Some k -> kw_str k = s.
Proof.
  unfold kw_of_str. intro H. apply find_some in H as [_ H]. apply str_eqb_eq in H. exact H.
Qed.

Lemma kw_of_str_none s : kw_of_str s = None -> forall k, kw_str k <> s.
Proof.
  unfold kw_of_str. intros H k E.
  pose proof (find_none _ _ H k (In_all_keywords k)) as H1. cbv beta in H1.
  rewrite E, str_eqb_refl in H1. discriminate H1.
Qed.

Lemma kw_of_str_complete k : kw_of_str (kw_str k) = Some k.
Proof. destruct k; vm_compute; reflexivity. Qed.

Lemma kw_str_nonempty k : kw_str k <> [].
Proof. destruct k; discriminate. Qed.

Theorem kw_table_spec :
  map kw_str all_keywords = spec_keywords /\ NoDup spec_keywords /\
  length spec_keywords = 25%nat /\ (forall k, In k all_keywords).
Proof.
  split; [vm_compute; reflexivity|]. split; [apply nodup_b_sound; vm_compute; reflexivity|].
  split; [reflexivity|exact In_all_keywords].
Qed.

Lemma in_spec_keywords w : In w spec_keywords <-> exists k, w = kw_str k.
Proof.
  destruct kw_table_spec as (<- & _). rewrite in_map_iff. split.
  - intros (k & Hk & _). exists k. symmetry. exact Hk.
  - intros (k & ->). exists k. split; [reflexivity|apply In_all_keywords].
Qed.

Lemma kw_of_str_none_iff w : kw_of_str w = None <-> ~ In w spec_keywords.
Proof.
  rewrite in_spec_keywords. split.
  - intros H (k & ->). apply (kw_of_str_none _ H k). reflexivity.
  - intro H. destruct (kw_of_str w) as [k|] eqn:E; [|reflexivity].
    exfalso. apply H. exists k. symmetry. apply kw_of_str_some. exact E.
Qed.

(* ------------------------------------------------------------ comments, words *)

Lemma take_until_nl_prefix l : is_prefix (take_until_nl l) l.
Proof.
  induction l as [|c l [r IH]]; [exists []; reflexivity|]. cbn [take_until_nl].
  destruct (c =? 10); [exists (c :: l); reflexivity|].
  exists r. cbn [app]. f_equal. exact IH.
Qed.

Lemma take_until_nl_nonempty c l : c <> 10 -> take_until_nl (c :: l) <> [].
Proof.
  intro Hc. cbn [take_until_nl]. destruct (N.eqb_spec c 10) as [E|E]; [contradiction|discriminate].
Qed.

Lemma gc_body_prefix : forall l b, gc_body l = Some b -> is_prefix b l.
Proof.
  induction l as [|c l IH]; intros b H; cbn [gc_body] in H; [discriminate H|].
  destruct l as [|c2 l2]; [discriminate H|].
  destruct ((c =? 42) && (c2 =? 47)).
  - injection H as <-. exists l2. reflexivity.
  - destruct (gc_body (c2 :: l2)) as [b'|] eqn:Hb; [|discriminate H].
    cbn [option_map] in H. injection H as <-.
    destruct (IH b' eq_refl) as [r Hr]. exists r. cbn [app]. f_equal. exact Hr.
Qed.

Lemma take_while_split p l : exists rest,
  l = take_while p l ++ rest /\ match rest with [] => True | c :: _ => p c = false end.
Proof.
  induction l as [|c l (r & IH & Hr)]; [exists []; split; [reflexivity|exact I]|].
  cbn [take_while]. destruct (p c) eqn:E.
  - exists r. split; [cbn [app]; f_equal; exact IH|exact Hr].
  - exists (c :: l). split; [reflexivity|exact E].
Qed.

Lemma take_while_all p l : Forall (fun c => p c = true) (take_while p l).
Proof.
  induction l as [|c l IH]; [constructor|]. cbn [take_while]. destruct (p c) eqn:E.
  - constructor; assumption.
  - constructor.
Qed.

Lemma take_while_head p c l : p c = true -> take_while p (c :: l) = c :: take_while p l.
Proof. intro H. cbn [take_while]. rewrite H. reflexivity. Qed.

Lemma ident_char_letter U c : is_letter U c = true -> ident_char U c = true.
Proof. intro H. unfold ident_char. rewrite H. reflexivity. Qed.

Lemma ident_char_spec U c :
  ident_char U c = true <-> is_letter U c = true \/ is_unicode_digit U c = true.
Proof. unfold ident_char. apply orb_true_iff. Qed.

Lemma ident_char_false U c :
  ident_char U c = false <-> is_letter U c = false /\ is_unicode_digit U c = false.
Proof. unfold ident_char. apply orb_false_iff. Qed.

(* the identifier-shaped run at the head of [l]: shape and maximality *)
Lemma ident_run U c l1 : is_letter U c = true ->
  let w := take_while (ident_char U) (c :: l1) in
  Identifier U w /\ exists rest, c :: l1 = w ++ rest /\ ident_stop U rest.
Proof.
  intros Hc w. subst w. split.
  - rewrite take_while_head by (apply ident_char_letter; exact Hc).
    cbn [Identifier]. split; [exact Hc|].
    pose proof (take_while_all (ident_char U) l1) as Hall.
    eapply Forall_impl; [|exact Hall]. intros d Hd. apply ident_char_spec. exact Hd.
  - destruct (take_while_split (ident_char U) (c :: l1)) as (rest & Hsplit & Hstop).
    exists rest. split; [exact Hsplit|].
    destruct rest as [|d rest]; [exact I|]. cbn [ident_stop]. apply ident_char_false. exact Hstop.
Qed.

(* ------------------------------------------------------------ literals are not empty *)

Lemma numlit_nonempty k : ~ NumLit k [].
Proof.
  intro H. apply numlit_kind_complete in H. vm_compute in H. discriminate H.
Qed.

Lemma scan_lit_rune_nonempty l s : scan_lit_rune l = inl s -> s <> [].
Proof.
  unfold scan_lit_rune. destruct (scan_rune 39 (tl l)) as [r|e]; [|discriminate].
  destruct (str_eqb r [39]); [discriminate|].
  destruct (nth_c l (S (length r))) as [c|]; [|discriminate].
  destruct (c =? 39); [|discriminate]. intro H. injection H as <-. discriminate.
Qed.

Lemma scan_lit_string_nonempty l s : scan_lit_string l = inl s -> s <> [].
Proof.
  unfold scan_lit_string. destruct l as [|q l']; [discriminate|]. destruct (q =? 96).
  - destruct (raw_body l'); [|discriminate]. intro H. injection H as <-. discriminate.
  - destruct (istr_body (S (length l')) l') as [b|[e|]]; try discriminate.
    intro H. injection H as <-. discriminate.
Qed.

(* ------------------------------------------------------------ the branches of scan_token *)

(* neither a 3-character operator nor a comment opener *)
Definition pre2 (l : str) : Prop :=
  op_of_str (firstn 3 l) = None /\
  str_eqb (firstn 2 l) [47; 47] = false /\ str_eqb (firstn 2 l) [47; 42] = false.

(* ... nor a 2-character operator *)
Definition pre_ok (l : str) : Prop := pre2 l /\ op_of_str (firstn 2 l) = None.

Definition not_quote (c : N) : Prop := c <> 39 /\ c <> 34 /\ c <> 96.

(* one constructor per path through scan_token, with the tests that lead there *)
Inductive scan_branch (U : uclass) (l : str) : sres (token * N) -> Prop :=
| SB_op3 op (E3 : op_of_str (firstn 3 l) = Some op) :
    scan_branch U l (inl (TOperator op, lenN (op_str op)))
| SB_line (E3 : op_of_str (firstn 3 l) = None) (Ec : firstn 2 l = [47; 47]) :
    scan_branch U l (inl (TComment (take_until_nl l), lenN (take_until_nl l)))
| SB_block b (E3 : op_of_str (firstn 3 l) = None) (Ec : firstn 2 l = [47; 42])
    (Eb : gc_body (skipn 2 l) = Some b) :
    scan_branch U l (inl (TComment (47 :: 42 :: b), lenN (47 :: 42 :: b)))
| SB_block_err (E3 : op_of_str (firstn 3 l) = None) (Ec : firstn 2 l = [47; 42])
    (Eb : gc_body (skipn 2 l) = None) :
    scan_branch U l (inr (0, SE_comment_not_terminated))
| SB_op2 op (Hpre : pre2 l) (E2 : op_of_str (firstn 2 l) = Some op) :
    scan_branch U l (inl (TOperator op, lenN (op_str op)))
| SB_nil (El : l = []) : scan_branch U l (inr (0, SE_fuel))
| SB_num_ok k s (Hpre : pre_ok l) (Hn : num_startb l = true)
    (Es : scan_lit_number l = inl (k, s)) :
    scan_branch U l (inl (TLiteral k s, lenN s))
| SB_num_err e (Hpre : pre_ok l) (Hn : num_startb l = true)
    (Es : scan_lit_number l = inr e) :
    scan_branch U l (inr e)
| SB_rune_ok s (Hpre : pre_ok l) (Hn : num_startb l = false) (Hq : hd_error l = Some 39)
    (Es : scan_lit_rune l = inl s) :
    scan_branch U l (inl (TLiteral LChar s, lenN s))
| SB_rune_err e (Hpre : pre_ok l) (Hn : num_startb l = false) (Hq : hd_error l = Some 39)
    (Es : scan_lit_rune l = inr e) :
    scan_branch U l (inr e)
| SB_str_ok s (Hpre : pre_ok l) (Hn : num_startb l = false)
    (Hq : hd_error l = Some 34 \/ hd_error l = Some 96)
    (Es : scan_lit_string l = inl s) :
    scan_branch U l (inl (TLiteral LString s, lenN s))
| SB_str_err e (Hpre : pre_ok l) (Hn : num_startb l = false)
    (Hq : hd_error l = Some 34 \/ hd_error l = Some 96)
    (Es : scan_lit_string l = inr e) :
    scan_branch U l (inr e)
| SB_kw c0 l1 k (Hpre : pre_ok l) (Hn : num_startb l = false) (El : l = c0 :: l1)
    (Hq : not_quote c0) (Hlet : is_letter U c0 = true)
    (Ek : kw_of_str (take_while (ident_char U) l) = Some k) :
    scan_branch U l (inl (TKeyword k, lenN (take_while (ident_char U) l)))
| SB_ident c0 l1 (Hpre : pre_ok l) (Hn : num_startb l = false) (El : l = c0 :: l1)
    (Hq : not_quote c0) (Hlet : is_letter U c0 = true)
    (Ek : kw_of_str (take_while (ident_char U) l) = None) :
    scan_branch U l (inl (TLiteral LIdent (take_while (ident_char U) l),
                          lenN (take_while (ident_char U) l)))
| SB_op1 c0 l1 op (Hpre : pre_ok l) (Hn : num_startb l = false) (El : l = c0 :: l1)
    (Hq : not_quote c0) (Hlet : is_letter U c0 = false)
    (E1 : op_of_str [c0] = Some op) :
    scan_branch U l (inl (TOperator op, lenN (op_str op)))
| SB_unresolved c0 l1 (Hpre : pre_ok l) (Hn : num_startb l = false) (El : l = c0 :: l1)
    (Hq : not_quote c0) (Hlet : is_letter U c0 = false)
    (E1 : op_of_str [c0] = None) :
    scan_branch U l (inr (0, SE_unresolved_char)).

Lemma scan_token_branch U l : scan_branch U l (scan_token U l).
Proof.
  unfold scan_token. cbv zeta.
  destruct (op_of_str (firstn 3 l)) as [op|] eqn:E3; [apply SB_op3; exact E3|].
  destruct (str_eqb (firstn 2 l) [47; 47]) eqn:Ec1.
  { apply str_eqb_eq in Ec1. apply SB_line; assumption. }
  destruct (str_eqb (firstn 2 l) [47; 42]) eqn:Ec2.
  { apply str_eqb_eq in Ec2.
    destruct (gc_body (skipn 2 l)) as [b|] eqn:Eb; [apply SB_block|apply SB_block_err];
      assumption. }
  assert (Hpre2 : pre2 l) by (repeat split; assumption).
  destruct (op_of_str (firstn 2 l)) as [op|] eqn:E2; [apply SB_op2; assumption|].
  assert (Hpre : pre_ok l) by (split; assumption).
  clear E3 Ec1 Ec2 E2 Hpre2.
  destruct l as [|c0 l1]; [apply SB_nil; reflexivity|].
  remember (c0 :: l1) as l eqn:Hl.
  assert (Hnum : num_startb l =
    (is_decimal_digit c0 ||
     ((c0 =? 46) && match l1 with c1 :: _ => is_decimal_digit c1 | [] => false end)))
    by (subst l; reflexivity).
  rewrite <- Hnum. clear Hnum.
  destruct (num_startb l) eqn:En.
  { destruct (scan_lit_number l) as [[k s]|e] eqn:Es;
      [apply SB_num_ok|apply SB_num_err]; assumption. }
  destruct (N.eqb_spec c0 39) as [Eq1|Eq1].
  { assert (Hq : hd_error l = Some 39) by (subst l c0; reflexivity).
    destruct (scan_lit_rune l) as [s|e] eqn:Es;
      [apply SB_rune_ok|apply SB_rune_err]; assumption. }
  destruct ((c0 =? 34) || (c0 =? 96)) eqn:Eq2.
  { assert (Hq : hd_error l = Some 34 \/ hd_error l = Some 96).
    { apply orb_true_iff in Eq2 as [Eq2|Eq2]; apply N.eqb_eq in Eq2; subst l c0;
        [left|right]; reflexivity. }
    destruct (scan_lit_string l) as [s|e] eqn:Es;
      [apply SB_str_ok|apply SB_str_err]; assumption. }
  assert (Hq : not_quote c0).
  { apply orb_false_iff in Eq2 as [Eq2 Eq3]. apply N.eqb_neq in Eq2, Eq3.
    repeat split; assumption. }
  destruct (is_letter U c0) eqn:Hlet.
  { destruct (kw_of_str (take_while (ident_char U) l)) as [k|] eqn:Ek;
      [eapply SB_kw|eapply SB_ident]; eassumption. }
  destruct (op_of_str [c0]) as [op|] eqn:E1;
    [eapply SB_op1|eapply SB_unresolved]; eassumption.
Qed.

(* ------------------------------------------------------------ (1) every token's text is a prefix *)

Lemma scan_branch_prefix U l r tok cnt : scan_branch U l r -> r = inl (tok, cnt) ->
  cnt = lenN (tok_text tok) /\ exists rest, l = tok_text tok ++ rest /\ tok_text tok <> [].
Proof.
  intros B E.
  destruct B as
    [ op E3 | E3 Ec | b E3 Ec Eb | E3 Ec Eb | op Hpre E2 | El
    | k s Hpre Hn Es | e Hpre Hn Es | s Hpre Hn Hq Es | e Hpre Hn Hq Es
    | s Hpre Hn Hq Es | e Hpre Hn Hq Es
    | c0 l1 k Hpre Hn El Hq Hlet Ek | c0 l1 Hpre Hn El Hq Hlet Ek
    | c0 l1 op Hpre Hn El Hq Hlet E1 | c0 l1 Hpre Hn El Hq Hlet E1 ];
    try discriminate E; try (subst e; discriminate E);
    injection E as <- <-; cbn [tok_text].
  - (* 3-character lookup *)
    split; [reflexivity|]. apply op_of_str_some in E3. exists (skipn 3 l).
    split; [rewrite E3; symmetry; apply firstn_skipn|apply op_str_nonempty].
  - (* line comment *)
    split; [reflexivity|]. destruct (take_until_nl_prefix l) as [rest Hrest].
    exists rest. split; [exact Hrest|].
    destruct l as [|a [|b l2]]; try discriminate Ec. injection Ec as -> ->.
    apply take_until_nl_nonempty. discriminate.
  - (* general comment *)
    split; [reflexivity|].
    destruct l as [|a [|c l2]]; try discriminate Ec. injection Ec as -> ->.
    cbn [skipn] in Eb. apply gc_body_prefix in Eb as [rest ->].
    exists rest. split; [reflexivity|discriminate].
  - (* 2-character lookup *)
    split; [reflexivity|]. apply op_of_str_some in E2. exists (skipn 2 l).
    split; [rewrite E2; symmetry; apply firstn_skipn|apply op_str_nonempty].
  - (* number *)
    split; [reflexivity|].
    destruct (scan_number_sound l k s Hn Es) as [[rest Hrest] Hnum].
    exists rest. split; [exact Hrest|]. intros ->. exact (numlit_nonempty k Hnum).
  - (* rune *)
    split; [reflexivity|].
    destruct (scan_rune_lit_sound l s Hq Es) as [[rest Hrest] _].
    exists rest. split; [exact Hrest|]. eapply scan_lit_rune_nonempty. exact Es.
  - (* string *)
    split; [reflexivity|].
    destruct (scan_string_lit_sound l s Hq Es) as [[rest Hrest] _].
    exists rest. split; [exact Hrest|]. eapply scan_lit_string_nonempty. exact Es.
  - (* keyword *)
    rewrite (kw_of_str_some _ _ Ek). split; [reflexivity|].
    destruct (take_while_split (ident_char U) l) as (rest & Hrest & _).
    exists rest. split; [exact Hrest|]. rewrite <- (kw_of_str_some _ _ Ek).
    apply kw_str_nonempty.
  - (* identifier *)
    split; [reflexivity|].
    destruct (take_while_split (ident_char U) l) as (rest & Hrest & _).
    exists rest. split; [exact Hrest|]. subst l.
    rewrite take_while_head by (apply ident_char_letter; exact Hlet). discriminate.
  - (* 1-character lookup *)
    split; [reflexivity|]. apply op_of_str_some in E1. exists l1. rewrite E1. subst l.
    split; [reflexivity|discriminate].
Qed.

Theorem scan_token_prefix : forall U l tok cnt, l <> [] ->
  scan_token U l = inl (tok, cnt) ->
  cnt = lenN (tok_text tok) /\ exists rest, l = tok_text tok ++ rest /\ tok_text tok <> [].
Proof.
  intros U l tok cnt _ H. eapply scan_branch_prefix; [apply scan_token_branch|exact H].
Qed.

(* ------------------------------------------------------------ (2) tiling *)

(* the state invariant: the scanner's remaining input is the source from its
   position on *)
Definition scan_inv (src : str) (s : sstate) : Prop :=
  s_rest s = skipn (N.to_nat (s_pos s)) src /\ s_pos s <= lenN src.

Lemma scan_inv_init src : scan_inv src (init_state src).
Proof. split; [reflexivity|cbn [init_state s_pos]; lia]. Qed.

Lemma skip_ws_spec U : forall l pos ls pos' l' ls',
  skip_ws U pos l ls = (pos', l', ls') ->
  exists w, l = w ++ l' /\ Forall (fun c => is_whitespace U c = true) w /\
    pos' = pos + lenN w /\
    match l' with [] => True | c :: _ => is_whitespace U c = false end.
Proof.
  induction l as [|c l IH]; intros pos ls pos' l' ls' H; cbn [skip_ws] in H.
  - injection H as <- <- <-. exists []. repeat split; [constructor|unfold lenN; cbn [length]; lia].
  - destruct (is_whitespace U c) eqn:Ec.
    + apply IH in H as (w & -> & Hw & -> & Hst). exists (c :: w).
      repeat split; [constructor; assumption|unfold lenN; cbn [length]; lia|exact Hst].
    + injection H as <- <- <-. exists [].
      repeat split; [constructor|unfold lenN; cbn [length]; lia|exact Ec].
Qed.

Section Steps.
Variable U : uclass.
Variable src : str.
Let ws := fun c => is_whitespace U c = true.

Lemma next_token_tok s p t s' : scan_inv src s -> next_token U s = SR_tok p t s' ->
  scan_inv src s' /\ s_pos s <= p /\ p <= s_pos s' /\
  Forall ws (slice src (s_pos s) p) /\
  (real_tile src p t (s_pos s') \/ synth_tile (s_pos s) p t (s_pos s')).
Proof.
  intros [Hrest Hpos] H. unfold next_token in H.
  destruct (s_semi s && line_ended U (s_rest s)).
  - injection H as <- <- <-. cbn [s_pos s_rest].
    split; [split; assumption|]. split; [lia|]. split; [lia|].
    split; [rewrite slice_empty; constructor|]. right. repeat split.
  - destruct (skip_ws U (s_pos s) (s_rest s) (s_lines s)) as [[pos l] ls] eqn:Esk.
    cbv beta iota in H.
    apply skip_ws_spec in Esk as (w & Hw & Hall & -> & Hst).
    destruct l as [|c0 l0]; cbv beta iota in H; [discriminate H|].
    remember (c0 :: l0) as l eqn:Hl.
    destruct (scan_token U l) as [[tok cnt]|[off k]] eqn:Est; [|discriminate H].
    injection H as <- <- <-. cbn [s_pos s_rest].
    apply scan_token_prefix in Est as (-> & rest & Hlr & Hne); [|subst l; discriminate].
    rewrite Hrest in Hw.
    destruct (skipn_N_app _ _ _ _ Hw Hpos) as (H1 & H2 & H3).
    rewrite Hlr in H1.
    destruct (skipn_N_app _ _ _ _ H1 H2) as (H4 & H5 & H6).
    unfold scan_inv. cbn [s_pos s_rest].
    split; [split|].
    + rewrite H4. rewrite Hlr. unfold lenN. rewrite Nat2N.id. apply skipn_length_app.
    + exact H5.
    + split; [lia|]. split; [lia|]. split; [rewrite H3; exact Hall|].
      left. split; [exact Hne|]. split; [reflexivity|exact H6].
Qed.

Lemma next_token_eof s s' : scan_inv src s -> next_token U s = SR_eof s' ->
  Forall ws (skipn (N.to_nat (s_pos s)) src) /\ s_pos s' = lenN src /\ s_rest s' = [].
Proof.
  intros [Hrest Hpos] H. unfold next_token in H.
  destruct (s_semi s && line_ended U (s_rest s)); [discriminate H|].
  destruct (skip_ws U (s_pos s) (s_rest s) (s_lines s)) as [[pos l] ls] eqn:Esk.
  cbv beta iota in H.
  apply skip_ws_spec in Esk as (w & Hw & Hall & -> & Hst).
  destruct l as [|c0 l0]; cbv beta iota in H.
  - injection H as <-. cbn [s_pos s_rest]. rewrite Hrest, app_nil_r in Hw.
    split; [rewrite Hw; exact Hall|]. split; [|reflexivity].
    apply (f_equal (@length N)) in Hw. rewrite skipn_length in Hw. unfold lenN in *. lia.
  - destruct (scan_token U (c0 :: l0)) as [[tok cnt]|[off k]]; discriminate H.
Qed.

Lemma next_token_err s p k s' : scan_inv src s -> next_token U s = SR_err p k s' ->
  scan_inv src s' /\ s_pos s <= s_pos s' /\ s_pos s' <= p /\
  Forall ws (slice src (s_pos s) (s_pos s')).
Proof.
  intros [Hrest Hpos] H. unfold next_token in H.
  destruct (s_semi s && line_ended U (s_rest s)); [discriminate H|].
  destruct (skip_ws U (s_pos s) (s_rest s) (s_lines s)) as [[pos l] ls] eqn:Esk.
  cbv beta iota in H.
  apply skip_ws_spec in Esk as (w & Hw & Hall & -> & Hst).
  destruct l as [|c0 l0]; cbv beta iota in H; [discriminate H|].
  remember (c0 :: l0) as l eqn:Hl.
  destruct (scan_token U l) as [[tok cnt]|[off k']] eqn:Est; [discriminate H|].
  injection H as <- <- <-. cbn [s_pos s_rest].
  rewrite Hrest in Hw.
  destruct (skipn_N_app _ _ _ _ Hw Hpos) as (H1 & H2 & H3).
  split; [split; [symmetry; exact H1|exact H2]|].
  split; [lia|]. split; [lia|]. rewrite H3. exact Hall.
Qed.

(* what is known at the end of the loop *)
Definition end_ok (start : N) (toks : list (N * token * N)) (e : scan_end) : Prop :=
  match e with
  | SE_Eof s' =>
      Forall ws (skipn (N.to_nat (tiling_end start toks)) src) /\
      s_pos s' = lenN src /\ s_rest s' = []
  | SE_Err p k s' =>
      scan_inv src s' /\ tiling_end start toks <= s_pos s' /\ s_pos s' <= p /\
      Forall ws (slice src (tiling_end start toks) (s_pos s'))
  | SE_Fuel => True
  end.

Lemma scan_loop_ext_tiles : forall fuel s toks e, scan_inv src s ->
  scan_loop_ext U fuel s = (toks, e) ->
  tiling (is_whitespace U) src (s_pos s) toks /\ end_ok (s_pos s) toks e.
Proof.
  induction fuel as [|f IH]; intros s toks e Hinv H; cbn [scan_loop_ext] in H.
  - injection H as <- <-. split; [constructor|exact I].
  - destruct (next_token U s) as [p t s'|s'|p k s'] eqn:En.
    + destruct (scan_loop_ext U f s') as [ts e'] eqn:El. injection H as <- <-.
      apply (next_token_tok _ _ _ _ Hinv) in En as (Hinv' & Hp1 & Hp2 & Hgap & Htile).
      destruct (IH _ _ _ Hinv' El) as [IHt IHe].
      split; [|exact IHe].
      apply tiling_cons; try assumption. destruct Hinv' as [_ Hb]. exact Hb.
    + injection H as <- <-. split; [constructor|].
      apply (next_token_eof _ _ Hinv) in En. exact En.
    + injection H as <- <-. split; [constructor|].
      apply (next_token_err _ _ _ _ Hinv) in En as (Hinv' & Hp1 & Hp2 & Hgap).
      cbn [end_ok tiling_end]. repeat split; try assumption; apply Hinv'.
Qed.

End Steps.

(* facts about any tiling *)
Lemma real_tile_lt src p t e : real_tile src p t e -> p < e.
Proof. intros (Hne & -> & _). apply nonempty_lenN in Hne. lia. Qed.

Lemma tiling_sorted ws src : forall toks start, tiling ws src start toks ->
  offsets_sorted toks /\ match toks with [] => True | (p, _, _) :: _ => start <= p end.
Proof.
  induction toks as [|[[p t] e] r IH]; intros start H; [split; exact I|].
  inversion H as [|? ? ? ? ? H1 H2 H3 H4 H5 H6]; subst.
  destruct (IH _ H6) as [IHa IHb]. split; [|assumption].
  cbn [offsets_sorted]. split; [assumption|]. split; [|assumption].
  destruct r as [|[[p2 t2] e2] r2]; [exact I|exact IHb].
Qed.

Lemma tiling_retile ws src : forall toks start, tiling ws src start toks ->
  retile src start toks = slice src start (tiling_end start toks) /\
  start <= tiling_end start toks.
Proof.
  induction toks as [|[[p t] e] r IH]; intros start H; cbn [retile tiling_end].
  - split; [rewrite slice_empty; reflexivity|lia].
  - inversion H as [|? ? ? ? ? H1 H2 H3 H4 H5 H6]; subst.
    destruct (IH _ H6) as [IHa IHb]. rewrite IHa.
    assert (Hmid : (if e =? p then [] else tok_text t) = slice src p e).
    { destruct H5 as [(Hne & He & Hs)|(Ht & Hp & He)].
      - destruct (N.eqb_spec e p) as [Heq|Hneq]; [|symmetry; exact Hs].
        exfalso. apply nonempty_lenN in Hne. lia.
      - subst e. rewrite N.eqb_refl, slice_empty. reflexivity. }
    rewrite Hmid. split; [|lia].
    rewrite (slice_app src p e) by assumption. apply slice_app; lia.
Qed.

Lemma tiling_end_le ws src : forall toks start, tiling ws src start toks ->
  start <= lenN src -> tiling_end start toks <= lenN src.
Proof.
  induction toks as [|[[p t] e] r IH]; intros start H Hs; cbn [tiling_end]; [exact Hs|].
  inversion H as [|? ? ? ? ? H1 H2 H3 H4 H5 H6]; subst. apply IH; assumption.
Qed.

(* ------------------------------------------------------------ (5) the fuel suffices *)

Lemma next_token_progress U s p t s' : next_token U s = SR_tok p t s' ->
  (s_semi s = true /\ s_semi s' = false /\ s_rest s' = s_rest s) \/
  (length (s_rest s') < length (s_rest s))%nat.
Proof.
  intro H. unfold next_token in H.
  destruct (s_semi s && line_ended U (s_rest s)) eqn:E.
  - apply andb_true_iff in E as [E1 _]. injection H as <- <- <-. left.
    cbn [s_semi s_rest]. repeat split. exact E1.
  - right.
    destruct (skip_ws U (s_pos s) (s_rest s) (s_lines s)) as [[pos l] ls] eqn:Esk.
    cbv beta iota in H.
    apply skip_ws_spec in Esk as (w & Hw & _ & _ & _).
    destruct l as [|c0 l0]; cbv beta iota in H; [discriminate H|].
    remember (c0 :: l0) as l eqn:Hl.
    destruct (scan_token U l) as [[tok cnt]|[off k]] eqn:Est; [|discriminate H].
    injection H as <- <- <-. cbn [s_rest].
    apply scan_token_prefix in Est as (-> & rest & Hlr & Hne); [|subst l; discriminate].
    rewrite Hw, Hlr. unfold lenN. rewrite Nat2N.id, skipn_length_app, !app_length.
    destruct (tok_text tok) as [|c t']; [congruence|]. cbn [length]. lia.
Qed.

Definition fuel_measure (s : sstate) : nat :=
  (2 * length (s_rest s) + (if s_semi s then 1 else 0) + 1)%nat.

Lemma scan_loop_ext_fuel U : forall fuel s, (fuel_measure s <= fuel)%nat ->
  snd (scan_loop_ext U fuel s) <> SE_Fuel.
Proof.
  induction fuel as [|f IH]; intros s Hm; [unfold fuel_measure in Hm; lia|].
  cbn [scan_loop_ext].
  destruct (next_token U s) as [p t s'|s'|p k s'] eqn:En; [|cbn [snd]; discriminate..].
  specialize (IH s'). destruct (scan_loop_ext U f s') as [ts e]. cbn [snd] in *.
  apply IH. apply next_token_progress in En. unfold fuel_measure in *.
  destruct En as [(E1 & E2 & E3)|Hlt].
  - rewrite E1 in Hm. rewrite E2, E3. lia.
  - destruct (s_semi s), (s_semi s'); lia.
Qed.

Theorem scan_all_ext_no_fuel : forall U src, snd (scan_all_ext U src) <> SE_Fuel.
Proof.
  intros U src. unfold scan_all_ext. apply scan_loop_ext_fuel.
  unfold fuel_measure. cbn [init_state s_rest s_semi]. lia.
Qed.

(* scan_loop is scan_loop_ext without the end positions *)
Lemma scan_loop_ext_erase U : forall fuel s,
  scan_loop U fuel s =
  (map (fun x => (fst (fst x), snd (fst x))) (fst (scan_loop_ext U fuel s)),
   snd (scan_loop_ext U fuel s)).
Proof.
  induction fuel as [|f IH]; intro s; [reflexivity|].
  cbn [scan_loop scan_loop_ext].
  destruct (next_token U s) as [p t s'|s'|p k s']; [|reflexivity..].
  rewrite IH. destruct (scan_loop_ext U f s') as [ts e]. reflexivity.
Qed.

Theorem scan_all_no_fuel : forall U src, snd (scan_all U src) <> SE_Fuel.
Proof.
  intros U src. unfold scan_all. rewrite scan_loop_ext_erase. cbn [snd].
  apply (scan_all_ext_no_fuel U src).
Qed.

(* ------------------------------------------------------------ (3) operators: longest match *)

Theorem scan_token_longest : forall U l op cnt,
  scan_token U l = inl (TOperator op, cnt) ->
  cnt = lenN (op_str op) /\ is_prefix (op_str op) l /\
  forall op', is_prefix (op_str op') l -> (length (op_str op') <= length (op_str op))%nat.
Proof.
  intros U l op cnt H.
  destruct (scan_token_prefix U l _ _ (fun E => ltac:(subst l; discriminate H)) H)
    as (Hcnt & rest & Hrest & _).
  cbn [tok_text] in Hcnt, Hrest.
  split; [exact Hcnt|]. split; [exists rest; exact Hrest|].
  pose proof (scan_token_branch U l) as B. rewrite H in B.
  remember (inl (TOperator op, cnt)) as r eqn:E.
  destruct B as
    [ op0 E3 | E3 Ec | b E3 Ec Eb | E3 Ec Eb | op0 Hpre E2 | El
    | k s Hpre Hn Es | e Hpre Hn Es | s Hpre Hn Hq Es | e Hpre Hn Hq Es
    | s Hpre Hn Hq Es | e Hpre Hn Hq Es
    | c0 l1 k Hpre Hn El Hq Hlet Ek | c0 l1 Hpre Hn El Hq Hlet Ek
    | c0 l1 op0 Hpre Hn El Hq Hlet E1 | c0 l1 Hpre Hn El Hq Hlet E1 ];
    try discriminate E; try (subst e; discriminate E);
    injection E as -> _.
  - apply (longest_from_lookups l 3); [apply op_of_str_some; exact E3|].
    intros m Hm. lia.
  - destruct Hpre as (E3 & _ & _).
    apply (longest_from_lookups l 2); [apply op_of_str_some; exact E2|].
    intros m Hm. assert (m = 3%nat) as -> by lia. exact E3.
  - destruct Hpre as ((E3 & _ & _) & E2).
    apply (longest_from_lookups l 1); [rewrite El; apply op_of_str_some; exact E1|].
    intros m Hm. assert (m = 2 \/ m = 3)%nat as [-> | ->] by lia; assumption.
Qed.

(* the documented precedences: comments after the 3-character lookup and
   before the 2-character one; '.' digit starts a number *)
Lemma firstn2_of_firstn3 (l : str) : firstn 2 (firstn 3 l) = firstn 2 l.
Proof. rewrite firstn_firstn. reflexivity. Qed.

Lemma comment_start_no_op3 l :
  firstn 2 l = [47; 47] \/ firstn 2 l = [47; 42] -> op_of_str (firstn 3 l) = None.
Proof.
  intro H. destruct (op_of_str (firstn 3 l)) as [op|] eqn:E; [|reflexivity]. exfalso.
  apply op_of_str_some in E. destruct (op_not_comment_start op) as [N1 N2].
  rewrite E, firstn2_of_firstn3 in N1, N2. destruct H; contradiction.
Qed.

Theorem line_comment_wins : forall U l, firstn 2 l = [47; 47] ->
  scan_token U l = inl (TComment (take_until_nl l), lenN (take_until_nl l)).
Proof.
  intros U l H. unfold scan_token.
  rewrite (comment_start_no_op3 l (or_introl H)). cbv zeta. rewrite H. reflexivity.
Qed.

Theorem block_comment_wins : forall U l, firstn 2 l = [47; 42] ->
  scan_token U l =
  match gc_body (skipn 2 l) with
  | Some b => inl (TComment (47 :: 42 :: b), lenN (47 :: 42 :: b))
  | None => inr (0, SE_comment_not_terminated)
  end.
Proof.
  intros U l H. unfold scan_token.
  rewrite (comment_start_no_op3 l (or_intror H)). cbv zeta. rewrite H. reflexivity.
Qed.

Theorem dot_digit_is_number : forall U c1 l2, is_decimal_digit c1 = true ->
  scan_token U (46 :: c1 :: l2) =
  match scan_lit_number (46 :: c1 :: l2) with
  | inl (k, s) => inl (TLiteral k s, lenN s)
  | inr e => inr e
  end.
Proof.
  intros U c1 l2 Hd.
  assert (Hc1 : c1 <> 46) by (intros ->; discriminate Hd).
  assert (E3 : op_of_str (firstn 3 (46 :: c1 :: l2)) = None).
  { destruct (op_of_str (firstn 3 (46 :: c1 :: l2))) as [op|] eqn:E; [|reflexivity].
    apply op_of_str_some in E. cbn [firstn] in E. apply op_dot_second in E. contradiction. }
  assert (E2 : op_of_str (firstn 2 (46 :: c1 :: l2)) = None).
  { destruct (op_of_str (firstn 2 (46 :: c1 :: l2))) as [op|] eqn:E; [|reflexivity].
    apply op_of_str_some in E. cbn [firstn] in E. apply op_dot_second in E. contradiction. }
  unfold scan_token. rewrite E3. cbv zeta. rewrite E2.
  cbn [firstn str_eqb]. change (46 =? 47) with false. cbn [andb].
  rewrite Hd. change (46 =? 46) with true. cbn [andb orb].
  change (is_decimal_digit 46) with false. cbn [orb]. reflexivity.
Qed.

(* conversely: outside those two exceptions, an input that starts with an
   operator string is scanned as an operator (the longest one) *)
Theorem scan_token_operator_complete : forall U l op',
  uclass_ascii_ok U -> is_prefix (op_str op') l ->
  firstn 2 l <> [47; 47] -> firstn 2 l <> [47; 42] -> num_startb l = false ->
  exists op, scan_token U l = inl (TOperator op, lenN (op_str op)) /\
    is_prefix (op_str op) l /\
    (length (op_str op') <= length (op_str op))%nat.
Proof.
  intros U l op' HU Hp Hc1 Hc2 Hnum.
  assert (Hop : exists op, scan_token U l = inl (TOperator op, lenN (op_str op))).
  { destruct (op_first_char op') as (c & r' & Hop' & Hnl & Hdig & Hq1 & Hq2 & Hq3 & H1).
    destruct Hp as [rest Hl]. rewrite Hop' in Hl. cbn [app] in Hl.
    pose proof (scan_token_branch U l) as B.
    remember (scan_token U l) as r eqn:Er. clear Er.
    destruct B as
      [ op0 E3 | E3 Ec | b E3 Ec Eb | E3 Ec Eb | op0 Hpre E2 | El
      | k s Hpre Hn Es | e Hpre Hn Es | s Hpre Hn Hq Es | e Hpre Hn Hq Es
      | s Hpre Hn Hq Es | e Hpre Hn Hq Es
      | c0 l1 k Hpre Hn El Hq Hlet Ek | c0 l1 Hpre Hn El Hq Hlet Ek
      | c0 l1 op0 Hpre Hn El Hq Hlet E1 | c0 l1 Hpre Hn El Hq Hlet E1 ];
      try (exists op0; reflexivity); try contradiction; try congruence; exfalso.
    - subst l. cbn [hd_error] in Hq. congruence.
    - subst l. cbn [hd_error] in Hq. congruence.
    - subst l. cbn [hd_error] in Hq. destruct Hq; congruence.
    - subst l. cbn [hd_error] in Hq. destruct Hq; congruence.
    - rewrite El in Hl. injection Hl as -> _. exact (letter_nonletter U c HU Hlet Hnl).
    - rewrite El in Hl. injection Hl as -> _. exact (letter_nonletter U c HU Hlet Hnl). }
  destruct Hop as [op Hop]. exists op. split; [exact Hop|].
  destruct (scan_token_longest U l op _ Hop) as (_ & Hpre & Hlong).
  split; [exact Hpre|]. apply Hlong. exact Hp.
Qed.

(* the same with the number exception spelled out: '.' followed by a digit *)
Theorem scan_token_operator_complete' : forall U l op',
  uclass_ascii_ok U -> is_prefix (op_str op') l ->
  firstn 2 l <> [47; 47] -> firstn 2 l <> [47; 42] ->
  (forall c1 l2, l = 46 :: c1 :: l2 -> is_decimal_digit c1 = false) ->
  exists op, scan_token U l = inl (TOperator op, lenN (op_str op)) /\
    is_prefix (op_str op) l /\
    (length (op_str op') <= length (op_str op))%nat.
Proof.
  intros U l op' HU Hp Hc1 Hc2 Hdot.
  apply scan_token_operator_complete; try assumption.
  destruct (op_first_char op') as (c & r' & Hop' & _ & Hdig & _).
  destruct Hp as [rest Hl]. rewrite Hop' in Hl. cbn [app] in Hl.
  remember (r' ++ rest) as t eqn:Ht. clear Ht. subst l.
  cbn [num_startb]. rewrite Hdig. cbn [orb].
  destruct (N.eqb_spec c 46) as [->|Hne]; [|reflexivity]. cbn [andb].
  destruct t as [|c1 l2]; [reflexivity|]. exact (Hdot c1 l2 eq_refl).
Qed.

(* ------------------------------------------------------------ (4) keywords and identifiers *)

(* a word: under an ASCII-faithful oracle, an input that starts with a letter
   goes to the identifier branch *)
Lemma scan_token_word U l c l1 : uclass_ascii_ok U -> l = c :: l1 -> is_letter U c = true ->
  scan_token U l =
  match kw_of_str (take_while (ident_char U) l) with
  | Some k => inl (TKeyword k, lenN (take_while (ident_char U) l))
  | None => inl (TLiteral LIdent (take_while (ident_char U) l),
                 lenN (take_while (ident_char U) l))
  end.
Proof.
  intros HU Hl Hc.
  assert (Hno : forall op r, op_str op = c :: r -> False).
  { intros op r E. destruct (op_first_char op) as (c' & r' & E' & Hnl & _).
    rewrite E in E'. injection E' as -> _. exact (letter_nonletter U c' HU Hc Hnl). }
  assert (Hconst : forall d, nonletter d -> c <> d).
  { intros d Hd ->. exact (letter_nonletter U d HU Hc Hd). }
  assert (N47 : c <> 47) by (apply Hconst; repeat split; first [reflexivity | discriminate]).
  assert (N39 : c <> 39) by (apply Hconst; repeat split; first [reflexivity | discriminate]).
  assert (N34 : c <> 34) by (apply Hconst; repeat split; first [reflexivity | discriminate]).
  assert (N96 : c <> 96) by (apply Hconst; repeat split; first [reflexivity | discriminate]).
  assert (N46 : c <> 46) by (apply Hconst; repeat split; first [reflexivity | discriminate]).
  pose proof (scan_token_branch U l) as B.
  remember (scan_token U l) as r eqn:Er. clear Er.
  destruct B as
    [ op0 E3 | E3 Ec | b E3 Ec Eb | E3 Ec Eb | op0 Hpre E2 | El
    | k s Hpre Hn Es | e Hpre Hn Es | s Hpre Hn Hq Es | e Hpre Hn Hq Es
    | s Hpre Hn Hq Es | e Hpre Hn Hq Es
    | c0 l1' k Hpre Hn El Hq Hlet Ek | c0 l1' Hpre Hn El Hq Hlet Ek
    | c0 l1' op0 Hpre Hn El Hq Hlet E1 | c0 l1' Hpre Hn El Hq Hlet E1 ];
    try (rewrite Ek; reflexivity); exfalso.
  - apply op_of_str_some in E3. subst l. cbn [firstn] in E3. exact (Hno _ _ E3).
  - subst l. destruct l1; cbn [firstn] in Ec; congruence.
  - subst l. destruct l1; cbn [firstn] in Ec; congruence.
  - subst l. destruct l1; cbn [firstn] in Ec; congruence.
  - apply op_of_str_some in E2. subst l. cbn [firstn] in E2. exact (Hno _ _ E2).
  - congruence.
  - subst l. cbn [num_startb] in Hn. apply orb_true_iff in Hn as [Hn|Hn].
    + exact (letter_nonletter U c HU Hc (digit_nonletter c Hn)).
    + apply andb_true_iff in Hn as [Hn _]. apply N.eqb_eq in Hn. contradiction.
  - subst l. cbn [num_startb] in Hn. apply orb_true_iff in Hn as [Hn|Hn].
    + exact (letter_nonletter U c HU Hc (digit_nonletter c Hn)).
    + apply andb_true_iff in Hn as [Hn _]. apply N.eqb_eq in Hn. contradiction.
  - subst l. cbn [hd_error] in Hq. congruence.
  - subst l. cbn [hd_error] in Hq. congruence.
  - subst l. cbn [hd_error] in Hq. destruct Hq; congruence.
  - subst l. cbn [hd_error] in Hq. destruct Hq; congruence.
  - rewrite El in Hl. injection Hl as -> _. congruence.
  - rewrite El in Hl. injection Hl as -> _. congruence.
Qed.

Theorem scan_token_keywords : forall U l c l1,
  uclass_ascii_ok U -> l = c :: l1 -> is_letter U c = true ->
  let w := take_while (ident_char U) l in
  Identifier U w /\
  (exists rest, l = w ++ rest /\ ident_stop U rest) /\
  (forall k, scan_token U l = inl (TKeyword k, lenN w) <-> w = kw_str k) /\
  (scan_token U l = inl (TLiteral LIdent w, lenN w) <-> ~ In w spec_keywords).
Proof.
  intros U l c l1 HU Hl Hc w.
  pose proof (scan_token_word U l c l1 HU Hl Hc) as Hw. fold w in Hw.
  destruct (ident_run U c l1 Hc) as [Hid Hrun]. rewrite <- Hl in Hid, Hrun. fold w in Hid, Hrun.
  split; [exact Hid|]. split; [exact Hrun|]. split.
  - intro k. split.
    + intro H. rewrite H in Hw. destruct (kw_of_str w) as [k'|] eqn:Ek; [|discriminate Hw].
      injection Hw as ->. symmetry. apply kw_of_str_some. exact Ek.
    + intro E. rewrite Hw, E, kw_of_str_complete. rewrite <- E. reflexivity.
  - rewrite <- kw_of_str_none_iff. split.
    + intro H. rewrite H in Hw. destruct (kw_of_str w) as [k'|]; [discriminate Hw|reflexivity].
    + intro E. rewrite Hw, E. reflexivity.
Qed.

(* unconditionally (any oracle): a keyword token is a maximal identifier-shaped
   run that spells the keyword; an identifier token is a maximal run that
   spells no keyword *)
Theorem scan_token_keyword_inv : forall U l k cnt,
  scan_token U l = inl (TKeyword k, cnt) ->
  take_while (ident_char U) l = kw_str k /\ Identifier U (kw_str k) /\
  exists rest, l = kw_str k ++ rest /\ ident_stop U rest.
Proof.
  intros U l k cnt H.
  pose proof (scan_token_branch U l) as B. rewrite H in B.
  remember (inl (TKeyword k, cnt)) as r eqn:E.
  destruct B as
    [ op0 E3 | E3 Ec | b E3 Ec Eb | E3 Ec Eb | op0 Hpre E2 | El
    | k0 s Hpre Hn Es | e Hpre Hn Es | s Hpre Hn Hq Es | e Hpre Hn Hq Es
    | s Hpre Hn Hq Es | e Hpre Hn Hq Es
    | c0 l1 k0 Hpre Hn El Hq Hlet Ek | c0 l1 Hpre Hn El Hq Hlet Ek
    | c0 l1 op0 Hpre Hn El Hq Hlet E1 | c0 l1 Hpre Hn El Hq Hlet E1 ];
    try discriminate E; try (subst e; discriminate E).
  injection E as -> _. apply kw_of_str_some in Ek.
  destruct (ident_run U c0 l1 Hlet) as [Hid Hrun]. rewrite <- El in Hid, Hrun.
  rewrite Ek. split; [reflexivity|]. split; assumption.
Qed.

Theorem scan_token_ident_inv : forall U l w cnt,
  scan_token U l = inl (TLiteral LIdent w, cnt) ->
  take_while (ident_char U) l = w /\ Identifier U w /\ ~ In w spec_keywords /\
  exists rest, l = w ++ rest /\ ident_stop U rest.
Proof.
  intros U l w cnt H.
  pose proof (scan_token_branch U l) as B. rewrite H in B.
  remember (inl (TLiteral LIdent w, cnt)) as r eqn:E.
  destruct B as
    [ op0 E3 | E3 Ec | b E3 Ec Eb | E3 Ec Eb | op0 Hpre E2 | El
    | k0 s Hpre Hn Es | e Hpre Hn Es | s Hpre Hn Hq Es | e Hpre Hn Hq Es
    | s Hpre Hn Hq Es | e Hpre Hn Hq Es
    | c0 l1 k0 Hpre Hn El Hq Hlet Ek | c0 l1 Hpre Hn El Hq Hlet Ek
    | c0 l1 op0 Hpre Hn El Hq Hlet E1 | c0 l1 Hpre Hn El Hq Hlet E1 ];
    try discriminate E; try (subst e; discriminate E).
  - (* a number is never an identifier *)
    injection E as -> -> _. destruct (scan_number_sound l LIdent w Hn Es) as [_ Hnum].
    exact (False_ind _ Hnum).
  - injection E as <- _.
    destruct (ident_run U c0 l1 Hlet) as [Hid Hrun]. rewrite <- El in Hid, Hrun.
    split; [reflexivity|]. split; [exact Hid|]. split; [|exact Hrun].
    apply kw_of_str_none_iff. exact Ek.
Qed.

(* ------------------------------------------------------------ (2) the tiling theorem, from the initial state *)

Theorem scan_tiles : forall U src fuel toks e,
  scan_loop_ext U fuel (init_state src) = (toks, e) ->
  tiling (is_whitespace U) src 0 toks /\
  offsets_sorted toks /\
  retile src 0 toks ++ skipn (N.to_nat (tiling_end 0 toks)) src = src /\
  (forall s, e = SE_Eof s ->
     Forall (fun c => is_whitespace U c = true) (skipn (N.to_nat (tiling_end 0 toks)) src) /\
     s_pos s = lenN src /\ s_rest s = []) /\
  (forall p k s, e = SE_Err p k s ->
     tiling_end 0 toks <= s_pos s /\ s_pos s <= p /\
     Forall (fun c => is_whitespace U c = true) (slice src (tiling_end 0 toks) (s_pos s)) /\
     s_rest s = skipn (N.to_nat (s_pos s)) src).
Proof.
  intros U src fuel toks e H.
  destruct (scan_loop_ext_tiles U src fuel (init_state src) toks e (scan_inv_init src) H)
    as [Ht He].
  change (s_pos (init_state src)) with 0 in Ht, He.
  split; [exact Ht|]. split; [exact (proj1 (tiling_sorted _ _ _ _ Ht))|].
  split.
  { destruct (tiling_retile _ _ _ _ Ht) as [Hr _]. rewrite Hr, slice_from_0. apply firstn_skipn. }
  split.
  - intros s ->. exact He.
  - intros p k s ->. cbn [end_ok] in He. destruct He as ([Hi1 Hi2] & H1 & H2 & H3).
    repeat split; assumption.
Qed.

Theorem scan_all_ext_tiles : forall U src toks e,
  scan_all_ext U src = (toks, e) ->
  e <> SE_Fuel /\
  tiling (is_whitespace U) src 0 toks /\
  offsets_sorted toks /\
  retile src 0 toks ++ skipn (N.to_nat (tiling_end 0 toks)) src = src /\
  (forall s, e = SE_Eof s ->
     Forall (fun c => is_whitespace U c = true) (skipn (N.to_nat (tiling_end 0 toks)) src) /\
     s_pos s = lenN src /\ s_rest s = []).
Proof.
  intros U src toks e H.
  pose proof (scan_all_ext_no_fuel U src) as Hnf. rewrite H in Hnf. cbn [snd] in Hnf.
  unfold scan_all_ext in H. apply scan_tiles in H as (H1 & H2 & H3 & H4 & _).
  split; [exact Hnf|]. split; [exact H1|]. split; [exact H2|]. split; [exact H3|exact H4].
Qed.

(* ------------------------------------------------------------ axioms *)
Print Assumptions scan_token_prefix.
Print Assumptions scan_loop_ext_tiles.
Print Assumptions scan_tiles.
Print Assumptions scan_all_ext_tiles.
Print Assumptions scan_token_longest.
Print Assumptions scan_token_operator_complete.
Print Assumptions scan_token_operator_complete'.
Print Assumptions op_table_spec.
Print Assumptions kw_table_spec.
Print Assumptions scan_token_keywords.
Print Assumptions scan_token_keyword_inv.
Print Assumptions scan_token_ident_inv.
Print Assumptions scan_all_ext_no_fuel.
Print Assumptions scan_all_no_fuel.
