(* Paired positions are ordered, stage 3: declarations, statement dispatch, the
   closed recursion, the file level and the final theorem. *)
From Coq Require Import List Bool Arith NArith Lia Sorted.
From GoSyn Require Import Token Tok Ast Core.
From GoSyn.proofs Require Import Lift StreamProofs AccountBase AccountExpr AccountStmt AccountProofs
  PosBase PosExpr PosOrder PosOrderExpr PosOrderStmt.
Import ListNotations.
Local Open Scope N_scope.

Section Step3.
Variables (G D C E : Type) (OPS : ops N G D C).
Notation pstate := (Core.pstate N G D E).
Notation res := (Core.res N G D E).
Notation parsers := (Core.parsers N G D C E).
Notation selem := (Core.selem N G).
Notation nodeT := (node N C).
Variable whole : list selem.
Variable term : Core.sterm N G E.
Hypothesis Hsorted : StronglySorted N.lt (allp whole term).
Notation OSw := (OS (D:=D) whole term).
Notation OSPw := (OSP (D:=D) whole term).

Variable self : parsers.
Hypothesis HG : GoodO whole term self.
Hypothesis HGS : Good (fun _ : unit => stream_inv whole term) (fun _ => stream_inv whole term) self.

Lemma O_parse_type_spec : OSw og (parse_type_spec OPS self).
Proof. oprod parse_type_spec. Qed.
Local Hint Resolve O_parse_type_spec : ord.

Lemma O_parse_var_spec : OSw og (parse_var_spec OPS self).
Proof. oprod parse_var_spec. Qed.
Local Hint Resolve O_parse_var_spec : ord.

Lemma O_parse_const_spec index : OSw og (parse_const_spec OPS self index).
Proof. oprod parse_const_spec. Qed.
Local Hint Resolve O_parse_const_spec : ord.

Lemma O_parse_spec k index : OSw og (parse_spec OPS self k index).
Proof. oprod parse_spec. Qed.
Local Hint Resolve O_parse_spec : ord.

Lemma O_decl_group_loop : forall fuel k index acc,
  OSw (G1l acc) (decl_group_loop OPS self fuel k index acc).
Proof. unfold G1l. oloop decl_group_loop fuel. Qed.
Local Hint Resolve O_decl_group_loop : ord.

Lemma O_parse_decl k : OSPw (fun s => s_cur s <> None) og (parse_decl OPS self k).
Proof.
  intros s r s' Hs Hpre. unfold parse_decl. hide_nats. cbv zeta.
  o_steps; try (solve [ destruct k; cbn [decl_tag] in *; o_fin ]).
Qed.
Local Hint Resolve O_parse_decl : ord.

Lemma O_parse_func_decl : OSw og (parse_func_decl OPS self).
Proof. oprod parse_func_decl. Qed.
Local Hint Resolve O_parse_func_decl : ord.

Lemma O_stmt_body : OSw og (stmt_body OPS self).
Proof.
  intros s r s' Hs. unfold stmt_body. hide_nats.
  destruct (s_cur s) as [[pos tok]|] eqn:Ec; [ | discriminate ].
  destruct (classify_stmt tok) eqn:Ecl; o_steps; try (solve [ o_fin ]).
Qed.
Local Hint Resolve O_stmt_body : ord.

Lemma GoodO_step : GoodO whole term (step OPS self).
Proof.
  split; cbn [step k_type k_type_or_none k_expr k_unary k_binary k_litvalue k_block k_stmt k_if];
    try apply O_nested; eauto with ord.
Qed.

(* -- file level -- *)

Lemma O_parse_package : OSw og (parse_package OPS).
Proof. oprod parse_package. Qed.
Local Hint Resolve O_parse_package : ord.

Lemma O_parse_import_spec : OSw og (parse_import_spec OPS).
Proof.
  intros s r s' Hs. unfold parse_import_spec. hide_nats.
  destruct (s_cur s) as [[pos tok]|] eqn:Ec; [ | discriminate ].
  destruct tok as [| |o|k name]; try destruct o; try destruct k; o_steps; try (solve [ o_fin ]).
Qed.
Local Hint Resolve O_parse_import_spec : ord.

Lemma O_import_group_loop : forall fuel (acc : list nodeT),
  OSw (G1l acc) (import_group_loop OPS fuel acc).
Proof. unfold G1l. oloop import_group_loop fuel. Qed.
Local Hint Resolve O_import_group_loop : ord.

Lemma O_parse_import_decl : OSw G0l (parse_import_decl OPS).
Proof. unfold G0l. oprod parse_import_decl. Qed.
Local Hint Resolve O_parse_import_decl : ord.

Lemma O_imports_loop : forall fuel (acc : list nodeT),
  OSw (G1l acc) (imports_loop OPS fuel acc).
Proof. unfold G1l. oloop imports_loop fuel. Qed.
Local Hint Resolve O_imports_loop : ord.

Lemma O_parse_top_decl : OSw og (parse_top_decl OPS self).
Proof.
  intros s r s' Hs. unfold parse_top_decl. hide_nats.
  destruct (s_cur s) as [[pos tok]|] eqn:Ec; [ | discriminate ].
  destruct tok as [|k|o|k name]; try discriminate.
  destruct k; try discriminate; o_steps; try (solve [ o_fin ]).
Qed.
Local Hint Resolve O_parse_top_decl : ord.

Lemma O_decls_loop : forall fuel acc, OSw (G1l acc) (decls_loop OPS self fuel acc).
Proof. unfold G1l. oloop decls_loop fuel. Qed.
Local Hint Resolve O_decls_loop : ord.

Lemma O_ensure_started : OSw anyo (ensure_started OPS).
Proof. oprod ensure_started. Qed.
Local Hint Resolve O_ensure_started : ord.

Lemma O_parse_file : OSw og (parse_file OPS self).
Proof. oprod parse_file. Qed.

Lemma O_entry_expression : OSw og (entry_expression OPS self).
Proof. oprod entry_expression. Qed.

Lemma O_entry_stmt : OSw og (entry_stmt OPS self).
Proof. oprod entry_stmt. Qed.

End Step3.

(* ------------------------------------------------------------------ closing the recursion *)

Section Close.
Variables (G D C E : Type) (OPS : ops N G D C).
Notation pstate := (Core.pstate N G D E).
Notation nodeT := (node N C).
Notation selem := (Core.selem N G).
Notation sterm := (Core.sterm N G E).

Theorem GoodO_parsers_at whole (term : sterm) d :
  StronglySorted N.lt (allp whole term) -> GoodO whole term (parsers_at OPS d).
Proof.
  intros Hsorted. induction d as [|d IH]; cbn [parsers_at].
  - apply GoodO_no_fuel.
  - apply GoodO_step; [ exact Hsorted | exact IH | apply stream_inv_Good ].
Qed.

(* the state after the first Parser::next *)
Lemma oinv_first whole (term : sterm) a0 (d0 : D) s0 :
  next OPS (init_state a0 d0 whole term) = Ok tt s0 -> oinv whole term s0.
Proof.
  intros Hn.
  assert (Hst : stream_inv whole term s0).
  { eapply (J_next (stream_inv_closed _ _ _ _ _ OPS whole term)); [ | exact Hn ].
    apply stream_inv_init. }
  revert Hn. unfold next. cbn [init_state s_rest s_term].
  destruct whole as [|[b0 b1 t g] r] eqn:Hw.
  - destruct term as [a g|e g] eqn:Ht; [ | discriminate ]. intros [= <-].
    eapply oinv_end; [ reflexivity | exact Hst | reflexivity .. ].
  - intros [= <-]. eapply oinv_some; [ exact Hst | reflexivity | | reflexivity ].
    cbn. apply suffix_of_refl.
Qed.

Theorem parse_file_og d a0 (d0 : D) elems (term : sterm) f s' :
  StronglySorted N.lt (allp elems term) ->
  parse_file OPS (parsers_at OPS d) (init_state a0 d0 elems term) = Ok f s' ->
  exists lo hi, og lo hi f.
Proof.
  intros Hsorted H.
  destruct (parse_file_unstarted _ _ _ _ _ OPS _ (init_state a0 d0 elems term) _ _ eq_refl H)
    as (s0 & Hn & H0).
  pose proof (oinv_first _ _ _ _ _ Hn) as Ho.
  assert (HS : OS (D:=D) elems term og (parse_file OPS (parsers_at OPS d))).
  { eapply O_parse_file; [ exact Hsorted | apply GoodO_parsers_at, Hsorted
                         | try apply stream_inv_Good .. ]. }
  destruct (HS s0 f s' Ho H0) as (_ & _ & Hg).
  eauto.
Qed.

(* THE THEOREM (stretch): every bracketed node of an accepted file is ordered *)
Theorem parse_file_ordered d a0 (d0 : D) elems (term : sterm) f s' :
  StronglySorted N.lt (allp elems term) ->
  parse_file OPS (parsers_at OPS d) (init_state a0 d0 elems term) = Ok f s' ->
  forall n, occurs n f -> pair_here (n_tag n) (n_ps n) (n_kids n).
Proof.
  intros Hsorted H. destruct (parse_file_og d a0 d0 elems term f s' Hsorted H) as (lo & hi & Hg).
  eapply og_occurs, Hg.
Qed.

(* ... spelled out *)
Corollary parse_file_brackets d a0 (d0 : D) elems (term : sterm) f s' :
  StronglySorted N.lt (allp elems term) ->
  parse_file OPS (parsers_at OPS d) (init_state a0 d0 elems term) = Ok f s' ->
  forall n l r, occurs n f -> pair_of (n_tag n) (n_ps n) = Some (l, r) ->
  l < r /\
  forall k, In k (inside (n_tag n) (n_kids n)) -> forall p, In p (allpos k) -> l < p /\ p < r.
Proof.
  intros Hsorted H n l r Hn Hp.
  pose proof (parse_file_ordered d a0 d0 elems term f s' Hsorted H n Hn) as Hh.
  unfold pair_here in Hh. rewrite Hp in Hh. destruct Hh as (Hlr & Hin).
  split; [ exact Hlr | ]. intros k Hk p Hpk.
  rewrite Forall_forall in Hin. specialize (Hin k Hk). apply ranged_allpos in Hin.
  rewrite Forall_forall in Hin. specialize (Hin p Hpk). unfold inr in Hin. lia.
Qed.

End Close.
