(* Rune and string literals: the scanner model (scan_lit_rune, scan_lit_string
   of Scanner.v) accepts exactly the literals of the Go specification
   (spec/StrLit.v), returns their text verbatim, and never runs out of fuel. *)
From Coq Require Import List NArith Bool Lia.
From GoSyn Require Import Token Tok Regex Scanner.
From GoSyn.spec Require Import StrLit.
Import ListNotations.
Open Scope N_scope.

(* ------------------------------------------------------------ booleans to Prop *)

Ltac b2p :=
  repeat match goal with
  | H : _ && _ = true |- _ => apply andb_true_iff in H as [? ?]
  | H : _ || _ = false |- _ => apply orb_false_iff in H as [? ?]
  | H : negb _ = true |- _ => apply negb_true_iff in H
  | H : negb _ = false |- _ => apply negb_false_iff in H
  | H : (_ =? _) = true |- _ => apply N.eqb_eq in H
  | H : (_ =? _) = false |- _ => apply N.eqb_neq in H
  | H : (_ <=? _) = true |- _ => apply N.leb_le in H
  | H : (_ <=? _) = false |- _ => apply N.leb_gt in H
  | H : _ || _ = true |- _ => apply orb_true_iff in H as [?|?]
  | H : _ && _ = false |- _ => apply andb_false_iff in H as [?|?]
  end.

Ltac p2b :=
  repeat first
    [ rewrite andb_true_iff | rewrite orb_true_iff | rewrite negb_true_iff
    | rewrite andb_false_iff | rewrite orb_false_iff | rewrite negb_false_iff
    | rewrite N.eqb_eq | rewrite N.eqb_neq | rewrite N.leb_le | rewrite N.leb_gt ].

(* ------------------------------------------------------------ digit values *)

Lemma hex_val_cases c : is_hex_digit c = true ->
  (48 <= c <= 57 /\ hex_val c = c - 48) \/
  (97 <= c <= 102 /\ hex_val c = c - 87) \/
  (65 <= c <= 70 /\ hex_val c = c - 55).
Proof.
  unfold is_hex_digit, hex_val, is_decimal_digit. intro H.
  destruct (N.leb_spec 48 c), (N.leb_spec c 57), (N.leb_spec 97 c), (N.leb_spec c 102),
    (N.leb_spec 65 c), (N.leb_spec c 70); cbn [andb orb] in *; try discriminate; lia.
Qed.

Lemma hex_iff c : is_hex_digit c = true <->
  (48 <= c <= 57) \/ (97 <= c <= 102) \/ (65 <= c <= 70).
Proof. unfold is_hex_digit, is_decimal_digit. p2b. tauto. Qed.

Lemma oct_iff c : is_octal_digit c = true <-> 48 <= c <= 55.
Proof. unfold is_octal_digit. p2b. tauto. Qed.

Lemma hex_val_lt c : is_hex_digit c = true -> hex_val c < 16.
Proof. intro H. apply hex_val_cases in H. lia. Qed.

Lemma hex_val_0 c : is_hex_digit c = true -> (hex_val c = 0 <-> c = 48).
Proof. intro H. apply hex_val_cases in H. lia. Qed.

Lemma hex_val_1 c : is_hex_digit c = true -> (hex_val c = 1 <-> c = 49).
Proof. intro H. apply hex_val_cases in H. lia. Qed.

Lemma hex_val_13 c : is_hex_digit c = true -> (hex_val c = 13 <-> (c = 100 \/ c = 68)).
Proof. intro H. apply hex_val_cases in H. lia. Qed.

Lemma hex_val_lt8 c : is_hex_digit c = true -> (hex_val c < 8 <-> 48 <= c <= 55).
Proof. intro H. apply hex_val_cases in H. lia. Qed.

Lemma oct_val c : is_octal_digit c = true -> hex_val c = c - 48.
Proof.
  intro H. apply oct_iff in H. unfold hex_val, is_decimal_digit.
  destruct (N.leb_spec 48 c), (N.leb_spec c 57); cbn [andb]; lia.
Qed.

(* not a surrogate half, on the first two of four hex digits *)
Definition nosurr (a b : N) : Prop := (a <> 100 /\ a <> 68) \/ 48 <= b <= 55.

Lemma valid2 a b : is_hex_digit a = true -> is_hex_digit b = true ->
  valid_scalar (digits_value 16 [a; b]) = true /\ digits_value 16 [a; b] <= 255.
Proof.
  intros Ha Hb. unfold valid_scalar. cbn [digits_value fold_left]. p2b.
  apply hex_val_lt in Ha, Hb. revert Ha Hb.
  generalize (hex_val a) (hex_val b). intros. lia.
Qed.

Lemma valid3 a b c : is_octal_digit a = true -> is_octal_digit b = true -> is_octal_digit c = true ->
  valid_scalar (digits_value 8 [a; b; c]) = true /\
  (digits_value 8 [a; b; c] <= 255 <-> a <= 51).
Proof.
  intros Ha Hb Hc. unfold valid_scalar. cbn [digits_value fold_left]. p2b.
  rewrite (oct_val a Ha), (oct_val b Hb), (oct_val c Hc).
  apply oct_iff in Ha, Hb, Hc. lia.
Qed.

Lemma valid4 a b c d :
  is_hex_digit a = true -> is_hex_digit b = true -> is_hex_digit c = true -> is_hex_digit d = true ->
  (valid_scalar (digits_value 16 [a; b; c; d]) = true <-> nosurr a b).
Proof.
  intros Ha Hb Hc Hd. unfold valid_scalar, nosurr. cbn [digits_value fold_left]. p2b.
  pose proof (hex_val_13 a Ha) as Ha13. pose proof (hex_val_lt8 b Hb) as Hb8.
  apply hex_val_lt in Ha, Hb, Hc, Hd. revert Ha Hb Hc Hd Ha13 Hb8.
  generalize (hex_val a) (hex_val b) (hex_val c) (hex_val d). intros. lia.
Qed.

Lemma v8_arith h1 h2 h3 h4 h5 h6 h7 h8 :
  h1 < 16 -> h2 < 16 -> h3 < 16 -> h4 < 16 -> h5 < 16 -> h6 < 16 -> h7 < 16 -> h8 < 16 ->
  let v := (((((((0 * 16 + h1) * 16 + h2) * 16 + h3) * 16 + h4) * 16 + h5) * 16 + h6) * 16 + h7) * 16 + h8 in
  (v <= 1114111 /\ (v < 55296 \/ 57343 < v)) <->
  (h1 = 0 /\ h2 = 0 /\
   ((h3 = 0 /\ h4 = 0 /\ (h5 <> 13 \/ h6 < 8)) \/ (h3 = 0 /\ h4 <> 0) \/ (h3 = 1 /\ h4 = 0))).
Proof.
  intros H1 H2 H3 H4 H5 H6 H7 H8 v.
  set (lo := ((h5 * 16 + h6) * 16 + h7) * 16 + h8).
  set (hi := ((h1 * 16 + h2) * 16 + h3) * 16 + h4).
  assert (Hv : v = hi * 65536 + lo) by (subst v lo hi; lia).
  assert (Hlo : lo < 65536) by (subst lo; lia).
  assert (Hlos : (lo < 55296 \/ 57343 < lo) <-> (h5 <> 13 \/ h6 < 8)) by (subst lo; lia).
  assert (Hhi0 : hi = 0 <-> (h1 = 0 /\ h2 = 0 /\ h3 = 0 /\ h4 = 0)) by (subst hi; lia).
  assert (Hhi16 : hi <= 16 <-> (h1 = 0 /\ h2 = 0 /\ (h3 = 0 \/ (h3 = 1 /\ h4 = 0)))) by (subst hi; lia).
  clearbody lo hi v. subst v.
  assert (Hle : hi * 65536 + lo <= 1114111 <-> hi <= 16) by lia.
  assert (Hsur : (hi * 65536 + lo < 55296 \/ 57343 < hi * 65536 + lo) <->
                 (hi <> 0 \/ (lo < 55296 \/ 57343 < lo))) by lia.
  rewrite Hle, Hsur, Hhi16, Hlos, Hhi0. clear. lia.
Qed.

Lemma valid8 a1 a2 a3 a4 a5 a6 a7 a8 :
  is_hex_digit a1 = true -> is_hex_digit a2 = true -> is_hex_digit a3 = true ->
  is_hex_digit a4 = true -> is_hex_digit a5 = true -> is_hex_digit a6 = true ->
  is_hex_digit a7 = true -> is_hex_digit a8 = true ->
  (valid_scalar (digits_value 16 [a1; a2; a3; a4; a5; a6; a7; a8]) = true <->
   a1 = 48 /\ a2 = 48 /\
   ((a3 = 48 /\ a4 = 48 /\ nosurr a5 a6) \/ (a3 = 48 /\ a4 <> 48) \/ (a3 = 49 /\ a4 = 48))).
Proof.
  intros H1 H2 H3 H4 H5 H6 H7 H8. unfold valid_scalar, nosurr. cbn [digits_value fold_left]. p2b.
  rewrite v8_arith by (apply hex_val_lt; assumption).
  rewrite (hex_val_0 a1 H1), (hex_val_0 a2 H2), (hex_val_0 a3 H3), (hex_val_1 a3 H3),
    (hex_val_0 a4 H4), (hex_val_13 a5 H5), (hex_val_lt8 a6 H6).
  tauto.
Qed.

(* ------------------------------------------------------------ regex helpers *)

Lemma m_cls_cat p r c s : p c = true -> Matches r s -> Matches (Cat (Cls p) r) (c :: s).
Proof.
  intros Hp Hr. change (c :: s) with ([c] ++ s).
  constructor; [constructor; exact Hp|exact Hr].
Qed.

Lemma m_cls_cat_inv p r s :
  Matches (Cat (Cls p) r) s -> exists c s', s = c :: s' /\ p c = true /\ Matches r s'.
Proof.
  intro H. apply cat_inv in H as (s1 & s2 & -> & H1 & H2).
  apply cls_inv in H1 as (c & -> & Hc). exists c, s2. auto.
Qed.

Lemma star_cls_iff p s : Matches (Star (Cls p)) s <-> Forall (fun c => p c = true) s.
Proof.
  split.
  - induction s as [|c s IH]; intro H; [constructor|].
    apply star_cons_inv in H as (s1 & s2 & -> & H1 & H2).
    apply cls_inv in H1 as (c' & Heq & Hc). inversion Heq; subst c' s1.
    constructor; [exact Hc|apply IH; exact H2].
  - induction 1 as [|c s Hc _ IH]; [constructor|].
    change (c :: s) with ([c] ++ s). constructor; [constructor; exact Hc|exact IH].
Qed.

(* invert a match of a sequence of classes / alternatives down to characters *)
Ltac minv :=
  repeat match goal with
  | H : Matches (Cat (Cls _) _) _ |- _ =>
      let c := fresh "c" in let s := fresh "s" in let Hc := fresh "Hc" in
      apply m_cls_cat_inv in H as (c & s & -> & Hc & H)
  | H : Matches (Cls _) _ |- _ =>
      let c := fresh "c" in let Hc := fresh "Hc" in
      apply cls_inv in H as (c & -> & Hc)
  | H : Matches (Alt _ _) _ |- _ => apply alt_inv in H as [H|H]
  | H : Matches Eps _ |- _ => apply eps_inv in H as ->
  end; cbv beta in *.

Ltac mside := cbv beta; first [assumption | apply N.eqb_refl].

Ltac unfold_lit :=
  cbv [quoted_value little_u_value big_u_value common_escape octal_byte_value hex_byte_value
       rune_lit interpreted_string_lit raw_string_lit Any Seq Chr OneOf hexd octd bslash].
Ltac unfold_lit_in H :=
  cbv [quoted_value little_u_value big_u_value common_escape octal_byte_value hex_byte_value
       rune_lit interpreted_string_lit raw_string_lit Any Seq Chr OneOf hexd octd bslash] in H.

(* ------------------------------------------------------------ four hex digits, no surrogate *)

Lemma hex4_inv s : Matches hex4_no_surrogate s ->
  exists a b c d, s = [a; b; c; d] /\
    is_hex_digit a = true /\ is_hex_digit b = true /\ is_hex_digit c = true /\
    is_hex_digit d = true /\ nosurr a b.
Proof.
  intro H. cbv [hex4_no_surrogate Seq hexd] in H. minv.
  - exists c, c0, c1, c2. b2p. unfold nosurr.
    match goal with H : is_dD _ = false |- _ => unfold is_dD in H end. b2p. auto 10.
  - exists c, c0, c1, c2. unfold is_dD in *. unfold nosurr.
    repeat split; auto; try (apply hex_iff; b2p; lia). b2p; lia.
Qed.

Lemma hex4_intro a b c d :
  is_hex_digit a = true -> is_hex_digit b = true -> is_hex_digit c = true ->
  is_hex_digit d = true -> nosurr a b -> Matches hex4_no_surrogate [a; b; c; d].
Proof.
  intros Ha Hb Hc Hd Hn. cbv [hex4_no_surrogate Seq hexd].
  destruct (is_dD a) eqn:Ed.
  - apply MAltR. apply m_cls_cat; [mside|].
    apply m_cls_cat; [cbv beta; unfold is_dD in Ed; unfold nosurr in Hn; p2b; b2p; lia|].
    apply m_cls_cat; [mside|]. apply MCls. exact Hd.
  - apply MAltL. apply m_cls_cat; [cbv beta; rewrite Ha, Ed; reflexivity|].
    repeat (apply m_cls_cat; [mside|]). apply MCls. exact Hd.
Qed.

(* build a match of a sequence of classes / alternatives on an explicit list *)
Ltac mb :=
  lazymatch goal with
  | |- Matches Eps [] => apply MEps
  | |- Matches (Cls _) [_] => apply MCls; mside
  | |- Matches (Cat (Cls _) _) (_ :: _) => apply m_cls_cat; [mside | mb]
  | |- Matches (Alt _ _) _ => first [ solve [apply MAltL; mb] | apply MAltR; mb ]
  | |- Matches hex4_no_surrogate _ => apply hex4_intro; assumption
  end.

(* ------------------------------------------------------------ one quoted value, explicitly *)

Inductive qv (q : N) : str -> Prop :=
| qv_char c : negb (c =? 10) && negb (c =? 92) && negb (c =? q) = true -> qv q [c]
| qv_u a b c d :
    is_hex_digit a = true -> is_hex_digit b = true -> is_hex_digit c = true ->
    is_hex_digit d = true -> nosurr a b -> qv q [92; 117; a; b; c; d]
| qv_U0 a b c d :
    is_hex_digit a = true -> is_hex_digit b = true -> is_hex_digit c = true ->
    is_hex_digit d = true -> nosurr a b -> qv q [92; 85; 48; 48; 48; 48; a; b; c; d]
| qv_U1 x a b c d :
    is_nonzero_hex x = true ->
    is_hex_digit a = true -> is_hex_digit b = true -> is_hex_digit c = true ->
    is_hex_digit d = true -> qv q [92; 85; 48; 48; 48; x; a; b; c; d]
| qv_U2 a b c d :
    is_hex_digit a = true -> is_hex_digit b = true -> is_hex_digit c = true ->
    is_hex_digit d = true -> qv q [92; 85; 48; 48; 49; 48; a; b; c; d]
| qv_esc c : existsb (N.eqb c) [97; 98; 102; 110; 114; 116; 118; 92] = true -> qv q [92; c]
| qv_quote : qv q [92; q]
| qv_oct a b c :
    (48 <=? a) && (a <=? 51) = true -> is_octal_digit b = true -> is_octal_digit c = true ->
    qv q [92; a; b; c]
| qv_hex a b : is_hex_digit a = true -> is_hex_digit b = true -> qv q [92; 120; a; b].

Ltac eqb_subst :=
  repeat match goal with
  | H : (?k =? ?x) = true |- _ => apply N.eqb_eq in H; subst x
  end.

Lemma qv_iff q r : Matches (quoted_value q) r <-> qv q r.
Proof.
  split; intro H.
  - unfold_lit_in H. minv;
      repeat match goal with
      | H : Matches hex4_no_surrogate _ |- _ =>
          apply hex4_inv in H as (? & ? & ? & ? & -> & ? & ? & ? & ? & ?)
      end; eqb_subst.
    + apply qv_char; assumption.
    + apply qv_u; assumption.
    + apply qv_U0; assumption.
    + apply qv_U1; assumption.
    + apply qv_U2; assumption.
    + apply qv_esc; assumption.
    + apply qv_quote.
    + apply qv_oct; assumption.
    + apply qv_hex; assumption.
  - destruct H; unfold_lit; mb.
Qed.

Lemma qv_shape q r : qv q r -> r <> [] /\ r <> [q].
Proof.
  intro H. destruct H; split; try discriminate.
  intro Heq. inversion Heq; subst. b2p. congruence.
Qed.

(* ------------------------------------------------------------ match_n *)

Lemma match_n_inl n valid : forall l ds, match_n n valid l = inl ds ->
  length ds = n /\ Forall (fun c => valid c = true) ds /\ exists rest, l = ds ++ rest.
Proof.
  induction n as [|n IH]; intros l ds H; cbn [match_n] in H.
  - inversion H; subst ds. repeat split; [constructor|exists l; reflexivity].
  - destruct l as [|c l']; [discriminate|].
    destruct (valid c) eqn:Hc; [|discriminate].
    destruct (match_n n valid l') as [r|e] eqn:Hm; [|discriminate].
    inversion H; subst ds. apply IH in Hm as (Hlen & Hall & rest & ->).
    repeat split.
    + cbn [length]. congruence.
    + constructor; assumption.
    + exists rest. reflexivity.
Qed.

Lemma match_n_no_fuel n valid : forall l, match_n n valid l <> inr SE_fuel.
Proof.
  induction n as [|n IH]; intros l; cbn [match_n]; [discriminate|].
  destruct l as [|c l']; [discriminate|].
  destruct (valid c); [|discriminate].
  specialize (IH l'). destruct (match_n n valid l') as [r|e]; [discriminate|congruence].
Qed.

(* ------------------------------------------------------------ scan_rune *)

Lemma Forall2_inv X (P : X -> Prop) a b : Forall P [a; b] -> P a /\ P b.
Proof. intro H. inversion H as [|? ? Ha H1]; subst. inversion H1; subst. auto. Qed.

Ltac forall_inv H :=
  repeat match type of H with
  | Forall _ (_ :: _) =>
      let Hx := fresh "Hd" in let H' := fresh "Hall" in
      inversion H as [|? ? Hx H']; subst; clear H; rename H' into H
  end; clear H.

Lemma scan_rune_sound q l r : (q = 39 \/ q = 34) -> scan_rune q l = inl r ->
  (exists rest, l = r ++ rest) /\ (r = [q] \/ qv q r).
Proof.
  intros Hq H. unfold scan_rune in H. cbv beta zeta in H.
  destruct l as [|c1 l1]; [discriminate|].
  destruct (c1 =? 92) eqn:E1.
  - apply N.eqb_eq in E1; subst c1.
    destruct l1 as [|c2 l2]; [discriminate|].
    destruct (c2 =? 120) eqn:E2; [|destruct (c2 =? 117) eqn:E3; [|destruct (c2 =? 85) eqn:E4;
      [|destruct (is_octal_digit c2) eqn:E5]]].
    + (* \x *)
      apply N.eqb_eq in E2; subst c2.
      destruct (match_n 2 is_hex_digit l2) as [ds|e] eqn:Hm; [|discriminate].
      apply match_n_inl in Hm as (Hlen & Hall & rest & ->).
      destruct ds as [|a [|b [|? ?]]]; try discriminate Hlen.
      destruct (valid_scalar _ && _); [|discriminate]. inversion H; subst r.
      forall_inv Hall.
      split; [exists rest; reflexivity|]. right. apply qv_hex; assumption.
    + (* \u *)
      apply N.eqb_eq in E3; subst c2.
      destruct (match_n 4 is_hex_digit l2) as [ds|e] eqn:Hm; [|discriminate].
      apply match_n_inl in Hm as (Hlen & Hall & rest & ->).
      destruct ds as [|a [|b [|c [|d [|? ?]]]]]; try discriminate Hlen.
      destruct (valid_scalar _ && _) eqn:Hv; [|discriminate]. inversion H; subst r.
      forall_inv Hall.
      apply andb_true_iff in Hv as [Hv _]. cbn [app] in Hv. apply valid4 in Hv; try assumption.
      split; [exists rest; reflexivity|]. right. apply qv_u; assumption.
    + (* \U *)
      apply N.eqb_eq in E4; subst c2.
      destruct (match_n 8 is_hex_digit l2) as [ds|e] eqn:Hm; [|discriminate].
      apply match_n_inl in Hm as (Hlen & Hall & rest & ->).
      destruct ds as [|a1 [|a2 [|a3 [|a4 [|a5 [|a6 [|a7 [|a8 [|? ?]]]]]]]]]; try discriminate Hlen.
      destruct (valid_scalar _ && _) eqn:Hv; [|discriminate]. inversion H; subst r.
      forall_inv Hall.
      apply andb_true_iff in Hv as [Hv _]. cbn [app] in Hv. apply valid8 in Hv; try assumption.
      split; [exists rest; reflexivity|]. right.
      destruct Hv as (-> & -> & [(-> & -> & Hn)|[(-> & Hne)|(-> & ->)]]).
      * apply qv_U0; assumption.
      * apply qv_U1; try assumption. unfold is_nonzero_hex. p2b. auto.
      * apply qv_U2; assumption.
    + (* octal *)
      destruct (match_n 2 is_octal_digit l2) as [ds|e] eqn:Hm; [|discriminate].
      apply match_n_inl in Hm as (Hlen & Hall & rest & ->).
      destruct ds as [|a [|b [|? ?]]]; try discriminate Hlen.
      destruct (valid_scalar _ && _) eqn:Hv; [|discriminate]. inversion H; subst r.
      forall_inv Hall.
      apply andb_true_iff in Hv as [_ Hv]. cbn [app N.eqb Pos.eqb negb orb] in Hv.
      apply N.leb_le in Hv. apply valid3 in Hv; try assumption.
      split; [exists rest; reflexivity|]. right. apply qv_oct; try assumption.
      apply oct_iff in E5. p2b. lia.
    + (* simple escapes *)
      destruct (is_escaped_char c2 && _) eqn:Hv; [|discriminate]. inversion H; subst r.
      split; [exists l2; reflexivity|]. right.
      apply andb_true_iff in Hv as [Hv1 Hv2].
      destruct (c2 =? q) eqn:Eq.
      * apply N.eqb_eq in Eq; subst c2. apply qv_quote.
      * apply qv_esc. rewrite orb_false_r in Hv2. apply negb_true_iff in Hv2.
        apply orb_false_iff in Hv2 as [Hs Hd].
        unfold is_escaped_char in Hv1. cbn [existsb] in Hv1 |- *.
        rewrite Hs, Hd in Hv1. rewrite !orb_false_r in Hv1. rewrite !orb_false_r. exact Hv1.
  - destruct (is_unicode_char c1) eqn:E2; [|discriminate]. inversion H; subst r.
    split; [exists l1; reflexivity|].
    destruct (c1 =? q) eqn:Eq.
    + apply N.eqb_eq in Eq; subst c1. left; reflexivity.
    + right. apply qv_char. unfold is_unicode_char, is_newline in E2.
      rewrite E1, Eq. rewrite E2. reflexivity.
Qed.

Lemma scan_rune_quote q rest : (q = 39 \/ q = 34) -> scan_rune q (q :: rest) = inl [q].
Proof. intros [->| ->]; reflexivity. Qed.

Ltac neq_test x k := destruct (N.eqb_spec x k) as [?|_]; [lia|].

Lemma scan_rune_complete q r rest : (q = 39 \/ q = 34) -> qv q r ->
  scan_rune q (r ++ rest) = inl r.
Proof.
  intros Hq H. destruct H as [c Hc|a b c d Ha Hb Hc Hd Hn|a b c d Ha Hb Hc Hd Hn
    |x a b c d Hx Ha Hb Hc Hd|a b c d Ha Hb Hc Hd|c Hc| |a b c Ha Hb Hc|a b Ha Hb];
    unfold scan_rune; cbv beta zeta; cbn [app].
  - apply andb_true_iff in Hc as [Hc H3]. apply andb_true_iff in Hc as [H1 H2].
    apply negb_true_iff in H1, H2. rewrite H2. unfold is_unicode_char, is_newline.
    rewrite H1. reflexivity.
  - cbn [N.eqb Pos.eqb match_n]. rewrite Ha, Hb, Hc, Hd.
    rewrite (proj2 (valid4 a b c d Ha Hb Hc Hd) Hn). reflexivity.
  - cbn [N.eqb Pos.eqb match_n]. change (is_hex_digit 48) with true. cbv iota.
    rewrite Ha, Hb, Hc, Hd.
    rewrite (proj2 (valid8 48 48 48 48 a b c d eq_refl eq_refl eq_refl eq_refl Ha Hb Hc Hd));
      [reflexivity|]. auto 10.
  - unfold is_nonzero_hex in Hx. apply andb_true_iff in Hx as [Hx Hx0].
    apply negb_true_iff in Hx0. apply N.eqb_neq in Hx0.
    cbn [N.eqb Pos.eqb match_n]. change (is_hex_digit 48) with true. cbv iota.
    rewrite Hx, Ha, Hb, Hc, Hd.
    rewrite (proj2 (valid8 48 48 48 x a b c d eq_refl eq_refl eq_refl Hx Ha Hb Hc Hd));
      [reflexivity|]. auto 10.
  - cbn [N.eqb Pos.eqb match_n]. change (is_hex_digit 48) with true.
    change (is_hex_digit 49) with true. cbv iota.
    rewrite Ha, Hb, Hc, Hd.
    rewrite (proj2 (valid8 48 48 49 48 a b c d eq_refl eq_refl eq_refl eq_refl Ha Hb Hc Hd));
      [reflexivity|]. auto 10.
  - cbn [existsb] in Hc. rewrite orb_false_r in Hc.
    destruct Hq as [-> | ->]; b2p; subst c; reflexivity.
  - destruct Hq as [-> | ->]; reflexivity.
  - assert (Ha' : 48 <= a <= 51) by (b2p; lia).
    assert (Hoa : is_octal_digit a = true) by (apply oct_iff; lia).
    rewrite N.eqb_refl. neq_test a 120. neq_test a 117. neq_test a 85.
    rewrite Hoa. cbn [match_n]. rewrite Hb, Hc. cbn [app].
    destruct (valid3 a b c Hoa Hb Hc) as [Hv1 Hv2]. rewrite Hv1.
    rewrite (proj2 (N.leb_le _ _) (proj2 Hv2 (proj2 Ha'))). reflexivity.
  - cbn [N.eqb Pos.eqb match_n]. rewrite Ha, Hb. cbn [app].
    rewrite (proj1 (valid2 a b Ha Hb)). reflexivity.
Qed.

Lemma scan_rune_no_fuel q l : scan_rune q l <> inr SE_fuel.
Proof.
  unfold scan_rune. cbv beta zeta.
  destruct l as [|c1 l1]; [discriminate|].
  destruct (c1 =? 92); [|destruct (is_unicode_char c1); discriminate].
  destruct l1 as [|c2 l2]; [discriminate|].
  destruct (c2 =? 120); [|destruct (c2 =? 117); [|destruct (c2 =? 85);
    [|destruct (is_octal_digit c2)]]].
  5: destruct (_ && _); discriminate.
  all: match goal with
       | |- context [match_n ?n ?v ?l] =>
           pose proof (match_n_no_fuel n v l) as Hm;
           destruct (match_n n v l) as [ds|e];
           [destruct (_ && _); discriminate | congruence]
       end.
Qed.

(* ------------------------------------------------------------ string bodies *)

Lemma skipn_length_app X (a b : list X) : skipn (length a) (a ++ b) = b.
Proof. induction a as [|x a IH]; [reflexivity|exact IH]. Qed.

Lemma istr_body_sound fuel : forall l b, istr_body fuel l = inl b ->
  exists body rest, b = body ++ [34] /\ l = b ++ rest /\
    Matches (Star (quoted_value 34)) body.
Proof.
  induction fuel as [|f IH]; intros l b H; cbn [istr_body] in H; [discriminate|].
  destruct l as [|c0 l0]; [discriminate|]. remember (c0 :: l0) as l eqn:Hl. clear Hl.
  destruct (scan_rune 34 l) as [r|e] eqn:Hr; [|discriminate].
  apply scan_rune_sound in Hr as [[rest0 ->] Hshape]; [|right; reflexivity].
  destruct (str_eqb r [34]) eqn:Heq.
  - apply str_eqb_eq in Heq. inversion H; subst b r.
    exists [], rest0. repeat split. constructor.
  - rewrite skipn_length_app in H.
    destruct (istr_body f rest0) as [b'|e] eqn:Hb; [|discriminate].
    inversion H; subst b. apply IH in Hb as (body' & rest & -> & -> & Hstar).
    exists (r ++ body'), rest. rewrite <- !app_assoc. repeat split.
    destruct Hshape as [->|Hqv]; [rewrite str_eqb_refl in Heq; discriminate|].
    constructor; [apply qv_iff; exact Hqv|exact Hstar].
Qed.

Lemma istr_body_complete body : Matches (Star (quoted_value 34)) body ->
  forall fuel rest, (length body < fuel)%nat ->
  istr_body fuel (body ++ 34 :: rest) = inl (body ++ [34]).
Proof.
  intro H. remember (Star (quoted_value 34)) as re eqn:Hre.
  induction H as [| | | | | a |a s t Hs _ Ht IHt]; try discriminate Hre.
  - intros fuel rest Hf. destruct fuel as [|f]; [inversion Hf|]. reflexivity.
  - inversion Hre; subst a. specialize (IHt eq_refl). intros fuel rest Hf.
    apply qv_iff in Hs. destruct (qv_shape _ _ Hs) as [Hne Hnq].
    destruct fuel as [|f]; [inversion Hf|]. rewrite <- app_assoc.
    cbn [istr_body].
    destruct s as [|c0 s0]; [congruence|]. remember (c0 :: s0) as s eqn:Hl.
    assert (Hlen : (1 <= length s)%nat) by (subst s; cbn [length]; lia).
    replace (s ++ t ++ 34 :: rest) with (c0 :: s0 ++ t ++ 34 :: rest) at 1
      by (subst s; reflexivity).
    cbv iota. clear Hl.
    rewrite scan_rune_complete; [|right; reflexivity|exact Hs].
    destruct (str_eqb s [34]) eqn:Heq; [apply str_eqb_eq in Heq; congruence|].
    rewrite skipn_length_app. rewrite IHt; [rewrite app_assoc; reflexivity|].
    rewrite app_length in Hf. lia.
Qed.

Lemma istr_body_no_fuel fuel : forall l, (length l < fuel)%nat ->
  istr_body fuel l <> inr (Some SE_fuel).
Proof.
  induction fuel as [|f IH]; intros l Hf; [inversion Hf|]. cbn [istr_body].
  destruct l as [|c0 l0]; [discriminate|]. remember (c0 :: l0) as l eqn:Hl. clear Hl.
  pose proof (scan_rune_no_fuel 34 l) as Hnf.
  destruct (scan_rune 34 l) as [r|e] eqn:Hr; [|congruence].
  apply scan_rune_sound in Hr as [[rest0 ->] Hshape]; [|right; reflexivity].
  destruct (str_eqb r [34]); [discriminate|].
  rewrite skipn_length_app.
  assert (Hlen : (1 <= length r)%nat).
  { destruct Hshape as [->|Hqv]; [cbn [length]; lia|].
    apply qv_shape in Hqv as [Hne _]. destruct r; [congruence|cbn [length]; lia]. }
  specialize (IH rest0). rewrite app_length in Hf.
  destruct (istr_body f rest0) as [b|e]; [discriminate|].
  intro Heq. apply IH; [lia|]. exact Heq.
Qed.

Lemma raw_body_sound : forall l b, raw_body l = Some b ->
  exists body rest, b = body ++ [96] /\ l = b ++ rest /\
    Forall (fun c => negb (c =? 96) = true) body.
Proof.
  induction l as [|c l IH]; intros b H; cbn [raw_body] in H; [discriminate|].
  destruct (c =? 96) eqn:Ec.
  - apply N.eqb_eq in Ec; subst c. inversion H; subst b.
    exists [], l. repeat split. constructor.
  - destruct (raw_body l) as [b'|] eqn:Hb; [|discriminate]. cbn [option_map] in H.
    inversion H; subst b. destruct (IH b' eq_refl) as (body & rest & -> & -> & Hall).
    exists (c :: body), rest. repeat split. constructor; [rewrite Ec; reflexivity|exact Hall].
Qed.

Lemma raw_body_complete body rest : Forall (fun c => negb (c =? 96) = true) body ->
  raw_body (body ++ 96 :: rest) = Some (body ++ [96]).
Proof.
  induction 1 as [|c body Hc _ IH]; [reflexivity|].
  cbn [app raw_body]. apply negb_true_iff in Hc. rewrite Hc, IH. reflexivity.
Qed.

(* ------------------------------------------------------------ rune literals *)

Lemma rune_lit_inv s : RuneLit s ->
  exists r, s = 39 :: r ++ [39] /\ qv 39 r.
Proof.
  unfold RuneLit. intro H. cbv [rune_lit Seq Chr] in H.
  apply m_cls_cat_inv in H as (c & s' & -> & Hc & H).
  apply cat_inv in H as (r & t & -> & Hr & Ht).
  apply cls_inv in Ht as (c' & -> & Hc').
  apply N.eqb_eq in Hc, Hc'. subst c c'.
  exists r. split; [reflexivity|apply qv_iff; exact Hr].
Qed.

Lemma rune_lit_intro r : qv 39 r -> RuneLit (39 :: r ++ [39]).
Proof.
  intro H. unfold RuneLit. cbv [rune_lit Seq Chr].
  apply m_cls_cat; [reflexivity|]. constructor; [apply qv_iff; exact H|].
  constructor. reflexivity.
Qed.

(* rune literals: accepted exactly when well formed, text returned verbatim *)
Theorem scan_rune_lit_sound : forall l s,
  hd_error l = Some 39 -> scan_lit_rune l = inl s -> (exists rest, l = s ++ rest) /\ RuneLit s.
Proof.
  intros l s Hhd H. destruct l as [|c0 l']; [discriminate|].
  cbn [hd_error] in Hhd. inversion Hhd; subst c0.
  unfold scan_lit_rune in H. cbn [tl] in H.
  destruct (scan_rune 39 l') as [r|e] eqn:Hr; [|discriminate].
  apply scan_rune_sound in Hr as [[rest0 ->] Hshape]; [|left; reflexivity].
  destruct (str_eqb r [39]) eqn:Heq; [discriminate|].
  unfold nth_c in H. cbn [nth_error] in H.
  rewrite nth_error_app2 in H by lia. rewrite PeanoNat.Nat.sub_diag in H.
  destruct rest0 as [|c rest]; cbn [nth_error] in H; [discriminate|].
  destruct (c =? 39) eqn:Ec; [|discriminate]. apply N.eqb_eq in Ec; subst c.
  inversion H; subst s. split.
  - exists rest. cbn [app]. rewrite <- app_assoc. reflexivity.
  - destruct Hshape as [->|Hqv]; [rewrite str_eqb_refl in Heq; discriminate|].
    apply rune_lit_intro. exact Hqv.
Qed.

Theorem scan_rune_lit_complete : forall s rest,
  RuneLit s -> scan_lit_rune (s ++ rest) = inl s.
Proof.
  intros s rest H. apply rune_lit_inv in H as (r & -> & Hqv).
  unfold scan_lit_rune. cbn [app tl]. rewrite <- app_assoc. cbn [app].
  rewrite scan_rune_complete; [|left; reflexivity|exact Hqv].
  destruct (qv_shape _ _ Hqv) as [_ Hnq].
  destruct (str_eqb r [39]) eqn:Heq; [apply str_eqb_eq in Heq; congruence|].
  unfold nth_c. cbn [nth_error].
  rewrite nth_error_app2 by lia. rewrite PeanoNat.Nat.sub_diag. cbn [nth_error].
  rewrite N.eqb_refl. reflexivity.
Qed.

(* ------------------------------------------------------------ string literals *)

Lemma istring_lit_inv s : Matches interpreted_string_lit s ->
  exists body, s = 34 :: body ++ [34] /\ Matches (Star (quoted_value 34)) body.
Proof.
  intro H. cbv [interpreted_string_lit Seq Chr] in H.
  apply m_cls_cat_inv in H as (c & s' & -> & Hc & H).
  apply cat_inv in H as (r & t & -> & Hr & Ht).
  apply cls_inv in Ht as (c' & -> & Hc').
  apply N.eqb_eq in Hc, Hc'. subst c c'.
  exists r. split; [reflexivity|exact Hr].
Qed.

Lemma rstring_lit_inv s : Matches raw_string_lit s ->
  exists body, s = 96 :: body ++ [96] /\ Forall (fun c => negb (c =? 96) = true) body.
Proof.
  intro H. cbv [raw_string_lit Seq Chr] in H.
  apply m_cls_cat_inv in H as (c & s' & -> & Hc & H).
  apply cat_inv in H as (r & t & -> & Hr & Ht).
  apply cls_inv in Ht as (c' & -> & Hc').
  apply N.eqb_eq in Hc, Hc'. subst c c'.
  exists r. split; [reflexivity|]. apply star_cls_iff in Hr. exact Hr.
Qed.

Theorem scan_string_lit_sound : forall l s,
  (hd_error l = Some 34 \/ hd_error l = Some 96) ->
  scan_lit_string l = inl s -> (exists rest, l = s ++ rest) /\ StringLit s.
Proof.
  intros l s Hhd H. destruct l as [|q l']; [destruct Hhd; discriminate|].
  cbn [hd_error] in Hhd. unfold scan_lit_string in H.
  destruct Hhd as [Hq|Hq]; inversion Hq; subst q.
  - change (34 =? 96) with false in H. cbv iota in H.
    destruct (istr_body (S (length l')) l') as [b|[e|]] eqn:Hb; try discriminate.
    inversion H; subst s.
    apply istr_body_sound in Hb as (body & rest & -> & -> & Hstar). split.
    + exists rest. reflexivity.
    + left. cbv [interpreted_string_lit Seq Chr].
      apply m_cls_cat; [reflexivity|]. constructor; [exact Hstar|]. constructor. reflexivity.
  - change (96 =? 96) with true in H. cbv iota in H.
    destruct (raw_body l') as [b|] eqn:Hb; [|discriminate].
    inversion H; subst s.
    apply raw_body_sound in Hb as (body & rest & -> & -> & Hall). split.
    + exists rest. reflexivity.
    + right. cbv [raw_string_lit Seq Chr].
      apply m_cls_cat; [reflexivity|]. constructor; [apply star_cls_iff; exact Hall|].
      constructor. reflexivity.
Qed.

Theorem scan_string_lit_complete : forall s rest,
  StringLit s -> scan_lit_string (s ++ rest) = inl s.
Proof.
  intros s rest [H|H].
  - apply istring_lit_inv in H as (body & -> & Hstar).
    unfold scan_lit_string. cbn [app]. change (34 =? 96) with false. cbv iota.
    rewrite <- app_assoc. cbn [app].
    rewrite istr_body_complete; [reflexivity|exact Hstar|].
    rewrite app_length. cbn [length]. lia.
  - apply rstring_lit_inv in H as (body & -> & Hall).
    unfold scan_lit_string. cbn [app]. change (96 =? 96) with true. cbv iota.
    rewrite <- app_assoc. cbn [app].
    rewrite raw_body_complete; [reflexivity|exact Hall].
Qed.

(* model-only outcome SE_fuel (fuel of istr_body exhausted) never happens *)
Theorem scan_string_no_fuel_error : forall l p, scan_lit_string l <> inr (p, SE_fuel).
Proof.
  intros l p. unfold scan_lit_string. destruct l as [|q l']; [discriminate|].
  destruct (q =? 96).
  - destruct (raw_body l'); discriminate.
  - pose proof (istr_body_no_fuel (S (length l')) l' (PeanoNat.Nat.lt_succ_diag_r _)) as Hnf.
    destruct (istr_body (S (length l')) l') as [b|[e|]]; try discriminate.
    intro Heq. inversion Heq; subst e. apply Hnf. reflexivity.
Qed.

Print Assumptions scan_rune_lit_sound.
Print Assumptions scan_rune_lit_complete.
Print Assumptions scan_string_lit_sound.
Print Assumptions scan_string_lit_complete.
Print Assumptions scan_string_no_fuel_error.
