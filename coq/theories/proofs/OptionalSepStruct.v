(* C13, optional separators: the ";" after the LAST field of a struct type may be
   omitted:  struct { a int ; b int }  for the printed  struct { a int ; b int ; }.
   struct_loop (Core.v) lets line_end_comment / skipped take the ";" when there is
   one; in front of "}" both do nothing and the next round of the loop stops.  The
   field contract FP of RoundTripTypesStruct is re-proved with "}" as the follow
   token (FPb: the same proofs, "}" is an embed_tok, no string and continues no
   type), the loop is run over the prefix, then the last field. *)
From Coq Require Import List Arith NArith Lia Bool.
From GoSyn Require Import Token Tok Ast Core.
From GoSyn.spec Require Import Prec Print Print2 Print3.
From GoSyn.proofs Require Import PrecProofs RoundTripProofs RoundTripTypesBase RoundTripTypesAot
  RoundTripTypesStruct RoundTripTypesIface RoundTripTypesSig RoundTripTypes RoundTripBase2 RoundTripAll TrailingComma.
Import ListNotations.

(* a field without its ";" *)
Definition printF0 {X : Type} (printX : X -> list token) (f : sfield (typ X)) : list token :=
  match f with
  | Field names t tag => printNames names ++ printT printX t ++ printTag tag
  end.

(* struct { f1 ; ... ; fn ; f }  without the ";" after f *)
Definition struct_nosemi {X : Type} (printX : X -> list token) (fs : list (sfield (typ X)))
    (f : sfield (typ X)) : list token :=
  kw KStruct :: tk OBraceLeft :: flat_map (printF printX) fs ++ printF0 printX f ++ [tk OBraceRight].

Section StructB.
Variables (A G D C E : Type).
Variable OPS : ops A G D C.
Notation nodeT := (node A C).
Notation pstateT := (pstate A G D E).
Notation cur := (s_cur A G D E).
Notation srest := (s_rest A G D E).
Notation sdepth := (s_depth A G D E).
Notation lp := (s_lp A G D E).
Notation ln := (s_ln A G D E).
Notation PA := (parsers_at A G D C E OPS).
Notation erase := (@erase A C).
Notation at_toks := (@at_toks A G D E).
Notation frame := (@frame A G D E).
Variable X : Type.
Variables (printX : X -> list token) (shapeX : X -> shapeT) (wfX : X -> Prop).
Variables (depthX needX : X -> nat).
Notation typ := (typ X).
Notation printT := (printT printX).
Notation shapeTy := (shapeTy shapeX).
Notation wfT := (wfT wfX).
Notation depthT := (depthT depthX).
Notation needT := (needT needX).
Notation TNP := (TNP A G D C E OPS X printX shapeX depthX needX).
Notation TP := (TP A G D C E OPS X printX shapeX depthX needX).
Notation TBP := (TBP A G D C E OPS X printX shapeX depthX needX).
Notation XOK := (XOK A G D C E OPS X printX shapeX depthX needX).
Notation IHT := (IHT A G D C E OPS X printX shapeX wfX depthX needX).
Notation AOT := (array_or_typeargs A G D C E OPS).
Notation FD := (field_decl A G D C E OPS).
Notation FF := (finish_field A G D C E OPS).
Notation SL := (struct_loop A G D C E OPS).
Notation printF := (printF printX).
Notation shapeF := (shapeF shapeX).
Notation wfF := (wfF wfX).
Notation printF0 := (printF0 printX).
Notation field_t := (RoundTripTypesStruct.field_t X).
Notation erase_n_field := (RoundTripTypesStruct.erase_n_field A C).
Notation erase_set_docs := (RoundTripTypesStruct.erase_set_docs A C).
Notation embedded_eq := (RoundTripTypesStruct.embedded_eq A G D E).
Notation bracket_cases := (RoundTripTypesStruct.bracket_cases X printX wfX).
Notation inst_args := (RoundTripTypesStruct.inst_args A G D C E OPS X printX shapeX wfX depthX needX).
Notation field_first := (RoundTripTypesStruct.field_first X printX wfX).
Notation FP := (RoundTripTypesStruct.FP A G D C E OPS X printX shapeX depthX needX).
Notation field_ok := (RoundTripTypesStruct.field_ok A G D C E OPS X printX shapeX wfX depthX needX).

Lemma printF0_app : forall names (t : typ) tag rst,
  printF0 (Field names t tag) ++ tk OBraceRight :: rst =
  printNames names ++ printT t ++ printTag tag ++ tk OBraceRight :: rst.
Proof. intros. unfold OptionalSepStruct.printF0. rewrite <- !app_assoc. reflexivity. Qed.

Lemma printF_printF0 : forall f, printF f = printF0 f ++ [tk OSemiColon].
Proof. intros [names t tag]. unfold Print2.printF, OptionalSepStruct.printF0. rewrite <- !app_assoc. reflexivity. Qed.

(* the tag or the ";" after a field's type continues no type *)
Lemma field_followb : forall (t : typ) tag rst, tfollow t (printTag tag ++ tk OBraceRight :: rst).
Proof. intros t [v |] rst; apply tfollow_tok; reflexivity. Qed.
(* [ string ] and the node *)
Lemma finish_field_okb : forall c (names : list nodeT) ty tag (s : pstateT) rst names0 sh,
  map erase names = map sh_ident names0 -> erase ty = sh ->
  at_toks s (printTag tag ++ tk OBraceRight :: rst) ->
  exists n s1, FF c names ty s = Ok n s1 /\ erase n = sh_field names0 sh tag /\
               length (n_docs n) = 1 /\ at_toks s1 (tk OBraceRight :: rst) /\ frame s s1.
Proof.
  intros c names ty tag s rst names0 sh Hn Ht Hat. unfold finish_field.
  destruct tag as [v |]; cbn [printTag app] in Hat.
  - destruct (string_lit_some A G D C E OPS s v _ Hat) as (p & s1 & Hs & Hat1 & Hf1).
    rewrite Hs. cbn [bind]. eexists _, s1. split; [reflexivity |].
    split; [apply erase_n_field; [exact Hn | exact Ht | reflexivity] |].
    split; [reflexivity |]. split; [exact Hat1 | exact Hf1].
  - rewrite (string_lit_none A G D C E OPS s _ Hat I). cbn [bind]. eexists _, s.
    split; [reflexivity |].
    split; [apply erase_n_field; [exact Hn | exact Ht | reflexivity] |].
    split; [reflexivity |]. split; [exact Hat | apply frame_refl].
Qed.
(* ------------------------------------------------------------ 2. one field *)

(* field_decl on the printing of a field: stops in front of the field's ";" *)
Definition FPb (f : sfield typ) : Prop := forall d (s : pstateT) rst,
  needT (field_t f) + 3 <= d -> at_toks s (printF0 f ++ tk OBraceRight :: rst) ->
  sdepth s + depthT (field_t f) + 2 <= MAX_NESTING -> ln s <= lp s /\ lp s + depthT (field_t f) + 3 <= ln s + 65 ->
  exists n s1, FD (PA d) s = Ok n s1 /\ erase n = shapeF f /\ length (n_docs n) = 1 /\
               at_toks s1 (tk OBraceRight :: rst) /\ frame s s1.

(*  T   pkg.T   pkg.T[A]  : the token after the first identifier is ".", the
    tag or the ";" *)
Lemma field_emb_namedb : forall (t : typ) tag, named_type X t -> wfT t ->
  (forall b args, t = TInst b args -> Forall (fun a => wfT a /\ TNP a) args) ->
  (forall tok l, after_first X printX t = tok :: l -> embed_tok tok = true) ->
  FPb (Field [] t tag).
Proof.
  intros t tag Hnt Hwf Hargs Hemb d s0 rst Hd Hat0 Hdep Hlev. cbn [field_t] in Hd, Hdep, Hlev.
  rewrite printF0_app in Hat0. change (printNames []) with (@nil token) in Hat0.
  cbn [app] in Hat0. rewrite (printT_named X printX t Hnt) in Hat0. cbn [app] in Hat0.
  destruct (drain A G D C E OPS s0) as [c s] eqn:Hdr.
  destruct (drain_toks A G D C E OPS s0 c s Hdr) as (Hdt & Hdf & _ & _).
  pose proof (Hdt _ Hat0) as Hat. clear Hdt.
  assert (Hnx : exists tok ts,
            after_first X printX t ++ printTag tag ++ tk OBraceRight :: rst = tok :: ts /\
            embed_tok tok = true).
  { destruct (after_first X printX t) as [| tok l] eqn:Haf.
    - destruct tag as [v |]; eexists _, _; split; reflexivity.
    - eexists _, _. split; [reflexivity | exact (Hemb tok l eq_refl)]. }
  destruct Hnx as (tok & ts & Hnx & Het).
  destruct (at_toks_cur _ _ _ Hat) as (p0 & Hc).
  destruct (identifier_toks OPS s _ _ 34 Hat) as (p & s1 & Hi & Hat1 & Hf1).
  pose proof (frame_trans _ _ _ Hdf Hf1) as Hf01.
  assert (Hat1' : at_toks s1 (tok :: ts)) by (rewrite <- Hnx; exact Hat1).
  destruct (qualified_ident_ok A G D C E OPS X printX shapeX wfX depthX needX t Hnt Hwf Hargs
              (Some (n_ident A C p (first_ident X t))) d s1 (printTag tag ++ tk OBraceRight :: rst))
    as (ty & s2 & Hq & Hety & Hat2 & Hf2).
  - lia.
  - split; [reflexivity | exact Hat1].
  - apply field_followb.
  - unframe. lia.
  - unframe. lia.
  - destruct (finish_field_okb c [] ty tag s2 rst [] (shapeTy t) eq_refl Hety Hat2)
      as (n & s3 & Hff & Hen & Hdoc & Hat3 & Hf3).
    exists n, s3. split; [| split; [exact Hen | split; [exact Hdoc | split; [exact Hat3 |
      exact (frame_trans _ _ _ (frame_trans _ _ _ Hf01 Hf2) Hf3)]]]].
    unfold field_decl. rewrite Hdr. cbv beta iota. rewrite Hc. cbv beta iota. rewrite Hi. cbn [bind].
    rewrite (embedded_eq s1 tok ts Hat1'), Het. rewrite Hq. cbn [bind]. exact Hff.
Qed.

(*  *T   *pkg.T   *T[A]   *pkg.T[A]  *)
Lemma field_emb_ptrb : forall (t : typ) tag, named_type X t -> wfT t ->
  (forall b args, t = TInst b args -> Forall (fun a => wfT a /\ TNP a) args) ->
  FPb (Field [] (TPtr t) tag).
Proof.
  intros t tag Hnt Hwf Hargs d s0 rst Hd Hat0 Hdep Hlev.
  cbn [field_t Print2.needT Print2.depthT] in Hd, Hdep, Hlev.
  rewrite printF0_app in Hat0. change (printNames []) with (@nil token) in Hat0.
  cbn [app Print2.printT] in Hat0.
  destruct (drain A G D C E OPS s0) as [c s] eqn:Hdr.
  destruct (drain_toks A G D C E OPS s0 c s Hdr) as (Hdt & Hdf & _ & _).
  pose proof (Hdt _ Hat0) as Hat. clear Hdt.
  destruct (at_toks_cur _ _ _ Hat) as (p0 & Hc).
  destruct (expect_toks OPS s _ _ (KOp OStar) 33 Hat eq_refl) as (pos & s1 & Hx & Hat1 & Hf1).
  pose proof (frame_trans _ _ _ Hdf Hf1) as Hf01.
  destruct (qualified_ident_ok A G D C E OPS X printX shapeX wfX depthX needX t Hnt Hwf Hargs
              None d s1 (printTag tag ++ tk OBraceRight :: rst))
    as (ty & s2 & Hq & Hety & Hat2 & Hf2).
  - lia.
  - exact Hat1.
  - apply field_followb.
  - unframe. lia.
  - unframe. lia.
  - assert (Hep : erase (mk A C GTypePointer [pos] [] [ty]) = shapeTy (TPtr t)).
    { simpl. rewrite Hety. reflexivity. }
    destruct (finish_field_okb c [] (mk A C GTypePointer [pos] [] [ty]) tag s2 rst []
                (shapeTy (TPtr t)) eq_refl Hep Hat2)
      as (n & s3 & Hff & Hen & Hdoc & Hat3 & Hf3).
    exists n, s3. split; [| split; [exact Hen | split; [exact Hdoc | split; [exact Hat3 |
      exact (frame_trans _ _ _ (frame_trans _ _ _ Hf01 Hf2) Hf3)]]]].
    unfold field_decl. rewrite Hdr. cbv beta iota. rewrite Hc. cbv beta iota. rewrite Hx. cbn [bind].
    rewrite Hq. cbn [bind]. exact Hff.
Qed.

(*  a, b T  /  a []T  /  a [e]T  *)
Lemma field_namedb : forall n r (t : typ) tag, wfT t ->
  match r with [] => ~ is_dots t | _ => True end ->
  allX XOK t -> IHT (S (sizeT t)) -> FPb (Field (n :: r) t tag).
Proof.
  intros n r t tag Hwf Hnd Hx IH d s0 rst Hd Hat0 Hdep Hlev. cbn [field_t] in Hd, Hdep, Hlev.
  rewrite printF0_app, printNames_cons in Hat0. cbn [app] in Hat0.
  destruct (drain A G D C E OPS s0) as [c s] eqn:Hdr.
  destruct (drain_toks A G D C E OPS s0 c s Hdr) as (Hdt & Hdf & _ & _).
  pose proof (Hdt _ Hat0) as Hat. clear Hdt.
  destruct (first_tokT X printX wfX t Hwf) as (tok & l & Hp & Hst & _ & _).
  destruct (type_start_facts tok Hst) as (Hte & Htc & _ & _).
  set (after := printTag tag ++ tk OBraceRight :: rst) in *.
  assert (Hnx : exists tok' ts,
            names_tail r ++ printT t ++ after = tok' :: ts /\ embed_tok tok' = false).
  { destruct r as [| m r'].
    - cbn [names_tail flat_map app]. rewrite Hp. cbn [app]. eexists _, _. split; [reflexivity | exact Hte].
    - eexists _, _. split; reflexivity. }
  destruct Hnx as (tok' & ts & Hnx & Het).
  destruct (at_toks_cur _ _ _ Hat) as (p0 & Hc).
  destruct (identifier_toks OPS s _ _ 34 Hat) as (p & s1 & Hi & Hat1 & Hf1).
  pose proof (frame_trans _ _ _ Hdf Hf1) as Hf01.
  assert (Hat1' : at_toks s1 (tok' :: ts)) by (rewrite <- Hnx; exact Hat1).
  destruct (ident_list_loop_toks A G D C E OPS r (loop_fuel A G D E s1) [n_ident A C p n] s1
              (printT t ++ after) Hat1)
    as (ns & s2 & Hl & Hens & Hlen & Hat2 & Hf2).
  { rewrite Hp. cbn [app]. exact Htc. }
  { pose proof (loop_fuel_toks s1 _ Hat1) as H. rewrite app_length, names_tail_length in H. lia. }
  pose proof (frame_trans _ _ _ Hf01 Hf2) as Hf02.
  assert (Hnames : map erase ([n_ident A C p n] ++ ns) = map sh_ident (n :: r)).
  { cbn [app map]. rewrite Hens. reflexivity. }
  (* what happens after the type *)
  assert (Hfin : forall ty s3, erase ty = shapeTy t -> at_toks s3 after -> frame s2 s3 ->
            exists nd s4, FF c ([n_ident A C p n] ++ ns) ty s3 = Ok nd s4 /\
              erase nd = shapeF (Field (n :: r) t tag) /\ length (n_docs nd) = 1 /\
              at_toks s4 (tk OBraceRight :: rst) /\ frame s0 s4).
  { intros ty s3 Hety Hat3 Hf3.
    destruct (finish_field_okb c _ ty tag s3 rst (n :: r) (shapeTy t) Hnames Hety Hat3)
      as (nd & s4 & Hff & Hen & Hdoc & Hat4 & Hf4).
    exists nd, s4. split; [exact Hff |]. split; [exact Hen |]. split; [exact Hdoc |].
    split; [exact Hat4 | exact (frame_trans _ _ _ (frame_trans _ _ _ Hf02 Hf3) Hf4)]. }
  (* the type by Parser::type_ *)
  assert (Hkt : exists ty s3, k_type A G D C E (PA d) s2 = Ok ty s3 /\ erase ty = shapeTy t /\
                              at_toks s3 after /\ frame s2 s3).
  { apply (TNP_TP A G D C E OPS X printX shapeX depthX needX t (IH t (Nat.lt_succ_diag_r _) Hwf Hx)).
    - lia.
    - exact Hat2.
    - apply field_followb.
    - unframe. lia.
    - unframe. lia. }
  unfold field_decl. rewrite Hdr. cbv beta iota. rewrite Hc. cbv beta iota. rewrite Hi. cbn [bind].
  rewrite (embedded_eq s1 tok' ts Hat1'), Het. cbv iota.
  unfold identifier_list. rewrite Hl. cbn [bind].
  destruct r as [| m r'].
  - (* one name *)
    destruct ns as [| x ns']; [| discriminate Hlen]. cbn [app length Nat.eqb andb].
    assert (Hat2' : at_toks s2 (tok :: l ++ after)) by (rewrite Hp in Hat2; exact Hat2).
    rewrite (cur_is_toks _ _ _ _ Hat2').
    destruct (tok_is tok (KOp OBarackLeft)) eqn:Hb.
    + destruct (bracket_cases t Hwf tok l Hp Hb) as [(t' & ->) | [(x & t' & ->) | Hdots]];
        [| | exfalso; exact (Hnd Hdots)].
      * (* a []T *)
        cbn [Print2.wfT Print2.allX Print2.needT Print2.depthT Print2.sizeT] in *.
        assert (HT' : TP t').
        { apply TNP_TP. apply IH; [lia | exact Hwf | exact Hx]. }
        destruct (aot_slice A G D C E OPS X printX shapeX depthX needX t' HT' d s2 after)
          as (ty & s3 & Ha & Hety & Hat3 & Hf3).
        { lia. } { exact Hat2. } { apply field_followb. } { unframe. lia. } { unframe. lia. }
        rewrite Ha. cbn [bind].
        replace (is_tag GIndex ty) with false
          by (rewrite <- (is_tag_erase GIndex ty), Hety; reflexivity).
        exact (Hfin ty s3 Hety Hat3 Hf3).
      * (* a [e]T *)
        cbn [Print2.wfT Print2.allX Print2.needT Print2.depthT Print2.sizeT] in *.
        destruct Hwf as (Hwx & Hwf'). destruct Hx as (Hxx & Hx').
        assert (HN' : TNP t') by (apply IH; [lia | exact Hwf' | exact Hx']).
        destruct (aot_array A G D C E OPS X printX shapeX depthX needX x t' Hxx HN' d s2 after)
          as (ty & s3 & Ha & Hety & Hat3 & Hf3).
        { lia. } { lia. } { exact Hat2. } { apply field_followb. } { unframe. lia. } { unframe. lia. }
        rewrite Ha. cbn [bind].
        replace (is_tag GIndex ty) with false
          by (rewrite <- (is_tag_erase GIndex ty), Hety; reflexivity).
        exact (Hfin ty s3 Hety Hat3 Hf3).
    + destruct Hkt as (ty & s3 & Hk & Hety & Hat3 & Hf3). rewrite Hk. cbn [bind].
      exact (Hfin ty s3 Hety Hat3 Hf3).
  - (* several names *)
    rewrite app_length, Hlen. cbn [length Nat.add Nat.eqb andb].
    destruct Hkt as (ty & s3 & Hk & Hety & Hat3 & Hf3). rewrite Hk. cbn [bind].
    exact (Hfin ty s3 Hety Hat3 Hf3).
Qed.

(* every well-formed field *)
Lemma field_okb : forall names (t : typ) tag,
  wfF (Field names t tag) -> allX XOK t -> IHT (S (sizeT t)) -> FPb (Field names t tag).
Proof.
  intros names t tag (Hwf & Hform) Hx IH. destruct names as [| n r].
  - (* embedded *)
    destruct t as [name | pkg name | b args | t' | | | | | | | | |]; try destruct Hform.
    + apply field_emb_namedb; [exact I | exact Hwf | intros b args H; discriminate H |].
      intros tok l H; discriminate H.
    + apply field_emb_namedb; [exact I | exact Hwf | intros b args H; discriminate H |].
      intros tok l H. unfold after_first in H. cbn [Print2.printT] in H. inversion H; subst.
      reflexivity.
    + destruct b as [| pkg name | | | | | | | | | | |]; try destruct Hform.
      apply field_emb_namedb; [exact I | exact Hwf | |].
      * intros b args0 H. inversion H; subst.
        exact (inst_args _ _ _ Hwf Hx IH (Nat.le_succ_diag_r _)).
      * intros tok l H. unfold after_first in H. cbn [Print2.printT app] in H. inversion H; subst.
        reflexivity.
    + cbn [Print2.wfT Print2.allX Print2.sizeT] in Hwf, Hx, IH.
      destruct t' as [name | pkg name | b args | | | | | | | | | |]; try destruct Hform.
      * apply field_emb_ptrb; [exact I | exact Hwf | intros b args H; discriminate H].
      * apply field_emb_ptrb; [exact I | exact Hwf | intros b args H; discriminate H].
      * apply field_emb_ptrb; [exact (proj1 Hwf) | exact Hwf |].
        intros b0 args0 H. inversion H; subst.
        apply (inst_args _ _ _ Hwf Hx IH). lia.
  - apply field_namedb; [exact Hwf | | exact Hx | exact IH].
    destruct r; [exact Hform | exact I].
Qed.

(* ------------------------------------------------------------ the loop *)

Notation ndF := (fun f : sfield typ => match f with Field _ t _ => needT t end).
Notation dpF := (fun f : sfield typ => match f with Field _ t _ => depthT t end).

Lemma maxT_snoc : forall (Y : Type) (g : Y -> nat) l a,
  maxT g (l ++ [a]) = Nat.max (maxT g l) (g a).
Proof.
  intros Y g l a. induction l as [| b r IH]; cbn [app].
  - rewrite maxT_cons. simpl. lia.
  - rewrite !maxT_cons, IH. lia.
Qed.

(* the first token of a field without its ";" *)
Lemma field_first0 : forall f, wfF f ->
  exists tok l, printF0 f = tok :: l /\
    tok_is tok (KOp OBraceRight) = false /\ tok_is tok (KOp OSemiColon) = false.
Proof.
  intros f Hwf. destruct (field_first f Hwf) as (tok & l & Hp & H1 & H2).
  rewrite printF_printF0 in Hp. destruct (printF0 f) as [| t0 l0].
  - cbn [app] in Hp. inversion Hp; subst. discriminate H2.
  - cbn [app] in Hp. inversion Hp; subst. eexists _, _. split; [reflexivity | split; assumption].
Qed.

Lemma fields_length : forall fs, Forall wfF fs -> length fs <= length (flat_map printF fs).
Proof.
  intros fs H. induction H as [| f r Hwf _ IH]; [apply le_n |].
  destruct (field_first f Hwf) as (tok & l & Hp & _). cbn [flat_map length].
  rewrite app_length, Hp. cbn [length]. lia.
Qed.

(* struct_loop over a prefix of fields, each with its ";" *)
Lemma struct_prefix_ok : forall fs, Forall (fun f => wfF f /\ FP f) fs ->
  forall d fuel acc (s : pstateT) tail,
    maxT ndF fs + 3 <= d ->
    sdepth s + maxT dpF fs + 2 <= MAX_NESTING -> ln s <= lp s /\ lp s + maxT dpF fs + 3 <= ln s + 65 ->
    at_toks s (flat_map printF fs ++ tail) ->
    match tail with [] => True | t :: _ => tok_is t (KOp OSemiColon) = false end ->
    exists ns s1,
      SL (PA d) (length fs + fuel) acc s = SL (PA d) fuel (acc ++ ns) s1 /\
      map erase ns = map shapeF fs /\ at_toks s1 tail /\ frame s s1.
Proof.
  intros fs Hall. induction Hall as [| f r (Hwf & HF) Hall IH];
    intros d fuel acc s tail Hd Hdep Hlev Hat Htl.
  - cbn [flat_map app length Nat.add] in *. exists [], s. rewrite app_nil_r.
    split; [reflexivity |]. split; [reflexivity |]. split; [exact Hat | apply frame_refl].
  - destruct (field_first f Hwf) as (tok & l & Hp & Hnb & _).
    cbn [flat_map] in Hat. rewrite <- app_assoc in Hat.
    rewrite maxT_cons in Hd, Hdep, Hlev.
    assert (HF' := HF). unfold RoundTripTypesStruct.FP in HF'. destruct f as [names t tag].
    cbn [RoundTripTypesStruct.field_t] in HF'. cbv beta iota in Hd, Hdep, Hlev.
    cbn [length Nat.add struct_loop].
    assert (Hcb : cur_is A G D E s (KOp OBraceRight) = false).
    { rewrite Hp in Hat. cbn [app] in Hat. rewrite (cur_is_toks _ _ _ _ Hat). exact Hnb. }
    rewrite Hcb.
    destruct (HF' d s (flat_map printF r ++ tail))
      as (n & s1 & Hfd & Hen & Hdoc & Hat1 & Hf1); [lia | exact Hat | lia | lia |].
    rewrite Hfd. cbn [bind].
    match goal with
    | |- context [line_end_comment _ _ _ _ _ _ ?c0 s1] =>
        destruct (line_end_semi A G D C E OPS s1 c0 _ Hat1) as (c1 & s2 & Hle & Hat2 & Hf2 & _)
    end.
    rewrite Hle. cbn [bind].
    assert (Hsk : skipped A G D C E OPS (KOp OSemiColon) s2 = Ok false s2).
    { apply (skipped_no OPS s2 _ _ Hat2). destruct Hall as [| f2 r2 (Hwf2 & _) _].
      - cbn [flat_map app]. exact Htl.
      - destruct (field_first f2 Hwf2) as (tok2 & l2 & Hp2 & _ & Hns2). cbn [flat_map].
        rewrite Hp2. cbn [app]. exact Hns2. }
    rewrite Hsk. cbn [bind].
    pose proof (frame_trans _ _ _ Hf1 Hf2) as Hf12.
    destruct (IH d fuel (acc ++ [set_docs n [c1]]) s2 tail) as (ns & s3 & Hl & Hes & Hat3 & Hf3).
    + lia.
    + unframe. lia.
    + unframe. lia.
    + exact Hat2.
    + exact Htl.
    + exists (set_docs n [c1] :: ns), s3.
      split; [rewrite Hl, <- app_assoc; reflexivity |].
      split; [cbn [map]; rewrite (erase_set_docs n c1 Hdoc), Hen, Hes; reflexivity |].
      split; [exact Hat3 | exact (frame_trans _ _ _ Hf12 Hf3)].
Qed.

(* ... then the last field, without ";", and the round that sees "}" *)
Lemma struct_loop_nosemi : forall fs f, Forall (fun f => wfF f /\ FP f) fs -> wfF f -> FPb f ->
  forall d acc (s : pstateT) rst,
    maxT ndF (fs ++ [f]) + 3 <= d ->
    sdepth s + maxT dpF (fs ++ [f]) + 2 <= MAX_NESTING ->
    ln s <= lp s /\ lp s + maxT dpF (fs ++ [f]) + 3 <= ln s + 65 ->
    at_toks s (flat_map printF fs ++ printF0 f ++ tk OBraceRight :: rst) ->
    exists ns s1,
      SL (PA d) (loop_fuel A G D E s) acc s = Ok (acc ++ ns) s1 /\
      map erase ns = map shapeF (fs ++ [f]) /\
      at_toks s1 (tk OBraceRight :: rst) /\ frame s s1.
Proof.
  intros fs f Hall Hwf HFb d acc s rst Hd Hdep Hlev Hat.
  rewrite maxT_snoc in Hd, Hdep, Hlev.
  destruct (field_first0 f Hwf) as (tok & l & Hp & Hnb & Hns).
  assert (Hlen : length fs <= length (flat_map printF fs)).
  { apply fields_length. apply Forall_forall. intros x Hin. rewrite Forall_forall in Hall.
    exact (proj1 (Hall x Hin)). }
  pose proof (loop_fuel_toks s _ Hat) as Hfu. rewrite !app_length, Hp in Hfu. cbn [length] in Hfu.
  remember (loop_fuel A G D E s - length fs) as fuel0 eqn:Hf0.
  assert (Hfe : loop_fuel A G D E s = length fs + fuel0) by lia.
  assert (Hf2 : 2 <= fuel0) by lia. rewrite Hfe. clear Hfe Hf0 Hfu.
  destruct (struct_prefix_ok fs Hall d fuel0 acc s (printF0 f ++ tk OBraceRight :: rst))
    as (ns & s1 & Hl & Hes & Hat1 & Hf1).
  { lia. } { lia. } { lia. } { exact Hat. } { rewrite Hp. cbn [app]. exact Hns. }
  rewrite Hl.
  destruct fuel0 as [| fu1]; [lia |]. cbn [struct_loop].
  assert (Hcb : cur_is A G D E s1 (KOp OBraceRight) = false).
  { assert (Hat1' := Hat1). rewrite Hp in Hat1'. cbn [app] in Hat1'.
    rewrite (cur_is_toks _ _ _ _ Hat1'). exact Hnb. }
  rewrite Hcb.
  assert (HF' := HFb). unfold FPb in HF'. destruct f as [names t tag].
  cbn [RoundTripTypesStruct.field_t] in HF'. cbv beta iota in Hd, Hdep, Hlev.
  destruct (HF' d s1 rst) as (n & s2 & Hfd & Hen & Hdoc & Hat2 & Hf12).
  { lia. } { exact Hat1. } { unframe. lia. } { unframe. lia. }
  rewrite Hfd. cbn [bind].
  match goal with
  | |- context [line_end_comment _ _ _ _ _ _ ?c0 s2] =>
      rewrite (line_end_no A G D C E OPS s2 c0 _ Hat2 eq_refl)
  end.
  cbn [bind]. rewrite (skipped_no OPS s2 _ (KOp OSemiColon) Hat2 eq_refl). cbn [bind].
  destruct fu1 as [| fu2]; [lia |]. cbn [struct_loop].
  rewrite (cur_is_toks _ _ _ _ Hat2). change (tok_is (tk OBraceRight) (KOp OBraceRight)) with true.
  cbv iota.
  match goal with
  | |- context [set_docs n [?c1]] => exists (ns ++ [set_docs n [c1]]), s2
  end.
  split; [rewrite app_assoc; reflexivity |].
  split.
  { rewrite !map_app. cbn [map]. rewrite (erase_set_docs n _ Hdoc), Hen, Hes. reflexivity. }
  split; [exact Hat2 | exact (frame_trans _ _ _ Hf1 Hf12)].
Qed.

(* ------------------------------------------------------------ the struct type *)

(* the body of RoundTripTypesBase.TBP with the spelling as a parameter *)
Definition TBP_toks (t : typ) (toks : list token) : Prop := forall d (s : pstateT) rst,
  needT t <= S d -> at_toks s (toks ++ rst) -> tfollow t rst ->
  sdepth s + depthT t <= S MAX_NESTING -> ln s <= lp s /\ lp s + depthT t <= ln s + 65 ->
  exists n s1, type_or_none_body A G D C E OPS (PA d) s = Ok (Some n) s1 /\ erase n = shapeTy t /\
               at_toks s1 rst /\ frame s s1.

Lemma TBP_toks_print : forall t, TBP t <-> TBP_toks t (printT t).
Proof. intro t. split; intro H; exact H. Qed.

Theorem struct_nosemi_ok : forall (fs : list (sfield typ)) f,
  wfT (TStruct (fs ++ [f])) -> allX XOK (TStruct (fs ++ [f])) ->
  TBP_toks (TStruct (fs ++ [f])) (struct_nosemi printX fs f).
Proof.
  intros fs f Hwf Hx d s rst Hd Hat _ Hdep Hlev.
  change (needT (TStruct (fs ++ [f]))) with (4 + maxT ndF (fs ++ [f])) in Hd.
  change (depthT (TStruct (fs ++ [f]))) with (3 + maxT dpF (fs ++ [f])) in Hdep, Hlev.
  assert (IH : forall n, IHT n).
  { intros n t' Hlt Hw Ha.
    exact (types_main A G D C E OPS X printX shapeX wfX depthX needX n t' Hlt Hw Ha). }
  assert (Hwf' : Forall wfF (fs ++ [f])) by (apply allT_Forall; exact Hwf).
  assert (Hx' : Forall (fun f : sfield typ => match f with Field _ t _ => allX XOK t end) (fs ++ [f]))
    by (apply allT_Forall; exact Hx).
  apply Forall_app in Hwf'. destruct Hwf' as (Hwfs & Hwl).
  apply Forall_app in Hx'. destruct Hx' as (Hxfs & Hxl).
  inversion Hwl as [| f0 l0 Hwff _]; subst. inversion Hxl as [| f1 l1 Hxf _]; subst.
  assert (Hall : Forall (fun f => wfF f /\ FP f) fs).
  { rewrite Forall_forall in Hwfs, Hxfs. apply Forall_forall. intros g Hin.
    split; [exact (Hwfs g Hin) |]. specialize (Hwfs g Hin). specialize (Hxfs g Hin).
    destruct g as [names t tag]. apply field_ok; [exact Hwfs | exact Hxfs | apply IH]. }
  assert (HFb : FPb f).
  { destruct f as [names t tag]. apply field_okb; [exact Hwff | exact Hxf | apply IH]. }
  unfold struct_nosemi in Hat. cbn [app] in Hat. rewrite <- !app_assoc in Hat. cbn [app] in Hat.
  destruct (at_toks_cur _ _ _ Hat) as (pk & Hc).
  destruct (expect_toks OPS s _ _ (KKw KStruct) 36 Hat eq_refl) as (p & s1 & Hx1 & Hat1 & Hf1).
  destruct (expect_toks OPS s1 _ _ (KOp OBraceLeft) 37 Hat1 eq_refl) as (p0 & s2 & Hx2 & Hat2 & Hf2).
  pose proof (frame_trans _ _ _ Hf1 Hf2) as Hf02.
  destruct (struct_loop_nosemi fs f Hall Hwff HFb d [] s2 rst)
    as (ns & s3 & Hl & Hes & Hat3 & Hf3).
  - lia.
  - unframe. unfold MAX_NESTING in *. lia.
  - unframe. lia.
  - exact Hat2.
  - destruct (expect_toks OPS s3 _ _ (KOp OBraceRight) 38 Hat3 eq_refl) as (p1 & s4 & Hx4 & Hat4 & Hf4).
    exists (mk A C GTypeStruct [p0; p1] [] ns), s4.
    split; [| split; [| split; [exact Hat4 |
              exact (frame_trans _ _ _ (frame_trans _ _ _ Hf02 Hf3) Hf4)]]].
    + unfold type_or_none_body. rewrite Hc. cbv beta iota.
      unfold struct_type. rewrite Hx1. cbn [bind]. rewrite Hx2. cbn [bind]. rewrite Hl. cbn [bind].
      rewrite Hx4. cbn [bind app]. reflexivity.
    + rewrite shapeTy_struct. unfold mk. rewrite erase_Nd. cbn [map]. rewrite Hes. reflexivity.
Qed.

End StructB.

(* ============================================================ interface types *)

(* interface { m() ; int }  for the printed  interface { m() ; int ; } :
   parse_method_elem and the type-element path end with semi_unless_brace, which
   takes nothing in front of "}". *)

(* an interface element without its ";" *)
Definition printI0 {X : Type} (printX : X -> list token) (e : ielem (typ X)) : list token :=
  match e with
  | IMethod name s => ident_tok name :: printSig printX s
  | IUnion terms => printUnion printX terms
  end.

Definition iface_nosemi {X : Type} (printX : X -> list token) (es : list (ielem (typ X)))
    (e : ielem (typ X)) : list token :=
  kw KInterface :: tk OBraceLeft :: flat_map (printI printX) es ++ printI0 printX e ++ [tk OBraceRight].

Section IfaceB.
Variables (A G D C E : Type).
Variable OPS : ops A G D C.
Notation nodeT := (node A C).
Notation pstateT := (pstate A G D E).
Notation cur := (s_cur A G D E).
Notation srest := (s_rest A G D E).
Notation sdepth := (s_depth A G D E).
Notation sterm := (s_term A G D E).
Notation lp := (s_lp A G D E).
Notation ln := (s_ln A G D E).
Notation PA := (parsers_at A G D C E OPS).
Notation erase := (@erase A C).
Notation at_toks := (@at_toks A G D E).
Notation frame := (@frame A G D E).
Variable X : Type.
Variables (printX : X -> list token) (shapeX : X -> shapeT) (wfX : X -> Prop).
Variables (depthX needX : X -> nat).
Notation typ := (typ X).
Notation printT := (printT printX).
Notation shapeTy := (shapeTy shapeX).
Notation wfT := (wfT wfX).
Notation depthT := (depthT depthX).
Notation needT := (needT needX).
Notation TNP := (TNP A G D C E OPS X printX shapeX depthX needX).
Notation TP := (TP A G D C E OPS X printX shapeX depthX needX).
Notation TBP := (TBP A G D C E OPS X printX shapeX depthX needX).
Notation SigP := (SigP A G D C E OPS X printX shapeX depthX needX).
Notation XOK := (XOK A G D C E OPS X printX shapeX depthX needX).
Notation IHT := (IHT A G D C E OPS X printX shapeX wfX depthX needX).
Notation TOB := (type_or_none_body A G D C E OPS).
Notation ILOOP := (interface_loop A G D C E OPS).
Notation PTT := (parse_type_term A G D C E OPS).
Notation TEL := (type_elem_loop A G D C E OPS).
Notation PTE := (parse_type_elem A G D C E OPS).
Notation PME := (parse_method_elem A G D C E OPS).
Notation SUB := (semi_unless_brace A G D C E OPS).
Notation printI0 := (printI0 printX).
Notation ElemStep := (RoundTripTypesIface.ElemStep A G D C E OPS X shapeX).
Notation type_elem_toks := (type_elem_toks A G D C E OPS X printX shapeX wfX depthX needX).
Notation method_elem_fails := (method_elem_fails A G D C E OPS).
Notation after_ident := (after_ident X printX wfX).
Notation printUnion_cons := (printUnion_cons X printX).
Notation sizeI := (sizeI X).
Notation depthI := (depthI X depthX).
Notation needI := (needI X needX).
Notation needT_iface := (needT_iface X needX).
Notation depthT_iface := (depthT_iface X depthX).
Notation TBP_toks := (TBP_toks A G D C E OPS X shapeX depthX needX).
Notation ndT := (fun bt : bool * typ => needT (snd bt)).
Notation dpT := (fun bt : bool * typ => depthT (snd bt)).

(* one round of interface_loop on the last element: stops in front of "}" *)
Definition ElemStepB (d : nat) (e : ielem typ) (s : pstateT) (rst : list token) : Prop :=
  exists field s1,
    (forall f acc, ILOOP (PA d) (S f) acc s = ILOOP (PA d) f (acc ++ [field]) s1) /\
    erase field = shapeI shapeX e /\ at_toks s1 (tk OBraceRight :: rst) /\ frame s s1.

Lemma elem_methodb : forall name (sg : fsig typ), SigP sg -> forall d (s : pstateT) rst,
  needSig needX sg + 3 <= d ->
  sdepth s + depthSig depthX sg + 1 <= MAX_NESTING -> ln s <= lp s /\ lp s + depthSig depthX sg + 1 <= ln s + 64 ->
  at_toks s (printI0 (IMethod name sg) ++ tk OBraceRight :: rst) -> ElemStepB d (IMethod name sg) s rst.
Proof.
  intros name sg HS d s rst Hd Hdep Hlev Hat.
  cbn [OptionalSepStruct.printI0 app] in Hat.
  destruct (identifier_toks OPS s name _ 39 Hat) as (p & s1 & Hi & Hat1 & Hf1).
  destruct (HS d s1 (tk OBraceRight :: rst)) as (pn & rn & s2 & Hsig & Hep & Her & Hat2 & Hf2).
  - exact Hd.
  - exact Hat1.
  - apply tfollow_tok; reflexivity.
  - unframe. lia.
  - unframe. lia.
  - assert (Hpme : PME (PA d) s =
              Ok (n_field A C [n_ident A C p name]
                    (n_functype A C None (empty_fieldlist A C) pn rn) None (c_empty A G D C OPS)) s2).
    { unfold parse_method_elem. rewrite Hi. cbn [bind]. rewrite Hsig. cbn [bind].
      unfold semi_unless_brace. rewrite (cur_is_toks _ _ _ _ Hat2).
      change (tok_is (tk OBraceRight) (KOp OBraceRight)) with true. cbv iota.
      cbn [bind]. reflexivity. }
    eexists _, s2. split; [| split; [| split; [exact Hat2 | exact (frame_trans _ _ _ Hf1 Hf2)]]].
    + intros f acc. cbn [interface_loop]. rewrite !(cur_is_toks _ _ _ _ Hat).
      change (tok_is (ident_tok name) (KOp OBraceRight)) with false.
      change (tok_is (ident_tok name) (KLit LIdent)) with true. cbv iota.
      rewrite Hpme. reflexivity.
    + destruct sg as [ps paren rs]. cbn [shapeI shapeSig]. simpl. rewrite Hep, Her. reflexivity.
Qed.

Lemma ufollow_brace : forall rst, ufollow (tk OBraceRight :: rst).
Proof. intro rst. repeat split. Qed.

Lemma type_elem_path_toksb : forall terms : list (bool * typ), terms <> [] ->
  Forall (fun bt => wfT (snd bt) /\ TP (snd bt)) terms ->
  forall d (s s0 : pstateT) rst,
  maxT ndT terms + 1 <= d ->
  sdepth s + maxT dpT terms <= MAX_NESTING -> ln s <= lp s /\ lp s + maxT dpT terms <= ln s + 64 ->
  marked s -> at_toks s (printUnion printX terms ++ tk OBraceRight :: rst) ->
  sterm s0 = sterm s -> frame s s0 ->
  exists s1 n s2,
    goback A G D C E OPS (preback A G D E s) s0 = Ok tt s1 /\
    PTE (PA d) s1 = Ok n s2 /\ SUB 41 s2 = Ok tt s2 /\
    erase n = shapeUnion shapeX terms /\ at_toks s2 (tk OBraceRight :: rst) /\ frame s s2.
Proof.
  intros terms Hne Hall d s s0 rst Hd Hdep Hlev Hm Hat Ht0 Hf0.
  remember (printUnion printX terms ++ tk OBraceRight :: rst) as toks eqn:Htoks.
  destruct toks as [| t ts].
  { symmetry in Htoks. apply app_eq_nil in Htoks. destruct Htoks as (_ & H). discriminate H. }
  destruct (goback_toks A G D C E OPS s s0 t ts Hat Hm Ht0) as (s1 & Hg & Hat1 & Hf1 & Hm1).
  rewrite Htoks in Hat1. pose proof (frame_trans _ _ _ Hf0 Hf1) as Hf01.
  destruct (type_elem_toks terms Hne Hall d s1 (tk OBraceRight :: rst))
    as (n & s2 & Hpte & He & Hat2 & Hf2).
  - exact Hd.
  - unframe. lia.
  - unframe. lia.
  - exact Hat1.
  - apply ufollow_brace.
  - exists s1, n, s2. split; [exact Hg |]. split; [exact Hpte |].
    split; [| split; [exact He | split; [exact Hat2 |
      exact (frame_trans _ _ _ Hf01 Hf2)]]].
    unfold semi_unless_brace. rewrite (cur_is_toks _ _ _ _ Hat2).
    change (tok_is (tk OBraceRight) (KOp OBraceRight)) with true. cbv iota. reflexivity.
Qed.

(* the first token of a type element; when it is an identifier, no "(" follows *)
Lemma union_firstb : forall terms : list (bool * typ), terms <> [] ->
  Forall (fun bt => wfT (snd bt)) terms -> forall rst,
  exists tok ts, printUnion printX terms ++ tk OBraceRight :: rst = tok :: ts /\
    tok_is tok (KOp OBraceRight) = false /\
    (tok_is tok (KLit LIdent) = true ->
       exists name tok1 ts1, tok = TLiteral LIdent name /\ ts = tok1 :: ts1 /\
                             tok_is tok1 (KOp OParenLeft) = false).
Proof.
  intros terms Hne Hall rst.
  destruct Hall as [| [b t] r Hwf Hall]; [exfalso; apply Hne; reflexivity |].
  cbn [snd] in Hwf. rewrite printUnion_cons. unfold printTerm. cbn [fst snd]. destruct b.
  - cbn [app]. eexists _, _. split; [reflexivity |]. split; [reflexivity | discriminate].
  - cbn [app]. destruct (first_tokT X printX wfX t Hwf) as (tok & l & Hp & Hst & _).
    rewrite Hp. cbn [app]. eexists _, _. split; [reflexivity |].
    split; [apply type_start_not_brace; exact Hst |].
    intro Hid. destruct tok as [txt | k | op | lk name]; try discriminate Hid.
    destruct lk; try discriminate Hid.
    destruct (after_ident t Hwf name l Hp) as [-> | (tok1 & l' & -> & Hk)].
    + cbn [app]. destruct r as [| bt r].
      * eexists _, _, _. split; [reflexivity |]. split; reflexivity.
      * eexists _, _, _. split; [reflexivity |]. split; reflexivity.
    + eexists _, _, _. split; [reflexivity |]. split; [reflexivity | exact Hk].
Qed.

Lemma elem_unionb : forall terms : list (bool * typ), terms <> [] ->
  Forall (fun bt => wfT (snd bt) /\ TP (snd bt)) terms ->
  forall d (s : pstateT) rst,
  maxT ndT terms + 1 <= d ->
  sdepth s + maxT dpT terms <= MAX_NESTING -> ln s <= lp s /\ lp s + maxT dpT terms <= ln s + 64 ->
  marked s -> at_toks s (printI0 (IUnion terms) ++ tk OBraceRight :: rst) ->
  ElemStepB d (IUnion terms) s rst.
Proof.
  intros terms Hne Hall d s rst Hd Hdep Hlev Hm Hat.
  cbn [OptionalSepStruct.printI0] in Hat.
  assert (Hwf : Forall (fun bt : bool * typ => wfT (snd bt)) terms).
  { apply (Forall_impl _ (fun bt H => proj1 H) Hall). }
  destruct (union_firstb terms Hne Hwf rst) as (tok & ts & Hp & Hbr & Hid).
  assert (Hat' : at_toks s (tok :: ts)) by (rewrite <- Hp; exact Hat).
  assert (Hres : forall (s0 : pstateT), sterm s0 = sterm s -> frame s s0 ->
    exists n s3,
      (forall f acc,
         bind A G D E (goback A G D C E OPS (preback A G D E s) s0) (fun _ s1 =>
          bind A G D E (PTE (PA d) s1) (fun typ s2 =>
          bind A G D E (SUB 41 s2) (fun _ s3 =>
          ILOOP (PA d) f (acc ++ [field_of A G D C OPS typ]) s3))) =
         ILOOP (PA d) f (acc ++ [field_of A G D C OPS n]) s3) /\
      erase n = shapeUnion shapeX terms /\ at_toks s3 (tk OBraceRight :: rst) /\ frame s s3).
  { intros s0 Ht0 Hf0.
    destruct (type_elem_path_toksb terms Hne Hall d s s0 rst Hd Hdep Hlev Hm Hat Ht0 Hf0)
      as (s1 & n & s2 & Hg & Hpte & Hsub & He & Hat3 & Hf3).
    exists n, s2. split; [| split; [exact He | split; [exact Hat3 | exact Hf3]]].
    intros f acc. rewrite Hg. cbn [bind]. rewrite Hpte. cbn [bind]. rewrite Hsub. reflexivity. }
  destruct (tok_is tok (KLit LIdent)) eqn:Hident.
  - destruct (Hid eq_refl) as (name & tok1 & ts1 & -> & -> & Hnp).
    destruct (method_elem_fails d s name tok1 ts1 Hat' Hnp) as (e & s0 & Hpme & Ht0 & Hf0).
    destruct (Hres s0 Ht0 Hf0) as (n & s3 & Hstep & He & Hat3 & Hf3).
    exists (field_of A G D C OPS n), s3.
    split; [| split; [| split; [exact Hat3 | exact Hf3]]].
    + intros f acc. cbn [interface_loop]. rewrite !(cur_is_toks _ _ _ _ Hat').
      rewrite Hbr, Hident. cbv iota. rewrite Hpme. cbv iota. apply Hstep.
    + cbn [shapeI]. simpl. rewrite He. reflexivity.
  - destruct (Hres s eq_refl (frame_refl s)) as (n & s3 & Hstep & He & Hat3 & Hf3).
    exists (field_of A G D C OPS n), s3.
    split; [| split; [| split; [exact Hat3 | exact Hf3]]].
    + intros f acc. cbn [interface_loop]. rewrite !(cur_is_toks _ _ _ _ Hat').
      rewrite Hbr, Hident. cbv iota. apply Hstep.
    + cbn [shapeI]. simpl. rewrite He. reflexivity.
Qed.

(* interface_loop over a prefix of elements, each with its ";" *)
Lemma iface_prefix_ok : forall d (s0 : pstateT) (es : list (ielem typ)),
  Forall (fun e => forall (s : pstateT) rst, frame s0 s -> marked s ->
            at_toks s (printI printX e ++ rst) -> ElemStep d e s rst) es ->
  forall fuel acc (s : pstateT) tail,
  frame s0 s -> marked s ->
  at_toks s (flat_map (printI printX) es ++ tail) ->
  exists ns s1, ILOOP (PA d) (length es + fuel) acc s = ILOOP (PA d) fuel (acc ++ ns) s1 /\
    map erase ns = map (shapeI shapeX) es /\ at_toks s1 tail /\ marked s1 /\ frame s s1.
Proof.
  intros d s0 es Hall. induction Hall as [| e r He Hall IH];
    intros fuel acc s tail Hf0 Hm Hat.
  - cbn [flat_map app length Nat.add] in *. exists [], s. rewrite app_nil_r.
    split; [reflexivity |]. split; [reflexivity |]. split; [exact Hat |].
    split; [exact Hm | apply frame_refl].
  - cbn [flat_map] in Hat. rewrite <- app_assoc in Hat. cbn [length Nat.add].
    destruct (He s _ Hf0 Hm Hat) as (field & s1 & Hstep & Hef & Hat1 & Hm1 & Hf1).
    rewrite Hstep.
    destruct (IH fuel (acc ++ [field]) s1 tail (frame_trans _ _ _ Hf0 Hf1) Hm1 Hat1)
      as (ns & s2 & Hl & Hes & Hat2 & Hm2 & Hf2).
    exists (field :: ns), s2. split; [rewrite Hl, <- app_assoc; reflexivity |].
    split; [cbn [map]; rewrite Hef, Hes; reflexivity |].
    split; [exact Hat2 |]. split; [exact Hm2 | exact (frame_trans _ _ _ Hf1 Hf2)].
Qed.

Lemma ifaces_length : forall es : list (ielem typ),
  length es <= length (flat_map (printI printX) es).
Proof.
  induction es as [| e r IH]; [apply le_n |]. cbn [flat_map length]. rewrite app_length.
  pose proof (printI_len X printX e). lia.
Qed.

Theorem iface_nosemi_ok : forall (es : list (ielem typ)) e,
  wfT (TInterface (es ++ [e])) -> allX XOK (TInterface (es ++ [e])) ->
  TBP_toks (TInterface (es ++ [e])) (iface_nosemi printX es e).
Proof.
  intros es e0 Hwf Hax d s rst Hd Hat Hfo Hdep Hlev.
  unfold iface_nosemi in Hat. cbn [app] in Hat. rewrite <- !app_assoc in Hat. cbn [app] in Hat.
  rewrite needT_iface in Hd. rewrite depthT_iface in Hdep, Hlev.
  assert (HI : forall t', wfT t' -> allX XOK t' -> TNP t').
  { intros t' Hw Ha.
    exact (types_main A G D C E OPS X printX shapeX wfX depthX needX _ t'
             (Nat.lt_succ_diag_r _) Hw Ha). }
  assert (HSig : forall sg, wfSig wfX sg -> allX XOK (TFunc sg) -> SigP sg).
  { intros sg Hws Has.
    apply (sig_ok A G D C E OPS X printX shapeX wfX depthX needX sg); [| exact Hws | exact Has].
    intros t' _ Hw' Ha'. apply HI; assumption. }
  destruct (at_toks_cur _ _ _ Hat) as (p & Hc).
  destruct (expect_toks OPS s _ _ (KKw KInterface) 42 Hat eq_refl) as (p0 & s1 & Hx1 & Hat1 & Hf1).
  destruct (expect_toks_m A G D C E OPS s1 _ _ (KOp OBraceLeft) 43 Hat1 eq_refl)
    as (p1 & s2 & Hx2 & Hat2 & Hf2 & Hm2).
  pose proof (frame_trans _ _ _ Hf1 Hf2) as Hf12.
  assert (Hin0 : In e0 (es ++ [e0])) by (apply in_or_app; right; left; reflexivity).
  assert (Hfacts : forall e, In e (es ++ [e0]) ->
            depthI e <= maxT depthI (es ++ [e0]) /\ needI e <= maxT needI (es ++ [e0]) /\
            match e with
            | IMethod name sg => SigP sg
            | IUnion terms => terms <> [] /\ Forall (fun bt => wfT (snd bt) /\ TP (snd bt)) terms
            end).
  { intros e Hin.
    pose proof (maxT_In _ depthI _ e Hin) as Hdp.
    pose proof (maxT_In _ needI _ e Hin) as Hnd.
    pose proof (allT_In _ _ _ e Hwf Hin) as Hwe.
    pose proof (allT_In _ _ _ e Hax Hin) as Hxe.
    cbv beta in Hwe, Hxe. split; [exact Hdp |]. split; [exact Hnd |].
    destruct e as [name sg | terms].
    - apply HSig; destruct sg as [ps paren rs]; [exact Hwe | exact Hxe].
    - destruct Hwe as (Hne & Hwt). split; [exact Hne |].
      apply Forall_forall. intros bt Hbt.
      pose proof (allT_In _ _ terms bt Hwt Hbt) as Hwb.
      pose proof (allT_In _ _ terms bt Hxe Hbt) as Hxb.
      cbv beta in Hwb, Hxb. split; [exact Hwb |].
      apply TNP_TP. apply HI; [exact Hwb | exact Hxb]. }
  assert (Hall : Forall (fun e => forall (s' : pstateT) rst', frame s2 s' -> marked s' ->
            at_toks s' (printI printX e ++ rst') -> ElemStep d e s' rst') es).
  { apply Forall_forall. intros e Hin s' rst' Hf' Hm' Hat'.
    destruct (Hfacts e (in_or_app _ _ _ (or_introl Hin))) as (Hdp & Hnd & Hk).
    destruct e as [name sg | terms].
    - assert (Hn : needI (IMethod name sg) = 4 + needSig needX sg) by (destruct sg; reflexivity).
      assert (Hdd : depthI (IMethod name sg) = 2 + depthSig depthX sg) by (destruct sg; reflexivity).
      apply (elem_method A G D C E OPS X printX shapeX depthX needX name sg Hk d s' rst');
        [lia | unframe; lia | unframe; lia | exact Hat'].
    - destruct Hk as (Hne & Hts).
      change (needI (IUnion terms)) with (4 + maxT ndT terms) in Hnd.
      change (depthI (IUnion terms)) with (maxT dpT terms) in Hdp.
      apply (elem_union A G D C E OPS X printX shapeX wfX depthX needX terms Hne Hts);
        [lia | unframe; lia | unframe; lia | exact Hm' | exact Hat']. }
  assert (HlastB : forall (s' : pstateT), frame s2 s' -> marked s' ->
            at_toks s' (printI0 e0 ++ tk OBraceRight :: rst) -> ElemStepB d e0 s' rst).
  { intros s' Hf' Hm' Hat'.
    destruct (Hfacts e0 Hin0) as (Hdp & Hnd & Hk).
    destruct e0 as [name sg | terms].
    - assert (Hn : needI (IMethod name sg) = 4 + needSig needX sg) by (destruct sg; reflexivity).
      assert (Hdd : depthI (IMethod name sg) = 2 + depthSig depthX sg) by (destruct sg; reflexivity).
      apply (elem_methodb name sg Hk d s' rst); [lia | unframe; lia | unframe; lia | exact Hat'].
    - destruct Hk as (Hne & Hts).
      change (needI (IUnion terms)) with (4 + maxT ndT terms) in Hnd.
      change (depthI (IUnion terms)) with (maxT dpT terms) in Hdp.
      apply (elem_unionb terms Hne Hts); [lia | unframe; lia | unframe; lia | exact Hm' | exact Hat']. }
  pose proof (ifaces_length es) as Hlen.
  pose proof (loop_fuel_toks s2 _ Hat2) as Hfu. rewrite !app_length in Hfu. cbn [length] in Hfu.
  remember (loop_fuel A G D E s2 - length es) as fuel0 eqn:Hf0.
  assert (Hfe : loop_fuel A G D E s2 = length es + fuel0) by lia.
  assert (Hfge : 2 <= fuel0) by lia. clear Hf0 Hfu.
  destruct (iface_prefix_ok d s2 es Hall fuel0 [] s2 (printI0 e0 ++ tk OBraceRight :: rst)
              (frame_refl s2) Hm2 Hat2) as (ns & s3 & Hl & Hes & Hat3 & Hm3 & Hf3).
  destruct (HlastB s3 Hf3 Hm3 Hat3) as (field & s4 & Hstep & Hef & Hat4 & Hf4).
  destruct fuel0 as [| fu1]; [lia |]. rewrite Hstep in Hl.
  destruct fu1 as [| fu2]; [lia |]. cbn [interface_loop] in Hl.
  rewrite (cur_is_toks _ _ _ _ Hat4) in Hl.
  change (tok_is (tk OBraceRight) (KOp OBraceRight)) with true in Hl. cbv iota in Hl.
  destruct (expect_toks OPS s4 _ _ (KOp OBraceRight) 44 Hat4 eq_refl) as (p2 & s5 & Hx4 & Hat5 & Hf5).
  exists (mk A C GTypeInterface [p0] [] [n_fieldlist A C (Some (p1, p2)) (ns ++ [field])]), s5.
  split; [| split; [| split; [exact Hat5 |
    exact (frame_trans _ _ _ (frame_trans _ _ _ (frame_trans _ _ _ Hf12 Hf3) Hf4) Hf5)]]].
  - unfold type_or_none_body. rewrite Hc. unfold kw. unfold parse_interface_type.
    rewrite Hx1. cbn [bind]. rewrite Hx2. cbn [bind]. rewrite Hfe, Hl. cbn [bind app].
    rewrite Hx4. reflexivity.
  - rewrite shapeTy_interface, map_app, <- Hes.
    change (map (shapeI shapeX) [e0]) with [shapeI shapeX e0]. rewrite <- Hef.
    change [erase field] with (map erase [field]). rewrite <- map_app. reflexivity.
Qed.

End IfaceB.

(* ------------------------------------------------------------ types over exp2 *)

Section StructB2.
Variables (A G D C E : Type).
Variable OPS : ops A G D C.

(* every well-formed struct type of the grammar of Print3 (array lengths are exp2) *)
Theorem struct_nosemi_wf : forall (fs : list (sfield (typ exp2))) f,
  wfT (wf2 false) (TStruct (fs ++ [f])) ->
  TBP_toks A G D C E OPS exp2 shape2 depth2 need2 (TStruct (fs ++ [f]))
    (struct_nosemi print2 fs f).
Proof.
  intros fs f Hwf.
  apply (struct_nosemi_ok A G D C E OPS exp2 print2 shape2 (wf2 false) depth2 need2 fs f Hwf).
  apply (allX_wf_size exp2 size2 (wf2 false) _ (sizeX size2 (TStruct (fs ++ [f]))));
    [apply le_n | exact Hwf |].
  intros x _ Hwx. apply xok2_all. exact Hwx.
Qed.

(* every well-formed interface type *)
Theorem iface_nosemi_wf : forall (es : list (ielem (typ exp2))) e,
  wfT (wf2 false) (TInterface (es ++ [e])) ->
  TBP_toks A G D C E OPS exp2 shape2 depth2 need2 (TInterface (es ++ [e]))
    (iface_nosemi print2 es e).
Proof.
  intros es e Hwf.
  apply (iface_nosemi_ok A G D C E OPS exp2 print2 shape2 (wf2 false) depth2 need2 es e Hwf).
  apply (allX_wf_size exp2 size2 (wf2 false) _ (sizeX size2 (TInterface (es ++ [e]))));
    [apply le_n | exact Hwf |].
  intros x _ Hwx. apply xok2_all. exact Hwx.
Qed.

End StructB2.

(* ------------------------------------------------------------ examples *)

Definition oss_int : typ exp2 := TName [105%N; 110%N; 116%N].
(* a int ; T "t" ; *pkg.T ; x, y [2]int  |  last: b int *)
Definition oss_fs : list (sfield (typ exp2)) :=
  [Field [[97%N]] oss_int None; Field [] (TName [84%N]) (Some [116%N]);
   Field [] (TPtr (TQual [112%N] [84%N])) None;
   Field [[120%N]; [121%N]] (TSlice oss_int) None].
Definition oss_f : sfield (typ exp2) := Field [[98%N]] oss_int None.
Definition oss_f_tag : sfield (typ exp2) := Field [] (TQual [112%N] [84%N]) (Some [116%N]).

(* non-vacuity: the hypotheses of struct_nosemi_wf hold *)
Example oss_wf : wfT (wf2 false) (TStruct (oss_fs ++ [oss_f])) /\
                 wfT (wf2 false) (TStruct (oss_fs ++ [oss_f_tag])) /\
                 wfT (wf2 false) (TStruct ([] ++ [oss_f])).
Proof. cbn. repeat split; try exact I; intro H; first [exact H | discriminate H | destruct H]. Qed.

(* the executable model on both spellings: the same tree *)
Example oss_reparse :
  demo_shape (struct_nosemi print2 oss_fs oss_f) = Some (shape2 (E2Type (TStruct (oss_fs ++ [oss_f])))) /\
  demo_shape (print2 (E2Type (TStruct (oss_fs ++ [oss_f])))) =
    Some (shape2 (E2Type (TStruct (oss_fs ++ [oss_f])))) /\
  struct_nosemi print2 oss_fs oss_f <> print2 (E2Type (TStruct (oss_fs ++ [oss_f]))) /\
  demo_shape (struct_nosemi print2 oss_fs oss_f_tag) =
    Some (shape2 (E2Type (TStruct (oss_fs ++ [oss_f_tag])))) /\
  demo_shape (struct_nosemi print2 [] oss_f) = Some (shape2 (E2Type (TStruct [oss_f]))) /\
  struct_nosemi print2 [] oss_f = [kw KStruct; tk OBraceLeft; TLiteral LIdent [98%N];
                                   TLiteral LIdent [105%N; 110%N; 116%N]; tk OBraceRight].
Proof. repeat split; vm_compute; try reflexivity; discriminate. Qed.

(* interface { m() ; x(a int) int ; ~int | T }  and  interface { int ; m() } *)
Definition osi_m : ielem (typ exp2) := IMethod [109%N] (Sig [] false []).
Definition osi_x : ielem (typ exp2) :=
  IMethod [120%N] (Sig [Group [[97%N]] false oss_int] false [Group [] false oss_int]).
Definition osi_u : ielem (typ exp2) := IUnion [(true, oss_int); (false, TName [84%N])].
Definition osi_i : ielem (typ exp2) := IUnion [(false, oss_int)].

Example osi_wf : wfT (wf2 false) (TInterface ([osi_m; osi_x] ++ [osi_u])) /\
                 wfT (wf2 false) (TInterface ([osi_i] ++ [osi_m])) /\
                 wfT (wf2 false) (TInterface ([] ++ [osi_i])).
Proof.
  cbn. repeat split;
    first [exact I | reflexivity | discriminate | (intro H; first [exact H | discriminate H | destruct H]) | idtac].
  all: first [ left; exact I | left; reflexivity | left; split; [discriminate | exact I]
             | right; split; [reflexivity | exact I]
             | right; eexists; split; [reflexivity | intro H; exact H] ].
Qed.

Example osi_reparse :
  demo_shape (iface_nosemi print2 [osi_m; osi_x] osi_u) =
    Some (shape2 (E2Type (TInterface ([osi_m; osi_x] ++ [osi_u])))) /\
  demo_shape (print2 (E2Type (TInterface ([osi_m; osi_x] ++ [osi_u])))) =
    Some (shape2 (E2Type (TInterface ([osi_m; osi_x] ++ [osi_u])))) /\
  iface_nosemi print2 [osi_m; osi_x] osi_u <> print2 (E2Type (TInterface ([osi_m; osi_x] ++ [osi_u]))) /\
  demo_shape (iface_nosemi print2 [osi_i] osi_m) = Some (shape2 (E2Type (TInterface [osi_i; osi_m]))) /\
  demo_shape (iface_nosemi print2 [] osi_i) = Some (shape2 (E2Type (TInterface [osi_i]))) /\
  iface_nosemi print2 [] osi_i = [kw KInterface; tk OBraceLeft;
                                  TLiteral LIdent [105%N; 110%N; 116%N]; tk OBraceRight].
Proof. repeat split; vm_compute; try reflexivity; discriminate. Qed.
