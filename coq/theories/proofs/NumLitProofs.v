(* C09: the scanner's numeric literals against the specification grammar. *)
From Coq Require Import List NArith Bool Lia ZifyBool ZifyN.
From GoSyn Require Import Token Tok Regex Scanner.
From GoSyn.spec Require Import NumLit.
From GoSyn.proofs Require Import NumLitDigits NumLitScan.
Import ListNotations.
Open Scope N_scope.

Ltac chr :=
  unfold is_hex_digit, is_decimal_digit, is_binary_digit, is_octal_digit, ascii_letter,
    is_e, is_p, is_sign in *; lia.

(* the guard under which scan_token calls scan_lit_number *)
Definition num_startb (l : str) : bool :=
  match l with
  | [] => false
  | c0 :: l1 =>
      is_decimal_digit c0 ||
      ((c0 =? c_dot) && match l1 with c1 :: _ => is_decimal_digit c1 | [] => false end)
  end.
Definition num_start (l : str) : Prop := num_startb l = true.

Definition num_delim (rest : str) : Prop :=
  match rest with
  | [] => True
  | c :: _ => is_decimal_digit c = false /\ ascii_letter c = false /\ c <> 95 /\ c <> 46
  end.

(* ------------------------------------------------------------ integer phase *)

Definition noprefix (l1 : str) : Prop :=
  match l1 with
  | [] => True
  | c1 :: _ => c1 <> 98 /\ c1 <> 66 /\ c1 <> 111 /\ c1 <> 79 /\ c1 <> 120 /\ c1 <> 88
  end.

Inductive IntShape (l : str) : radix -> str -> Prop :=
| IS_dot c1 l2 : l = 46 :: c1 :: l2 -> is_decimal_digit c1 = true -> IntShape l R10 []
| IS_dec c0 l1 : l = c0 :: l1 -> is_decimal_digit c0 = true -> (c0 = 48 -> noprefix l1) ->
    IntShape l R10 (c0 :: scan_digits is_decimal_digit true l1)
| IS_bin c1 l2 : l = 48 :: c1 :: l2 -> c1 = 98 \/ c1 = 66 ->
    IntShape l R2 (48 :: c1 :: scan_digits is_binary_digit true l2)
| IS_oct c1 l2 : l = 48 :: c1 :: l2 -> c1 = 111 \/ c1 = 79 ->
    IntShape l R8 (48 :: c1 :: scan_digits is_octal_digit true l2)
| IS_hex c1 l2 : l = 48 :: c1 :: l2 -> c1 = 120 \/ c1 = 88 ->
    IntShape l R16 (48 :: c1 :: scan_digits is_hex_digit true l2).

Lemma int_phase_dec c0 l1 :
  is_decimal_digit c0 = true -> (c0 = 48 -> noprefix l1) ->
  int_phase (c0 :: l1) = (R10, c0 :: scan_digits is_decimal_digit true l1).
Proof.
  intros Hc Hn. unfold int_phase.
  assert (E46 : (c0 =? 46) = false) by chr. rewrite E46.
  assert (Hs : scan_digits is_decimal_digit true (c0 :: l1) =
               c0 :: scan_digits is_decimal_digit true l1).
  { cbn [scan_digits]. assert (E : (c0 =? 95) = false) by chr. rewrite E, Hc. reflexivity. }
  rewrite Hs.
  destruct l1 as [|c1 l2]; cbn [firstn str_eqb].
  - rewrite !andb_false_r. reflexivity.
  - destruct (c0 =? 48) eqn:E0.
    + assert (c0 = 48) by lia. destruct (Hn H) as (H1 & H2 & H3 & H4 & H5 & H6).
      apply N.eqb_neq in H1, H2, H3, H4, H5, H6. rewrite H1, H2, H3, H4, H5, H6. reflexivity.
    + reflexivity.
Qed.

Lemma int_phase_cases l : num_start l -> IntShape l (fst (int_phase l)) (snd (int_phase l)).
Proof.
  unfold num_start, num_startb. destruct l as [|c0 l1]; [discriminate|]. intro H.
  destruct (is_decimal_digit c0) eqn:Hc.
  - destruct (N.eq_dec c0 48) as [->|Hne].
    + destruct l1 as [|c1 l2].
      { rewrite int_phase_dec by (auto; intros; exact I). eapply IS_dec; eauto. intros; exact I. }
      destruct (N.eq_dec c1 98) as [->|N1]; [eapply IS_bin; eauto|].
      destruct (N.eq_dec c1 66) as [->|N2]; [eapply IS_bin; eauto|].
      destruct (N.eq_dec c1 111) as [->|N3]; [eapply IS_oct; eauto|].
      destruct (N.eq_dec c1 79) as [->|N4]; [eapply IS_oct; eauto|].
      destruct (N.eq_dec c1 120) as [->|N5]; [eapply IS_hex; eauto|].
      destruct (N.eq_dec c1 88) as [->|N6]; [eapply IS_hex; eauto|].
      assert (Hn : (48:N) = 48 -> noprefix (c1 :: l2)) by (intros _; cbn; auto 10).
      rewrite int_phase_dec by auto. eapply IS_dec; eauto.
    + assert (Hn : c0 = 48 -> noprefix l1) by (intro; contradiction).
      rewrite int_phase_dec by auto. eapply IS_dec; eauto.
  - simpl in H. apply andb_true_iff in H as [H1 H2]. apply N.eqb_eq in H1. subst c0.
    destruct l1 as [|c1 l2]; [discriminate|]. cbn. eapply IS_dot; eauto.
Qed.

Lemma int_shape_prefix l rdx numlit : IntShape l rdx numlit -> exists r1, l = numlit ++ r1.
Proof.
  intros [c1 l2 -> _|c0 l1 -> _ _|c1 l2 -> _|c1 l2 -> _|c1 l2 -> _].
  - eexists; reflexivity.
  - destruct (scan_prefix is_decimal_digit true l1) as (r & Hr). exists r. simpl. congruence.
  - destruct (scan_prefix is_binary_digit true l2) as (r & Hr). exists r. simpl. congruence.
  - destruct (scan_prefix is_octal_digit true l2) as (r & Hr). exists r. simpl. congruence.
  - destruct (scan_prefix is_hex_digit true l2) as (r & Hr). exists r. simpl. congruence.
Qed.

Lemma scan_eq l rdx numlit r1 :
  int_phase l = (rdx, numlit) -> l = numlit ++ r1 ->
  scan_lit_number l = phaseB rdx numlit r1.
Proof.
  intros H1 H2. rewrite scan_split, H1. rewrite H2 at 1. apply phaseB_eq.
Qed.

(* ------------------------------------------------------------ inversion of the phases *)

Definition next_i (next : option N) : bool :=
  match next with Some c => c =? 105 | None => false end.

Lemma finish_inl rdx fl mant ep next k s :
  finish rdx fl mant ep next = inl (k, s) ->
  (radix_eqb rdx R16 && negb (Nat.eqb fl 0) && Nat.eqb (length ep) 0) = false /\
  (starts_with [95] (exp_digs_of ep) || last_is 95 ep) = false /\
  (negb (Nat.eqb (length ep) 0) &&
   negb (match rev ep with c :: _ => is_decimal_digit c | [] => false end)) = false /\
  ((next_i next = true /\ k = LImag /\ s = (mant ++ ep) ++ [105]) \/
   (next_i next = false /\
    (contains 46 (mant ++ ep) || negb (Nat.eqb (length ep) 0)) = true /\
    k = LFloat /\ s = mant ++ ep) \/
   (next_i next = false /\
    (contains 46 (mant ++ ep) || negb (Nat.eqb (length ep) 0)) = false /\
    (radix_eqb rdx R10 && Nat.ltb 1 (length (mant ++ ep)) && starts_with [48] (mant ++ ep) &&
     (contains 56 (mant ++ ep) || contains 57 (mant ++ ep))) = false /\
    k = LInteger /\ s = mant ++ ep)).
Proof.
  unfold finish. fold (next_i next).
  destruct (radix_eqb rdx R16 && negb (Nat.eqb fl 0) && Nat.eqb (length ep) 0); [discriminate|].
  destruct (starts_with [95] (exp_digs_of ep) || last_is 95 ep); [discriminate|].
  destruct (negb (Nat.eqb (length ep) 0) &&
   negb (match rev ep with c :: _ => is_decimal_digit c | [] => false end)); [discriminate|].
  destruct (next_i next).
  { intro H. inversion H. auto 10. }
  destruct (contains 46 (mant ++ ep) || negb (Nat.eqb (length ep) 0)).
  { intro H. inversion H. auto 10. }
  destruct (radix_eqb rdx R10 && Nat.ltb 1 (length (mant ++ ep)) && starts_with [48] (mant ++ ep) &&
     (contains 56 (mant ++ ep) || contains 57 (mant ++ ep))); [discriminate|].
  intro H. inversion H. auto 15.
Qed.

Lemma phaseC_inl rdx nl fl mant r2 k s :
  phaseC rdx nl fl mant r2 = inl (k, s) ->
  mant <> [] /\
  (negb (radix_eqb rdx R10) && Nat.eqb nl 2 && Nat.leb fl 1) = false /\
  (negb (radix_eqb rdx R10) && is_e (hd_error r2)) = false /\
  (negb (radix_eqb rdx R16) && is_p (hd_error r2)) = false /\
  finish rdx fl mant (exp_of r2) (hd_error (skipn (length (exp_of r2)) r2)) = inl (k, s).
Proof.
  unfold phaseC. destruct mant as [|m0 mant']; [discriminate|].
  destruct (negb (radix_eqb rdx R10) && Nat.eqb nl 2 && Nat.leb fl 1); [discriminate|].
  destruct (negb (radix_eqb rdx R10) && is_e (hd_error r2)); [discriminate|].
  destruct (negb (radix_eqb rdx R16) && is_p (hd_error r2)); [discriminate|].
  intro H. repeat split; auto. discriminate.
Qed.

Lemma phaseB_inl rdx numlit r1 k s :
  phaseB rdx numlit r1 = inl (k, s) ->
  last_is 95 numlit = false /\
  (hd_is 46 r1 && (radix_eqb rdx R2 || radix_eqb rdx R8)) = false /\
  (starts_with [46; 95] (fac_of rdx r1) || last_is 95 (fac_of rdx r1)) = false /\
  phaseC rdx (length numlit) (length (fac_of rdx r1)) (numlit ++ fac_of rdx r1)
         (skipn (length (fac_of rdx r1)) r1) = inl (k, s).
Proof.
  unfold phaseB. destruct (last_is 95 numlit); [discriminate|].
  destruct (hd_is 46 r1 && (radix_eqb rdx R2 || radix_eqb rdx R8)); [discriminate|].
  destruct (starts_with [46; 95] (fac_of rdx r1) || last_is 95 (fac_of rdx r1)); [discriminate|].
  auto.
Qed.

(* ------------------------------------------------------------ shapes of the pieces *)

Lemma fdig_under rdx : fdig rdx 95 = false.
Proof. destruct rdx; reflexivity. Qed.

Lemma tail_nounder_digits v d :
  v 95 = false -> Tail v d -> d <> [] -> starts_with [95] d = false ->
  Matches (digits_of (Cls v)) d.
Proof.
  intros Hv Ht Hne Hs. destruct d as [|x d]; [congruence|].
  apply digits_intro'; auto. exists x, d. split; auto.
  inversion Ht; subst; auto. cbn in Hs. discriminate.
Qed.

Lemma fac_shape rdx r1 :
  (starts_with [46; 95] (fac_of rdx r1) || last_is 95 (fac_of rdx r1)) = false ->
  (fac_of rdx r1 = [] /\ hd_is 46 r1 = false) \/
  (exists d2, fac_of rdx r1 = 46 :: d2 /\ hd_is 46 r1 = true /\
              d2 = scan_digits (fdig rdx) true (tl r1) /\
              (d2 = [] \/ Matches (digits_of (Cls (fdig rdx))) d2)).
Proof.
  unfold fac_of. destruct (hd_is 46 r1); [|left; auto].
  intro H. right. apply orb_false_iff in H as [H1 H2].
  exists (scan_digits (fdig rdx) true (tl r1)). repeat split.
  remember (scan_digits (fdig rdx) true (tl r1)) as d2 eqn:Ed.
  destruct d2 as [|x d2]; [left; reflexivity|right].
  rewrite last_is_cons in H2 by discriminate. rewrite Ed in H2.
  apply scan_tail_true in H2; [|apply fdig_under]. rewrite <- Ed in H2.
  apply tail_nounder_digits; [apply fdig_under|exact H2|discriminate|].
  cbn in H1 |- *. rewrite andb_true_r in *. exact H1.
Qed.

Lemma opt_sign_of r : Matches (Opt sign) (sign_of r).
Proof.
  destruct r as [|s r]; [apply opt_nil|]. cbn [sign_of].
  destruct (is_sign (Some s)) eqn:E; [|apply opt_nil].
  apply opt_some. constructor. cbn in *. rewrite orb_false_r. exact E.
Qed.

Lemma sign_of_cases r : sign_of r = [] \/ sign_of r = [43] \/ sign_of r = [45].
Proof.
  destruct r as [|s r]; [auto|]. cbn [sign_of]. destruct (is_sign (Some s)) eqn:E; [|auto].
  assert (s = 43 \/ s = 45) as [->| ->] by chr; auto.
Qed.

Definition last_dec (l : str) : bool :=
  match rev l with c :: _ => is_decimal_digit c | [] => false end.

Lemma last_dec_snoc l x : last_dec (l ++ [x]) = is_decimal_digit x.
Proof. unfold last_dec. rewrite rev_app_distr. reflexivity. Qed.

Lemma last_dec_app l1 l2 : l2 <> [] -> last_dec (l1 ++ l2) = last_dec l2.
Proof.
  intros H. destruct (exists_last H) as (l' & x & ->).
  rewrite app_assoc, !last_dec_snoc. reflexivity.
Qed.

Definition ExpOK (r2 ep : str) : Prop :=
  (ep = [] /\ is_e (hd_error r2) = false /\ is_p (hd_error r2) = false) \/
  (ep <> [] /\ is_e (hd_error r2) = true /\ Matches decimal_exponent ep) \/
  (ep <> [] /\ is_p (hd_error r2) = true /\ Matches hex_exponent ep).

Lemma exp_intro (a b e : N) sg digs :
  e = a \/ e = b -> Matches (Opt sign) sg -> Matches decimal_digits digs ->
  Matches (Seq [OneOf [a; b]; Opt sign; decimal_digits]) (e :: sg ++ digs).
Proof.
  intros He Hs Hd. cbn [Seq]. change (e :: sg ++ digs) with ([e] ++ sg ++ digs).
  constructor; [|constructor; assumption].
  destruct He as [->| ->]; [apply oneof2_l|apply oneof2_r].
Qed.

Lemma exp_sound r2 :
  (starts_with [95] (exp_digs_of (exp_of r2)) || last_is 95 (exp_of r2)) = false ->
  (negb (Nat.eqb (length (exp_of r2)) 0) && negb (last_dec (exp_of r2))) = false ->
  ExpOK r2 (exp_of r2).
Proof.
  unfold ExpOK. destruct r2 as [|e r2']; [left; auto|]. cbn [exp_of hd_error].
  destruct (is_e (Some e) || is_p (Some e)) eqn:Eep.
  2:{ left. apply orb_false_iff in Eep. tauto. }
  intros H1 H2. apply orb_false_iff in H1 as [H1 H1'].
  set (sg := sign_of r2') in *.
  remember (scan_digits is_decimal_digit true (skipn (length sg) r2')) as digs eqn:Ed.
  cbn [length Nat.eqb negb andb] in H2. apply negb_false_iff in H2.
  assert (Hne : digs <> []).
  { intro E. rewrite E, app_nil_r in H2.
    destruct (sign_of_cases r2') as [Hs|[Hs|Hs]]; fold sg in Hs; rewrite Hs in H2;
      cbn in H2; chr. }
  change (e :: sg ++ digs) with ((e :: sg) ++ digs) in H1'.
  rewrite last_is_app in H1' by exact Hne.
  assert (Ht : Tail is_decimal_digit digs).
  { rewrite Ed. apply scan_tail_true; [reflexivity|]. rewrite <- Ed. exact H1'. }
  assert (Hx : exp_digs_of (e :: sg ++ digs) = digs).
  { destruct (sign_of_cases r2') as [Hs|[Hs|Hs]]; fold sg in Hs; rewrite Hs; try reflexivity.
    cbn [app exp_digs_of]. destruct digs as [|x d]; [reflexivity|].
    assert (Hxx : is_decimal_digit x = true \/ x = 95)
      by (eapply tail_all; eauto; left; reflexivity).
    assert (E : is_sign (Some x) = false) by chr. rewrite E. reflexivity. }
  rewrite Hx in H1.
  assert (Hd : Matches decimal_digits digs) by (apply tail_nounder_digits; auto).
  assert (Hne' : e :: sg ++ digs <> []) by discriminate.
  destruct (is_e (Some e)) eqn:Ee.
  - right; left. repeat split; auto. apply exp_intro; [chr|apply opt_sign_of|exact Hd].
  - right; right. cbn [orb] in Eep. repeat split; auto.
    apply exp_intro; [chr|apply opt_sign_of|exact Hd].
Qed.

(* ------------------------------------------------------------ building spec derivations *)

Lemma opt_or a s : s = [] \/ Matches a s -> Matches (Opt a) s.
Proof. intros [->|H]; [apply opt_nil|apply opt_some; exact H]. Qed.

Lemma float_dec_1 D d2 ep :
  Matches decimal_digits D -> (d2 = [] \/ Matches decimal_digits d2) ->
  (ep = [] \/ Matches decimal_exponent ep) -> Matches float_lit (D ++ (46 :: d2) ++ ep).
Proof.
  intros HD Hd He. apply MAltL. unfold decimal_float_lit. cbn [Any Seq]. apply MAltL.
  constructor; [exact HD|]. change ((46 :: d2) ++ ep) with ([46] ++ d2 ++ ep).
  constructor; [apply chr_intro|]. constructor; apply opt_or; assumption.
Qed.

Lemma float_dec_2 D ep :
  Matches decimal_digits D -> Matches decimal_exponent ep -> Matches float_lit (D ++ ep).
Proof.
  intros HD He. apply MAltL. unfold decimal_float_lit. cbn [Any Seq]. apply MAltR, MAltL.
  constructor; assumption.
Qed.

Lemma float_dec_3 d2 ep :
  Matches decimal_digits d2 -> (ep = [] \/ Matches decimal_exponent ep) ->
  Matches float_lit ((46 :: d2) ++ ep).
Proof.
  intros Hd He. apply MAltL. unfold decimal_float_lit. cbn [Any Seq]. apply MAltR, MAltR.
  change ((46 :: d2) ++ ep) with ([46] ++ d2 ++ ep).
  constructor; [apply chr_intro|]. constructor; [exact Hd|apply opt_or; exact He].
Qed.

Lemma mant_1 d d2 :
  Tail is_hex_digit d -> d <> [] -> (d2 = [] \/ Matches hex_digits d2) ->
  Matches hex_mantissa (d ++ 46 :: d2).
Proof.
  intros Ht Hne Hd. unfold hex_mantissa. cbn [Any Seq]. apply MAltL.
  destruct (udigits_split is_hex_digit d Ht Hne) as (s1 & s2 & -> & H1 & H2).
  rewrite <- app_assoc. constructor; [exact H1|]. constructor; [exact H2|].
  change (46 :: d2) with ([46] ++ d2). constructor; [apply chr_intro|apply opt_or; exact Hd].
Qed.

Lemma mant_2 d : Tail is_hex_digit d -> d <> [] -> Matches hex_mantissa d.
Proof.
  intros Ht Hne. unfold hex_mantissa. cbn [Any Seq]. apply MAltR, MAltL.
  apply udigits_intro; assumption.
Qed.

Lemma mant_3 d2 : Matches hex_digits d2 -> Matches hex_mantissa (46 :: d2).
Proof.
  intros Hd. unfold hex_mantissa. cbn [Any Seq]. apply MAltR, MAltR.
  change (46 :: d2) with ([46] ++ d2). constructor; [apply chr_intro|exact Hd].
Qed.

Lemma hex_float_intro c1 m ep :
  c1 = 120 \/ c1 = 88 -> Matches hex_mantissa m -> Matches hex_exponent ep ->
  Matches float_lit (48 :: c1 :: m ++ ep).
Proof.
  intros Hc Hm He. apply MAltR. unfold hex_float_lit. cbn [Seq].
  change (48 :: c1 :: m ++ ep) with ([48] ++ [c1] ++ m ++ ep).
  constructor; [apply chr_intro|]. constructor; [|constructor; assumption].
  destruct Hc as [->| ->]; [apply oneof2_l|apply oneof2_r].
Qed.

Lemma int_bin c1 d :
  c1 = 98 \/ c1 = 66 -> Tail is_binary_digit d -> d <> [] -> Matches int_lit (48 :: c1 :: d).
Proof.
  intros Hc Ht Hne. unfold int_lit. cbn [Any]. apply MAltR, MAltL. unfold binary_lit. cbn [Seq].
  change (48 :: c1 :: d) with ([48] ++ [c1] ++ d).
  constructor; [apply chr_intro|]. constructor; [|apply udigits_intro; assumption].
  destruct Hc as [->| ->]; [apply oneof2_l|apply oneof2_r].
Qed.

Lemma int_oct c1 d :
  c1 = 111 \/ c1 = 79 -> Tail is_octal_digit d -> d <> [] -> Matches int_lit (48 :: c1 :: d).
Proof.
  intros Hc Ht Hne. unfold int_lit. cbn [Any]. apply MAltR, MAltR, MAltL. unfold octal_lit. cbn [Seq].
  change (48 :: c1 :: d) with ([48] ++ [c1] ++ d).
  constructor; [apply chr_intro|]. constructor; [|apply udigits_intro; assumption].
  apply opt_some. destruct Hc as [->| ->]; [apply oneof2_l|apply oneof2_r].
Qed.

Lemma int_hex c1 d :
  c1 = 120 \/ c1 = 88 -> Tail is_hex_digit d -> d <> [] -> Matches int_lit (48 :: c1 :: d).
Proof.
  intros Hc Ht Hne. unfold int_lit. cbn [Any]. apply MAltR, MAltR, MAltR. unfold hex_lit. cbn [Seq].
  change (48 :: c1 :: d) with ([48] ++ [c1] ++ d).
  constructor; [apply chr_intro|]. constructor; [|apply udigits_intro; assumption].
  destruct Hc as [->| ->]; [apply oneof2_l|apply oneof2_r].
Qed.

Lemma contains_cons c x l : contains c (x :: l) = (c =? x) || contains c l.
Proof. reflexivity. Qed.

Lemma tail_dec_oct t :
  Tail is_decimal_digit t -> contains 56 t = false -> contains 57 t = false ->
  Tail is_octal_digit t.
Proof.
  induction 1 as [|c t Hc Ht IH|c t Hc Ht IH]; intros H8 H9.
  - constructor.
  - rewrite contains_cons in H8, H9. apply orb_false_iff in H8 as [H8 H8'], H9 as [H9 H9'].
    apply T1; [chr|auto].
  - rewrite !contains_cons in H8, H9.
    apply orb_false_iff in H8 as [_ H8], H9 as [_ H9].
    apply orb_false_iff in H8 as [H8 H8'], H9 as [H9 H9'].
    apply T2; [chr|auto].
Qed.

(* plain decimal digits that pass the scanner's octal check are an int_lit *)
Lemma int_dec_sound D :
  Matches decimal_digits D ->
  (Nat.ltb 1 (length D) && starts_with [48] D && (contains 56 D || contains 57 D)) = false ->
  Matches int_lit D.
Proof.
  intros HD Hc. apply digits_inv in HD as (c & t & -> & Hd & Ht).
  unfold int_lit. cbn [Any].
  destruct (N.eq_dec c 48) as [->|Hne].
  - destruct t as [|x t]; [apply MAltL, MAltL, chr_intro|].
    cbn in Hc. apply orb_false_iff in Hc as [H8 H9].
    apply MAltR, MAltR, MAltL. unfold octal_lit. cbn [Seq].
    change (48 :: x :: t) with ([48] ++ [] ++ x :: t).
    constructor; [apply chr_intro|]. constructor; [apply opt_nil|].
    apply udigits_intro; [|discriminate].
    apply tail_dec_oct; assumption.
  - apply MAltL, MAltR. change (c :: t) with ([c] ++ t).
    constructor; [constructor; chr|].
    destruct t as [|x t]; [apply opt_nil|]. apply opt_some.
    apply udigits_intro; [exact Ht|discriminate].
Qed.

(* ------------------------------------------------------------ classification *)

Lemma imag_intro s :
  Matches decimal_digits s \/ Matches int_lit s \/ Matches float_lit s ->
  Matches imaginary_lit (s ++ [105]).
Proof.
  intro H. unfold imaginary_lit. constructor; [|apply chr_intro]. cbn [Any].
  destruct H as [H|[H|H]]; [apply MAltL|apply MAltR, MAltL|apply MAltR, MAltR]; exact H.
Qed.

Lemma classify rdx fl mant ep next k s :
  finish rdx fl mant ep next = inl (k, s) ->
  (Matches float_lit (mant ++ ep) /\
   (contains 46 (mant ++ ep) || negb (Nat.eqb (length ep) 0)) = true) \/
  (Matches decimal_digits (mant ++ ep) /\ rdx = R10 /\
   (contains 46 (mant ++ ep) || negb (Nat.eqb (length ep) 0)) = false) \/
  (Matches int_lit (mant ++ ep) /\
   (contains 46 (mant ++ ep) || negb (Nat.eqb (length ep) 0)) = false) ->
  NumLit k s.
Proof.
  intros Hf Hs. apply finish_inl in Hf as (_ & _ & _ & Hf).
  destruct Hf as [(Hi & -> & ->)|[(Hi & Hc & -> & ->)|(Hi & Hc & Ho & -> & ->)]]; cbn [NumLit].
  - apply imag_intro. tauto.
  - destruct Hs as [[H _]|[(_ & _ & H)|[_ H]]]; [exact H|congruence|congruence].
  - destruct Hs as [[_ H]|[(H & -> & _)|[H _]]]; [congruence| |exact H].
    apply int_dec_sound; [exact H|]. cbn [radix_eqb andb] in Ho. exact Ho.
Qed.

(* ------------------------------------------------------------ soundness *)

Lemma scan_digits_valid v c l : v c = true -> v 95 = false ->
  scan_digits v true (c :: l) = c :: scan_digits v true l.
Proof. intros Hc Hv. cbn [scan_digits]. rewrite (v_ne v Hv c Hc), Hc. reflexivity. Qed.

Lemma len_ne (ep : str) : ep <> [] -> negb (Nat.eqb (length ep) 0) = true.
Proof. destruct ep; [congruence|reflexivity]. Qed.

Lemma exp_r10 r2 ep : ExpOK r2 ep -> is_p (hd_error r2) = false ->
  ep = [] \/ (ep <> [] /\ Matches decimal_exponent ep).
Proof. intros [(H & _)|[(H1 & H2 & H3)|(H1 & H2 & H3)]] Hp; auto; congruence. Qed.

Lemma exp_r16 r2 ep : ExpOK r2 ep -> is_e (hd_error r2) = false ->
  ep = [] \/ (ep <> [] /\ Matches hex_exponent ep).
Proof. intros [(H & _)|[(H1 & H2 & H3)|(H1 & H2 & H3)]] Hp; auto; congruence. Qed.

Lemma exp_none r2 ep : ExpOK r2 ep -> is_e (hd_error r2) = false -> is_p (hd_error r2) = false ->
  ep = [].
Proof. intros [(H & _)|[(H1 & H2 & H3)|(H1 & H2 & H3)]] He Hp; auto; congruence. Qed.

Lemma last_tail v pre l :
  v 95 = false -> pre <> [] -> last_is 95 (pre ++ scan_digits v true l) = false ->
  Tail v (scan_digits v true l).
Proof.
  intros Hv Hp H. destruct (scan_digits v true l) as [|x d] eqn:E; [constructor|].
  rewrite <- E. apply scan_tail_true; [exact Hv|]. rewrite E.
  rewrite last_is_app in H by discriminate. exact H.
Qed.

Lemma phaseB_sound l rdx numlit r1 k s :
  IntShape l rdx numlit -> l = numlit ++ r1 ->
  phaseB rdx numlit r1 = inl (k, s) -> NumLit k s.
Proof.
  intros HS Hl HB.
  apply phaseB_inl in HB as (Hlast & Hdot & Hfac & HC).
  apply phaseC_inl in HC as (Hm & Hc1 & Hc2 & Hc3 & Hfin).
  pose proof (finish_inl _ _ _ _ _ _ _ Hfin) as (Hf1 & Hf2 & Hf3 & _).
  apply fac_shape in Hfac.
  pose proof (exp_sound _ Hf2 Hf3) as Hexp.
  eapply classify; [exact Hfin|]. clear Hfin Hf2 Hf3.
  set (r2 := skipn (length (fac_of rdx r1)) r1) in *.
  set (ep := exp_of r2) in *. clearbody ep. clearbody r2.
  destruct HS as [c1 l2 El Hc|c0 l1 El Hc Hnp|c1 l2 El Hc|c1 l2 El Hc|c1 l2 El Hc].
  - (* .5 *)
    subst l. simpl in Hl. subst r1.
    destruct Hfac as [[_ Hh]|(d2 & Ef & _ & Ed & Hd)]; [discriminate Hh|].
    rewrite Ef in *.
    assert (Hne : d2 <> []).
    { rewrite Ed. cbn [tl fdig radix_eqb]. rewrite scan_digits_valid by auto. discriminate. }
    destruct Hd as [Hd|Hd]; [contradiction|].
    cbn [radix_eqb negb andb] in Hc3.
    left. split; [|reflexivity]. cbn [app].
    apply (float_dec_3 d2 ep); [exact Hd|].
    destruct (exp_r10 _ _ Hexp Hc3) as [H|[_ H]]; auto.
  - (* decimal digits *)
    remember (scan_digits is_decimal_digit true l1) as d eqn:Ed.
    assert (HD : Matches decimal_digits (c0 :: d)).
    { apply digits_intro; [exact Hc|]. rewrite Ed.
      apply (last_tail is_decimal_digit [c0]); [reflexivity|discriminate|].
      rewrite <- Ed. exact Hlast. }
    cbn [radix_eqb negb andb] in Hc3.
    destruct Hfac as [[Ef _]|(d2 & Ef & _ & _ & Hd)]; rewrite Ef in *.
    + rewrite app_nil_r.
      destruct (exp_r10 _ _ Hexp Hc3) as [->|[Hne H]].
      * right; left. rewrite app_nil_r. split; [exact HD|]. split; [reflexivity|].
        rewrite (tail_contains is_decimal_digit (c0 :: d) 46);
          [reflexivity|apply digits_tail; exact HD|reflexivity|discriminate].
      * left. split; [apply float_dec_2; assumption|]. rewrite len_ne by exact Hne. apply orb_true_r.
    + left. split.
      * rewrite <- app_assoc. apply float_dec_1; [exact HD|exact Hd|].
        destruct (exp_r10 _ _ Hexp Hc3) as [H|[_ H]]; auto.
      * rewrite !contains_app, contains_cons. cbn. rewrite orb_true_r. reflexivity.
  - (* 0b *)
    cbn [radix_eqb orb andb negb] in *. rewrite andb_true_r in Hdot.
    destruct Hfac as [[Ef _]|(d2 & _ & Hh & _)]; [|congruence]. rewrite Ef in *.
    remember (scan_digits is_binary_digit true l2) as d eqn:Ed.
    assert (Ht : Tail is_binary_digit d).
    { rewrite Ed. apply (last_tail is_binary_digit [48; c1]); [reflexivity|discriminate|].
      rewrite <- Ed. exact Hlast. }
    assert (Hne : d <> []) by (intro E; rewrite E in Hc1; discriminate Hc1).
    rewrite (exp_none _ _ Hexp Hc2 Hc3). right; right. rewrite !app_nil_r.
    split; [apply int_bin; assumption|].
    rewrite !contains_cons, (tail_contains is_binary_digit d 46) by first [assumption|reflexivity|discriminate].
    destruct Hc as [->| ->]; reflexivity.
  - (* 0o *)
    cbn [radix_eqb orb andb negb] in *. rewrite andb_true_r in Hdot.
    destruct Hfac as [[Ef _]|(d2 & _ & Hh & _)]; [|congruence]. rewrite Ef in *.
    remember (scan_digits is_octal_digit true l2) as d eqn:Ed.
    assert (Ht : Tail is_octal_digit d).
    { rewrite Ed. apply (last_tail is_octal_digit [48; c1]); [reflexivity|discriminate|].
      rewrite <- Ed. exact Hlast. }
    assert (Hne : d <> []) by (intro E; rewrite E in Hc1; discriminate Hc1).
    rewrite (exp_none _ _ Hexp Hc2 Hc3). right; right. rewrite !app_nil_r.
    split; [apply int_oct; assumption|].
    rewrite !contains_cons, (tail_contains is_octal_digit d 46) by first [assumption|reflexivity|discriminate].
    destruct Hc as [->| ->]; reflexivity.
  - (* 0x *)
    cbn [radix_eqb orb andb negb] in *.
    remember (scan_digits is_hex_digit true l2) as d eqn:Ed.
    assert (Ht : Tail is_hex_digit d).
    { rewrite Ed. apply (last_tail is_hex_digit [48; c1]); [reflexivity|discriminate|].
      rewrite <- Ed. exact Hlast. }
    destruct Hfac as [[Ef _]|(d2 & Ef & _ & _ & Hd)]; rewrite Ef in *.
    + assert (Hne : d <> []) by (intro E; rewrite E in Hc1; discriminate Hc1).
      rewrite app_nil_r.
      destruct (exp_r16 _ _ Hexp Hc2) as [->|[Hne' H]].
      * right; right. rewrite app_nil_r. split; [apply int_hex; assumption|].
        rewrite !contains_cons, (tail_contains is_hex_digit d 46) by first [assumption|reflexivity|discriminate].
        destruct Hc as [->| ->]; reflexivity.
      * left. rewrite len_ne by exact Hne'. split; [|apply orb_true_r].
        cbn [app]. apply hex_float_intro; [exact Hc| |exact H]. apply mant_2; assumption.
    + destruct (exp_r16 _ _ Hexp Hc2) as [->|[Hne' H]]; [discriminate Hf1|].
      left. rewrite len_ne by exact Hne'. split; [|apply orb_true_r].
      cbn [app]. apply hex_float_intro; [exact Hc| |exact H].
      destruct d as [|x d].
      * cbn [app]. apply mant_3. destruct Hd as [->|Hd]; [discriminate Hc1|exact Hd].
      * apply mant_1; [exact Ht|discriminate|exact Hd].
Qed.

Lemma phaseB_prefix rdx numlit r1 k s :
  phaseB rdx numlit r1 = inl (k, s) -> exists rest, numlit ++ r1 = s ++ rest.
Proof.
  intros HB.
  apply phaseB_inl in HB as (_ & _ & _ & HC).
  apply phaseC_inl in HC as (_ & _ & _ & _ & Hfin).
  apply finish_inl in Hfin as (_ & _ & _ & Hfin).
  destruct (fac_of_prefix rdx r1) as (r2 & Hr2).
  rewrite (skipn_of_eq _ _ _ Hr2) in Hfin.
  destruct (exp_of_prefix r2) as (r3 & Hr3).
  rewrite (skipn_of_eq _ _ _ Hr3) in Hfin.
  assert (E : numlit ++ r1 = ((numlit ++ fac_of rdx r1) ++ exp_of r2) ++ r3).
  { rewrite Hr2 at 1. rewrite Hr3 at 1. rewrite !app_assoc. reflexivity. }
  destruct Hfin as [(Hi & _ & ->)|[(_ & _ & _ & ->)|(_ & _ & _ & _ & ->)]];
    [|exists r3; exact E..].
  destruct r3 as [|c r4]; [discriminate Hi|]. cbn in Hi. apply N.eqb_eq in Hi. subst c.
  exists r4. rewrite E. rewrite <- (app_assoc _ [105]). reflexivity.
Qed.

Theorem scan_number_sound : forall l k s, num_start l ->
  scan_lit_number l = inl (k, s) -> (exists rest, l = s ++ rest) /\ NumLit k s.
Proof.
  intros l k s Hs H.
  pose proof (int_phase_cases l Hs) as HS.
  destruct (int_phase l) as [rdx numlit] eqn:Ei. cbn [fst snd] in HS.
  destruct (int_shape_prefix _ _ _ HS) as (r1 & Hl).
  rewrite (scan_eq l rdx numlit r1 Ei Hl) in H. split.
  - rewrite Hl. eapply phaseB_prefix; eauto.
  - eapply phaseB_sound; eauto.
Qed.

(* ------------------------------------------------------------ completeness: forward computation *)

(* what may follow the mantissa/exponent of a complete literal: 'i' or a delimiter *)
Definition stop3 (r : str) : Prop :=
  match r with
  | [] => True
  | c :: _ => is_hex_digit c = false /\ c <> 95 /\ c <> 46 /\ c <> 112 /\ c <> 80 /\
              c <> 111 /\ c <> 79 /\ c <> 120 /\ c <> 88
  end.

Lemma stop3_delim r : num_delim r -> stop3 r.
Proof.
  destruct r as [|c r]; [auto|]. unfold num_delim, stop3. intros (H1 & H2 & H3 & H4).
  repeat split; chr.
Qed.

Lemma stop3_i r : stop3 (105 :: r).
Proof. unfold stop3. repeat split; try reflexivity; lia. Qed.

Lemma stop3_stops v r :
  (forall c, v c = true -> is_hex_digit c = true) -> stop3 r -> stops v r.
Proof.
  intros Hv. destruct r as [|c r]; [auto|]. unfold stop3, stops. intros (H1 & H2 & _). split; [|exact H2].
  destruct (v c) eqn:E; [|reflexivity]. apply Hv in E. congruence.
Qed.

Lemma dec_hex c : is_decimal_digit c = true -> is_hex_digit c = true.
Proof. chr. Qed.
Lemma bin_hex c : is_binary_digit c = true -> is_hex_digit c = true.
Proof. chr. Qed.
Lemma oct_hex c : is_octal_digit c = true -> is_hex_digit c = true.
Proof. chr. Qed.
Lemma fdig_hex rdx c : fdig rdx c = true -> is_hex_digit c = true.
Proof. destruct rdx; cbn; chr. Qed.

Definition final (rdx : radix) (full ep : str) (next : option N) : sres (litkind * str) :=
  if next_i next then inl (LImag, full ++ [105])
  else if contains 46 full || negb (Nat.eqb (length ep) 0) then inl (LFloat, full)
  else if radix_eqb rdx R10 && Nat.ltb 1 (length full) && starts_with [48] full &&
          (contains 56 full || contains 57 full)
  then inr (N.of_nat (length full), SE_num_octal_digit)
  else inl (LInteger, full).

Lemma finish_final rdx fl mant ep next :
  (radix_eqb rdx R16 && negb (Nat.eqb fl 0) && Nat.eqb (length ep) 0) = false ->
  (starts_with [95] (exp_digs_of ep) || last_is 95 ep) = false ->
  (negb (Nat.eqb (length ep) 0) && negb (last_dec ep)) = false ->
  finish rdx fl mant ep next = final rdx (mant ++ ep) ep next.
Proof.
  intros H1 H2 H3. unfold finish, final. fold (last_dec ep). fold (next_i next).
  rewrite H1, H2, H3. reflexivity.
Qed.

Lemma tail_last_dec d : Tail is_decimal_digit d -> d <> [] -> last_dec d = true.
Proof.
  induction 1 as [|c t Hc Ht IH|c t Hc Ht IH]; intro Hne; [congruence| |].
  - destruct t as [|x t]; [exact Hc|].
    change (c :: x :: t) with ([c] ++ x :: t). rewrite last_dec_app by discriminate.
    apply IH. discriminate.
  - destruct t as [|x t]; [exact Hc|].
    change (95 :: c :: x :: t) with ([95; c] ++ x :: t). rewrite last_dec_app by discriminate.
    apply IH. discriminate.
Qed.

Lemma exp_facts a b ep :
  Matches (Seq [OneOf [a; b]; Opt sign; decimal_digits]) ep ->
  exists e sg c t, ep = e :: sg ++ c :: t /\ (e = a \/ e = b) /\
    (sg = [] \/ sg = [43] \/ sg = [45]) /\ is_decimal_digit c = true /\
    Tail is_decimal_digit t.
Proof.
  cbn [Seq]. intro H.
  apply cat_inv in H as (s1 & s2 & -> & H1 & H2).
  apply cat_inv in H2 as (s3 & s4 & -> & H3 & H4).
  apply oneof2_inv in H1. apply digits_inv in H4 as (c & t & -> & Hc & Ht).
  exists (match s1 with x :: _ => x | [] => 0 end), s3, c, t.
  split; [destruct H1 as [->| ->]; reflexivity|].
  split; [destruct H1 as [->| ->]; auto|].
  split; [|auto].
  apply opt_inv in H3 as [->|H3]; [auto|]. apply oneof2_inv in H3 as [->| ->]; auto.
Qed.

Lemma exp_checks e sg c t :
  (sg = [] \/ sg = [43] \/ sg = [45]) -> is_decimal_digit c = true -> Tail is_decimal_digit t ->
  let ep := e :: sg ++ c :: t in
  (starts_with [95] (exp_digs_of ep) || last_is 95 ep) = false /\ last_dec ep = true.
Proof.
  intros Hsg Hc Ht ep. subst ep.
  assert (Htt : Tail is_decimal_digit (c :: t)) by (constructor; assumption).
  split.
  - apply orb_false_iff. split.
    + assert (E : exp_digs_of (e :: sg ++ c :: t) = c :: t).
      { destruct Hsg as [->|[->| ->]]; cbn [app exp_digs_of]; try reflexivity.
        assert (Es : is_sign (Some c) = false) by chr. rewrite Es. reflexivity. }
      rewrite E. cbn. assert (Ec : (c =? 95) = false) by chr. rewrite Ec. reflexivity.
    + change (e :: sg ++ c :: t) with ((e :: sg) ++ c :: t). rewrite last_is_app by discriminate.
      apply (tail_last is_decimal_digit); [reflexivity|exact Htt].
  - change (e :: sg ++ c :: t) with ((e :: sg) ++ c :: t). rewrite last_dec_app by discriminate.
    apply tail_last_dec; [exact Htt|discriminate].
Qed.

Lemma exp_of_forward e sg c t r3 :
  (is_e (Some e) || is_p (Some e)) = true ->
  (sg = [] \/ sg = [43] \/ sg = [45]) -> is_decimal_digit c = true -> Tail is_decimal_digit t ->
  stops is_decimal_digit r3 ->
  exp_of ((e :: sg ++ c :: t) ++ r3) = e :: sg ++ c :: t.
Proof.
  intros He Hsg Hc Ht Hr.
  assert (Htt : Tail is_decimal_digit (c :: t)) by (constructor; assumption).
  cbn [app exp_of]. rewrite He. f_equal.
  assert (Es : sign_of ((sg ++ c :: t) ++ r3) = sg).
  { destruct Hsg as [->|[->| ->]]; cbn [app sign_of]; try reflexivity.
    assert (Es : is_sign (Some c) = false) by chr. rewrite Es. reflexivity. }
  rewrite Es. f_equal. rewrite <- app_assoc, skipn_app_len0.
  apply tail_scan; [reflexivity|exact Htt|exact Hr].
Qed.

(* decomposition of a literal (without the 'i') into the scanner's pieces *)
Definition IntPart (rdx : radix) (numlit : str) : Prop :=
  match rdx with
  | R10 => numlit = [] \/ Matches decimal_digits numlit
  | R2 => exists c1 d, numlit = 48 :: c1 :: d /\ (c1 = 98 \/ c1 = 66) /\ Tail is_binary_digit d
  | R8 => exists c1 d, numlit = 48 :: c1 :: d /\ (c1 = 111 \/ c1 = 79) /\ Tail is_octal_digit d
  | R16 => exists c1 d, numlit = 48 :: c1 :: d /\ (c1 = 120 \/ c1 = 88) /\ Tail is_hex_digit d
  end.

Definition FracPart (rdx : radix) (fac : str) : Prop :=
  fac = [] \/
  ((rdx = R10 \/ rdx = R16) /\
   exists d2, fac = 46 :: d2 /\ (d2 = [] \/ Matches (digits_of (Cls (fdig rdx))) d2)).

Definition ExpPart (rdx : radix) (ep : str) : Prop :=
  ep = [] \/ (rdx = R10 /\ Matches decimal_exponent ep) \/ (rdx = R16 /\ Matches hex_exponent ep).

Record Decomp (s : str) (rdx : radix) (numlit fac ep : str) : Prop := {
  D_eq : s = numlit ++ fac ++ ep;
  D_int : IntPart rdx numlit;
  D_fac : FracPart rdx fac;
  D_exp : ExpPart rdx ep;
  D_ne : numlit ++ fac <> [];
  D_nodig : (negb (radix_eqb rdx R10) && Nat.eqb (length numlit) 2 && Nat.leb (length fac) 1) = false;
  D_hexexp : (radix_eqb rdx R16 && negb (Nat.eqb (length fac) 0) && Nat.eqb (length ep) 0) = false
}.

Lemma stop3_hd r3 : stop3 r3 ->
  is_e (hd_error r3) = false /\ is_p (hd_error r3) = false /\ hd_is 46 r3 = false /\
  exp_of r3 = [] /\ noprefix r3.
Proof.
  destruct r3 as [|c r]; [cbn; auto|]. unfold stop3. intros (H1 & H2 & H3 & H4 & H5 & H6 & H7 & H8 & H9).
  cbn [hd_error hd_is exp_of].
  assert (E1 : is_e (Some c) = false) by chr.
  assert (E2 : is_p (Some c) = false) by chr.
  rewrite E1, E2. unfold noprefix. repeat split; try reflexivity; try lia; chr.
Qed.

Lemma fac_checks rdx fac :
  FracPart rdx fac -> (starts_with [46; 95] fac || last_is 95 fac) = false.
Proof.
  intros [->|(_ & d2 & -> & [->|Hd])]; [reflexivity|reflexivity|].
  apply digits_inv in Hd as (c & t & -> & Hc & Ht).
  apply orb_false_iff; split.
  - unfold starts_with. cbn [length firstn str_eqb].
    rewrite (v_ne (fdig rdx) (fdig_under rdx) c Hc). rewrite andb_false_r. reflexivity.
  - rewrite last_is_cons by discriminate.
    apply (tail_last (fdig rdx)); [apply fdig_under|constructor; assumption].
Qed.

Lemma fac_forward rdx fac r2 :
  FracPart rdx fac -> hd_is 46 r2 = false -> stops (fdig rdx) r2 ->
  fac_of rdx (fac ++ r2) = fac.
Proof.
  intros [->|(_ & d2 & -> & Hd)] Hh Hs; unfold fac_of.
  - cbn [app]. rewrite Hh. reflexivity.
  - cbn [app hd_is tl]. rewrite N.eqb_refl. f_equal.
    apply tail_scan; [apply fdig_under| |exact Hs].
    destruct Hd as [->|Hd]; [constructor|apply digits_tail; exact Hd].
Qed.

Lemma exp_hd (a b : N) ep :
  Matches (Seq [OneOf [a; b]; Opt sign; decimal_digits]) ep ->
  exists e t, ep = e :: t /\ (e = a \/ e = b).
Proof.
  intro H. apply exp_facts in H as (e & sg & c & t & -> & He & _). eauto.
Qed.

Lemma r2_facts rdx ep r3 v :
  ExpPart rdx ep -> stop3 r3 -> (forall c, v c = true -> fdig rdx c = true) ->
  hd_is 46 (ep ++ r3) = false /\ stops v (ep ++ r3) /\ noprefix (ep ++ r3).
Proof.
  intros He Hr Hv.
  destruct He as [->|[(-> & He)|(-> & He)]].
  - cbn [app]. destruct (stop3_hd r3 Hr) as (_ & _ & H & _ & Hn). repeat split; auto.
    apply stop3_stops; [|exact Hr]. intros c Hc. eapply fdig_hex; eauto.
  - apply exp_hd in He as (e & t & -> & He). cbn [app hd_is stops noprefix].
    assert (Hve : v e = false).
    { destruct (v e) eqn:E; [|reflexivity]. apply Hv in E. cbn in E. chr. }
    repeat split; auto; lia.
  - apply exp_hd in He as (e & t & -> & He). cbn [app hd_is stops noprefix].
    assert (Hve : v e = false).
    { destruct (v e) eqn:E; [|reflexivity]. apply Hv in E. cbn in E. chr. }
    repeat split; auto; lia.
Qed.

Lemma r1_facts rdx fac ep r3 v :
  FracPart rdx fac -> ExpPart rdx ep -> stop3 r3 -> (forall c, v c = true -> fdig rdx c = true) ->
  stops v (fac ++ ep ++ r3) /\ noprefix (fac ++ ep ++ r3).
Proof.
  intros Hf He Hr Hv. destruct Hf as [->|(_ & d2 & -> & _)].
  - cbn [app]. destruct (r2_facts rdx ep r3 v He Hr Hv) as (_ & H1 & H2). auto.
  - cbn [app stops noprefix].
    assert (Hve : v 46 = false).
    { destruct (v 46) eqn:E; [|reflexivity]. apply Hv in E. destruct rdx; discriminate E. }
    repeat split; auto; lia.
Qed.

Lemma phaseC_forward rdx nl fl mant ep r3 :
  mant <> [] ->
  (negb (radix_eqb rdx R10) && Nat.eqb nl 2 && Nat.leb fl 1) = false ->
  (radix_eqb rdx R16 && negb (Nat.eqb fl 0) && Nat.eqb (length ep) 0) = false ->
  ExpPart rdx ep -> stop3 r3 ->
  phaseC rdx nl fl mant (ep ++ r3) = final rdx (mant ++ ep) ep (hd_error r3).
Proof.
  intros Hm H1 H2 He Hr. unfold phaseC. destruct mant as [|m0 mant']; [congruence|].
  rewrite H1.
  destruct He as [->|[(-> & He)|(-> & He)]].
  - cbn [app]. destruct (stop3_hd r3 Hr) as (E1 & E2 & _ & E3 & _).
    rewrite E1, E2, !andb_false_r, E3. cbn [length skipn].
    apply finish_final; [exact H2|reflexivity|reflexivity].
  - apply exp_facts in He as (e & sg & c & t & -> & Hee & Hsg & Hc & Ht).
    cbn [radix_eqb negb andb]. change (hd_error ((e :: sg ++ c :: t) ++ r3)) with (Some e).
    assert (E2 : is_p (Some e) = false) by chr. rewrite E2.
    assert (Hs : stops is_decimal_digit r3).
    { apply stop3_stops; [apply dec_hex|exact Hr]. }
    rewrite exp_of_forward; auto; [|chr]. rewrite skipn_app_len0.
    destruct (exp_checks e sg c t Hsg Hc Ht) as [K1 K2].
    apply finish_final; [reflexivity|exact K1|]. rewrite K2. apply andb_false_r.
  - apply exp_facts in He as (e & sg & c & t & -> & Hee & Hsg & Hc & Ht).
    cbn [radix_eqb negb andb]. change (hd_error ((e :: sg ++ c :: t) ++ r3)) with (Some e).
    assert (E2 : is_e (Some e) = false) by chr. rewrite E2.
    assert (Hs : stops is_decimal_digit r3).
    { apply stop3_stops; [apply dec_hex|exact Hr]. }
    rewrite exp_of_forward; auto; [|chr]. rewrite skipn_app_len0.
    destruct (exp_checks e sg c t Hsg Hc Ht) as [K1 K2].
    apply finish_final; [exact H2|exact K1|]. rewrite K2. apply andb_false_r.
Qed.

Lemma phaseB_forward rdx numlit fac ep r3 :
  last_is 95 numlit = false ->
  FracPart rdx fac -> ExpPart rdx ep -> numlit ++ fac <> [] ->
  (negb (radix_eqb rdx R10) && Nat.eqb (length numlit) 2 && Nat.leb (length fac) 1) = false ->
  (radix_eqb rdx R16 && negb (Nat.eqb (length fac) 0) && Nat.eqb (length ep) 0) = false ->
  stop3 r3 ->
  phaseB rdx numlit (fac ++ ep ++ r3) = final rdx (numlit ++ fac ++ ep) ep (hd_error r3).
Proof.
  intros Hl Hf He Hne H1 H2 Hr. unfold phaseB. rewrite Hl.
  destruct (r2_facts rdx ep r3 (fdig rdx) He Hr (fun c H => H)) as (K1 & K2 & _).
  assert (Hdot : (hd_is 46 (fac ++ ep ++ r3) && (radix_eqb rdx R2 || radix_eqb rdx R8)) = false).
  { destruct Hf as [->|([->| ->] & _)]; [|apply andb_false_r..].
    cbn [app]. rewrite K1. reflexivity. }
  rewrite Hdot. cbv zeta. rewrite (fac_forward rdx fac (ep ++ r3) Hf K1 K2).
  rewrite (fac_checks rdx fac Hf). rewrite skipn_app_len0.
  rewrite phaseC_forward by assumption. rewrite app_assoc. reflexivity.
Qed.

Lemma prefixed_last v c1 d :
  v 95 = false -> c1 <> 95 -> Tail v d -> last_is 95 (48 :: c1 :: d) = false.
Proof.
  intros Hv Hc Ht. destruct d as [|x d].
  - rewrite last_is_cons by discriminate. rewrite last_is_single. lia.
  - rewrite !last_is_cons by discriminate. apply (tail_last v); assumption.
Qed.

Lemma intpart_last rdx numlit : IntPart rdx numlit -> last_is 95 numlit = false.
Proof.
  destruct rdx; cbn [IntPart].
  - intros (c1 & d & -> & Hc & Ht). apply (prefixed_last is_binary_digit); auto. lia.
  - intros (c1 & d & -> & Hc & Ht). apply (prefixed_last is_octal_digit); auto. lia.
  - intros [->|H]; [reflexivity|]. apply (tail_last is_decimal_digit); [reflexivity|].
    apply digits_tail. exact H.
  - intros (c1 & d & -> & Hc & Ht). apply (prefixed_last is_hex_digit); auto. lia.
Qed.

Lemma decomp_int_phase rdx numlit fac ep r3 :
  IntPart rdx numlit -> FracPart rdx fac -> ExpPart rdx ep -> numlit ++ fac <> [] -> stop3 r3 ->
  int_phase (numlit ++ fac ++ ep ++ r3) = (rdx, numlit).
Proof.
  intros Hi Hf He Hne Hr.
  pose proof (r1_facts rdx fac ep r3) as HR.
  destruct rdx; cbn [IntPart] in Hi.
  - destruct Hi as (c1 & d & -> & Hc & Ht).
    destruct (HR is_binary_digit Hf He Hr) as [Hs _]; [intros c Hc'; cbn; chr|].
    destruct Hc as [->| ->]; cbn [app].
    + transitivity (R2, 48 :: 98 :: scan_digits is_binary_digit true (d ++ fac ++ ep ++ r3));
        [reflexivity|]. rewrite tail_scan by auto. reflexivity.
    + transitivity (R2, 48 :: 66 :: scan_digits is_binary_digit true (d ++ fac ++ ep ++ r3));
        [reflexivity|]. rewrite tail_scan by auto. reflexivity.
  - destruct Hi as (c1 & d & -> & Hc & Ht).
    destruct (HR is_octal_digit Hf He Hr) as [Hs _]; [intros c Hc'; cbn; chr|].
    destruct Hc as [->| ->]; cbn [app].
    + transitivity (R8, 48 :: 111 :: scan_digits is_octal_digit true (d ++ fac ++ ep ++ r3));
        [reflexivity|]. rewrite tail_scan by auto. reflexivity.
    + transitivity (R8, 48 :: 79 :: scan_digits is_octal_digit true (d ++ fac ++ ep ++ r3));
        [reflexivity|]. rewrite tail_scan by auto. reflexivity.
  - destruct (HR is_decimal_digit Hf He Hr) as [Hs Hn]; [auto|].
    destruct Hi as [->|Hi].
    + destruct Hf as [->|(_ & d2 & -> & _)]; [contradiction Hne; reflexivity|]. reflexivity.
    + apply digits_inv in Hi as (c0 & t & -> & Hc & Ht). cbn [app].
      rewrite int_phase_dec; [rewrite tail_scan by auto; reflexivity|exact Hc|].
      intros _. destruct t as [|x t]; [exact Hn|].
      assert (Hx : is_decimal_digit x = true \/ x = 95)
        by (eapply tail_all; eauto; left; reflexivity).
      cbn [app noprefix]. repeat split; chr.
  - destruct Hi as (c1 & d & -> & Hc & Ht).
    destruct (HR is_hex_digit Hf He Hr) as [Hs _]; [auto|].
    destruct Hc as [->| ->]; cbn [app].
    + transitivity (R16, 48 :: 120 :: scan_digits is_hex_digit true (d ++ fac ++ ep ++ r3));
        [reflexivity|]. rewrite tail_scan by auto. reflexivity.
    + transitivity (R16, 48 :: 88 :: scan_digits is_hex_digit true (d ++ fac ++ ep ++ r3));
        [reflexivity|]. rewrite tail_scan by auto. reflexivity.
Qed.

Lemma decomp_scan s rdx numlit fac ep r3 :
  Decomp s rdx numlit fac ep -> stop3 r3 ->
  scan_lit_number (s ++ r3) = final rdx s ep (hd_error r3).
Proof.
  intros [Heq Hi Hf He Hne H1 H2] Hr.
  assert (Hl : last_is 95 numlit = false) by (eapply intpart_last; eauto).
  assert (E : s ++ r3 = numlit ++ fac ++ ep ++ r3) by (subst s; rewrite <- !app_assoc; reflexivity).
  rewrite (scan_eq (s ++ r3) rdx numlit (fac ++ ep ++ r3)).
  - rewrite phaseB_forward by assumption. rewrite Heq. reflexivity.
  - rewrite E. apply decomp_int_phase; assumption.
  - exact E.
Qed.

(* ------------------------------------------------------------ completeness: decomposing the grammar *)

Ltac unfold_digits H :=
  unfold decimal_digits, binary_digits, octal_digits, hex_digits,
    decimal_digit, binary_digit, octal_digit, hex_digit in H.

Lemma dd_decomp s : Matches decimal_digits s -> Decomp s R10 s [] [].
Proof.
  intro H. constructor; try reflexivity.
  - rewrite !app_nil_r. reflexivity.
  - right. exact H.
  - left. reflexivity.
  - left. reflexivity.
  - apply digits_inv in H as (c & t & -> & _). discriminate.
Qed.

Lemma prefixed_decomp rdx c1 d :
  IntPart rdx (48 :: c1 :: d) -> rdx <> R10 -> d <> [] ->
  Decomp (48 :: c1 :: d) rdx (48 :: c1 :: d) [] [].
Proof.
  intros Hi Hr Hd. constructor.
  - rewrite !app_nil_r. reflexivity.
  - exact Hi.
  - left. reflexivity.
  - left. reflexivity.
  - discriminate.
  - destruct d; [congruence|]. cbn. rewrite andb_false_r. reflexivity.
  - cbn. rewrite andb_false_r. reflexivity.
Qed.

Lemma oct_dec c : is_octal_digit c = true -> is_decimal_digit c = true.
Proof. chr. Qed.

Lemma prefixed_nodot v c1 d :
  Tail v d -> v 46 = false -> c1 <> 46 -> contains 46 (48 :: c1 :: d) = false.
Proof.
  intros Ht Hv Hc. rewrite !contains_cons, (tail_contains v d 46 Ht Hv) by lia.
  assert (E : (46 =? c1) = false) by lia. rewrite E. reflexivity.
Qed.

Lemma int_decomp s :
  Matches int_lit s ->
  exists rdx numlit, Decomp s rdx numlit [] [] /\ contains 46 s = false /\
    (radix_eqb rdx R10 && Nat.ltb 1 (length s) && starts_with [48] s &&
     (contains 56 s || contains 57 s)) = false.
Proof.
  unfold int_lit. cbn [Any]. intro H.
  apply alt_inv in H as [H|H]; [|apply alt_inv in H as [H|H]; [|apply alt_inv in H as [H|H]]].
  - (* decimal_lit *)
    unfold decimal_lit in H. unfold_digits H. apply alt_inv in H as [H|H].
    + apply chr_inv in H. subst s. exists R10, [48]. split; [|split; reflexivity].
      apply dd_decomp. apply (digits_intro is_decimal_digit); [reflexivity|constructor].
    + apply cat_inv in H as (s1 & s2 & -> & H1 & H2).
      apply cls_inv in H1 as (c & -> & Hc).
      assert (Ht : Tail is_decimal_digit s2).
      { apply opt_inv in H2 as [->|H2]; [constructor|]. apply udigits_inv in H2. tauto. }
      assert (HD : Matches decimal_digits ([c] ++ s2)).
      { apply (digits_intro is_decimal_digit); [chr|exact Ht]. }
      exists R10, ([c] ++ s2). split; [apply dd_decomp; exact HD|]. split.
      * apply (tail_contains is_decimal_digit); [apply digits_tail; exact HD|reflexivity|lia].
      * unfold starts_with. cbn [app length firstn str_eqb].
        assert (E : (c =? 48) = false) by lia. rewrite E. cbn [andb].
        rewrite andb_false_r. reflexivity.
  - (* binary_lit *)
    unfold binary_lit in H. cbn [Seq] in H. unfold_digits H.
    apply cat_inv in H as (s1 & s2 & -> & H1 & H2). apply chr_inv in H1. subst s1.
    apply cat_inv in H2 as (s1 & s3 & -> & H1 & H3).
    apply udigits_inv in H3 as [Ht Hne].
    assert (exists c1, s1 = [c1] /\ (c1 = 98 \/ c1 = 66)) as (c1 & -> & Hc).
    { apply oneof2_inv in H1 as [->| ->]; eauto. }
    cbn [app]. exists R2, (48 :: c1 :: s3). split; [|split; [|reflexivity]].
    + apply prefixed_decomp; [|discriminate|exact Hne]. cbn [IntPart]. eauto 6.
    + apply (prefixed_nodot is_binary_digit); [exact Ht|reflexivity|lia].
  - (* octal_lit *)
    unfold octal_lit in H. cbn [Seq] in H. unfold_digits H.
    apply cat_inv in H as (s1 & s2 & -> & H1 & H2). apply chr_inv in H1. subst s1.
    apply cat_inv in H2 as (s1 & s3 & -> & H1 & H3).
    apply udigits_inv in H3 as [Ht Hne].
    apply opt_inv in H1 as [->|H1].
    + (* no letter: the scanner sees decimal digits *)
      cbn [app].
      assert (Htd : Tail is_decimal_digit s3) by (eapply tail_mono; [apply oct_dec|exact Ht]).
      assert (HD : Matches decimal_digits (48 :: s3)).
      { apply (digits_intro is_decimal_digit); [reflexivity|exact Htd]. }
      exists R10, (48 :: s3). split; [apply dd_decomp; exact HD|]. split.
      * apply (tail_contains is_decimal_digit); [apply digits_tail; exact HD|reflexivity|lia].
      * rewrite !contains_cons.
        rewrite (tail_contains is_octal_digit s3 56 Ht) by (reflexivity || lia).
        rewrite (tail_contains is_octal_digit s3 57 Ht) by (reflexivity || lia).
        cbn. apply andb_false_r.
    + assert (exists c1, s1 = [c1] /\ (c1 = 111 \/ c1 = 79)) as (c1 & -> & Hc).
      { apply oneof2_inv in H1 as [->| ->]; eauto. }
      cbn [app]. exists R8, (48 :: c1 :: s3). split; [|split; [|reflexivity]].
      * apply prefixed_decomp; [|discriminate|exact Hne]. cbn [IntPart]. eauto 6.
      * apply (prefixed_nodot is_octal_digit); [exact Ht|reflexivity|lia].
  - (* hex_lit *)
    unfold hex_lit in H. cbn [Seq] in H. unfold_digits H.
    apply cat_inv in H as (s1 & s2 & -> & H1 & H2). apply chr_inv in H1. subst s1.
    apply cat_inv in H2 as (s1 & s3 & -> & H1 & H3).
    apply udigits_inv in H3 as [Ht Hne].
    assert (exists c1, s1 = [c1] /\ (c1 = 120 \/ c1 = 88)) as (c1 & -> & Hc).
    { apply oneof2_inv in H1 as [->| ->]; eauto. }
    cbn [app]. exists R16, (48 :: c1 :: s3). split; [|split; [|reflexivity]].
    + apply prefixed_decomp; [|discriminate|exact Hne]. cbn [IntPart]. eauto 6.
    + apply (prefixed_nodot is_hex_digit); [exact Ht|reflexivity|lia].
Qed.

Lemma contains_mid c a b : contains c (a ++ c :: b) = true.
Proof. rewrite contains_app, contains_cons, N.eqb_refl. apply orb_true_r. Qed.

Lemma dec_decomp numlit fac ep :
  numlit = [] \/ Matches decimal_digits numlit -> FracPart R10 fac -> ExpPart R10 ep ->
  numlit ++ fac <> [] -> Decomp (numlit ++ fac ++ ep) R10 numlit fac ep.
Proof. intros. constructor; auto. Qed.

Lemma hex_decomp c1 d fac E :
  c1 = 120 \/ c1 = 88 -> Tail is_hex_digit d -> FracPart R16 fac -> Matches hex_exponent E ->
  (d = [] -> exists c t, fac = 46 :: c :: t) ->
  Decomp (48 :: c1 :: d ++ fac ++ E) R16 (48 :: c1 :: d) fac E.
Proof.
  intros Hc Ht Hf He Hd. constructor.
  - reflexivity.
  - cbn [IntPart]. eauto 6.
  - exact Hf.
  - right; right. auto.
  - discriminate.
  - destruct d as [|x d]; [|reflexivity]. destruct (Hd eq_refl) as (c & t & ->). reflexivity.
  - apply exp_hd in He as (e & t & -> & _). cbn. apply andb_false_r.
Qed.

Lemma float_decomp s :
  Matches float_lit s ->
  exists rdx numlit fac ep, Decomp s rdx numlit fac ep /\
    (contains 46 s || negb (Nat.eqb (length ep) 0)) = true.
Proof.
  intro H. apply alt_inv in H as [H|H].
  - unfold decimal_float_lit in H. cbn [Any Seq] in H.
    apply alt_inv in H as [H|H]; [|apply alt_inv in H as [H|H]].
    + apply cat_inv in H as (D & s2 & -> & HD & H).
      apply cat_inv in H as (s1 & s3 & -> & H1 & H). apply chr_inv in H1. subst s1.
      apply cat_inv in H as (od & oe & -> & Hod & Hoe).
      apply opt_inv in Hod. apply opt_inv in Hoe.
      exists R10, D, (46 :: od), oe. split.
      * apply (dec_decomp D (46 :: od) oe); [auto| | |].
        -- right. split; [auto|]. exists od. auto.
        -- destruct Hoe as [->|Hoe]; [left; reflexivity|right; left; auto].
        -- intro E. apply app_eq_nil in E as [_ E]. discriminate.
      * cbn [app]. rewrite contains_mid. reflexivity.
    + apply cat_inv in H as (D & E & -> & HD & HE).
      exists R10, D, [], E. split.
      * apply (dec_decomp D [] E); [auto|left; reflexivity|right; left; auto|].
        rewrite app_nil_r. apply digits_inv in HD as (c & t & -> & _). discriminate.
      * apply exp_hd in HE as (e & t & -> & _). apply orb_true_r.
    + apply cat_inv in H as (s1 & s2 & -> & H1 & H). apply chr_inv in H1. subst s1.
      apply cat_inv in H as (D & oe & -> & HD & Hoe). apply opt_inv in Hoe.
      exists R10, [], (46 :: D), oe. split.
      * apply (dec_decomp [] (46 :: D) oe); [auto| | |discriminate].
        -- right. split; [auto|]. exists D. auto.
        -- destruct Hoe as [->|Hoe]; [left; reflexivity|right; left; auto].
      * reflexivity.
  - unfold hex_float_lit in H. cbn [Seq] in H.
    apply cat_inv in H as (s0 & s2 & -> & H0 & H). apply chr_inv in H0. subst s0.
    apply cat_inv in H as (s1 & s5 & -> & H1 & H).
    assert (exists c1, s1 = [c1] /\ (c1 = 120 \/ c1 = 88)) as (c1 & -> & Hc).
    { apply oneof2_inv in H1 as [->| ->]; eauto. }
    apply cat_inv in H as (m & E & -> & Hm & HE).
    assert (Hor : forall x, (x || negb (Nat.eqb (length E) 0)) = true).
    { intro x. pose proof HE as HE'. apply exp_hd in HE' as (e & t & -> & _). apply orb_true_r. }
    unfold hex_mantissa in Hm. cbn [Any Seq] in Hm. unfold_digits Hm.
    apply alt_inv in Hm as [Hm|Hm]; [|apply alt_inv in Hm as [Hm|Hm]].
    + apply cat_inv in Hm as (u & s6 & -> & Hu & Hm).
      apply cat_inv in Hm as (hd & s3 & -> & Hhd & Hm).
      apply cat_inv in Hm as (s4 & ohd & -> & H4 & Hohd). apply chr_inv in H4. subst s4.
      apply opt_inv in Hohd.
      assert (Hud : Tail is_hex_digit (u ++ hd) /\ u ++ hd <> []).
      { apply udigits_inv. constructor; assumption. }
      destruct Hud as [Ht Hne].
      exists R16, (48 :: c1 :: u ++ hd), (46 :: ohd), E. split; [|apply Hor].
      replace ([48] ++ [c1] ++ (u ++ hd ++ [46] ++ ohd) ++ E)
        with (48 :: c1 :: (u ++ hd) ++ (46 :: ohd) ++ E)
        by (cbn [app]; rewrite <- !app_assoc; reflexivity).
      apply hex_decomp; auto.
      * right. split; [auto|]. exists ohd. auto.
      * intro. contradiction.
    + apply udigits_inv in Hm as [Ht Hne].
      exists R16, (48 :: c1 :: m), [], E. split; [|apply Hor].
      change ([48] ++ [c1] ++ m ++ E) with (48 :: c1 :: m ++ [] ++ E).
      apply hex_decomp; auto; [left; reflexivity|intro; contradiction].
    + apply cat_inv in Hm as (s4 & hd & -> & H4 & Hhd). apply chr_inv in H4. subst s4.
      exists R16, [48; c1], (46 :: hd), E. split; [|apply Hor].
      change ([48] ++ [c1] ++ ([46] ++ hd) ++ E) with (48 :: c1 :: [] ++ (46 :: hd) ++ E).
      apply hex_decomp; auto; [constructor| |].
      * right. split; [auto|]. exists hd. auto.
      * intros _. apply digits_inv in Hhd as (c & t & -> & _). eauto.
Qed.

(* ------------------------------------------------------------ completeness *)

Lemma delim_not_i rest : num_delim rest -> next_i (hd_error rest) = false.
Proof.
  destruct rest as [|c r]; [reflexivity|]. unfold num_delim. cbn [hd_error next_i].
  intros (H1 & H2 & _). chr.
Qed.

Lemma imag_decomp s0 :
  Matches (Any [decimal_digits; int_lit; float_lit]) s0 ->
  exists rdx numlit fac ep, Decomp s0 rdx numlit fac ep.
Proof.
  cbn [Any]. intro H. apply alt_inv in H as [H|H]; [|apply alt_inv in H as [H|H]].
  - exists R10, s0, [], []. apply dd_decomp. exact H.
  - apply int_decomp in H as (rdx & numlit & HD & _). eauto.
  - apply float_decomp in H as (rdx & numlit & fac & ep & HD & _). eauto.
Qed.

Theorem scan_number_complete : forall k s rest,
  NumLit k s -> num_delim rest -> scan_lit_number (s ++ rest) = inl (k, s).
Proof.
  intros k s rest HN Hd.
  pose proof (stop3_delim rest Hd) as Hr. pose proof (delim_not_i rest Hd) as Hi.
  destruct k; cbn [NumLit] in HN; try contradiction.
  - apply int_decomp in HN as (rdx & numlit & HD & Hc & Ho).
    rewrite (decomp_scan _ _ _ _ _ _ HD Hr). unfold final. rewrite Hi, Hc.
    cbn [length Nat.eqb negb orb]. rewrite Ho. reflexivity.
  - apply float_decomp in HN as (rdx & numlit & fac & ep & HD & Hc).
    rewrite (decomp_scan _ _ _ _ _ _ HD Hr). unfold final. rewrite Hi, Hc. reflexivity.
  - unfold imaginary_lit in HN. apply cat_inv in HN as (s0 & s1 & -> & H0 & H1).
    apply chr_inv in H1. subst s1.
    apply imag_decomp in H0 as (rdx & numlit & fac & ep & HD).
    rewrite <- app_assoc. cbn [app].
    rewrite (decomp_scan _ _ _ _ _ _ HD (stop3_i rest)). reflexivity.
Qed.

Lemma numlit_num_start k s rest : NumLit k s -> num_start (s ++ rest).
Proof.
  assert (Hdd : forall s r, Matches decimal_digits s -> num_start (s ++ r)).
  { intros s0 r H. apply digits_inv in H as (c & t & -> & Hc & _).
    unfold num_start. cbn [app num_startb]. rewrite Hc. reflexivity. }
  assert (Hint : forall s r, Matches int_lit s -> num_start (s ++ r)).
  { intros s0 r H. apply int_decomp in H as (rdx & numlit & [Heq Hi _ _ Hne _ _] & _).
    rewrite !app_nil_r in Heq. subst numlit.
    destruct rdx; cbn [IntPart] in Hi.
    - destruct Hi as (c1 & d & -> & _). reflexivity.
    - destruct Hi as (c1 & d & -> & _). reflexivity.
    - destruct Hi as [->|Hi]; [|apply Hdd; exact Hi].
      (* excluded: an int_lit is not empty *) exfalso. apply Hne. reflexivity.
    - destruct Hi as (c1 & d & -> & _). reflexivity. }
  assert (Hfl : forall s r, Matches float_lit s -> num_start (s ++ r)).
  { intros s0 r H. apply alt_inv in H as [H|H].
    - unfold decimal_float_lit in H. cbn [Any Seq] in H.
      apply alt_inv in H as [H|H]; [|apply alt_inv in H as [H|H]].
      + apply cat_inv in H as (D & s2 & -> & HD & _). rewrite <- app_assoc. apply Hdd. exact HD.
      + apply cat_inv in H as (D & s2 & -> & HD & _). rewrite <- app_assoc. apply Hdd. exact HD.
      + apply cat_inv in H as (s1 & s2 & -> & H1 & H). apply chr_inv in H1. subst s1.
        apply cat_inv in H as (D & oe & -> & HD & _).
        apply digits_inv in HD as (c & t & -> & Hc & _).
        unfold num_start. cbn [app num_startb]. rewrite Hc. reflexivity.
    - unfold hex_float_lit in H. cbn [Seq] in H.
      apply cat_inv in H as (s1 & s2 & -> & H1 & _). apply chr_inv in H1. subst s1. reflexivity. }
  destruct k; cbn [NumLit]; try contradiction; auto.
  unfold imaginary_lit. intro H. apply cat_inv in H as (s0 & s1 & -> & H0 & _).
  rewrite <- app_assoc. cbn [Any] in H0.
  apply alt_inv in H0 as [H0|H0]; [auto|]. apply alt_inv in H0 as [H0|H0]; auto.
Qed.

Theorem scan_number_iff : forall k s rest, num_delim rest ->
  (num_start (s ++ rest) /\ scan_lit_number (s ++ rest) = inl (k, s) <-> NumLit k s).
Proof.
  intros k s rest Hd. split.
  - intros [Hs H]. apply (scan_number_sound _ _ _ Hs H).
  - intro H. split; [eapply numlit_num_start; eauto|apply scan_number_complete; assumption].
Qed.

(* the guarded form: under the call-site guard the scanner decides NumLit *)
Theorem scan_number_iff' : forall k s rest, num_start (s ++ rest) -> num_delim rest ->
  (scan_lit_number (s ++ rest) = inl (k, s) <-> NumLit k s).
Proof.
  intros k s rest Hs Hd. split.
  - intro H. apply (scan_number_sound _ _ _ Hs H).
  - intro H. apply scan_number_complete; assumption.
Qed.

Theorem numlit_kind_unique : forall k k' s, NumLit k s -> NumLit k' s -> k = k'.
Proof.
  intros k k' s H H'.
  pose proof (scan_number_complete k s [] H I) as E.
  pose proof (scan_number_complete k' s [] H' I) as E'.
  rewrite E in E'. congruence.
Qed.

Theorem numlit_kind_complete : forall k s, NumLit k s -> numlit_kind s = Some k.
Proof.
  intros k s H. unfold numlit_kind.
  destruct (matches int_lit s) eqn:E1.
  { apply matches_iff in E1. f_equal. apply (numlit_kind_unique LInteger k s); auto. }
  destruct (matches float_lit s) eqn:E2.
  { apply matches_iff in E2. f_equal. apply (numlit_kind_unique LFloat k s); auto. }
  destruct (matches imaginary_lit s) eqn:E3.
  { apply matches_iff in E3. f_equal. apply (numlit_kind_unique LImag k s); auto. }
  exfalso. destruct k; cbn [NumLit] in H; try contradiction;
    apply matches_iff in H; congruence.
Qed.

(* ------------------------------------------------------------ longest match *)

Lemma tail_scan_app v t x :
  v 95 = false -> Tail v t -> scan_digits v true (t ++ x) = t ++ scan_digits v true x.
Proof.
  intros Hv. induction 1 as [|c t Hc Ht IH|c t Hc Ht IH].
  - reflexivity.
  - cbn [app]. rewrite scan_digits_valid by assumption. rewrite IH. reflexivity.
  - cbn [app scan_digits]. rewrite (v_ne v Hv c Hc), Hc. cbn. rewrite IH. reflexivity.
Qed.

Lemma phaseB_shape rdx numlit r1 k s :
  phaseB rdx numlit r1 = inl (k, s) ->
  s = (numlit ++ fac_of rdx r1 ++ exp_of (skipn (length (fac_of rdx r1)) r1)) ++
      (if next_i (hd_error (skipn (length (exp_of (skipn (length (fac_of rdx r1)) r1)))
                                 (skipn (length (fac_of rdx r1)) r1)))
       then [105] else []).
Proof.
  intros HB.
  apply phaseB_inl in HB as (_ & _ & _ & HC).
  apply phaseC_inl in HC as (_ & _ & _ & _ & Hfin).
  apply finish_inl in Hfin as (_ & _ & _ & Hfin).
  destruct Hfin as [(Hi & _ & ->)|[(Hi & _ & _ & ->)|(Hi & _ & _ & _ & ->)]]; rewrite Hi;
    rewrite <- ?app_assoc, ?app_nil_r; reflexivity.
Qed.

Lemma fac_mono rdx fac x2 :
  FracPart rdx fac ->
  exists y2, fac_of rdx (fac ++ x2) = fac ++ y2 /\
    (hd_is 46 x2 = false -> stops (fdig rdx) x2 -> y2 = []).
Proof.
  intros [->|(_ & d2 & -> & Hd)].
  - exists (fac_of rdx x2). split; [reflexivity|]. intros Hh _. unfold fac_of. rewrite Hh. reflexivity.
  - exists (scan_digits (fdig rdx) true x2). split.
    + unfold fac_of. cbn [app hd_is tl]. rewrite N.eqb_refl.
      rewrite tail_scan_app; [reflexivity|apply fdig_under|].
      destruct Hd as [->|Hd]; [constructor|apply digits_tail; exact Hd].
    + intros _ Hs. apply scan_stops. exact Hs.
Qed.

Lemma exp_of_app e sg c t x3 :
  (is_e (Some e) || is_p (Some e)) = true ->
  (sg = [] \/ sg = [43] \/ sg = [45]) -> is_decimal_digit c = true -> Tail is_decimal_digit t ->
  exp_of ((e :: sg ++ c :: t) ++ x3) = (e :: sg ++ c :: t) ++ scan_digits is_decimal_digit true x3.
Proof.
  intros He Hsg Hc Ht.
  assert (Htt : Tail is_decimal_digit (c :: t)) by (constructor; assumption).
  cbn [app exp_of]. rewrite He. f_equal.
  assert (Es : sign_of ((sg ++ c :: t) ++ x3) = sg).
  { destruct Hsg as [->|[->| ->]]; cbn [app sign_of]; try reflexivity.
    assert (Es : is_sign (Some c) = false) by chr. rewrite Es. reflexivity. }
  rewrite Es. rewrite <- !app_assoc. f_equal. rewrite skipn_app_len0.
  apply tail_scan_app; [reflexivity|exact Htt].
Qed.

Lemma exp_mono rdx ep x3 :
  ExpPart rdx ep -> ep <> [] ->
  exp_of (ep ++ x3) = ep ++ scan_digits is_decimal_digit true x3.
Proof.
  intros [->|[(-> & He)|(-> & He)]] Hne; [congruence| |].
  - apply exp_facts in He as (e & sg & c & t & -> & Hee & Hsg & Hc & Ht).
    apply exp_of_app; auto. chr.
  - apply exp_facts in He as (e & sg & c & t & -> & Hee & Hsg & Hc & Ht).
    apply exp_of_app; auto. chr.
Qed.

Lemma exp_forcing rdx ep r v :
  ExpPart rdx ep -> ep <> [] -> (forall c, v c = true -> fdig rdx c = true) ->
  hd_is 46 (ep ++ r) = false /\ stops v (ep ++ r) /\ noprefix (ep ++ r).
Proof.
  intros [->|[(-> & He)|(-> & He)]] Hne Hv; [congruence| |].
  - apply exp_hd in He as (e & t & -> & He). cbn [app hd_is stops noprefix].
    assert (Hve : v e = false).
    { destruct (v e) eqn:E; [|reflexivity]. apply Hv in E. cbn in E. chr. }
    repeat split; auto; lia.
  - apply exp_hd in He as (e & t & -> & He). cbn [app hd_is stops noprefix].
    assert (Hve : v e = false).
    { destruct (v e) eqn:E; [|reflexivity]. apply Hv in E. cbn in E. chr. }
    repeat split; auto; lia.
Qed.

Lemma x2_forcing rdx ep im rest v :
  ExpPart rdx ep -> im = [] \/ im = [105] -> ep ++ im <> [] ->
  (forall c, v c = true -> fdig rdx c = true) ->
  hd_is 46 (ep ++ im ++ rest) = false /\ stops v (ep ++ im ++ rest) /\
  noprefix (ep ++ im ++ rest).
Proof.
  intros He Him Hne Hv. destruct ep as [|e0 ep0].
  - destruct Him as [->| ->]; [contradiction Hne; reflexivity|].
    cbn [app hd_is stops noprefix].
    assert (Hve : v 105 = false).
    { destruct (v 105) eqn:E; [|reflexivity]. apply Hv in E. destruct rdx; discriminate E. }
    repeat split; auto; lia.
  - apply (exp_forcing rdx); [exact He|discriminate|exact Hv].
Qed.

Lemma x_forcing rdx fac ep im rest v :
  FracPart rdx fac -> ExpPart rdx ep -> im = [] \/ im = [105] -> fac ++ ep ++ im <> [] ->
  (forall c, v c = true -> fdig rdx c = true) ->
  stops v (fac ++ ep ++ im ++ rest) /\ noprefix (fac ++ ep ++ im ++ rest).
Proof.
  intros Hf He Him Hne Hv. destruct Hf as [->|(_ & d2 & -> & _)].
  - cbn [app] in *. destruct (x2_forcing rdx ep im rest v He Him Hne Hv) as (_ & H1 & H2). auto.
  - cbn [app stops noprefix].
    assert (Hve : v 46 = false).
    { destruct (v 46) eqn:E; [|reflexivity]. apply Hv in E. destruct rdx; discriminate E. }
    repeat split; auto; lia.
Qed.

Lemma longest_B rdx numlit fac' ep' im' rest' k s :
  phaseB rdx numlit (fac' ++ ep' ++ im' ++ rest') = inl (k, s) ->
  FracPart rdx fac' -> ExpPart rdx ep' -> im' = [] \/ im' = [105] ->
  (length (numlit ++ fac' ++ ep' ++ im') <= length s)%nat.
Proof.
  intros HB Hf He Him. apply phaseB_shape in HB.
  destruct (fac_mono rdx fac' (ep' ++ im' ++ rest') Hf) as (y2 & Efac & Hy2).
  rewrite Efac in HB.
  destruct (list_eq_dec N.eq_dec (ep' ++ im') []) as [E0|Hne].
  { apply app_eq_nil in E0 as [-> ->]. rewrite HB. rewrite !app_length. cbn. lia. }
  destruct (x2_forcing rdx ep' im' rest' (fdig rdx) He Him Hne (fun c H => H)) as (K1 & K2 & _).
  rewrite (Hy2 K1 K2) in HB. rewrite app_nil_r in HB. rewrite skipn_app_len0 in HB.
  destruct ep' as [|e0 ep0].
  - destruct Him as [->| ->]; [contradiction Hne; reflexivity|].
    cbn [app] in HB. change (exp_of (105 :: rest')) with (@nil N) in HB.
    cbn [length skipn hd_error next_i] in HB. rewrite N.eqb_refl in HB.
    rewrite HB. rewrite !app_length. cbn. lia.
  - rewrite (exp_mono rdx (e0 :: ep0) (im' ++ rest') He) in HB by discriminate.
    destruct Him as [->| ->].
    + rewrite HB. rewrite !app_length. cbn. lia.
    + change (scan_digits is_decimal_digit true ([105] ++ rest')) with (@nil N) in HB.
      rewrite app_nil_r, skipn_app_len0 in HB.
      cbn [app hd_error next_i] in HB. rewrite N.eqb_refl in HB.
      rewrite HB. rewrite !app_length. cbn. lia.
Qed.

Lemma noprefix_dec l :
  noprefix l \/
  exists c1 l2, l = c1 :: l2 /\
    (c1 = 98 \/ c1 = 66 \/ c1 = 111 \/ c1 = 79 \/ c1 = 120 \/ c1 = 88).
Proof.
  destruct l as [|c l]; [left; exact I|].
  destruct (N.eq_dec c 98); [right; eauto 10|].
  destruct (N.eq_dec c 66); [right; eauto 10|].
  destruct (N.eq_dec c 111); [right; eauto 10|].
  destruct (N.eq_dec c 79); [right; eauto 10|].
  destruct (N.eq_dec c 120); [right; eauto 10|].
  destruct (N.eq_dec c 88); [right; eauto 12|].
  left. cbn. auto 10.
Qed.

Lemma stops_mono (v w : N -> bool) x :
  (forall c, v c = true -> w c = true) -> stops w x -> stops v x.
Proof.
  intros Hvw. destruct x as [|c x]; [auto|]. cbn. intros [H1 H2]. split; [|exact H2].
  destruct (v c) eqn:E; [|reflexivity]. apply Hvw in E. congruence.
Qed.

Lemma int_phase_mono rdx' numlit' x :
  IntPart rdx' numlit' -> (numlit' = [] -> hd_is 46 x = true) ->
  exists y, snd (int_phase (numlit' ++ x)) = numlit' ++ y /\
    (stops (fdig rdx') x -> noprefix x ->
     y = [] /\ fst (int_phase (numlit' ++ x)) = rdx').
Proof.
  destruct rdx'; cbn [IntPart].
  - intros (c1 & d & -> & Hc & Ht) _. exists (scan_digits is_binary_digit true x).
    assert (E : int_phase ((48 :: c1 :: d) ++ x) =
                (R2, (48 :: c1 :: d) ++ scan_digits is_binary_digit true x)).
    { destruct Hc as [->| ->]; cbn [app].
      - transitivity (R2, 48 :: 98 :: scan_digits is_binary_digit true (d ++ x)); [reflexivity|].
        rewrite tail_scan_app by auto. reflexivity.
      - transitivity (R2, 48 :: 66 :: scan_digits is_binary_digit true (d ++ x)); [reflexivity|].
        rewrite tail_scan_app by auto. reflexivity. }
    rewrite E. cbn [fst snd]. split; [reflexivity|]. intros Hs _. split; [|reflexivity].
    apply scan_stops. eapply stops_mono; [|exact Hs]. intros c Hc'. cbn. chr.
  - intros (c1 & d & -> & Hc & Ht) _. exists (scan_digits is_octal_digit true x).
    assert (E : int_phase ((48 :: c1 :: d) ++ x) =
                (R8, (48 :: c1 :: d) ++ scan_digits is_octal_digit true x)).
    { destruct Hc as [->| ->]; cbn [app].
      - transitivity (R8, 48 :: 111 :: scan_digits is_octal_digit true (d ++ x)); [reflexivity|].
        rewrite tail_scan_app by auto. reflexivity.
      - transitivity (R8, 48 :: 79 :: scan_digits is_octal_digit true (d ++ x)); [reflexivity|].
        rewrite tail_scan_app by auto. reflexivity. }
    rewrite E. cbn [fst snd]. split; [reflexivity|]. intros Hs _. split; [|reflexivity].
    apply scan_stops. eapply stops_mono; [|exact Hs]. intros c Hc'. cbn. chr.
  - intros [->|HD] Hx.
    + specialize (Hx eq_refl). destruct x as [|c x]; [discriminate Hx|]. cbn in Hx.
      apply N.eqb_eq in Hx. subst c. exists []. cbn. auto.
    + clear Hx. apply digits_inv in HD as (c0 & t & -> & Hc & Ht). cbn [app].
      assert (Good : (c0 = 48 -> noprefix (t ++ x)) ->
        exists y, snd (int_phase (c0 :: t ++ x)) = c0 :: t ++ y /\
          (stops (fdig R10) x -> noprefix x -> y = [] /\ fst (int_phase (c0 :: t ++ x)) = R10)).
      { intro Hn. rewrite int_phase_dec by auto. cbn [fst snd].
        rewrite tail_scan_app by auto. exists (scan_digits is_decimal_digit true x).
        split; [reflexivity|]. intros Hs _. split; [|reflexivity]. apply scan_stops. exact Hs. }
      destruct (N.eq_dec c0 48) as [->|Hne]; [|apply Good; intro; contradiction].
      destruct (noprefix_dec (t ++ x)) as [Hn|(c1 & l2 & El & Hc1)]; [apply Good; auto|].
      destruct t as [|x0 t0].
      * cbn [app] in El |- *. subst x.
        destruct Hc1 as [->|[->|[->|[->|[->| ->]]]]]; eexists;
          (split; [reflexivity|]); intros _ Hn; exfalso; unfold noprefix in Hn; lia.
      * cbn [app] in El. injection El as -> _.
        assert (Hx : is_decimal_digit c1 = true \/ c1 = 95)
          by (eapply tail_all; eauto; left; reflexivity).
        exfalso. chr.
  - intros (c1 & d & -> & Hc & Ht) _. exists (scan_digits is_hex_digit true x).
    assert (E : int_phase ((48 :: c1 :: d) ++ x) =
                (R16, (48 :: c1 :: d) ++ scan_digits is_hex_digit true x)).
    { destruct Hc as [->| ->]; cbn [app].
      - transitivity (R16, 48 :: 120 :: scan_digits is_hex_digit true (d ++ x)); [reflexivity|].
        rewrite tail_scan_app by auto. reflexivity.
      - transitivity (R16, 48 :: 88 :: scan_digits is_hex_digit true (d ++ x)); [reflexivity|].
        rewrite tail_scan_app by auto. reflexivity. }
    rewrite E. cbn [fst snd]. split; [reflexivity|]. intros Hs _. split; [|reflexivity].
    apply scan_stops. exact Hs.
Qed.

Lemma numlit_decomp k s :
  NumLit k s ->
  exists rdx numlit fac ep im s0,
    s = s0 ++ im /\ Decomp s0 rdx numlit fac ep /\ (im = [] \/ im = [105]).
Proof.
  destruct k; cbn [NumLit]; try contradiction.
  - intro H. apply int_decomp in H as (rdx & numlit & HD & _).
    exists rdx, numlit, [], [], [], s. rewrite app_nil_r. auto.
  - intro H. apply float_decomp in H as (rdx & numlit & fac & ep & HD & _).
    exists rdx, numlit, fac, ep, [], s. rewrite app_nil_r. auto.
  - unfold imaginary_lit. intro H. apply cat_inv in H as (s0 & s1 & -> & H0 & H1).
    apply chr_inv in H1. subst s1.
    apply imag_decomp in H0 as (rdx & numlit & fac & ep & HD).
    exists rdx, numlit, fac, ep, [105], s0. auto.
Qed.

(* the scanner takes the LONGEST prefix that is a numeric literal (no guard needed:
   a literal prefix implies the guard) *)
Theorem scan_number_longest : forall l k s k' s' rest',
  scan_lit_number l = inl (k, s) -> l = s' ++ rest' -> NumLit k' s' ->
  (length s' <= length s)%nat.
Proof.
  intros l k s k' s' rest' H El HN.
  assert (Hs : num_start l) by (rewrite El; eapply numlit_num_start; eauto).
  destruct (numlit_decomp _ _ HN) as (rdx' & numlit' & fac' & ep' & im' & s0 & Es & HD & Him).
  destruct HD as [Heq Hi Hf He Hne H1 H2].
  set (x := fac' ++ ep' ++ im' ++ rest').
  assert (Elx : l = numlit' ++ x).
  { rewrite El, Es, Heq. unfold x. rewrite <- !app_assoc. reflexivity. }
  destruct (int_phase_mono rdx' numlit' x Hi) as (y & Ey & Hy).
  { intros ->. destruct Hf as [->|(_ & d2 & -> & _)]; [contradiction Hne; reflexivity|]. reflexivity. }
  rewrite <- Elx in Ey, Hy.
  pose proof (int_phase_cases l Hs) as HS.
  destruct (int_phase l) as [rdx numlit] eqn:Ei. cbn [fst snd] in *.
  destruct (int_shape_prefix _ _ _ HS) as (r1 & Hl).
  rewrite (scan_eq l rdx numlit r1 Ei Hl) in H.
  destruct (list_eq_dec N.eq_dec (fac' ++ ep' ++ im') []) as [E0|Hne'].
  - apply app_eq_nil in E0 as [-> E0]. apply app_eq_nil in E0 as [-> ->].
    apply phaseB_shape in H. rewrite H, Es, Heq, Ey. rewrite !app_length. cbn. lia.
  - destruct (x_forcing rdx' fac' ep' im' rest' (fdig rdx') Hf He Him Hne' (fun c H => H))
      as (K1 & K2).
    destruct (Hy K1 K2) as [-> ->]. rewrite app_nil_r in Ey. subst numlit.
    assert (r1 = x) by (eapply app_inv_head; rewrite <- Hl; exact Elx). subst r1.
    pose proof (longest_B _ _ _ _ _ _ _ _ H Hf He Him) as HL.
    rewrite Es, Heq. rewrite !app_length in *. lia.
Qed.

(* ------------------------------------------------------------ axioms *)
Print Assumptions scan_number_sound.
Print Assumptions scan_number_complete.
Print Assumptions scan_number_iff.
Print Assumptions scan_number_iff'.
Print Assumptions numlit_num_start.
Print Assumptions numlit_kind_unique.
Print Assumptions numlit_kind_complete.
Print Assumptions scan_number_longest.
