(* Round trip, stage D, part 2: function and method declarations, import
   declarations, the package clause and whole files (spec/Print3.v: [funcdecl],
   [topdecl], [importspec], [file]).

   This level sits above the mutual induction over expressions / statements /
   types: the finished theorems of the lower levels are Section hypotheses
   ([H_types], [H_xok], [H_block], [H_decl]; after the Section closes they are
   premises of the theorems that use them: funcdecl_ok takes the first three,
   topdecl_ok / file_roundtrip all four, imports_ok none).

   Exports: [funcdecl_ok] (parse_func_decl, with receiver and type parameters),
   [topdecl_ok] (parse_top_decl), [imports_ok] (imports_loop), [file_roundtrip]
   (parse_file on the whole token list); also [tparams_ok]
   (parse_type_parameters), [import_decl_ok], [import_spec_ok], [decls_ok].
   No hypothesis beyond Print3.wf_file / wf_funcdecl was needed.
   [file_roundtrip] needs no slack in its bounds: [depth_file f <= DEPTH_BOUND2]
   and [need_file f <= d]. *)
From Coq Require Import List Arith NArith Lia Bool.
From GoSyn Require Import Token Tok Ast Core.
From GoSyn.spec Require Import Prec Print Print2 Print3.
From GoSyn.proofs Require Import PrecProofs RoundTripProofs RoundTripStmt RoundTripTypesBase
  RoundTripTypesAot RoundTripTypesSig RoundTripTypesIface RoundTripTypes RoundTripBase2 RoundTripBase3.
Import ListNotations.

(* ------------------------------------------------------------ facts about the spec *)

Lemma flat_map_len_ge : forall (Y : Type) (f : Y -> list token) l,
  (forall a, 1 <= length (f a)) -> length l <= length (flat_map f l).
Proof.
  intros Y f l Hf. induction l as [| a r IH]; simpl; [lia |].
  rewrite app_length. pose proof (Hf a). lia.
Qed.

Lemma max2_In : forall (Y : Type) (f : Y -> nat) l a, In a l -> f a <= max2 f l.
Proof.
  intros Y f l a. induction l as [| b r IH]; simpl; [intros [] |].
  intros [-> | H]; [lia | specialize (IH H); lia].
Qed.

Lemma print_importspec_len : forall sp, 1 <= length (print_importspec sp).
Proof. intros [p | n p | p]; simpl; lia. Qed.

Lemma print_import_len : forall i, 1 <= length (print_import i).
Proof. intros [[|] l]; unfold print_import; simpl; lia. Qed.

Lemma print_topdecl_first : forall td, exists k l,
  print_topdecl td = kw k :: l /\ (k = KFunc \/ k = KVar \/ k = KType \/ k = KConst).
Proof.
  intros [[recv name tps sg body] | [k [|] specs]].
  - eexists _, _. split; [reflexivity | auto].
  - eexists _, _. split; [reflexivity |]. destruct k; auto.
  - eexists _, _. split; [reflexivity |]. destruct k; auto.
Qed.

Lemma print_topdecl_len : forall td, 1 <= length (print_topdecl td).
Proof. intro td. destruct (print_topdecl_first td) as (k & l & -> & _). simpl. lia. Qed.

Section RTFile.
Variables (A G D C E : Type).
Variable OPS : ops A G D C.
Notation nodeT := (node A C).
Notation pstateT := (pstate A G D E).
Notation cur := (s_cur A G D E).
Notation srest := (s_rest A G D E).
Notation sdepth := (s_depth A G D E).
Notation lp := (s_lp A G D E).
Notation ln := (s_ln A G D E).
Notation PA := (parsers_at A G D C E OPS).
Notation erase := (@erase A C).
Notation at_toks := (@at_toks A G D E).
Notation frame := (@frame A G D E).
Notation bnd := (bind A G D E).
Notation TNP2 := (TNP A G D C E OPS exp2 print2 shape2 depth2 need2).
Notation TP2 := (TP A G D C E OPS exp2 print2 shape2 depth2 need2).
Notation XOK2 := (XOK A G D C E OPS exp2 print2 shape2 depth2 need2).
Notation SigP2 := (SigP A G D C E OPS exp2 print2 shape2 depth2 need2).
Notation IHT2 := (IHT A G D C E OPS exp2 print2 shape2 (wf2 false) depth2 need2).

(* ------------------------------------------------------------ imports *)

Lemma string_literal_toks : forall (s : pstateT) v ts site, at_toks s (TLiteral LString v :: ts) ->
  exists p s1, string_literal A G D C E OPS site s = Ok (n_strlit A C p v) s1 /\
               at_toks s1 ts /\ frame s s1.
Proof.
  intros s v ts site Hat. destruct (at_toks_cur _ _ _ Hat) as (p & Hc).
  destruct (next_toks OPS _ _ (at_toks_rest _ _ _ Hat)) as (s1 & Hn & Hat1 & Hf).
  exists p, s1. split; [| split; [exact Hat1 | exact Hf]].
  unfold string_literal. rewrite Hc, Hn. reflexivity.
Qed.

Lemma import_spec_ok : forall sp (s : pstateT) rst, at_toks s (print_importspec sp ++ rst) ->
  exists n s1, parse_import_spec A G D C E OPS s = Ok n s1 /\ erase n = shape_importspec sp /\
               at_toks s1 rst /\ frame s s1.
Proof.
  intros sp s rst Hat. unfold parse_import_spec.
  destruct sp as [p | n p | p]; cbn [print_importspec app] in Hat;
    destruct (at_toks_cur _ _ _ Hat) as (pos & Hc);
    destruct (next_toks OPS _ _ (at_toks_rest _ _ _ Hat)) as (s1 & Hn & Hat1 & Hf1);
    rewrite Hc, Hn; cbn [bind].
  - eexists _, s1. split; [reflexivity |]. split; [reflexivity |]. split; [exact Hat1 | exact Hf1].
  - unfold ident_tok. cbv iota.
    destruct (string_literal_toks s1 p rst 134 Hat1) as (q & s2 & Hs & Hat2 & Hf2).
    rewrite Hs. cbn [bind]. eexists _, s2. split; [reflexivity |]. split; [reflexivity |].
    split; [exact Hat2 | exact (frame_trans _ _ _ Hf1 Hf2)].
  - unfold tk. cbv iota.
    destruct (string_literal_toks s1 p rst 135 Hat1) as (q & s2 & Hs & Hat2 & Hf2).
    rewrite Hs. cbn [bind]. eexists _, s2. split; [reflexivity |]. split; [reflexivity |].
    split; [exact Hat2 | exact (frame_trans _ _ _ Hf1 Hf2)].
Qed.

Notation pspec := (fun sp : importspec => print_importspec sp ++ [tk OSemiColon]).

Lemma importspec_not_paren : forall sp l, exists t r,
  print_importspec sp ++ l = t :: r /\ tok_is t (KOp OParenRight) = false /\
  tok_is t (KOp OParenLeft) = false.
Proof. intros [p | n p | p] l; eexists _, _; split; try reflexivity; split; reflexivity. Qed.

Lemma import_group_ok : forall specs fuel acc (s : pstateT) rst,
  at_toks s (flat_map pspec specs ++ tk OParenRight :: rst) ->
  length specs + 1 <= fuel ->
  exists ns s1, import_group_loop A G D C E OPS fuel acc s = Ok (acc ++ ns) s1 /\
    map erase ns = map shape_importspec specs /\ at_toks s1 (tk OParenRight :: rst) /\ frame s s1.
Proof.
  induction specs as [| sp r IH]; intros fuel acc s rst Hat Hfu.
  - cbn [flat_map app] in Hat. destruct fuel as [| f]; [simpl in Hfu; lia |].
    cbn [import_group_loop]. rewrite (cur_is_toks _ _ _ _ Hat).
    change (tok_is (tk OParenRight) (KOp OParenRight)) with true. cbv iota.
    exists [], s. rewrite app_nil_r. split; [reflexivity |]. split; [reflexivity |].
    split; [exact Hat | apply frame_refl].
  - cbn [flat_map] in Hat. rewrite <- !app_assoc in Hat. cbn [app] in Hat.
    destruct fuel as [| f]; [simpl in Hfu; lia |]. cbn [import_group_loop].
    destruct (importspec_not_paren sp (tk OSemiColon :: flat_map pspec r ++ tk OParenRight :: rst))
      as (t0 & r0 & Hp & Hk & _).
    assert (Hc : cur_is A G D E s (KOp OParenRight) = false).
    { rewrite Hp in Hat. rewrite (cur_is_toks _ _ _ _ Hat). exact Hk. }
    rewrite Hc.
    destruct (import_spec_ok sp s _ Hat) as (n & s1 & Hk1 & He & Hat1 & Hf1).
    rewrite Hk1. cbn [bind].
    destruct (skipped_yes OPS s1 _ _ (KOp OSemiColon) Hat1 eq_refl) as (s2 & Hs & Hat2 & Hf2).
    rewrite Hs. cbn [bind].
    destruct (IH f (acc ++ [n]) s2 rst Hat2) as (ns & s3 & Hl & Hes & Hat3 & Hf3).
    { simpl in Hfu. lia. }
    exists (n :: ns), s3. split; [rewrite Hl, <- app_assoc; reflexivity |].
    split; [simpl; rewrite He, Hes; reflexivity |].
    split; [exact Hat3 | exact (frame_trans _ _ _ (frame_trans _ _ _ Hf1 Hf2) Hf3)].
Qed.

(* one import declaration; its ";" is left to imports_loop *)
Lemma import_decl_ok : forall i, wf_import i -> forall (s : pstateT) rst,
  at_toks s (print_import i ++ rst) ->
  exists ns s1, parse_import_decl A G D C E OPS s = Ok ns s1 /\
    map erase ns = map shape_importspec (snd i) /\ at_toks s1 (tk OSemiColon :: rst) /\ frame s s1.
Proof.
  intros [grouped specs] Hwf s rst Hat. unfold wf_import in Hwf. cbn [fst snd] in *.
  unfold print_import in Hat. cbn [fst snd] in Hat. unfold parse_import_decl. destruct grouped.
  - cbn [app] in Hat. rewrite <- app_assoc in Hat. cbn [app] in Hat.
    destruct (expect_toks OPS s _ _ (KKw KImport) 137 Hat eq_refl) as (p0 & s1 & Hx & Hat1 & Hf1).
    rewrite Hx. cbn [bind].
    destruct (skipped_yes OPS s1 _ _ (KOp OParenLeft) Hat1 eq_refl) as (s2 & Hs & Hat2 & Hf2).
    rewrite Hs. cbn [bind].
    destruct (import_group_ok specs (loop_fuel A G D E s2) [] s2 (tk OSemiColon :: rst) Hat2)
      as (ns & s3 & Hl & Hes & Hat3 & Hf3).
    { pose proof (loop_fuel_toks _ _ Hat2) as H. rewrite app_length in H.
      pose proof (flat_map_len_ge _ pspec specs) as H0. cbn [length] in H.
      assert (length specs <= length (flat_map pspec specs)).
      { apply H0. intro a. rewrite app_length. simpl. lia. }
      lia. }
    rewrite Hl. cbn [bind app].
    destruct (expect_toks OPS s3 _ _ (KOp OParenRight) 138 Hat3 eq_refl) as (p1 & s4 & Hx4 & Hat4 & Hf4).
    rewrite Hx4. cbn [bind]. exists ns, s4. split; [reflexivity |]. split; [exact Hes |].
    split; [exact Hat4 |].
    exact (frame_trans _ _ _ (frame_trans _ _ _ (frame_trans _ _ _ Hf1 Hf2) Hf3) Hf4).
  - destruct specs as [| sp [| sp2 r]]; try (specialize (Hwf eq_refl); discriminate Hwf).
    cbn [flat_map app] in Hat. rewrite app_nil_r in Hat. rewrite <- app_assoc in Hat. cbn [app] in Hat.
    destruct (expect_toks OPS s _ _ (KKw KImport) 137 Hat eq_refl) as (p0 & s1 & Hx & Hat1 & Hf1).
    rewrite Hx. cbn [bind].
    destruct (importspec_not_paren sp (tk OSemiColon :: rst)) as (t0 & r0 & Hp & _ & Hk).
    assert (Hs : skipped A G D C E OPS (KOp OParenLeft) s1 = Ok false s1).
    { apply (skipped_no OPS s1 _ _ Hat1). rewrite Hp. exact Hk. }
    rewrite Hs. cbn [bind].
    destruct (import_spec_ok sp s1 _ Hat1) as (n & s2 & Hk2 & He & Hat2 & Hf2).
    rewrite Hk2. cbn [bind]. exists [n], s2. split; [reflexivity |].
    split; [simpl; rewrite He; reflexivity |].
    split; [exact Hat2 | exact (frame_trans _ _ _ Hf1 Hf2)].
Qed.

(* EXPORT 3 *)
Theorem imports_ok : forall imports, all2 wf_import imports ->
  forall fuel acc (s : pstateT) rst,
    at_toks s (flat_map print_import imports ++ rst) ->
    match rst with [] => True | t :: _ => tok_is t (KKw KImport) = false end ->
    length imports + 1 <= fuel ->
    exists ns s1, imports_loop A G D C E OPS fuel acc s = Ok (acc ++ ns) s1 /\
      map erase ns = map shape_importspec (flat_map snd imports) /\ at_toks s1 rst /\ frame s s1.
Proof.
  induction imports as [| i r IH]; intros Hwf fuel acc s rst Hat Hk Hfu.
  - cbn [flat_map app] in Hat. destruct fuel as [| f]; [simpl in Hfu; lia |]. cbn [imports_loop].
    assert (Hc : cur_is A G D E s (KKw KImport) = false).
    { destruct rst as [| t r0]; [apply cur_is_nil; exact Hat |].
      rewrite (cur_is_toks _ _ _ _ Hat). exact Hk. }
    rewrite Hc. exists [], s. rewrite app_nil_r. split; [reflexivity |]. split; [reflexivity |].
    split; [exact Hat | apply frame_refl].
  - destruct Hwf as (Hwi & Hwr). cbn [flat_map] in Hat. rewrite <- app_assoc in Hat.
    destruct fuel as [| f]; [simpl in Hfu; lia |]. cbn [imports_loop].
    assert (Hc : cur_is A G D E s (KKw KImport) = true).
    { destruct i as [[|] l]; unfold print_import in Hat; cbn [fst snd app] in Hat;
        rewrite (cur_is_toks _ _ _ _ Hat); reflexivity. }
    rewrite Hc.
    destruct (import_decl_ok i Hwi s _ Hat) as (l & s1 & Hd & Hel & Hat1 & Hf1).
    rewrite Hd. cbn [bind].
    destruct (skipped_yes OPS s1 _ _ (KOp OSemiColon) Hat1 eq_refl) as (s2 & Hs & Hat2 & Hf2).
    rewrite Hs. cbn [bind].
    destruct (IH Hwr f (acc ++ l) s2 rst Hat2 Hk) as (ns & s3 & Hl & Hes & Hat3 & Hf3).
    { simpl in Hfu. lia. }
    exists (l ++ ns), s3. split; [rewrite Hl, <- app_assoc; reflexivity |].
    split; [cbn [flat_map]; rewrite !map_app, Hel, Hes; reflexivity |].
    split; [exact Hat3 | exact (frame_trans _ _ _ (frame_trans _ _ _ Hf1 Hf2) Hf3)].
Qed.

(* ------------------------------------------------------------ the lower levels *)

Hypothesis H_types : forall t : typ2, wfT (wf2 false) t -> TNP2 t.
Hypothesis H_xok : forall x : exp2, wf2 false x -> XOK2 x.
Hypothesis H_block : forall body : list stmt2, all2 wf_stmt body -> seq_ok body ->
  BP A G D C E OPS body.
Hypothesis H_decl : forall dc : decl2, wf_decl dc -> DP A G D C E OPS dc.

Lemma iht_all : forall n, IHT2 n.
Proof. intros n t _ Hwf _. apply H_types. exact Hwf. Qed.

Lemma allX_wf : forall t : typ2, wfT (wf2 false) t -> allX XOK2 t.
Proof.
  intros t Hwf. apply (wfT_allX exp2 (wf2 false) XOK2 H_xok (S (sizeT t))); [lia | exact Hwf].
Qed.

Lemma allX_groups : forall ps : list (group typ2),
  allT (fun g => group_ok g /\ wfT (wf2 false) (group_t g)) ps ->
  allT (fun g => allX XOK2 (group_t g)) ps.
Proof.
  induction ps as [| g r IH]; intro H; [exact I |]. destruct H as ((_ & Hg) & Hr).
  split; [apply allX_wf; exact Hg | apply IH; exact Hr].
Qed.

Lemma sig_allX : forall sg : sig2, wfSig (wf2 false) sg -> allX XOK2 (TFunc sg).
Proof. intros sg Hwf. apply allX_wf. destruct sg as [ps paren rs]. exact Hwf. Qed.

(* ------------------------------------------------------------ type parameters *)

Notation tparam := (list str * list (bool * typ2))%type.
Definition print_tparam (g : tparam) : list token := printNames (fst g) ++ printUnion print2 (snd g).
Definition shape_tparam (g : tparam) : shapeT := sh_field (fst g) (shapeUnion shape2 (snd g)) None.
Definition tp_tail (l : list tparam) : list token := flat_map (fun g => tk OComma :: print_tparam g) l.
Definition tneed (g : tparam) : nat := max2 (fun bt : bool * typ2 => needT2 (snd bt)) (snd g).
Definition tdepth (g : tparam) : nat := max2 (fun bt : bool * typ2 => depthT2 (snd bt)) (snd g).

Lemma commas_tparams : forall g l, commas (map print_tparam (g :: l)) = print_tparam g ++ tp_tail l.
Proof.
  intros g l. unfold tp_tail. simpl. f_equal.
  induction l as [| b r IH]; simpl; [reflexivity | rewrite IH; reflexivity].
Qed.

Lemma print_tparams_cons : forall g l,
  print_tparams (g :: l) = tk OBarackLeft :: print_tparam g ++ tp_tail l ++ [tk OBarackRight].
Proof.
  intros g l. unfold print_tparams. fold print_tparam. rewrite commas_tparams, <- app_assoc. reflexivity.
Qed.

Lemma type_start_not_comma : forall tok, type_start tok = true -> tok_is tok (KOp OComma) = false.
Proof.
  intros tok H. destruct tok as [txt | k | op | lk txt]; try reflexivity.
  destruct op; try reflexivity; discriminate H.
Qed.

Lemma union_not_comma : forall terms : list (bool * typ2), terms <> [] ->
  all2 (fun bt : bool * typ2 => wfT (wf2 false) (snd bt)) terms -> forall rst,
  exists tok ts, printUnion print2 terms ++ rst = tok :: ts /\ tok_is tok (KOp OComma) = false.
Proof.
  intros [| [b t] r] Hne Hall rst; [exfalso; apply Hne; reflexivity |].
  destruct Hall as (Hwf & _). cbn [snd] in Hwf. rewrite printUnion_cons. unfold printTerm. cbn [fst snd].
  destruct b.
  - cbn [app]. eexists _, _. split; reflexivity.
  - cbn [app]. destruct (first_tokT exp2 print2 (wf2 false) t Hwf) as (tok & l & Hp & Hst & _).
    rewrite Hp. cbn [app]. eexists _, _. split; [reflexivity |]. apply type_start_not_comma. exact Hst.
Qed.

Lemma terms_TP : forall terms : list (bool * typ2),
  all2 (fun bt : bool * typ2 => wfT (wf2 false) (snd bt)) terms ->
  Forall (fun bt : bool * typ2 => wfT (wf2 false) (snd bt) /\ TP2 (snd bt)) terms.
Proof.
  induction terms as [| bt r IH]; intro H; [constructor |]. destruct H as (Hb & Hr).
  constructor; [| apply IH; exact Hr]. split; [exact Hb |]. apply TNP_TP. apply H_types. exact Hb.
Qed.

(* one round of type_params_loop, up to the comma *)
Lemma tparam_group : forall g, wf_tparam g -> forall d (s : pstateT) rst,
  tneed g + 1 <= d -> sdepth s + tdepth g <= MAX_NESTING ->
  ln s <= lp s /\ lp s + tdepth g <= ln s + 64 ->
  at_toks s (print_tparam g ++ rst) -> ufollow rst ->
  exists fld s2, erase fld = shape_tparam g /\ at_toks s2 rst /\ frame s s2 /\
    forall f acc, type_params_loop A G D C E OPS (PA d) (S f) acc s =
      bnd (skipped A G D C E OPS (KOp OComma) s2)
          (fun _ s3 => type_params_loop A G D C E OPS (PA d) f (acc ++ [fld]) s3).
Proof.
  intros [names terms] (Hn & Ht & Hw) d s rst Hd Hdep Hlev Hat Hfo.
  unfold tneed, tdepth in *. cbn [fst snd] in *.
  destruct names as [| n names]; [exfalso; apply Hn; reflexivity |].
  unfold print_tparam in Hat. cbn [fst snd] in Hat. rewrite printNames_cons in Hat.
  cbn [app] in Hat. rewrite <- app_assoc in Hat.
  destruct (identifier_toks OPS s n _ 1 Hat) as (p & s1 & Hi & Hat1 & Hf1).
  destruct (union_not_comma terms Ht Hw rst) as (tok & ts & Hp & Hk).
  destruct (ident_list_loop_toks A G D C E OPS names (loop_fuel A G D E s1) [n_ident A C p n] s1
              (printUnion print2 terms ++ rst) Hat1) as (ns & s2 & Hl & Hes & Hlen & Hat2 & Hf2).
  { rewrite Hp. exact Hk. }
  { pose proof (loop_fuel_toks _ _ Hat1) as H. rewrite app_length, names_tail_length in H. lia. }
  pose proof (frame_trans _ _ _ Hf1 Hf2) as Hf12.
  destruct (type_elem_toks A G D C E OPS exp2 print2 shape2 (wf2 false) depth2 need2 terms Ht
              (terms_TP terms Hw) d s2 rst) as (ty & s3 & Hk3 & He3 & Hat3 & Hf3).
  - exact Hd.
  - unfold max2, depthT2 in Hdep. unfold maxT. unframe. lia.
  - unfold max2, depthT2 in Hlev. unfold maxT. unframe. lia.
  - exact Hat2.
  - exact Hfo.
  - exists (n_field A C ([n_ident A C p n] ++ ns) ty None (c_empty A G D C OPS)), s3.
    split; [| split; [exact Hat3 | split; [exact (frame_trans _ _ _ Hf12 Hf3) |]]].
    + rewrite erase_n_field. unfold shape_tparam, sh_field. cbn [fst snd].
      rewrite map_app, Hes, He3. reflexivity.
    + intros f acc. cbn [type_params_loop]. rewrite (cur_is_toks _ _ _ _ Hat).
      change (tok_is (ident_tok n) (KOp OBarackRight)) with false. cbv iota.
      unfold identifier_list. rewrite Hi. cbn [bind]. rewrite Hl. cbn [bind]. rewrite Hk3. cbn [bind].
      reflexivity.
Qed.

Lemma ufollow_tp_tail : forall l rst, ufollow (tp_tail l ++ tk OBarackRight :: rst).
Proof. intros [| g l] rst; repeat split. Qed.

Lemma tp_tail_len : forall l, length l <= length (tp_tail l).
Proof. intro l. apply flat_map_len_ge. intro a. simpl. lia. Qed.

(* the rounds after the first: from the comma on *)
Lemma tparams_after : forall l, all2 wf_tparam l -> forall d fuel acc (s : pstateT) rst,
  max2 tneed l + 1 <= d -> sdepth s + max2 tdepth l <= MAX_NESTING ->
  ln s <= lp s /\ lp s + max2 tdepth l <= ln s + 64 ->
  at_toks s (tp_tail l ++ tk OBarackRight :: rst) -> length l + 1 <= fuel ->
  exists ns s1,
    bnd (skipped A G D C E OPS (KOp OComma) s)
        (fun _ s3 => type_params_loop A G D C E OPS (PA d) fuel acc s3) = Ok (acc ++ ns) s1 /\
    map erase ns = map shape_tparam l /\ at_toks s1 (tk OBarackRight :: rst) /\ frame s s1.
Proof.
  induction l as [| g l IH]; intros Hwf d fuel acc s rst Hd Hdep Hlev Hat Hfu.
  - cbn [tp_tail flat_map app] in Hat.
    rewrite (skipped_no OPS s _ (KOp OComma) Hat) by reflexivity. cbn [bind].
    destruct fuel as [| f]; [simpl in Hfu; lia |]. cbn [type_params_loop].
    rewrite (cur_is_toks _ _ _ _ Hat). change (tok_is (tk OBarackRight) (KOp OBarackRight)) with true.
    cbv iota. exists [], s. rewrite app_nil_r. split; [reflexivity |]. split; [reflexivity |].
    split; [exact Hat | apply frame_refl].
  - destruct Hwf as (Hwg & Hwl). unfold tp_tail in Hat. cbn [flat_map] in Hat. fold (tp_tail l) in Hat.
    cbn [app] in Hat. rewrite <- app_assoc in Hat. cbn [max2 fold_right] in Hd, Hdep, Hlev.
    fold (max2 tneed l) in Hd. fold (max2 tdepth l) in Hdep, Hlev.
    destruct (skipped_yes OPS s _ _ (KOp OComma) Hat eq_refl) as (s1 & Hs & Hat1 & Hf1).
    rewrite Hs. cbn [bind].
    destruct fuel as [| f]; [simpl in Hfu; lia |].
    destruct (tparam_group g Hwg d s1 (tp_tail l ++ tk OBarackRight :: rst))
      as (fld & s2 & Hef & Hat2 & Hf2 & Heq).
    + lia.
    + unframe. lia.
    + unframe. lia.
    + exact Hat1.
    + apply ufollow_tp_tail.
    + rewrite Heq. pose proof (frame_trans _ _ _ Hf1 Hf2) as Hf12.
      destruct (IH Hwl d f (acc ++ [fld]) s2 rst) as (ns & s3 & Hl & Hes & Hat3 & Hf3).
      * lia.
      * unframe. lia.
      * unframe. lia.
      * exact Hat2.
      * simpl in Hfu. lia.
      * exists (fld :: ns), s3. split; [rewrite Hl, <- app_assoc; reflexivity |].
        split; [simpl; rewrite Hef, Hes; reflexivity |].
        split; [exact Hat3 | exact (frame_trans _ _ _ Hf12 Hf3)].
Qed.

(* parse_type_parameters:  [ T, U C1 | ~C2, V D ]  *)
Lemma tparams_ok : forall tps, tps <> [] -> all2 wf_tparam tps -> forall d (s : pstateT) rst,
  max2 tneed tps + 1 <= d -> sdepth s + max2 tdepth tps <= MAX_NESTING ->
  ln s <= lp s /\ lp s + max2 tdepth tps <= ln s + 64 ->
  at_toks s (print_tparams tps ++ rst) ->
  exists n s1, parse_type_parameters A G D C E OPS (PA d) s = Ok n s1 /\
    erase n = shape_tparams tps /\ at_toks s1 rst /\ frame s s1.
Proof.
  intros [| g l] Hne Hwf d s rst Hd Hdep Hlev Hat; [exfalso; apply Hne; reflexivity |].
  destruct Hwf as (Hwg & Hwl).
  rewrite print_tparams_cons in Hat. cbn [app] in Hat. rewrite <- !app_assoc in Hat. cbn [app] in Hat.
  cbn [max2 fold_right] in Hd, Hdep, Hlev.
  fold (max2 tneed l) in Hd. fold (max2 tdepth l) in Hdep, Hlev.
  destruct (expect_toks OPS s _ _ (KOp OBarackLeft) 32 Hat eq_refl) as (p0 & s1 & Hx & Hat1 & Hf1).
  assert (Hfu : length l + 2 <= loop_fuel A G D E s1).
  { pose proof (loop_fuel_toks _ _ Hat1) as H. rewrite !app_length in H. cbn [length] in H.
    pose proof (tp_tail_len l). lia. }
  destruct (loop_fuel A G D E s1) as [| f] eqn:Hfuel; [lia |].
  destruct (tparam_group g Hwg d s1 (tp_tail l ++ tk OBarackRight :: rst))
    as (fld & s2 & Hef & Hat2 & Hf2 & Heq).
  - lia.
  - unframe. lia.
  - unframe. lia.
  - exact Hat1.
  - apply ufollow_tp_tail.
  - pose proof (frame_trans _ _ _ Hf1 Hf2) as Hf12.
    destruct (tparams_after l Hwl d f ([] ++ [fld]) s2 rst) as (ns & s3 & Hl & Hes & Hat3 & Hf3).
    + lia.
    + unframe. lia.
    + unframe. lia.
    + exact Hat2.
    + lia.
    + destruct (expect_toks OPS s3 _ _ (KOp OBarackRight) 33 Hat3 eq_refl)
        as (p1 & s4 & Hx4 & Hat4 & Hf4).
      exists (n_fieldlist A C (Some (p0, p1)) (([] ++ [fld]) ++ ns)), s4.
      split; [| split; [| split; [exact Hat4 |
        exact (frame_trans _ _ _ (frame_trans _ _ _ Hf12 Hf3) Hf4)]]].
      * unfold parse_type_parameters. rewrite Hx. cbn [bind]. rewrite Hfuel, Heq, Hl. cbn [bind].
        rewrite Hx4. reflexivity.
      * unfold shape_tparams, sh_fieldlist. fold shape_tparam. cbn [app].
        change (erase (n_fieldlist A C (Some (p0, p1)) (fld :: ns)))
          with (n_fieldlist unit unit (Some (tt, tt)) (map erase (fld :: ns))).
        cbn [map]. rewrite Hef, Hes. reflexivity.
Qed.

(* ------------------------------------------------------------ function declarations *)

Lemma print_funcdecl_split : forall recv name tps sg body rst,
  print_funcdecl (FuncDecl recv name tps sg body) ++ rst =
  kw KFunc :: popt (printParams print2) recv ++ ident_tok name :: print_tparams tps ++
  printSig print2 sg ++ popt print_block body ++ tk OSemiColon :: rst.
Proof.
  intros recv name tps sg body rst. cbn [print_funcdecl app]. f_equal.
  rewrite <- !app_assoc. cbn [app]. unfold popt. f_equal. f_equal.
  rewrite <- !app_assoc. reflexivity.
Qed.

Lemma sumT_groups : forall (r : list (group typ2)) g, In g r ->
  sizeT (group_t g) < S (sumT (fun g : group typ2 => sizeT (group_t g)) r).
Proof.
  intros r g Hin. pose proof (sumT_In _ (fun g : group typ2 => sizeT (group_t g)) r g Hin) as H.
  simpl in H. lia.
Qed.

(* EXPORT 1 *)
Theorem funcdecl_ok : forall f, wf_funcdecl f -> forall d (s : pstateT) rst,
  need_funcdecl f <= d -> at_toks s (print_funcdecl f ++ rst) ->
  sdepth s + depth_funcdecl f <= MAX_NESTING -> lev A G D E false s (depth_funcdecl f) ->
  exists n s1, parse_func_decl A G D C E OPS (PA d) s = Ok n s1 /\ erase n = shape_funcdecl f /\
               at_toks s1 rst /\ frame s s1.
Proof.
  intros [recv name tps sg body] (Hwr & Hrt & Hwt & Hws & Hwb) d s rst Hd Hat Hdep (Hl1 & Hl2).
  cbn [need_funcdecl depth_funcdecl] in Hd, Hdep, Hl2.
  rewrite print_funcdecl_split in Hat.
  unfold parse_func_decl.
  destruct (drain A G D C E OPS s) as [docs s0] eqn:Hdr.
  destruct (drain_toks A G D C E OPS s docs s0 Hdr) as (Hat0f & Hf0 & _ & _).
  pose proof (Hat0f _ Hat) as Hat0.
  destruct (expect_toks OPS s0 _ _ (KKw KFunc) 126 Hat0 eq_refl) as (pos & s1 & Hx & Hat1 & Hf1).
  rewrite Hx. cbn [bind].
  pose proof (frame_trans _ _ _ Hf0 Hf1) as Hf01.
  (* the receiver *)
  assert (Hrecv : exists recvn s2,
            (if cur_is A G D E s1 (KOp OParenLeft)
             then bnd (parameters A G D C E OPS (PA d) s1) (fun r s2 => Ok (Some r) s2)
             else Ok None s1) = Ok recvn s2 /\
            erase (nopt recvn) =
              match recv with Some r => shapeParams shape2 true r | None => nnone end /\
            (recvn <> None -> recv <> None) /\
            at_toks s2 (ident_tok name :: print_tparams tps ++ printSig print2 sg ++
                        popt print_block body ++ tk OSemiColon :: rst) /\ frame s1 s2).
  { destruct recv as [r |].
    - cbn [popt] in Hat1. cbn [opt2] in Hwr. cbn [omax] in Hd, Hdep, Hl2.
      assert (Hc : cur_is A G D E s1 (KOp OParenLeft) = true).
      { unfold printParams in Hat1. cbn [app] in Hat1. rewrite (cur_is_toks _ _ _ _ Hat1). reflexivity. }
      rewrite Hc.
      destruct (parameters_ok A G D C E OPS exp2 print2 shape2 (wf2 false) depth2 need2
                  (S (sumT (fun g : group typ2 => sizeT (group_t g)) r)) true r (iht_all _)
                  (sumT_groups r) Hwr (allX_groups r (proj2 (proj2 Hwr))) d s1
                  (ident_tok name :: print_tparams tps ++ printSig print2 sg ++
                   popt print_block body ++ tk OSemiColon :: rst))
        as (nd & s2 & Hp & He & Hat2 & Hf2).
      + unfold max2 in Hd. unfold maxT. lia.
      + exact Hat1.
      + unfold max2 in Hdep. unfold maxT. unframe. lia.
      + unfold max2 in Hl2. unfold maxT. unframe. lia.
      + rewrite Hp. cbn [bind]. exists (Some nd), s2. split; [reflexivity |].
        split; [exact He |]. split; [intros _; discriminate |]. split; [exact Hat2 | exact Hf2].
    - cbn [popt app] in Hat1.
      rewrite (cur_is_toks _ _ _ _ Hat1). change (tok_is (ident_tok name) (KOp OParenLeft)) with false.
      cbv iota. exists None, s1. split; [reflexivity |]. split; [reflexivity |].
      split; [intro H; exfalso; apply H; reflexivity |]. split; [exact Hat1 | apply frame_refl]. }
  destruct Hrecv as (recvn & s2 & Hrv & Herecv & Hrn & Hat2 & Hf2).
  rewrite Hrv. cbn [bind].
  pose proof (frame_trans _ _ _ Hf01 Hf2) as Hf02.
  destruct (identifier_toks OPS s2 name _ 127 Hat2) as (pn & s3 & Hi & Hat3 & Hf3).
  rewrite Hi. cbn [bind].
  pose proof (frame_trans _ _ _ Hf02 Hf3) as Hf03.
  (* the type parameters *)
  assert (Htp : exists tp s4,
            match recvn with
            | None => if cur_is A G D E s3 (KOp OBarackLeft)
                      then parse_type_parameters A G D C E OPS (PA d) s3
                      else Ok (empty_fieldlist A C) s3
            | Some _ => Ok (empty_fieldlist A C) s3
            end = Ok tp s4 /\ erase tp = shape_tparams tps /\
            at_toks s4 (printSig print2 sg ++ popt print_block body ++ tk OSemiColon :: rst) /\
            frame s3 s4).
  { assert (Hnb : tps = [] -> cur_is A G D E s3 (KOp OBarackLeft) = false).
    { intros ->. cbn [print_tparams app] in Hat3. destruct sg as [ps paren rs].
      cbn [printSig app] in Hat3. rewrite (cur_is_toks _ _ _ _ Hat3). reflexivity. }
    destruct tps as [| g l].
    - exists (empty_fieldlist A C), s3.
      split; [destruct recvn; [reflexivity | rewrite (Hnb eq_refl); reflexivity] |].
      split; [reflexivity |]. split; [exact Hat3 | apply frame_refl].
    - destruct recvn as [rn |].
      { assert (Hr : recv <> None) by (apply Hrn; discriminate). specialize (Hrt Hr). discriminate Hrt. }
      assert (Hc : cur_is A G D E s3 (KOp OBarackLeft) = true).
      { rewrite print_tparams_cons in Hat3. cbn [app] in Hat3.
        rewrite (cur_is_toks _ _ _ _ Hat3). reflexivity. }
      rewrite Hc.
      apply (tparams_ok (g :: l)); [discriminate | exact Hwt | | | | exact Hat3].
      + fold tneed in Hd. change (fun g : tparam => tneed g) with tneed in Hd. lia.
      + fold tdepth in Hdep. change (fun g : tparam => tdepth g) with tdepth in Hdep. unframe. lia.
      + fold tdepth in Hl2. change (fun g : tparam => tdepth g) with tdepth in Hl2. unframe. lia. }
  destruct Htp as (tp & s4 & Htp & Hetp & Hat4 & Hf4).
  rewrite Htp. cbn [bind].
  pose proof (frame_trans _ _ _ Hf03 Hf4) as Hf04.
  (* the signature *)
  assert (Hneed : needT2 (TFunc sg) = 4 + needSig need2 sg) by (destruct sg; reflexivity).
  assert (Hdepth : depthT2 (TFunc sg) = 3 + depthSig depth2 sg) by (destruct sg; reflexivity).
  destruct (sig_ok A G D C E OPS exp2 print2 shape2 (wf2 false) depth2 need2 sg (iht_all _) Hws
              (sig_allX sg Hws) d s4 (popt print_block body ++ tk OSemiColon :: rst))
    as (ps & rs & s5 & Hsg & Heps & Hers & Hat5 & Hf5).
  - lia.
  - exact Hat4.
  - unfold sig_follow. destruct body as [b |]; cbn [popt print_block app]; apply tfollow_tok; reflexivity.
  - unframe. lia.
  - unframe. lia.
  - rewrite Hsg. cbn [bind fst snd].
    pose proof (frame_trans _ _ _ Hf04 Hf5) as Hf05.
    (* the body *)
    assert (Hbody : exists bd s6,
              (if cur_is A G D E s5 (KOp OBraceLeft)
               then bnd (k_block A G D C E (PA d) s5) (fun b s6 => Ok (Some b) s6)
               else Ok None s5) = Ok bd s6 /\
              erase (nopt bd) = match body with Some b => shape_block b | None => nnone end /\
              at_toks s6 (tk OSemiColon :: rst) /\ frame s5 s6).
    { destruct body as [b |].
      - cbn [popt] in Hat5. cbn [opt2] in Hwb. cbn [omax] in Hd, Hdep, Hl2.
        assert (Hc : cur_is A G D E s5 (KOp OBraceLeft) = true).
        { unfold print_block in Hat5. cbn [app] in Hat5. rewrite (cur_is_toks _ _ _ _ Hat5). reflexivity. }
        rewrite Hc.
        destruct (H_block b (proj1 Hwb) (proj2 Hwb) d s5 (tk OSemiColon :: rst)) as (nb & s6 & Hk & Heb & Hat6 & Hf6).
        + unfold need_block. lia.
        + exact Hat5.
        + unfold depth_block. unframe. lia.
        + unfold depth_block. split; unframe; lia.
        + rewrite Hk. cbn [bind]. exists (Some nb), s6. split; [reflexivity |].
          split; [exact Heb |]. split; [exact Hat6 | exact Hf6].
      - cbn [popt app] in Hat5. rewrite (cur_is_toks _ _ _ _ Hat5).
        change (tok_is (tk OSemiColon) (KOp OBraceLeft)) with false. cbv iota.
        exists None, s5. split; [reflexivity |]. split; [reflexivity |].
        split; [exact Hat5 | apply frame_refl]. }
    destruct Hbody as (bd & s6 & Hbd & Hebd & Hat6 & Hf6).
    rewrite Hbd. cbn [bind].
    destruct (skipped_yes OPS s6 _ _ (KOp OSemiColon) Hat6 eq_refl) as (s7 & Hs & Hat7 & Hf7).
    rewrite Hs. cbn [bind].
    eexists _, s7. split; [reflexivity |].
    split; [| split; [exact Hat7 |
      exact (frame_trans _ _ _ (frame_trans _ _ _ Hf05 Hf6) Hf7)]].
    cbn [shape_funcdecl].
    change (erase (mkd A C GFuncDecl [] [] docs
                     [nopt recvn; n_ident A C pn name; n_functype A C (Some pos) tp ps rs; nopt bd]))
      with (mkd unit unit GFuncDecl [] [] tt
              [erase (nopt recvn); sh_ident name;
               n_functype unit unit (Some tt) (erase tp) (erase ps) (erase rs); erase (nopt bd)]).
    rewrite Herecv, Hetp, Heps, Hers, Hebd. reflexivity.
Qed.

(* ------------------------------------------------------------ top-level declarations *)

(* EXPORT 2 *)
Theorem topdecl_ok : forall td, wf_topdecl td -> forall d (s : pstateT) rst,
  need_topdecl td <= d -> at_toks s (print_topdecl td ++ rst) ->
  sdepth s + depth_topdecl td <= MAX_NESTING -> lev A G D E false s (depth_topdecl td) ->
  exists n s1, parse_top_decl A G D C E OPS (PA d) s = Ok n s1 /\ erase n = shape_topdecl td /\
               at_toks s1 rst /\ frame s s1.
Proof.
  intros [f | dc] Hwf d s rst Hd Hat Hdep Hlev;
    cbn [wf_topdecl need_topdecl depth_topdecl print_topdecl shape_topdecl] in *.
  - assert (Hc : exists p, cur s = Some (p, TKeyword KFunc)).
    { destruct f as [recv name tps sg body]. rewrite print_funcdecl_split in Hat.
      exact (at_toks_cur _ _ _ Hat). }
    destruct Hc as (p & Hc). unfold parse_top_decl. rewrite Hc.
    exact (funcdecl_ok f Hwf d s rst Hd Hat Hdep Hlev).
  - destruct (H_decl dc Hwf d s rst) as (n & s1 & Hk & He & Hat1 & Hf1);
      [lia | exact Hat | lia | exact Hlev |].
    exists n, s1. split; [| split; [exact He | split; [exact Hat1 | exact Hf1]]].
    assert (Hc : exists p, cur s = Some (p, TKeyword (kind_kw (match dc with Decl k _ _ => k end)))).
    { destruct dc as [k [|] specs]; cbn [print_decl app] in Hat; exact (at_toks_cur _ _ _ Hat). }
    destruct Hc as (p & Hc). unfold parse_top_decl. rewrite Hc.
    destruct dc as [[| |] grouped specs]; exact Hk.
Qed.

(* decls_loop runs to the end of the token list *)
Lemma decls_ok : forall decls, all2 wf_topdecl decls -> forall d fuel acc (s : pstateT),
  max2 need_topdecl decls <= d -> sdepth s + max2 depth_topdecl decls <= MAX_NESTING ->
  lev A G D E false s (max2 depth_topdecl decls) ->
  at_toks s (flat_map print_topdecl decls) -> length decls + 1 <= fuel ->
  exists ns s1, decls_loop A G D C E OPS (PA d) fuel acc s = Ok (acc ++ ns) s1 /\
    map erase ns = map shape_topdecl decls /\ at_toks s1 [] /\ frame s s1.
Proof.
  induction decls as [| td r IH]; intros Hwf d fuel acc s Hd Hdep Hlev Hat Hfu.
  - cbn [flat_map] in Hat. destruct fuel as [| f]; [simpl in Hfu; lia |]. cbn [decls_loop].
    rewrite (proj1 (at_toks_nil _ Hat)). exists [], s. rewrite app_nil_r.
    split; [reflexivity |]. split; [reflexivity |]. split; [exact Hat | apply frame_refl].
  - destruct Hwf as (Hwt & Hwr). cbn [flat_map] in Hat. cbn [max2 fold_right] in Hd, Hdep, Hlev.
    fold (max2 need_topdecl r) in Hd. fold (max2 depth_topdecl r) in Hdep, Hlev.
    destruct fuel as [| f]; [simpl in Hfu; lia |]. cbn [decls_loop].
    assert (Hc : exists p t, cur s = Some (p, t)).
    { destruct (print_topdecl_first td) as (k & l & Hp & _). rewrite Hp in Hat. cbn [app] in Hat.
      destruct (at_toks_cur _ _ _ Hat) as (p & Hc). eauto. }
    destruct Hc as (p & t & Hc). rewrite Hc.
    destruct (topdecl_ok td Hwt d s (flat_map print_topdecl r)) as (n & s1 & Hk & He & Hat1 & Hf1).
    + lia.
    + exact Hat.
    + lia.
    + apply (lev_frame A G D E false s s _ _ (frame_refl s) Hlev). lia.
    + rewrite Hk. cbn [bind].
      destruct (IH Hwr d f (acc ++ [n]) s1) as (ns & s2 & Hl & Hes & Hat2 & Hf2).
      * lia.
      * unframe. lia.
      * apply (lev_frame A G D E false s s1 _ _ Hf1 Hlev). lia.
      * exact Hat1.
      * simpl in Hfu. lia.
      * exists (n :: ns), s2. split; [rewrite Hl, <- app_assoc; reflexivity |].
        split; [simpl; rewrite He, Hes; reflexivity |].
        split; [exact Hat2 | exact (frame_trans _ _ _ Hf1 Hf2)].
Qed.

(* ------------------------------------------------------------ files *)

(* EXPORT 4 (no slack needed in either bound) *)
Theorem file_roundtrip : forall f, wf_file f -> depth_file f <= DEPTH_BOUND2 ->
  forall d a0 d0 (elems : list (selem A G)) ae ge,
    map tok_of elems = print_file f -> need_file f <= d ->
    exists n s',
      parse_file A G D C E OPS (PA d) (init_state A G D E a0 d0 elems (TEof ae ge)) = Ok n s' /\
      erase n = shape_file f /\ s_cur A G D E s' = None /\ s_rest A G D E s' = [].
Proof.
  intros [pkg imports decls] (Hpkg & Hwi & Hwd) Hb d a0 d0 elems ae ge Hel Hd.
  unfold DEPTH_BOUND2 in Hb. cbn [depth_file] in Hb. cbn [need_file] in Hd.
  set (si := init_state A G D E a0 d0 elems (TEof ae ge)).
  assert (Hr : rest_toks A G D E si (print_file (File pkg imports decls))).
  { split; [exists ae, ge; reflexivity | exact Hel]. }
  destruct (next_toks OPS si _ Hr) as (s0 & Hn & Hat0 & Hf0).
  unfold parse_file, ensure_started.
  change (s_started A G D E si) with false. cbv iota. rewrite Hn. cbn [bind].
  destruct Hf0 as (Hd0 & k & Ha & Hb0).
  change (sdepth si) with 0 in Hd0. change (lp si) with 1 in Ha. change (ln si) with 0 in Hb0.
  destruct (drain A G D C E OPS s0) as [docs s1] eqn:Hdr.
  destruct (drain_toks A G D C E OPS s0 docs s1 Hdr) as (Hat1f & Hf1 & _ & _).
  pose proof (Hat1f _ Hat0) as Hat1. cbn [print_file] in Hat1.
  (* the package clause *)
  destruct (expect_toks OPS s1 _ _ (KKw KPackage) 130 Hat1 eq_refl) as (p0 & s2 & Hx & Hat2 & Hf2).
  destruct (identifier_toks OPS s2 pkg _ 131 Hat2) as (pn & s3 & Hi & Hat3 & Hf3).
  assert (Hpk : parse_package A G D C E OPS s1 = Ok (n_ident A C pn pkg) s3).
  { unfold parse_package. rewrite Hx. cbn [bind]. rewrite Hi. cbn [bind].
    change (ident_name A C (n_ident A C pn pkg)) with pkg.
    rewrite (blank_false pkg Hpkg). reflexivity. }
  rewrite Hpk. cbn [bind].
  destruct (skipped_yes OPS s3 _ _ (KOp OSemiColon) Hat3 eq_refl) as (s4 & Hs & Hat4 & Hf4).
  rewrite Hs. cbn [bind].
  pose proof (frame_trans _ _ _ (frame_trans _ _ _ (frame_trans _ _ _ Hf1 Hf2) Hf3) Hf4) as Hf04.
  (* the imports *)
  destruct (imports_ok imports Hwi (loop_fuel A G D E s4) [] s4 (flat_map print_topdecl decls) Hat4)
    as (ims & s5 & Him & Heim & Hat5 & Hf5).
  { destruct decls as [| td r]; [exact I |]. cbn [flat_map].
    destruct (print_topdecl_first td) as (k0 & l & -> & Hk0). cbn [app].
    destruct Hk0 as [-> | [-> | [-> | ->]]]; reflexivity. }
  { pose proof (loop_fuel_toks _ _ Hat4) as H. rewrite app_length in H.
    pose proof (flat_map_len_ge _ print_import imports print_import_len). lia. }
  rewrite Him. cbn [bind app].
  pose proof (frame_trans _ _ _ Hf04 Hf5) as Hf05.
  (* the declarations *)
  destruct (decls_ok decls Hwd d (loop_fuel A G D E s5) [] s5) as (ds & s6 & Hds & Heds & Hat6 & Hf6).
  - exact Hd.
  - unfold MAX_NESTING. unframe. lia.
  - split; unframe; lia.
  - exact Hat5.
  - pose proof (loop_fuel_toks _ _ Hat5) as H.
    pose proof (flat_map_len_ge _ print_topdecl decls print_topdecl_len). lia.
  - rewrite Hds. cbn [bind app]. eexists _, s6. split; [reflexivity |].
    split; [| exact (at_toks_nil _ Hat6)].
    cbn [shape_file].
    change (erase (mkd A C GFile [] [] docs [n_ident A C pn pkg; nlist ims; nlist ds]))
      with (mkd unit unit GFile [] [] tt [sh_ident pkg; nlist (map erase ims); nlist (map erase ds)]).
    rewrite Heim, Heds. reflexivity.
Qed.

End RTFile.
