(* C03 (shapes) — the places where the tree is assembled after the fact:
   1. reset_chan_arrow          (channel direction association)
   2. parse_simple_stmt         (statement kind from the token after the list)
   3. parse_parameter_decl      (parameter grouping)
   4. parse_if_header / if_body / parse_for_stmt   (header slots)
   Every statement is about the model's own functions, for every instance of
   the polymorphic core and (parts 2-4) for ARBITRARY recursive parsers. *)
From Coq Require Import List Arith NArith Lia Bool.
From GoSyn Require Import Token Tok Ast Core.
From GoSyn.proofs Require Import PrecProofs.
Import ListNotations.

(* ================================================================== 1. channels *)

(* ---- the abstract channel nest: directions, outermost first *)

Section Nest.
Variables (A C : Type).
Notation nodeT := (node A C).

(* the direction attribute as reset_chan_arrow reads it *)
Definition dir_of (ats : list attr) : nat :=
  match ats with ADir d :: _ => d | _ => 0 end.

(* chan d1 (chan d2 (... T)): the directions d1 d2 ... down the FIRST child while
   the node is a TypeChannel *)
Fixpoint directions (n : nodeT) : list nat :=
  match n with
  | Nd t _ ats _ ks =>
      if tag_eqb t GTypeChannel then
        dir_of ats :: match ks with k :: _ => directions k | [] => [] end
      else []
  end.

(* the element: the first node down the nest that is not a channel (None: a
   channel node without children, which no production builds) *)
Fixpoint chan_elem (n : nodeT) : option nodeT :=
  match n with
  | Nd t _ _ _ ks =>
      if tag_eqb t GTypeChannel then
        match ks with k :: _ => chan_elem k | [] => None end
      else Some n
  end.

(* everything but positions and directions along the nest: channel nodes lose
   their positions and attributes, what hangs below the nest is kept as it is *)
Fixpoint undirected (n : nodeT) : nodeT :=
  match n with
  | Nd t ps ats d ks =>
      if tag_eqb t GTypeChannel then
        Nd t [] [] d (match ks with k :: r => undirected k :: r | [] => [] end)
      else n
  end.

(* the `chan` keyword positions and the arrow positions down the nest (a missing
   position reads as [dflt], as in reset_chan_arrow) *)
Fixpoint chan_poss (dflt : A) (n : nodeT) : list A :=
  match n with
  | Nd t ps _ _ ks =>
      if tag_eqb t GTypeChannel then
        nth 0 ps dflt :: match ks with k :: _ => chan_poss dflt k | [] => [] end
      else []
  end.
Fixpoint arrow_poss (dflt : A) (n : nodeT) : list A :=
  match n with
  | Nd t ps _ _ ks =>
      if tag_eqb t GTypeChannel then
        nth 1 ps dflt :: match ks with k :: _ => arrow_poss dflt k | [] => [] end
      else []
  end.

(* a nest as the productions build it: two positions, exactly the direction
   attribute (0, 1 or 2), exactly one child *)
Fixpoint chan_wf (n : nodeT) : Prop :=
  match n with
  | Nd t ps ats _ ks =>
      if tag_eqb t GTypeChannel then
        length ps = 2 /\ (exists d, ats = [ADir d] /\ d <= 2) /\
        match ks with [k] => chan_wf k | _ => False end
      else True
  end.

End Nest.
Arguments directions {A C}.
Arguments chan_elem {A C}.
Arguments undirected {A C}.
Arguments chan_poss {A C}.
Arguments arrow_poss {A C}.
Arguments chan_wf {A C}.

(* ---- re-association on direction lists.  0 = `chan`, 2 = `<-chan`, anything
   else is read as `chan<-` (the productions only build 1) *)
Fixpoint reassoc (l : list nat) : option (list nat) :=
  match l with
  | [] => None
  | 0 :: r => Some (2 :: r)
  | 2 :: _ => None
  | _ :: r => option_map (cons 2) (reassoc r)
  end.

(* how many levels change: the leading sends and the bare channel after them *)
Fixpoint reassoc_depth (l : list nat) : nat :=
  match l with
  | [] => 0
  | 0 :: _ => 1
  | 2 :: _ => 0
  | _ :: r => S (reassoc_depth r)
  end.

Inductive chan_err : Set := ErrRecv | ErrElem.   (* sites 71 / 72 *)
Fixpoint reassoc_err (l : list nat) : option chan_err :=
  match l with
  | [] => Some ErrElem
  | 0 :: _ => None
  | 2 :: _ => Some ErrRecv
  | _ :: r => reassoc_err r
  end.

(* closed forms *)
Lemma reassoc_some_iff : forall l l', Forall (fun d => d <= 2) l ->
  (reassoc l = Some l' <->
   exists k r, l = repeat 1 k ++ 0 :: r /\ l' = repeat 2 (S k) ++ r).
Proof.
  induction l as [| d l IH]; intros l' Hall.
  - split; [intro H; discriminate H |].
    intros [k [r [H _]]]. destruct k; discriminate H.
  - inversion Hall as [| d0 l0 Hd Hl]; subst d0 l0.
    destruct d as [| [| [| d]]]; simpl.
    + split.
      * intro H. injection H as H. exists 0, l. split; [reflexivity | symmetry; exact H].
      * intros [k [r [H1 H2]]]. destruct k as [| k]; simpl in H1.
        -- injection H1 as H1. subst r. rewrite H2. reflexivity.
        -- discriminate H1.
    + split.
      * intro H. destruct (reassoc l) as [m |] eqn:Hm; [| discriminate H].
        simpl in H. injection H as H. subst l'.
        destruct (proj1 (IH m Hl) eq_refl) as [k [r [H1 H2]]].
        exists (S k), r. split; simpl; [rewrite H1; reflexivity | rewrite H2; reflexivity].
      * intros [k [r [H1 H2]]]. destruct k as [| k]; simpl in H1; [discriminate H1 |].
        injection H1 as H1.
        assert (Hr : reassoc l = Some (repeat 2 (S k) ++ r)).
        { apply (IH _ Hl). exists k, r. split; [exact H1 | reflexivity]. }
        rewrite Hr. simpl. rewrite H2. reflexivity.
    + split; [intro H; discriminate H |].
      intros [k [r [H1 _]]]. destruct k; discriminate H1.
    + exfalso. lia.
Qed.

Lemma reassoc_none_iff : forall l, Forall (fun d => d <= 2) l ->
  (reassoc l = None <->
   (exists k r, l = repeat 1 k ++ 2 :: r) \/ (exists k, l = repeat 1 k)).
Proof.
  induction l as [| d l IH]; intro Hall.
  - split; [intros _; right; exists 0; reflexivity | reflexivity].
  - inversion Hall as [| d0 l0 Hd Hl]; subst d0 l0.
    destruct d as [| [| [| d]]]; simpl.
    + split; [intro H; discriminate H |].
      intros [[k [r H]] | [k H]]; destruct k; discriminate H.
    + destruct (reassoc l) as [m |] eqn:Hm; simpl.
      * split; [intro H; discriminate H |].
        intros [[k [r H]] | [k H]]; (destruct k as [| k]; simpl in H; [discriminate H |]);
          injection H as H; exfalso;
          assert (X : Some m = None) by
            (apply (proj2 (IH Hl)); first [left; exists k, r; exact H | right; exists k; exact H]);
          discriminate X.
      * split; [| reflexivity]. intros _.
        destruct (proj1 (IH Hl) eq_refl) as [[k [r H]] | [k H]].
        -- left. exists (S k), r. simpl. rewrite H. reflexivity.
        -- right. exists (S k). simpl. rewrite H. reflexivity.
    + split; [| reflexivity]. intros _. left. exists 0, l. reflexivity.
    + exfalso. lia.
Qed.

Lemma reassoc_err_spec : forall l,
  match reassoc_err l with
  | None => reassoc l <> None
  | Some _ => reassoc l = None
  end.
Proof.
  induction l as [| d l IH]; simpl; [reflexivity |].
  destruct d as [| [| [| d]]]; simpl.
  - intro H; discriminate H.
  - destruct (reassoc_err l); [rewrite IH; reflexivity |].
    destruct (reassoc l); [intro H; discriminate H | exact IH].
  - reflexivity.
  - destruct (reassoc_err l); [rewrite IH; reflexivity |].
    destruct (reassoc l); [intro H; discriminate H | exact IH].
Qed.

(* which of the two errors: a receive-only channel where an arrow must be
   absorbed, or sends down to a non-channel element *)
Lemma reassoc_err_recv_iff : forall l, Forall (fun d => d <= 2) l ->
  (reassoc_err l = Some ErrRecv <-> exists k r, l = repeat 1 k ++ 2 :: r).
Proof.
  induction l as [| d l IH]; intro Hall.
  - split; [intro H; discriminate H |]. intros [k [r H]]. destruct k; discriminate H.
  - inversion Hall as [| d0 l0 Hd Hl]; subst d0 l0.
    destruct d as [| [| [| d]]]; simpl.
    + split; [intro H; discriminate H |]. intros [k [r H]]. destruct k; discriminate H.
    + split.
      * intro H. destruct (proj1 (IH Hl) H) as [k [r Hk]]. exists (S k), r.
        simpl. rewrite Hk. reflexivity.
      * intros [k [r H]]. destruct k as [| k]; simpl in H; [discriminate H |].
        injection H as H. apply (IH Hl). exists k, r. exact H.
    + split; [| reflexivity]. intros _. exists 0, l. reflexivity.
    + exfalso. lia.
Qed.

Lemma reassoc_err_elem_iff : forall l, Forall (fun d => d <= 2) l ->
  (reassoc_err l = Some ErrElem <-> exists k, l = repeat 1 k).
Proof.
  induction l as [| d l IH]; intro Hall.
  - split; [intros _; exists 0; reflexivity | reflexivity].
  - inversion Hall as [| d0 l0 Hd Hl]; subst d0 l0.
    destruct d as [| [| [| d]]]; simpl.
    + split; [intro H; discriminate H |]. intros [k H]. destruct k; discriminate H.
    + split.
      * intro H. destruct (proj1 (IH Hl) H) as [k Hk]. exists (S k).
        simpl. rewrite Hk. reflexivity.
      * intros [k H]. destruct k as [| k]; simpl in H; [discriminate H |].
        injection H as H. apply (IH Hl). exists k. exact H.
    + split; [intro H; discriminate H |]. intros [k H]. destruct k as [| k]; discriminate H.
    + exfalso. lia.
Qed.

Lemma reassoc_depth_pos : forall l, l <> [] -> reassoc_err l <> Some ErrRecv ->
  reassoc_depth l = S (pred (reassoc_depth l)).
Proof.
  intros [| d l] Hne Herr; [contradiction Hne; reflexivity |].
  destruct d as [| [| [| d]]]; simpl; try reflexivity.
  exfalso. apply Herr. reflexivity.
Qed.

(* ---- reset_chan_arrow against reassoc *)

Section Chan.
Variables (A C E : Type).
Notation nodeT := (node A C).
Notation rca := (reset_chan_arrow A C E).

Definition chan_err_of (e : perr A E) : option chan_err :=
  match e with
  | PUnexpected _ (Some (TOperator OArrow)) 71 => Some ErrRecv
  | PElse _ 72 => Some ErrElem
  | _ => None
  end.

(* the arrow positions after re-association: the unary `<-` goes to the outermost
   channel, the arrow of every absorbed `chan<-` moves one level in *)
Fixpoint shift_arrows (n : nat) (pos : A) (arrows : list A) : list A :=
  match n, arrows with
  | S m, a :: r => pos :: shift_arrows m a r
  | _, _ => arrows
  end.

Lemma rca_unfold : forall pos t ps ats d ks,
  rca pos (Nd t ps ats d ks) =
  match dir_of ats with
  | 2 => inr (PUnexpected (nth 1 ps pos) (Some (TOperator OArrow)) 71)
  | 0 => inl (Nd t [nth 0 ps pos; pos] [ADir 2] d ks)
  | _ =>
      match ks with
      | inner :: rest =>
          if is_tag GTypeChannel inner then
            match rca (nth 1 ps pos) inner with
            | inl inner' => inl (Nd t [nth 0 ps pos; pos] [ADir 2] d (inner' :: rest))
            | inr e => inr e
            end
          else inr (else_error_at A E (nth 1 ps pos) 72)
      | [] => inr (else_error_at A E (nth 1 ps pos) 72)
      end
  end.
Proof. intros. reflexivity. Qed.

Lemma directions_not_chan : forall (n : nodeT),
  is_tag GTypeChannel n = false -> directions n = [].
Proof.
  intros [t ps ats d ks] H. unfold is_tag in H. simpl in H. simpl. rewrite H. reflexivity.
Qed.

(* 1a. directions, element and everything that is not a position or a direction *)
Theorem reset_chan_arrow_spec : forall (typ : nodeT) (pos : A),
  is_tag GTypeChannel typ = true ->
  match rca pos typ with
  | inl typ' =>
      reassoc (directions typ) = Some (directions typ') /\
      is_tag GTypeChannel typ' = true /\
      chan_elem typ' = chan_elem typ /\
      undirected typ' = undirected typ
  | inr e =>
      reassoc (directions typ) = None /\
      chan_err_of e = reassoc_err (directions typ)
  end.
Proof.
  intro typ.
  assert (Hgen : forall n (typ : nodeT) pos, length (directions typ) <= n ->
    is_tag GTypeChannel typ = true ->
    match rca pos typ with
    | inl typ' =>
        reassoc (directions typ) = Some (directions typ') /\
        is_tag GTypeChannel typ' = true /\
        chan_elem typ' = chan_elem typ /\
        undirected typ' = undirected typ
    | inr e =>
        reassoc (directions typ) = None /\
        chan_err_of e = reassoc_err (directions typ)
    end).
  { clear typ. induction n as [| n IH]; intros [t ps ats d ks] pos Hlen Htag;
      unfold is_tag in Htag; simpl in Htag; simpl in Hlen; rewrite Htag in Hlen; simpl in Hlen.
    - exfalso. lia.
    - rewrite rca_unfold. simpl directions. simpl chan_elem. simpl undirected. rewrite Htag.
      destruct (dir_of ats) as [| [| [| d3]]] eqn:Hd.
      + simpl. unfold is_tag. simpl. rewrite Htag. repeat split; reflexivity.
      + destruct ks as [| inner rest].
        * simpl. split; reflexivity.
        * destruct (is_tag GTypeChannel inner) eqn:Hin.
          -- assert (Hl : length (directions inner) <= n) by lia.
             specialize (IH inner (nth 1 ps pos) Hl Hin).
             destruct (rca (nth 1 ps pos) inner) as [inner' | e].
             ++ destruct IH as [H1 [H2 [H3 H4]]].
                simpl. rewrite H1. simpl. unfold is_tag. simpl. rewrite Htag.
                rewrite H3, H4. repeat split; reflexivity.
             ++ destruct IH as [H1 H2]. simpl. rewrite H1. split; [reflexivity | exact H2].
          -- rewrite (directions_not_chan inner Hin). simpl. split; reflexivity.
      + simpl. split; reflexivity.
      + destruct ks as [| inner rest].
        * simpl. split; reflexivity.
        * destruct (is_tag GTypeChannel inner) eqn:Hin.
          -- assert (Hl : length (directions inner) <= n) by lia.
             specialize (IH inner (nth 1 ps pos) Hl Hin).
             destruct (rca (nth 1 ps pos) inner) as [inner' | e].
             ++ destruct IH as [H1 [H2 [H3 H4]]].
                simpl. rewrite H1. simpl. unfold is_tag. simpl. rewrite Htag.
                rewrite H3, H4. repeat split; reflexivity.
             ++ destruct IH as [H1 H2]. simpl. rewrite H1. split; [reflexivity | exact H2].
          -- rewrite (directions_not_chan inner Hin). simpl. split; reflexivity. }
  intros pos Htag. apply (Hgen (length (directions typ))); [apply le_n | exact Htag].
Qed.

(* 1b. positions, on nests as the productions build them: the `chan` positions
   stay, the arrow positions shift one level in, the error points at the arrow
   that cannot be absorbed *)
Theorem reset_chan_arrow_positions : forall (typ : nodeT) (pos dflt : A),
  is_tag GTypeChannel typ = true -> chan_wf typ ->
  match rca pos typ with
  | inl typ' =>
      chan_wf typ' /\
      chan_poss dflt typ' = chan_poss dflt typ /\
      arrow_poss dflt typ' =
        shift_arrows (reassoc_depth (directions typ)) pos (arrow_poss dflt typ)
  | inr e =>
      e = match reassoc_err (directions typ) with
          | Some ErrRecv =>
              PUnexpected (nth (reassoc_depth (directions typ)) (arrow_poss dflt typ) dflt)
                          (Some (TOperator OArrow)) 71
          | _ =>
              PElse (nth (pred (reassoc_depth (directions typ))) (arrow_poss dflt typ) dflt) 72
          end
  end.
Proof.
  intros typ pos dflt. revert pos.
  assert (Hgen : forall n (typ : nodeT) pos, length (directions typ) <= n ->
    is_tag GTypeChannel typ = true -> chan_wf typ ->
    match rca pos typ with
    | inl typ' =>
        chan_wf typ' /\
        chan_poss dflt typ' = chan_poss dflt typ /\
        arrow_poss dflt typ' =
          shift_arrows (reassoc_depth (directions typ)) pos (arrow_poss dflt typ)
    | inr e =>
        e = match reassoc_err (directions typ) with
            | Some ErrRecv =>
                PUnexpected (nth (reassoc_depth (directions typ)) (arrow_poss dflt typ) dflt)
                            (Some (TOperator OArrow)) 71
            | _ =>
                PElse (nth (pred (reassoc_depth (directions typ))) (arrow_poss dflt typ) dflt) 72
            end
    end).
  { clear typ. induction n as [| n IH]; intros [t ps ats d ks] pos Hlen Htag Hwf;
      unfold is_tag in Htag; simpl in Htag; simpl in Hlen; rewrite Htag in Hlen; simpl in Hlen.
    - exfalso. lia.
    - simpl in Hwf. rewrite Htag in Hwf. destruct Hwf as [Hps [[dir [Hats Hdir]] Hks]].
      destruct ps as [| c [| a [| x ps]]]; try discriminate Hps.
      destruct ks as [| k [| k2 ks]]; try contradiction Hks.
      subst ats. rewrite rca_unfold. simpl directions. simpl chan_poss. simpl arrow_poss.
      rewrite Htag. simpl dir_of. simpl nth.
      destruct dir as [| [| [| d3]]]; [| | | exfalso; lia].
      + simpl. rewrite Htag. split; [| split; reflexivity].
        split; [reflexivity |]. split; [exists 2; split; [reflexivity | lia] | exact Hks].
      + destruct (is_tag GTypeChannel k) eqn:Hin.
        * assert (Hl : length (directions k) <= n) by lia.
          specialize (IH k a Hl Hin Hks).
          destruct (rca a k) as [k' | e].
          -- destruct IH as [H1 [H2 H3]]. simpl. rewrite Htag. rewrite H2, H3.
             split; [| split; reflexivity].
             split; [reflexivity |]. split; [exists 2; split; [reflexivity | lia] | exact H1].
          -- rewrite IH. simpl.
             assert (Hne : directions k <> []).
             { destruct k as [t' ps' ats' d' ks']. unfold is_tag in Hin. simpl in Hin.
               simpl. rewrite Hin. intro H; discriminate H. }
             destruct (reassoc_err (directions k)) as [[|] |] eqn:He; try reflexivity;
               (rewrite (reassoc_depth_pos (directions k) Hne);
                [reflexivity | rewrite He; intro H; discriminate H]).
        * rewrite (directions_not_chan k Hin). simpl. reflexivity.
      + simpl. reflexivity. }
  intros pos Htag Hwf. apply (Hgen (length (directions typ))); [apply le_n | exact Htag | exact Hwf].
Qed.

End Chan.

(* ---- the spec reading of the token sequence.  A channel nest is spelled
   chan^(d1) chan^(d2) ... T  with  chan^(0) = `chan`, chan^(1) = `chan <-`,
   chan^(2) = `<- chan`;  T, the first non-channel element, is one symbol.  The
   spec: "The <- operator associates with the leftmost chan possible." *)

Inductive ctok : Set := CArrow | CChan | CElem.

Definition spell1 (d : nat) : list ctok :=
  match d with
  | 0 => [CChan]
  | 2 => [CArrow; CChan]
  | _ => [CChan; CArrow]
  end.
Fixpoint spell (l : list nat) : list ctok :=
  match l with
  | [] => [CElem]
  | d :: r => spell1 d ++ spell r
  end.

(* ChannelType = ( "chan" | "chan" "<-" | "<-" "chan" ) ElementType, read greedily:
   an arrow right after `chan` belongs to that `chan` *)
Fixpoint read_chan (ts : list ctok) : option (list nat) :=
  match ts with
  | CElem :: _ => Some []
  | CArrow :: CChan :: r => option_map (cons 2) (read_chan r)
  | CChan :: r =>
      match r with
      | CArrow :: r' => option_map (cons 1) (read_chan r')
      | _ => option_map (cons 0) (read_chan r)
      end
  | _ => None
  end.

(* no bare `chan` directly in front of a `<-chan`: that spelling reads as
   `chan<- chan`, and the channel production (which takes the arrow after `chan`
   when there is one) never builds it without parentheses *)
Fixpoint canon (l : list nat) : Prop :=
  match l with
  | [] => True
  | d :: r => (d = 0 -> hd 1 r <> 2) /\ canon r
  end.

(* the reader inverts the spelling of canonical nests *)
Lemma read_spell : forall l, Forall (fun d => d <= 2) l -> canon l ->
  read_chan (spell l) = Some l.
Proof.
  induction l as [| d l IH]; intros Hall Hc; [reflexivity |].
  inversion Hall as [| d0 l0 Hd Hl]; subst d0 l0. destruct Hc as [Hc0 Hc].
  specialize (IH Hl Hc).
  destruct d as [| [| [| d]]]; [| | | exfalso; lia].
  - change (spell (0 :: l)) with (CChan :: spell l). 
    assert (Hhd : forall r', spell l <> CArrow :: r').
    { intros r' H. destruct l as [| [| [| [| d]]] l]; simpl in H; try discriminate H.
      apply (Hc0 eq_refl). reflexivity. }
    simpl. destruct (spell l) as [| [| |] r'] eqn:Hs.
    + rewrite IH. reflexivity.
    + exfalso. apply (Hhd r'). reflexivity.
    + rewrite IH. reflexivity.
    + rewrite IH. reflexivity.
  - change (spell (1 :: l)) with (CChan :: CArrow :: spell l). simpl. rewrite IH. reflexivity.
  - change (spell (2 :: l)) with (CArrow :: CChan :: spell l). simpl. rewrite IH. reflexivity.
Qed.

(* `<-` in front of the nest the unary-expression parser has read: the token
   string is the spelling of the re-associated nest ... *)
Theorem reassoc_same_tokens : forall l l',
  reassoc l = Some l' -> spell l' = CArrow :: spell l.
Proof.
  induction l as [| d l IH]; intros l' H; [discriminate H |].
  destruct d as [| [| [| d]]]; simpl in H.
  - injection H as H. subst l'. reflexivity.
  - destruct (reassoc l) as [m |]; [| discriminate H]. simpl in H. injection H as H. subst l'.
    change (spell (2 :: m)) with (CArrow :: CChan :: spell m). rewrite (IH m eq_refl). reflexivity.
  - discriminate H.
  - destruct (reassoc l) as [m |]; [| discriminate H]. simpl in H. injection H as H. subst l'.
    change (spell (2 :: m)) with (CArrow :: CChan :: spell m). rewrite (IH m eq_refl). reflexivity.
Qed.

Lemma reassoc_bound : forall l l', Forall (fun d => d <= 2) l ->
  reassoc l = Some l' -> Forall (fun d => d <= 2) l'.
Proof.
  induction l as [| d l IH]; intros l' Hall H; [discriminate H |].
  inversion Hall as [| d0 l0 Hd Hl]; subst d0 l0.
  destruct d as [| [| [| d]]]; simpl in H.
  - injection H as H. subst l'. constructor; [lia | exact Hl].
  - destruct (reassoc l) as [m |]; [| discriminate H]. simpl in H. injection H as H. subst l'.
    constructor; [lia | apply IH; [exact Hl | reflexivity]].
  - discriminate H.
  - exfalso. lia.
Qed.

Lemma reassoc_canon : forall l l', canon l -> reassoc l = Some l' -> canon l'.
Proof.
  induction l as [| d l IH]; intros l' Hc H; [discriminate H |].
  destruct Hc as [Hc0 Hc].
  destruct d as [| [| [| d]]]; simpl in H.
  - injection H as H. subst l'. split; [intro H; discriminate H | exact Hc].
  - destruct (reassoc l) as [m |]; [| discriminate H]. simpl in H. injection H as H. subst l'.
    split; [intro H; discriminate H | apply IH; [exact Hc | reflexivity]].
  - discriminate H.
  - destruct (reassoc l) as [m |]; [| discriminate H]. simpl in H. injection H as H. subst l'.
    split; [intro H; discriminate H | apply IH; [exact Hc | reflexivity]].
Qed.

(* ... and the re-associated nest IS the spec's reading of that token string;
   where reset_chan_arrow fails, the string is not a channel type *)
Theorem read_arrow_spell : forall l, Forall (fun d => d <= 2) l -> canon l ->
  read_chan (CArrow :: spell l) = reassoc l.
Proof.
  induction l as [| d l IH]; intros Hall Hc; [reflexivity |].
  inversion Hall as [| d0 l0 Hd Hl]; subst d0 l0. destruct Hc as [Hc0 Hc].
  destruct d as [| [| [| d]]]; [| | | exfalso; lia].
  - change (spell (0 :: l)) with (CChan :: spell l).
    change (read_chan (CArrow :: CChan :: spell l)) with (option_map (cons 2) (read_chan (spell l))).
    rewrite (read_spell l Hl Hc). reflexivity.
  - change (spell (1 :: l)) with (CChan :: CArrow :: spell l).
    change (read_chan (CArrow :: CChan :: CArrow :: spell l))
      with (option_map (cons 2) (read_chan (CArrow :: spell l))).
    rewrite (IH Hl Hc). reflexivity.
  - reflexivity.
Qed.

(* the model on trees, the spec on tokens *)
Theorem reset_chan_arrow_reads : forall (A C E : Type) (typ : node A C) (pos : A),
  is_tag GTypeChannel typ = true ->
  Forall (fun d => d <= 2) (directions typ) -> canon (directions typ) ->
  match reset_chan_arrow A C E pos typ with
  | inl typ' =>
      spell (directions typ') = CArrow :: spell (directions typ) /\
      read_chan (CArrow :: spell (directions typ)) = Some (directions typ') /\
      canon (directions typ') /\ Forall (fun d => d <= 2) (directions typ')
  | inr _ => read_chan (CArrow :: spell (directions typ)) = None
  end.
Proof.
  intros A C E typ pos Htag Hall Hc.
  pose proof (reset_chan_arrow_spec A C E typ pos Htag) as H.
  destruct (reset_chan_arrow A C E pos typ) as [typ' | e].
  - destruct H as [H1 _]. split; [apply reassoc_same_tokens; exact H1 |].
    split; [rewrite read_arrow_spell; assumption |].
    split; [eapply reassoc_canon; eassumption | eapply reassoc_bound; eassumption].
  - destruct H as [H1 _]. rewrite read_arrow_spell; assumption.
Qed.

(* ---- examples: the nests are built by the closed parser from token lists *)

(* ================================================================== 2. simple statements *)

Inductive simple_class : Set :=
| CAssign (op : operator) | CLabel | CSend | CIncDec (op : operator) | CExpr.

(* the statement kind, from the token that follows the expression list *)
Definition classify_simple (tok : token) : simple_class :=
  match tok with
  | TOperator op =>
      if is_assign_op op then CAssign op
      else match op with
           | OColon => CLabel
           | OArrow => CSend
           | OInc | ODec => CIncDec op
           | _ => CExpr
           end
  | _ => CExpr
  end.

Lemma op_eqb_true : forall a b, op_eqb a b = true -> a = b.
Proof. intros a b H. destruct a; destruct b; try reflexivity; discriminate H. Qed.

Section Stmt.
Variables (A G D C E : Type).
Variable OPS : ops A G D C.
Variable self : parsers A G D C E.
Notation nodeT := (node A C).
Notation pstateT := (pstate A G D E).
Notation resT := (res A G D E).
Notation cur := (s_cur A G D E).
Notation curis := (cur_is A G D E).
Notation nextT := (next A G D C E OPS).
Notation expectT := (expect A G D C E OPS).
Notation el := (expression_list A G D C E OPS self).
Notation pss := (parse_simple_stmt A G D C E OPS self).
Notation kexpr := (k_expr A G D C E self).
Notation kstmt := (k_stmt A G D C E self).
Notation kblock := (k_block A G D C E self).
Notation mkT := (mk A C).
Notation errat := (else_error_at A E).
Notation idents := (forallb (is_tag (A:=A) (C:=C) GIdent)).

(* an expression list is never empty *)
Lemma comma_list_loop_acc : forall fuel item (acc l : list nodeT) (s s' : pstateT),
  comma_list_loop A G D C E OPS fuel item acc s = Ok l s' -> exists ext, l = acc ++ ext.
Proof.
  induction fuel as [| f IH]; intros item acc l s s' H; simpl in H; [discriminate H |].
  unfold skipped in H. destruct (curis s (KOp OComma)).
  - destruct (nextT s) as [u s1 | e s1 | k |]; simpl in H; try discriminate H.
    destruct (item s1) as [x s2 | e s2 | k |]; simpl in H; try discriminate H.
    destruct (IH _ _ _ _ _ H) as [ext Hext]. exists (x :: ext).
    rewrite Hext. rewrite <- app_assoc. reflexivity.
  - simpl in H. injection H as H _. exists []. rewrite app_nil_r. symmetry. exact H.
Qed.

Lemma expression_list_nonempty : forall s l s', el s = Ok l s' -> 1 <= length l.
Proof.
  intros s l s' H. unfold expression_list in H.
  destruct (kexpr s) as [x s1 | e s1 | k |]; cbn [bind] in H; try discriminate H.
  destruct (comma_list_loop_acc _ _ _ _ _ _ H) as [ext Hext]. rewrite Hext. simpl. lia.
Qed.

(* check_assign_stmt: every left-hand side of `:=` is an identifier *)
Lemma check_assign_ok : forall (l : list nodeT) (s : pstateT),
  idents l = true -> check_assign_stmt A G D C E l s = Ok tt s.
Proof.
  induction l as [| e l IH]; intros s H; simpl; [reflexivity |].
  simpl in H. apply andb_true_iff in H. destruct H as [H1 H2]. rewrite H1. apply IH. exact H2.
Qed.

Lemma check_assign_err : forall (l1 l2 : list nodeT) e0 (s : pstateT),
  idents l1 = true -> is_tag GIdent e0 = false ->
  check_assign_stmt A G D C E (l1 ++ e0 :: l2) s =
  match expr_pos A C e0 with
  | Some p => Err (errat p 75) s
  | None => Panic 642
  end.
Proof.
  induction l1 as [| e l1 IH]; intros l2 e0 s H1 H2; simpl.
  - rewrite H2. reflexivity.
  - simpl in H1. apply andb_true_iff in H1. destruct H1 as [Ha Hb]. rewrite Ha. apply IH; assumption.
Qed.

Lemma check_assign_inv : forall (l : list nodeT) (s s' : pstateT) u,
  check_assign_stmt A G D C E l s = Ok u s' -> idents l = true /\ s' = s.
Proof.
  induction l as [| e l IH]; intros s s' u H; simpl in H.
  - injection H as _ H. split; [reflexivity | symmetry; exact H].
  - simpl. destruct (is_tag GIdent e).
    + simpl. apply IH with (u := u). exact H.
    + destruct (expr_pos A C e); discriminate H.
Qed.

(* ---- forward: one lemma per token class *)

Section Forward.
Variables (s s1 : pstateT) (l : list nodeT).
Hypothesis Hel : el s = Ok l s1.

Lemma ss_eof : cur s1 = None -> pss s = Err (else_error A G D E s1 76) s1.
Proof. intro Hc. unfold parse_simple_stmt. rewrite Hel. simpl. rewrite Hc. reflexivity. Qed.

(* `=`  `:=`  `op=`  with an expression list on the right *)
Lemma ss_assign : forall pos op s2 r s3,
  cur s1 = Some (pos, TOperator op) -> is_assign_op op = true ->
  nextT s1 = Ok tt s2 ->
  curis s2 (KKw KRange) && (op_eqb op OAssign || op_eqb op ODefine) = false ->
  el s2 = Ok r s3 ->
  (op = ODefine -> idents l = true) ->
  pss s = if length l <? length r then Err (errat pos 77) s3
          else Ok (mkT GAssign [pos] [AOp op] [nlist l; nlist r]) s3.
Proof.
  intros pos op s2 r s3 Hc Ha Hn Hr Hel2 Hid.
  unfold parse_simple_stmt. rewrite Hel. simpl. rewrite Hc, Ha, Hn. simpl. rewrite Hr, Hel2. simpl.
  destruct (op_eqb op ODefine) eqn:Hd.
  - rewrite (check_assign_ok l s3 (Hid (op_eqb_true _ _ Hd))). reflexivity.
  - reflexivity.
Qed.

(* `:=` with a left-hand side that is not an identifier *)
Lemma ss_define_err : forall pos s2 r s3 l1 e0 l2,
  cur s1 = Some (pos, TOperator ODefine) ->
  nextT s1 = Ok tt s2 -> curis s2 (KKw KRange) = false -> el s2 = Ok r s3 ->
  l = l1 ++ e0 :: l2 -> idents l1 = true -> is_tag GIdent e0 = false ->
  pss s = match expr_pos A C e0 with
          | Some p => Err (errat p 75) s3
          | None => Panic 642
          end.
Proof.
  intros pos s2 r s3 l1 e0 l2 Hc Hn Hr Hel2 Hl H1 H2.
  unfold parse_simple_stmt. rewrite Hel. simpl. rewrite Hc. simpl. rewrite Hn. simpl.
  rewrite Hr. simpl. rewrite Hel2. simpl. rewrite Hl. rewrite (check_assign_err l1 l2 e0 s3 H1 H2).
  destruct (expr_pos A C e0); reflexivity.
Qed.

(* `=` / `:=` followed by `range`: the Range form *)
Lemma ss_range : forall pos op s2 pr s2' x s3,
  cur s1 = Some (pos, TOperator op) -> (op = OAssign \/ op = ODefine) ->
  nextT s1 = Ok tt s2 -> curis s2 (KKw KRange) = true ->
  expectT (KKw KRange) 73 s2 = Ok pr s2' -> kexpr s2' = Ok x s3 ->
  (op = ODefine -> idents l = true) ->
  pss s = Ok (mkT GAssign [pos] [AOp op] [nlist l; nlist [mkT GRange [pr] [] [x]]]) s3.
Proof.
  intros pos op s2 pr s2' x s3 Hc Hop Hn Hr Hex Hx Hid.
  pose proof (expression_list_nonempty _ _ _ Hel) as Hne.
  unfold parse_simple_stmt. rewrite Hel. simpl. rewrite Hc.
  assert (Ha : is_assign_op op = true) by (destruct Hop; subst op; reflexivity).
  assert (Hb : op_eqb op OAssign || op_eqb op ODefine = true) by (destruct Hop; subst op; reflexivity).
  rewrite Ha, Hn. simpl. rewrite Hr, Hb. simpl. unfold parse_range_expr. rewrite Hex. simpl.
  rewrite Hx. simpl.
  assert (Hlt : (length l <? 1) = false) by (apply Nat.ltb_ge; exact Hne).
  destruct (op_eqb op ODefine) eqn:Hd.
  - rewrite (check_assign_ok l s3 (Hid (op_eqb_true _ _ Hd))). simpl. rewrite Hlt. reflexivity.
  - simpl. rewrite Hlt. reflexivity.
Qed.

(* `:`: a label, only after a single identifier *)
Lemma ss_label : forall pos e s2 st s3,
  cur s1 = Some (pos, TOperator OColon) -> l = [e] -> is_tag GIdent e = true ->
  nextT s1 = Ok tt s2 -> kstmt s2 = Ok st s3 ->
  pss s = Ok (mkT GLabel [pos] [] [e; st]) s3.
Proof.
  intros pos e s2 st s3 Hc Hl He Hn Hs.
  unfold parse_simple_stmt. rewrite Hel. simpl. rewrite Hc, Hl. simpl. rewrite He, Hn. simpl.
  rewrite Hs. reflexivity.
Qed.

Lemma ss_label_err : forall pos e,
  cur s1 = Some (pos, TOperator OColon) -> l = [e] -> is_tag GIdent e = false ->
  pss s = Err (errat pos 78) s1.
Proof.
  intros pos e Hc Hl He.
  unfold parse_simple_stmt. rewrite Hel. simpl. rewrite Hc, Hl. simpl. rewrite He. reflexivity.
Qed.

(* `<-`: a send *)
Lemma ss_send : forall pos e s2 v s3,
  cur s1 = Some (pos, TOperator OArrow) -> l = [e] ->
  nextT s1 = Ok tt s2 -> kexpr s2 = Ok v s3 ->
  pss s = Ok (mkT GSend [pos] [] [e; v]) s3.
Proof.
  intros pos e s2 v s3 Hc Hl Hn Hv.
  unfold parse_simple_stmt. rewrite Hel. simpl. rewrite Hc, Hl. simpl. rewrite Hn. simpl.
  rewrite Hv. reflexivity.
Qed.

(* `++` / `--` *)
Lemma ss_incdec : forall pos op e s2,
  cur s1 = Some (pos, TOperator op) -> (op = OInc \/ op = ODec) -> l = [e] ->
  nextT s1 = Ok tt s2 ->
  pss s = Ok (mkT GIncDec [pos] [AOp op] [e]) s2.
Proof.
  intros pos op e s2 Hc Hop Hl Hn.
  unfold parse_simple_stmt. rewrite Hel. simpl. rewrite Hc, Hl.
  destruct Hop; subst op; simpl; rewrite Hn; reflexivity.
Qed.

(* anything else: an expression statement; the token stays *)
Lemma ss_expr : forall pos tok e,
  cur s1 = Some (pos, tok) -> classify_simple tok = CExpr -> l = [e] ->
  pss s = Ok (mkT GExprStmt [] [] [e]) s1.
Proof.
  intros pos tok e Hc Hk Hl.
  unfold parse_simple_stmt. rewrite Hel. simpl. rewrite Hc, Hl.
  destruct tok as [c | k | op | k v]; try reflexivity.
  unfold classify_simple in Hk. destruct (is_assign_op op); [discriminate Hk |].
  destruct op; try discriminate Hk; reflexivity.
Qed.

(* more than one expression in front of anything but an assignment operator *)
Lemma ss_many_err : forall pos tok e1 e2 r,
  cur s1 = Some (pos, tok) ->
  (forall op, classify_simple tok <> CAssign op) -> l = e1 :: e2 :: r ->
  pss s = match expr_pos A C e1 with
          | Some p => Err (errat p 74) s1
          | None => Panic 642
          end.
Proof.
  intros pos tok e1 e2 r Hc Hk Hl.
  unfold parse_simple_stmt. rewrite Hel. simpl. rewrite Hc, Hl.
  destruct tok as [c | k | op | k v]; simpl; try (destruct (expr_pos A C e1); reflexivity).
  destruct (is_assign_op op) eqn:Ha.
  - exfalso. apply (Hk op). unfold classify_simple. rewrite Ha. reflexivity.
  - simpl. destruct (expr_pos A C e1); reflexivity.
Qed.

End Forward.

(* ---- backward: what an accepted simple statement is made of *)

Theorem simple_stmt_inv : forall s st s', pss s = Ok st s' ->
  exists l s1 pos tok,
    el s = Ok l s1 /\ cur s1 = Some (pos, tok) /\
    match classify_simple tok with
    | CAssign op =>
        exists s2 r,
          nextT s1 = Ok tt s2 /\
          st = mkT GAssign [pos] [AOp op] [nlist l; nlist r] /\
          length r <= length l /\
          (op = ODefine -> idents l = true) /\
          (if curis s2 (KKw KRange) && (op_eqb op OAssign || op_eqb op ODefine) then
             exists pr s2' x,
               expectT (KKw KRange) 73 s2 = Ok pr s2' /\ kexpr s2' = Ok x s' /\
               r = [mkT GRange [pr] [] [x]]
           else el s2 = Ok r s')
    | CLabel =>
        exists e s2 stmt,
          l = [e] /\ is_tag GIdent e = true /\ nextT s1 = Ok tt s2 /\
          kstmt s2 = Ok stmt s' /\ st = mkT GLabel [pos] [] [e; stmt]
    | CSend =>
        exists e s2 v,
          l = [e] /\ nextT s1 = Ok tt s2 /\ kexpr s2 = Ok v s' /\
          st = mkT GSend [pos] [] [e; v]
    | CIncDec op =>
        exists e, l = [e] /\ nextT s1 = Ok tt s' /\ st = mkT GIncDec [pos] [AOp op] [e]
    | CExpr =>
        exists e, l = [e] /\ s' = s1 /\ st = mkT GExprStmt [] [] [e]
    end.
Proof.
  intros s st s' H. unfold parse_simple_stmt in H.
  destruct (el s) as [l s1 | e0 s1 | k |] eqn:Hel; cbn [bind] in H; try discriminate H.
  destruct (cur s1) as [[pos tok] |] eqn:Hc; [| discriminate H].
  exists l, s1, pos, tok. split; [reflexivity |]. split; [exact Hc |].
  assert (Hsingle : forall (s2 : pstateT) (k : nodeT -> pstateT -> resT nodeT),
            bind A G D E (check_single_expr A G D C E l s2) k = Ok st s' ->
            exists e, l = [e] /\ k e s2 = Ok st s').
  { intros s2 k Hb. destruct l as [| e [| e2 r]]; simpl in Hb.
    - discriminate Hb.
    - exists e. split; [reflexivity | exact Hb].
    - destruct (expr_pos A C e); discriminate Hb. }
  assert (Hexpr : bind A G D E (check_single_expr A G D C E l s1)
                    (fun expr s2 => Ok (mkT GExprStmt [] [] [expr]) s2) = Ok st s' ->
                  exists e, l = [e] /\ s' = s1 /\ st = mkT GExprStmt [] [] [e]).
  { intro Hb. destruct (Hsingle _ _ Hb) as [e [Hl He]]. injection He as H1 H2.
    exists e. split; [exact Hl |]. split; symmetry; assumption. }
  destruct tok as [c | kw | op | lk v]; try (apply Hexpr; exact H).
  unfold classify_simple. destruct (is_assign_op op) eqn:Ha.
  - (* assignment *)
    destruct (nextT s1) as [[] s2 | e0 s2 | k |] eqn:Hn; cbn [bind] in H; try discriminate H.
    cbv zeta in H. exists s2.
    destruct (curis s2 (KKw KRange) && (op_eqb op OAssign || op_eqb op ODefine)) eqn:Hr.
    + unfold parse_range_expr in H.
      destruct (expectT (KKw KRange) 73 s2) as [pr s2' | e0 s2' | k |] eqn:Hex;
        cbn [bind] in H; try discriminate H.
      destruct (kexpr s2') as [x s3 | e0 s3 | k |] eqn:Hx; cbn [bind] in H; try discriminate H.
      exists [mkT GRange [pr] [] [x]].
      assert (Hfin : forall s4, s4 = s3 ->
                (if length l <? length [mkT GRange [pr] [] [x]] then Err (errat pos 77) s4
                 else Ok (mkT GAssign [pos] [AOp op] [nlist l; nlist [mkT GRange [pr] [] [x]]]) s4)
                = Ok st s' ->
                st = mkT GAssign [pos] [AOp op] [nlist l; nlist [mkT GRange [pr] [] [x]]] /\
                length [mkT GRange [pr] [] [x]] <= length l /\ s3 = s').
      { intros s4 H4 Hf. subst s4.
        destruct (length l <? length [mkT GRange [pr] [] [x]]) eqn:Hlt; [discriminate Hf |].
        injection Hf as H1 H2. apply Nat.ltb_ge in Hlt.
        split; [symmetry; exact H1 |]. split; [exact Hlt | exact H2]. }
      destruct (op_eqb op ODefine) eqn:Hd.
      * destruct (check_assign_stmt A G D C E l s3) as [u s4 | e0 s4 | k |] eqn:Hch;
          cbn [bind] in H; try discriminate H.
        destruct (check_assign_inv _ _ _ _ Hch) as [Hid Hs4].
        destruct (Hfin s4 Hs4 H) as [H1 [H2 H3]]. subst s'.
        split; [reflexivity |]. split; [exact H1 |]. split; [exact H2 |].
        split; [intros _; exact Hid |]. exists pr, s2', x. repeat split; assumption.
      * cbn [bind] in H. destruct (Hfin s3 eq_refl H) as [H1 [H2 H3]]. subst s'.
        split; [reflexivity |]. split; [exact H1 |]. split; [exact H2 |].
        split; [intro Hop; subst op; discriminate Hd |]. exists pr, s2', x. repeat split; assumption.
    + destruct (el s2) as [r s3 | e0 s3 | k |] eqn:Hel2; cbn [bind] in H; try discriminate H.
      exists r.
      assert (Hfin : forall s4, s4 = s3 ->
                (if length l <? length r then Err (errat pos 77) s4
                 else Ok (mkT GAssign [pos] [AOp op] [nlist l; nlist r]) s4) = Ok st s' ->
                st = mkT GAssign [pos] [AOp op] [nlist l; nlist r] /\
                length r <= length l /\ s3 = s').
      { intros s4 H4 Hf. subst s4.
        destruct (length l <? length r) eqn:Hlt; [discriminate Hf |].
        injection Hf as H1 H2. apply Nat.ltb_ge in Hlt.
        split; [symmetry; exact H1 |]. split; [exact Hlt | exact H2]. }
      destruct (op_eqb op ODefine) eqn:Hd.
      * destruct (check_assign_stmt A G D C E l s3) as [u s4 | e0 s4 | k |] eqn:Hch;
          cbn [bind] in H; try discriminate H.
        destruct (check_assign_inv _ _ _ _ Hch) as [Hid Hs4].
        destruct (Hfin s4 Hs4 H) as [H1 [H2 H3]]. subst s'.
        split; [reflexivity |]. split; [exact H1 |]. split; [exact H2 |].
        split; [intros _; exact Hid | reflexivity].
      * cbn [bind] in H. destruct (Hfin s3 eq_refl H) as [H1 [H2 H3]]. subst s'.
        split; [reflexivity |]. split; [exact H1 |]. split; [exact H2 |].
        split; [intro Hop; subst op; discriminate Hd | reflexivity].
  - (* everything else needs exactly one expression *)
    destruct (Hsingle _ _ H) as [e [Hl He]]. clear H Hexpr Hsingle.
    destruct op; try discriminate Ha;
      try (injection He as H1 H2; exists e; split; [exact Hl |]; split; symmetry; assumption).
    + (* <- *)
      destruct (nextT s1) as [[] s2 | e0 s2 | k |] eqn:Hn; cbn [bind] in He; try discriminate He.
      destruct (kexpr s2) as [v s3 | e0 s3 | k |] eqn:Hv; cbn [bind] in He; try discriminate He.
      injection He as H1 H2. subst s3. exists e, s2, v. repeat split; try assumption.
      symmetry; exact H1.
    + (* ++ *)
      destruct (nextT s1) as [[] s2 | e0 s2 | k |] eqn:Hn; cbn [bind] in He; try discriminate He.
      injection He as H1 H2. subst s2. exists e. repeat split; try assumption. symmetry; exact H1.
    + (* -- *)
      destruct (nextT s1) as [[] s2 | e0 s2 | k |] eqn:Hn; cbn [bind] in He; try discriminate He.
      injection He as H1 H2. subst s2. exists e. repeat split; try assumption. symmetry; exact H1.
    + (* : *)
      destruct (is_tag GIdent e) eqn:Hid; [| discriminate He].
      destruct (nextT s1) as [[] s2 | e0 s2 | k |] eqn:Hn; cbn [bind] in He; try discriminate He.
      destruct (kstmt s2) as [stmt s3 | e0 s3 | k |] eqn:Hs; cbn [bind] in He; try discriminate He.
      injection He as H1 H2. subst s3. exists e, s2, stmt. repeat split; try assumption.
      symmetry; exact H1.
Qed.

(* define vs assign, send, inc/dec, label, expression: the tag and the operator
   attribute of an accepted simple statement are functions of that one token *)
Definition simple_tag (c : simple_class) : tag :=
  match c with
  | CAssign _ => GAssign | CLabel => GLabel | CSend => GSend | CIncDec _ => GIncDec
  | CExpr => GExprStmt
  end.
Definition simple_ats (c : simple_class) : list attr :=
  match c with
  | CAssign op | CIncDec op => [AOp op]
  | _ => []
  end.

Corollary simple_stmt_kind : forall s st s', pss s = Ok st s' ->
  exists l s1 pos tok,
    el s = Ok l s1 /\ cur s1 = Some (pos, tok) /\
    n_tag st = simple_tag (classify_simple tok) /\
    n_ats st = simple_ats (classify_simple tok).
Proof.
  intros s st s' H. destruct (simple_stmt_inv s st s' H) as [l [s1 [pos [tok [H1 [H2 H3]]]]]].
  exists l, s1, pos, tok. split; [exact H1 |]. split; [exact H2 |].
  destruct (classify_simple tok).
  - destruct H3 as [s2 [r [_ [Hst _]]]]. subst st. split; reflexivity.
  - destruct H3 as [e [s2 [stmt [_ [_ [_ [_ Hst]]]]]]]. subst st. split; reflexivity.
  - destruct H3 as [e [s2 [v [_ [_ [_ Hst]]]]]]. subst st. split; reflexivity.
  - destruct H3 as [e [_ [_ Hst]]]. subst st. split; reflexivity.
  - destruct H3 as [e [_ [_ Hst]]]. subst st. split; reflexivity.
Qed.

End Stmt.

(* ================================================================== 3. parameter grouping *)

(* a token that starts the type of a named group in param_decl_loop's default
   branch (and is not the `~` of a type-set term) *)
Definition param_type_start (t : token) : bool :=
  match t with
  | TOperator OParenRight | TOperator OBarackLeft | TOperator ODotDotDot | TOperator ODot
  | TOperator OComma | TOperator OTiled => false
  | _ => true
  end.

Section Params.
Variables (A G D C E : Type).
Variable OPS : ops A G D C.
Variable self : parsers A G D C E.
Notation nodeT := (node A C).
Notation pstateT := (pstate A G D E).
Notation resT := (res A G D E).
Notation cur := (s_cur A G D E).
Notation curis := (cur_is A G D E).
Notation nextT := (next A G D C E OPS).
Notation expectT := (expect A G D C E OPS).
Notation ktype := (k_type A G D C E self).
Notation mkT := (mk A C).
Notation ident := (n_ident A C).
Notation fieldof := (field_of A G D C OPS).
Notation field := (fun names typ => n_field A C names typ None (c_empty A G D C OPS)).
Notation pdl := (param_decl_loop A G D C E OPS self).
Notation ppd := (parse_parameter_decl A G D C E OPS self).
Notation tid a := (TLiteral LIdent a).

(* ---- token movement *)

Lemma next_upd_cur : forall (s : pstateT) c, nextT (upd_cur A G D E s c) = 
  match nextT s with
  | Err e s' => Err e (upd_cur A G D E s' c)
  | r => r
  end.
Proof.
  intros s c. unfold next, upd_cur, prev_end. simpl.
  destruct (s_rest A G D E s) as [| [a0 a1 t g] r]; [| reflexivity].
  destruct (s_term A G D E s); reflexivity.
Qed.

Lemma cur_is_tok : forall (s : pstateT) p t k, cur s = Some (p, t) -> curis s k = tok_is t k.
Proof. intros s p t k H. unfold cur_is. rewrite H. reflexivity. Qed.

Lemma identifier_ok : forall site (s s1 : pstateT) p a,
  cur s = Some (p, tid a) -> nextT s = Ok tt s1 ->
  identifier A G D C E OPS site s = Ok (ident p a) s1.
Proof.
  intros site s s1 p a Hc Hn. unfold identifier. rewrite Hc. rewrite next_upd_cur, Hn. reflexivity.
Qed.

Lemma skipped_yes : forall k (s s1 : pstateT),
  curis s k = true -> nextT s = Ok tt s1 -> skipped A G D C E OPS k s = Ok true s1.
Proof. intros k s s1 Hc Hn. unfold skipped. rewrite Hc, Hn. reflexivity. Qed.

Lemma skipped_no : forall k (s : pstateT),
  curis s k = false -> skipped A G D C E OPS k s = Ok false s.
Proof. intros k s Hc. unfold skipped. rewrite Hc. reflexivity. Qed.

Lemma expect_ok : forall k site (s s1 : pstateT) p t,
  cur s = Some (p, t) -> tok_is t k = true -> nextT s = Ok tt s1 ->
  expectT k site s = Ok p s1.
Proof.
  intros k site s s1 p t Hc Hk Hn. unfold expect. rewrite Hc, Hk. rewrite next_upd_cur, Hn.
  reflexivity.
Qed.

(* ---- the type productions used by the loop, on a given type T *)

(* T is what type_ returns from s, the token at s is not `~`, and no `|`
   follows: parse_type_elem returns T and stops where type_ stopped *)
Lemma parse_type_elem_plain : forall (s s' : pstateT) T,
  curis s (KOp OTiled) = false -> ktype s = Ok T s' -> curis s' (KOp OOr) = false ->
  parse_type_elem A G D C E OPS self s = Ok T s'.
Proof.
  intros s s' T Ht Hk Ho. unfold parse_type_elem, parse_type_term.
  rewrite (skipped_no _ _ Ht). cbn [bind]. rewrite Hk. cbn [bind].
  unfold loop_fuel. simpl. rewrite Ho. reflexivity.
Qed.

Lemma ellipsis_type_ok : forall (s s1 s2 : pstateT) p T,
  cur s = Some (p, TOperator ODotDotDot) -> nextT s = Ok tt s1 -> ktype s1 = Ok T s2 ->
  ellipsis_type A G D C E OPS self s = Ok (mkT GEllipsis [p] [] [T]) s2.
Proof.
  intros s s1 s2 p T Hc Hn Hk. unfold ellipsis_type.
  rewrite (expect_ok (KOp ODotDotDot) 22 _ _ _ _ Hc eq_refl Hn). cbn [bind]. rewrite Hk. reflexivity.
Qed.

Lemma qualified_ident_sel : forall (s s1 s2 : pstateT) pkg pd pt t,
  cur s = Some (pd, TOperator ODot) -> nextT s = Ok tt s1 ->
  cur s1 = Some (pt, tid t) -> nextT s1 = Ok tt s2 ->
  curis s2 (KOp OBarackLeft) = false ->
  qualified_ident A G D C E OPS self (Some pkg) s =
    Ok (mkT GSelector [pd] [] [pkg; ident pt t]) s2.
Proof.
  intros s s1 s2 pkg pd pt t Hc Hn Hc1 Hn1 Hb. unfold qualified_ident. cbn [bind].
  rewrite (skipped_yes (KOp ODot) _ _ (eq_trans (cur_is_tok _ _ _ (KOp ODot) Hc) eq_refl) Hn). cbn [bind].
  rewrite (identifier_ok _ _ _ _ _ Hc1 Hn1). cbn [bind]. rewrite Hb.
  unfold cur_pos. rewrite Hc. reflexivity.
Qed.

(* ---- one iteration of param_decl_loop, by the current token *)

Lemma pdl_close : forall f ewc ids (s : pstateT) p,
  cur s = Some (p, TOperator OParenRight) ->
  pdl (S f) ewc ids s = Ok (map (fun id => fieldof id) ids) s.
Proof. intros f ewc ids s p Hc. simpl. unfold cur_tok. rewrite Hc. reflexivity. Qed.

Lemma pdl_comma_ident : forall f ewc ids (s s1 s2 : pstateT) p pb b,
  cur s = Some (p, TOperator OComma) -> nextT s = Ok tt s1 ->
  cur s1 = Some (pb, tid b) -> nextT s1 = Ok tt s2 ->
  pdl (S f) ewc ids s = pdl f false (ids ++ [ident pb b]) s2.
Proof.
  intros f ewc ids s s1 s2 p pb b Hc Hn Hc1 Hn1. simpl. unfold cur_tok. rewrite Hc. cbn [bind].
  rewrite Hn. cbn [bind]. rewrite (cur_is_tok _ _ _ (KLit LIdent) Hc1). simpl tok_is. cbv iota.
  rewrite (identifier_ok _ _ _ _ _ Hc1 Hn1). reflexivity.
Qed.

Lemma pdl_comma_other : forall f ewc ids (s s1 : pstateT) p,
  cur s = Some (p, TOperator OComma) -> nextT s = Ok tt s1 ->
  curis s1 (KLit LIdent) = false ->
  pdl (S f) ewc ids s = pdl f true ids s1.
Proof.
  intros f ewc ids s s1 p Hc Hn Hc1. simpl. unfold cur_tok. rewrite Hc. cbn [bind].
  rewrite Hn. cbn [bind]. rewrite Hc1. reflexivity.
Qed.

Lemma pdl_type : forall f ids (s s' : pstateT) p t T,
  cur s = Some (p, t) -> param_type_start t = true ->
  ktype s = Ok T s' -> curis s' (KOp OOr) = false ->
  pdl (S f) false ids s = Ok [field ids T] s'.
Proof.
  intros f ids s s' p t T Hc Ht Hk Ho.
  assert (Htl : curis s (KOp OTiled) = false).
  { rewrite (cur_is_tok _ _ _ _ Hc). destruct t as [c | k | o | k v]; try reflexivity.
    destruct o; try reflexivity; discriminate Ht. }
  pose proof (parse_type_elem_plain _ _ _ Htl Hk Ho) as Hp.
  simpl. unfold cur_tok. rewrite Hc. cbn [bind].
  destruct t as [c | k | o | k v]; try (rewrite Hp; reflexivity).
  destruct o; try discriminate Ht; rewrite Hp; reflexivity.
Qed.

(* after `ident ,` with a non-identifier next: the identifiers so far are types *)
Lemma pdl_ewc_stop : forall f ids (s : pstateT) p t,
  cur s = Some (p, t) -> param_type_start t = true ->
  pdl (S f) true ids s = Ok (map (fun id => fieldof id) ids) s.
Proof.
  intros f ids s p t Hc Ht. simpl. unfold cur_tok. rewrite Hc. cbn [bind].
  destruct t as [c | k | o | k v]; try reflexivity.
  destruct o; try discriminate Ht; reflexivity.
Qed.

Lemma pdl_ellipsis : forall f ids (s s1 s2 : pstateT) p T,
  cur s = Some (p, TOperator ODotDotDot) -> nextT s = Ok tt s1 -> ktype s1 = Ok T s2 ->
  pdl (S f) false ids s =
    if 2 <=? length ids then Err (else_error A G D E s 24) s
    else Ok [field ids (mkT GEllipsis [p] [] [T])] s2.
Proof.
  intros f ids s s1 s2 p T Hc Hn Hk. simpl. unfold cur_tok. rewrite Hc. cbn [bind].
  rewrite (ellipsis_type_ok _ _ _ _ _ Hc Hn Hk). reflexivity.
Qed.

Lemma pdl_dot : forall f r pkg (s s1 s2 : pstateT) pd pt t,
  cur s = Some (pd, TOperator ODot) -> nextT s = Ok tt s1 ->
  cur s1 = Some (pt, tid t) -> nextT s1 = Ok tt s2 ->
  curis s2 (KOp OBarackLeft) = false ->
  pdl (S f) false (r ++ [pkg]) s =
    Ok (map (fun id => fieldof id) r ++ [fieldof (mkT GSelector [pd] [] [pkg; ident pt t])]) s2.
Proof.
  intros f r pkg s s1 s2 pd pt t Hc Hn Hc1 Hn1 Hb. simpl. unfold cur_tok. rewrite Hc. cbn [bind].
  unfold pop_last. rewrite rev_app_distr. simpl. rewrite rev_involutive.
  rewrite (qualified_ident_sel _ _ _ pkg _ _ _ Hc Hn Hc1 Hn1 Hb). reflexivity.
Qed.

(* ---- the shapes *)

(* `a T`: one field, name a, type T *)
Theorem param_name_type : forall (s s1 s2 : pstateT) pa a p1 t1 T,
  cur s = Some (pa, tid a) -> nextT s = Ok tt s1 ->
  cur s1 = Some (p1, t1) -> param_type_start t1 = true ->
  ktype s1 = Ok T s2 -> curis s2 (KOp OOr) = false ->
  ppd s = Ok [field [ident pa a] T] s2.
Proof.
  intros s s1 s2 pa a p1 t1 T Hc Hn Hc1 Ht Hk Ho. unfold parse_parameter_decl.
  rewrite (cur_is_tok _ _ _ (KOp ODotDotDot) Hc). unfold cur_not.
  rewrite (cur_is_tok _ _ _ (KLit LIdent) Hc). simpl tok_is. cbv iota. simpl negb. cbv iota.
  rewrite (identifier_ok _ _ _ _ _ Hc Hn). cbn [bind]. unfold loop_fuel.
  apply (pdl_type _ _ _ _ _ _ _ Hc1 Ht Hk Ho).
Qed.

(* `a, b T`: ONE field with the names a and b *)
Theorem param_names_type : forall (s s1 s2 s3 s4 : pstateT) pa a pc pb b p3 t3 T,
  cur s = Some (pa, tid a) -> nextT s = Ok tt s1 ->
  cur s1 = Some (pc, TOperator OComma) -> nextT s1 = Ok tt s2 ->
  cur s2 = Some (pb, tid b) -> nextT s2 = Ok tt s3 ->
  cur s3 = Some (p3, t3) -> param_type_start t3 = true ->
  ktype s3 = Ok T s4 -> curis s4 (KOp OOr) = false ->
  ppd s = Ok [field [ident pa a; ident pb b] T] s4.
Proof.
  intros s s1 s2 s3 s4 pa a pc pb b p3 t3 T Hc Hn Hc1 Hn1 Hc2 Hn2 Hc3 Ht Hk Ho.
  unfold parse_parameter_decl.
  rewrite (cur_is_tok _ _ _ (KOp ODotDotDot) Hc). unfold cur_not.
  rewrite (cur_is_tok _ _ _ (KLit LIdent) Hc). simpl tok_is. cbv iota. simpl negb. cbv iota.
  rewrite (identifier_ok _ _ _ _ _ Hc Hn). cbn [bind]. unfold loop_fuel.
  rewrite (pdl_comma_ident _ _ _ _ _ _ _ _ _ Hc1 Hn1 Hc2 Hn2).
  apply (pdl_type _ _ _ _ _ _ _ Hc3 Ht Hk Ho).
Qed.

(* `T` before `)`: an unnamed field whose type is the identifier *)
Theorem param_type_only : forall (s s1 : pstateT) pa a p1,
  cur s = Some (pa, tid a) -> nextT s = Ok tt s1 ->
  cur s1 = Some (p1, TOperator OParenRight) ->
  ppd s = Ok [fieldof (ident pa a)] s1.
Proof.
  intros s s1 pa a p1 Hc Hn Hc1. unfold parse_parameter_decl.
  rewrite (cur_is_tok _ _ _ (KOp ODotDotDot) Hc). unfold cur_not.
  rewrite (cur_is_tok _ _ _ (KLit LIdent) Hc). simpl tok_is. cbv iota. simpl negb. cbv iota.
  rewrite (identifier_ok _ _ _ _ _ Hc Hn). cbn [bind]. unfold loop_fuel.
  exact (pdl_close _ false [ident pa a] _ _ Hc1).
Qed.

(* `T ,` followed by something that is not an identifier: the same field; the
   comma is consumed, the state is at the token after it *)
Theorem param_type_comma : forall (s s1 s2 : pstateT) pa a pc p2 t2,
  cur s = Some (pa, tid a) -> nextT s = Ok tt s1 ->
  cur s1 = Some (pc, TOperator OComma) -> nextT s1 = Ok tt s2 ->
  cur s2 = Some (p2, t2) -> tok_is t2 (KLit LIdent) = false ->
  (param_type_start t2 = true \/ t2 = TOperator OParenRight) ->
  ppd s = Ok [fieldof (ident pa a)] s2.
Proof.
  intros s s1 s2 pa a pc p2 t2 Hc Hn Hc1 Hn1 Hc2 Hni Ht. unfold parse_parameter_decl.
  rewrite (cur_is_tok _ _ _ (KOp ODotDotDot) Hc). unfold cur_not.
  rewrite (cur_is_tok _ _ _ (KLit LIdent) Hc). simpl tok_is. cbv iota. simpl negb. cbv iota.
  rewrite (identifier_ok _ _ _ _ _ Hc Hn). cbn [bind]. unfold loop_fuel.
  rewrite (pdl_comma_other _ _ _ _ _ _ Hc1 Hn1
             (eq_trans (cur_is_tok _ _ _ (KLit LIdent) Hc2) Hni)).
  destruct Ht as [Ht | Ht].
  - exact (pdl_ewc_stop _ [ident pa a] _ _ _ Hc2 Ht).
  - subst t2. exact (pdl_close _ true [ident pa a] _ _ Hc2).
Qed.

(* `a, b)`: identifiers only: TWO unnamed fields *)
Theorem param_two_types : forall (s s1 s2 s3 : pstateT) pa a pc pb b p3,
  cur s = Some (pa, tid a) -> nextT s = Ok tt s1 ->
  cur s1 = Some (pc, TOperator OComma) -> nextT s1 = Ok tt s2 ->
  cur s2 = Some (pb, tid b) -> nextT s2 = Ok tt s3 ->
  cur s3 = Some (p3, TOperator OParenRight) ->
  ppd s = Ok [fieldof (ident pa a); fieldof (ident pb b)] s3.
Proof.
  intros s s1 s2 s3 pa a pc pb b p3 Hc Hn Hc1 Hn1 Hc2 Hn2 Hc3. unfold parse_parameter_decl.
  rewrite (cur_is_tok _ _ _ (KOp ODotDotDot) Hc). unfold cur_not.
  rewrite (cur_is_tok _ _ _ (KLit LIdent) Hc). simpl tok_is. cbv iota. simpl negb. cbv iota.
  rewrite (identifier_ok _ _ _ _ _ Hc Hn). cbn [bind]. unfold loop_fuel.
  rewrite (pdl_comma_ident _ _ _ _ _ _ _ _ _ Hc1 Hn1 Hc2 Hn2).
  exact (pdl_close _ false ([ident pa a] ++ [ident pb b]) _ _ Hc3).
Qed.

(* `a ...T`: name a, type Ellipsis T *)
Theorem param_name_ellipsis : forall (s s1 s2 s3 : pstateT) pa a pe T,
  cur s = Some (pa, tid a) -> nextT s = Ok tt s1 ->
  cur s1 = Some (pe, TOperator ODotDotDot) -> nextT s1 = Ok tt s2 ->
  ktype s2 = Ok T s3 ->
  ppd s = Ok [field [ident pa a] (mkT GEllipsis [pe] [] [T])] s3.
Proof.
  intros s s1 s2 s3 pa a pe T Hc Hn Hc1 Hn1 Hk. unfold parse_parameter_decl.
  rewrite (cur_is_tok _ _ _ (KOp ODotDotDot) Hc). unfold cur_not.
  rewrite (cur_is_tok _ _ _ (KLit LIdent) Hc). simpl tok_is. cbv iota. simpl negb. cbv iota.
  rewrite (identifier_ok _ _ _ _ _ Hc Hn). cbn [bind]. unfold loop_fuel.
  rewrite (pdl_ellipsis _ _ _ _ _ _ _ Hc1 Hn1 Hk). reflexivity.
Qed.

(* `a, b ...T` is rejected: a variadic parameter has at most one name *)
Theorem param_names_ellipsis_err : forall (s s1 s2 s3 s4 s5 : pstateT) pa a pc pb b pe T,
  cur s = Some (pa, tid a) -> nextT s = Ok tt s1 ->
  cur s1 = Some (pc, TOperator OComma) -> nextT s1 = Ok tt s2 ->
  cur s2 = Some (pb, tid b) -> nextT s2 = Ok tt s3 ->
  cur s3 = Some (pe, TOperator ODotDotDot) -> nextT s3 = Ok tt s4 ->
  ktype s4 = Ok T s5 ->
  ppd s = Err (else_error A G D E s3 24) s3.
Proof.
  intros s s1 s2 s3 s4 s5 pa a pc pb b pe T Hc Hn Hc1 Hn1 Hc2 Hn2 Hc3 Hn3 Hk.
  unfold parse_parameter_decl.
  rewrite (cur_is_tok _ _ _ (KOp ODotDotDot) Hc). unfold cur_not.
  rewrite (cur_is_tok _ _ _ (KLit LIdent) Hc). simpl tok_is. cbv iota. simpl negb. cbv iota.
  rewrite (identifier_ok _ _ _ _ _ Hc Hn). cbn [bind]. unfold loop_fuel.
  rewrite (pdl_comma_ident _ _ _ _ _ _ _ _ _ Hc1 Hn1 Hc2 Hn2).
  rewrite (pdl_ellipsis _ _ _ _ _ _ _ Hc3 Hn3 Hk). reflexivity.
Qed.

(* `pkg.T`: an unnamed field with the qualified type *)
Theorem param_qualified : forall (s s1 s2 s3 : pstateT) pp pkg pd pt t,
  cur s = Some (pp, tid pkg) -> nextT s = Ok tt s1 ->
  cur s1 = Some (pd, TOperator ODot) -> nextT s1 = Ok tt s2 ->
  cur s2 = Some (pt, tid t) -> nextT s2 = Ok tt s3 ->
  curis s3 (KOp OBarackLeft) = false ->
  ppd s = Ok [fieldof (mkT GSelector [pd] [] [ident pp pkg; ident pt t])] s3.
Proof.
  intros s s1 s2 s3 pp pkg pd pt t Hc Hn Hc1 Hn1 Hc2 Hn2 Hb. unfold parse_parameter_decl.
  rewrite (cur_is_tok _ _ _ (KOp ODotDotDot) Hc). unfold cur_not.
  rewrite (cur_is_tok _ _ _ (KLit LIdent) Hc). simpl tok_is. cbv iota. simpl negb. cbv iota.
  rewrite (identifier_ok _ _ _ _ _ Hc Hn). cbn [bind]. unfold loop_fuel.
  apply (pdl_dot _ [] _ _ _ _ _ _ _ Hc1 Hn1 Hc2 Hn2 Hb).
Qed.

(* `a, pkg.T`: two unnamed fields, a and pkg.T *)
Theorem param_type_qualified : forall (s s1 s2 s3 s4 s5 : pstateT) pa a pc pp pkg pd pt t,
  cur s = Some (pa, tid a) -> nextT s = Ok tt s1 ->
  cur s1 = Some (pc, TOperator OComma) -> nextT s1 = Ok tt s2 ->
  cur s2 = Some (pp, tid pkg) -> nextT s2 = Ok tt s3 ->
  cur s3 = Some (pd, TOperator ODot) -> nextT s3 = Ok tt s4 ->
  cur s4 = Some (pt, tid t) -> nextT s4 = Ok tt s5 ->
  curis s5 (KOp OBarackLeft) = false ->
  ppd s = Ok [fieldof (ident pa a);
              fieldof (mkT GSelector [pd] [] [ident pp pkg; ident pt t])] s5.
Proof.
  intros s s1 s2 s3 s4 s5 pa a pc pp pkg pd pt t Hc Hn Hc1 Hn1 Hc2 Hn2 Hc3 Hn3 Hc4 Hn4 Hb.
  unfold parse_parameter_decl.
  rewrite (cur_is_tok _ _ _ (KOp ODotDotDot) Hc). unfold cur_not.
  rewrite (cur_is_tok _ _ _ (KLit LIdent) Hc). simpl tok_is. cbv iota. simpl negb. cbv iota.
  rewrite (identifier_ok _ _ _ _ _ Hc Hn). cbn [bind]. unfold loop_fuel.
  rewrite (pdl_comma_ident _ _ _ _ _ _ _ _ _ Hc1 Hn1 Hc2 Hn2).
  apply (pdl_dot _ [ident pa a] _ _ _ _ _ _ _ Hc3 Hn3 Hc4 Hn4 Hb).
Qed.

(* a parameter that does not start with an identifier: `...T`, `*T`, `[]T`, `func(..)`, .. *)
Theorem param_ellipsis_only : forall (s s1 s2 : pstateT) pe T,
  cur s = Some (pe, TOperator ODotDotDot) -> nextT s = Ok tt s1 -> ktype s1 = Ok T s2 ->
  ppd s = Ok [fieldof (mkT GEllipsis [pe] [] [T])] s2.
Proof.
  intros s s1 s2 pe T Hc Hn Hk. unfold parse_parameter_decl.
  rewrite (cur_is_tok _ _ _ (KOp ODotDotDot) Hc). simpl tok_is. cbv iota.
  rewrite (ellipsis_type_ok _ _ _ _ _ Hc Hn Hk). reflexivity.
Qed.

Theorem param_nonident_type : forall (s s1 : pstateT) T,
  curis s (KOp ODotDotDot) = false -> curis s (KLit LIdent) = false -> ktype s = Ok T s1 ->
  ppd s = Ok [fieldof T] s1.
Proof.
  intros s s1 T H1 H2 Hk. unfold parse_parameter_decl, cur_not. rewrite H1, H2. simpl.
  rewrite Hk. reflexivity.
Qed.

(* ---- any number of names: `a1, a2, ..., an T` and `a1, a2, ..., an )` *)

(* [more_names s ids s']: from s the tokens are `, b1 , b2 ... , bk` and ids are
   those identifiers; s' is the state after the last one *)
Inductive more_names : pstateT -> list nodeT -> pstateT -> Prop :=
| MN_nil : forall s, more_names s [] s
| MN_cons : forall s s1 s2 s' p pb b ids,
    cur s = Some (p, TOperator OComma) -> nextT s = Ok tt s1 ->
    cur s1 = Some (pb, tid b) -> nextT s1 = Ok tt s2 ->
    more_names s2 ids s' -> more_names s (ident pb b :: ids) s'.

Lemma next_rest_some : forall (s s' : pstateT) c,
  nextT s = Ok tt s' -> cur s' = Some c ->
  length (s_rest A G D E s) = S (length (s_rest A G D E s')).
Proof.
  intros s s' c Hn Hc. unfold next in Hn.
  destruct (s_rest A G D E s) as [| [a0 a1 t g] r].
  - destruct (s_term A G D E s); [| discriminate Hn].
    injection Hn as Hn. subst s'. discriminate Hc.
  - injection Hn as Hn. subst s'. reflexivity.
Qed.

Lemma next_rest_le : forall (s s' : pstateT),
  nextT s = Ok tt s' -> length (s_rest A G D E s') <= length (s_rest A G D E s).
Proof.
  intros s s' Hn. unfold next in Hn.
  destruct (s_rest A G D E s) as [| [a0 a1 t g] r].
  - destruct (s_term A G D E s); [| discriminate Hn].
    injection Hn as Hn. subst s'. simpl. lia.
  - injection Hn as Hn. subst s'. simpl. lia.
Qed.

Lemma more_names_fuel : forall s ids s', more_names s ids s' ->
  length ids <= length (s_rest A G D E s).
Proof.
  intros s ids s' H. induction H as [s | s s1 s2 s' p pb b ids Hc Hn Hc1 Hn1 Hm IH].
  - simpl. lia.
  - simpl. rewrite (next_rest_some _ _ _ Hn Hc1). pose proof (next_rest_le _ _ Hn1). lia.
Qed.

Lemma pdl_names_type : forall s more s', more_names s more s' ->
  forall fuel ids0 s'' p t T,
    length more < fuel ->
    cur s' = Some (p, t) -> param_type_start t = true ->
    ktype s' = Ok T s'' -> curis s'' (KOp OOr) = false ->
    pdl fuel false ids0 s = Ok [field (ids0 ++ more) T] s''.
Proof.
  intros s more s' H. induction H as [s | s s1 s2 s' p0 pb b ids Hc Hn Hc1 Hn1 Hm IH];
    intros fuel ids0 s'' p t T Hf Hcs Ht Hk Ho; (destruct fuel as [| f]; [exfalso; simpl in Hf; lia |]).
  - rewrite app_nil_r. exact (pdl_type f ids0 _ _ _ _ _ Hcs Ht Hk Ho).
  - rewrite (pdl_comma_ident _ _ _ _ _ _ _ _ _ Hc Hn Hc1 Hn1).
    rewrite (IH f (ids0 ++ [ident pb b]) s'' p t T); [| simpl in Hf; lia | assumption ..].
    rewrite <- app_assoc. reflexivity.
Qed.

Lemma pdl_names_close : forall s more s', more_names s more s' ->
  forall fuel ids0 p,
    length more < fuel -> cur s' = Some (p, TOperator OParenRight) ->
    pdl fuel false ids0 s = Ok (map (fun id => fieldof id) (ids0 ++ more)) s'.
Proof.
  intros s more s' H. induction H as [s | s s1 s2 s' p0 pb b ids Hc Hn Hc1 Hn1 Hm IH];
    intros fuel ids0 p Hf Hcs; (destruct fuel as [| f]; [exfalso; simpl in Hf; lia |]).
  - rewrite app_nil_r. exact (pdl_close f false ids0 _ _ Hcs).
  - rewrite (pdl_comma_ident _ _ _ _ _ _ _ _ _ Hc Hn Hc1 Hn1).
    rewrite (IH f (ids0 ++ [ident pb b]) p); [| simpl in Hf; lia | assumption].
    rewrite <- app_assoc. reflexivity.
Qed.

(* `a1, ..., an T`: ONE field with all the names *)
Theorem param_group_named : forall (s s1 s' s'' : pstateT) pa a more p t T,
  cur s = Some (pa, tid a) -> nextT s = Ok tt s1 -> more_names s1 more s' ->
  cur s' = Some (p, t) -> param_type_start t = true ->
  ktype s' = Ok T s'' -> curis s'' (KOp OOr) = false ->
  ppd s = Ok [field (ident pa a :: more) T] s''.
Proof.
  intros s s1 s' s'' pa a more p t T Hc Hn Hm Hcs Ht Hk Ho. unfold parse_parameter_decl.
  rewrite (cur_is_tok _ _ _ (KOp ODotDotDot) Hc). unfold cur_not.
  rewrite (cur_is_tok _ _ _ (KLit LIdent) Hc). simpl tok_is. cbv iota. simpl negb. cbv iota.
  rewrite (identifier_ok _ _ _ _ _ Hc Hn). cbn [bind].
  apply (pdl_names_type _ _ _ Hm (loop_fuel A G D E s1) [ident pa a] s'' p t T); try assumption.
  unfold loop_fuel. pose proof (more_names_fuel _ _ _ Hm). lia.
Qed.

(* `a1, ..., an )`: n unnamed fields *)
Theorem param_group_types : forall (s s1 s' : pstateT) pa a more p,
  cur s = Some (pa, tid a) -> nextT s = Ok tt s1 -> more_names s1 more s' ->
  cur s' = Some (p, TOperator OParenRight) ->
  ppd s = Ok (map (fun id => fieldof id) (ident pa a :: more)) s'.
Proof.
  intros s s1 s' pa a more p Hc Hn Hm Hcs. unfold parse_parameter_decl.
  rewrite (cur_is_tok _ _ _ (KOp ODotDotDot) Hc). unfold cur_not.
  rewrite (cur_is_tok _ _ _ (KLit LIdent) Hc). simpl tok_is. cbv iota. simpl negb. cbv iota.
  rewrite (identifier_ok _ _ _ _ _ Hc Hn). cbn [bind].
  apply (pdl_names_close _ _ _ Hm (loop_fuel A G D E s1) [ident pa a] p); try assumption.
  unfold loop_fuel. pose proof (more_names_fuel _ _ _ Hm). lia.
Qed.

End Params.

(* ================================================================== 4. if / for headers *)

Section Headers.
Variables (A G D C E : Type).
Variable OPS : ops A G D C.
Variable self : parsers A G D C E.
Notation nodeT := (node A C).
Notation pstateT := (pstate A G D E).
Notation resT := (res A G D E).
Notation cur := (s_cur A G D E).
Notation curis := (cur_is A G D E).
Notation nextT := (next A G D C E OPS).
Notation expectT := (expect A G D C E OPS).
Notation skippedT := (skipped A G D C E OPS).
Notation pss := (parse_simple_stmt A G D C E OPS self).
Notation kexpr := (k_expr A G D C E self).
Notation kblock := (k_block A G D C E self).
Notation kif := (k_if A G D C E self).
Notation mkT := (mk A C).
Notation reset := (reset_level A G D E).
Notation relevel s0 s := (upd_level A G D E s (s_lp A G D E s0) (s_ln A G D E s0)).
Notation ifh := (parse_if_header A G D C E OPS self).
Notation ifb := (if_body A G D C E OPS self).
Notation pfor := (parse_for_stmt A G D C E OPS self).
Notation semi := (KOp OSemiColon).
Notation lbrace := (KOp OBraceLeft).

Lemma cur_is_reset : forall (s : pstateT) k, curis (reset s) k = curis s k.
Proof. intros s k. reflexivity. Qed.

(* ---- if: the header *)

(* `if {` *)
Lemma ifh_brace : forall s, curis s lbrace = true -> ifh s = Err (else_error A G D E s 88) s.
Proof. intros s H. unfold parse_if_header. rewrite H. reflexivity. Qed.

(* `if var ..` *)
Lemma ifh_var : forall s, curis s lbrace = false -> curis s semi = false ->
  curis s (KKw KVar) = true -> ifh s = Err (else_error A G D E (reset s) 89) (reset s).
Proof.
  intros s H1 H2 H3. unfold parse_if_header, cur_not. rewrite H1. cbv zeta.
  rewrite !cur_is_reset. rewrite H2, H3. reflexivity.
Qed.

(* `if cond {`: no init; the condition is the expression of the statement read *)
Lemma ifh_cond : forall s c s1,
  curis s lbrace = false -> curis s semi = false -> curis s (KKw KVar) = false ->
  pss (reset s) = Ok c s1 -> curis s1 lbrace = true ->
  ifh s = if is_tag GExprStmt c then Ok (None, kid c 0) (relevel s s1)
          else Err (else_error A G D E s1 92) s1.
Proof.
  intros s c s1 H1 H2 H3 Hp Hb. unfold parse_if_header, cur_not. rewrite H1. cbv zeta.
  rewrite !cur_is_reset. rewrite H2, H3. simpl negb. cbv iota. rewrite Hp. cbn [bind].
  rewrite Hb. simpl negb. cbv iota. cbn [bind]. reflexivity.
Qed.

(* `if init; cond {` *)
Lemma ifh_init_cond : forall s i s1 p s2 c s3,
  curis s lbrace = false -> curis s semi = false -> curis s (KKw KVar) = false ->
  pss (reset s) = Ok i s1 -> curis s1 lbrace = false ->
  expectT semi 90 s1 = Ok p s2 -> pss s2 = Ok c s3 ->
  ifh s = if is_tag GExprStmt c then Ok (Some i, kid c 0) (relevel s s3)
          else Err (else_error A G D E s3 92) s3.
Proof.
  intros s i s1 p s2 c s3 H1 H2 H3 Hp Hb He Hc. unfold parse_if_header, cur_not. rewrite H1.
  cbv zeta. rewrite !cur_is_reset. rewrite H2, H3. simpl negb. cbv iota. rewrite Hp. cbn [bind].
  rewrite Hb. simpl negb. cbv iota. rewrite He. cbn [bind]. rewrite Hc. cbn [bind]. reflexivity.
Qed.

(* `if ; cond {` *)
Lemma ifh_semi_cond : forall s p s2 c s3,
  curis s lbrace = false -> curis s semi = true ->
  expectT semi 90 (reset s) = Ok p s2 -> pss s2 = Ok c s3 ->
  ifh s = if is_tag GExprStmt c then Ok (None, kid c 0) (relevel s s3)
          else Err (else_error A G D E s3 92) s3.
Proof.
  intros s p s2 c s3 H1 H2 He Hc. unfold parse_if_header, cur_not. rewrite H1.
  cbv zeta. rewrite !cur_is_reset. rewrite H2. simpl negb. cbv iota. cbn [bind].
  rewrite cur_is_reset, H1. simpl negb. cbv iota. rewrite He. cbn [bind]. rewrite Hc. cbn [bind].
  reflexivity.
Qed.

(* what an accepted header is made of: the condition is always the expression of
   an expression statement; the init slot is filled exactly in the two-clause form *)
Theorem if_header_inv : forall s init cond s', ifh s = Ok (init, cond) s' ->
  curis s lbrace = false /\
  exists c s3,
    is_tag GExprStmt c = true /\ cond = kid c 0 /\ s' = relevel s s3 /\
    ((init = None /\ curis s semi = false /\ pss (reset s) = Ok c s3 /\ curis s3 lbrace = true) \/
     (exists i s1 p s2,
        init = Some i /\ curis s semi = false /\ pss (reset s) = Ok i s1 /\
        curis s1 lbrace = false /\ expectT semi 90 s1 = Ok p s2 /\ pss s2 = Ok c s3) \/
     (init = None /\ curis s semi = true /\
      exists p s2, expectT semi 90 (reset s) = Ok p s2 /\ pss s2 = Ok c s3)).
Proof.
  intros s init cond s' H. unfold parse_if_header, cur_not in H.
  destruct (curis s lbrace) eqn:H1; [discriminate H |]. split; [reflexivity |].
  cbv zeta in H. rewrite !cur_is_reset in H.
  assert (Hfin : forall (i : option nodeT) (c : nodeT) (s3 : pstateT),
            (if is_tag GExprStmt c then Ok (i, kid c 0) (relevel s s3)
             else Err (else_error A G D E s3 92) s3) = Ok (init, cond) s' ->
            is_tag GExprStmt c = true /\ init = i /\ cond = kid c 0 /\ s' = relevel s s3).
  { intros i c s3 Hf. destruct (is_tag GExprStmt c); [| discriminate Hf].
    injection Hf as Ha Hb Hc. split; [reflexivity |]. repeat split; symmetry; assumption. }
  destruct (curis s semi) eqn:H2; simpl negb in H; cbv iota in H.
  - (* `if ; cond {` *)
    cbn [bind] in H. rewrite cur_is_reset, H1 in H. simpl negb in H. cbv iota in H.
    destruct (expectT semi 90 (reset s)) as [p s2 | e0 s2 | k |] eqn:He; cbn [bind] in H;
      try discriminate H.
    destruct (pss s2) as [c s3 | e0 s3 | k |] eqn:Hc; cbn [bind] in H; try discriminate H.
    destruct (Hfin _ _ _ H) as [Ha [Hb [Hc' Hd]]].
    exists c, s3. split; [exact Ha |]. split; [exact Hc' |]. split; [exact Hd |].
    right. right. split; [exact Hb |]. split; [reflexivity |]. exists p, s2. split; first [reflexivity | assumption].
  - destruct (curis s (KKw KVar)); [discriminate H |].
    destruct (pss (reset s)) as [i s1 | e0 s1 | k |] eqn:Hp; cbn [bind] in H; try discriminate H.
    destruct (curis s1 lbrace) eqn:Hb; simpl negb in H; cbv iota in H.
    + cbn [bind] in H. destruct (Hfin _ _ _ H) as [Ha [Hb' [Hc' Hd]]].
      exists i, s1. split; [exact Ha |]. split; [exact Hc' |]. split; [exact Hd |].
      left. repeat split; first [reflexivity | assumption].
    + destruct (expectT semi 90 s1) as [p s2 | e0 s2 | k |] eqn:He; cbn [bind] in H;
        try discriminate H.
      destruct (pss s2) as [c s3 | e0 s3 | k |] eqn:Hc; cbn [bind] in H; try discriminate H.
      destruct (Hfin _ _ _ H) as [Ha [Hb' [Hc' Hd]]].
      exists c, s3. split; [exact Ha |]. split; [exact Hc' |]. split; [exact Hd |].
      right. left. exists i, s1, p, s2. repeat split; first [reflexivity | assumption].
Qed.

(* ---- if: the statement *)

Theorem if_body_inv : forall s n s', ifb s = Ok n s' ->
  exists pos s1 init cond s2 body s3 els,
    expectT (KKw KIf) 93 s = Ok pos s1 /\ ifh s1 = Ok (init, cond) s2 /\
    kblock s2 = Ok body s3 /\
    n = mkT GIf [pos] [] [nopt init; cond; body; els] /\
    ((curis s3 (KKw KElse) = false /\ els = nnone /\ exists b, skippedT semi s3 = Ok b s') \/
     (curis s3 (KKw KElse) = true /\
      exists s4, nextT s3 = Ok tt s4 /\
        ((exists p, cur s4 = Some (p, TKeyword KIf) /\ kif s4 = Ok els s') \/
         (exists p s5 b, cur s4 = Some (p, TOperator OBraceLeft) /\ kblock s4 = Ok els s5 /\
                         skippedT semi s5 = Ok b s')))).
Proof.
  intros s n s' H. unfold if_body in H.
  destruct (expectT (KKw KIf) 93 s) as [pos s1 | e0 s1 | k |] eqn:He; cbn [bind] in H;
    try discriminate H.
  destruct (ifh s1) as [[init cond] s2 | e0 s2 | k |] eqn:Hh; cbn [bind] in H; try discriminate H.
  destruct (kblock s2) as [body s3 | e0 s3 | k |] eqn:Hb; cbn [bind] in H; try discriminate H.
  unfold skipped at 1 in H.
  destruct (curis s3 (KKw KElse)) eqn:Hel.
  - destruct (nextT s3) as [[] s4 | e0 s4 | k |] eqn:Hn; cbn [bind] in H; try discriminate H.
    destruct (cur s4) as [[p [c | kw | op | lk v]] |] eqn:Hc; try discriminate H.
    + destruct kw; try discriminate H.
      destruct (kif s4) as [st s5 | e0 s5 | k |] eqn:Hk; cbn [bind] in H; try discriminate H.
      injection H as H1 H2. subst s5.
      exists pos, s1, init, cond, s2, body, s3, st. split; [first [reflexivity | assumption] |]. split; [first [reflexivity | assumption] |]. split; [first [reflexivity | assumption] |]. split; [symmetry; exact H1 |].
      right. split; [first [reflexivity | assumption] |]. exists s4. split; [first [reflexivity | assumption] |]. left.
      exists p. split; first [reflexivity | assumption].
    + destruct op; try discriminate H.
      destruct (kblock s4) as [blk s5 | e0 s5 | k |] eqn:Hk; cbn [bind] in H; try discriminate H.
      destruct (skippedT semi s5) as [b s6 | e0 s6 | k |] eqn:Hs; cbn [bind] in H;
        try discriminate H.
      injection H as H1 H2. subst s6.
      exists pos, s1, init, cond, s2, body, s3, blk. split; [first [reflexivity | assumption] |]. split; [first [reflexivity | assumption] |]. split; [first [reflexivity | assumption] |]. split; [symmetry; exact H1 |].
      right. split; [first [reflexivity | assumption] |]. exists s4. split; [first [reflexivity | assumption] |]. right.
      exists p, s5, b. repeat split; first [reflexivity | assumption].
  - cbn [bind] in H.
    destruct (skippedT semi s3) as [b s5 | e0 s5 | k |] eqn:Hs; cbn [bind] in H; try discriminate H.
    injection H as H1 H2. subst s5.
    exists pos, s1, init, cond, s2, body, s3, nnone. split; [first [reflexivity | assumption] |]. split; [first [reflexivity | assumption] |]. split; [first [reflexivity | assumption] |]. split; [symmetry; exact H1 |].
    left. split; [first [reflexivity | assumption] |]. split; [reflexivity |]. exists b. first [reflexivity | assumption].
Qed.

(* forward, the four endings *)
Section IfForward.
Variables (s s1 s2 s3 : pstateT) (pos : A) (init : option nodeT) (cond body : nodeT).
Hypothesis Hif : expectT (KKw KIf) 93 s = Ok pos s1.
Hypothesis Hhd : ifh s1 = Ok (init, cond) s2.
Hypothesis Hbody : kblock s2 = Ok body s3.

Lemma if_no_else : forall b s5,
  curis s3 (KKw KElse) = false -> skippedT semi s3 = Ok b s5 ->
  ifb s = Ok (mkT GIf [pos] [] [nopt init; cond; body; nnone]) s5.
Proof.
  intros b s5 He Hs. unfold if_body. rewrite Hif. cbn [bind]. rewrite Hhd. cbn [bind].
  rewrite Hbody. cbn [bind]. unfold skipped at 1. rewrite He. cbn [bind]. rewrite Hs. reflexivity.
Qed.

Lemma if_else_if : forall s4 p st s5,
  curis s3 (KKw KElse) = true -> nextT s3 = Ok tt s4 ->
  cur s4 = Some (p, TKeyword KIf) -> kif s4 = Ok st s5 ->
  ifb s = Ok (mkT GIf [pos] [] [nopt init; cond; body; st]) s5.
Proof.
  intros s4 p st s5 He Hn Hc Hk. unfold if_body. rewrite Hif. cbn [bind]. rewrite Hhd. cbn [bind].
  rewrite Hbody. cbn [bind]. unfold skipped at 1. rewrite He, Hn. cbn [bind]. rewrite Hc, Hk.
  reflexivity.
Qed.

Lemma if_else_block : forall s4 p blk s5 b s6,
  curis s3 (KKw KElse) = true -> nextT s3 = Ok tt s4 ->
  cur s4 = Some (p, TOperator OBraceLeft) -> kblock s4 = Ok blk s5 ->
  skippedT semi s5 = Ok b s6 ->
  ifb s = Ok (mkT GIf [pos] [] [nopt init; cond; body; blk]) s6.
Proof.
  intros s4 p blk s5 b s6 He Hn Hc Hk Hs. unfold if_body. rewrite Hif. cbn [bind]. rewrite Hhd.
  cbn [bind]. rewrite Hbody. cbn [bind]. unfold skipped at 1. rewrite He, Hn. cbn [bind].
  rewrite Hc, Hk. cbn [bind]. rewrite Hs. reflexivity.
Qed.

Lemma if_else_err : forall s4,
  curis s3 (KKw KElse) = true -> nextT s3 = Ok tt s4 ->
  curis s4 (KKw KIf) = false -> curis s4 lbrace = false ->
  ifb s = Err (else_error A G D E s4 95) s4.
Proof.
  intros s4 He Hn H1 H2. unfold if_body. rewrite Hif. cbn [bind]. rewrite Hhd. cbn [bind].
  rewrite Hbody. cbn [bind]. unfold skipped at 1. rewrite He, Hn. cbn [bind].
  unfold cur_is in H1, H2. destruct (cur s4) as [[p [c | kw | op | lk v]] |]; try reflexivity.
  - destruct kw; try reflexivity. discriminate H1.
  - destruct op; try reflexivity. discriminate H2.
Qed.

End IfForward.

(* ---- for *)

(* an optional clause: absent when the stop token is current, otherwise a
   simple statement *)
Definition opt_clause (stop : tkind) (s : pstateT) (o : option nodeT) (s' : pstateT) : Prop :=
  (curis s stop = true /\ o = None /\ s' = s) \/
  (curis s stop = false /\ exists st, pss s = Ok st s' /\ o = Some st).

Lemma opt_clause_run : forall stop s o s', opt_clause stop s o s' ->
  (if cur_not A G D E s stop
   then bind A G D E (pss s) (fun st s5 => Ok (Some st) s5)
   else Ok None s) = Ok o s'.
Proof.
  intros stop s o s' [[H1 [H2 H3]] | [H1 [st [H2 H3]]]]; unfold cur_not; rewrite H1; simpl.
  - subst o s'. reflexivity.
  - rewrite H2. subst o. reflexivity.
Qed.

Section ForForward.
Variables (s s1 : pstateT) (pos : A).
Hypothesis Hfor : expectT (KKw KFor) 111 s = Ok pos s1.

(* `for range x {` *)
Lemma for_range_bare : forall pr s3 x s4 body s5,
  curis s1 (KKw KRange) = true ->
  expectT (KKw KRange) 112 (reset s1) = Ok pr s3 -> kexpr s3 = Ok x s4 ->
  kblock (relevel s1 s4) = Ok body s5 ->
  pfor s = Ok (mkT GRangeStmt [pos; pr] [] [nnone; nnone; nnone; x; body]) s5.
Proof.
  intros pr s3 x s4 body s5 Hr He Hx Hb. unfold parse_for_stmt. rewrite Hfor. cbn [bind].
  cbv zeta. rewrite cur_is_reset, Hr, He. cbn [bind]. rewrite Hx. cbn [bind]. rewrite Hb.
  reflexivity.
Qed.

(* `for {` *)
Lemma for_bare : forall body s3,
  curis s1 (KKw KRange) = false -> curis s1 lbrace = true ->
  kblock (relevel s1 (reset s1)) = Ok body s3 ->
  pfor s = Ok (mkT GFor [pos] [] [nnone; nnone; nnone; body]) s3.
Proof.
  intros body s3 Hr Hl Hb. unfold parse_for_stmt. rewrite Hfor. cbn [bind].
  cbv zeta. rewrite !cur_is_reset, Hr, Hl, Hb. reflexivity.
Qed.

(* `for cond {`: only the condition slot *)
Lemma for_cond : forall st s3 body s5,
  curis s1 (KKw KRange) = false -> curis s1 lbrace = false -> curis s1 semi = false ->
  pss (reset s1) = Ok st s3 -> assign_is_range A C st = false ->
  curis s3 semi = false -> kblock (relevel s1 s3) = Ok body s5 ->
  pfor s = Ok (mkT GFor [pos] [] [nnone; st; nnone; body]) s5.
Proof.
  intros st s3 body s5 Hr Hl Hs Hp Har Hs3 Hb. unfold parse_for_stmt. rewrite Hfor. cbn [bind].
  cbv zeta. unfold cur_not. rewrite !cur_is_reset, Hr, Hl, Hs. simpl negb. cbv iota.
  rewrite Hp. cbn [bind]. rewrite Har, Hs3. cbn [bind]. rewrite Hb. reflexivity.
Qed.

(* `for init; cond; post {`: each clause optional, each in its own slot *)
Definition for_init (init : option nodeT) (s3 : pstateT) : Prop :=
  (curis s1 semi = true /\ init = None /\ s3 = reset s1) \/
  (curis s1 semi = false /\
   exists st, pss (reset s1) = Ok st s3 /\ assign_is_range A C st = false /\ init = Some st).

Lemma for_clauses : forall init s3 s4 cond s5 p s6 post s7 body s8,
  curis s1 (KKw KRange) = false -> curis s1 lbrace = false ->
  for_init init s3 ->
  curis s3 semi = true -> nextT s3 = Ok tt s4 ->
  opt_clause semi s4 cond s5 ->
  expectT semi 113 s5 = Ok p s6 ->
  opt_clause lbrace s6 post s7 ->
  kblock (relevel s1 s7) = Ok body s8 ->
  pfor s = Ok (mkT GFor [pos] [] [nopt init; nopt cond; nopt post; body]) s8.
Proof.
  intros init s3 s4 cond s5 p s6 post s7 body s8 Hr Hl Hi Hs3 Hn Hc He Hp Hb.
  unfold parse_for_stmt. rewrite Hfor. cbn [bind].
  cbv zeta. rewrite !cur_is_reset, Hr, Hl.
  change (cur_not A G D E (reset s1) semi) with (negb (curis s1 semi)).
  destruct Hi as [[H1 [H2 H3]] | [H1 [st [H2 [H3 H4]]]]]; rewrite H1; simpl negb; cbv iota.
  - subst init s3. cbv iota. rewrite Hn. cbn [bind]. rewrite (opt_clause_run _ _ _ _ Hc). cbn [bind].
    rewrite He. cbn [bind]. rewrite (opt_clause_run _ _ _ _ Hp). cbn [bind]. rewrite Hb. reflexivity.
  - subst init. rewrite H2. cbn [bind]. rewrite H3, Hs3, Hn. cbn [bind].
    rewrite (opt_clause_run _ _ _ _ Hc). cbn [bind].
    rewrite He. cbn [bind]. rewrite (opt_clause_run _ _ _ _ Hp). cbn [bind]. rewrite Hb. reflexivity.
Qed.

(* `for k, v := range x {` / `for k = range x {`: the Assign with a Range on the
   right becomes the RangeStmt: key and value from the left, the operator with
   its position, the ranged expression *)
Lemma for_range_assign : forall apos op left pr x s3 body s4,
  curis s1 (KKw KRange) = false -> curis s1 lbrace = false -> curis s1 semi = false ->
  pss (reset s1) =
    Ok (mkT GAssign [apos] [AOp op] [nlist left; nlist [mkT GRange [pr] [] [x]]]) s3 ->
  kblock (relevel s1 s3) = Ok body s4 ->
  pfor s =
    if 3 <=? length left then Err (else_error_at A E apos 114) s3
    else Ok (mkT GRangeStmt [pos; pr] []
               [nopt (nth_error left 0); nopt (nth_error left 1);
                Nd GPos [apos] [AOp op] [] []; x; body]) s4.
Proof.
  intros apos op left pr x s3 body s4 Hr Hl Hs Hp Hb. unfold parse_for_stmt. rewrite Hfor.
  cbn [bind]. cbv zeta. unfold cur_not. rewrite !cur_is_reset, Hr, Hl, Hs. simpl negb. cbv iota.
  rewrite Hp. cbn [bind].
  change (assign_is_range A C
            (mkT GAssign [apos] [AOp op] [nlist left; nlist [mkT GRange [pr] [] [x]]])) with true.
  cbv iota.
  change (n_kids (kid (mkT GAssign [apos] [AOp op] [nlist left; nlist [mkT GRange [pr] [] [x]]]) 0))
    with left.
  destruct (3 <=? length left); [reflexivity |].
  change (n_kids (kid (mkT GAssign [apos] [AOp op] [nlist left; nlist [mkT GRange [pr] [] [x]]]) 1))
    with [mkT GRange [pr] [] [x]].
  unfold pop_last. simpl rev. cbv iota.
  change (is_tag GRange (mkT GRange [pr] [] [x])) with true. cbv iota.
  rewrite Hb. reflexivity.
Qed.

End ForForward.

End Headers.

(* ================================================================== 1'. where reset_chan_arrow is called *)

Section Unary.
Variables (A G D C E : Type).
Variable OPS : ops A G D C.
Variable self : parsers A G D C E.

(* a unary `<-` whose operand came back as a channel type is not a receive
   operation: the arrow is re-associated; otherwise it is the receive operator *)
Lemma unary_arrow : forall (s s1 s2 : pstate A G D E) pos x,
  s_cur A G D E s = Some (pos, TOperator OArrow) ->
  next A G D C E OPS s = Ok tt s1 -> k_unary A G D C E self s1 = Ok x s2 ->
  unary_body A G D C E OPS self s =
    if is_tag GTypeChannel x then
      match reset_chan_arrow A C E pos x with
      | inl t => Ok t s2
      | inr e => Err e s2
      end
    else Ok (n_operation A C pos OArrow x None) s2.
Proof.
  intros s s1 s2 pos x Hc Hn Hk. unfold unary_body. rewrite Hc. simpl classify_unary. cbv iota.
  rewrite Hn. cbn [bind]. rewrite Hk. reflexivity.
Qed.

End Unary.

(* ================================================================== examples *)
(* positions = token indices, no comments (PrecProofs.demo_ops); the closed
   parser at depth 30 *)

Local Notation DP := (parsers_at nat unit unit unit unit demo_ops 30).

(* the state after the first Parser::next on a token list *)
Definition demo_state (l : list token) : pstate nat unit unit unit :=
  let s0 := init_state nat unit unit unit 0 tt (demo_stream 0 l) (TEof (length l) tt) in
  match next nat unit unit unit unit demo_ops s0 with Ok _ s => s | _ => s0 end.

Inductive outcome (X : Type) : Type :=
| Accepted (x : X) (at_token : option (nat * token))
| Rejected (e : perr nat unit) (at_token : option (nat * token))
| Other.
Arguments Accepted {X}. Arguments Rejected {X}. Arguments Other {X}.
Definition outcome_of {X} (r : res nat unit unit unit X) : outcome X :=
  match r with
  | Ok x s => Accepted x (s_cur _ _ _ _ s)
  | Err e s => Rejected e (s_cur _ _ _ _ s)
  | _ => Other
  end.

Definition demo_expr (l : list token) : outcome (node nat unit) :=
  outcome_of (k_expr nat unit unit unit unit DP (demo_state l)).
Definition demo_simple (l : list token) : outcome (node nat unit) :=
  outcome_of (parse_simple_stmt nat unit unit unit unit demo_ops DP (demo_state l)).
Definition demo_param (l : list token) : outcome (list (node nat unit)) :=
  outcome_of (parse_parameter_decl nat unit unit unit unit demo_ops DP (demo_state l)).
Definition demo_stmt (l : list token) : outcome (node nat unit) :=
  outcome_of (k_stmt nat unit unit unit unit DP (demo_state l)).

Definition kw (k : keyword) : token := TKeyword k.
Local Notation "'I' p c" := (n_ident nat unit p [c%N]) (at level 9, p at level 9, c at level 9).
Local Notation mkN := (mk nat unit).
Local Notation fld names typ := (n_field nat unit names typ None tt).
Local Notation chan p a d T := (Nd GTypeChannel [p; a] [ADir d] [] [T]).
Definition t_a := tid 97. Definition t_b := tid 98. Definition t_c := tid 99.
Definition t_T := tid 84. Definition t_int := tid 105.
Definition t_1 := TLiteral LInteger [49%N].
Definition LB := top OBraceLeft. Definition RB := top OBraceRight.
Definition SC := top OSemiColon. Definition CM := top OComma.
Definition RP := top OParenRight.

(* ---- 1. channels *)

(* <-chan int *)
Example ex_chan_recv :
  demo_expr [top OArrow; kw KChan; t_int] = Accepted (chan 1 0 2 (I 2 105)) None.
Proof. vm_compute. reflexivity. Qed.

(* <-chan<- chan int  =  <-chan (<-chan int): both arrows move one `chan` to the right *)
Example ex_chan_recv_send :
  demo_expr [top OArrow; kw KChan; top OArrow; kw KChan; t_int]
  = Accepted (chan 1 0 2 (chan 3 2 2 (I 4 105))) None.
Proof. vm_compute. reflexivity. Qed.

(* <-chan<- chan<- chan int  =  <-chan (<-chan (<-chan int)) *)
Example ex_chan_recv_send_send :
  demo_expr [top OArrow; kw KChan; top OArrow; kw KChan; top OArrow; kw KChan; t_int]
  = Accepted (chan 1 0 2 (chan 3 2 2 (chan 5 4 2 (I 6 105)))) None.
Proof. vm_compute. reflexivity. Qed.

(* the nest before re-association, and reset_chan_arrow on it directly *)
Example ex_chan_send_send :
  demo_expr [kw KChan; top OArrow; kw KChan; top OArrow; kw KChan; t_int]
  = Accepted (chan 0 1 1 (chan 2 3 1 (chan 4 5 0 (I 5 105)))) None.
Proof. vm_compute. reflexivity. Qed.
Example ex_reset_direct :
  reset_chan_arrow nat unit unit 100 (chan 0 1 1 (chan 2 3 1 (chan 4 5 0 (I 5 105))))
  = inl (chan 0 100 2 (chan 2 1 2 (chan 4 3 2 (I 5 105)))).
Proof. vm_compute. reflexivity. Qed.

Example ex_reassoc :
  reassoc [0] = Some [2] /\ reassoc [1; 0] = Some [2; 2] /\ reassoc [1; 1; 0] = Some [2; 2; 2] /\
  reassoc [1; 0; 1; 0] = Some [2; 2; 1; 0] /\
  reassoc [2] = None /\ reassoc [1; 2] = None /\ reassoc [1] = None /\ reassoc [1; 1] = None /\
  reassoc_err [1; 2] = Some ErrRecv /\ reassoc_err [1; 1] = Some ErrElem.
Proof. repeat split; reflexivity. Qed.

(* <- chan <- chan T, read by the spec's rule, is <-chan (<-chan T) *)
Example ex_read :
  spell [1; 0] = [CChan; CArrow; CChan; CElem] /\
  read_chan (CArrow :: spell [1; 0]) = Some [2; 2] /\
  spell [2; 2] = CArrow :: spell [1; 0] /\
  read_chan (CArrow :: spell [1]) = None /\ read_chan (CArrow :: spell [1; 2]) = None.
Proof. repeat split; reflexivity. Qed.

(* error 1: <-chan<- int : the absorbed arrow (position 2) is not followed by a channel *)
Example ex_chan_err_elem :
  demo_expr [top OArrow; kw KChan; top OArrow; t_int] = Rejected (PElse 2 72) None.
Proof. vm_compute. reflexivity. Qed.

(* error 2: <-chan<- <-chan int : the absorbed arrow meets a receive-only channel *)
Example ex_chan_err_recv :
  demo_expr [top OArrow; kw KChan; top OArrow; top OArrow; kw KChan; t_int]
  = Rejected (PUnexpected 3 (Some (TOperator OArrow)) 71) None.
Proof. vm_compute. reflexivity. Qed.
Example ex_chan_err_recv2 :
  demo_expr [top OArrow; top OArrow; kw KChan; t_int]
  = Rejected (PUnexpected 1 (Some (TOperator OArrow)) 71) None.
Proof. vm_compute. reflexivity. Qed.

(* ---- 2. simple statements *)

Definition asg p op l r : node nat unit := mkN GAssign [p] [AOp op] [nlist l; nlist r].

Example ex_define :
  demo_simple [t_a; top ODefine; t_b; SC]
  = Accepted (asg 1 ODefine [I 0 97] [I 2 98]) (Some (3, SC)).
Proof. vm_compute. reflexivity. Qed.
Example ex_assign :
  demo_simple [t_a; top OAssign; t_b; SC]
  = Accepted (asg 1 OAssign [I 0 97] [I 2 98]) (Some (3, SC)).
Proof. vm_compute. reflexivity. Qed.
Example ex_op_assign :
  demo_simple [t_a; top OAddAssign; t_b; SC]
  = Accepted (asg 1 OAddAssign [I 0 97] [I 2 98]) (Some (3, SC)).
Proof. vm_compute. reflexivity. Qed.
Example ex_range_form :
  demo_simple [t_a; CM; t_b; top ODefine; kw KRange; t_c; SC]
  = Accepted (asg 3 ODefine [I 0 97; I 2 98] [mkN GRange [4] [] [I 5 99]]) (Some (6, SC)).
Proof. vm_compute. reflexivity. Qed.
Example ex_send :
  demo_simple [t_a; top OArrow; t_b; SC]
  = Accepted (mkN GSend [1] [] [I 0 97; I 2 98]) (Some (3, SC)).
Proof. vm_compute. reflexivity. Qed.
Example ex_incdec :
  demo_simple [t_a; top OInc; SC] = Accepted (mkN GIncDec [1] [AOp OInc] [I 0 97]) (Some (2, SC)) /\
  demo_simple [t_a; top ODec; SC] = Accepted (mkN GIncDec [1] [AOp ODec] [I 0 97]) (Some (2, SC)).
Proof. split; vm_compute; reflexivity. Qed.
Example ex_label :
  demo_simple [t_a; top OColon; t_b; SC]
  = Accepted (mkN GLabel [1] [] [I 0 97; mkN GExprStmt [] [] [I 2 98]]) None.
Proof. vm_compute. reflexivity. Qed.
Example ex_expr_stmt :
  demo_simple [t_a; SC] = Accepted (mkN GExprStmt [] [] [I 0 97]) (Some (1, SC)).
Proof. vm_compute. reflexivity. Qed.
(* a, b++  /  a.b := c  /  a = b, c  /  a(): b *)
Example ex_simple_errors :
  demo_simple [t_a; CM; t_b; top OInc; SC] = Rejected (PElse 0 74) (Some (3, top OInc)) /\
  demo_simple [t_a; top ODot; t_b; top ODefine; t_c; SC] = Rejected (PElse 0 75) (Some (5, SC)) /\
  demo_simple [t_a; top OAssign; t_b; CM; t_c; SC] = Rejected (PElse 1 77) (Some (5, SC)) /\
  demo_simple [t_a; top OParenLeft; RP; top OColon; t_b; SC]
    = Rejected (PElse 3 78) (Some (3, top OColon)).
Proof. repeat split; vm_compute; reflexivity. Qed.

(* ---- 3. parameters *)

(* a, b T ) *)
Example ex_param_names_type :
  demo_param [t_a; CM; t_b; t_T; RP] = Accepted [fld [I 0 97; I 2 98] (I 3 84)] (Some (4, RP)).
Proof. vm_compute. reflexivity. Qed.
(* a T , *)
Example ex_param_name_type :
  demo_param [t_a; t_T; CM] = Accepted [fld [I 0 97] (I 1 84)] (Some (2, CM)).
Proof. vm_compute. reflexivity. Qed.
(* T ) *)
Example ex_param_type_only :
  demo_param [t_T; RP] = Accepted [fld [] (I 0 84)] (Some (1, RP)).
Proof. vm_compute. reflexivity. Qed.
(* a, b ) *)
Example ex_param_two_types :
  demo_param [t_a; CM; t_b; RP] = Accepted [fld [] (I 0 97); fld [] (I 2 98)] (Some (3, RP)).
Proof. vm_compute. reflexivity. Qed.
(* a ...T ) *)
Example ex_param_ellipsis :
  demo_param [t_a; top ODotDotDot; t_T; RP]
  = Accepted [fld [I 0 97] (mkN GEllipsis [1] [] [I 2 84])] (Some (3, RP)).
Proof. vm_compute. reflexivity. Qed.
(* a.T ) *)
Example ex_param_qualified :
  demo_param [t_a; top ODot; t_T; RP]
  = Accepted [fld [] (mkN GSelector [1] [] [I 0 97; I 2 84])] (Some (3, RP)).
Proof. vm_compute. reflexivity. Qed.
(* a, b.T )   a, *T )   a, b ...T ) *)
Example ex_param_more :
  demo_param [t_a; CM; t_b; top ODot; t_T; RP]
    = Accepted [fld [] (I 0 97); fld [] (mkN GSelector [3] [] [I 2 98; I 4 84])] (Some (5, RP)) /\
  demo_param [t_a; CM; top OStar; t_T; RP] = Accepted [fld [] (I 0 97)] (Some (2, top OStar)) /\
  demo_param [t_a; CM; t_b; top ODotDotDot; t_T; RP]
    = Rejected (PElse 4 24) (Some (3, top ODotDotDot)).
Proof. repeat split; vm_compute; reflexivity. Qed.

(* ---- 4. if / for *)

Definition blk p q : node nat unit := mkN GBlock [p; q] [] [].

(* if a {} *)
Example ex_if_cond :
  demo_stmt [kw KIf; t_a; LB; RB; SC]
  = Accepted (mkN GIf [0] [] [nnone; I 1 97; blk 2 3; nnone]) None.
Proof. vm_compute. reflexivity. Qed.
(* if a := b; a {} *)
Example ex_if_init_cond :
  demo_stmt [kw KIf; t_a; top ODefine; t_b; SC; t_a; LB; RB; SC]
  = Accepted (mkN GIf [0] [] [asg 2 ODefine [I 1 97] [I 3 98]; I 5 97; blk 6 7; nnone]) None.
Proof. vm_compute. reflexivity. Qed.
(* if a := b {} : the condition is not an expression *)
Example ex_if_cond_err :
  demo_stmt [kw KIf; t_a; top ODefine; t_b; LB; RB; SC] = Rejected (PElse 5 92) (Some (4, LB)).
Proof. vm_compute. reflexivity. Qed.
(* if a {} else {}   /   if a {} else if b {} *)
Example ex_if_else :
  demo_stmt [kw KIf; t_a; LB; RB; kw KElse; LB; RB; SC]
    = Accepted (mkN GIf [0] [] [nnone; I 1 97; blk 2 3; blk 5 6]) None /\
  demo_stmt [kw KIf; t_a; LB; RB; kw KElse; kw KIf; t_b; LB; RB; SC]
    = Accepted (mkN GIf [0] [] [nnone; I 1 97; blk 2 3;
                                mkN GIf [5] [] [nnone; I 6 98; blk 7 8; nnone]]) None.
Proof. split; vm_compute; reflexivity. Qed.

(* for {}   for a {}   for ;; {} *)
Example ex_for_bare :
  demo_stmt [kw KFor; LB; RB; SC]
    = Accepted (mkN GFor [0] [] [nnone; nnone; nnone; blk 1 2]) (Some (3, SC)) /\
  demo_stmt [kw KFor; t_a; LB; RB; SC]
    = Accepted (mkN GFor [0] [] [nnone; mkN GExprStmt [] [] [I 1 97]; nnone; blk 2 3])
               (Some (4, SC)) /\
  demo_stmt [kw KFor; SC; SC; LB; RB; SC]
    = Accepted (mkN GFor [0] [] [nnone; nnone; nnone; blk 3 4]) (Some (5, SC)).
Proof. repeat split; vm_compute; reflexivity. Qed.
(* for a := 1; a < b; a++ {} *)
Example ex_for_clauses :
  demo_stmt [kw KFor; t_a; top ODefine; t_1; SC; t_a; top OLess; t_b; SC; t_a; top OInc; LB; RB; SC]
  = Accepted (mkN GFor [0] []
                [asg 2 ODefine [I 1 97] [n_basic nat unit 3 LInteger [49%N]];
                 mkN GExprStmt [] [] [n_operation nat unit 6 OLess (I 5 97) (Some (I 7 98))];
                 mkN GIncDec [10] [AOp OInc] [I 9 97];
                 blk 11 12]) (Some (13, SC)).
Proof. vm_compute. reflexivity. Qed.
(* for a, b := range c {}   /   for range c {}   /   for a, b, c := range c {} *)
Example ex_for_range :
  demo_stmt [kw KFor; t_a; CM; t_b; top ODefine; kw KRange; t_c; LB; RB; SC]
    = Accepted (mkN GRangeStmt [0; 5] []
                  [I 1 97; I 3 98; Nd GPos [4] [AOp ODefine] [] []; I 6 99; blk 7 8])
               (Some (9, SC)) /\
  demo_stmt [kw KFor; kw KRange; t_c; LB; RB; SC]
    = Accepted (mkN GRangeStmt [0; 1] [] [nnone; nnone; nnone; I 2 99; blk 3 4]) (Some (5, SC)) /\
  demo_stmt [kw KFor; t_a; CM; t_b; CM; t_c; top ODefine; kw KRange; t_c; LB; RB; SC]
    = Rejected (PElse 6 114) (Some (9, LB)).
Proof. repeat split; vm_compute; reflexivity. Qed.

(* ---- what the model accepts although the spec's grammar has no such text
   (the slots are filled as the lemmas above say; nothing checks the kind) *)

(* for a := 1 {} : an assignment in the condition slot *)
Example ex_for_cond_not_expr :
  demo_stmt [kw KFor; t_a; top ODefine; t_1; LB; RB; SC]
  = Accepted (mkN GFor [0] []
                [nnone; asg 2 ODefine [I 1 97] [n_basic nat unit 3 LInteger [49%N]]; nnone;
                 blk 4 5]) (Some (6, SC)).
Proof. vm_compute. reflexivity. Qed.
(* a := range c;  as an ordinary statement, and as the init of an if *)
Example ex_range_outside_for :
  demo_stmt [t_a; top ODefine; kw KRange; t_c; SC]
    = Accepted (asg 1 ODefine [I 0 97] [mkN GRange [2] [] [I 3 99]]) None /\
  demo_stmt [kw KIf; t_a; top ODefine; kw KRange; t_c; SC; t_a; LB; RB; SC]
    = Accepted (mkN GIf [0] []
                  [asg 2 ODefine [I 1 97] [mkN GRange [3] [] [I 4 99]]; I 6 97; blk 7 8; nnone])
               None.
Proof. split; vm_compute; reflexivity. Qed.
