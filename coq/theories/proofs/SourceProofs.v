(* C05 / C06 at the level of the SOURCE TEXT.

   C06 (AccountProofs.v) relates the leaves of an accepted tree to the stream
   of elements handed to the parser; C07 (LexProofs.v) says that the scanner's
   token sequence tiles the source; C11 (CommentProofs.v) relates the returned
   comment list to the scanner's comment tokens.  Here the three are composed
   through [prepare] / [group_stream]:

     - the stream of elements the parser reads is the scanner's token sequence
       without its comment tokens ([group_stream_pe], [prepared_pe]);
     - hence the identifier / literal leaves of an accepted file are exactly
       the identifier / literal tokens the scanner produced, with the offsets
       it reported ([file_leaves_source]);
     - an identifier / literal / comment token is never a synthetic semicolon,
       so it is a REAL tile: its text stands in the source at its offset
       ([file_leaf_positions], [file_comment_positions]), and the offsets of
       real tokens strictly increase ([file_leaves_sorted]).

   Positions are indices into [src : list N], the list of code points: 0-based
   CHARACTER offsets. *)
From Coq Require Import List NArith Bool Arith Lia Sorted.
From GoSyn Require Import Token Tok Scanner Ast Core Policy Entry.
From GoSyn.spec Require Import Lex.
From GoSyn.proofs Require Import LexProofs Lift CommentProofs AccountBase AccountProofs.
Import ListNotations.
Local Open Scope N_scope.

(* ------------------------------------------------------------ the scanner stream *)

Notation triple := (N * token * N)%type.

Definition is_comment_tok (t : token) : bool :=
  match t with TComment _ => true | _ => false end.

(* (offset, token) of an element of the scanner's sequence *)
Definition tok_of (x : triple) : leaf N := (fst (fst x), snd (fst x)).

Definition non_comment (x : triple) : bool := negb (is_comment_tok (snd (fst x))).

(* the scanner's tokens that are not comments, with their offsets *)
Definition code_tokens (ts : list triple) : list (leaf N) :=
  map tok_of (filter non_comment ts).

(* the scanner's identifier and literal tokens, with their offsets *)
Definition lit_triple (x : triple) : bool := is_lit_tok (snd (fst x)).
Definition lit_tokens (ts : list triple) : list (leaf N) :=
  map tok_of (filter lit_triple ts).

(* grouping drops the comment tokens and nothing else *)
Lemma group_stream_pe : forall ts g,
  map pe (fst (group_stream ts g)) =
  map (fun x => (fst (fst x), snd (fst x))) (filter (fun x => negb (is_comment_tok (snd (fst x)))) ts).
Proof.
  induction ts as [|[[p t] e] r IH]; intros g; [ reflexivity | ].
  destruct t as [text|kw|o|lk text]; cbn [group_stream].
  - cbn [filter fst snd is_comment_tok negb]. apply IH.
  - specialize (IH []). destruct (group_stream r []) as [es tail].
    cbn [filter fst snd is_comment_tok negb map pe]. cbn [fst] in IH. rewrite IH. reflexivity.
  - specialize (IH []). destruct (group_stream r []) as [es tail].
    cbn [filter fst snd is_comment_tok negb map pe]. cbn [fst] in IH. rewrite IH. reflexivity.
  - specialize (IH []). destruct (group_stream r []) as [es tail].
    cbn [filter fst snd is_comment_tok negb map pe]. cbn [fst] in IH. rewrite IH. reflexivity.
Qed.

Lemma prepared_pe U src p : prepare U src = Some p ->
  map pe (pr_elems p) = code_tokens (fst (scan_all_ext U src)).
Proof.
  unfold prepare. destruct (scan_all_ext U src) as [ts e] eqn:Hs.
  pose proof (group_stream_pe ts []) as Hg.
  destruct (group_stream ts []) as [es tail]. cbn [fst] in Hg |- *.
  destruct e as [s|q k s|]; intros H; [ | | discriminate H ]; injection H as <-;
    cbn [pr_elems]; exact Hg.
Qed.

Lemma filter_map_comm X Y (f : Y -> bool) (g : X -> Y) : forall l,
  filter f (map g l) = map g (filter (fun x => f (g x)) l).
Proof.
  induction l as [|x l IH]; [ reflexivity | ]. cbn [map filter].
  destruct (f (g x)); cbn [map]; rewrite IH; reflexivity.
Qed.

Lemma filter_filter_sub X (f g : X -> bool) : (forall x, f x = true -> g x = true) ->
  forall l, filter f (filter g l) = filter f l.
Proof.
  intros Hfg. induction l as [|x l IH]; [ reflexivity | ]. cbn [filter].
  destruct (g x) eqn:Hg.
  - cbn [filter]. rewrite IH. reflexivity.
  - destruct (f x) eqn:Hf; [ | exact IH ]. apply Hfg in Hf. congruence.
Qed.

(* a comment is not an identifier / literal *)
Lemma identlits_code_tokens : forall ts, identlits (code_tokens ts) = lit_tokens ts.
Proof.
  intros ts. unfold code_tokens, lit_tokens, identlits. rewrite filter_map_comm. f_equal.
  apply (filter_filter_sub _ (fun x => is_lit (tok_of x)) non_comment).
  intros [[p t] e]. unfold is_lit, tok_of, non_comment. cbn [fst snd].
  destruct t; try reflexivity. discriminate.
Qed.

(* ------------------------------------------------------------ tiles *)

Definition is_semi_tok (t : token) : bool :=
  match t with TOperator OSemiColon => true | _ => false end.

Lemma is_lit_not_semi t : is_lit_tok t = true -> is_semi_tok t = false.
Proof. destruct t as [text|kw|o|lk text]; try reflexivity. discriminate. Qed.

(* every element of a tiling that is not a semicolon is a real tile *)
Lemma tiling_in_real ws src : forall start ts, tiling ws src start ts ->
  forall p t e, In (p, t, e) ts -> is_semi_tok t = false -> real_tile src p t e.
Proof.
  intros start ts H. induction H as [start|start p t e toks Hsp Hpe Hel Hws Htile Ht IH].
  - intros p t e [].
  - intros p' t' e' [Heq|Hin] Hns.
    + injection Heq as <- <- <-. destruct Htile as [Hr|(Hsyn & _)]; [ exact Hr | ].
      rewrite Hsyn in Hns. discriminate Hns.
    + exact (IH p' t' e' Hin Hns).
Qed.

(* the offsets of the elements selected by Q strictly increase when Q selects
   no semicolon: a real token is not empty, everything after it starts later *)
Lemma tiling_filter_sorted ws src (Q : triple -> bool) :
  (forall x, Q x = true -> is_semi_tok (snd (fst x)) = false) ->
  forall start ts, tiling ws src start ts ->
  StronglySorted N.lt (map (fun x => fst (fst x)) (filter Q ts)) /\
  Forall (fun x => start <= fst (fst x)) ts.
Proof.
  intros HQ start ts H.
  induction H as [start|start p t e toks Hsp Hpe Hel Hws Htile Ht [IH1 IH2]].
  - split; constructor.
  - assert (Hrest : Forall (fun x : triple => start <= fst (fst x)) toks).
    { eapply Forall_impl; [ | exact IH2 ]. cbv beta. intros c Hc. lia. }
    split; [ | constructor; [ cbn [fst]; exact Hsp | exact Hrest ] ].
    cbn [filter]. destruct (Q (p, t, e)) eqn:Hq; [ | exact IH1 ].
    apply HQ in Hq. cbn [fst snd] in Hq.
    assert (Hlt : p < e).
    { destruct Htile as [Hr|(Hsyn & _)]; [ exact (real_tile_lt _ _ _ _ Hr) | ].
      rewrite Hsyn in Hq. discriminate Hq. }
    cbn [map fst]. constructor; [ exact IH1 | ].
    apply Forall_forall. intros x Hx. apply in_map_iff in Hx as (c & <- & Hc).
    apply filter_In in Hc as [Hc _].
    rewrite Forall_forall in IH2. specialize (IH2 c Hc). cbv beta in IH2. lia.
Qed.

Lemma real_tile_text src p t e : real_tile src p t e ->
  slice src p (p + lenN (tok_text t)) = tok_text t /\ tok_text t <> [].
Proof. intros (Hne & He & Hs). subst e. split; assumption. Qed.

Lemma in_lit_tokens ts pos tok : In (pos, tok) (lit_tokens ts) ->
  is_lit_tok tok = true /\ exists e, In (pos, tok, e) ts.
Proof.
  unfold lit_tokens. intros H. apply in_map_iff in H as ([[p t] e] & Heq & Hin).
  apply filter_In in Hin as [Hin Hl]. unfold tok_of in Heq. cbn [fst snd] in Heq.
  injection Heq as -> ->. unfold lit_triple in Hl. cbn [fst snd] in Hl.
  split; [ exact Hl | exists e; exact Hin ].
Qed.

Lemma in_comments_of : forall ts pos text, In (pos, text) (comments_of ts) ->
  exists e, In (pos, TComment text, e) ts.
Proof.
  induction ts as [|[[p t] e] r IH]; intros pos text H; [ destruct H | ].
  destruct t as [tx|kw|o|lk tx]; cbn [comments_of] in H.
  - destruct H as [Heq|H].
    + injection Heq as -> ->. exists e. left. reflexivity.
    + destruct (IH _ _ H) as [e' He']. exists e'. right. exact He'.
  - destruct (IH _ _ H) as [e' He']. exists e'. right. exact He'.
  - destruct (IH _ _ H) as [e' He']. exists e'. right. exact He'.
  - destruct (IH _ _ H) as [e' He']. exists e'. right. exact He'.
Qed.

(* ------------------------------------------------------------ accepted files *)

Lemma run_entry_file_accounted (p : prepared) f s' :
  run_entry EFile p = Ok f s' ->
  leaves f = identlits (map pe (pr_elems p)) /\ balanced (map pe (pr_elems p)).
Proof.
  unfold run_entry, start_state. intros H.
  apply parse_file_accounted_init in H as (H1 & H2 & _). split; assumption.
Qed.

(* C06 from the source: the leaves are the scanner's identifier / literal
   tokens, and the scanner's bracket tokens are properly nested *)
Theorem file_leaves_source : forall U src p f s',
  prepare U src = Some p ->
  run_entry EFile p = Ok f s' ->
  leaves f =
    identlits (map (fun x => (fst (fst x), snd (fst x)))
                   (filter (fun x => negb (is_comment_tok (snd (fst x))))
                           (fst (scan_all_ext U src)))) /\
  balanced (map (fun x => (fst (fst x), snd (fst x)))
                (filter (fun x => negb (is_comment_tok (snd (fst x))))
                        (fst (scan_all_ext U src)))).
Proof.
  intros U src p f s' Hp H. apply run_entry_file_accounted in H.
  rewrite (prepared_pe U src p Hp) in H. exact H.
Qed.

Theorem file_leaves_lit_tokens : forall U src p f s',
  prepare U src = Some p ->
  run_entry EFile p = Ok f s' ->
  leaves f = lit_tokens (fst (scan_all_ext U src)).
Proof.
  intros U src p f s' Hp H. apply run_entry_file_accounted in H as [H _].
  rewrite (prepared_pe U src p Hp) in H. rewrite H. apply identlits_code_tokens.
Qed.

Lemma scan_tiling U src :
  tiling (is_whitespace U) src 0 (fst (scan_all_ext U src)).
Proof.
  destruct (scan_all_ext U src) as [ts e] eqn:Hs.
  apply scan_all_ext_tiles in Hs as (_ & Ht & _). exact Ht.
Qed.

(* C05 for identifier / literal leaves: the text of the leaf stands in the
   source at the character offset stored in the tree *)
Theorem file_leaf_positions : forall U src p f s',
  prepare U src = Some p ->
  run_entry EFile p = Ok f s' ->
  forall pos tok, In (pos, tok) (leaves f) ->
  slice src pos (pos + lenN (tok_text tok)) = tok_text tok /\ tok_text tok <> [].
Proof.
  intros U src p f s' Hp H pos tok Hin.
  rewrite (file_leaves_lit_tokens U src p f s' Hp H) in Hin.
  apply in_lit_tokens in Hin as (Hl & e & Hin).
  apply real_tile_text with (e := e).
  exact (tiling_in_real _ _ _ _ (scan_tiling U src) pos tok e Hin (is_lit_not_semi _ Hl)).
Qed.

(* the leaves appear in source order: their offsets strictly increase *)
Theorem file_leaves_sorted : forall U src p f s',
  prepare U src = Some p ->
  run_entry EFile p = Ok f s' ->
  StronglySorted N.lt (map fst (leaves f)).
Proof.
  intros U src p f s' Hp H.
  rewrite (file_leaves_lit_tokens U src p f s' Hp H). unfold lit_tokens. rewrite map_map.
  cbn [tok_of fst].
  refine (proj1 (tiling_filter_sorted _ _ lit_triple _ _ _ (scan_tiling U src))).
  intros x Hx. apply is_lit_not_semi. exact Hx.
Qed.

Theorem file_leaf_positions_sorted : forall U src p f s',
  prepare U src = Some p ->
  run_entry EFile p = Ok f s' ->
  (forall pos tok, In (pos, tok) (leaves f) ->
     slice src pos (pos + lenN (tok_text tok)) = tok_text tok /\ tok_text tok <> []) /\
  StronglySorted N.lt (map fst (leaves f)).
Proof.
  intros U src p f s' Hp H. split.
  - exact (file_leaf_positions U src p f s' Hp H).
  - exact (file_leaves_sorted U src p f s' Hp H).
Qed.

(* ... and they lie inside the source *)
Theorem file_leaf_in_source : forall U src p f s',
  prepare U src = Some p ->
  run_entry EFile p = Ok f s' ->
  forall pos tok, In (pos, tok) (leaves f) -> pos + lenN (tok_text tok) <= lenN src.
Proof.
  intros U src p f s' Hp H pos tok Hin.
  rewrite (file_leaves_lit_tokens U src p f s' Hp H) in Hin.
  apply in_lit_tokens in Hin as (Hl & e & Hin).
  pose proof (tiling_in_real _ _ _ _ (scan_tiling U src) pos tok e Hin (is_lit_not_semi _ Hl))
    as (_ & He & _).
  subst e. revert Hin. generalize (scan_tiling U src).
  generalize (fst (scan_all_ext U src)). generalize 0.
  intros start ts Ht. induction Ht as [start|start q t e toks Hsp Hpe Hel Hws Htile Ht IH].
  - intros [].
  - intros [Heq|Hin]; [ injection Heq as <- <- <-; exact Hel | exact (IH Hin) ].
Qed.

(* C05 for comments: the text of every returned comment stands in the source at
   its offset, and the offsets strictly increase *)
Theorem file_comment_positions : forall U src p f s',
  prepare U src = Some p ->
  run_entry EFile p = Ok f s' ->
  (forall pos text, In (pos, text) (rev (c_all (s_d s'))) ->
     slice src pos (pos + lenN text) = text /\ text <> []) /\
  StronglySorted N.lt (map fst (rev (c_all (s_d s')))).
Proof.
  intros U src p f s' Hp H.
  pose proof (prepared_sorted U src p Hp) as Hsorted.
  pose proof (file_comments_complete p f s' Hsorted H) as Hall.
  split.
  - intros pos text Hin. rewrite Hall, (prepared_all_comments U src p Hp) in Hin.
    apply in_comments_of in Hin as [e Hin].
    exact (real_tile_text _ _ _ _
             (tiling_in_real _ _ _ _ (scan_tiling U src) pos (TComment text) e Hin eq_refl)).
  - rewrite Hall. exact Hsorted.
Qed.

(* ------------------------------------------------------------ tree nodes *)

(* n occurs in the tree f *)
Inductive in_tree {A C : Type} (n : node A C) : node A C -> Prop :=
| in_tree_here : in_tree n n
| in_tree_kid : forall t ps ats docs ks k,
    In k ks -> in_tree n k -> in_tree n (Nd t ps ats docs ks).

(* the position and the text of an Ident / BasicLit / StringLit node, as the
   token it was built from; a text spelled "." is the one exception (the Ident
   "." of `import . "x"` is built from the operator token, see C06) *)
Definition lexeme_of {A : Type} (x : leaf A) : option (leaf A) :=
  if is_lit x then Some x else None.

Definition node_lexeme {A C : Type} (n : node A C) : option (leaf A) :=
  match n with
  | Nd GIdent (p :: _) (AStr name :: _) _ _ => lexeme_of (p, TLiteral LIdent name)
  | Nd GBasicLit (p :: _) (ALk k :: AStr v :: _) _ _ => lexeme_of (p, TLiteral k v)
  | Nd GStringLit (p :: _) (AStr v :: _) _ _ => lexeme_of (p, TLiteral LString v)
  | _ => None
  end.

Lemma lexeme_of_identlits A (x y : leaf A) : lexeme_of x = Some y -> In y (identlits [x]).
Proof.
  unfold lexeme_of, identlits. cbn [filter]. destruct (is_lit x); [ | discriminate ].
  intros H. injection H as <-. left. reflexivity.
Qed.

Lemma node_lexeme_own_leaf A C (n : node A C) x :
  node_lexeme n = Some x -> In x (leaves n).
Proof.
  destruct n as [t ps ats docs ks]. cbn [node_lexeme leaves]. intros H.
  apply in_or_app. left.
  destruct t; try discriminate H; destruct ps as [|p ps]; try discriminate H;
    destruct ats as [|[s|o|kw|lk|b|d] ats]; try discriminate H; cbn [own_leaf].
  - exact (lexeme_of_identlits _ _ _ H).
  - destruct ats as [|[s|o|kw|lk'|b|d] ats]; try discriminate H.
    exact (lexeme_of_identlits _ _ _ H).
  - exact (lexeme_of_identlits _ _ _ H).
Qed.

Lemma in_tree_leaves A C (n f : node A C) : in_tree n f -> incl (leaves n) (leaves f).
Proof.
  intros H. induction H as [|t ps ats docs ks k Hk Hn IH].
  - apply incl_refl.
  - intros x Hx. cbn [leaves]. apply in_or_app. right.
    apply in_flat_map. exists k. split; [ exact Hk | exact (IH x Hx) ].
Qed.

Lemma is_lit_tok_not_dot k v : v <> [46] -> is_lit_tok (TLiteral k v) = true.
Proof.
  intros Hv. destruct k; try reflexivity. cbn [is_lit_tok]. unfold is_dot.
  destruct (str_eqb v [46]) eqn:He; [ | reflexivity ].
  apply str_eqb_eq in He. contradiction.
Qed.

(* C05 for the Ident / BasicLit / StringLit NODES of an accepted file *)
Theorem file_node_lexeme : forall U src p f s',
  prepare U src = Some p ->
  run_entry EFile p = Ok f s' ->
  forall n pos tok, in_tree n f -> node_lexeme n = Some (pos, tok) ->
  slice src pos (pos + lenN (tok_text tok)) = tok_text tok /\ tok_text tok <> [].
Proof.
  intros U src p f s' Hp H n pos tok Hn Hl.
  apply (file_leaf_positions U src p f s' Hp H).
  apply (in_tree_leaves _ _ n f Hn). apply node_lexeme_own_leaf. exact Hl.
Qed.

Theorem file_ident_text : forall U src p f s',
  prepare U src = Some p ->
  run_entry EFile p = Ok f s' ->
  forall pos ps name ats docs ks,
  in_tree (Nd GIdent (pos :: ps) (AStr name :: ats) docs ks) f -> name <> [46] ->
  slice src pos (pos + lenN name) = name /\ name <> [].
Proof.
  intros U src p f s' Hp H pos ps name ats docs ks Hn Hd.
  apply (file_node_lexeme U src p f s' Hp H _ pos (TLiteral LIdent name) Hn).
  cbn [node_lexeme]. unfold lexeme_of, is_lit. cbn [snd].
  rewrite (is_lit_tok_not_dot _ _ Hd). reflexivity.
Qed.

Theorem file_basiclit_text : forall U src p f s',
  prepare U src = Some p ->
  run_entry EFile p = Ok f s' ->
  forall pos ps k v ats docs ks,
  in_tree (Nd GBasicLit (pos :: ps) (ALk k :: AStr v :: ats) docs ks) f -> v <> [46] ->
  slice src pos (pos + lenN v) = v /\ v <> [].
Proof.
  intros U src p f s' Hp H pos ps k v ats docs ks Hn Hd.
  apply (file_node_lexeme U src p f s' Hp H _ pos (TLiteral k v) Hn).
  cbn [node_lexeme]. unfold lexeme_of, is_lit. cbn [snd].
  rewrite (is_lit_tok_not_dot _ _ Hd). reflexivity.
Qed.

Theorem file_stringlit_text : forall U src p f s',
  prepare U src = Some p ->
  run_entry EFile p = Ok f s' ->
  forall pos ps v ats docs ks,
  in_tree (Nd GStringLit (pos :: ps) (AStr v :: ats) docs ks) f ->
  slice src pos (pos + lenN v) = v /\ v <> [].
Proof.
  intros U src p f s' Hp H pos ps v ats docs ks Hn.
  exact (file_node_lexeme U src p f s' Hp H _ pos (TLiteral LString v) Hn eq_refl).
Qed.

Print Assumptions file_leaves_source.
Print Assumptions file_leaf_positions.
Print Assumptions file_leaves_sorted.
Print Assumptions file_leaf_in_source.
Print Assumptions file_comment_positions.
Print Assumptions file_node_lexeme.
