(* C12, NESTED NODES, EXACT FORM.  Same development as DocNestedBase.v (read
   that first), with a stronger fresh mode: the lead is empty or the
   specification's documentation of the current token computed with the TRUE
   end of what precedes it,
       lead_spec prev g' (Some pos)
   where (prev, g') is one of
     (Some a0, g)       a0 = scanner position after the PRECEDING element of the
                        stream; g = all comments in front of the token
     (None, g)          the token is the first of the stream
     (Some (cend c), g') line_end_comment took c, the first comment of g = c :: g'
   ([src]).  For that the stale mode [Wi] must remember where the scanner is
   ([posc]), that the parser has started and that c_prev is None ([Inv0]: a
   one-state invariant, kept by every primitive, hence available in the state
   an error of parse_method_elem leaves behind, through Lift.v). *)
From Coq Require Import List Bool Arith NArith Lia.
From GoSyn.spec Require Import LineCol Docs.
From GoSyn Require Import Token Tok Scanner Ast Core Policy.
From GoSyn.proofs Require Import Lift StreamProofs LevelProofs DocProofs AccountBase PosBase.
From GoSyn.proofs Require DocNestedBase.
Import ListNotations.

(* the first-token functions are those of DocNestedBase.v *)
Notation pos_hd := DocNestedBase.pos_hd.
Notation lead_pos := DocNestedBase.lead_pos.
Notation fpos := DocNestedBase.fpos.
Notation field_pos := DocNestedBase.field_pos.
Notation spec_pos := DocNestedBase.spec_pos.
Notation func_pos := DocNestedBase.func_pos.
Notation spec_of_decl := DocNestedBase.spec_of_decl.
Notation spec_tag_of := DocNestedBase.spec_tag_of.
Notation spec_of_decl_tag := DocNestedBase.spec_of_decl_tag.
Notation pop_last_one := DocNestedBase.pop_last_one.

(* ------------------------------------------------------------------ the predicates *)

Section Defs.
Variable lines : list N.
Variable E : Type.
Notation cm := Policy.comment.
Notation OPS := (policy_ops lines).
Notation pstate := (Core.pstate N (list cm) cstate E).
Notation res := (Core.res N (list cm) cstate E).
Notation selem := (Core.selem N (list cm)).
Notation nodeT := (node N (list cm)).
Variable whole : list selem.

(* where the documentation of the token (pos, a1, t, g) of the stream is computed from *)
Definition src (pos a1 : N) (t : token) (g : list cm) (prev : option N) (g' : list cm) : Prop :=
  (g' = g /\ exists pre p0 a0 t0 g0 rest,
      whole = pre ++ SE p0 a0 t0 g0 :: SE pos a1 t g :: rest /\ prev = Some a0) \/
  (g' = g /\ exists rest, whole = SE pos a1 t g :: rest /\ prev = None) \/
  (exists c, g = c :: g' /\ prev = Some (cend c) /\ In (SE pos a1 t g) whole).

(* [c] is empty, or exactly the specification's documentation of the token of
   the stream that starts at [po] *)
Definition doc_at (po : option N) (c : list cm) : Prop :=
  c = [] \/
  exists pos a1 t g prev g',
    po = Some pos /\ src pos a1 t g prev g' /\
    c = lead_spec (line_c lines) (line_start_c lines) prev g' (Some pos).

Lemma doc_at_nil po : doc_at po [].
Proof. left. reflexivity. Qed.

Definition spec_ok (st : tag) (sp : nodeT) : Prop :=
  n_tag sp = st /\ exists c, n_docs sp = [c] /\ doc_at (spec_pos sp) c.

(* what the node itself has to satisfy *)
Definition own_doc_ok (t : tag) (ps : list N) (docs : list (list cm)) (ks : list nodeT) : Prop :=
  match t with
  | GField =>
      (* Field.comments = the documentation, plus possibly the comment that
         follows the field on the line of its ';' *)
      exists c c0, docs = [c] /\ (c = c0 \/ exists x, c = c0 ++ [x]) /\
                   doc_at (fpos (n_kids (nth 0 ks nnone)) (nth 1 ks nnone)) c0
  | GFuncDecl => exists c, docs = [c] /\ doc_at (pos_hd (nth 2 ks nnone)) c
  | GDeclVar | GDeclConst | GDeclType =>
      match ps with
      | [pos0] =>
          (* a single declaration: its docs go to the spec *)
          docs = [[]] /\
          exists sp c, ks = [sp] /\ n_tag sp = spec_of_decl t /\ n_docs sp = [c] /\
                       doc_at (Some pos0) c
      | pos0 :: _ =>
          exists c, docs = [c] /\ doc_at (Some pos0) c /\ Forall (spec_ok (spec_of_decl t)) ks
      | [] => False
      end
  | GVarSpec | GConstSpec | GTypeSpec | GFile =>
      (* which token: said by the parent declaration (spec_ok) / by C12_package *)
      exists c po, docs = [c] /\ doc_at po c
  | _ => docs = []          (* no other node has documentation *)
  end.

Fixpoint dgood (n : nodeT) : Prop :=
  match n with
  | Nd t ps _ docs ks => own_doc_ok t ps docs ks /\ fold_right (fun k acc => dgood k /\ acc) True ks
  end.
Definition dgoodo (o : option nodeT) : Prop :=
  match o with Some n => dgood n | None => True end.

Lemma dfold_Forall (P : nodeT -> Prop) l :
  fold_right (fun k acc => P k /\ acc) True l <-> Forall P l.
Proof.
  induction l as [|k l IH]; cbn [fold_right]; split; intros H.
  - constructor.
  - exact I.
  - destruct H as (H1 & H2). constructor; [ exact H1 | apply IH, H2 ].
  - inversion H; subst. split; [ assumption | apply IH; assumption ].
Qed.

Lemma dgood_Nd t ps ats d ks :
  dgood (Nd t ps ats d ks) <-> own_doc_ok t ps d ks /\ Forall dgood ks.
Proof. cbn [dgood]. rewrite dfold_Forall. reflexivity. Qed.
Lemma dgood_Nd_i t ps ats d ks : own_doc_ok t ps d ks -> Forall dgood ks -> dgood (Nd t ps ats d ks).
Proof. intros. apply dgood_Nd. auto. Qed.
Lemma dgood_own n : dgood n -> own_doc_ok (n_tag n) (n_ps n) (n_docs n) (n_kids n).
Proof. destruct n. intros H. apply dgood_Nd in H. apply H. Qed.
Lemma dgood_kids n : dgood n -> Forall dgood (n_kids n).
Proof. destruct n. intros H. apply dgood_Nd in H. apply H. Qed.

Lemma dgood_nnone : dgood nnone.
Proof. apply dgood_Nd_i; [ reflexivity | constructor ]. Qed.
Lemma dgood_nlist l : Forall dgood l -> dgood (nlist l).
Proof. intros H. apply dgood_Nd_i; [ reflexivity | exact H ]. Qed.
Lemma dgood_nopt o : dgoodo o -> dgood (nopt o).
Proof. destruct o; [ auto | intros _; apply dgood_nnone ]. Qed.

Lemma is_tag_eq t (n : nodeT) : is_tag t n = true -> n_tag n = t.
Proof.
  unfold is_tag, tag_eqb. intros H. apply Nat.eqb_eq in H.
  destruct (n_tag n); destruct t; (reflexivity || discriminate H).
Qed.

(* replacing a child of an instantiation *)
Lemma dgood_set_kid_index n i k :
  is_tag GIndex n = true -> dgood n -> dgood k -> dgood (set_kid n i k).
Proof.
  intros Ht. apply is_tag_eq in Ht. destruct n as [t ps ats d ks]. cbn [n_tag] in Ht. subst t.
  cbn [set_kid]. rewrite !dgood_Nd. intros (H1 & H2) Hk.
  split; [ exact H1 | apply Forall_set_nth; assumption ].
Qed.
Lemma dgood_kid n i : dgood n -> dgood (kid n i).
Proof. intros H. unfold kid. apply Forall_nth; [ apply dgood_nnone | apply dgood_kids, H ]. Qed.
Lemma dgoodo_nth_error l i : Forall dgood l -> dgoodo (nth_error l i).
Proof.
  revert i. induction l; intros i Hl; destruct i; cbn; auto; inversion Hl; subst; auto.
Qed.

Lemma dgood_field_of typ : dgood typ -> dgood (field_of OPS typ).
Proof.
  intros H. apply dgood_Nd_i.
  - exists [], []. split; [ reflexivity | ]. split; [ left; reflexivity | apply doc_at_nil ].
  - repeat constructor; auto; apply dgood_nnone.
Qed.
Lemma dgood_map_field_of l :
  Forall dgood l -> Forall dgood (map (fun i => field_of OPS i) l).
Proof. induction 1; cbn [map]; constructor; auto. apply dgood_field_of; assumption. Qed.

Lemma dgood_somes (l : list (option nodeT)) :
  Forall dgoodo l ->
  Forall dgood (flat_map (fun o => match o with Some e => [e] | None => [] end) l).
Proof.
  induction 1 as [|o l Ho _ IH]; cbn [flat_map]; [ constructor | ].
  destruct o; cbn [app]; [ constructor; assumption | assumption ].
Qed.

Lemma dgood_occurs f : dgood f -> forall n, occurs n f -> dgood n.
Proof.
  intros Hf n Ho. induction Ho as [|t ps ats docs ks k Hk _ IH]; [ exact Hf | ].
  apply IH. apply dgood_Nd in Hf. destruct Hf as (_ & Hks).
  rewrite Forall_forall in Hks. apply Hks, Hk.
Qed.

(* a node whose tag has no obligation of its own keeps [dgood] under set_docs *)
Lemma dgood_set_docs_spec k n c po :
  spec_ok (spec_tag_of k) n -> doc_at po c -> dgood n -> dgood (set_docs n [c]).
Proof.
  intros (Ht & _) Hc. destruct n as [t ps ats d0 ks]. cbn [n_tag] in Ht. subst t.
  cbn [set_docs]. rewrite !dgood_Nd. intros (_ & H). split; [ | exact H ].
  destruct k; (exists c, po; split; [ reflexivity | exact Hc ]).
Qed.

(* ------------------------------------------------------------------ states *)

(* the parser has started and no trailing comment is pending *)
Definition Inv0 (s : pstate) : Prop := s_started s = true /\ c_prev (s_d s) = None.

Lemma Inv0_closed : prim_closed OPS Inv0.
Proof.
  unfold Inv0. split.
  - intros s s' _. unfold next.
    destruct (s_rest s) as [|[a0 a1 t g] r]; [ destruct (s_term s) | ]; intros [= <-];
      (split; [ reflexivity | apply p_next_prev ]).
  - intros s e s' (_ & H). unfold next.
    destruct (s_rest s) as [|[a0 a1 t g] r]; [ destruct (s_term s) | ]; intros [= _ <-];
      (split; [ reflexivity | exact H ]).
  - intros s0 s s' _ H. unfold goback, preback.
    destruct (s_mark s0) as [|[a0 a1 t g] r]; [ destruct (s_term s) | ]; intros [= <-]; exact H.
  - intros c s c' s' H. unfold line_end_comment.
    destruct (negb _); [ intros [= _ <-]; exact H | ].
    destruct (s_rest s) as [|[a0 a1 t g] r]; [ destruct (s_term s) | ];
      try destruct (d_line_end _ _ _ _ _ _) as [[? ?] ?]; try discriminate;
      intros [= _ <-]; (split; [ reflexivity | apply p_next_prev ]).
  - intros c s e s' (_ & H). unfold line_end_comment.
    destruct (negb _); [ discriminate | ].
    destruct (s_rest s) as [|[a0 a1 t g] r]; [ destruct (s_term s) | ];
      try destruct (d_line_end _ _ _ _ _ _) as [[? ?] ?]; try discriminate;
      intros [= _ <-]; (split; [ reflexivity | exact H ]).
  - intros s c s' H. unfold drain. cbn [d_drain policy_ops]. rewrite p_drain_spec.
    intros [= _ <-]. exact H.
  - intros s H. exact H.
  - intros s lp ln H. exact H.
  - intros s n H. exact H.
Qed.

(* where the scanner is: right after the element in front of the unread stream *)
Definition posc (s : pstate) : Prop :=
  s_rest s <> [] ->
  exists pre p a0 t g, whole = pre ++ SE p a0 t g :: s_rest s /\ s_spos s = a0.

(* mode STALE: everything but the lead *)
Definition Wi (s : pstate) : Prop :=
  sinv whole s /\ suffix_of (s_rest s) whole /\ suffix_of (s_mark s) whole /\ Inv0 s /\ posc s.

Definition lead_ok (s : pstate) : Prop :=
  match s_mark s with
  | SE pos a1 t g :: _ =>
      c_lead (s_d s) = [] \/
      exists prev g',
        src pos a1 t g prev g' /\
        c_lead (s_d s) = rev (lead_spec (line_c lines) (line_start_c lines) prev g' (Some pos))
  | [] => True
  end.

(* mode FRESH *)
Definition Fi (s : pstate) : Prop := Wi s /\ cur_mark s /\ lead_ok s.

(* before the first Parser::next *)
Definition Init (s : pstate) : Prop :=
  sinv whole s /\ s_started s = false /\ s_rest s = whole /\ c_prev (s_d s) = None.

Lemma W_sinv s : Wi s -> sinv whole s.
Proof. intros H. apply H. Qed.
Lemma W_Inv0 s : Wi s -> Inv0 s.
Proof. intros H. apply H. Qed.
Lemma W_upd_cur s : Wi s -> Wi (upd_cur s None).
Proof. intros (H1 & H2). split; [ apply sinv_upd_cur, H1 | exact H2 ]. Qed.
Lemma W_upd_level s lp ln : Wi s -> Wi (upd_level s lp ln).
Proof. exact (fun H => H). Qed.
Lemma W_dec_level s : Wi s -> Wi (dec_level s).
Proof. exact (fun H => H). Qed.
Lemma W_reset_level s : Wi s -> Wi (reset_level s).
Proof. exact (fun H => H). Qed.
Lemma W_upd_depth s n : Wi s -> Wi (upd_depth s n).
Proof. exact (fun H => H). Qed.
Lemma W_inc_level s site y s1 : Wi s -> inc_level s site = Ok y s1 -> Wi s1.
Proof.
  unfold inc_level. destruct (_ <=? _)%nat; [ discriminate | ]. intros H [= _ <-]. exact H.
Qed.

(* goback: stale.  The token state comes from the state that took the mark,
   the comment state and the start flag from the state that goes back *)
Lemma W_goback s0 s y s' :
  Wi s0 -> Inv0 s -> goback OPS (preback s0) s = Ok y s' -> Wi s'.
Proof.
  intros (Hsv & _ & Hm & _) Hi Hg.
  pose proof (sinv_goback _ _ _ _ _ OPS whole _ _ _ _ Hsv Hg) as Hsv'.
  split; [ exact Hsv' | ]. revert Hg. unfold goback, preback.
  destruct (s_mark s0) as [|[a0 a1 t g] r] eqn:Hmark.
  - destruct (s_term s); [ | discriminate ]. intros [= _ <-].
    cbn [s_rest s_mark s_d s_started s_spos]. unfold posc. cbn [s_rest].
    split; [ apply suffix_of_nil | ]. split; [ apply suffix_of_nil | ].
    split; [ exact Hi | intros H; contradiction H; reflexivity ].
  - intros [= _ <-]. unfold posc. cbn [s_rest s_mark s_d s_started s_spos].
    split; [ eapply suffix_of_tail; exact Hm | ]. split; [ exact Hm | ].
    split; [ exact Hi | ]. intros _. destruct Hm as [pre Hw].
    exists pre, a0, a1, t, g. split; [ exact Hw | reflexivity ].
Qed.

Lemma F_W s : Fi s -> Wi s.
Proof. intros H. apply H. Qed.
Lemma F_upd_cur s : Fi s -> Fi (upd_cur s None).
Proof. intros (H1 & _ & H3). split; [ apply W_upd_cur, H1 | split; [ exact I | exact H3 ] ]. Qed.
Lemma F_upd_level s lp ln : Fi s -> Fi (upd_level s lp ln).
Proof. exact (fun H => H). Qed.
Lemma F_dec_level s : Fi s -> Fi (dec_level s).
Proof. exact (fun H => H). Qed.
Lemma F_reset_level s : Fi s -> Fi (reset_level s).
Proof. exact (fun H => H). Qed.
Lemma F_upd_depth s n : Fi s -> Fi (upd_depth s n).
Proof. exact (fun H => H). Qed.

(* Parser::next: fresh, whatever the mode was, with the exact previous end *)
Lemma F_next s y s' : Wi s -> next OPS s = Ok y s' -> Fi s'.
Proof.
  intros (Hsv & Hr & Hm & (Hst & Hcp) & Hpc) Hn.
  pose proof (sinv_next _ _ _ _ _ OPS whole _ _ _ Hsv Hn) as Hsv'.
  revert Hn Hsv'. unfold next.
  destruct (s_rest s) as [|[a0 a1 t g] r] eqn:Hrest.
  - destruct (s_term s) as [a g|e g]; [ | discriminate ]. intros [= _ <-] Hsv'.
    split; [ | split; exact I ]. split; [ exact Hsv' | ].
    unfold posc. cbn [s_rest s_mark s_d s_started s_spos].
    split; [ apply suffix_of_nil | ]. split; [ apply suffix_of_nil | ].
    split; [ split; [ reflexivity | apply p_next_prev ] | intros H; contradiction H; reflexivity ].
  - intros [= _ <-] Hsv'. split; [ | split ].
    + split; [ exact Hsv' | ]. unfold posc. cbn [s_rest s_mark s_d s_started s_spos].
      split; [ eapply suffix_of_tail; exact Hr | ]. split; [ exact Hr | ].
      split; [ split; [ reflexivity | apply p_next_prev ] | ].
      intros _. destruct Hr as [pre Hw]. exists pre, a0, a1, t, g. split; [ exact Hw | reflexivity ].
    + unfold cur_mark. cbn [s_cur s_mark s_rest]. eauto.
    + unfold lead_ok. cbn [s_mark s_d d_next policy_ops]. right.
      destruct Hpc as (pre & p & a0' & t' & g0 & Hw & Hsp); [ rewrite Hrest; discriminate | ].
      rewrite Hrest in Hw.
      exists (Some a0'), g. split.
      * left. split; [ reflexivity | ]. exists pre, p, a0', t', g0, r. split; [ exact Hw | reflexivity ].
      * rewrite p_next_lead. unfold eff_prev, prev_end. rewrite Hcp, Hst, Hsp. reflexivity.
Qed.

(* the very first Parser::next *)
Lemma F_next_init s y s' : Init s -> next OPS s = Ok y s' -> Fi s'.
Proof.
  intros (Hsv & Hst & Hr & Hcp) Hn.
  pose proof (sinv_next _ _ _ _ _ OPS whole _ _ _ Hsv Hn) as Hsv'.
  revert Hn Hsv'. unfold next.
  destruct (s_rest s) as [|[a0 a1 t g] r] eqn:Hrest.
  - destruct (s_term s) as [a g|e g]; [ | discriminate ]. intros [= _ <-] Hsv'.
    split; [ | split; exact I ]. split; [ exact Hsv' | ].
    unfold posc. cbn [s_rest s_mark s_d s_started s_spos].
    split; [ apply suffix_of_nil | ]. split; [ apply suffix_of_nil | ].
    split; [ split; [ reflexivity | apply p_next_prev ] | intros H; contradiction H; reflexivity ].
  - intros [= _ <-] Hsv'. split; [ | split ].
    + split; [ exact Hsv' | ]. unfold posc. cbn [s_rest s_mark s_d s_started s_spos].
      split; [ exists [SE a0 a1 t g]; symmetry; exact Hr | ].
      split; [ rewrite Hr; apply suffix_of_refl | ].
      split; [ split; [ reflexivity | apply p_next_prev ] | ].
      intros _. exists [], a0, a1, t, g. split; [ symmetry; exact Hr | reflexivity ].
    + unfold cur_mark. cbn [s_cur s_mark s_rest]. eauto.
    + unfold lead_ok. cbn [s_mark s_d d_next policy_ops]. right.
      exists None, g. split.
      * right; left. split; [ reflexivity | ]. exists r. split; [ symmetry; exact Hr | reflexivity ].
      * rewrite p_next_lead. unfold eff_prev, prev_end. rewrite Hcp, Hst. reflexivity.
Qed.

Lemma F_expect k site s p s' :
  Wi s -> expect OPS k site s = Ok p s' ->
  Fi s' /\ cur_pos s = p /\ s_cur s <> None.
Proof.
  intros Hs. unfold expect. destruct (s_cur s) as [[p0 t]|] eqn:Ec; [ | discriminate ].
  destruct (tok_is t k); [ | discriminate ].
  apply bind_inv. intros y s1 Hn [= <- <-]. split; [ | split ].
  - eapply F_next; [ apply W_upd_cur, Hs | exact Hn ].
  - unfold cur_pos. rewrite Ec. reflexivity.
  - discriminate.
Qed.

Lemma F_skipped k s b s' : Fi s -> skipped OPS k s = Ok b s' -> Fi s'.
Proof.
  intros Hs. unfold skipped. destruct (cur_is s k).
  - apply bind_inv. intros y s1 Hn [= _ <-]. eapply F_next; [ apply F_W, Hs | exact Hn ].
  - intros [= _ <-]. exact Hs.
Qed.
Lemma W_skipped k s b s' :
  Wi s -> skipped OPS k s = Ok b s' -> Wi s' /\ (b = true -> Fi s').
Proof.
  intros Hs. unfold skipped. destruct (cur_is s k).
  - apply bind_inv. intros y s1 Hn [= <- <-].
    pose proof (F_next _ _ _ Hs Hn) as HF. split; [ apply F_W, HF | intros _; exact HF ].
  - intros [= <- <-]. split; [ exact Hs | discriminate ].
Qed.

Lemma F_inc_level s site y s1 : Fi s -> inc_level s site = Ok y s1 -> Fi s1.
Proof.
  unfold inc_level. destruct (_ <=? _)%nat; [ discriminate | ]. intros H [= _ <-]. exact H.
Qed.

(* THE drain: only from a fresh state; what it returns documents the current token *)
Lemma F_drain s c s1 :
  Fi s -> drain OPS s = (c, s1) ->
  Fi s1 /\ s_cur s1 = s_cur s /\ cur_pos s1 = cur_pos s /\
  (s_cur s1 <> None -> doc_at (Some (cur_pos s1)) c).
Proof.
  intros (Hw & Hcm & Hl). unfold drain. cbn [d_drain policy_ops]. rewrite p_drain_spec.
  intros [= <- <-].
  split; [ | split; [ reflexivity | split; [ reflexivity | ] ] ].
  - split; [ exact Hw | split; [ exact Hcm | ] ].
    unfold lead_ok. cbn [s_mark upd_d s_d c_lead]. destruct (s_mark s) as [|[? ? ? ?] ?]; auto.
  - cbn [s_cur upd_d]. unfold cur_pos. cbn [s_cur upd_d].
    destruct (s_cur s) as [[pos t]|] eqn:Ec; [ | congruence ]. intros _.
    unfold cur_mark in Hcm. rewrite Ec in Hcm. destruct Hcm as (a1 & g & Hm).
    unfold lead_ok in Hl. rewrite Hm in Hl. destruct Hl as [Hl | (prev & g' & Hs & Hl)].
    + left. rewrite Hl. reflexivity.
    + right. exists pos, a1, t, g, prev, g'. split; [ reflexivity | ].
      split; [ exact Hs | ]. rewrite Hl. apply rev_involutive.
Qed.

Lemma p_line_end_exact d semi g ns c c' g' d' :
  c_prev d = None -> p_line_end lines d semi g ns c = (c', g', d') ->
  (c' = c /\ g' = g /\ c_prev d' = None) \/
  (exists x, c' = c ++ [x] /\ g = x :: g' /\ c_prev d' = Some (cend x)).
Proof.
  unfold p_line_end. intros Hd. destruct g as [|[pos text] g1].
  - destruct ns; intros [= <- <- <-]; left; auto.
  - destruct (N.eqb _ _); intros [= <- <- <-]; [ right; exists (pos, text); auto | left; auto ].
Qed.

Lemma F_line_end c s c' s' :
  Fi s -> line_end_comment OPS c s = Ok c' s' ->
  Fi s' /\ (c' = c \/ exists x, c' = c ++ [x]).
Proof.
  intros HF Hl. pose proof HF as ((Hsv & Hr & Hm & (Hst & Hcp) & Hpc) & Hcm & Hlo).
  pose proof (sinv_line_end _ _ _ _ _ OPS whole _ _ _ _ Hsv Hl) as Hsv'.
  revert Hl Hsv'. unfold line_end_comment.
  destruct (negb _); [ intros [= <- <-] _; split; [ exact HF | left; reflexivity ] | ].
  destruct (s_rest s) as [|[a0 a1 t g] r] eqn:Hrest; [ destruct (s_term s) as [a g|e g] | ].
  - destruct (d_line_end OPS (s_d s) (cur_pos s) g None c) as [[c1 g1] d1] eqn:Hle.
    intros [= <- <-] Hsv'. cbn [d_line_end policy_ops] in Hle. split.
    + split; [ | split; exact I ]. split; [ exact Hsv' | ].
      unfold posc. cbn [s_rest s_mark s_d s_started s_spos].
      split; [ apply suffix_of_nil | ]. split; [ apply suffix_of_nil | ].
      split; [ split; [ reflexivity | apply p_next_prev ] | intros H; contradiction H; reflexivity ].
    + destruct (p_line_end_exact _ _ _ _ _ _ _ _ Hcp Hle) as [(-> & _) | (x & -> & _)];
        [ left | right; exists x ]; reflexivity.
  - discriminate.
  - destruct (d_line_end OPS (s_d s) (cur_pos s) g (Some a0) c) as [[c1 g1] d1] eqn:Hle.
    intros [= <- <-] Hsv'. cbn [d_line_end policy_ops] in Hle.
    pose proof (p_line_end_exact _ _ _ _ _ _ _ _ Hcp Hle) as Hx. split.
    + split; [ | split ].
      * split; [ exact Hsv' | ]. unfold posc. cbn [s_rest s_mark s_d s_started s_spos].
        split; [ eapply suffix_of_tail; exact Hr | ]. split; [ exact Hr | ].
        split; [ split; [ reflexivity | apply p_next_prev ] | ].
        intros _. destruct Hr as [pre Hw]. exists pre, a0, a1, t, g. split; [ exact Hw | reflexivity ].
      * unfold cur_mark. cbn [s_cur s_mark s_rest]. eauto.
      * unfold lead_ok. cbn [s_mark s_d d_next policy_ops]. right.
        destruct Hx as [(_ & -> & Hc1) | (x & _ & Hg & Hc1)].
        -- destruct Hpc as (pre & p & a0' & t' & g0 & Hw & Hsp); [ rewrite Hrest; discriminate | ].
      rewrite Hrest in Hw.
           exists (Some a0'), g. split.
           ++ left. split; [ reflexivity | ]. exists pre, p, a0', t', g0, r.
              split; [ exact Hw | reflexivity ].
           ++ rewrite p_next_lead. unfold eff_prev, prev_end. rewrite Hc1, Hst, Hsp. reflexivity.
        -- exists (Some (cend x)), g1. split.
           ++ right; right. exists x. split; [ exact Hg | ]. split; [ reflexivity | ].
              eapply suffix_head_in. exact Hr.
           ++ rewrite p_next_lead. unfold eff_prev. rewrite Hc1. reflexivity.
    + destruct Hx as [(-> & _) | (x & -> & _)]; [ left | right; exists x ]; reflexivity.
Qed.

Lemma Init_init a0 d0 (term : Core.sterm N (list cm) E) :
  c_prev d0 = None -> Init (init_state a0 d0 whole term).
Proof. intros H. split; [ apply sinv_init | ]. repeat split. exact H. Qed.

(* ------------------------------------------------------------------ specifications *)

Definition DS {X} (good : X -> Prop) (p : pstate -> res X) : Prop :=
  forall s r s', Fi s -> p s = Ok r s' -> Fi s' /\ good r.
(* may be entered stale *)
Definition DW {X} (good : X -> Prop) (p : pstate -> res X) : Prop :=
  forall s r s', Wi s -> p s = Ok r s' -> Fi s' /\ good r.
Definition DSP {X} (Pre : pstate -> Prop) (good : X -> Prop) (p : pstate -> res X) : Prop :=
  forall s r s', Fi s -> Pre s -> p s = Ok r s' -> Fi s' /\ good r.
(* type_or_none: a type moves on; None leaves the state (and its mode) alone *)
Definition DOpt (p : pstate -> res (option nodeT)) : Prop :=
  forall s r s', Wi s -> p s = Ok r s' ->
    match r with
    | Some t => Fi s' /\ dgood t
    | None => Wi s' /\ (Fi s -> Fi s')
    end.

Lemma DW_DS X (good : X -> Prop) p : DW good p -> DS good p.
Proof. intros H s r s' Hs. apply H, F_W, Hs. Qed.
Lemma DOpt_DS p : DOpt p -> DS dgoodo p.
Proof.
  intros H s r s' Hs Hp. specialize (H s r s' (F_W _ Hs) Hp).
  destruct r; [ exact H | split; [ apply H, Hs | exact I ] ].
Qed.

(* ------------------------------------------------------------------ shapes: where a result starts *)

Lemma identifier_shape site (s : pstate) r s' :
  identifier OPS site s = Ok r s' ->
  exists name, r = n_ident (cur_pos s) name /\ s_cur s <> None.
Proof.
  unfold identifier, cur_pos. destruct (s_cur s) as [[p t]|]; [ | discriminate ].
  destruct t as [| | |k name]; try discriminate. destruct k; try discriminate.
  apply bind_inv. intros y s1 _ [= <- _]. exists name. split; [ reflexivity | discriminate ].
Qed.

Lemma identifier_list_loop_shape : forall fuel (acc : list nodeT) (s : pstate) r s',
  identifier_list_loop OPS fuel acc s = Ok r s' -> exists rest, r = acc ++ rest.
Proof.
  induction fuel as [|f IH]; intros acc s r s'; [ discriminate | ]. cbn [identifier_list_loop].
  apply bind_inv. intros b s1 _. destruct b.
  - apply bind_inv. intros id s2 _ Hl. destruct (IH _ _ _ _ Hl) as (rest & ->).
    exists (id :: rest). rewrite <- app_assoc. reflexivity.
  - intros [= <- _]. exists []. symmetry. apply app_nil_r.
Qed.

Lemma identifier_list_shape (first : option nodeT) (s : pstate) r s' :
  identifier_list OPS first s = Ok r s' ->
  match first with
  | Some id => exists rest, r = id :: rest
  | None => exists name rest, r = n_ident (cur_pos s) name :: rest /\ s_cur s <> None
  end.
Proof.
  unfold identifier_list. destruct first as [id|].
  - intros H. destruct (identifier_list_loop_shape _ _ _ _ _ H) as (rest & ->).
    exists rest. reflexivity.
  - apply bind_inv. intros id s1 Hid H.
    destruct (identifier_shape _ _ _ _ Hid) as (name & -> & Hc).
    destruct (identifier_list_loop_shape _ _ _ _ _ H) as (rest & ->).
    exists name, rest. split; [ reflexivity | exact Hc ].
Qed.

End Defs.

Arguments DS lines E whole {X} good p.
Arguments DW lines E whole {X} good p.
Arguments DSP lines E whole {X} Pre good p.
Arguments doc_at : simpl never.

(* ------------------------------------------------------------------ tactics *)

Create HintDb finv discriminated.
(* syntactic patterns: [Fi (upd_level s lp ln)] is convertible with [Fi s] *)
#[export] Hint Extern 1 (Fi _ _ _ (upd_cur _ None)) => apply F_upd_cur : finv.
#[export] Hint Extern 1 (Fi _ _ _ (upd_level _ _ _)) => apply F_upd_level : finv.
#[export] Hint Extern 1 (Fi _ _ _ (dec_level _)) => apply F_dec_level : finv.
#[export] Hint Extern 1 (Fi _ _ _ (reset_level _)) => apply F_reset_level : finv.
#[export] Hint Extern 1 (Fi _ _ _ (upd_depth _ _)) => apply F_upd_depth : finv.
#[export] Hint Extern 1 (Wi _ _ (upd_cur _ None)) => apply W_upd_cur : finv.
#[export] Hint Extern 1 (Wi _ _ (upd_level _ _ _)) => apply W_upd_level : finv.
#[export] Hint Extern 1 (Wi _ _ (dec_level _)) => apply W_dec_level : finv.
#[export] Hint Extern 1 (Wi _ _ (reset_level _)) => apply W_reset_level : finv.
#[export] Hint Extern 1 (Wi _ _ (upd_depth _ _)) => apply W_upd_depth : finv.
#[export] Hint Extern 4 (Wi _ _ _) => eapply F_W : finv.
Create HintDb inv0 discriminated.
#[export] Hint Resolve W_Inv0 : inv0.
Create HintDb doc discriminated.

Ltac f_tac := solve [ eauto 5 with finv ].
Ltac w_tac := solve [ eauto 7 with finv ].
Ltac i_tac := solve [ eauto 8 with finv inv0 ].
(* a hook: what is known of the state an error leaves behind *)
Ltac d_err E := idtac.

Ltac d_clean Hg :=
  cbv beta in Hg; unfold anyg in Hg;
  lazymatch type of Hg with True => clear Hg | _ => idtac end.

(* a generic specification from the hint base: fresh first, else stale *)
Ltac d_use Hm :=
  lazymatch type of Hm with
  | ?p ?s = Ok ?y ?s1 =>
      first
        [ let Hs := fresh "Hfv" in
          eassert (Hs : Fi _ _ _ s) by f_tac;
          let HS := fresh "HS" in
          eassert (HS : DS _ _ _ _ p) by (solve [ eauto 5 with doc ]);
          specialize (HS s y s1 Hs Hm); clear Hs;
          let Hs1 := fresh "Hfv" in
          let Hg := fresh "Hg" in
          destruct HS as (Hs1 & Hg); clear Hm; d_clean Hg
        | let Hs := fresh "Hwv" in
          eassert (Hs : Wi _ _ s) by w_tac;
          let HS := fresh "HS" in
          eassert (HS : DW _ _ _ _ p) by (solve [ eauto 5 with doc ]);
          specialize (HS s y s1 Hs Hm); clear Hs;
          let Hs1 := fresh "Hfv" in
          let Hg := fresh "Hg" in
          destruct HS as (Hs1 & Hg); clear Hm; d_clean Hg ]
  end.

Ltac dpre_tac := first [ assumption | congruence ].

Ltac d_useP Hm :=
  lazymatch type of Hm with
  | ?p ?s = Ok ?y ?s1 =>
      let Hs := fresh "Hfv" in
      eassert (Hs : Fi _ _ _ s) by f_tac;
      let HS := fresh "HS" in
      eassert (HS : DSP _ _ _ _ _ p) by (solve [ eauto 5 with doc ]);
      let HP := fresh "HP" in
      lazymatch type of HS with
      | DSP _ _ _ ?Pre _ _ => assert (HP : Pre s) by (cbv beta; dpre_tac)
      end;
      specialize (HS s y s1 Hs HP Hm); clear Hs HP;
      let Hs1 := fresh "Hfv" in
      let Hg := fresh "Hg" in
      destruct HS as (Hs1 & Hg); clear Hm; d_clean Hg
  end.

(* shape facts that relate a result to the state the production started in;
   [d_shape_more]: a hook for productions proved later *)
Ltac d_shape_more Hm := idtac.
Ltac d_shape Hm :=
  lazymatch type of Hm with
  | identifier _ _ ?s = Ok ?r _ =>
      let nm := fresh "nm" in let Hr := fresh "Hr" in let Hc := fresh "Hsome" in
      destruct (identifier_shape _ _ _ _ _ _ Hm) as (nm & Hr & Hc)
  | identifier_list _ (Some _) _ = Ok ?r _ =>
      let rest := fresh "rest" in let Hr := fresh "Hr" in
      destruct (identifier_list_shape _ _ _ _ _ _ Hm) as (rest & Hr)
  | identifier_list _ None _ = Ok ?r _ =>
      let nm := fresh "nm" in let rest := fresh "rest" in
      let Hr := fresh "Hr" in let Hc := fresh "Hsome" in
      destruct (identifier_list_shape _ _ _ _ _ _ Hm) as (nm & rest & Hr & Hc)
  | _ => d_shape_more Hm
  end.

Ltac d_hyp Hm :=
  lazymatch type of Hm with
  | next _ _ = Ok _ ?s1 =>
      let H' := fresh "Hfv" in
      eassert (H' : Fi _ _ _ s1) by (eapply F_next; [ | exact Hm ]; w_tac); clear Hm
  | goback _ (preback _) _ = Ok _ ?s1 =>
      let H' := fresh "Hwv" in
      eassert (H' : Wi _ _ s1) by (eapply W_goback; [ | | exact Hm ]; [ w_tac | i_tac ]); clear Hm
  | cur_tok ?s _ = Ok _ ?s0 =>
      apply cur_tok_inv in Hm;
      let p := fresh "p" in let E := fresh "Ecur" in
      destruct Hm as (-> & p & E)
  | inc_level _ _ = Ok _ ?s1 =>
      first
        [ let H' := fresh "Hfv" in
          eassert (H' : Fi _ _ _ s1) by (eapply F_inc_level; [ | exact Hm ]; f_tac); clear Hm
        | let H' := fresh "Hwv" in
          eassert (H' : Wi _ _ s1) by (eapply W_inc_level; [ | exact Hm ]; w_tac); clear Hm ]
  | check_single_expr _ _ = Ok _ _ =>
      apply check_single_expr_inv in Hm; destruct Hm as (-> & ->)
  | expect _ ?k _ ?s = Ok ?p ?s1 =>
      let H' := fresh "Hx" in
      eassert (H' : Fi _ _ _ s1 /\ cur_pos s = p /\ s_cur s <> None)
        by (eapply F_expect; [ | exact Hm ]; w_tac);
      let H1 := fresh "Hfv" in let H2 := fresh "Hcp" in let H3 := fresh "Hsome" in
      destruct H' as (H1 & H2 & H3); clear Hm; try subst p
  | skipped _ ?k ?s = Ok ?b ?s1 =>
      first
        [ let H' := fresh "Hfv" in
          eassert (H' : Fi _ _ _ s1) by (eapply F_skipped; [ | exact Hm ]; f_tac); clear Hm
        | let H' := fresh "Hx" in
          eassert (H' : Wi _ _ s1 /\ (b = true -> Fi _ _ _ s1))
            by (eapply W_skipped; [ | exact Hm ]; w_tac);
          let H1 := fresh "Hwv" in let H2 := fresh "Hfb" in
          destruct H' as (H1 & H2); clear Hm ]
  | line_end_comment _ ?c ?s = Ok ?c' ?s1 =>
      let H' := fresh "Hx" in
      eassert (H' : Fi _ _ _ s1 /\ (c' = c \/ exists x, c' = c ++ [x]))
        by (eapply F_line_end; [ | exact Hm ]; f_tac);
      let H1 := fresh "Hfv" in let H2 := fresh "Hle" in
      destruct H' as (H1 & H2); clear Hm
  | _ => d_shape Hm; first [ d_use Hm | d_useP Hm | idtac ]
  end.

Ltac d_destr x :=
  first [ is_var x; destruct x
        | let E := fresh "E" in
          destruct x eqn:E;
          try match type of E with
              | drain _ ?s = (?c, ?s1) =>
                  let H' := fresh "Hx" in
                  eassert (H' : Fi _ _ _ s1 /\ s_cur s1 = s_cur s /\ cur_pos s1 = cur_pos s /\
                                (s_cur s1 <> None -> doc_at _ _ (Some (cur_pos s1)) c))
                    by (eapply F_drain; [ | exact E ]; f_tac);
                  let H1 := fresh "Hfv" in let H2 := fresh "Hdc" in
                  let H3 := fresh "Hdp" in let H4 := fresh "Hdoc" in
                  destruct H' as (H1 & H2 & H3 & H4)
              | _ = Ok _ _ => d_hyp E
              | _ = Err _ _ => d_err E
              end ].

Ltac d_step :=
  lazymatch goal with
  | |- Ok _ _ = Ok _ _ -> _ =>
      let HH := fresh "HH" in intros HH; injection HH as ? ?; subst
  | |- Err _ _ = _ -> _ => let HH := fresh "HH" in intros HH; discriminate HH
  | |- Panic _ = _ -> _ => let HH := fresh "HH" in intros HH; discriminate HH
  | |- Fuel = _ -> _ => let HH := fresh "HH" in intros HH; discriminate HH
  | |- bind (Ok ?x ?s) ?k = ?R -> ?Cc => change (k x s = R -> Cc); cbv beta
  | |- bind (Err _ _) _ = _ -> _ => let HH := fresh "HH" in intros HH; discriminate HH
  | |- bind (Panic _) _ = _ -> _ => let HH := fresh "HH" in intros HH; discriminate HH
  | |- bind Fuel _ = _ -> _ => let HH := fresh "HH" in intros HH; discriminate HH
  | |- bind (bind _ _) _ = _ -> _ => rewrite bind_assoc
  | |- bind (if ?b then _ else _) _ = _ -> _ => d_destr b
  | |- bind (match ?x with _ => _ end) _ = _ -> _ => d_destr x
  | |- bind _ _ = _ -> _ =>
      apply bind_inv;
      let y := fresh "y" in let s1 := fresh "s" in let Hm := fresh "Hm" in
      intros y s1 Hm; cbv beta; d_hyp Hm
  | |- (if ?b then _ else _) = _ -> _ => d_destr b
  | |- (match ?x with _ => _ end) = _ -> _ => d_destr x
  | |- _ = Ok _ _ -> _ => let Hm := fresh "Hm" in intros Hm; d_hyp Hm
  end.

Ltac d_steps :=
  cbv beta iota zeta delta [negb];
  repeat (d_step; cbv beta iota zeta delta [negb]).


(* walking through a production without any specification (for shape lemmas) *)
Ltac r_destr x :=
  first [ is_var x; destruct x | let E := fresh "E" in destruct x eqn:E ].
Ltac r_step :=
  lazymatch goal with
  | |- Ok _ _ = Ok _ _ -> _ =>
      let HH := fresh "HH" in intros HH; injection HH as ? ?; subst
  | |- Err _ _ = _ -> _ => let HH := fresh "HH" in intros HH; discriminate HH
  | |- Panic _ = _ -> _ => let HH := fresh "HH" in intros HH; discriminate HH
  | |- Fuel = _ -> _ => let HH := fresh "HH" in intros HH; discriminate HH
  | |- bind (Ok ?x ?s) ?k = ?R -> ?Cc => change (k x s = R -> Cc); cbv beta
  | |- bind (Err _ _) _ = _ -> _ => let HH := fresh "HH" in intros HH; discriminate HH
  | |- bind (Panic _) _ = _ -> _ => let HH := fresh "HH" in intros HH; discriminate HH
  | |- bind Fuel _ = _ -> _ => let HH := fresh "HH" in intros HH; discriminate HH
  | |- bind (bind _ _) _ = _ -> _ => rewrite bind_assoc
  | |- bind (if ?b then _ else _) _ = _ -> _ => r_destr b
  | |- bind (match ?x with _ => _ end) _ = _ -> _ => r_destr x
  | |- bind _ _ = _ -> _ =>
      apply bind_inv;
      let y := fresh "y" in let s1 := fresh "s" in let Hm := fresh "Hm" in
      intros y s1 Hm; cbv beta
  | |- (if ?b then _ else _) = _ -> _ => r_destr b
  | |- (match ?x with _ => _ end) = _ -> _ => r_destr x
  | |- _ = Ok _ _ -> _ => let Hm := fresh "Hm" in intros Hm
  end.
Ltac r_steps :=
  cbv beta iota zeta delta [negb];
  repeat (r_step; cbv beta iota zeta delta [negb]).

(* ---- the final goal: Fi s' /\ good r ---- *)

Ltac d_norm :=
  unfold n_ident, n_basic, n_strlit, n_field, n_fieldlist, n_operation, n_functype, npos,
    empty_fieldlist, mk, mkd;
  cbn [fst snd dgoodo]; cbv beta iota.

(* the obligation of the node itself: trivial but for Field / FuncDecl / Decl *)
Ltac d_docat :=
  cbn [fpos pos_hd lead_pos field_pos spec_pos func_pos n_ps n_kids n_tag n_docs nth kid nlist];
  first [ assumption
        | apply doc_at_nil
        | match goal with
          | H : _ -> doc_at _ _ _ ?c |- doc_at _ _ _ ?c =>
              apply H; first [ assumption | congruence | discriminate ]
          end ].

Ltac d_own :=
  lazymatch goal with
  | |- own_doc_ok _ _ GField _ _ _ =>
      first [ solve [ exists [], []; split; [ reflexivity | ];
                      split; [ left; reflexivity | apply doc_at_nil ] ]
            | solve [ eexists _, _; split; [ reflexivity | ];
                      split; [ left; reflexivity | d_docat ] ] ]
  | |- own_doc_ok _ _ GFuncDecl _ _ _ =>
      solve [ eexists; split; [ reflexivity | d_docat ] ]
  | |- own_doc_ok _ _ ?t _ _ _ =>
      first [ reflexivity
            | solve [ eexists _, _; split; [ reflexivity | d_docat ] ] ]
  end.

Ltac dg :=
  d_norm;
  lazymatch goal with
  | |- True => exact I
  | |- anyg _ => exact I
  | |- _ /\ _ => split; dg
  | |- dgood _ _ (Nd _ _ _ _ _) => apply dgood_Nd_i; [ d_own | dg ]
  | |- dgood _ _ nnone => apply dgood_nnone
  | |- dgood _ _ (nlist _) => apply dgood_nlist; dg
  | |- dgood _ _ (nopt _) => apply dgood_nopt; dg
  | |- dgood _ _ (field_of _ _) => apply dgood_field_of; dg
  | |- dgood _ _ (set_kid _ _ _) => apply dgood_set_kid_index; [ assumption | dg | dg ]
  | |- dgood _ _ (kid _ _) => apply dgood_kid; dg
  | |- dgoodo _ _ (nth_error _ _) => apply dgoodo_nth_error; dg
  | |- dgoodo _ _ (Some _) => d_norm; dg
  | |- dgoodo _ _ None => exact I
  | |- Forall _ [] => constructor
  | |- Forall _ (_ :: _) => constructor; dg
  | |- Forall _ (_ ++ _) => apply Forall_app_i; dg
  | |- Forall _ (map _ _) => apply dgood_map_field_of; dg
  | |- Forall _ (flat_map _ _) => apply dgood_somes; dg
  | |- _ -> _ => intro; dg
  | |- _ => dg_atom
  end
with dg_atom :=
  first [ assumption
        | match goal with
          | H : _ |- _ => solve [ apply H; dg ]
          | H : Forall _ (_ ++ _) |- _ => solve [ apply Forall_app_l in H; dg ]
          | H : Forall _ (_ ++ _) |- _ => solve [ apply Forall_app_r in H; dg ]
          | H : Forall _ (_ :: _) |- _ => solve [ apply Forall_hd in H; dg ]
          | H : Forall _ (_ :: _) |- _ => solve [ apply Forall_tl in H; dg ]
          | H : pop_last _ = Some (_, ?x) |- dgood ?l ?w ?x =>
              solve [ eapply (pop_last_x _ (dgood l w)); [ exact H | dg ] ]
          | H : pop_last _ = Some (_, Some ?x) |- dgood ?l ?w ?x =>
              solve [ change (dgoodo l w (Some x));
                      eapply (pop_last_x _ (dgoodo l w)); [ exact H | dg ] ]
          | H : pop_last _ = Some (?r, _) |- Forall (dgood ?l ?w) ?r =>
              solve [ eapply (pop_last_r _ (dgood l w)); [ exact H | dg ] ]
          end ].

Ltac d_sat :=
  repeat match goal with
         | H : true = true -> _ |- _ => specialize (H eq_refl)
         | H : false = true -> _ |- _ => clear H
         | H : dgoodo _ _ None -> _ |- _ => specialize (H I)
         | H : dgoodo ?l ?w (Some ?x) -> _ |- _ =>
             let Hp := fresh "Hp" in
             assert (Hp : dgoodo l w (Some x)) by (solve [ dg ]);
             specialize (H Hp); clear Hp
         end.

Ltac d_cases :=
  repeat match goal with
         | |- context [if ?b then _ else _] => destruct b
         | H : context [if ?b then _ else _] |- _ => is_var b; destruct b
         | |- context [match ?o with Some _ => _ | None => _ end] => is_var o; destruct o
         end.

Ltac d_fin :=
  cbn [fst snd] in *;
  d_sat; subst;
  split; [ f_tac | ];
  d_cases; try discriminate; dg.

Tactic Notation "dprod" reference(f) :=
  intros ? ? ? ?; unfold f; hide_nats; d_steps; try (solve [ d_fin ]).
Tactic Notation "dprodP" reference(f) :=
  intros ? ? ? ? ?; unfold f; hide_nats; d_steps; try (solve [ d_fin ]).
Tactic Notation "dloop" reference(f) ident(fuel) :=
  induction fuel; intros; intros ? ? ? ?; [ discriminate | cbn [f]; hide_nats; d_steps;
                                           try (solve [ d_fin ]) ].

(* ------------------------------------------------------------------ leaf parsers *)

Section Leafs.
Variable lines : list N.
Variable E : Type.
Notation cm := Policy.comment.
Notation OPS := (policy_ops lines).
Notation pstate := (Core.pstate N (list cm) cstate E).
Notation res := (Core.res N (list cm) cstate E).
Notation selem := (Core.selem N (list cm)).
Notation nodeT := (node N (list cm)).
Variable whole : list selem.
Notation DSw := (DS lines E whole).
Notation DWw := (DW lines E whole).
Notation dgoodw := (dgood lines whole).
Notation dgoodow := (dgoodo lines whole).

(* moves on at once: may be entered stale *)
Lemma S_identifier site : DWw dgoodw (identifier OPS site).
Proof.
  intros s r s' Hs. unfold identifier.
  destruct (s_cur s) as [[p t]|] eqn:Ec; [ | discriminate ].
  destruct t as [| | |k name]; try discriminate. destruct k; try discriminate.
  apply bind_inv. intros y s1 Hm [= <- <-]. split.
  - eapply F_next; [ apply W_upd_cur, Hs | exact Hm ].
  - dg.
Qed.

Lemma S_literal : DWw dgoodw (literal OPS).
Proof.
  intros s r s' Hs. unfold literal.
  destruct (s_cur s) as [[p t]|] eqn:Ec; [ | discriminate ].
  destruct t as [| | |k name]; try discriminate.
  apply bind_inv. intros y s1 Hm [= <- <-]. split.
  - eapply F_next; [ apply W_upd_cur, Hs | exact Hm ].
  - dg.
Qed.

Lemma S_string_literal site : DWw dgoodw (string_literal OPS site).
Proof.
  intros s r s' Hs. unfold string_literal.
  destruct (s_cur s) as [[p t]|] eqn:Ec; [ | discriminate ].
  destruct t as [| | |k name]; try discriminate. destruct k; try discriminate.
  apply bind_inv. intros y s1 Hm [= <- <-]. split.
  - eapply F_next; [ apply W_upd_cur, Hs | exact Hm ].
  - dg.
Qed.

Lemma P_string_literal_or_none : DSw dgoodow (string_literal_or_none OPS).
Proof.
  intros s r s' Hs. unfold string_literal_or_none.
  assert (Hnone : Ok None s = Ok r s' -> Fi lines E whole s' /\ dgoodow r).
  { intros [= <- <-]. split; [ exact Hs | exact I ]. }
  destruct (s_cur s) as [[p t]|] eqn:Ec; [ | exact Hnone ].
  destruct t as [| | |k name]; try exact Hnone.
  destruct k; try exact Hnone.
  apply bind_inv. intros y s1 Hm [= <- <-]. split.
  - eapply F_next; [ apply W_upd_cur, (F_W _ _ _ _ Hs) | exact Hm ].
  - dg.
Qed.

End Leafs.

#[export] Hint Resolve S_identifier S_literal S_string_literal P_string_literal_or_none : doc.
