(* LIFTING FRAMEWORK for whole-parser invariants of Core.v.

   An invariant is a family [Inv k : pstate -> Prop] indexed by a ghost [k : K]
   (what holds at Ok) together with [InvE k] (what is known of the state an
   [Err] carries).  The ghost moves with the nesting level: [up k] after
   inc_level, back to [k] after dec_level; [rst k] inside an if / for / switch
   header (reset_level), back to [k] when the saved level is restored; and
   with Parser::nested: [dup k] while a recursion hub is open.

   From 17 closure facts about the PRIMITIVES ([inv_closed]: next, goback,
   line_end_comment, drain, upd_cur _ None, the level updates and the depth
   updates of nested -- productions touch the state in no other way) the framework derives the invariant for
   EVERY production and loop of [step self], given it for the fields of [self]
   (one lemma L_<production> each, [Good_step]), hence for [parsers_at d] at
   every depth ([Good_parsers_at], [lift_Good]) and for the entry points
   ([lift_parse_file], [lift_entry_expression], [lift_entry_stmt]).

   The only place where the parser continues from an [Err] state is
   parse_interface_type's `if let Ok(..) = parse_method_elem()`.  That loop is
   kept as the named obligation [H_interface_loop] of [Good_step] /
   [Good_parsers_at]; [interface_loop_catch] discharges it whenever
   [InvE k s -> Inv k s] (section LiftCatch).

   Ready-made instances of the scheme:
     OneState  [prim_closed OPS J]  a state predicate J kept by the primitives is
               kept by everything, at Ok and at Err: [lift_invariant] ...
     TwoState  [rel_closed OPS R]   a reflexive, transitive relation established
               by the primitives holds between the state before and after every
               production: [lift_relation] ...
   For a single production use its L_ lemma with [lift_invariant_Good] /
   [lift_relation_Good]; StreamProofs.v and LevelProofs.v show how.

   Importing this file makes the type arguments A G D C E of the core's
   functions implicit. *)
From Coq Require Import List Bool Arith Lia.
From GoSyn Require Import Token Tok Ast Core.
Import ListNotations.

(* type arguments of the core's functions are inferred *)
Arguments s_cur : default implicits.
Arguments s_rest : default implicits.
Arguments s_mark : default implicits.
Arguments s_term : default implicits.
Arguments s_spos : default implicits.
Arguments s_lp : default implicits.
Arguments s_ln : default implicits.
Arguments s_d : default implicits.
Arguments s_started : default implicits.
Arguments s_depth : default implicits.
Arguments d_next : default implicits.
Arguments d_goback : default implicits.
Arguments d_drain : default implicits.
Arguments d_line_end : default implicits.
Arguments c_empty : default implicits.
Arguments a_plus2 : default implicits.
Arguments k_type : default implicits.
Arguments k_type_or_none : default implicits.
Arguments k_expr : default implicits.
Arguments k_unary : default implicits.
Arguments k_binary : default implicits.
Arguments k_litvalue : default implicits.
Arguments k_block : default implicits.
Arguments k_stmt : default implicits.
Arguments k_if : default implicits.
Arguments bind : default implicits.
Arguments upd_cur : default implicits.
Arguments upd_d : default implicits.
Arguments upd_level : default implicits.
Arguments upd_depth : default implicits.
Arguments nested : default implicits.
Arguments prev_end : default implicits.
Arguments unexpected : default implicits.
Arguments else_error : default implicits.
Arguments else_error_at : default implicits.
Arguments inc_level : default implicits.
Arguments dec_level : default implicits.
Arguments level_nonneg : default implicits.
Arguments reset_level : default implicits.
Arguments next : default implicits.
Arguments preback : default implicits.
Arguments goback : default implicits.
Arguments cur_is : default implicits.
Arguments cur_not : default implicits.
Arguments cur_pos : default implicits.
Arguments cur_tok : default implicits.
Arguments expect : default implicits.
Arguments skipped : default implicits.
Arguments drain : default implicits.
Arguments line_end_comment : default implicits.
Arguments identifier : default implicits.
Arguments identifier_list_loop : default implicits.
Arguments loop_fuel : default implicits.
Arguments identifier_list : default implicits.
Arguments string_literal_or_none : default implicits.
Arguments string_literal : default implicits.
Arguments literal : default implicits.
Arguments check_fields : default implicits.
Arguments check_field_list : default implicits.
Arguments parse_next_level_expr : default implicits.
Arguments comma_list_loop : default implicits.
Arguments expression_list : default implicits.
Arguments parse_type_list : default implicits.
Arguments type_list_loop : default implicits.
Arguments type_list : default implicits.
Arguments type_instance : default implicits.
Arguments qualified_ident : default implicits.
Arguments parse_type_term : default implicits.
Arguments type_elem_loop : default implicits.
Arguments parse_type_elem : default implicits.
Arguments array_len : default implicits.
Arguments array_or_typeargs : default implicits.
Arguments ellipsis_type : default implicits.
Arguments param_decl_loop : default implicits.
Arguments parse_parameter_decl : default implicits.
Arguments params_loop : default implicits.
Arguments params_list : default implicits.
Arguments parameters : default implicits.
Arguments type_parameters : default implicits.
Arguments parse_result : default implicits.
Arguments signature : default implicits.
Arguments func_type : default implicits.
Arguments type_params_loop : default implicits.
Arguments parse_type_parameters : default implicits.
Arguments finish_field : default implicits.
Arguments field_decl : default implicits.
Arguments struct_loop : default implicits.
Arguments struct_type : default implicits.
Arguments semi_unless_brace : default implicits.
Arguments parse_method_elem : default implicits.
Arguments interface_loop : default implicits.
Arguments parse_interface_type : default implicits.
Arguments type_or_none_body : default implicits.
Arguments type_body : default implicits.
Arguments parse_element_value : default implicits.
Arguments parse_element : default implicits.
Arguments lit_value_loop : default implicits.
Arguments lit_value_body : default implicits.
Arguments index_comma_loop : default implicits.
Arguments parse_slice_index_or_type_inst : default implicits.
Arguments check_brace : default implicits.
Arguments call_args_loop : default implicits.
Arguments primary_step : default implicits.
Arguments primary_loop : default implicits.
Arguments operand : default implicits.
Arguments primary_expression : default implicits.
Arguments reset_chan_arrow : default implicits.
Arguments unary_body : default implicits.
Arguments binary_loop : default implicits.
Arguments binary_body : default implicits.
Arguments expr_body : default implicits.
Arguments parse_range_expr : default implicits.
Arguments check_single_expr : default implicits.
Arguments check_assign_stmt : default implicits.
Arguments parse_simple_stmt : default implicits.
Arguments stmts_until_brace : default implicits.
Arguments block_body : default implicits.
Arguments stmt_list_end : default implicits.
Arguments stmt_list_loop : default implicits.
Arguments parse_stmt_list : default implicits.
Arguments parse_go_defer : default implicits.
Arguments parse_return_stmt : default implicits.
Arguments parse_branch_stmt : default implicits.
Arguments parse_if_header : default implicits.
Arguments if_body : default implicits.
Arguments is_type_switch : default implicits.
Arguments case_block_loop : default implicits.
Arguments parse_case_block : default implicits.
Arguments parse_switch_stmt : default implicits.
Arguments parse_comm_stmt : default implicits.
Arguments comm_block_loop : default implicits.
Arguments parse_select_stmt : default implicits.
Arguments parse_for_stmt : default implicits.
Arguments parse_type_spec : default implicits.
Arguments parse_var_spec : default implicits.
Arguments parse_const_spec : default implicits.
Arguments parse_spec : default implicits.
Arguments decl_group_loop : default implicits.
Arguments parse_decl : default implicits.
Arguments parse_func_decl : default implicits.
Arguments stmt_body : default implicits.
Arguments parse_package : default implicits.
Arguments parse_import_spec : default implicits.
Arguments import_group_loop : default implicits.
Arguments parse_import_decl : default implicits.
Arguments imports_loop : default implicits.
Arguments parse_top_decl : default implicits.
Arguments decls_loop : default implicits.
Arguments ensure_started : default implicits.
Arguments parse_file : default implicits.
Arguments entry_expression : default implicits.
Arguments entry_stmt : default implicits.
Arguments step : default implicits.
Arguments parsers_at {A G D C E} OPS d.
Arguments init_state : default implicits.

(* ------------------------------------------------------------------ post *)

Section Post.
Variables (A G D E : Type).
Notation pstate := (Core.pstate A G D E).
Notation res := (Core.res A G D E).

(* what a result says about its final state: P at Ok, Pe at Err; Panic and
   Fuel carry no state *)
Definition post {X} (P Pe : pstate -> Prop) (r : res X) : Prop :=
  match r with
  | Ok _ s => P s
  | Err _ s => Pe s
  | Panic _ => True
  | Fuel => True
  end.

Lemma post_ok X (P Pe : pstate -> Prop) (x : X) s : P s -> post P Pe (Ok x s).
Proof. exact (fun H => H). Qed.
Lemma post_err X (P Pe : pstate -> Prop) e s : Pe s -> post P Pe (@Err _ _ _ _ X e s).
Proof. exact (fun H => H). Qed.

Lemma post_weaken X (P P' Pe Pe' : pstate -> Prop) (r : res X) :
  post P' Pe' r -> (forall s, P' s -> P s) -> (forall s, Pe' s -> Pe s) -> post P Pe r.
Proof. destruct r; simpl; auto. Qed.

Lemma post_weaken_err X (P Pe Pe' : pstate -> Prop) (r : res X) :
  post P Pe' r -> (forall s, Pe' s -> Pe s) -> post P Pe r.
Proof. destruct r; simpl; auto. Qed.

Lemma post_bind X Y (P P' Pe : pstate -> Prop) (m : res X) (f : X -> pstate -> res Y) :
  post P' Pe m -> (forall x s, P' s -> post P Pe (f x s)) -> post P Pe (bind m f).
Proof. destruct m; simpl; auto. Qed.

Lemma post_bind_ok X Y (P Pe : pstate -> Prop) (x : X) s (f : X -> pstate -> res Y) :
  post P Pe (f x s) -> post P Pe (bind (Ok x s) f).
Proof. exact (fun H => H). Qed.

Lemma post_bind_err X Y (P Pe : pstate -> Prop) e s (f : X -> pstate -> res Y) :
  Pe s -> post P Pe (bind (Err e s) f).
Proof. exact (fun H => H). Qed.

Lemma post_bind_assoc X Y Z (P Pe : pstate -> Prop) (m : res X)
      (g : X -> pstate -> res Y) (f : Y -> pstate -> res Z) :
  post P Pe (bind m (fun x s => bind (g x s) f)) -> post P Pe (bind (bind m g) f).
Proof. destruct m; simpl; auto. Qed.

(* a [match] on a result that also continues from the Err state *)
Lemma post_res_match X Y (P P1 Pe Pe1 : pstate -> Prop) (m : res X)
      (fo : X -> pstate -> res Y) (fe : perr A E -> pstate -> res Y) :
  post P1 Pe1 m ->
  (forall x s, P1 s -> post P Pe (fo x s)) ->
  (forall e s, Pe1 s -> post P Pe (fe e s)) ->
  post P Pe (match m with Ok x s => fo x s | Err e s => fe e s
                     | Panic n => Panic n | Fuel => Fuel end).
Proof. destruct m; simpl; auto. Qed.

(* reading a result back *)
Lemma post_Ok_inv X (P Pe : pstate -> Prop) (r : res X) x s : post P Pe r -> r = Ok x s -> P s.
Proof. intros H ->. exact H. Qed.
Lemma post_Err_inv X (P Pe : pstate -> Prop) (r : res X) e s : post P Pe r -> r = Err e s -> Pe s.
Proof. intros H ->. exact H. Qed.

End Post.

Arguments post {A G D E X}.

(* ------------------------------------------------------------------ tactics *)

(* [lift] holds: the closure facts of the invariant, the lemmas about the
   primitives, one lemma per production / loop, and (from the context) the
   hypotheses about [self] and the induction hypotheses of the loops. *)
Create HintDb lift discriminated.

Ltac st_solve := solve [ eassumption | eauto 7 with lift ].

(* [post ?P Pe (f args s)] for a primitive, a production or a field of self *)
Ltac call_solve :=
  solve [ eauto 7 with lift
        | eapply post_weaken_err; [ solve [ eauto 7 with lift ] | intros ? ?; st_solve ] ].

Ltac mstep1 :=
  lazymatch goal with
  | |- post _ _ (Ok _ _) => apply post_ok; st_solve
  | |- post _ _ (Err _ _) => apply post_err; st_solve
  | |- post _ _ (Panic _) => exact I
  | |- post _ _ Fuel => exact I
  | |- post _ _ (bind (Ok _ _) _) => apply post_bind_ok; cbv beta
  | |- post _ _ (bind (Err _ _) _) => apply post_bind_err; st_solve
  | |- post _ _ (bind (Panic _) _) => exact I
  | |- post _ _ (bind Fuel _) => exact I
  | |- post _ _ (bind (bind _ _) _) => apply post_bind_assoc; cbv beta
  | |- post _ _ (bind (if ?b then _ else _) _) => destruct b eqn:?
  | |- post _ _ (bind (match ?x with _ => _ end) _) => destruct x eqn:?
  | |- post _ _ (bind _ _) => eapply post_bind; [ call_solve | intros ? ? ? ]
  | |- post _ _ (if ?b then _ else _) => destruct b eqn:?
  | |- post _ _ (match ?x with _ => _ end) => destruct x eqn:?
  | |- post _ _ _ => call_solve
  end.

Ltac msteps := cbv beta zeta; repeat (mstep1; cbv beta zeta).

(* The error sites and panic codes are unary numerals up to 2273; [destruct]
   re-checks the goal, which is slow on such terms: abstract them first. *)
Ltac hide_nats :=
  repeat match goal with
         | |- context [S (S (S (S (S (S (S (S ?n)))))))] =>
             let x := fresh "site" in
             set (x := S (S (S (S (S (S (S (S n)))))))); clearbody x
         end.

(* a production: unfold it and walk through its monadic structure *)
Tactic Notation "prod" reference(f) := intros ? ? ?; unfold f; hide_nats; msteps.
(* a loop on token fuel: induction on the fuel, one unfolding *)
Tactic Notation "floop" reference(f) ident(fuel) :=
  induction fuel; intros; [ exact I | cbn [f]; hide_nats; msteps ].

(* ------------------------------------------------------------------ what an invariant provides *)

Section Closed.
Variables (A G D C E : Type) (OPS : ops A G D C).
Notation pstate := (Core.pstate A G D E).
Variable K : Type.
Variable Inv InvE : K -> pstate -> Prop.
Variable up rst dup : K -> K.

(* The 17 closure facts.  [ic_goback]: backtracking only goes to a mark taken
   ([preback]) in an earlier state that satisfied the invariant with the same
   ghost.  [ic_upd_cur]: productions set the current token only through
   next / goback / line_end_comment or to None.  [ic_drain]: the only update of
   the comment state outside next / goback / line_end_comment. *)
Record inv_closed : Prop := {
  ic_err : forall k s, Inv k s -> InvE k s;
  ic_upE : forall k s, InvE (up k) s -> InvE k s;
  ic_rstE : forall k s, InvE (rst k) s -> InvE k s;
  ic_inc : forall k s, Inv k s -> Inv (up k) (upd_level s (S (s_lp s)) (s_ln s));
  ic_dec : forall k s, Inv (up k) s -> Inv k (dec_level s);
  ic_decE : forall k s, InvE (up k) s -> InvE k (dec_level s);
  ic_reset : forall k s, Inv k s -> Inv (rst k) (reset_level s);
  ic_restore : forall k s s', Inv k s -> Inv (rst k) s' -> Inv k (upd_level s' (s_lp s) (s_ln s));
  (* Parser::nested: the ghost is [dup k] while a recursion hub is open; the
     body runs only below the limit; at the limit the hub fails at once *)
  ic_dinc : forall k s, s_depth s < MAX_NESTING -> Inv k s ->
                        Inv (dup k) (upd_depth s (S (s_depth s)));
  ic_dfail : forall k s, Inv k s ->
                         InvE k (upd_depth (upd_depth s (S (s_depth s))) (s_depth s));
  ic_ddec : forall k s, Inv (dup k) s -> Inv k (upd_depth s (pred (s_depth s)));
  ic_ddecE : forall k s, InvE (dup k) s -> InvE k (upd_depth s (pred (s_depth s)));
  ic_upd_cur : forall k s, Inv k s -> Inv k (upd_cur s None);
  ic_drain : forall k s c s', drain OPS s = (c, s') -> Inv k s -> Inv k s';
  ic_next : forall k s, Inv k s -> post (Inv k) (InvE k) (next OPS s);
  ic_goback : forall k s0 s, Inv k s0 -> Inv k s -> post (Inv k) (InvE k) (goback OPS (preback s0) s);
  ic_line_end : forall c k s, Inv k s -> post (Inv k) (InvE k) (line_end_comment OPS c s)
}.
End Closed.
Arguments inv_closed {A G D C E} OPS {K} Inv InvE up rst dup.
Arguments ic_err {A G D C E OPS K Inv InvE up rst dup} _.
Arguments ic_upE {A G D C E OPS K Inv InvE up rst dup} _.
Arguments ic_rstE {A G D C E OPS K Inv InvE up rst dup} _.
Arguments ic_inc {A G D C E OPS K Inv InvE up rst dup} _.
Arguments ic_dec {A G D C E OPS K Inv InvE up rst dup} _.
Arguments ic_decE {A G D C E OPS K Inv InvE up rst dup} _.
Arguments ic_reset {A G D C E OPS K Inv InvE up rst dup} _.
Arguments ic_restore {A G D C E OPS K Inv InvE up rst dup} _.
Arguments ic_dinc {A G D C E OPS K Inv InvE up rst dup} _.
Arguments ic_dfail {A G D C E OPS K Inv InvE up rst dup} _.
Arguments ic_ddec {A G D C E OPS K Inv InvE up rst dup} _.
Arguments ic_ddecE {A G D C E OPS K Inv InvE up rst dup} _.
Arguments ic_upd_cur {A G D C E OPS K Inv InvE up rst dup} _.
Arguments ic_drain {A G D C E OPS K Inv InvE up rst dup} _.
Arguments ic_next {A G D C E OPS K Inv InvE up rst dup} _.
Arguments ic_goback {A G D C E OPS K Inv InvE up rst dup} _.
Arguments ic_line_end {A G D C E OPS K Inv InvE up rst dup} _.

(* ------------------------------------------------------------------ the framework *)

Section Lift.
Variables (A G D C E : Type) (OPS : ops A G D C).
Notation pstate := (Core.pstate A G D E).
Notation res := (Core.res A G D E).
Notation parsers := (Core.parsers A G D C E).
Notation selem := (Core.selem A G).
Notation nodeT := (node A C).

Variable K : Type.
Variable Inv InvE : K -> pstate -> Prop.
Variable up rst dup : K -> K.

(* a state transformer / production keeps the invariant *)
Notation pres p := (forall k s, Inv k s -> post (Inv k) (InvE k) (p s)).

Hypothesis HC : inv_closed OPS Inv InvE up rst dup.

Lemma H_err : forall k s, Inv k s -> InvE k s.
Proof. destruct HC; assumption. Qed.
Lemma H_upE : forall k s, InvE (up k) s -> InvE k s.
Proof. destruct HC; assumption. Qed.
Lemma H_rstE : forall k s, InvE (rst k) s -> InvE k s.
Proof. destruct HC; assumption. Qed.
Lemma H_inc : forall k s, Inv k s -> Inv (up k) (upd_level s (S (s_lp s)) (s_ln s)).
Proof. destruct HC; assumption. Qed.
Lemma H_dec : forall k s, Inv (up k) s -> Inv k (dec_level s).
Proof. destruct HC; assumption. Qed.
Lemma H_decE : forall k s, InvE (up k) s -> InvE k (dec_level s).
Proof. destruct HC; assumption. Qed.
Lemma H_reset : forall k s, Inv k s -> Inv (rst k) (reset_level s).
Proof. destruct HC; assumption. Qed.
Lemma H_restore : forall k s s', Inv k s -> Inv (rst k) s' -> Inv k (upd_level s' (s_lp s) (s_ln s)).
Proof. destruct HC; assumption. Qed.
Lemma H_dinc : forall k s, s_depth s < MAX_NESTING -> Inv k s ->
  Inv (dup k) (upd_depth s (S (s_depth s))).
Proof. destruct HC; assumption. Qed.
Lemma H_dfail : forall k s, Inv k s ->
  InvE k (upd_depth (upd_depth s (S (s_depth s))) (s_depth s)).
Proof. destruct HC; assumption. Qed.
Lemma H_ddec : forall k s, Inv (dup k) s -> Inv k (upd_depth s (pred (s_depth s))).
Proof. destruct HC; assumption. Qed.
Lemma H_ddecE : forall k s, InvE (dup k) s -> InvE k (upd_depth s (pred (s_depth s))).
Proof. destruct HC; assumption. Qed.
Lemma H_upd_cur : forall k s, Inv k s -> Inv k (upd_cur s None).
Proof. destruct HC; assumption. Qed.
Lemma H_drain : forall k s c s', drain OPS s = (c, s') -> Inv k s -> Inv k s'.
Proof. destruct HC; assumption. Qed.
Lemma H_next : forall k s, Inv k s -> post (Inv k) (InvE k) (next OPS s).
Proof. destruct HC; assumption. Qed.
Lemma H_goback : forall k s0 s, Inv k s0 -> Inv k s -> post (Inv k) (InvE k) (goback OPS (preback s0) s).
Proof. destruct HC; assumption. Qed.
Lemma H_line_end : forall c k s, Inv k s -> post (Inv k) (InvE k) (line_end_comment OPS c s).
Proof. destruct HC; assumption. Qed.
Local Hint Resolve H_err H_upE H_rstE H_inc H_dec H_decE H_reset H_restore H_upd_cur H_drain
      H_next H_goback H_line_end : lift.

(* ---- primitives ---- *)

Lemma L_inc_level site k s :
  Inv k s -> post (Inv (up k)) (InvE k) (inc_level s site).
Proof. intros H. unfold inc_level. msteps. Qed.
Local Hint Resolve L_inc_level : lift.

(* Parser::nested around a body that keeps the invariant *)
Lemma L_nested X site (f : pstate -> res X) :
  pres f -> pres (nested site f).
Proof.
  intros Hf k s H. unfold nested. cbv zeta. cbn [s_depth upd_depth].
  destruct (S MAX_NESTING <=? S (s_depth s)) eqn:Hlim.
  - apply H_dfail, H.
  - apply Nat.leb_gt in Hlim.
    assert (Hb : post (Inv (dup k)) (InvE (dup k)) (f (upd_depth s (S (s_depth s))))).
    { apply Hf, H_dinc; [ lia | exact H ]. }
    destruct (f (upd_depth s (S (s_depth s)))); simpl in *; auto using H_ddec, H_ddecE.
Qed.

Lemma L_cur_tok site : pres (fun s => cur_tok s site).
Proof. intros k s H. unfold cur_tok. msteps. Qed.
Local Hint Resolve L_cur_tok : lift.

Lemma L_expect tk site : pres (expect OPS tk site).
Proof. intros k s H. unfold expect. msteps. Qed.
Local Hint Resolve L_expect : lift.

Lemma L_skipped tk : pres (skipped OPS tk).
Proof. intros k s H. unfold skipped. msteps. Qed.
Local Hint Resolve L_skipped : lift.

Lemma L_identifier site : pres (identifier OPS site).
Proof. intros k s H. unfold identifier. msteps. Qed.
Local Hint Resolve L_identifier : lift.

(* ---- leaf parsers (no recursion through [self]) ---- *)

Lemma L_identifier_list_loop : forall fuel acc, pres (identifier_list_loop OPS fuel acc).
Proof. floop identifier_list_loop fuel. Qed.
Local Hint Resolve L_identifier_list_loop : lift.

Lemma L_identifier_list first : pres (identifier_list OPS first).
Proof. prod identifier_list. Qed.
Local Hint Resolve L_identifier_list : lift.

Lemma L_string_literal_or_none : pres (string_literal_or_none OPS).
Proof. prod string_literal_or_none. Qed.
Local Hint Resolve L_string_literal_or_none : lift.

Lemma L_string_literal site : pres (string_literal OPS site).
Proof. prod string_literal. Qed.
Local Hint Resolve L_string_literal : lift.

Lemma L_literal : pres (literal OPS).
Proof. prod literal. Qed.
Local Hint Resolve L_literal : lift.

Lemma L_check_field_list (fl : nodeT) trailing : pres (check_field_list fl trailing).
Proof. prod check_field_list. Qed.
Local Hint Resolve L_check_field_list : lift.

Lemma L_check_single_expr (l : list nodeT) : pres (check_single_expr l).
Proof. prod check_single_expr. Qed.
Local Hint Resolve L_check_single_expr : lift.

Lemma L_check_assign_stmt (l : list nodeT) : pres (check_assign_stmt l).
Proof. induction l; intros; cbn [check_assign_stmt]; msteps. Qed.
Local Hint Resolve L_check_assign_stmt : lift.

Lemma L_is_type_switch (tg : option nodeT) : pres (is_type_switch tg).
Proof. prod is_type_switch. Qed.
Local Hint Resolve L_is_type_switch : lift.

Lemma L_semi_unless_brace site : pres (semi_unless_brace OPS site).
Proof. prod semi_unless_brace. Qed.
Local Hint Resolve L_semi_unless_brace : lift.

Lemma L_finish_field c names typ : pres (finish_field OPS c names typ).
Proof. prod finish_field. Qed.
Local Hint Resolve L_finish_field : lift.

Lemma L_parse_branch_stmt key : pres (parse_branch_stmt OPS key).
Proof. prod parse_branch_stmt. Qed.
Local Hint Resolve L_parse_branch_stmt : lift.

Lemma L_parse_package : pres (parse_package OPS).
Proof. prod parse_package. Qed.
Local Hint Resolve L_parse_package : lift.

Lemma L_parse_import_spec : pres (parse_import_spec OPS).
Proof. prod parse_import_spec. Qed.
Local Hint Resolve L_parse_import_spec : lift.

Lemma L_import_group_loop : forall fuel acc, pres (import_group_loop OPS fuel acc).
Proof. floop import_group_loop fuel. Qed.
Local Hint Resolve L_import_group_loop : lift.

Lemma L_parse_import_decl : pres (parse_import_decl OPS).
Proof. prod parse_import_decl. Qed.
Local Hint Resolve L_parse_import_decl : lift.

Lemma L_imports_loop : forall fuel acc, pres (imports_loop OPS fuel acc).
Proof. floop imports_loop fuel. Qed.
Local Hint Resolve L_imports_loop : lift.

Lemma L_ensure_started : pres (ensure_started OPS).
Proof. prod ensure_started. Qed.
Local Hint Resolve L_ensure_started : lift.


(* ---- the invariant of a table of parsers ---- *)

Record Good (self : parsers) : Prop := {
  g_type : pres (k_type self);
  g_type_or_none : pres (k_type_or_none self);
  g_expr : pres (k_expr self);
  g_unary : pres (k_unary self);
  g_binary : forall p prec, pres (k_binary self p prec);
  g_litvalue : pres (k_litvalue self);
  g_block : pres (k_block self);
  g_stmt : pres (k_stmt self);
  g_if : pres (k_if self)
}.

Lemma Good_no_fuel : Good (no_fuel A G D C E).
Proof. split; intros; exact I. Qed.

(* ---- one unfolding: every production of [step self] ---- *)

Section Step.
Variable self : parsers.
Hypothesis HG : Good self.

Lemma S_type : pres (k_type self). Proof. exact (g_type _ HG). Qed.
Lemma S_type_or_none : pres (k_type_or_none self). Proof. exact (g_type_or_none _ HG). Qed.
Lemma S_expr : pres (k_expr self). Proof. exact (g_expr _ HG). Qed.
Lemma S_unary : pres (k_unary self). Proof. exact (g_unary _ HG). Qed.
Lemma S_binary p prec : pres (k_binary self p prec). Proof. exact (g_binary _ HG p prec). Qed.
Lemma S_litvalue : pres (k_litvalue self). Proof. exact (g_litvalue _ HG). Qed.
Lemma S_block : pres (k_block self). Proof. exact (g_block _ HG). Qed.
Lemma S_stmt : pres (k_stmt self). Proof. exact (g_stmt _ HG). Qed.
Lemma S_if : pres (k_if self). Proof. exact (g_if _ HG). Qed.
Local Hint Resolve S_type S_type_or_none S_expr S_unary S_binary S_litvalue S_block S_stmt S_if
  : lift.

(* -- expressions and types -- *)

Lemma L_parse_next_level_expr : pres (parse_next_level_expr self).
Proof.
  intros k s H. unfold parse_next_level_expr.
  eapply post_bind; [ call_solve | intros _ s1 H1 ].
  eapply post_res_match with (P1 := Inv (up k)) (Pe1 := InvE (up k));
    [ auto with lift | intros; msteps .. ].
Qed.
Local Hint Resolve L_parse_next_level_expr : lift.

Lemma L_comma_list_loop (item : pstate -> res nodeT) (Hitem : pres item) :
  forall fuel acc, pres (comma_list_loop OPS fuel item acc).
Proof. floop comma_list_loop fuel. Qed.
Local Hint Resolve L_comma_list_loop : lift.

Lemma L_expression_list : pres (expression_list OPS self).
Proof. prod expression_list. Qed.
Local Hint Resolve L_expression_list : lift.

Lemma L_parse_type_list : pres (parse_type_list OPS self).
Proof. prod parse_type_list. Qed.
Local Hint Resolve L_parse_type_list : lift.

Lemma L_type_list_loop : forall fuel acc, pres (type_list_loop OPS self fuel acc).
Proof. floop type_list_loop fuel. Qed.
Local Hint Resolve L_type_list_loop : lift.

Lemma L_type_list strict : pres (type_list OPS self strict).
Proof. prod type_list. Qed.
Local Hint Resolve L_type_list : lift.

Lemma L_type_instance (left : nodeT) : pres (type_instance OPS self left).
Proof. prod type_instance. Qed.
Local Hint Resolve L_type_instance : lift.

Lemma L_qualified_ident (name : option nodeT) : pres (qualified_ident OPS self name).
Proof. prod qualified_ident. Qed.
Local Hint Resolve L_qualified_ident : lift.

Lemma L_parse_type_term : pres (parse_type_term OPS self).
Proof. prod parse_type_term. Qed.
Local Hint Resolve L_parse_type_term : lift.

Lemma L_type_elem_loop : forall fuel typ, pres (type_elem_loop OPS self fuel typ).
Proof. floop type_elem_loop fuel. Qed.
Local Hint Resolve L_type_elem_loop : lift.

Lemma L_parse_type_elem : pres (parse_type_elem OPS self).
Proof. prod parse_type_elem. Qed.
Local Hint Resolve L_parse_type_elem : lift.

Lemma L_array_len : pres (array_len OPS self).
Proof. prod array_len. Qed.
Local Hint Resolve L_array_len : lift.

Lemma L_array_or_typeargs : pres (array_or_typeargs OPS self).
Proof. prod array_or_typeargs. Qed.
Local Hint Resolve L_array_or_typeargs : lift.

Lemma L_ellipsis_type : pres (ellipsis_type OPS self).
Proof. prod ellipsis_type. Qed.
Local Hint Resolve L_ellipsis_type : lift.

Lemma L_param_decl_loop : forall fuel ewc ids, pres (param_decl_loop OPS self fuel ewc ids).
Proof. floop param_decl_loop fuel. Qed.
Local Hint Resolve L_param_decl_loop : lift.

Lemma L_parse_parameter_decl : pres (parse_parameter_decl OPS self).
Proof. prod parse_parameter_decl. Qed.
Local Hint Resolve L_parse_parameter_decl : lift.

Lemma L_params_loop : forall fuel close acc, pres (params_loop OPS self fuel close acc).
Proof. floop params_loop fuel. Qed.
Local Hint Resolve L_params_loop : lift.

Lemma L_params_list open close : pres (params_list OPS self open close).
Proof. prod params_list. Qed.
Local Hint Resolve L_params_list : lift.

Lemma L_parameters : pres (parameters OPS self).
Proof. prod parameters. Qed.
Local Hint Resolve L_parameters : lift.

Lemma L_type_parameters : pres (type_parameters OPS self).
Proof. prod type_parameters. Qed.
Local Hint Resolve L_type_parameters : lift.

Lemma L_parse_result : pres (parse_result OPS self).
Proof. prod parse_result. Qed.
Local Hint Resolve L_parse_result : lift.

Lemma L_signature : pres (signature OPS self).
Proof. prod signature. Qed.
Local Hint Resolve L_signature : lift.

Lemma L_func_type : pres (func_type OPS self).
Proof. prod func_type. Qed.
Local Hint Resolve L_func_type : lift.

Lemma L_type_params_loop : forall fuel acc, pres (type_params_loop OPS self fuel acc).
Proof. floop type_params_loop fuel. Qed.
Local Hint Resolve L_type_params_loop : lift.

Lemma L_parse_type_parameters : pres (parse_type_parameters OPS self).
Proof. prod parse_type_parameters. Qed.
Local Hint Resolve L_parse_type_parameters : lift.

Lemma L_field_decl : pres (field_decl OPS self).
Proof. prod field_decl. Qed.
Local Hint Resolve L_field_decl : lift.

Lemma L_struct_loop : forall fuel acc, pres (struct_loop OPS self fuel acc).
Proof. floop struct_loop fuel. Qed.
Local Hint Resolve L_struct_loop : lift.

Lemma L_struct_type : pres (struct_type OPS self).
Proof. prod struct_type. Qed.
Local Hint Resolve L_struct_type : lift.

Lemma L_parse_method_elem : pres (parse_method_elem OPS self).
Proof. prod parse_method_elem. Qed.
Local Hint Resolve L_parse_method_elem : lift.

(* the loop of parse_interface_type continues from the state an error of
   parse_method_elem left behind: here under the assumption that an error state
   still satisfies the invariant *)
Lemma interface_loop_catch (Hcatch : forall k s, InvE k s -> Inv k s) :
  forall fuel acc, pres (interface_loop OPS self fuel acc).
Proof.
  induction fuel; intros acc k s H; [ exact I | ].
  cbn [interface_loop]. hide_nats. cbv zeta.
  mstep1; [ msteps | ].
  mstep1; [ | msteps ].
  eapply post_res_match with (P1 := Inv k) (Pe1 := InvE k);
    [ auto with lift | intros; msteps | intros e s1 He; apply Hcatch in He; msteps ].
Qed.

(* the named obligation (see the head of the file) *)
Hypothesis H_interface_loop : forall fuel acc, pres (interface_loop OPS self fuel acc).
Local Hint Resolve H_interface_loop : lift.

Lemma L_parse_interface_type : pres (parse_interface_type OPS self).
Proof. prod parse_interface_type. Qed.
Local Hint Resolve L_parse_interface_type : lift.

Lemma L_type_or_none_body : pres (type_or_none_body OPS self).
Proof. prod type_or_none_body. Qed.
Local Hint Resolve L_type_or_none_body : lift.

Lemma L_type_body : pres (type_body self).
Proof. prod type_body. Qed.
Local Hint Resolve L_type_body : lift.

Lemma L_parse_element_value : pres (parse_element_value self).
Proof. prod parse_element_value. Qed.
Local Hint Resolve L_parse_element_value : lift.

Lemma L_parse_element : pres (parse_element OPS self).
Proof. prod parse_element. Qed.
Local Hint Resolve L_parse_element : lift.

Lemma L_lit_value_loop : forall fuel acc, pres (lit_value_loop OPS self fuel acc).
Proof. floop lit_value_loop fuel. Qed.
Local Hint Resolve L_lit_value_loop : lift.

Lemma L_lit_value_body : pres (lit_value_body OPS self).
Proof. prod lit_value_body. Qed.
Local Hint Resolve L_lit_value_body : lift.

Lemma L_index_comma_loop : forall fuel acc, pres (index_comma_loop OPS self fuel acc).
Proof. floop index_comma_loop fuel. Qed.
Local Hint Resolve L_index_comma_loop : lift.

Lemma L_parse_slice_index_or_type_inst : pres (parse_slice_index_or_type_inst OPS self).
Proof. prod parse_slice_index_or_type_inst. Qed.
Local Hint Resolve L_parse_slice_index_or_type_inst : lift.

Lemma L_call_args_loop : forall fuel args ewc, pres (call_args_loop OPS self fuel args ewc).
Proof. floop call_args_loop fuel. Qed.
Local Hint Resolve L_call_args_loop : lift.

Lemma L_primary_step (x : nodeT) : pres (primary_step OPS self x).
Proof. prod primary_step. Qed.
Local Hint Resolve L_primary_step : lift.

Lemma L_primary_loop : forall fuel x, pres (primary_loop OPS self fuel x).
Proof. floop primary_loop fuel. Qed.
Local Hint Resolve L_primary_loop : lift.

Lemma L_operand : pres (operand OPS self).
Proof. prod operand. Qed.
Local Hint Resolve L_operand : lift.

Lemma L_primary_expression (p : option nodeT) : pres (primary_expression OPS self p).
Proof. prod primary_expression. Qed.
Local Hint Resolve L_primary_expression : lift.

Lemma L_unary_body : pres (unary_body OPS self).
Proof. prod unary_body. Qed.
Local Hint Resolve L_unary_body : lift.

Lemma L_binary_loop : forall fuel prec x, pres (binary_loop OPS self fuel prec x).
Proof. floop binary_loop fuel. Qed.
Local Hint Resolve L_binary_loop : lift.

Lemma L_binary_body (p : option nodeT) prec : pres (binary_body OPS self p prec).
Proof. prod binary_body. Qed.
Local Hint Resolve L_binary_body : lift.

Lemma L_expr_body : pres (expr_body self).
Proof. prod expr_body. Qed.
Local Hint Resolve L_expr_body : lift.

(* -- statements -- *)

Lemma L_parse_range_expr : pres (parse_range_expr OPS self).
Proof. prod parse_range_expr. Qed.
Local Hint Resolve L_parse_range_expr : lift.

Lemma L_parse_simple_stmt : pres (parse_simple_stmt OPS self).
Proof. prod parse_simple_stmt. Qed.
Local Hint Resolve L_parse_simple_stmt : lift.

Lemma L_stmts_until_brace : forall fuel acc, pres (stmts_until_brace self fuel acc).
Proof. floop stmts_until_brace fuel. Qed.
Local Hint Resolve L_stmts_until_brace : lift.

Lemma L_block_body : pres (block_body OPS self).
Proof. prod block_body. Qed.
Local Hint Resolve L_block_body : lift.

Lemma L_stmt_list_loop : forall fuel acc, pres (stmt_list_loop self fuel acc).
Proof. floop stmt_list_loop fuel. Qed.
Local Hint Resolve L_stmt_list_loop : lift.

Lemma L_parse_stmt_list : pres (parse_stmt_list self).
Proof. prod parse_stmt_list. Qed.
Local Hint Resolve L_parse_stmt_list : lift.

Lemma L_parse_go_defer is_go : pres (parse_go_defer OPS self is_go).
Proof. prod parse_go_defer. Qed.
Local Hint Resolve L_parse_go_defer : lift.

Lemma L_parse_return_stmt : pres (parse_return_stmt OPS self).
Proof. prod parse_return_stmt. Qed.
Local Hint Resolve L_parse_return_stmt : lift.

Lemma L_parse_if_header : pres (parse_if_header OPS self).
Proof. prod parse_if_header. Qed.
Local Hint Resolve L_parse_if_header : lift.

Lemma L_if_body : pres (if_body OPS self).
Proof. prod if_body. Qed.
Local Hint Resolve L_if_body : lift.

Lemma L_case_block_loop : forall fuel ta acc, pres (case_block_loop OPS self fuel ta acc).
Proof. floop case_block_loop fuel. Qed.
Local Hint Resolve L_case_block_loop : lift.

Lemma L_parse_case_block ta : pres (parse_case_block OPS self ta).
Proof. prod parse_case_block. Qed.
Local Hint Resolve L_parse_case_block : lift.

Lemma L_parse_switch_stmt : pres (parse_switch_stmt OPS self).
Proof. prod parse_switch_stmt. Qed.
Local Hint Resolve L_parse_switch_stmt : lift.

Lemma L_parse_comm_stmt : pres (parse_comm_stmt OPS self).
Proof. prod parse_comm_stmt. Qed.
Local Hint Resolve L_parse_comm_stmt : lift.

Lemma L_comm_block_loop : forall fuel acc, pres (comm_block_loop OPS self fuel acc).
Proof. floop comm_block_loop fuel. Qed.
Local Hint Resolve L_comm_block_loop : lift.

Lemma L_parse_select_stmt : pres (parse_select_stmt OPS self).
Proof. prod parse_select_stmt. Qed.
Local Hint Resolve L_parse_select_stmt : lift.

Lemma L_parse_for_stmt : pres (parse_for_stmt OPS self).
Proof. prod parse_for_stmt. Qed.
Local Hint Resolve L_parse_for_stmt : lift.

(* -- declarations -- *)

Lemma L_parse_type_spec : pres (parse_type_spec OPS self).
Proof. prod parse_type_spec. Qed.
Local Hint Resolve L_parse_type_spec : lift.

Lemma L_parse_var_spec : pres (parse_var_spec OPS self).
Proof. prod parse_var_spec. Qed.
Local Hint Resolve L_parse_var_spec : lift.

Lemma L_parse_const_spec index : pres (parse_const_spec OPS self index).
Proof. prod parse_const_spec. Qed.
Local Hint Resolve L_parse_const_spec : lift.

Lemma L_parse_spec sk index : pres (parse_spec OPS self sk index).
Proof. prod parse_spec. Qed.
Local Hint Resolve L_parse_spec : lift.

Lemma L_decl_group_loop : forall fuel sk index acc, pres (decl_group_loop OPS self fuel sk index acc).
Proof. floop decl_group_loop fuel. Qed.
Local Hint Resolve L_decl_group_loop : lift.

Lemma L_parse_decl sk : pres (parse_decl OPS self sk).
Proof. prod parse_decl. Qed.
Local Hint Resolve L_parse_decl : lift.

Lemma L_parse_func_decl : pres (parse_func_decl OPS self).
Proof. prod parse_func_decl. Qed.
Local Hint Resolve L_parse_func_decl : lift.

Lemma L_stmt_body : pres (stmt_body OPS self).
Proof. prod stmt_body. Qed.
Local Hint Resolve L_stmt_body : lift.

(* -- file level and entry points -- *)

Lemma L_parse_top_decl : pres (parse_top_decl OPS self).
Proof. prod parse_top_decl. Qed.
Local Hint Resolve L_parse_top_decl : lift.

Lemma L_decls_loop : forall fuel acc, pres (decls_loop OPS self fuel acc).
Proof. floop decls_loop fuel. Qed.
Local Hint Resolve L_decls_loop : lift.

Lemma L_parse_file : pres (parse_file OPS self).
Proof. prod parse_file. Qed.
Local Hint Resolve L_parse_file : lift.

Lemma L_entry_expression : pres (entry_expression OPS self).
Proof. prod entry_expression. Qed.
Local Hint Resolve L_entry_expression : lift.

Lemma L_entry_stmt : pres (entry_stmt OPS self).
Proof. prod entry_stmt. Qed.
Local Hint Resolve L_entry_stmt : lift.

Lemma Good_step : Good (step OPS self).
Proof.
  split; cbn [step k_type k_type_or_none k_expr k_unary k_binary k_litvalue k_block k_stmt k_if];
    try apply L_nested; auto with lift.
Qed.

End Step.
(* ---- closing the recursion ---- *)

Lemma parsers_at_ind (P : parsers -> Prop) :
  P (no_fuel A G D C E) -> (forall self, P self -> P (step OPS self)) ->
  forall d, P (parsers_at OPS d).
Proof. intros H0 HS. induction d; cbn [parsers_at]; auto. Qed.

Section Close.
(* [Aux]: whatever else has to be known of [self] to deal with the interface loop *)
Variable Aux : parsers -> Prop.
Hypothesis Aux_no_fuel : Aux (no_fuel A G D C E).
Hypothesis Aux_step : forall self, Aux self -> Good self -> Aux (step OPS self).
Hypothesis H_interface_loop :
  forall self, Aux self -> Good self ->
  forall fuel acc, pres (interface_loop OPS self fuel acc).

Lemma Good_parsers_at_aux : forall d, Aux (parsers_at OPS d) /\ Good (parsers_at OPS d).
Proof.
  apply (parsers_at_ind (fun self => Aux self /\ Good self)).
  - split; [ exact Aux_no_fuel | exact Good_no_fuel ].
  - intros self [Ha Hg]. split; [ auto | apply Good_step; auto ].
Qed.

Theorem Good_parsers_at d : Good (parsers_at OPS d).
Proof. apply Good_parsers_at_aux. Qed.

Theorem pres_parse_file d : pres (parse_file OPS (parsers_at OPS d)).
Proof. apply L_parse_file, Good_parsers_at. Qed.
Theorem pres_entry_expression d : pres (entry_expression OPS (parsers_at OPS d)).
Proof. apply L_entry_expression, Good_parsers_at. Qed.
Theorem pres_entry_stmt d : pres (entry_stmt OPS (parsers_at OPS d)).
Proof. apply L_entry_stmt, Good_parsers_at. Qed.

End Close.

End Lift.

Arguments Good {A G D C E K} Inv InvE self.

(* ------------------------------------------------------------------ the usual case:
   an error state still satisfies the invariant *)

Section LiftCatch.
Variables (A G D C E : Type) (OPS : ops A G D C).
Notation pstate := (Core.pstate A G D E).
Variable K : Type.
Variable Inv InvE : K -> pstate -> Prop.
Variable up rst dup : K -> K.
Hypothesis HC : inv_closed OPS Inv InvE up rst dup.
Hypothesis Hcatch : forall k s, InvE k s -> Inv k s.

Theorem lift_Good d : Good Inv InvE (parsers_at OPS d).
Proof.
  apply (Good_parsers_at A G D C E OPS K Inv InvE up rst dup HC (fun _ => True)); auto.
  intros self _ HG. eapply interface_loop_catch; eassumption.
Qed.

Theorem lift_parse_file d k s :
  Inv k s -> post (Inv k) (InvE k) (parse_file OPS (parsers_at OPS d) s).
Proof. eapply L_parse_file; [ exact HC | apply lift_Good ]. Qed.
Theorem lift_entry_expression d k s :
  Inv k s -> post (Inv k) (InvE k) (entry_expression OPS (parsers_at OPS d) s).
Proof. eapply L_entry_expression; [ exact HC | apply lift_Good ]. Qed.
Theorem lift_entry_stmt d k s :
  Inv k s -> post (Inv k) (InvE k) (entry_stmt OPS (parsers_at OPS d) s).
Proof. eapply L_entry_stmt; [ exact HC | apply lift_Good ]. Qed.

End LiftCatch.

(* ------------------------------------------------------------------ ONE-STATE version:
   a predicate J on parser states that the primitives preserve is preserved by
   every production, at Ok and at Err *)

Section OneState.
Variables (A G D C E : Type) (OPS : ops A G D C).
Notation pstate := (Core.pstate A G D E).
Variable J : pstate -> Prop.

Record prim_closed : Prop := {
  J_next : forall s s', J s -> next OPS s = Ok tt s' -> J s';
  J_next_err : forall s e s', J s -> next OPS s = Err e s' -> J s';
  (* the mark comes from an earlier J-state; goback never returns Err *)
  J_goback : forall s0 s s', J s0 -> J s -> goback OPS (preback s0) s = Ok tt s' -> J s';
  J_line_end : forall c s c' s', J s -> line_end_comment OPS c s = Ok c' s' -> J s';
  J_line_end_err : forall c s e s', J s -> line_end_comment OPS c s = Err e s' -> J s';
  J_drain : forall s c s', J s -> drain OPS s = (c, s') -> J s';
  J_upd_cur : forall s, J s -> J (upd_cur s None);
  J_level : forall s lp ln, J s -> J (upd_level s lp ln);
  J_depth : forall s n, J s -> J (upd_depth s n)
}.

Hypothesis HJ : prim_closed.

Lemma prim_closed_inv_closed :
  inv_closed OPS (fun _ : unit => J) (fun _ => J) (fun k => k) (fun k => k) (fun k => k).
Proof.
  destruct HJ. split.
  - auto.
  - auto.
  - auto.
  - intros _ s H. apply J_level0; exact H.
  - intros _ s H. unfold dec_level. apply J_level0; exact H.
  - intros _ s H. unfold dec_level. apply J_level0; exact H.
  - intros _ s H. unfold reset_level. apply J_level0; exact H.
  - intros _ s s' _ H. apply J_level0; exact H.
  - intros _ s _ H. apply J_depth0; exact H.
  - intros _ s H. apply J_depth0, J_depth0; exact H.
  - intros _ s H. apply J_depth0; exact H.
  - intros _ s H. apply J_depth0; exact H.
  - auto.
  - intros _ s c s' Hd H. eauto.
  - intros _ s H. destruct (next OPS s) as [[] s'| | |] eqn:Hn; simpl; eauto.
  - intros _ s0 s H0 H.
    destruct (goback OPS (preback s0) s) as [[] s'|e s'| |] eqn:Hg; simpl; eauto.
    unfold goback in Hg. destruct (preback s0) as [|[]]; [ destruct (s_term s) | ]; discriminate.
  - intros c _ s H. destruct (line_end_comment OPS c s) eqn:Hl; simpl; eauto.
Qed.

Theorem lift_invariant_Good d : Good (fun _ : unit => J) (fun _ => J) (parsers_at OPS d).
Proof. apply (lift_Good _ _ _ _ _ OPS _ _ _ _ _ _ prim_closed_inv_closed). auto. Qed.

Theorem lift_invariant_post d s : J s -> post J J (parse_file OPS (parsers_at OPS d) s).
Proof. apply (lift_parse_file _ _ _ _ _ OPS _ _ _ _ _ _ prim_closed_inv_closed (fun _ _ H => H) d tt). Qed.

Theorem lift_invariant d s x s' :
  J s -> parse_file OPS (parsers_at OPS d) s = Ok x s' -> J s'.
Proof. intros H. apply post_Ok_inv with (Pe := J). apply lift_invariant_post, H. Qed.
Theorem lift_invariant_err d s e s' :
  J s -> parse_file OPS (parsers_at OPS d) s = Err e s' -> J s'.
Proof. intros H. apply post_Err_inv with (P := J). apply lift_invariant_post, H. Qed.

Theorem lift_invariant_expression_post d s :
  J s -> post J J (entry_expression OPS (parsers_at OPS d) s).
Proof.
  apply (lift_entry_expression _ _ _ _ _ OPS _ _ _ _ _ _ prim_closed_inv_closed (fun _ _ H => H) d tt).
Qed.
Theorem lift_invariant_expression d s x s' :
  J s -> entry_expression OPS (parsers_at OPS d) s = Ok x s' -> J s'.
Proof. intros H. apply post_Ok_inv with (Pe := J). apply lift_invariant_expression_post, H. Qed.
Theorem lift_invariant_expression_err d s e s' :
  J s -> entry_expression OPS (parsers_at OPS d) s = Err e s' -> J s'.
Proof. intros H. apply post_Err_inv with (P := J). apply lift_invariant_expression_post, H. Qed.

Theorem lift_invariant_stmt_post d s : J s -> post J J (entry_stmt OPS (parsers_at OPS d) s).
Proof.
  apply (lift_entry_stmt _ _ _ _ _ OPS _ _ _ _ _ _ prim_closed_inv_closed (fun _ _ H => H) d tt).
Qed.
Theorem lift_invariant_stmt d s x s' :
  J s -> entry_stmt OPS (parsers_at OPS d) s = Ok x s' -> J s'.
Proof. intros H. apply post_Ok_inv with (Pe := J). apply lift_invariant_stmt_post, H. Qed.
Theorem lift_invariant_stmt_err d s e s' :
  J s -> entry_stmt OPS (parsers_at OPS d) s = Err e s' -> J s'.
Proof. intros H. apply post_Err_inv with (P := J). apply lift_invariant_stmt_post, H. Qed.

End OneState.

Arguments prim_closed {A G D C E} OPS J.
Arguments J_next {A G D C E OPS J} _.
Arguments J_next_err {A G D C E OPS J} _.
Arguments J_goback {A G D C E OPS J} _.
Arguments J_line_end {A G D C E OPS J} _.
Arguments J_line_end_err {A G D C E OPS J} _.
Arguments J_drain {A G D C E OPS J} _.
Arguments J_upd_cur {A G D C E OPS J} _.
Arguments J_level {A G D C E OPS J} _.
Arguments J_depth {A G D C E OPS J} _.

(* ------------------------------------------------------------------ TWO-STATE version:
   a reflexive and transitive relation between the state before and the state
   after that every primitive establishes is established by every production.
   (Level restoration is NOT of this shape -- inc_level alone does not restore
   the level -- it needs the ghost: see LevelProofs.v.) *)

Section TwoState.
Variables (A G D C E : Type) (OPS : ops A G D C).
Notation pstate := (Core.pstate A G D E).
Variable R : pstate -> pstate -> Prop.

Record rel_closed : Prop := {
  R_refl : forall s, R s s;
  R_trans : forall s1 s2 s3, R s1 s2 -> R s2 s3 -> R s1 s3;
  R_next : forall s s', next OPS s = Ok tt s' -> R s s';
  R_next_err : forall s e s', next OPS s = Err e s' -> R s s';
  (* si: where the production started; s0: where the mark was taken *)
  R_goback : forall si s0 s s',
      R si s0 -> R si s -> goback OPS (preback s0) s = Ok tt s' -> R si s';
  R_line_end : forall c s c' s', line_end_comment OPS c s = Ok c' s' -> R s s';
  R_line_end_err : forall c s e s', line_end_comment OPS c s = Err e s' -> R s s';
  R_drain : forall s c s', drain OPS s = (c, s') -> R s s';
  R_upd_cur : forall s, R s (upd_cur s None);
  R_level : forall s lp ln, R s (upd_level s lp ln);
  R_depth : forall s n, R s (upd_depth s n)
}.

Hypothesis HR : rel_closed.

Lemma rel_closed_prim_closed si : prim_closed OPS (R si).
Proof.
  destruct HR. split; intros; eauto.
Qed.

Lemma rel_closed_inv_closed : inv_closed OPS R R (fun k => k) (fun k => k) (fun k => k).
Proof.
  pose proof (fun k => prim_closed_inv_closed _ _ _ _ _ OPS _ (rel_closed_prim_closed k)) as HI.
  split; intros; try assumption.
  - apply (ic_inc (HI k) tt); assumption.
  - apply (ic_dec (HI k) tt); assumption.
  - apply (ic_decE (HI k) tt); assumption.
  - apply (ic_reset (HI k) tt); assumption.
  - apply (ic_restore (HI k) tt s); assumption.
  - apply (ic_dinc (HI k) tt); assumption.
  - apply (ic_dfail (HI k) tt); assumption.
  - apply (ic_ddec (HI k) tt); assumption.
  - apply (ic_ddecE (HI k) tt); assumption.
  - apply (ic_upd_cur (HI k) tt); assumption.
  - eapply (ic_drain (HI k) tt); eassumption.
  - apply (ic_next (HI k) tt); assumption.
  - apply (ic_goback (HI k) tt); assumption.
  - apply (ic_line_end (HI k) c tt); assumption.
Qed.

Theorem lift_relation_Good d : Good R R (parsers_at OPS d).
Proof. apply (lift_Good _ _ _ _ _ OPS _ R R _ _ _ rel_closed_inv_closed). auto. Qed.

(* from the L_ lemma of a production to the relation between its end points *)
Lemma rel_of_post X (p : pstate -> Core.res A G D E X) :
  (forall k s, R k s -> post (R k) (R k) (p s)) ->
  forall s, match p s with Ok _ s' => R s s' | Err _ s' => R s s' | _ => True end.
Proof. intros H s. apply (H s s), (R_refl HR). Qed.

Theorem lift_relation_post d s : post (R s) (R s) (parse_file OPS (parsers_at OPS d) s).
Proof.
  apply (lift_invariant_post _ _ _ _ _ OPS _ (rel_closed_prim_closed s)), (R_refl HR).
Qed.
Theorem lift_relation d s x s' : parse_file OPS (parsers_at OPS d) s = Ok x s' -> R s s'.
Proof. apply post_Ok_inv with (Pe := R s), lift_relation_post. Qed.
Theorem lift_relation_err d s e s' : parse_file OPS (parsers_at OPS d) s = Err e s' -> R s s'.
Proof. apply post_Err_inv with (P := R s), lift_relation_post. Qed.

Theorem lift_relation_expression d s x s' :
  entry_expression OPS (parsers_at OPS d) s = Ok x s' -> R s s'.
Proof.
  apply (lift_invariant_expression _ _ _ _ _ OPS _ (rel_closed_prim_closed s)), (R_refl HR).
Qed.
Theorem lift_relation_expression_err d s e s' :
  entry_expression OPS (parsers_at OPS d) s = Err e s' -> R s s'.
Proof.
  apply (lift_invariant_expression_err _ _ _ _ _ OPS _ (rel_closed_prim_closed s)), (R_refl HR).
Qed.
Theorem lift_relation_stmt d s x s' :
  entry_stmt OPS (parsers_at OPS d) s = Ok x s' -> R s s'.
Proof. apply (lift_invariant_stmt _ _ _ _ _ OPS _ (rel_closed_prim_closed s)), (R_refl HR). Qed.
Theorem lift_relation_stmt_err d s e s' :
  entry_stmt OPS (parsers_at OPS d) s = Err e s' -> R s s'.
Proof. apply (lift_invariant_stmt_err _ _ _ _ _ OPS _ (rel_closed_prim_closed s)), (R_refl HR). Qed.

End TwoState.

Arguments rel_closed {A G D C E} OPS R.
Arguments R_refl {A G D C E OPS R} _.
Arguments R_trans {A G D C E OPS R} _.
Arguments R_next {A G D C E OPS R} _.
Arguments R_next_err {A G D C E OPS R} _.
Arguments R_goback {A G D C E OPS R} _.
Arguments R_line_end {A G D C E OPS R} _.
Arguments R_line_end_err {A G D C E OPS R} _.
Arguments R_drain {A G D C E OPS R} _.
Arguments R_upd_cur {A G D C E OPS R} _.
Arguments R_level {A G D C E OPS R} _.
Arguments R_depth {A G D C E OPS R} _.
