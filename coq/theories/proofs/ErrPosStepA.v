(* C16 (errors), part 3: one unfolding of the recursion -- types and expressions. *)
From Coq Require Import List Bool Arith Lia.
From GoSyn Require Import Token Tok Ast Core.
From GoSyn.proofs Require Import Lift StreamProofs ErrPosBase ErrPosLeaf.
Import ListNotations.

Section Good.
Variables (A G D C E : Type) (OPS : ops A G D C).
Notation pstate := (Core.pstate A G D E).
Notation parsers := (Core.parsers A G D C E).
Notation selem := (Core.selem A G).
Notation sterm := (Core.sterm A G E).
Variable whole : list selem.
Variable term : sterm.
Notation J := (J whole term).
Notation rp := (rp OPS whole term).
Notation nok := (nok (C:=C) whole term).
Notation onok := (onok (C:=C) whole term).

(* the specification of a table of parsers *)
Record GoodR (self : parsers) : Prop := {
  r_type : forall s, J s -> rp nok (k_type self s);
  r_type_or_none : forall s, J s -> rp onok (k_type_or_none self s);
  r_expr : forall s, J s -> rp nok (k_expr self s);
  r_unary : forall s, J s -> rp nok (k_unary self s);
  r_binary : forall p prec s, onok p -> J s -> rp nok (k_binary self p prec s);
  r_litvalue : forall s, J s -> rp nok (k_litvalue self s);
  r_block : forall s, J s -> rp nok (k_block self s);
  r_stmt : forall s, J s -> rp nok (k_stmt self s);
  r_if : forall s, J s -> rp nok (k_if self s)
}.

Lemma GoodR_no_fuel : GoodR (no_fuel A G D C E).
Proof. split; intros; exact I. Qed.

End Good.
Arguments GoodR {A G D C E} OPS whole term self.

Section StepA.
Variables (A G D C E : Type) (OPS : ops A G D C).
Notation pstate := (Core.pstate A G D E).
Notation res := (Core.res A G D E).
Notation parsers := (Core.parsers A G D C E).
Notation selem := (Core.selem A G).
Notation sterm := (Core.sterm A G E).
Notation nodeT := (node A C).
Variable whole : list selem.
Variable term : sterm.
Notation J := (J whole term).
Notation JE := (JE whole term).
Notation rp := (rp OPS whole term).
Notation nok := (nok (C:=C) whole term).
Notation onok := (onok (C:=C) whole term).
Notation lnok := (Forall nok).

Variable self : parsers.
Hypothesis HG : GoodR OPS whole term self.

Lemma S_type s : J s -> rp nok (k_type self s). Proof. exact (r_type _ _ _ _ _ _ _ _ _ HG s). Qed.
Lemma S_type_or_none s : J s -> rp onok (k_type_or_none self s).
Proof. exact (r_type_or_none _ _ _ _ _ _ _ _ _ HG s). Qed.
Lemma S_expr s : J s -> rp nok (k_expr self s). Proof. exact (r_expr _ _ _ _ _ _ _ _ _ HG s). Qed.
Lemma S_unary s : J s -> rp nok (k_unary self s). Proof. exact (r_unary _ _ _ _ _ _ _ _ _ HG s). Qed.
Lemma S_binary p prec s : onok p -> J s -> rp nok (k_binary self p prec s).
Proof. exact (r_binary _ _ _ _ _ _ _ _ _ HG p prec s). Qed.
Lemma S_litvalue s : J s -> rp nok (k_litvalue self s). Proof. exact (r_litvalue _ _ _ _ _ _ _ _ _ HG s). Qed.
Lemma S_block s : J s -> rp nok (k_block self s). Proof. exact (r_block _ _ _ _ _ _ _ _ _ HG s). Qed.
Lemma S_stmt s : J s -> rp nok (k_stmt self s). Proof. exact (r_stmt _ _ _ _ _ _ _ _ _ HG s). Qed.
Lemma S_if s : J s -> rp nok (k_if self s). Proof. exact (r_if _ _ _ _ _ _ _ _ _ HG s). Qed.
Local Hint Resolve S_type S_type_or_none S_expr S_unary S_binary S_litvalue S_block S_stmt S_if
  : epos.

Lemma L_parse_next_level_expr s : J s -> rp nok (parse_next_level_expr self s).
Proof.
  intros H. unfold parse_next_level_expr.
  eapply rp_bind; [ call_solve | intros x s1 _ H1 ].
  eapply rp_res_match with (V1 := nok); [ auto with epos | intros; rsteps .. ].
Qed.
Local Hint Resolve L_parse_next_level_expr : epos.

Lemma L_comma_list_loop (item : pstate -> res nodeT) (Hitem : forall s, J s -> rp nok (item s)) :
  forall fuel acc s, lnok acc -> J s -> rp lnok (comma_list_loop OPS fuel item acc s).
Proof. rloop comma_list_loop fuel. Qed.
Local Hint Resolve L_comma_list_loop : epos.

Lemma L_expression_list s : J s -> rp lnok (expression_list OPS self s).
Proof. rprod expression_list. Qed.
Local Hint Resolve L_expression_list : epos.

Lemma L_parse_type_list s : J s -> rp lnok (parse_type_list OPS self s).
Proof. rprod parse_type_list. Qed.
Local Hint Resolve L_parse_type_list : epos.

Lemma L_type_list_loop : forall fuel acc s,
  lnok acc -> J s -> rp lnok (type_list_loop OPS self fuel acc s).
Proof. rloop type_list_loop fuel. Qed.
Local Hint Resolve L_type_list_loop : epos.

Lemma L_type_list strict s : J s -> rp (fun x => nok (fst x)) (type_list OPS self strict s).
Proof. rprod type_list. Qed.
Local Hint Resolve L_type_list : epos.

Lemma L_type_instance (left : nodeT) s : nok left -> J s -> rp nok (type_instance OPS self left s).
Proof. rprod type_instance. Qed.
Local Hint Resolve L_type_instance : epos.

Lemma L_qualified_ident (name : option nodeT) s :
  onok name -> J s -> rp nok (qualified_ident OPS self name s).
Proof. rprod qualified_ident. Qed.
Local Hint Resolve L_qualified_ident : epos.

Lemma L_parse_type_term s : J s -> rp nok (parse_type_term OPS self s).
Proof. rprod parse_type_term. Qed.
Local Hint Resolve L_parse_type_term : epos.

Lemma L_type_elem_loop : forall fuel typ s,
  nok typ -> J s -> rp nok (type_elem_loop OPS self fuel typ s).
Proof. rloop type_elem_loop fuel. Qed.
Local Hint Resolve L_type_elem_loop : epos.

Lemma L_parse_type_elem s : J s -> rp nok (parse_type_elem OPS self s).
Proof. rprod parse_type_elem. Qed.
Local Hint Resolve L_parse_type_elem : epos.

Lemma L_array_len s : J s -> rp nok (array_len OPS self s).
Proof. rprod array_len. Qed.
Local Hint Resolve L_array_len : epos.

Lemma L_array_or_typeargs s : J s -> rp nok (array_or_typeargs OPS self s).
Proof. rprod array_or_typeargs. Qed.
Local Hint Resolve L_array_or_typeargs : epos.

Lemma L_ellipsis_type s : J s -> rp nok (ellipsis_type OPS self s).
Proof. rprod ellipsis_type. Qed.
Local Hint Resolve L_ellipsis_type : epos.

Lemma L_param_decl_loop : forall fuel ewc ids s,
  lnok ids -> J s -> rp lnok (param_decl_loop OPS self fuel ewc ids s).
Proof. rloop param_decl_loop fuel. Qed.
Local Hint Resolve L_param_decl_loop : epos.

Lemma L_parse_parameter_decl s : J s -> rp lnok (parse_parameter_decl OPS self s).
Proof. rprod parse_parameter_decl. Qed.
Local Hint Resolve L_parse_parameter_decl : epos.

Lemma L_params_loop : forall fuel close acc s,
  lnok acc -> J s -> rp lnok (params_loop OPS self fuel close acc s).
Proof. rloop params_loop fuel. Qed.
Local Hint Resolve L_params_loop : epos.

Lemma L_params_list open close s : J s -> rp nok (params_list OPS self open close s).
Proof. rprod params_list. Qed.
Local Hint Resolve L_params_list : epos.

Lemma L_parameters s : J s -> rp nok (parameters OPS self s).
Proof. rprod parameters. Qed.
Local Hint Resolve L_parameters : epos.

Lemma L_type_parameters s : J s -> rp nok (type_parameters OPS self s).
Proof. rprod type_parameters. Qed.
Local Hint Resolve L_type_parameters : epos.

Lemma L_parse_result s : J s -> rp nok (parse_result OPS self s).
Proof. rprod parse_result. Qed.
Local Hint Resolve L_parse_result : epos.

Lemma L_signature s : J s -> rp (fun x => nok (fst x) /\ nok (snd x)) (signature OPS self s).
Proof. rprod signature. Qed.
Local Hint Resolve L_signature : epos.

Lemma L_func_type s : J s -> rp nok (func_type OPS self s).
Proof. rprod func_type. Qed.
Local Hint Resolve L_func_type : epos.

Lemma L_type_params_loop : forall fuel acc s,
  lnok acc -> J s -> rp lnok (type_params_loop OPS self fuel acc s).
Proof. rloop type_params_loop fuel. Qed.
Local Hint Resolve L_type_params_loop : epos.

Lemma L_parse_type_parameters s : J s -> rp nok (parse_type_parameters OPS self s).
Proof. rprod parse_type_parameters. Qed.
Local Hint Resolve L_parse_type_parameters : epos.

Lemma L_field_decl s : J s -> rp nok (field_decl OPS self s).
Proof. rprod field_decl. Qed.
Local Hint Resolve L_field_decl : epos.

Lemma L_struct_loop : forall fuel acc s,
  lnok acc -> J s -> rp lnok (struct_loop OPS self fuel acc s).
Proof. rloop struct_loop fuel. Qed.
Local Hint Resolve L_struct_loop : epos.

Lemma L_struct_type s : J s -> rp nok (struct_type OPS self s).
Proof. rprod struct_type. Qed.
Local Hint Resolve L_struct_type : epos.

Lemma L_parse_method_elem s : J s -> rp nok (parse_method_elem OPS self s).
Proof. rprod parse_method_elem. Qed.
Local Hint Resolve L_parse_method_elem : epos.

(* the loop of parse_interface_type continues from the state an error of
   parse_method_elem left behind -- through goback, which re-establishes the
   state invariant from the mark; the dropped error needs no justification *)
Lemma L_interface_loop : forall fuel acc s,
  lnok acc -> J s -> rp lnok (interface_loop OPS self fuel acc s).
Proof.
  induction fuel; intros acc s Hacc H; [ exact I | ].
  cbn [interface_loop]. cbv zeta.
  rstep1; [ rsteps | ].
  rstep1; [ | rsteps ].
  eapply rp_res_match with (V1 := nok);
    [ auto with epos | intros; rsteps | intros e s1 He H1; rsteps ].
Qed.
Local Hint Resolve L_interface_loop : epos.

Lemma L_parse_interface_type s : J s -> rp nok (parse_interface_type OPS self s).
Proof. rprod parse_interface_type. Qed.
Local Hint Resolve L_parse_interface_type : epos.

Lemma L_type_or_none_body s : J s -> rp onok (type_or_none_body OPS self s).
Proof.
  rprod type_or_none_body.
  - (* chan / chan<- *)
    cbn [ErrPosBase.onok]. unfold mk. apply nok_chan; eauto with eposv.
    destruct x0; [ intros _; eapply cur_is_op_at; eauto | intros HH; contradiction ].
  - (* <-chan *)
    cbn [ErrPosBase.onok]. unfold mk. apply nok_chan; eauto with eposv.
    intros _. apply V_expect_op. assumption.
Qed.
Local Hint Resolve L_type_or_none_body : epos.

Lemma L_type_body s : J s -> rp nok (type_body self s).
Proof. rprod type_body. Qed.
Local Hint Resolve L_type_body : epos.

Lemma L_parse_element_value s : J s -> rp nok (parse_element_value self s).
Proof. rprod parse_element_value. Qed.
Local Hint Resolve L_parse_element_value : epos.

Lemma L_parse_element s : J s -> rp nok (parse_element OPS self s).
Proof. rprod parse_element. Qed.
Local Hint Resolve L_parse_element : epos.

Lemma L_lit_value_loop : forall fuel acc s,
  lnok acc -> J s -> rp lnok (lit_value_loop OPS self fuel acc s).
Proof. rloop lit_value_loop fuel. Qed.
Local Hint Resolve L_lit_value_loop : epos.

Lemma L_lit_value_body s : J s -> rp nok (lit_value_body OPS self s).
Proof. rprod lit_value_body. Qed.
Local Hint Resolve L_lit_value_body : epos.

Lemma L_index_comma_loop : forall fuel acc s,
  Forall onok acc -> J s -> rp (Forall onok) (index_comma_loop OPS self fuel acc s).
Proof. rloop index_comma_loop fuel. Qed.
Local Hint Resolve L_index_comma_loop : epos.

Lemma L_parse_slice_index_or_type_inst s :
  J s -> rp (fun x => Forall onok (snd x)) (parse_slice_index_or_type_inst OPS self s).
Proof. rprod parse_slice_index_or_type_inst. Qed.
Local Hint Resolve L_parse_slice_index_or_type_inst : epos.

Lemma L_call_args_loop : forall fuel args ewc s,
  lnok args -> J s -> rp (fun x => lnok (fst x)) (call_args_loop OPS self fuel args ewc s).
Proof. rloop call_args_loop fuel. Qed.
Local Hint Resolve L_call_args_loop : epos.

Lemma L_primary_step (x : nodeT) s : nok x -> J s -> rp onok (primary_step OPS self x s).
Proof. rprod primary_step. Qed.
Local Hint Resolve L_primary_step : epos.

Lemma L_primary_loop : forall fuel x s, nok x -> J s -> rp nok (primary_loop OPS self fuel x s).
Proof. rloop primary_loop fuel. Qed.
Local Hint Resolve L_primary_loop : epos.

Lemma L_operand s : J s -> rp nok (operand OPS self s).
Proof. rprod operand. Qed.
Local Hint Resolve L_operand : epos.

Lemma L_primary_expression (p : option nodeT) s :
  onok p -> J s -> rp nok (primary_expression OPS self p s).
Proof. rprod primary_expression. Qed.
Local Hint Resolve L_primary_expression : epos.

Lemma reset_chan_arrow_use (s : pstate) a o (x : nodeT) :
  J s -> s_cur s = Some (a, TOperator o) -> classify_unary o = UCArrow ->
  nok x -> is_tag GTypeChannel x = true ->
  match reset_chan_arrow E a x with inl t => nok t | inr e => errok OPS whole term e end.
Proof.
  intros H Hc Ho Hx Ht. apply reset_chan_arrow_ok; [ exact Hx | | ].
  - unfold is_tag, tag_eqb in Ht. apply Nat.eqb_eq in Ht.
    destruct (n_tag x); try discriminate Ht; reflexivity.
  - destruct o; try discriminate Ho. eapply J_cur; eassumption.
Qed.

Lemma L_unary_body s : J s -> rp nok (unary_body OPS self s).
Proof.
  rprod unary_body.
  - pose proof (reset_chan_arrow_use _ _ _ _ H Heqo Hequ H0 Heqb) as Hr. rewrite Heqs2 in Hr. exact Hr.
  - pose proof (reset_chan_arrow_use _ _ _ _ H Heqo Hequ H0 Heqb) as Hr. rewrite Heqs2 in Hr. exact Hr.
Qed.
Local Hint Resolve L_unary_body : epos.

Lemma L_binary_loop : forall fuel prec x s,
  nok x -> J s -> rp nok (binary_loop OPS self fuel prec x s).
Proof. rloop binary_loop fuel. Qed.
Local Hint Resolve L_binary_loop : epos.

Lemma L_binary_body (p : option nodeT) prec s :
  onok p -> J s -> rp nok (binary_body OPS self p prec s).
Proof. rprod binary_body. Qed.
Local Hint Resolve L_binary_body : epos.

Lemma L_expr_body s : J s -> rp nok (expr_body self s).
Proof. rprod expr_body. Qed.

End StepA.

#[export] Hint Extern 1 (GoodR _ _ _ _) => eassumption : epos.
#[export] Hint Resolve S_type S_type_or_none S_expr S_unary S_binary S_litvalue S_block S_stmt S_if
  L_parse_next_level_expr L_comma_list_loop L_expression_list L_parse_type_list L_type_list_loop
  L_type_list L_type_instance L_qualified_ident L_parse_type_term L_type_elem_loop
  L_parse_type_elem L_array_len L_array_or_typeargs L_ellipsis_type L_param_decl_loop
  L_parse_parameter_decl L_params_loop L_params_list L_parameters L_type_parameters
  L_parse_result L_signature L_func_type L_type_params_loop L_parse_type_parameters
  L_field_decl L_struct_loop L_struct_type L_parse_method_elem L_interface_loop
  L_parse_interface_type L_type_or_none_body L_type_body L_parse_element_value L_parse_element
  L_lit_value_loop L_lit_value_body L_index_comma_loop L_parse_slice_index_or_type_inst
  L_call_args_loop L_primary_step L_primary_loop L_operand L_primary_expression L_unary_body
  L_binary_loop L_binary_body L_expr_body : epos.
