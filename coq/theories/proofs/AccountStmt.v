(* Token accounting, stage 2: statements. *)
From Coq Require Import List Bool Arith NArith Lia.
From GoSyn Require Import Token Tok Ast Core.
From GoSyn.proofs Require Import Lift AccountBase AccountExpr.
Import ListNotations.

Section Shapes.
Variables (A G D C E : Type).
Notation pstate := (Core.pstate A G D E).
Notation nodeT := (node A C).

Definition range_shape (r : nodeT) : Prop := exists p e, r = mk GRange [p] [] [e].

(* what parse_simple_stmt returns, as far as its callers look into it *)
Definition ss_shape (r : nodeT) : Prop :=
  (is_tag GExprStmt r = true -> exists e, r = mk GExprStmt [] [] [e]) /\
  (is_tag GAssign r = true ->
   exists pos op left right,
     r = mk GAssign [pos] [AOp op] [nlist left; nlist right] /\
     (Forall nr right \/ exists rr, right = [rr] /\ range_shape rr)).

End Shapes.
Arguments range_shape {A C}.
Arguments ss_shape {A C}.

Ltac ss_solve :=
  unfold ss_shape, range_shape; split; intros HH; try discriminate HH;
  try (eexists; reflexivity);
  try (do 4 eexists; split;
       [ reflexivity
       | first [ left; assumption
               | right; eexists; split; [ reflexivity | assumption ] ] ]).

Ltac pre_fin2 :=
  repeat match goal with
         | H : ss_shape ?y, E : is_tag GExprStmt ?y = true |- _ =>
             destruct (proj1 H E) as (? & ->); clear H
         end.
Ltac fix_up2 := pre_fin2; fix_up.

Section Step2.
Variables (A G D C E : Type) (OPS : ops A G D C).
Notation pstate := (Core.pstate A G D E).
Notation res := (Core.res A G D E).
Notation parsers := (Core.parsers A G D C E).
Notation nodeT := (node A C).
Notation SpecE := (Spec (A:=A) (G:=G) (D:=D) (E:=E)).
Notation SpecPE := (SpecP (A:=A) (G:=G) (D:=D) (E:=E)).

Variable self : parsers.
Hypothesis HG : GoodA self.

Lemma A_parse_range_expr : SpecE leaves [] range_shape (parse_range_expr OPS self).
Proof. aprod parse_range_expr. all: fix_up. all: unfold range_shape; eauto. Qed.
Local Hint Resolve A_parse_range_expr : acct.

Lemma A_parse_simple_stmt : SpecE leaves [] ss_shape (parse_simple_stmt OPS self).
Proof. aprod parse_simple_stmt. all: fix_up. all: try ss_solve. Qed.
Local Hint Resolve A_parse_simple_stmt : acct.


Lemma A_stmts_until_brace : forall fuel acc,
  SpecE leavesl (leavesl acc) anysh (stmts_until_brace self fuel acc).
Proof. aloop stmts_until_brace fuel. all: fix_up2. Qed.
Local Hint Resolve A_stmts_until_brace : acct.

Lemma A_block_body : SpecE leaves [] anysh (block_body OPS self).
Proof. aprod block_body. all: fix_up2. Qed.
Local Hint Resolve A_block_body : acct.

Lemma A_stmt_list_loop : forall fuel acc,
  SpecE leavesl (leavesl acc) anysh (stmt_list_loop self fuel acc).
Proof. aloop stmt_list_loop fuel. all: fix_up2. Qed.
Local Hint Resolve A_stmt_list_loop : acct.

Lemma A_parse_stmt_list : SpecE leavesl [] anysh (parse_stmt_list self).
Proof. aprod parse_stmt_list. all: fix_up2. Qed.
Local Hint Resolve A_parse_stmt_list : acct.

Lemma A_parse_go_defer is_go : SpecE leaves [] anysh (parse_go_defer OPS self is_go).
Proof. aprod parse_go_defer. all: fix_up2. Qed.
Local Hint Resolve A_parse_go_defer : acct.

Lemma A_parse_return_stmt : SpecE leaves [] anysh (parse_return_stmt OPS self).
Proof. aprod parse_return_stmt. all: fix_up2. Qed.
Local Hint Resolve A_parse_return_stmt : acct.

Lemma A_parse_branch_stmt key : SpecE (leaves (C:=C)) [] anysh (parse_branch_stmt OPS key).
Proof. aprod parse_branch_stmt. all: fix_up2. Qed.
Local Hint Resolve A_parse_branch_stmt : acct.

Lemma A_parse_if_header :
  SpecE (fun r => leaveso (fst r) ++ leaves (snd r)) [] anysh (parse_if_header OPS self).
Proof. aprod parse_if_header. all: fix_up2. Qed.
Local Hint Resolve A_parse_if_header : acct.

Lemma A_if_body : SpecE leaves [] anysh (if_body OPS self).
Proof. aprod if_body. all: fix_up2. Qed.
Local Hint Resolve A_if_body : acct.

Lemma A_case_block_loop : forall fuel ta acc,
  SpecE leavesl (leavesl acc) anysh (case_block_loop OPS self fuel ta acc).
Proof. aloop case_block_loop fuel. all: fix_up2. Qed.
Local Hint Resolve A_case_block_loop : acct.

Lemma A_parse_case_block ta : SpecE leaves [] anysh (parse_case_block OPS self ta).
Proof. aprod parse_case_block. all: fix_up2. Qed.
Local Hint Resolve A_parse_case_block : acct.

Lemma A_parse_switch_stmt : SpecE leaves [] anysh (parse_switch_stmt OPS self).
Proof. aprod parse_switch_stmt. all: fix_up2. Qed.
Local Hint Resolve A_parse_switch_stmt : acct.

Lemma A_parse_comm_stmt : SpecE leaves [] anysh (parse_comm_stmt OPS self).
Proof. aprod parse_comm_stmt. all: fix_up2. Qed.
Local Hint Resolve A_parse_comm_stmt : acct.

Lemma A_comm_block_loop : forall fuel acc,
  SpecE leavesl (leavesl acc) anysh (comm_block_loop OPS self fuel acc).
Proof. aloop comm_block_loop fuel. all: fix_up2. Qed.
Local Hint Resolve A_comm_block_loop : acct.

Lemma A_parse_select_stmt : SpecE leaves [] anysh (parse_select_stmt OPS self).
Proof. aprod parse_select_stmt. all: fix_up2. Qed.
Local Hint Resolve A_parse_select_stmt : acct.

Lemma A_parse_for_stmt : SpecE leaves [] anysh (parse_for_stmt OPS self).
Proof.
  aprod parse_for_stmt. all: fix_up2.
  unfold assign_is_range in E3. apply andb_prop in E3. destruct E3 as (Et & Er).
  destruct (proj2 Hsh Et) as (pos & op & left & right & -> & Hr).
  cbn in E4, E5, Er |- *. apply pop_last_inv in E5. subst right.
  destruct Hr as [Hall | (rr & Heq & (p & e & ->))].
  - apply Forall_app in Hall. destruct Hall as (_ & Hn). inversion Hn as [|? ? Hn1 Hn2]; subst.
    unfold nr in Hn1. congruence.
  - destruct l as [|? [|? ?]]; try discriminate Heq. injection Heq as ->.
    destruct left as [|a [|b [|c ?]]]; cbn; try discriminate E4;
      rewrite ?app_nil_r, <- ?app_assoc; reflexivity.
Qed.
Local Hint Resolve A_parse_for_stmt : acct.

End Step2.

#[export] Hint Resolve A_parse_range_expr A_parse_simple_stmt A_stmts_until_brace A_block_body A_stmt_list_loop A_parse_stmt_list A_parse_go_defer A_parse_return_stmt A_parse_branch_stmt A_parse_if_header A_if_body A_case_block_loop A_parse_case_block A_parse_switch_stmt A_parse_comm_stmt A_comm_block_loop A_parse_select_stmt A_parse_for_stmt : acct.
