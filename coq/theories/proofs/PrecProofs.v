(* Proofs for C04 (operator precedence and associativity). *)
From Coq Require Import List Arith NArith Lia Bool.
From GoSyn Require Import Token Tok Ast Core.
From GoSyn.spec Require Import Prec.
Import ListNotations.

(* ------------------------------------------------------------ 1. the table *)

Lemma table_prec_spec : forall o, table_prec o = spec_prec o.
Proof. intro o; destruct o; reflexivity. Qed.

Lemma prec_table_spec : forall o, N.of_nat (prec_nat o) = spec_prec o.
Proof. intro o; destruct o; reflexivity. Qed.

Lemma prec_nat_level : forall o, prec_nat o = level o.
Proof. intro o; destruct o; reflexivity. Qed.

Lemma level_table : forall o,
  level o = 5 /\ In o [OStar; OQuo; ORem; OShl; OShr; OAnd; OAndNot] \/
  level o = 4 /\ In o [OAdd; OSub; OOr; OXor] \/
  level o = 3 /\ In o [OEqual; ONotEqual; OLess; OLessEqual; OGreater; OGreaterEqual] \/
  level o = 2 /\ o = OAndAnd \/
  level o = 1 /\ o = OOrOr \/
  level o = 0 /\ ~ In o (map fst spec_table).
Proof.
  intro o; destruct o; simpl;
    try (left; split; [reflexivity | tauto]);
    try (right; left; split; [reflexivity | tauto]);
    try (right; right; left; split; [reflexivity | tauto]);
    try (right; right; right; left; split; reflexivity);
    try (right; right; right; right; left; split; reflexivity);
    (right; right; right; right; right; split; [reflexivity |]);
    intro H; repeat (destruct H as [H | H]; [discriminate H |]); exact H.
Qed.

Lemma level_le_5 : forall o, level o <= 5.
Proof. intro o; destruct o; vm_compute; repeat constructor. Qed.

(* ------------------------------------------------------------ 2. uniqueness *)

Section Unique.
Variables (A C : Type).
Notation bexpT := (bexp A C).
Notation itemT := (item A C).

Definition ops_ge (p : nat) (l : list itemT) : Prop :=
  forall pos op, In (IOp pos op) l -> p <= level op.

Lemma tighter_at_least : forall p (t : bexpT), tighter_than p t <-> at_least (S p) t.
Proof. intros p t; destruct t; simpl; [tauto | lia]. Qed.

Lemma at_least_weaken : forall p q (t : bexpT), q <= p -> at_least p t -> at_least q t.
Proof. intros p q t Hqp; destruct t; simpl; [tauto | lia]. Qed.

Lemma wf_at_least : forall (t : bexpT) p, PrecWF t -> at_least p t -> ops_ge p (flat t).
Proof.
  induction t as [n | pos op l IHl r IHr]; intros p Hwf Hal pos' op' Hin; simpl in *.
  - destruct Hin as [Hin | []]; discriminate Hin.
  - destruct Hwf as (Hb & Hl & Hr & Hwl & Hwr).
    apply in_app_or in Hin. destruct Hin as [Hin | [Hin | Hin]].
    + specialize (IHl (level op) Hwl Hl pos' op' Hin). lia.
    + injection Hin as _ Heq; subst op'; exact Hal.
    + apply tighter_at_least in Hr.
      specialize (IHr (S (level op)) Hwr Hr pos' op' Hin). lia.
Qed.

Lemma wf_tighter : forall (t : bexpT) p, PrecWF t -> tighter_than p t -> ops_ge (S p) (flat t).
Proof. intros t p Hwf Ht; apply wf_at_least; [exact Hwf | apply tighter_at_least; exact Ht]. Qed.

Lemma flat_head : forall t : bexpT, exists x rest, flat t = IOperand x :: rest.
Proof.
  induction t as [n | pos op l IHl r IHr]; simpl.
  - exists n, []; reflexivity.
  - destruct IHl as (x & rest & Hx). rewrite Hx. exists x, (rest ++ IOp pos op :: flat r).
    reflexivity.
Qed.

Lemma app_cons_split : forall (X : Type) (l1 l2 r1 r2 : list X) (a b : X),
  l1 ++ a :: r1 = l2 ++ b :: r2 ->
  (l1 = l2 /\ a = b /\ r1 = r2) \/
  (exists m, l2 = l1 ++ a :: m /\ r1 = m ++ b :: r2) \/
  (exists m, l1 = l2 ++ b :: m /\ r2 = m ++ a :: r1).
Proof.
  intros X; induction l1 as [| x l1 IH]; intros l2 r1 r2 a b Heq.
  - destruct l2 as [| y l2]; simpl in Heq.
    + injection Heq as Hab Hr; left; auto.
    + injection Heq as Hay Hr. subst y. right; left. exists l2; split; [reflexivity | exact Hr].
  - destruct l2 as [| y l2]; simpl in Heq.
    + injection Heq as Hxb Hr. subst x. right; right. exists l1; split; [reflexivity | ].
      symmetry; exact Hr.
    + injection Heq as Hxy Hr. subst y.
      destruct (IH l2 r1 r2 a b Hr) as [(H1 & H2 & H3) | [(m & H1 & H2) | (m & H1 & H2)]].
      * left; subst; auto.
      * right; left; exists m; subst; auto.
      * right; right; exists m; subst; auto.
Qed.

(* the grouping the spec dictates is unique *)
Theorem PrecWF_unique : forall t1 t2 : bexpT,
  PrecWF t1 -> PrecWF t2 -> flat t1 = flat t2 -> t1 = t2.
Proof.
  induction t1 as [n1 | pos1 op1 l1 IHl r1 IHr]; intros t2 Hw1 Hw2 Hf.
  - destruct t2 as [n2 | pos2 op2 l2 r2]; simpl in Hf.
    + injection Hf as Hn; subst; reflexivity.
    + destruct (flat_head l2) as (x & rest & Hx). rewrite Hx in Hf. simpl in Hf.
      injection Hf as _ Hnil. apply app_cons_not_nil in Hnil. destruct Hnil.
  - destruct t2 as [n2 | pos2 op2 l2 r2]; simpl in Hf.
    + destruct (flat_head l1) as (x & rest & Hx). rewrite Hx in Hf. simpl in Hf.
      injection Hf as _ Hnil. symmetry in Hnil. apply app_cons_not_nil in Hnil. destruct Hnil.
    + simpl in Hw1, Hw2.
      destruct Hw1 as (Hb1 & Hl1 & Hr1 & Hwl1 & Hwr1).
      destruct Hw2 as (Hb2 & Hl2 & Hr2 & Hwl2 & Hwr2).
      pose proof (wf_at_least l1 _ Hwl1 Hl1) as Gl1.
      pose proof (wf_tighter r1 _ Hwr1 Hr1) as Gr1.
      pose proof (wf_at_least l2 _ Hwl2 Hl2) as Gl2.
      pose proof (wf_tighter r2 _ Hwr2 Hr2) as Gr2.
      destruct (app_cons_split _ _ _ _ _ _ _ Hf)
        as [(H1 & H2 & H3) | [(m & H1 & H2) | (m & H1 & H2)]].
      * injection H2 as Hp Ho. subst pos2 op2.
        rewrite (IHl l2 Hwl1 Hwl2 H1), (IHr r2 Hwr1 Hwr2 H3). reflexivity.
      * (* op1 sits inside l2, op2 inside r1 *)
        assert (Ha : level op2 <= level op1).
        { apply (Gl2 pos1 op1). rewrite H1. apply in_or_app; right; left; reflexivity. }
        assert (Hb : S (level op1) <= level op2).
        { apply (Gr1 pos2 op2). rewrite H2. apply in_or_app; right; left; reflexivity. }
        lia.
      * assert (Ha : level op1 <= level op2).
        { apply (Gl1 pos2 op2). rewrite H1. apply in_or_app; right; left; reflexivity. }
        assert (Hb : S (level op2) <= level op1).
        { apply (Gr2 pos1 op1). rewrite H2. apply in_or_app; right; left; reflexivity. }
        lia.
Qed.

(* decidable form of PrecWF, for checking computed trees *)
Definition tighter_b (p : nat) (t : bexpT) : bool :=
  match t with Atom _ => true | Bin _ op _ _ => p <? level op end.
Definition at_least_b (p : nat) (t : bexpT) : bool :=
  match t with Atom _ => true | Bin _ op _ _ => p <=? level op end.
Fixpoint precwf_b (t : bexpT) : bool :=
  match t with
  | Atom _ => true
  | Bin _ op l r =>
      (1 <=? level op) && at_least_b (level op) l && tighter_b (level op) r &&
      precwf_b l && precwf_b r
  end.

Lemma precwf_b_sound : forall t, precwf_b t = true -> PrecWF t.
Proof.
  induction t as [n | pos op l IHl r IHr]; simpl; intro H; [exact I |].
  repeat (apply andb_prop in H; destruct H as [H ?]).
  unfold is_binary_op. repeat split.
  - apply Nat.leb_le; assumption.
  - destruct l; simpl in *; [exact I | apply Nat.leb_le; assumption].
  - destruct r; simpl in *; [exact I | apply Nat.ltb_lt; assumption].
  - apply IHl; assumption.
  - apply IHr; assumption.
Qed.

Lemma precwf_b_complete : forall t, PrecWF t -> precwf_b t = true.
Proof.
  induction t as [n | pos op l IHl r IHr]; simpl; intro H; [reflexivity |].
  destruct H as (Hb & Hl & Hr & Hwl & Hwr). unfold is_binary_op in Hb.
  rewrite (IHl Hwl), (IHr Hwr), !andb_true_r.
  apply andb_true_intro; split; [apply andb_true_intro; split |].
  - apply (proj2 (Nat.leb_le 1 (level op))); exact Hb.
  - destruct l as [| pl ol ll rl]; [reflexivity | apply (proj2 (Nat.leb_le (level op) (level ol))); exact Hl].
  - destruct r as [| pr or lr rr]; [reflexivity | apply (proj2 (Nat.ltb_lt (level op) (level or))); exact Hr].
Qed.

End Unique.

Arguments precwf_b {A C}.

(* ------------------------------------------------------------ 2b. parentheses on trees *)

Section ParenTrees.
Variables (A C : Type).
Notation bexpT := (bexp A C).

Lemma paren_at_at_least : forall path p0 p1 q (t : bexpT),
  at_least q t -> at_least q (paren_at path p0 p1 t).
Proof.
  intros path p0 p1 q t H. destruct path as [| b path]; [exact I |].
  destruct t as [n | pos op l r]; destruct b; simpl; first [exact I | exact H].
Qed.

Lemma paren_at_tighter : forall path p0 p1 q (t : bexpT),
  tighter_than q t -> tighter_than q (paren_at path p0 p1 t).
Proof.
  intros path p0 p1 q t H. destruct path as [| b path]; [exact I |].
  destruct t as [n | pos op l r]; destruct b; simpl; first [exact I | exact H].
Qed.

(* parenthesising a group the spec forms anyway leaves a spec grouping *)
Lemma paren_at_wf : forall path p0 p1 (t : bexpT),
  PrecWF t -> PrecWF (paren_at path p0 p1 t).
Proof.
  induction path as [| b path IH]; intros p0 p1 t Hwf; [exact I |].
  destruct t as [n | pos op l r]; [destruct b; exact I |].
  destruct Hwf as (Hb & Hl & Hr & Hwl & Hwr).
  destruct b; simpl.
  - split; [exact Hb |]. split; [exact Hl |].
    split; [apply paren_at_tighter; exact Hr |]. split; [exact Hwl | apply IH; exact Hwr].
  - split; [exact Hb |]. split; [apply paren_at_at_least; exact Hl |].
    split; [exact Hr |]. split; [apply IH; exact Hwl | exact Hwr].
Qed.

(* ... and is the same tree once parentheses are forgotten *)
Lemma paren_at_strip : forall path p0 p1 (t : bexpT),
  strip_parens (to_node (paren_at path p0 p1 t)) = strip_parens (to_node t).
Proof.
  induction path as [| b path IH]; intros p0 p1 t; [reflexivity |].
  destruct t as [n | pos op l r]; [destruct b; reflexivity |].
  destruct b; simpl; rewrite IH; reflexivity.
Qed.

Theorem paren_at_unique : forall path p0 p1 (t t' : bexpT),
  PrecWF t -> PrecWF t' -> flat t' = flat (paren_at path p0 p1 t) ->
  t' = paren_at path p0 p1 t /\
  strip_parens (to_node t') = strip_parens (to_node t).
Proof.
  intros path p0 p1 t t' Hw Hw' Hf.
  assert (Heq : t' = paren_at path p0 p1 t).
  { apply PrecWF_unique; [exact Hw' | apply paren_at_wf; exact Hw | exact Hf]. }
  split; [exact Heq |]. rewrite Heq. apply paren_at_strip.
Qed.

End ParenTrees.

(* ------------------------------------------------------------ 3. soundness of the climbing loop *)

Section Sound.
Variables (A G D C E : Type).
Variable OPS : ops A G D C.
Notation nodeT := (node A C).
Notation pstateT := (pstate A G D E).
Notation bexpT := (bexp A C).
Notation itemT := (item A C).
Notation resT := (res A G D E).
Notation parsersT := (parsers A G D C E).
Notation cur := (s_cur A G D E).
Notation nextT := (next A G D C E OPS).

(* Parser.depth bookkeeping around a production *)
Lemma nested_ok : forall (X : Type) site (f : pstateT -> resT X) s x s',
  nested A G D E site f s = Ok x s' ->
  exists s2,
    f (upd_depth A G D E s (S (s_depth A G D E s))) = Ok x s2 /\
    s' = upd_depth A G D E s2 (pred (s_depth A G D E s2)).
Proof.
  intros X site f s x s' H. unfold nested in H. cbv zeta in H.
  destruct (S MAX_NESTING <=? s_depth A G D E (upd_depth A G D E s (S (s_depth A G D E s))));
    [discriminate H |].
  destruct (f (upd_depth A G D E s (S (s_depth A G D E s)))) as [y s2 | e s2 | k |];
    try discriminate H.
  injection H as Hx Hs. subst y s'. exists s2. split; reflexivity.
Qed.

Section Step.
Variable U : pstateT -> nodeT -> pstateT -> Prop.
Notation TraceU := (Trace OPS U).

Lemma Trace_app : forall s l1 s1 l2 s2,
  TraceU s l1 s1 -> TraceU s1 l2 s2 -> TraceU s (l1 ++ l2) s2.
Proof.
  intros s l1 s1 l2 s2 H1; induction H1 as [s | s x sa l s' Hu Ht IH | s pos op sa l s' Hc Hn Ht IH];
    intro H2; simpl.
  - exact H2.
  - eapply Tr_operand; [exact Hu | apply IH; exact H2].
  - eapply Tr_op; [exact Hc | exact Hn | apply IH; exact H2].
Qed.

Variable self : parsersT.
Hypothesis self_unary : forall s x s',
  k_unary A G D C E self s = Ok x s' -> U s x s'.
Hypothesis self_binary : forall p s n s',
  k_binary A G D C E self None p s = Ok n s' -> BinOK OPS U p s n s'.

(* the loop: x stands for the tree built so far *)
Lemma binary_loop_sound : forall fuel prec (tx : bexpT) x s n s',
  x = to_node tx -> PrecWF tx -> tighter_than prec tx ->
  (forall pos op, cur s = Some (pos, TOperator op) -> at_least (level op) tx) ->
  binary_loop A G D C E OPS self fuel prec x s = Ok n s' ->
  exists (t : bexpT) (ext : list itemT),
    n = to_node t /\ PrecWF t /\ tighter_than prec t /\ stops prec s' /\
    flat t = flat tx ++ ext /\ TraceU s ext s'.
Proof.
  induction fuel as [| f IH]; intros prec tx x s n s' Hx Hwf Htt Hroot Hrun; simpl in Hrun.
  - discriminate Hrun.
  - assert (Hdone : Ok x s = Ok n s' -> (forall pos op, cur s = Some (pos, TOperator op) -> level op <= prec) ->
                    exists (t : bexpT) (ext : list itemT),
                      n = to_node t /\ PrecWF t /\ tighter_than prec t /\ stops prec s' /\
                      flat t = flat tx ++ ext /\ TraceU s ext s').
    { intros Heq Hst. injection Heq as Hn Hs. subst n s'. exists tx, [].
      rewrite app_nil_r. repeat split; try assumption. constructor. }
    destruct (cur s) as [[pos tok] |] eqn:Hc;
      [destruct tok as [txt | kw | op | lk txt] |];
      try (apply Hdone; [exact Hrun | intros pos' op' Hc'; discriminate Hc']).
    rewrite prec_nat_level in Hrun.
    destruct (prec <? level op) eqn:Hlt.
    + apply Nat.ltb_lt in Hlt.
      destruct (nextT s) as [[] s1 | e s1 | k |] eqn:Hn; simpl in Hrun; try discriminate Hrun.
      destruct (k_binary A G D C E self None (level op) s1) as [y s2 | e s2 | k |] eqn:Hk;
        simpl in Hrun; try discriminate Hrun.
      destruct (self_binary _ _ _ _ Hk) as (ty & Hy & Hwy & Hty & Hsy & Htr).
      assert (Hx' : n_operation A C pos op x (Some y) = to_node (Bin pos op tx ty)).
      { simpl. rewrite Hx, Hy. reflexivity. }
      destruct (IH prec (Bin pos op tx ty) _ s2 n s' Hx') as (t & ext & H1 & H2 & H3 & H4 & H5 & H6).
      * simpl. unfold is_binary_op. repeat split; try assumption.
        -- lia.
        -- apply (Hroot pos op); reflexivity.
      * simpl. exact Hlt.
      * intros pos2 op2 Hc2. simpl. apply (Hsy pos2 op2 Hc2).
      * exact Hrun.
      * exists t, (IOp pos op :: flat ty ++ ext). repeat split; try assumption.
        -- rewrite H5. simpl. rewrite <- !app_assoc. reflexivity.
        -- eapply Tr_op; [exact Hc | exact Hn |]. eapply Trace_app; [exact Htr | exact H6].
    + apply Nat.ltb_ge in Hlt. apply Hdone; [exact Hrun |].
      intros pos' op' Hc'. injection Hc' as _ Ho. subst op'. exact Hlt.
Qed.

(* binary_expression(None, p) *)
Theorem binary_body_sound : forall p s n s',
  binary_body A G D C E OPS self None p s = Ok n s' -> BinOK OPS U p s n s'.
Proof.
  intros p s n s' Hrun. unfold binary_body in Hrun.
  destruct (k_unary A G D C E self s) as [x s1 | e s1 | k |] eqn:Hu; unfold bind in Hrun;
    try discriminate Hrun.
  destruct (binary_loop_sound _ p (Atom x) x s1 n s' eq_refl I I (fun _ _ _ => I) Hrun)
    as (t & ext & H1 & H2 & H3 & H4 & H5 & H6).
  exists t. repeat split; try assumption.
  rewrite H5. simpl. eapply Tr_operand; [apply self_unary; exact Hu | exact H6].
Qed.

(* binary_expression(Some(x), p) *)
Theorem binary_body_sound_from : forall x p s n s',
  binary_body A G D C E OPS self (Some x) p s = Ok n s' -> BinOKFrom OPS U x p s n s'.
Proof.
  intros x p s n s' Hrun. unfold binary_body, bind in Hrun.
  destruct (binary_loop_sound _ p (Atom x) x s n s' eq_refl I I (fun _ _ _ => I) Hrun)
    as (t & ext & H1 & H2 & H3 & H4 & H5 & H6).
  exists t, ext. repeat split; assumption.
Qed.

(* 5. a unary operator's operand is a unary-expression: the result of k_unary,
   never of k_binary *)
Theorem unary_body_operator : forall s n s' pos op,
  cur s = Some (pos, TOperator op) -> classify_unary op <> UCNone ->
  unary_body A G D C E OPS self s = Ok n s' ->
  exists s1 x,
    nextT s = Ok tt s1 /\ k_unary A G D C E self s1 = Ok x s' /\
    match classify_unary op with
    | UCPlain => n = n_operation A C pos op x None
    | UCAnd => n = n_operation A C pos op x None
    | UCArrow =>
        if is_tag GTypeChannel x then reset_chan_arrow A C E pos x = inl n
        else n = n_operation A C pos op x None
    | UCNone => False
    end.
Proof.
  intros s n s' pos op Hc Hcl Hrun. unfold unary_body in Hrun. rewrite Hc in Hrun.
  destruct (classify_unary op) eqn:Hclass; try (exfalso; apply Hcl; reflexivity);
    (destruct (nextT s) as [[] s1 | e s1 | k |] eqn:Hn; simpl in Hrun; try discriminate Hrun;
     destruct (k_unary A G D C E self s1) as [x s2 | e s2 | k |] eqn:Hk; simpl in Hrun;
       try discriminate Hrun).
  - injection Hrun as Hn' Hs'. subst. exists s1, x. auto.
  - injection Hrun as Hn' Hs'. subst. exists s1, x. auto.
  - destruct (is_tag GTypeChannel x) eqn:Htag.
    + destruct (reset_chan_arrow A C E pos x) as [t | e] eqn:Hr; try discriminate Hrun.
      injection Hrun as Hn' Hs'. subst. exists s1, x. rewrite Htag. auto.
    + injection Hrun as Hn' Hs'. subst. exists s1, x. rewrite Htag. auto.
Qed.

(* a parenthesised operand: its content is a full expression (k_expr), one
   level deeper *)
Theorem operand_paren : forall s n s' pos,
  cur s = Some (pos, TOperator OParenLeft) ->
  operand A G D C E OPS self s = Ok n s' ->
  exists s1 s2 e s3 p1,
    nextT s = Ok tt s1 /\ inc_level A G D E s1 10 = Ok tt s2 /\
    k_expr A G D C E self s2 = Ok e s3 /\
    expect A G D C E OPS (KOp OParenRight) 69 (dec_level A G D E s3) = Ok p1 s' /\
    n = paren_node pos p1 e.
Proof.
  intros s n s' pos Hc Hrun. unfold operand in Hrun. rewrite Hc in Hrun.
  unfold cur_pos in Hrun. rewrite Hc in Hrun.
  destruct (nextT s) as [[] s1 | e s1 | k |] eqn:Hn; unfold bind at 1 in Hrun;
    try discriminate Hrun.
  unfold parse_next_level_expr in Hrun.
  destruct (inc_level A G D E s1 10) as [[] s2 | e s2 | k |] eqn:Hi; unfold bind at 2 in Hrun;
    try discriminate Hrun.
  destruct (k_expr A G D C E self s2) as [e s3 | er s3 | k |] eqn:He; unfold bind at 1 in Hrun;
    try discriminate Hrun.
  destruct (expect A G D C E OPS (KOp OParenRight) 69 (dec_level A G D E s3))
    as [p1 s4 | er s4 | k |] eqn:Hx; unfold bind in Hrun; try discriminate Hrun.
  injection Hrun as Hn' Hs'. subst n s'.
  exists s1, s2, e, s3, p1.
  repeat split; first [reflexivity | assumption].
Qed.

End Step.

(* ---------------------------------------------------------- closing the recursion *)

Notation PA := (parsers_at A G D C E OPS).
Notation UR := (unary_result OPS).

Theorem k_binary_sound : forall d p s n s',
  k_binary A G D C E (PA d) None p s = Ok n s' -> BinOK OPS UR p s n s'.
Proof.
  induction d as [| d IH]; intros p s n s' Hrun; simpl in Hrun.
  - discriminate Hrun.
  - apply (binary_body_sound UR (PA d)); [| exact IH | exact Hrun].
    intros s0 x s0' Hu. exists d. exact Hu.
Qed.

Theorem k_binary_sound_from : forall d x p s n s',
  k_binary A G D C E (PA d) (Some x) p s = Ok n s' -> BinOKFrom OPS UR x p s n s'.
Proof.
  intros d x p s n s' Hrun. destruct d as [| d]; simpl in Hrun.
  - discriminate Hrun.
  - apply (binary_body_sound_from UR (PA d)); [apply k_binary_sound | exact Hrun].
Qed.

Theorem k_expr_sound : forall d s n s',
  k_expr A G D C E (PA d) s = Ok n s' -> BinOK OPS UR 0 s n s'.
Proof.
  intros d s n s' Hrun. destruct d as [| d]; simpl in Hrun.
  - discriminate Hrun.
  - unfold expr_body in Hrun. apply (k_binary_sound d); exact Hrun.
Qed.

(* the tree returned is THE grouping of the consumed sequence that the spec dictates *)
Theorem k_expr_grouping : forall d s n s',
  k_expr A G D C E (PA d) s = Ok n s' ->
  exists t : bexpT,
    n = to_node t /\ PrecWF t /\ Trace OPS UR s (flat t) s' /\
    (forall pos op, cur s' = Some (pos, TOperator op) -> level op = 0) /\
    (forall t' : bexpT, PrecWF t' -> flat t' = flat t -> t' = t).
Proof.
  intros d s n s' Hrun. destruct (k_expr_sound d s n s' Hrun) as (t & H1 & H2 & H3 & H4 & H5).
  exists t. repeat split; try assumption.
  - intros pos op Hc. specialize (H4 pos op Hc). lia.
  - intros t' Hw Hf. apply PrecWF_unique; assumption.
Qed.

Theorem entry_expression_sound : forall d s n s',
  entry_expression A G D C E OPS (PA d) s = Ok n s' ->
  exists s0, ensure_started A G D C E OPS s = Ok tt s0 /\ BinOK OPS UR 0 s0 n s'.
Proof.
  intros d s n s' Hrun. unfold entry_expression in Hrun.
  destruct (ensure_started A G D C E OPS s) as [[] s0 | e s0 | k |] eqn:He; simpl in Hrun;
    try discriminate Hrun.
  exists s0. split; [reflexivity | apply (k_expr_sound d); exact Hrun].
Qed.

(* unary operators bind tighter than any binary operator: when an expression
   starts with a (plain) unary operator, the operator's node is the FIRST
   OPERAND of the binary tree; its own operand x is a unary-expression, and all
   binary operators of the expression come after it, outside it *)
Theorem unary_binds_tighter : forall d p s n s' pos op,
  k_binary A G D C E (PA d) None p s = Ok n s' ->
  cur s = Some (pos, TOperator op) -> classify_unary op = UCPlain ->
  exists (t : bexpT) x s1 s2 rest,
    n = to_node t /\ PrecWF t /\
    nextT (upd_depth A G D E s (S (s_depth A G D E s))) = Ok tt s1 /\ UR s1 x s2 /\
    flat t = IOperand (n_operation A C pos op x None) :: rest /\
    Trace OPS UR (upd_depth A G D E s2 (pred (s_depth A G D E s2))) rest s'.
Proof.
  intros d p s n s' pos op Hrun Hc Hcl.
  destruct (k_binary_sound d p s n s' Hrun) as (t & H1 & H2 & H3 & H4 & H5).
  destruct (flat_head A C t) as (x0 & rest & Hf). rewrite Hf in H5.
  inversion H5 as [| sa xa sb la sc Hu Ht |]; subst.
  destruct Hu as (du & Hu). destruct du as [| du]; [discriminate Hu |].
  change (k_unary A G D C E (PA (S du)) s)
    with (nested A G D E 141 (unary_body A G D C E OPS (PA du)) s) in Hu.
  destruct (nested_ok _ _ _ _ _ _ Hu) as (s2 & Hb & Hsb). subst sb.
  assert (Hne : classify_unary op <> UCNone) by (rewrite Hcl; discriminate).
  assert (Hc' : cur (upd_depth A G D E s (S (s_depth A G D E s))) = Some (pos, TOperator op))
    by exact Hc.
  destruct (unary_body_operator (PA du) _ x0 s2 pos op Hc' Hne Hb) as (s1 & x & Hn & Hk & Hm).
  rewrite Hcl in Hm. subst x0.
  exists t, x, s1, s2, rest. repeat split; try assumption. exists du; exact Hk.
Qed.

(* inside parentheses the same spec grouping applies, from level 0 *)
Theorem paren_content_grouped : forall d s n s' pos,
  cur s = Some (pos, TOperator OParenLeft) ->
  operand A G D C E OPS (PA d) s = Ok n s' ->
  exists e p1 (s2 s3 : pstateT), n = paren_node pos p1 e /\ BinOK OPS UR 0 s2 e s3.
Proof.
  intros d s n s' pos Hc Hrun.
  destruct (operand_paren (PA d) s n s' pos Hc Hrun)
    as (s1 & s2 & e & s3 & p1 & H1 & H2 & H3 & H4 & H5).
  exists e, p1, s2, s3. split; [exact H5 | apply (k_expr_sound d); exact H3].
Qed.

(* redundant parentheses: if what was consumed is a spec-grouped expression t
   in which one group (the subtree at path) stands in parentheses, the result
   is t with a Paren node around that group, and t once parentheses are
   forgotten *)
Theorem parens_redundant : forall d s n s',
  k_expr A G D C E (PA d) s = Ok n s' ->
  exists t' : bexpT,
    n = to_node t' /\ PrecWF t' /\ Trace OPS UR s (flat t') s' /\
    forall (t : bexpT) path p0 p1,
      PrecWF t -> flat t' = flat (paren_at path p0 p1 t) ->
      n = to_node (paren_at path p0 p1 t) /\
      strip_parens n = strip_parens (to_node t).
Proof.
  intros d s n s' Hrun. destruct (k_expr_sound d s n s' Hrun) as (t' & H1 & H2 & H3 & H4 & H5).
  exists t'. split; [exact H1 |]. split; [exact H2 |]. split; [exact H5 |].
  intros t path p0 p1 Hw Hf.
  destruct (paren_at_unique A C path p0 p1 t t' Hw H2 Hf) as (Ha & Hb).
  rewrite H1. split; [rewrite Ha; reflexivity | exact Hb].
Qed.

End Sound.

(* ------------------------------------------------------------ 4. a closed family: completeness
   on  x0 op1 x1 ... opn xn <EOF>  for the real parser, no hypotheses *)

Section Closed.
Variables (A G D C E : Type).
Variable OPS : ops A G D C.
Notation nodeT := (node A C).
Notation pstateT := (pstate A G D E).
Notation bexpT := (bexp A C).
Notation itemT := (item A C).
Notation selemT := (selem A G).
Notation parsersT := (parsers A G D C E).
Notation cur := (s_cur A G D E).
Notation rest := (s_rest A G D E).
Notation depth := (s_depth A G D E).
Notation nextT := (next A G D C E OPS).
Notation PA := (parsers_at A G D C E OPS).

Definition cur_of (l : list selemT) : option (A * token) :=
  match l with SE a0 _ t _ :: _ => Some (a0, t) | [] => None end.

(* the parser stands at the first element of l, and l is all that is left *)
Definition at_stream (s : pstateT) (l : list selemT) : Prop :=
  cur s = cur_of l /\ rest s = tl l /\ exists a g, s_term A G D E s = TEof a g.

Lemma next_at_stream : forall s l,
  rest s = l -> (exists a g, s_term A G D E s = TEof a g) ->
  exists s1, nextT s = Ok tt s1 /\ at_stream s1 l /\ depth s1 = depth s.
Proof.
  intros s l Hr (a & g & Ht). unfold next. rewrite Hr.
  destruct l as [| [b0 b1 t h] l'].
  - rewrite Ht. eexists; split; [reflexivity |]. split; [| reflexivity].
    unfold at_stream; simpl. repeat split. exists a, g; reflexivity.
  - eexists; split; [reflexivity |]. split; [| reflexivity].
    unfold at_stream; simpl. repeat split. exists a, g; exact Ht.
Qed.

Lemma items_of_app : forall l1 l2 : list selemT,
  items_of (C := C) (l1 ++ l2) = items_of l1 ++ items_of l2.
Proof. intros l1 l2; unfold items_of; apply flat_map_app. Qed.

(* an identifier followed by a binary operator or the end of input is a
   complete unary-expression, at any depth *)
Lemma unary_ident : forall (self : parsersT) s a0 a1 name g r,
  op_ident_tail r -> at_stream s (SE a0 a1 (TLiteral LIdent name) g :: r) ->
  exists s1, unary_body A G D C E OPS self s = Ok (n_ident A C a0 name) s1 /\ at_stream s1 r /\
             depth s1 = depth s.
Proof.
  intros self s a0 a1 name g r Htail (Hc & Hr & Ht). simpl in Hc, Hr.
  assert (Ht0 : exists a g, s_term A G D E (upd_cur A G D E s None) = TEof a g) by exact Ht.
  destruct (next_at_stream (upd_cur A G D E s None) r Hr Ht0) as (s1 & Hn & Hat & Hdep).
  exists s1; split; [| split; [exact Hat | exact Hdep]].
  unfold unary_body. rewrite Hc.
  unfold primary_expression, operand. rewrite Hc.
  unfold identifier. rewrite Hc, Hn. unfold bind.
  unfold loop_fuel. cbn [primary_loop].
  assert (Hstep : primary_step A G D C E OPS self (n_ident A C a0 name) s1 = Ok None s1).
  { unfold primary_step. destruct Hat as (Hc1 & _). rewrite Hc1.
    destruct Htail as [| b0 b1 op h c0 c1 nm h2 r2 Hop Htl]; simpl; [reflexivity |].
    unfold is_binary_op in Hop.
    destruct op; try reflexivity; vm_compute in Hop; lia. }
  rewrite Hstep. reflexivity.
Qed.

(* ... through the depth guard of the closed parser: it cannot fire below MAX_NESTING *)
Lemma k_unary_ident : forall d s a0 a1 name g r,
  op_ident_tail r -> at_stream s (SE a0 a1 (TLiteral LIdent name) g :: r) ->
  depth s < MAX_NESTING ->
  exists s1, k_unary A G D C E (PA (S d)) s = Ok (n_ident A C a0 name) s1 /\ at_stream s1 r /\
             depth s1 = depth s.
Proof.
  intros d s a0 a1 name g r Htail Hat Hdep.
  change (k_unary A G D C E (PA (S d)) s)
    with (nested A G D E 141 (unary_body A G D C E OPS (PA d)) s).
  unfold nested. cbv zeta.
  change (depth (upd_depth A G D E s (S (depth s)))) with (S (depth s)).
  destruct (S MAX_NESTING <=? S (depth s)) eqn:Hg; [apply Nat.leb_le in Hg; lia |].
  assert (Hat' : at_stream (upd_depth A G D E s (S (depth s)))
                           (SE a0 a1 (TLiteral LIdent name) g :: r)) by exact Hat.
  destruct (unary_ident (PA d) _ a0 a1 name g r Htail Hat') as (s1 & Hu & Hat1 & Hd1).
  rewrite Hu. eexists; split; [reflexivity |].
  change (depth (upd_depth A G D E s (S (depth s)))) with (S (depth s)) in Hd1.
  split; [exact Hat1 |]. cbn [s_depth upd_depth]. rewrite Hd1. reflexivity.
Qed.

Section Loop.
Variable d : nat.
Hypothesis IHd : forall prec s a0 a1 name g r,
  op_ident_tail r -> at_stream s (SE a0 a1 (TLiteral LIdent name) g :: r) ->
  length r + 2 <= d -> depth s < MAX_NESTING ->
  exists (t : bexpT) s' consumed r',
    k_binary A G D C E (PA d) None prec s = Ok (to_node t) s' /\
    r = consumed ++ r' /\ op_ident_tail r' /\ at_stream s' r' /\
    flat t = IOperand (n_ident A C a0 name) :: items_of consumed /\
    PrecWF t /\ tighter_than prec t /\ stops prec s' /\ depth s' = depth s.

Lemma loop_complete : forall fuel prec (tx : bexpT) s r,
  op_ident_tail r -> at_stream s r -> length r + 1 <= fuel -> length r <= d ->
  depth s < MAX_NESTING ->
  PrecWF tx -> tighter_than prec tx ->
  (forall pos op, cur s = Some (pos, TOperator op) -> at_least (level op) tx) ->
  exists (t : bexpT) s' consumed r',
    binary_loop A G D C E OPS (PA d) fuel prec (to_node tx) s = Ok (to_node t) s' /\
    r = consumed ++ r' /\ op_ident_tail r' /\ at_stream s' r' /\
    flat t = flat tx ++ items_of consumed /\
    PrecWF t /\ tighter_than prec t /\ stops prec s' /\ depth s' = depth s.
Proof.
  induction fuel as [| f IH]; intros prec tx s r Htail Hat Hfuel Hd Hdep Hwf Htt Hroot.
  - lia.
  - assert (Hdone : (forall pos op, cur s = Some (pos, TOperator op) -> level op <= prec) ->
             exists (t : bexpT) s' consumed r',
               Ok (to_node tx) s = Ok (to_node t) s' /\
               r = consumed ++ r' /\ op_ident_tail r' /\ at_stream s' r' /\
               flat t = flat tx ++ items_of consumed /\
               PrecWF t /\ tighter_than prec t /\ stops prec s' /\ depth s' = depth s).
    { intro Hst. exists tx, s, [], r. simpl. rewrite app_nil_r.
      split; [reflexivity |]. split; [reflexivity |]. split; [exact Htail |].
      split; [exact Hat |]. split; [reflexivity |]. split; [exact Hwf |].
      split; [exact Htt |]. split; [exact Hst | reflexivity]. }
    cbn [binary_loop].
    destruct Htail as [| a0 a1 op g b0 b1 name h r2 Hop Htl].
    + destruct Hat as (Hc & Hr & Ht). simpl in Hc. rewrite Hc.
      apply Hdone. intros pos op Hc'. rewrite Hc in Hc'. discriminate Hc'.
    + pose proof Hat as (Hc & Hr & Ht). simpl in Hc, Hr. rewrite Hc.
      rewrite prec_nat_level.
      destruct (prec <? level op) eqn:Hlt.
      * apply Nat.ltb_lt in Hlt.
        destruct (next_at_stream s _ Hr Ht) as (s1 & Hn & Hat1 & Hd1).
        rewrite Hn. unfold bind at 1.
        simpl in Hd, Hfuel.
        destruct (IHd (level op) s1 b0 b1 name h r2 Htl Hat1 ltac:(lia) ltac:(lia))
          as (ty & s2 & cons2 & r2' & Hk & Hsplit & Htl2 & Hat2 & Hfy & Hwy & Hty & Hsy & Hd2).
        rewrite Hk. unfold bind at 1.
        assert (Hlen : length r2' <= length r2).
        { rewrite Hsplit, app_length. lia. }
        destruct (IH prec (Bin a0 op tx ty) s2 r2' Htl2 Hat2 ltac:(lia) ltac:(lia) ltac:(lia))
          as (t & s' & cons3 & r3 & H1 & H2 & H3 & H4 & H5 & H6 & H7 & H8 & H9).
        -- simpl. repeat split; try assumption. apply (Hroot a0 op); exact Hc.
        -- simpl. exact Hlt.
        -- intros pos2 op2 Hc2. simpl. apply (Hsy pos2 op2 Hc2).
        -- exists t, s',
             (SE a0 a1 (TOperator op) g :: SE b0 b1 (TLiteral LIdent name) h :: cons2 ++ cons3), r3.
           split; [exact H1 |]. split.
           { rewrite Hsplit, H2. simpl. rewrite <- app_assoc. reflexivity. }
           split; [exact H3 |]. split; [exact H4 |].
           split; [| split; [exact H6 | split; [exact H7 | split; [exact H8 | lia]]]].
           rewrite H5. simpl. rewrite Hfy. unfold items_of at 3. simpl.
           rewrite <- app_assoc. simpl.
           change (flat_map item_of (cons2 ++ cons3)) with (items_of (C := C) (cons2 ++ cons3)).
           rewrite items_of_app. reflexivity.
      * apply Nat.ltb_ge in Hlt. apply Hdone.
        intros pos' op' Hc'. rewrite Hc in Hc'. injection Hc' as _ Ho. subst op'. exact Hlt.
Qed.

End Loop.

Lemma climb_complete : forall d prec s a0 a1 name g r,
  op_ident_tail r -> at_stream s (SE a0 a1 (TLiteral LIdent name) g :: r) ->
  length r + 2 <= d -> depth s < MAX_NESTING ->
  exists (t : bexpT) s' consumed r',
    k_binary A G D C E (PA d) None prec s = Ok (to_node t) s' /\
    r = consumed ++ r' /\ op_ident_tail r' /\ at_stream s' r' /\
    flat t = IOperand (n_ident A C a0 name) :: items_of consumed /\
    PrecWF t /\ tighter_than prec t /\ stops prec s' /\ depth s' = depth s.
Proof.
  induction d as [| d IH]; intros prec s a0 a1 name g r Htail Hat Hd Hdep; [lia |].
  destruct d as [| d']; [lia |].
  change (k_binary A G D C E (PA (S (S d'))) None prec s)
    with (binary_body A G D C E OPS (PA (S d')) None prec s).
  unfold binary_body.
  destruct (k_unary_ident d' s a0 a1 name g r Htail Hat Hdep) as (s1 & Hu & Hat1 & Hd1).
  rewrite Hu. unfold bind.
  destruct (loop_complete (S d') IH (loop_fuel A G D E s1) prec (Atom (n_ident A C a0 name)) s1 r
              Htail Hat1) as (t & s' & cons & r' & H1 & H2 & H3 & H4 & H5 & H6 & H7 & H8 & H9).
  - unfold loop_fuel. destruct Hat1 as (_ & Hr1 & _). rewrite Hr1.
    destruct r; simpl; lia.
  - lia.
  - lia.
  - exact I.
  - exact I.
  - intros; exact I.
  - exists t, s', cons, r'.
    split; [exact H1 |]. split; [exact H2 |]. split; [exact H3 |]. split; [exact H4 |].
    split; [exact H5 |]. split; [exact H6 |]. split; [exact H7 |]. split; [exact H8 | lia].
Qed.

(* the whole stream, through the public entry point Parser::expression *)
Theorem expr_stream_complete : forall d a d0 elems ae ge,
  expr_stream elems -> length elems + 2 <= d ->
  exists (t : bexpT) s',
    entry_expression A G D C E OPS (PA d) (init_state A G D E a d0 elems (TEof ae ge))
      = Ok (to_node t) s' /\
    PrecWF t /\ flat t = items_of elems /\ cur s' = None /\ rest s' = [].
Proof.
  intros d a d0 elems ae ge (a0 & a1 & name & g & r & Hel & Htail) Hd.
  unfold entry_expression, ensure_started.
  destruct (next_at_stream (init_state A G D E a d0 elems (TEof ae ge)) elems eq_refl)
    as (s0 & Hn & Hat0 & Hd0).
  { exists ae, ge; reflexivity. }
  change (s_started A G D E (init_state A G D E a d0 elems (TEof ae ge))) with false.
  cbv iota. rewrite Hn. unfold bind.
  destruct d as [| d1]; [lia |].
  change (k_expr A G D C E (PA (S d1)) s0) with (k_binary A G D C E (PA d1) None 0 s0).
  subst elems. simpl in Hd.
  assert (Hdep0 : depth s0 < MAX_NESTING).
  { rewrite Hd0. unfold MAX_NESTING. cbn [init_state s_depth]. lia. }
  destruct (climb_complete d1 0 s0 a0 a1 name g r Htail Hat0 ltac:(lia) Hdep0)
    as (t & s' & cons & r' & H1 & H2 & H3 & H4 & H5 & H6 & H7 & H8 & H9).
  assert (Hr' : r' = []).
  { destruct H3 as [| b0 b1 op h c0 c1 nm h2 r2 Hop Htl]; [reflexivity |].
    destruct H4 as (Hc & _). simpl in Hc. specialize (H8 _ _ Hc).
    unfold is_binary_op in Hop. lia. }
  subst r'. rewrite app_nil_r in H2. subst cons.
  exists t, s'. split; [exact H1 |]. split; [exact H6 |]. split.
  - rewrite H5. reflexivity.
  - destruct H4 as (Hc & Hr & _). split; assumption.
Qed.

End Closed.

(* ------------------------------------------------------------ 6. a concrete instance for examples:
   positions = token indices, no comments *)

Definition demo_ops : ops nat unit unit unit :=
  {| d_next := fun _ _ _ _ => tt; d_goback := fun _ => tt; d_drain := fun _ => (tt, tt);
     d_line_end := fun _ _ _ _ _ => (tt, tt, tt); c_empty := tt; a_plus2 := fun p => p + 2 |}.

(* token i stands at position i *)
Fixpoint demo_stream (p : nat) (l : list token) : list (selem nat unit) :=
  match l with
  | [] => []
  | t :: r => SE p (S p) t tt :: demo_stream (S p) r
  end.

(* Parser::expression on the whole token list (all of it must be consumed) *)
Definition demo_parse (l : list token) : option (node nat unit) :=
  match entry_expression nat unit unit unit unit demo_ops
          (parsers_at nat unit unit unit unit demo_ops (2 * length l + 8))
          (init_state nat unit unit unit 0 tt (demo_stream 0 l) (TEof (length l) tt)) with
  | Ok n s => match s_cur _ _ _ _ s with None => Some n | Some _ => None end
  | _ => None
  end.

Definition tid (c : N) : token := TLiteral LIdent [c].
Definition top (o : operator) : token := TOperator o.
Definition aid (p : nat) (c : N) : bexp nat unit := Atom (n_ident nat unit p [c]).
