(* Digit runs with single '_' separators: the scanner's [scan_digits] against
   the specification's [digits_of].  Helper lemmas for NumLitProofs.v. *)
From Coq Require Import List NArith Bool Lia.
From GoSyn Require Import Token Tok Regex Scanner.
From GoSyn.spec Require Import NumLit.
Import ListNotations.
Open Scope N_scope.

(* ------------------------------------------------------------ list helpers *)

Lemma last_is_snoc c l x : last_is c (l ++ [x]) = (x =? c).
Proof. unfold last_is. rewrite rev_app_distr. reflexivity. Qed.

Lemma last_is_app c l1 l2 : l2 <> [] -> last_is c (l1 ++ l2) = last_is c l2.
Proof.
  intros H. destruct (exists_last H) as (l' & x & ->).
  rewrite app_assoc, !last_is_snoc. reflexivity.
Qed.

Lemma last_is_cons c x l : l <> [] -> last_is c (x :: l) = last_is c l.
Proof. intro H. apply (last_is_app c [x] l H). Qed.

Lemma last_is_single c x : last_is c [x] = (x =? c).
Proof. reflexivity. Qed.

Lemma contains_app c a b : contains c (a ++ b) = contains c a || contains c b.
Proof. unfold contains. apply existsb_app. Qed.

Lemma nth_c_app a b n : nth_c (a ++ b) (length a + n) = nth_c b n.
Proof.
  unfold nth_c. rewrite nth_error_app2 by lia. f_equal. lia.
Qed.

Lemma nth_c_app0 a b : nth_c (a ++ b) (length a) = hd_error b.
Proof.
  replace (length a) with (length a + 0)%nat by lia. rewrite nth_c_app.
  destruct b; reflexivity.
Qed.

Lemma skipn_app_len {X} (a b : list X) n : skipn (length a + n) (a ++ b) = skipn n b.
Proof. induction a as [|x a IH]; simpl; auto. Qed.

Lemma skipn_app_len0 {X} (a b : list X) : skipn (length a) (a ++ b) = b.
Proof.
  replace (length a) with (length a + 0)%nat by lia. rewrite skipn_app_len. reflexivity.
Qed.

Lemma firstn_app_len {X} (a b : list X) : firstn (length a) (a ++ b) = a.
Proof. induction a as [|x a IH]; simpl; [destruct b; reflexivity|]. f_equal. exact IH. Qed.

(* ------------------------------------------------------------ regex helpers *)

Lemma MCat' a b s t u : Matches a s -> Matches b t -> u = s ++ t -> Matches (Cat a b) u.
Proof. intros H1 H2 ->. constructor; assumption. Qed.

Lemma opt_inv a s : Matches (Opt a) s -> s = [] \/ Matches a s.
Proof.
  intro H. apply alt_inv in H as [H|H]; [right; exact H|left; apply eps_inv; exact H].
Qed.

Lemma opt_nil a : Matches (Opt a) [].
Proof. apply MAltR. constructor. Qed.

Lemma opt_some a s : Matches a s -> Matches (Opt a) s.
Proof. apply MAltL. Qed.

Lemma chr_inv c s : Matches (Chr c) s -> s = [c].
Proof.
  intro H. apply cls_inv in H as (x & -> & Hx). apply N.eqb_eq in Hx. subst. reflexivity.
Qed.

Lemma chr_intro c : Matches (Chr c) [c].
Proof. constructor. apply N.eqb_refl. Qed.

Lemma oneof2_inv a b s : Matches (OneOf [a; b]) s -> s = [a] \/ s = [b].
Proof.
  intro H. apply cls_inv in H as (x & -> & Hx). simpl in Hx.
  rewrite orb_false_r in Hx. apply orb_true_iff in Hx as [Hx|Hx]; apply N.eqb_eq in Hx; subst; auto.
Qed.

Lemma oneof2_l a b : Matches (OneOf [a; b]) [a].
Proof. constructor. simpl. rewrite N.eqb_refl. reflexivity. Qed.

Lemma oneof2_r a b : Matches (OneOf [a; b]) [b].
Proof. constructor. simpl. rewrite N.eqb_refl. apply orb_true_r. Qed.

(* ------------------------------------------------------------ digit runs *)

Section Digits.
Variable v : N -> bool.
Hypothesis v_under : v 95 = false.

(* runs of digits in which every '_' is followed by a digit *)
Inductive Tail : str -> Prop :=
| T0 : Tail []
| T1 c t : v c = true -> Tail t -> Tail (c :: t)
| T2 c t : v c = true -> Tail t -> Tail (95 :: c :: t).

Lemma v_ne c : v c = true -> (c =? 95) = false.
Proof.
  intro H. apply N.eqb_neq. intro E. subst. congruence.
Qed.

Lemma tail_head_valid c t : Tail (c :: t) -> v c = true -> Tail t.
Proof.
  intros H Hc. inversion H; subst; [assumption|congruence].
Qed.

Lemma tail_last d : Tail d -> last_is 95 d = false.
Proof.
  induction 1 as [|c t Hc Ht IH|c t Hc Ht IH]; [reflexivity| |].
  - destruct t as [|x t]; [rewrite last_is_single; apply v_ne; exact Hc|].
    rewrite last_is_cons by discriminate. exact IH.
  - rewrite last_is_cons by discriminate.
    destruct t as [|x t]; [rewrite last_is_single; apply v_ne; exact Hc|].
    rewrite last_is_cons by discriminate. exact IH.
Qed.

Lemma tail_all d : Tail d -> forall x, In x d -> v x = true \/ x = 95.
Proof.
  induction 1 as [|c t Hc Ht IH|c t Hc Ht IH]; intros x Hx; simpl in Hx.
  - contradiction.
  - destruct Hx as [<-|Hx]; auto.
  - destruct Hx as [<-|[<-|Hx]]; auto.
Qed.

Lemma tail_contains d c : Tail d -> v c = false -> c <> 95 -> contains c d = false.
Proof.
  intros Ht Hc Hne. unfold contains. destruct (existsb (N.eqb c) d) eqn:E; [|reflexivity].
  apply existsb_exists in E as (x & Hin & Hx). apply N.eqb_eq in Hx. subst x.
  destruct (tail_all d Ht c Hin); congruence.
Qed.

Lemma tail_app a b : Tail a -> Tail b -> Tail (a ++ b).
Proof.
  induction 1 as [|c t Hc Ht IH|c t Hc Ht IH]; simpl; intro Hb;
    [exact Hb|apply T1; auto|apply T2; auto].
Qed.

(* where a run must stop *)
Definition stops (r : str) : Prop :=
  match r with [] => True | c :: _ => v c = false /\ c <> 95 end.

Lemma scan_stops u r : stops r -> scan_digits v u r = [].
Proof.
  destruct r as [|c r]; [reflexivity|]. intros [H1 H2]. simpl.
  apply N.eqb_neq in H2. rewrite H2, H1. simpl. reflexivity.
Qed.

(* completeness direction: a run followed by a stopper is scanned exactly *)
Lemma tail_scan t : Tail t -> forall r, stops r -> scan_digits v true (t ++ r) = t.
Proof.
  induction 1 as [|c t Hc Ht IH|c t Hc Ht IH]; intros r Hr.
  - apply scan_stops. exact Hr.
  - simpl. rewrite (v_ne c Hc), Hc. simpl. rewrite IH by exact Hr. reflexivity.
  - simpl. rewrite (v_ne c Hc), Hc. simpl. rewrite IH by exact Hr. reflexivity.
Qed.

Lemma scan_prefix u l : exists r, l = scan_digits v u l ++ r.
Proof.
  revert u; induction l as [|c l IH]; intro u; simpl.
  - exists []. reflexivity.
  - destruct ((c =? 95) && negb u || negb (c =? 95) && negb (v c)).
    + exists (c :: l). reflexivity.
    + destruct (IH (negb (c =? 95))) as (r & Hr). exists r. simpl. congruence.
Qed.

(* soundness direction: what was scanned is a run, unless it ends in '_' *)
Lemma scan_tail l : forall u, last_is 95 (scan_digits v u l) = false ->
  Tail (scan_digits v u l) /\
  (u = false -> scan_digits v u l = [] \/ exists c t, scan_digits v u l = c :: t /\ v c = true).
Proof.
  induction l as [|c l IH]; intros u Hl; simpl in *.
  - split; [constructor|auto].
  - destruct (c =? 95) eqn:Ec; simpl in *.
    + apply N.eqb_eq in Ec. subst c. destruct u; simpl in *.
      * split; [|discriminate].
        destruct (scan_digits v false l) as [|x d] eqn:Ed.
        { rewrite last_is_single in Hl. discriminate. }
        rewrite last_is_cons in Hl by discriminate.
        specialize (IH false). rewrite Ed in IH. destruct (IH Hl) as [Ht Hh].
        destruct (Hh eq_refl) as [Hh'|(c' & t' & Heq & Hc')]; [discriminate|].
        inversion Heq; subst c' t'. constructor; [exact Hc'|].
        eapply tail_head_valid; eauto.
      * split; [constructor|auto].
    + destruct (v c) eqn:Hc; simpl in *.
      * destruct (scan_digits v true l) as [|x d] eqn:Ed.
        { split; [repeat constructor; exact Hc|]. intros _. right. eauto. }
        rewrite last_is_cons in Hl by discriminate.
        specialize (IH true). rewrite Ed in IH. destruct (IH Hl) as [Ht _].
        split; [constructor; assumption|]. intros _. right. eauto.
      * split; [constructor|auto].
Qed.

Lemma scan_tail_true l : last_is 95 (scan_digits v true l) = false -> Tail (scan_digits v true l).
Proof. intro H. apply (scan_tail l true H). Qed.

(* maximality: where the scanned run stops *)
Lemma scan_stop_shape l : forall u r, l = scan_digits v u l ++ r ->
  match r with
  | [] => True
  | c :: _ => (c <> 95 /\ v c = false) \/
              (c = 95 /\ (last_is 95 (scan_digits v u l) = true \/ (scan_digits v u l = [] /\ u = false)))
  end.
Proof.
  induction l as [|c l IH]; intros u r Hr; simpl in *.
  - destruct r; [exact I|discriminate].
  - destruct (c =? 95) eqn:Ec; simpl in *.
    + apply N.eqb_eq in Ec. subst c. destruct u; simpl in *.
      * specialize (IH false r). remember (scan_digits v false l) as d eqn:Ed.
        injection Hr as Hr'. specialize (IH Hr'). clear Ed Hr'.
        destruct r as [|x r]; [exact I|].
        destruct IH as [IH|[Hx IH]]; [left; exact IH|right]. split; [exact Hx|]. left.
        destruct d as [|y d]; [reflexivity|]. rewrite last_is_cons by discriminate.
        destruct IH as [IH|[IH _]]; [exact IH|discriminate].
      * subst r. right. auto.
    + destruct (v c) eqn:Hc; simpl in *.
      * specialize (IH true r). remember (scan_digits v true l) as d eqn:Ed.
        injection Hr as Hr'. specialize (IH Hr'). clear Ed Hr'.
        destruct r as [|x r]; [exact I|].
        destruct IH as [IH|[Hx IH]]; [left; exact IH|right]. split; [exact Hx|]. left.
        destruct IH as [IH|[_ IH]]; [|discriminate].
        destruct d as [|y d]; [discriminate|]. rewrite last_is_cons by discriminate. exact IH.
      * subst r. left. split; [apply N.eqb_neq; exact Ec|exact Hc].
Qed.

(* ---------------------------------------------------------- against digits_of *)

Definition U : re := Cat (Opt under) (Cls v).

Lemma U_inv s : Matches U s -> exists c, v c = true /\ (s = [c] \/ s = [95; c]).
Proof.
  intro H. apply cat_inv in H as (s1 & s2 & -> & H1 & H2).
  apply cls_inv in H2 as (c & -> & Hc). exists c. split; [exact Hc|].
  apply opt_inv in H1 as [->|H1]; [left; reflexivity|].
  apply chr_inv in H1. subst. right. reflexivity.
Qed.

Lemma star_tail_gen r s : Matches r s -> r = Star U -> Tail s.
Proof.
  induction 1 as [| | | | | |a s t H1 _ H2 IH2]; intro Hr; try discriminate.
  - constructor.
  - inversion Hr; subst a. specialize (IH2 eq_refl).
    apply U_inv in H1 as (c & Hc & [->| ->]); simpl; constructor; assumption.
Qed.

Lemma star_tail s : Matches (Star U) s -> Tail s.
Proof. intro H. eapply star_tail_gen; eauto. Qed.

Lemma tail_star s : Tail s -> Matches (Star U) s.
Proof.
  induction 1 as [|c t Hc Ht IH|c t Hc Ht IH].
  - constructor.
  - change (c :: t) with ([c] ++ t). constructor; [|exact IH].
    eapply MCat'; [apply opt_nil|constructor; exact Hc|reflexivity].
  - change (95 :: c :: t) with ([95; c] ++ t). constructor; [|exact IH].
    eapply MCat'; [apply opt_some; apply chr_intro|constructor; exact Hc|reflexivity].
Qed.

Lemma digits_inv d : Matches (digits_of (Cls v)) d -> exists c t, d = c :: t /\ v c = true /\ Tail t.
Proof.
  intro H. apply cat_inv in H as (s1 & s2 & -> & H1 & H2).
  apply cls_inv in H1 as (c & -> & Hc). exists c, s2. repeat split; auto.
  apply star_tail. exact H2.
Qed.

Lemma digits_intro c t : v c = true -> Tail t -> Matches (digits_of (Cls v)) (c :: t).
Proof.
  intros Hc Ht. change (c :: t) with ([c] ++ t). constructor; [constructor; exact Hc|].
  apply tail_star. exact Ht.
Qed.

Lemma digits_tail d : Matches (digits_of (Cls v)) d -> Tail d.
Proof. intro H. apply digits_inv in H as (c & t & -> & Hc & Ht). constructor; assumption. Qed.

(* a run that starts with a digit *)
Lemma digits_intro' d : Tail d -> (exists c t, d = c :: t /\ v c = true) ->
  Matches (digits_of (Cls v)) d.
Proof.
  intros Ht (c & t & -> & Hc). apply digits_intro; [exact Hc|]. eapply tail_head_valid; eauto.
Qed.

(* optional '_' then digits = nonempty run *)
Lemma udigits_inv d : Matches (Cat (Opt under) (digits_of (Cls v))) d -> Tail d /\ d <> [].
Proof.
  intro H. apply cat_inv in H as (s1 & s2 & -> & H1 & H2).
  apply digits_inv in H2 as (c & t & -> & Hc & Ht).
  apply opt_inv in H1 as [->|H1].
  - simpl. split; [constructor; assumption|discriminate].
  - apply chr_inv in H1. subst. simpl. split; [constructor; assumption|discriminate].
Qed.

Lemma udigits_split d : Tail d -> d <> [] ->
  exists s1 s2, d = s1 ++ s2 /\ Matches (Opt under) s1 /\ Matches (digits_of (Cls v)) s2.
Proof.
  intros Ht Hne. inversion Ht; subst; [congruence| |].
  - exists [], (c :: t). repeat split; [apply opt_nil|apply digits_intro; assumption].
  - exists [95], (c :: t). repeat split; [apply opt_some; apply chr_intro|apply digits_intro; assumption].
Qed.

Lemma udigits_intro d : Tail d -> d <> [] -> Matches (Cat (Opt under) (digits_of (Cls v))) d.
Proof.
  intros Ht Hne. destruct (udigits_split d Ht Hne) as (s1 & s2 & -> & H1 & H2).
  constructor; assumption.
Qed.

End Digits.

Arguments T0 {v}.
Arguments T1 {v}.
Arguments T2 {v}.

Lemma tail_mono (v w : N -> bool) d : (forall c, v c = true -> w c = true) -> Tail v d -> Tail w d.
Proof.
  intros H. induction 1 as [|c t Hc Ht IH|c t Hc Ht IH]; [apply T0|apply T1|apply T2]; auto.
Qed.

(* the four digit classes *)
Lemma dec_under : is_decimal_digit 95 = false. Proof. reflexivity. Qed.
Lemma bin_under : is_binary_digit 95 = false. Proof. reflexivity. Qed.
Lemma oct_under : is_octal_digit 95 = false. Proof. reflexivity. Qed.
Lemma hex_under : is_hex_digit 95 = false. Proof. reflexivity. Qed.
