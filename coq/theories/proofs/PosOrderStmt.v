(* Paired positions are ordered, stage 2: statements. *)
From Coq Require Import List Bool Arith NArith Lia Sorted.
From GoSyn Require Import Token Tok Ast Core.
From GoSyn.proofs Require Import Lift StreamProofs AccountBase PosBase PosExpr PosOrder PosOrderExpr.
Import ListNotations.
Local Open Scope N_scope.

Section Step2.
Variables (G D C E : Type) (OPS : ops N G D C).
Notation pstate := (Core.pstate N G D E).
Notation res := (Core.res N G D E).
Notation parsers := (Core.parsers N G D C E).
Notation selem := (Core.selem N G).
Notation nodeT := (node N C).
Variable whole : list selem.
Variable term : Core.sterm N G E.
Hypothesis Hsorted : StronglySorted N.lt (allp whole term).
Notation OSw := (OS (D:=D) whole term).

Variable self : parsers.
Hypothesis HG : GoodO whole term self.
Hypothesis HGS : Good (fun _ : unit => stream_inv whole term) (fun _ => stream_inv whole term) self.

Lemma O_parse_range_expr : OSw og (parse_range_expr OPS self).
Proof. oprod parse_range_expr. Qed.
Local Hint Resolve O_parse_range_expr : ord.

Lemma O_parse_simple_stmt : OSw og (parse_simple_stmt OPS self).
Proof. oprod parse_simple_stmt. Qed.
Local Hint Resolve O_parse_simple_stmt : ord.

Lemma O_stmts_until_brace : forall fuel acc, OSw (G1l acc) (stmts_until_brace self fuel acc).
Proof. unfold G1l. oloop stmts_until_brace fuel. Qed.
Local Hint Resolve O_stmts_until_brace : ord.

Lemma O_block_body : OSw og (block_body OPS self).
Proof. oprod block_body. Qed.
Local Hint Resolve O_block_body : ord.

Lemma O_stmt_list_loop : forall fuel acc, OSw (G1l acc) (stmt_list_loop self fuel acc).
Proof. unfold G1l. oloop stmt_list_loop fuel. Qed.
Local Hint Resolve O_stmt_list_loop : ord.

Lemma O_parse_stmt_list : OSw G0l (parse_stmt_list self).
Proof. unfold G0l. oprod parse_stmt_list. Qed.
Local Hint Resolve O_parse_stmt_list : ord.

Lemma O_parse_go_defer is_go : OSw og (parse_go_defer OPS self is_go).
Proof. oprod parse_go_defer. Qed.
Local Hint Resolve O_parse_go_defer : ord.

Lemma O_parse_return_stmt : OSw og (parse_return_stmt OPS self).
Proof. oprod parse_return_stmt. Qed.
Local Hint Resolve O_parse_return_stmt : ord.

Lemma O_parse_branch_stmt key : OSw og (parse_branch_stmt OPS key).
Proof. oprod parse_branch_stmt. Qed.
Local Hint Resolve O_parse_branch_stmt : ord.

Lemma O_parse_if_header :
  OSw (fun lo hi r => ogo lo hi (fst r) /\ og lo hi (snd r)) (parse_if_header OPS self).
Proof. oprod parse_if_header. Qed.
Local Hint Resolve O_parse_if_header : ord.

Lemma O_if_body : OSw og (if_body OPS self).
Proof. oprod if_body. Qed.
Local Hint Resolve O_if_body : ord.

Lemma O_case_block_loop : forall fuel ta acc,
  OSw (G1l acc) (case_block_loop OPS self fuel ta acc).
Proof. unfold G1l. oloop case_block_loop fuel. Qed.
Local Hint Resolve O_case_block_loop : ord.

Lemma O_parse_case_block ta : OSw og (parse_case_block OPS self ta).
Proof. oprod parse_case_block. Qed.
Local Hint Resolve O_parse_case_block : ord.

Lemma O_parse_switch_stmt : OSw og (parse_switch_stmt OPS self).
Proof. oprod parse_switch_stmt. Qed.
Local Hint Resolve O_parse_switch_stmt : ord.

Lemma O_parse_comm_stmt : OSw og (parse_comm_stmt OPS self).
Proof. oprod parse_comm_stmt. Qed.
Local Hint Resolve O_parse_comm_stmt : ord.

Lemma O_comm_block_loop : forall fuel acc, OSw (G1l acc) (comm_block_loop OPS self fuel acc).
Proof. unfold G1l. oloop comm_block_loop fuel. Qed.
Local Hint Resolve O_comm_block_loop : ord.

Lemma O_parse_select_stmt : OSw og (parse_select_stmt OPS self).
Proof. oprod parse_select_stmt. Qed.
Local Hint Resolve O_parse_select_stmt : ord.

Lemma og_ps a b (n : nodeT) :
  og a b n -> n_tag n <> GEmpty -> n_tag n <> GTypeChannel -> Forall (inr a b) (n_ps n).
Proof.
  destruct n as [t ps ats d ks]. intros H H1 H2. apply og_Nd in H. destruct H as (H & _).
  cbn [n_tag n_ps] in *. destruct t; try exact H; congruence.
Qed.
Lemma inr_nth a b ps d i : Forall (inr a b) ps -> inr a b d -> inr a b (nth i ps d).
Proof. intros H Hd. revert i. induction H; intros [|i]; cbn [nth]; auto. Qed.

Lemma O_parse_for_stmt : OSw og (parse_for_stmt OPS self).
Proof.
  oprod parse_for_stmt.
  cbn [fst snd ogo] in *; o_sat. split; [ oinv_tac | split; [ lia | ] ].
  unfold assign_is_range in E3. apply andb_prop in E3. destruct E3 as (Et & _).
  apply is_tag_true in Et. apply is_tag_true in E6.
  assert (Hy : og (cur_pos s) (cur_pos s') y) by (eapply og_mono; [ exact Hg | lia | lia ]).
  assert (Hn : og (cur_pos s) (cur_pos s') n).
  { eapply (pop_last_x _ (og (cur_pos s) (cur_pos s'))); [ exact E5 | apply og_kids, og_kid, Hy ]. }
  assert (Hpos : inr (cur_pos s) (cur_pos s') (cur_pos s)) by (unfold inr; lia).
  assert (Hp1 : inr (cur_pos s) (cur_pos s') (nth 0 (n_ps n) (cur_pos s))).
  { apply inr_nth; [ | exact Hpos ]. apply og_ps; [ exact Hn | rewrite E6; discriminate .. ]. }
  assert (Hp2 : inr (cur_pos s) (cur_pos s') (nth 0 (n_ps y) (cur_pos s))).
  { apply inr_nth; [ | exact Hpos ]. apply og_ps; [ exact Hy | rewrite Et; discriminate .. ]. }
  assert (Hleft : Forall (og (cur_pos s) (cur_pos s')) (n_kids (kid y 0))) by (apply og_kids, og_kid, Hy).
  unfold mk. apply og_Nd_i; [ cbn [opos]; repeat constructor; (apply Hpos || apply Hp1) | exact I | ].
  constructor; [ | constructor; [ | constructor; [ | constructor; [ | constructor; [ | constructor ] ] ] ] ].
  - destruct (n_kids (kid y 0)) as [|k0 ?]; [ apply og_nnone | ]. inversion Hleft; assumption.
  - destruct (n_kids (kid y 0)) as [|k0 [|k1 ?]]; try apply og_nnone.
    inversion Hleft as [|? ? _ Hl2]; subst. inversion Hl2; assumption.
  - apply og_Nd_i; [ cbn [opos]; repeat constructor; apply Hp2 | exact I | constructor ].
  - apply og_kid, Hn.
  - eapply og_mono; [ exact Hg0 | lia | lia ].
Qed.
Local Hint Resolve O_parse_for_stmt : ord.

End Step2.

#[export] Hint Resolve O_parse_range_expr O_parse_simple_stmt O_stmts_until_brace O_block_body
  O_stmt_list_loop O_parse_stmt_list O_parse_go_defer O_parse_return_stmt O_parse_branch_stmt
  O_parse_if_header O_if_body O_case_block_loop O_parse_case_block O_parse_switch_stmt
  O_parse_comm_stmt O_comm_block_loop O_parse_select_stmt O_parse_for_stmt : ord.
