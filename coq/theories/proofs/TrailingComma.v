(* C13 for call argument lists: the optional trailing comma.

   [print2] renders a call as  f ( a1 , ... , an )  with no trailing comma.
   Go allows  f ( a1 , ... , an , ) .  Here: the primary-expression parser,
   started on the spelling WITH the trailing comma, meets the same contract as
   for the printed spelling ([PQP2_toks]: the body of RoundTripBase2.PQP2 with
   the token list as a parameter), in particular it returns a node whose
   [erase] is [shape2 (E2Call f args ddd)] -- the same tree. *)
From Coq Require Import List Arith NArith Lia Bool.
From GoSyn Require Import Token Tok Ast Core.
From GoSyn.spec Require Import Prec Print Print2 Print3.
From GoSyn.proofs Require Import PrecProofs RoundTripProofs RoundTripTypesBase RoundTripTypes
  RoundTripTypesSig RoundTripBase2 RoundTripBase3 RoundTripExpr2 RoundTripLit RoundTripStmt2
  RoundTripStmtIf RoundTripStmtSwitch RoundTripDecl RoundTripFile RoundTripAll.
Import ListNotations.

Section TC.
Variables (A G D C E : Type).
Variable OPS : ops A G D C.
Notation nodeT := (node A C).
Notation pstateT := (pstate A G D E).
Notation sdepth := (s_depth A G D E).
Notation PA := (parsers_at A G D C E OPS).
Notation erase := (@erase A C).
Notation at_toks := (@at_toks A G D E).
Notation frame := (@frame A G D E).
Notation lev := (lev A G D E).
Notation levw := (levw A G D E).
Notation PQP2 := (PQP2 A G D C E OPS).
Notation PNLP2 := (PNLP2 A G D C E OPS).
Notation PE := (primary_expression A G D C E OPS).
Notation PL := (primary_loop A G D C E OPS).
Notation CAL := (call_args_loop A G D C E OPS).

Ltac ml := unfold depth2, need2 in *; lia.
Ltac msimp := unfold depth2, need2 in *; cbn [me ce cs omax] in *.
Ltac side2 :=
  solve [ assumption | reflexivity
        | unfold RoundTripBase2.levw in *; unframe; unfold depth2, need2 in *; lia ].
Ltac lev0 H := apply (lev_frame A G D E _ _ _ _ _ (frame_refl _) H); ml.

(* the body of PQP2 hdr e, with [print2 e] replaced by [toks] *)
Definition PQP2_toks (hdr : bool) (e : exp2) (toks : list token) : Prop :=
  primary2 e -> forall d (s : pstateT) rst,
  need2 e <= S d -> at_toks s (toks ++ rst) -> opfollow e rst ->
  sdepth s + depth2 e <= S MAX_NESTING -> lev hdr s (depth2 e) ->
  exists n s1 fuel1,
    erase n = shape2 e /\ at_toks s1 rst /\ frame s s1 /\ length rst + 1 <= fuel1 /\
    PE (PA d) None s = PL (PA d) fuel1 n s1.

(* sanity: PQP2 is the instance at the printed spelling *)
Lemma PQP2_toks_print : forall hdr e, PQP2 hdr e <-> PQP2_toks hdr e (print2 e).
Proof. intros hdr e. unfold RoundTripBase2.PQP2, PQP2_toks. tauto. Qed.

Lemma efollow_args_comma : forall e l rst,
  efollow false e (etail l ++ tk OComma :: rst).
Proof.
  intros e l rst. destruct l; simpl; apply efollow_close; reflexivity.
Qed.

(* the rest of the argument loop, in front of  , )  *)
Lemma args_tail2c : forall r, Forall (fun b => wf2 false b /\ PNLP2 b) r ->
  forall d fuel acc ewc (s : pstateT) rst,
    max2 need2 r + 2 <= d ->
    sdepth s + max2 depth2 r <= MAX_NESTING -> levw s (S (max2 depth2 r)) ->
    at_toks s (etail r ++ tk OComma :: tk OParenRight :: rst) ->
    length acc <> 0 ->
    length (etail r) + 2 <= fuel ->
    exists ns s1,
      CAL (PA d) fuel acc ewc s = Ok (acc ++ ns, true) s1 /\
      map erase ns = map shape2 r /\ at_toks s1 (tk OParenRight :: rst) /\ frame s s1.
Proof.
  intros r Hall. induction Hall as [| b r (Hwb & HNb) Hall IH];
    intros d fuel acc ewc s rst Hd Hdep Hlev Hat Hacc Hfu.
  - simpl in Hat. destruct fuel as [| f]; [simpl in Hfu; lia |].
    destruct f as [| f]; [simpl in Hfu; lia |]. cbn [call_args_loop].
    unfold cur_not at 1 2. rewrite !(cur_is_toks s _ _ _ Hat).
    change (tok_is (tk OComma) (KOp OParenRight)) with false.
    change (tok_is (tk OComma) (KOp ODotDotDot)) with false. cbn [negb andb].
    destruct acc as [| a0 acc0]; [exfalso; apply Hacc; reflexivity |].
    change (Nat.eqb (length (a0 :: acc0)) 0) with false. cbv iota.
    destruct (expect_toks OPS s _ _ (KOp OComma) 61 Hat eq_refl) as (pc & s1 & Hx & Hat1 & Hf1).
    rewrite Hx. cbn [bind].
    assert (Hcn : cur_not A G D E s1 (KOp OParenRight) && cur_not A G D E s1 (KOp ODotDotDot) = false).
    { unfold cur_not. rewrite !(cur_is_toks s1 _ _ _ Hat1). reflexivity. }
    rewrite Hcn. cbv iota. cbn [call_args_loop]. rewrite ?Hcn.
    exists [], s1. rewrite app_nil_r.
    split; [reflexivity |]. split; [reflexivity |]. split; [exact Hat1 | exact Hf1].
  - rewrite max2_cons in Hd, Hdep, Hlev. cbn [etail flat_map] in Hat, Hfu.
    fold (etail r) in Hat, Hfu. simpl in Hat. rewrite <- app_assoc in Hat.
    destruct fuel as [| f]; [lia |]. cbn [call_args_loop].
    unfold cur_not at 1 2. rewrite !(cur_is_toks s _ _ _ Hat).
    change (tok_is (tk OComma) (KOp OParenRight)) with false.
    change (tok_is (tk OComma) (KOp ODotDotDot)) with false. cbn [negb andb].
    destruct acc as [| a0 acc0]; [exfalso; apply Hacc; reflexivity |].
    change (Nat.eqb (length (a0 :: acc0)) 0) with false. cbv iota.
    destruct (expect_toks OPS s _ _ (KOp OComma) 61 Hat eq_refl) as (pc & s1 & Hx & Hat1 & Hf1).
    rewrite Hx. cbn [bind].
    destruct (first_tok2 b false (wf2_wfg _ _ Hwb)) as (t & l0 & Hpb & Hst & _).
    assert (Hat1' : at_toks s1 (t :: l0 ++ etail r ++ tk OComma :: tk OParenRight :: rst)).
    { rewrite Hpb in Hat1. exact Hat1. }
    rewrite (cur_not_start2 A G D E s1 t _ Hat1' Hst).
    destruct (HNb d s1 (etail r ++ tk OComma :: tk OParenRight :: rst))
      as (nb & s2 & Hk & Heb & Hat2 & Hf2);
      [side2 | exact Hat1 | apply efollow_args_comma | side2 | side2 |].
    rewrite Hk. cbn [bind].
    pose proof (frame_trans _ _ _ Hf1 Hf2) as Hf12.
    destruct (IH d f ((a0 :: acc0) ++ [nb]) false s2 rst)
      as (ns & s3 & Hl & Hes & Hat3 & Hf3);
      [side2 | side2 | side2 | exact Hat2 | rewrite app_length; simpl; lia | |].
    { simpl in Hfu. rewrite app_length in Hfu. lia. }
    exists (nb :: ns), s3. split.
    { rewrite Hl. rewrite <- app_assoc. reflexivity. }
    split; [simpl; rewrite Heb, Hes; reflexivity |].
    split; [exact Hat3 | exact (frame_trans _ _ _ Hf12 Hf3)].
Qed.

(* the whole argument loop, for a non-empty list, in front of  , )  *)
Lemma args_all2c : forall args, Forall (fun b => wf2 false b /\ PNLP2 b) args -> args <> [] ->
  forall d fuel (s : pstateT) rst,
    max2 need2 args + 2 <= d ->
    sdepth s + max2 depth2 args <= MAX_NESTING -> levw s (S (max2 depth2 args)) ->
    at_toks s (commas (map print2 args) ++ tk OComma :: tk OParenRight :: rst) ->
    length (commas (map print2 args)) + 2 <= fuel ->
    exists ns s1,
      CAL (PA d) fuel [] false s = Ok (ns, true) s1 /\
      map erase ns = map shape2 args /\ at_toks s1 (tk OParenRight :: rst) /\ frame s s1.
Proof.
  intros args Hall Hne d fuel s rst Hd Hdep Hlev Hat Hfu.
  destruct Hall as [| a r (Hwa & HNa) Hall]; [exfalso; apply Hne; reflexivity |].
  rewrite max2_cons in Hd, Hdep, Hlev. rewrite commas_cons2 in Hat, Hfu.
  rewrite <- app_assoc in Hat.
  destruct fuel as [| f]; [lia |]. cbn [call_args_loop].
  destruct (first_tok2 a false (wf2_wfg _ _ Hwa)) as (t & l0 & Hpa & Hst & _).
  assert (Hat' : at_toks s (t :: l0 ++ etail r ++ tk OComma :: tk OParenRight :: rst)).
  { rewrite Hpa in Hat. exact Hat. }
  rewrite (cur_not_start2 A G D E s t _ Hat' Hst).
  change (Nat.eqb (length (@nil nodeT)) 0) with true. cbv iota. cbn [bind].
  rewrite (cur_not_start2 A G D E s t _ Hat' Hst).
  destruct (HNa d s (etail r ++ tk OComma :: tk OParenRight :: rst))
    as (na & s2 & Hk & Hea & Hat2 & Hf2);
    [side2 | exact Hat | apply efollow_args_comma | side2 | side2 |].
  rewrite Hk. cbn [bind].
  destruct (args_tail2c r Hall d f ([] ++ [na]) false s2 rst)
    as (ns & s3 & Hl & Hes & Hat3 & Hf3);
    [side2 | side2 | side2 | exact Hat2 | simpl; lia | |].
  { rewrite app_length, Hpa in Hfu. simpl in Hfu. lia. }
  exists (na :: ns), s3. split; [rewrite Hl; reflexivity |].
  split; [simpl; rewrite Hea, Hes; reflexivity |].
  split; [exact Hat3 | exact (frame_trans _ _ _ Hf2 Hf3)].
Qed.

(* f(a, b,) *)
Lemma call_trailing_comma : forall hdr f args, wf2 hdr (E2Call f args false) -> args <> [] ->
  PQP2 hdr f -> Forall (fun b => wf2 false b /\ PNLP2 b) args ->
  PQP2_toks hdr (E2Call f args false)
    (print2 f ++ tk OParenLeft :: commas (map print2 args) ++ [tk OComma; tk OParenRight]).
Proof.
  intros hdr f args Hwf Hne HPQ Hall _ d s rst Hd Hat _ Hdep Hlev.
  cbn [wf2] in Hwf. destruct Hwf as (Hpr & Hbc & Hwf & Hwa & Hdd).
  pose proof (lev_levw A G D E hdr s _ Hlev) as Hlw.
  msimp.
  rewrite <- app_assoc in Hat. simpl in Hat.
  destruct (HPQ Hpr d s (tk OParenLeft ::
              (commas (map print2 args) ++ [tk OComma; tk OParenRight]) ++ rst))
    as (n & s1 & fuel1 & He & Hat1 & Hf1 & Hfu1 & Heq);
    [ml | exact Hat | apply base_call_opfollow; exact Hbc | ml | lev0 Hlev |].
  destruct (at_toks_cur _ _ _ Hat1) as (p & Hc).
  destruct (next_toks OPS _ _ (at_toks_rest' _ _ _ Hat1)) as (s2 & Hn & Hat2 & Hf2).
  rewrite <- !app_assoc in Hat2.
  pose proof (frame_trans _ _ _ Hf1 Hf2) as Hf12.
  destruct fuel1 as [| f0]; [simpl in Hfu1; lia |].
  assert (Hfu0 : length rst + 1 <= f0).
  { simpl in Hfu1; rewrite !app_length in Hfu1; simpl in Hfu1; lia. }
  simpl in Hat2.
  destruct (args_all2c args Hall Hne d (loop_fuel A G D E s2) s2 rst)
    as (ns & s3 & Hl & Hes & Hat3 & Hf3);
    [side2 | side2 | side2 | exact Hat2 | |].
  { pose proof (loop_fuel_toks s2 _ Hat2) as H. rewrite app_length in H. simpl in H. lia. }
  assert (Hs1 : skipped A G D C E OPS (KOp ODotDotDot) s3 = Ok false s3).
  { apply (skipped_no OPS s3 _ _ Hat3). reflexivity. }
  assert (Hs2 : skipped A G D C E OPS (KOp OComma) s3 = Ok false s3).
  { apply (skipped_no OPS s3 _ _ Hat3). reflexivity. }
  destruct (expect_toks OPS s3 _ rst (KOp OParenRight) 67 Hat3 eq_refl)
    as (p1 & s4 & Hx & Hat4 & Hf4).
  exists (mk A C GCall [cur_pos A G D E s1; p1] [] [n; nlist ns; nnone]), s4, f0.
  split; [simpl; rewrite He; change (fun x : nodeT => erase x) with erase; rewrite Hes;
          reflexivity |].
  split; [exact Hat4 |].
  split; [exact (frame_trans _ _ _ (frame_trans _ _ _ Hf12 Hf3) Hf4) |].
  split; [exact Hfu0 |].
  rewrite Heq. cbn [primary_loop]. unfold primary_step. rewrite Hc. unfold tk. cbv zeta.
  rewrite Hn. cbn [bind]. rewrite Hl. cbn [bind]. rewrite Hs1. cbn [bind andb]. cbv iota.
  rewrite Hs2. cbn [bind]. rewrite Hx. reflexivity.
Qed.

(* f(a, b...,) : the comma after the ellipsis *)
Lemma call_ddd_trailing_comma : forall hdr f args, wf2 hdr (E2Call f args true) ->
  PQP2 hdr f -> Forall (fun b => wf2 false b /\ PNLP2 b) args ->
  PQP2_toks hdr (E2Call f args true)
    (print2 f ++ tk OParenLeft :: commas (map print2 args) ++
       [tk ODotDotDot; tk OComma; tk OParenRight]).
Proof.
  intros hdr f args Hwf HPQ Hall _ d s rst Hd Hat _ Hdep Hlev.
  cbn [wf2] in Hwf. destruct Hwf as (Hpr & Hbc & Hwf & Hwa & Hdd).
  pose proof (lev_levw A G D E hdr s _ Hlev) as Hlw.
  msimp.
  rewrite <- app_assoc in Hat. simpl in Hat.
  destruct (HPQ Hpr d s (tk OParenLeft ::
              (commas (map print2 args) ++ [tk ODotDotDot; tk OComma; tk OParenRight]) ++ rst))
    as (n & s1 & fuel1 & He & Hat1 & Hf1 & Hfu1 & Heq);
    [ml | exact Hat | apply base_call_opfollow; exact Hbc | ml | lev0 Hlev |].
  destruct (at_toks_cur _ _ _ Hat1) as (p & Hc).
  destruct (next_toks OPS _ _ (at_toks_rest' _ _ _ Hat1)) as (s2 & Hn & Hat2 & Hf2).
  rewrite <- !app_assoc in Hat2.
  pose proof (frame_trans _ _ _ Hf1 Hf2) as Hf12.
  destruct fuel1 as [| f0]; [simpl in Hfu1; lia |].
  assert (Hfu0 : length rst + 1 <= f0).
  { simpl in Hfu1; rewrite !app_length in Hfu1; simpl in Hfu1; lia. }
  simpl in Hat2.
  destruct (args_all2 A G D C E OPS args Hall d (loop_fuel A G D E s2) s2 (tk ODotDotDot)
              (tk OComma :: tk OParenRight :: rst))
    as (ns & s3 & Hl & Hes & Hat3 & Hf3);
    [right; reflexivity | side2 | side2 | side2 | exact Hat2 | |].
  { pose proof (loop_fuel_toks s2 _ Hat2) as H. rewrite app_length in H. lia. }
  destruct (skipped_yes OPS s3 _ _ (KOp ODotDotDot) Hat3 eq_refl) as (s4 & Hs1 & Hat4 & Hf4).
  destruct (skipped_yes OPS s4 _ _ (KOp OComma) Hat4 eq_refl) as (s5 & Hs2 & Hat5 & Hf5).
  destruct (expect_toks OPS s5 _ rst (KOp OParenRight) 67 Hat5 eq_refl)
    as (p1 & s6 & Hx & Hat6 & Hf6).
  assert (Hlen : Nat.eqb (length ns) 0 = false).
  { assert (Hl2 : length ns = length args).
    { rewrite <- (map_length erase ns), Hes, map_length. reflexivity. }
    rewrite Hl2. destruct args; [exfalso; apply (Hdd eq_refl); reflexivity | reflexivity]. }
  exists (mk A C GCall [cur_pos A G D E s1; p1] [] [n; nlist ns; npos (cur_pos A G D E s3)]),
    s6, f0.
  split; [simpl; rewrite He; change (fun x : nodeT => erase x) with erase; rewrite Hes;
          reflexivity |].
  split; [exact Hat6 |].
  split; [exact (frame_trans _ _ _ (frame_trans _ _ _ (frame_trans _ _ _
            (frame_trans _ _ _ Hf12 Hf3) Hf4) Hf5) Hf6) |].
  split; [exact Hfu0 |].
  rewrite Heq. cbn [primary_loop]. unfold primary_step. rewrite Hc. unfold tk. cbv zeta.
  rewrite Hn. cbn [bind]. rewrite Hl. cbn [bind]. rewrite Hs1. cbn [bind].
  rewrite Hlen. cbn [andb orb]. cbv iota.
  rewrite Hs2. cbn [bind]. rewrite Hx. reflexivity.
Qed.

(* ------------------------------------------------------------ for every well-formed call *)

Lemma wf_args_contracts : forall args, all2 (wf2 false) args ->
  Forall (fun b => wf2 false b /\ PNLP2 b) args.
Proof.
  induction args as [| a r IH]; intros Hw; [constructor |].
  simpl in Hw. destruct Hw as (Hwa & Hwr). constructor; [| exact (IH Hwr)].
  split; [exact Hwa |]. apply KE2_PNLP2. apply expr2_in_context. exact Hwa.
Qed.

Theorem call_trailing_comma_wf : forall hdr f args,
  wf2 hdr (E2Call f args false) -> args <> [] ->
  PQP2_toks hdr (E2Call f args false)
    (print2 f ++ tk OParenLeft :: commas (map print2 args) ++ [tk OComma; tk OParenRight]).
Proof.
  intros hdr f args Hwf Hne. pose proof Hwf as Hwf'. cbn [wf2] in Hwf'.
  destruct Hwf' as (_ & _ & Hf & Ha & _).
  apply call_trailing_comma; [exact Hwf | exact Hne | | exact (wf_args_contracts args Ha)].
  exact (proj2 (proj2 (expr2_contracts A G D C E OPS f hdr Hf))).
Qed.

Theorem call_ddd_trailing_comma_wf : forall hdr f args,
  wf2 hdr (E2Call f args true) ->
  PQP2_toks hdr (E2Call f args true)
    (print2 f ++ tk OParenLeft :: commas (map print2 args) ++
       [tk ODotDotDot; tk OComma; tk OParenRight]).
Proof.
  intros hdr f args Hwf. pose proof Hwf as Hwf'. cbn [wf2] in Hwf'.
  destruct Hwf' as (_ & _ & Hf & Ha & _).
  apply call_ddd_trailing_comma; [exact Hwf | | exact (wf_args_contracts args Ha)].
  exact (proj2 (proj2 (expr2_contracts A G D C E OPS f hdr Hf))).
Qed.

End TC.

(* ------------------------------------------------------------ non-vacuity *)

(* f(x, y)  /  f(x, y,) *)
Definition tc_f : exp2 := E2Ident [102%N].
Definition tc_args : list exp2 := [E2Ident [120%N]; E2Ident [121%N]].

Example tc_wf : wf2 false (E2Call tc_f tc_args false) /\ tc_args <> [].
Proof.
  split; [| discriminate]. cbn. repeat split; try exact I; discriminate.
Qed.

Example tc_wf_ddd : wf2 false (E2Call tc_f tc_args true).
Proof. cbn. repeat split; try exact I; discriminate. Qed.

(* the spelling with the trailing comma is NOT the printed one, and the executable
   parser reads both (and the ellipsis form) to the printed derivation's tree *)
Example tc_spelling :
  print2 tc_f ++ tk OParenLeft :: commas (map print2 tc_args) ++ [tk OComma; tk OParenRight] <>
  print2 (E2Call tc_f tc_args false).
Proof. vm_compute. discriminate. Qed.

Example tc_reparse :
  demo_shape (print2 tc_f ++ tk OParenLeft :: commas (map print2 tc_args) ++
                [tk OComma; tk OParenRight]) = Some (shape2 (E2Call tc_f tc_args false)) /\
  demo_shape (print2 (E2Call tc_f tc_args false)) = Some (shape2 (E2Call tc_f tc_args false)) /\
  demo_shape (print2 tc_f ++ tk OParenLeft :: commas (map print2 tc_args) ++
                [tk ODotDotDot; tk OComma; tk OParenRight]) =
    Some (shape2 (E2Call tc_f tc_args true)).
Proof. repeat split; vm_compute; reflexivity. Qed.

(* ============================================================ composite literals *)

(* T{a, b,} : lit_value_loop takes the comma after each element and stops at "}" *)

Definition elems_tc (l : elems2) : list token :=
  tk OBraceLeft :: commas (map print_elem l) ++ [tk OComma; tk OBraceRight].

Section TCLit.
Variables (A G D C E : Type).
Variable OPS : ops A G D C.
Notation nodeT := (node A C).
Notation pstateT := (pstate A G D E).
Notation sdepth := (s_depth A G D E).
Notation lp := (s_lp A G D E).
Notation ln := (s_ln A G D E).
Notation PA := (parsers_at A G D C E OPS).
Notation erase := (@erase A C).
Notation at_toks := (@at_toks A G D E).
Notation frame := (@frame A G D E).
Notation lev := (lev A G D E).
Notation levw := (levw A G D E).
Notation PQP2 := (PQP2 A G D C E OPS).
Notation PQP2_toks := (PQP2_toks A G D C E OPS).
Notation VP := (VP A G D C E OPS).
Notation EP := (EP A G D C E OPS).
Notation LVL := (lit_value_loop A G D C E OPS).

(* the body of RoundTripLit.LVP1 l, with [print_elems l] replaced by [toks] *)
Definition LVP1_toks (l : elems2) (toks : list token) : Prop := forall d (s : pstateT) rst,
  need_elems l <= S d -> at_toks s (toks ++ rst) ->
  sdepth s + depth_elems l <= S MAX_NESTING -> levw s (depth_elems l) ->
  exists n s1, k_litvalue A G D C E (PA d) s = Ok n s1 /\ erase n = shape_elems l /\
               at_toks s1 rst /\ frame s s1.

Lemma LVP1_toks_print : forall l, LVP1 A G D C E OPS l <-> LVP1_toks l (print_elems l).
Proof. intros l. unfold LVP1, LVP1_toks. tauto. Qed.

Lemma elem_end_vtail_c : forall r rst, elem_end (vtail r ++ tk OComma :: rst).
Proof. intros [| b r] rst; simpl; left; reflexivity. Qed.

(* after an element: the "," and the elements that follow, up to the trailing "," *)
Lemma lit_tail_okc : forall r, Forall EP r -> (forall kv, In kv r -> wf_elem kv) ->
  forall d f acc (s : pstateT) rst,
    max2 need_elem r + 2 <= d ->
    at_toks s (vtail r ++ tk OComma :: tk OBraceRight :: rst) -> length (vtail r) + 1 <= f ->
    sdepth s + max2 depth_elem r <= MAX_NESTING -> lev false s (max2 depth_elem r) ->
    exists ns s1,
      bind A G D E (skipped A G D C E OPS (KOp OComma) s) (fun _ s2 => LVL (PA d) f acc s2)
        = Ok (acc ++ ns) s1 /\
      map erase ns = map shape_elem r /\ at_toks s1 (tk OBraceRight :: rst) /\ frame s s1.
Proof.
  intros r Hall. induction Hall as [| a r Ha Hall IH];
    intros Hwf d f acc s rst Hd Hat Hfu Hdep Hlev.
  - cbn [vtail flat_map app] in Hat. destruct f as [| f]; [simpl in Hfu; lia |].
    destruct (skipped_yes OPS s _ _ (KOp OComma) Hat eq_refl) as (s1 & Hs & Hat1 & Hf1).
    rewrite Hs. cbn [bind lit_value_loop].
    rewrite (cur_is_toks _ _ _ _ Hat1). change (tok_is (tk OBraceRight) (KOp OBraceRight)) with true.
    cbv iota. exists [], s1. rewrite app_nil_r.
    split; [reflexivity |]. split; [reflexivity |]. split; [exact Hat1 | exact Hf1].
  - cbn [max2 fold_right] in Hd, Hdep, Hlev. fold (max2 need_elem r) in Hd.
    fold (max2 depth_elem r) in Hdep, Hlev.
    unfold vtail in Hat, Hfu. cbn [flat_map] in Hat, Hfu. fold (vtail r) in Hat, Hfu.
    cbn [app] in Hat. rewrite <- !app_assoc in Hat.
    destruct f as [| f]; [simpl in Hfu; lia |].
    destruct (skipped_yes OPS s _ _ (KOp OComma) Hat eq_refl) as (s1 & Hs & Hat1 & Hf1).
    rewrite Hs. cbn [bind lit_value_loop].
    destruct (elem_first first_not_brace_holds a (Hwf a (or_introl eq_refl))) as (t & l & Hp & Hnb).
    assert (Hc : cur_is A G D E s1 (KOp OBraceRight) = false).
    { rewrite Hp in Hat1. cbn [app] in Hat1. rewrite (cur_is_toks _ _ _ _ Hat1). exact Hnb. }
    rewrite Hc.
    destruct (element_ok A G D C E OPS a Ha d s1 (vtail r ++ tk OComma :: tk OBraceRight :: rst))
      as (na & s2 & Hpe & Hea & Hat2 & Hf2).
    + lia.
    + exact Hat1.
    + apply elem_end_vtail_c.
    + unframe. lia.
    + apply (lev_frame _ _ _ _ false s s1 _ _ Hf1 Hlev). lia.
    + rewrite Hpe. cbn [bind].
      pose proof (frame_trans _ _ _ Hf1 Hf2) as Hf12.
      destruct (IH (fun kv Hin => Hwf kv (or_intror Hin)) d f (acc ++ [na]) s2 rst)
        as (ns & s3 & Hl & Hes & Hat3 & Hf3).
      * lia.
      * exact Hat2.
      * cbn [app length] in Hfu. rewrite app_length in Hfu. lia.
      * unframe. lia.
      * apply (lev_frame _ _ _ _ false s s2 _ _ Hf12 Hlev). lia.
      * exists (na :: ns), s3. split; [rewrite Hl, <- app_assoc; reflexivity |].
        split; [simpl; rewrite Hea, Hes; reflexivity |].
        split; [exact Hat3 | exact (frame_trans _ _ _ Hf12 Hf3)].
Qed.

(* the whole loop, from behind the "{", for a non-empty list *)
Lemma lit_loop_okc : forall l, Forall EP l -> (forall kv, In kv l -> wf_elem kv) -> l <> [] ->
  forall d f (s : pstateT) rst,
    max2 need_elem l + 2 <= d ->
    at_toks s (commas (map print_elem l) ++ tk OComma :: tk OBraceRight :: rst) ->
    length (commas (map print_elem l)) + 2 <= f ->
    sdepth s + max2 depth_elem l <= MAX_NESTING -> lev false s (max2 depth_elem l) ->
    exists ns s1,
      LVL (PA d) f [] s = Ok ns s1 /\
      map erase ns = map shape_elem l /\ at_toks s1 (tk OBraceRight :: rst) /\ frame s s1.
Proof.
  intros l Hall Hwf Hne d f s rst Hd Hat Hfu Hdep Hlev.
  destruct f as [| f]; [lia |]. cbn [lit_value_loop].
  destruct Hall as [| a r Ha Hall]; [exfalso; apply Hne; reflexivity |].
  rewrite commas_elems in Hat, Hfu. rewrite <- app_assoc in Hat.
  cbn [max2 fold_right] in Hd, Hdep, Hlev. fold (max2 need_elem r) in Hd.
  fold (max2 depth_elem r) in Hdep, Hlev.
  destruct (elem_first first_not_brace_holds a (Hwf a (or_introl eq_refl))) as (t & l0 & Hp & Hnb).
  assert (Hc : cur_is A G D E s (KOp OBraceRight) = false).
  { rewrite Hp in Hat. cbn [app] in Hat. rewrite (cur_is_toks _ _ _ _ Hat). exact Hnb. }
  rewrite Hc.
  destruct (element_ok A G D C E OPS a Ha d s (vtail r ++ tk OComma :: tk OBraceRight :: rst))
    as (na & s1 & Hpe & Hea & Hat1 & Hf1).
  + lia.
  + exact Hat.
  + apply elem_end_vtail_c.
  + lia.
  + apply (lev_frame _ _ _ _ false s s _ _ (frame_refl s) Hlev). lia.
  + rewrite Hpe. cbn [bind].
    destruct (lit_tail_okc r Hall (fun kv Hin => Hwf kv (or_intror Hin)) d f ([] ++ [na]) s1 rst)
      as (ns & s2 & Hl & Hes & Hat2 & Hf2).
    * lia.
    * exact Hat1.
    * rewrite app_length in Hfu. lia.
    * unframe. lia.
    * apply (lev_frame _ _ _ _ false s s1 _ _ Hf1 Hlev). lia.
    * exists (na :: ns), s2. split; [rewrite Hl; reflexivity |].
      split; [simpl; rewrite Hea, Hes; reflexivity |].
      split; [exact Hat2 | exact (frame_trans _ _ _ Hf1 Hf2)].
Qed.

(* parse_lit_value on  { a , b , }  *)
Theorem litvalue_trailing_comma : forall elems, Forall EP elems ->
  (forall kv, In kv elems -> wf_elem kv) -> elems <> [] -> LVP1_toks elems (elems_tc elems).
Proof.
  intros l Hall Hwf Hne d s rst Hd Hat Hdep Hlev.
  rewrite need_elems_eq in Hd. rewrite depth_elems_eq in Hdep, Hlev.
  destruct d as [| d0]; [lia |].
  change (k_litvalue A G D C E (PA (S d0)) s)
    with (nested A G D E 144 (lit_value_body A G D C E OPS (PA d0)) s).
  set (s0 := upd_depth A G D E s (S (sdepth s))).
  assert (Hlev0 : levw s0 (S (3 + max2 depth_elem l))) by exact Hlev.
  pose proof (levw_inc _ _ _ _ s0 _ Hlev0) as Hlev1.
  set (s1 := upd_level A G D E s0 (S (lp s0)) (ln s0)) in *.
  assert (Hat1 : at_toks s1 (elems_tc l ++ rst)) by exact Hat.
  unfold elems_tc in Hat1. cbn [app] in Hat1. rewrite <- app_assoc in Hat1. cbn [app] in Hat1.
  destruct (expect_toks OPS s1 _ _ (KOp OBraceLeft) 56 Hat1 eq_refl) as (p0 & s2 & Hx & Hat2 & Hf2).
  destruct (lit_loop_okc l Hall Hwf Hne d0 (loop_fuel A G D E s2) s2 rst)
    as (ns & s3 & Hl & Hes & Hat3 & Hf3).
  - lia.
  - exact Hat2.
  - pose proof (loop_fuel_toks s2 _ Hat2) as H. rewrite app_length in H. simpl in H. lia.
  - destruct Hf2 as (Hd2 & _). rewrite Hd2. change (sdepth s1) with (S (sdepth s)). lia.
  - apply (lev_frame _ _ _ _ false s1 s2 _ _ Hf2 Hlev1). lia.
  - assert (Hat4 : at_toks (dec_level A G D E s3) (tk OBraceRight :: rst)) by exact Hat3.
    destruct (expect_toks OPS _ _ _ (KOp OBraceRight) 57 Hat4 eq_refl) as (p1 & s5 & Hx5 & Hat5 & Hf5).
    assert (Hb : lit_value_body A G D C E OPS (PA d0) s0 =
                 Ok (mk A C GLiteralValue [p0; p1] [] ns) s5).
    { unfold lit_value_body. rewrite (inc_level_ok s0 55) by (destruct Hlev0; lia). cbn [bind].
      fold s1. rewrite Hx. cbn [bind]. rewrite Hl. cbn [bind]. cbv zeta. rewrite Hx5. reflexivity. }
    exists (mk A C GLiteralValue [p0; p1] [] ns), (upd_depth A G D E s5 (pred (sdepth s5))).
    split; [apply nested_intro; [lia | exact Hb] |].
    split; [unfold shape_elems, mk; rewrite erase_Nd, Hes; reflexivity |].
    split; [exact Hat5 |].
    apply frame_nested. apply (frame_trans _ (dec_level A G D E s3) _); [| exact Hf5].
    apply frame_inc_dec. exact (frame_trans _ _ _ Hf2 Hf3).
Qed.

(* the postfix step on "{" *)
Lemma composite_trailing_comma : forall hdr ty elems, wf2 hdr (E2Composite ty elems) ->
  PQP2 hdr ty -> LVP1_toks elems (elems_tc elems) ->
  PQP2_toks hdr (E2Composite ty elems) (print2 ty ++ elems_tc elems).
Proof.
  intros hdr ty elems Hwf HPQ HL _ d s rst Hd Hat Hfo Hdep Hlev.
  destruct Hwf as (Hty & Hwty & _).
  rewrite need2_composite in Hd.
  rewrite depth2_composite in Hdep, Hlev. rewrite shape2_composite.
  rewrite <- app_assoc in Hat.
  assert (Hpr : primary2 ty) by (destruct ty; try exact I; destruct Hty).
  assert (Hop : opfollow ty (elems_tc elems ++ rst)).
  { destruct ty; try exact I. unfold elems_tc. cbn [app]. split; [apply tfollow_brace |].
    destruct t; try exact I. destruct Hty. }
  destruct (HPQ Hpr d s (elems_tc elems ++ rst))
    as (n & s1 & fuel1 & He & Hat1 & Hf1 & Hfu1 & Heq).
  { lia. } { exact Hat. } { exact Hop. } { lia. }
  { apply (lev_frame _ _ _ _ hdr s s _ _ (frame_refl s) Hlev). lia. }
  pose proof (lev_frame _ _ _ _ hdr s s1 _ _ Hf1 Hlev (le_n _)) as Hlev1.
  assert (Hat1' : at_toks s1 (tk OBraceLeft ::
            (commas (map print_elem elems) ++ [tk OComma; tk OBraceRight]) ++ rst))
    by exact Hat1.
  destruct (at_toks_cur _ _ _ Hat1') as (p & Hc).
  assert (Hcb : check_brace A G D C E n s1 = true).
  { unfold check_brace. rewrite <- (n_tag_erase A C n), He.
    rewrite (lev_nonneg _ _ _ _ hdr s1 _ Hlev1).
    destruct ty; try (destruct Hty; fail); try (rewrite Hty; reflexivity).
    destruct t; try (destruct Hty; fail); reflexivity. }
  destruct (HL d s1 rst) as (nv & s2 & Hk & Hev & Hat2 & Hf2).
  - lia.
  - exact Hat1.
  - unframe. lia.
  - apply (lev_levw _ _ _ _ hdr). apply (lev_frame _ _ _ _ hdr s s1 _ _ Hf1 Hlev). lia.
  - destruct fuel1 as [| f]; [lia |].
    exists (mk A C GCompositeLit [] [] [n; nv]), s2, f.
    split; [simpl; rewrite He, Hev; reflexivity |]. split; [exact Hat2 |].
    split; [exact (frame_trans _ _ _ Hf1 Hf2) |].
    split; [unfold elems_tc in Hfu1; cbn [app length] in Hfu1; rewrite !app_length in Hfu1;
            cbn [length] in Hfu1; lia |].
    rewrite Heq. cbn [primary_loop]. unfold primary_step. rewrite Hc. unfold tk. cbv zeta.
    rewrite Hcb, Hk. reflexivity.
Qed.

(* for every well-formed composite literal *)
Lemma wf_elems_contracts : forall elems : elems2,
  all2 (fun kv : option elemv * elemv => opt2 wf_elemv (fst kv) /\ wf_elemv (snd kv)) elems ->
  Forall EP elems /\ (forall kv, In kv elems -> wf_elem kv).
Proof.
  intros elems Hwf.
  assert (HV : forall v, wf_elemv v -> VP v).
  { intros v Hv. apply (proj1 (proj2 (main2 A G D C E OPS (S (size_elemv v))))); [lia | exact Hv]. }
  split.
  - apply Forall_forall. intros [k v] Hin.
    destruct (all2_In2 _ _ _ Hwf (k, v) Hin) as (Hwk & Hwv). simpl in Hwk, Hwv.
    split; cbn [fst snd]; [| exact (HV v Hwv)].
    destruct k as [k |]; simpl in *; [exact (HV k Hwk) | exact I].
  - intros kv Hin. exact (all2_In2 _ _ _ Hwf kv Hin).
Qed.

Theorem composite_trailing_comma_wf : forall hdr ty elems,
  wf2 hdr (E2Composite ty elems) -> elems <> [] ->
  PQP2_toks hdr (E2Composite ty elems)
    (print2 ty ++ tk OBraceLeft :: commas (map print_elem elems) ++ [tk OComma; tk OBraceRight]).
Proof.
  intros hdr ty elems Hwf Hne. pose proof Hwf as (_ & Hwty & Hwe).
  destruct (wf_elems_contracts elems Hwe) as (Hall & Hwel).
  apply (composite_trailing_comma hdr ty elems Hwf).
  - exact (proj2 (proj2 (expr2_contracts A G D C E OPS ty hdr Hwty))).
  - exact (litvalue_trailing_comma elems Hall Hwel Hne).
Qed.

End TCLit.

(* non-vacuity:  T{x, y}  /  T{x, y,}  and a keyed, nested one  T{k: x, {y,},} *)
Definition tc_ty : exp2 := E2Ident [84%N].
Definition tc_elems : elems2 :=
  [(None, VExpr (E2Ident [120%N])); (None, VExpr (E2Ident [121%N]))].

Example tc_lit_wf : wf2 false (E2Composite tc_ty tc_elems) /\ tc_elems <> [].
Proof. split; [| discriminate]. cbn. repeat split; exact I. Qed.

Example tc_lit_reparse :
  print2 tc_ty ++ elems_tc tc_elems <> print2 (E2Composite tc_ty tc_elems) /\
  demo_shape (print2 tc_ty ++ elems_tc tc_elems) = Some (shape2 (E2Composite tc_ty tc_elems)) /\
  demo_shape (print2 (E2Composite tc_ty tc_elems)) = Some (shape2 (E2Composite tc_ty tc_elems)).
Proof. split; [vm_compute; discriminate |]. split; vm_compute; reflexivity. Qed.

(* index lists are different: index_comma_loop parses an expression after every
   comma, so the model parser REJECTS  x[a, b,]  (Go's TypeArgs allow it) *)
Example tc_index_trailing_rejected :
  demo_shape [TLiteral LIdent [120%N]; tk OBarackLeft; TLiteral LIdent [97%N]; tk OComma;
              TLiteral LIdent [98%N]; tk OBarackRight] <> None /\
  demo_shape [TLiteral LIdent [120%N]; tk OBarackLeft; TLiteral LIdent [97%N]; tk OComma;
              TLiteral LIdent [98%N]; tk OComma; tk OBarackRight] = None.
Proof. split; vm_compute; [discriminate | reflexivity]. Qed.

(* ============================================================ Parser::expression *)

(* From the primary-expression contract at a spelling [toks] to Parser::expression
   in context and from the initial state: the chain PQP2 -> UP2 -> QP2 -> PP2 -> KE2
   of RoundTripExpr2 only uses the FIRST token of the spelling. *)

Section TCEntry.
Variables (A G D C E : Type).
Variable OPS : ops A G D C.
Notation pstateT := (pstate A G D E).
Notation sdepth := (s_depth A G D E).
Notation PA := (parsers_at A G D C E OPS).
Notation erase := (@erase A C).
Notation at_toks := (@at_toks A G D E).
Notation frame := (@frame A G D E).
Notation lev := (lev A G D E).
Notation PQP2_toks := (PQP2_toks A G D C E OPS).
Notation BB := (binary_body A G D C E OPS).
Notation BL := (binary_loop A G D C E OPS).
Notation KU := (k_unary A G D C E).

(* the body of RoundTripBase2.KE2 hdr e, with [print2 e] replaced by [toks] *)
Definition KE2_toks (hdr : bool) (e : exp2) (toks : list token) : Prop :=
  forall d (s : pstateT) rst,
  need2 e + 2 <= d -> at_toks s (toks ++ rst) -> efollow hdr e rst ->
  sdepth s + depth2 e <= MAX_NESTING -> lev hdr s (depth2 e) ->
  exists n s1, k_expr A G D C E (PA d) s = Ok n s1 /\ erase n = shape2 e /\
               at_toks s1 rst /\ frame s s1.

Lemma KE2_toks_print : forall hdr e, KE2 A G D C E OPS hdr e <-> KE2_toks hdr e (print2 e).
Proof. intros hdr e. unfold KE2, KE2_toks. tauto. Qed.

Lemma PQP2_toks_KE2_toks : forall hdr e toks, wf2 hdr e -> primary2 e ->
  (exists t l0, toks = t :: l0 /\ prim_start2 t = true) ->
  PQP2_toks hdr e toks -> KE2_toks hdr e toks.
Proof.
  intros hdr e toks Hwf Hpr (t & l0 & Hpe & Hps) HPQ d s rst Hd Hat Hfo Hdep Hlev.
  pose proof (need2_pos e) as Hnp. pose proof (depth2_pos e) as Hdp.
  pose proof (wf2_wfg hdr e Hwf) as Hwg.
  pose proof (follow2_prim hdr 0 e rst Hfo) as Hpf.
  destruct d as [| [| [| d1]]]; try lia.
  change (k_expr A G D C E (PA (S (S (S d1)))) s) with (BB (PA (S d1)) None 0 s).
  set (s0 := upd_depth A G D E s (S (sdepth s))).
  destruct (HPQ Hpr d1 s0 rst ltac:(lia) Hat (prim_follow2_opfollow hdr e rst Hpf))
    as (n & s1 & fuel1 & He & Hat1 & Hf & Hfu & Heq).
  { change (sdepth s0) with (S (sdepth s)). lia. }
  { exact Hlev. }
  assert (Hub : unary_body A G D C E OPS (PA d1) s0 = Ok n s1).
  { rewrite Hpe in Hat. simpl in Hat.
    rewrite (unary_body_primary2 A G D C E OPS (PA d1) s0 t _ Hat Hps), Heq.
    destruct fuel1 as [| f]; [lia |].
    apply (primary_loop_stop2 A G D C E OPS (PA d1) hdr e f n s1 rst Hat1 Hpf He Hpr
             (wfg_opnd_ok hdr e Hwg)).
    apply (lev_nonneg A G D E hdr s1 0). apply (lev_frame A G D E hdr s0 s1 _ _ Hf Hlev). lia. }
  set (s2 := upd_depth A G D E s1 (pred (sdepth s1))).
  assert (Hk : KU (PA (S d1)) s = Ok n s2).
  { change (KU (PA (S d1)) s) with (nested A G D E 141 (unary_body A G D C E OPS (PA d1)) s).
    apply nested_intro; [lia | exact Hub]. }
  assert (Hat2 : at_toks s2 rst) by exact Hat1.
  assert (Hf2 : frame s s2) by (apply frame_nested; exact Hf).
  exists n, s2. split; [| split; [exact He | split; [exact Hat2 | exact Hf2]]].
  transitivity (BL (PA (S d1)) (loop_fuel A G D E s2) 0 n s2).
  { unfold binary_body. rewrite Hk. reflexivity. }
  pose proof (loop_fuel_toks s2 _ Hat2) as Hlf.
  destruct (loop_fuel A G D E s2) as [| f]; [lia |].
  apply (binary_loop_stop2 A G D C E OPS (PA (S d1)) hdr f 0 e n s2 rst Hat2 Hfo).
Qed.

(* Parser::expression from the initial state, on the spelling [toks] *)
Lemma KE2_toks_entry : forall e toks, KE2_toks false e toks -> depth2 e <= DEPTH_BOUND2 ->
  forall d a0 d0 (elems : list (selem A G)) ae ge,
    map tok_of elems = toks -> need2 e + 2 <= d ->
    exists n s',
      entry_expression A G D C E OPS (PA d) (init_state A G D E a0 d0 elems (TEof ae ge)) = Ok n s' /\
      erase n = shape2 e /\ s_cur A G D E s' = None /\ s_rest A G D E s' = [].
Proof.
  intros e toks HK Hb d a0 d0 elems ae ge Hel Hd. unfold DEPTH_BOUND2 in Hb.
  set (si := init_state A G D E a0 d0 elems (TEof ae ge)).
  assert (Hr : rest_toks A G D E si toks).
  { split; [exists ae, ge; reflexivity | exact Hel]. }
  destruct (next_toks OPS si _ Hr) as (s0 & Hn & Hat0 & Hf0).
  unfold entry_expression, ensure_started.
  change (s_started A G D E si) with false. cbv iota. rewrite Hn. cbn [bind].
  destruct Hf0 as (Hd0 & k & Ha & Hb0).
  change (s_depth A G D E si) with 0 in Hd0. change (s_lp A G D E si) with 1 in Ha.
  change (s_ln A G D E si) with 0 in Hb0.
  destruct (HK d s0 []) as (n & s1 & Hk & He & Hat1 & _).
  - exact Hd.
  - rewrite app_nil_r. exact Hat0.
  - apply efollow_nil.
  - unfold MAX_NESTING. lia.
  - split; lia.
  - exists n, s1. split; [exact Hk |]. split; [exact He |]. exact (at_toks_nil _ Hat1).
Qed.

Lemma first_prim_app : forall hdr f l, wf2 hdr f -> primary2 f ->
  exists t l0, print2 f ++ l = t :: l0 /\ prim_start2 t = true.
Proof.
  intros hdr f l Hwf Hpr.
  destruct (first_tok2 f hdr (wf2_wfg hdr f Hwf)) as (t & l0 & Hp & _ & Hps).
  exists t, (l0 ++ l). split; [rewrite Hp; reflexivity | exact (Hps Hpr)].
Qed.

(* f(a, b,)  as a whole expression: same tree as  f(a, b)  (expr2_roundtrip) *)
Theorem call_trailing_comma_roundtrip : forall f args,
  wf2 false (E2Call f args false) -> args <> [] ->
  depth2 (E2Call f args false) <= DEPTH_BOUND2 ->
  forall d a0 d0 (elems : list (selem A G)) ae ge,
    map tok_of elems =
      print2 f ++ tk OParenLeft :: commas (map print2 args) ++ [tk OComma; tk OParenRight] ->
    need2 (E2Call f args false) + 2 <= d ->
    exists n s',
      entry_expression A G D C E OPS (PA d) (init_state A G D E a0 d0 elems (TEof ae ge)) = Ok n s' /\
      erase n = shape2 (E2Call f args false) /\ s_cur A G D E s' = None /\ s_rest A G D E s' = [].
Proof.
  intros f args Hwf Hne. apply KE2_toks_entry.
  pose proof Hwf as Hwf'. cbn [wf2] in Hwf'. destruct Hwf' as (Hpr & _ & Hwff & _).
  apply PQP2_toks_KE2_toks; [exact Hwf | exact I | exact (first_prim_app false f _ Hwff Hpr) |].
  apply call_trailing_comma_wf; assumption.
Qed.

Theorem call_ddd_trailing_comma_roundtrip : forall f args,
  wf2 false (E2Call f args true) ->
  depth2 (E2Call f args true) <= DEPTH_BOUND2 ->
  forall d a0 d0 (elems : list (selem A G)) ae ge,
    map tok_of elems =
      print2 f ++ tk OParenLeft :: commas (map print2 args) ++
        [tk ODotDotDot; tk OComma; tk OParenRight] ->
    need2 (E2Call f args true) + 2 <= d ->
    exists n s',
      entry_expression A G D C E OPS (PA d) (init_state A G D E a0 d0 elems (TEof ae ge)) = Ok n s' /\
      erase n = shape2 (E2Call f args true) /\ s_cur A G D E s' = None /\ s_rest A G D E s' = [].
Proof.
  intros f args Hwf. apply KE2_toks_entry.
  pose proof Hwf as Hwf'. cbn [wf2] in Hwf'. destruct Hwf' as (Hpr & _ & Hwff & _).
  apply PQP2_toks_KE2_toks; [exact Hwf | exact I | exact (first_prim_app false f _ Hwff Hpr) |].
  apply call_ddd_trailing_comma_wf; assumption.
Qed.

Theorem composite_trailing_comma_roundtrip : forall ty elems,
  wf2 false (E2Composite ty elems) -> elems <> [] ->
  depth2 (E2Composite ty elems) <= DEPTH_BOUND2 ->
  forall d a0 d0 (els : list (selem A G)) ae ge,
    map tok_of els =
      print2 ty ++ tk OBraceLeft :: commas (map print_elem elems) ++ [tk OComma; tk OBraceRight] ->
    need2 (E2Composite ty elems) + 2 <= d ->
    exists n s',
      entry_expression A G D C E OPS (PA d) (init_state A G D E a0 d0 els (TEof ae ge)) = Ok n s' /\
      erase n = shape2 (E2Composite ty elems) /\ s_cur A G D E s' = None /\ s_rest A G D E s' = [].
Proof.
  intros ty elems Hwf Hne. apply KE2_toks_entry.
  pose proof Hwf as (Hty & Hwty & _).
  assert (Hpr : primary2 ty) by (destruct ty; try exact I; destruct Hty).
  apply PQP2_toks_KE2_toks; [exact Hwf | exact I | exact (first_prim_app false ty _ Hwty Hpr) |].
  apply composite_trailing_comma_wf; assumption.
Qed.

End TCEntry.
