(* C12 nested nodes, EXACT form (see DocExactBase.v), stage 3: declarations (with the backtracking site of
   parse_type_spec), statement dispatch, the closed recursion, the file level
   and the final theorems. *)
From Coq Require Import List Bool Arith NArith Lia.
From GoSyn.spec Require Import LineCol Docs.
From GoSyn Require Import Token Tok Scanner Ast Core Policy.
From GoSyn.proofs Require Import Lift StreamProofs LevelProofs DocProofs AccountBase PosBase
  DocExactBase DocExactExpr DocExactStmt.
Import ListNotations.

Section Step3.
Variable lines : list N.
Variable E : Type.
Notation cm := Policy.comment.
Notation OPS := (policy_ops lines).
Notation pstate := (Core.pstate N (list cm) cstate E).
Notation res := (Core.res N (list cm) cstate E).
Notation parsers := (Core.parsers N (list cm) cstate (list cm) E).
Notation selem := (Core.selem N (list cm)).
Notation nodeT := (node N (list cm)).
Variable whole : list selem.
Notation DSw := (DS lines E whole).
Notation DWw := (DW lines E whole).
Notation DSPw := (DSP lines E whole).
Notation DOptw := (DOpt lines E whole).
Notation dgoodw := (dgood lines whole).
Notation dgoodow := (dgoodo lines whole).

Variable self : parsers.
Hypothesis HG : GoodD lines E whole self.

(* a spec: a good tree whose docs document its first name *)
Definition sgood (k : spec_kind) (sp : nodeT) : Prop :=
  dgoodw sp /\ spec_ok lines whole (spec_tag_of k) sp.

Ltac spec_fin :=
  d_sat; subst; split; [ f_tac | ];
  split;
  [ dg
  | split; [ reflexivity | ];
    eexists; split; [ reflexivity | ];
    cbn [spec_pos n_tag kid nth n_kids nlist pos_hd n_ps n_ident mk mkd];
    match goal with H : _ -> doc_at _ _ _ _ |- _ => apply H; assumption end ].

(* the first backtracking site: after `goback start` the lead is stale;
   type_parameters moves on ('[') before anything drains *)
Lemma P_parse_type_spec : DSw (sgood SKType) (parse_type_spec OPS self).
Proof.
  intros s r s' HF. unfold parse_type_spec. hide_nats. d_steps. all: spec_fin.
Qed.

Lemma P_parse_var_spec : DSw (sgood SKVar) (parse_var_spec OPS self).
Proof.
  intros s r s' HF. unfold parse_var_spec. hide_nats. d_steps. all: spec_fin.
Qed.

Lemma P_parse_const_spec index : DSw (sgood SKConst) (parse_const_spec OPS self index).
Proof.
  intros s r s' HF. unfold parse_const_spec. hide_nats. d_steps. all: spec_fin.
Qed.

Local Hint Resolve P_parse_type_spec P_parse_var_spec P_parse_const_spec : doc.

Lemma P_parse_spec k index : DSw (sgood k) (parse_spec OPS self k index).
Proof. destruct k; dprod parse_spec. Qed.
Local Hint Resolve P_parse_spec : doc.

Lemma P_decl_group_loop : forall fuel k index acc,
  DSw (fun r => Forall (sgood k) acc -> Forall (sgood k) r)
      (decl_group_loop OPS self fuel k index acc).
Proof. dloop decl_group_loop fuel. Qed.
Local Hint Resolve P_decl_group_loop : doc.

Lemma sgood_dgood k l : Forall (sgood k) l -> Forall dgoodw l.
Proof. apply Forall_impl. intros sp H. apply H. Qed.
Lemma sgood_spec_ok k l :
  Forall (sgood k) l -> Forall (spec_ok lines whole (spec_of_decl (decl_tag k))) l.
Proof. rewrite spec_of_decl_tag. apply Forall_impl. intros sp H. apply H. Qed.

Lemma n_tag_set_docs (n : nodeT) d : n_tag (set_docs n d) = n_tag n.
Proof. destruct n. reflexivity. Qed.
Lemma n_docs_set_docs (n : nodeT) d : n_docs (set_docs n d) = d.
Proof. destruct n. reflexivity. Qed.

Lemma own_decl_group k pos0 l r c specs :
  doc_at lines whole (Some pos0) c ->
  Forall (spec_ok lines whole (spec_of_decl (decl_tag k))) specs ->
  own_doc_ok lines whole (decl_tag k) [pos0; l; r] [c] specs.
Proof. intros Hc Hs. destruct k; (exists c; split; [ reflexivity | split; assumption ]). Qed.

Lemma own_decl_single k pos0 sp c :
  n_tag sp = spec_of_decl (decl_tag k) -> n_docs sp = [c] -> doc_at lines whole (Some pos0) c ->
  own_doc_ok lines whole (decl_tag k) [pos0] [[]] [sp].
Proof.
  intros Ht Hd Hc.
  destruct k; (split; [ reflexivity | exists sp, c; repeat split; assumption ]).
Qed.

(* parse_decl: entered on its keyword *)
Lemma P_parse_decl k :
  DSPw (fun s => s_cur s <> None) dgoodw (parse_decl OPS self k).
Proof.
  intros s r s' HF Hpre. unfold parse_decl. hide_nats. cbv zeta. d_steps.
  all: d_sat; subst; split; [ f_tac | ].
  all: assert (Hd : doc_at lines whole (Some (cur_pos s)) l)
         by (rewrite <- Hdp; apply Hdoc; congruence).
  - (* a group *)
    match goal with
    | Hg : Forall (sgood k) [] -> Forall (sgood k) ?specs |- _ =>
        assert (Hsp : Forall (sgood k) specs) by (apply Hg; constructor)
    end.
    apply dgood_Nd_i; [ | eapply sgood_dgood; exact Hsp ].
    apply own_decl_group; [ exact Hd | eapply sgood_spec_ok; exact Hsp ].
  - (* a single spec: the declaration's docs replace the spec's *)
    destruct Hg as (Hg1 & Hg2). apply dgood_Nd_i.
    + apply own_decl_single with (c := l);
        [ rewrite n_tag_set_docs, spec_of_decl_tag; apply Hg2
        | apply n_docs_set_docs | exact Hd ].
    + constructor; [ | constructor ]. eapply dgood_set_docs_spec; eassumption.
Qed.
Local Hint Resolve P_parse_decl : doc.

Lemma P_parse_func_decl : DSw dgoodw (parse_func_decl OPS self).
Proof. dprod parse_func_decl. Qed.
Local Hint Resolve P_parse_func_decl : doc.

Lemma P_stmt_body : DSw dgoodw (stmt_body OPS self).
Proof.
  intros s r s' Hs. unfold stmt_body. hide_nats.
  destruct (s_cur s) as [[pos tok]|] eqn:Ec; [ | discriminate ].
  destruct (classify_stmt tok) eqn:Ecl; d_steps; try (solve [ d_fin ]).
Qed.
Local Hint Resolve P_stmt_body : doc.

Lemma GoodD_step : GoodD lines E whole (step OPS self).
Proof.
  split; cbn [step k_type k_type_or_none k_expr k_unary k_binary k_litvalue k_block k_stmt k_if];
    [ | | | | | | | | |
      pose proof (prim_closed_inv_closed _ _ _ _ _ OPS _ (Inv0_closed lines E)) as HC0;
      pose proof (gd_inv0 _ _ _ _ HG) as HG0;
      eapply Good_step;
      [ exact HC0 | exact HG0
      | eapply interface_loop_catch; [ exact HC0 | exact HG0 | exact (fun _ _ H => H) ] ] ].
  - apply S_type_body, HG.
  - apply O_nested, O_type_or_none_body, HG.
  - eauto with doc.
  - apply P_nested. eauto with doc.
  - eauto with doc.
  - apply P_nested. eauto with doc.
  - eauto with doc.
  - apply P_nested. eauto with doc.
  - apply P_nested. eauto with doc.
Qed.

(* -- file level -- *)

Lemma P_parse_package : DSw dgoodw (parse_package OPS).
Proof. dprod parse_package. Qed.
Local Hint Resolve P_parse_package : doc.

Lemma P_parse_import_spec : DSw dgoodw (parse_import_spec OPS).
Proof.
  intros s r s' Hs. unfold parse_import_spec. hide_nats.
  destruct (s_cur s) as [[pos tok]|] eqn:Ec; [ | discriminate ].
  destruct tok as [| |o|k name]; try destruct o; try destruct k; d_steps; try (solve [ d_fin ]).
Qed.
Local Hint Resolve P_parse_import_spec : doc.

Lemma P_import_group_loop : forall fuel (acc : list nodeT),
  DSw (fun r => Forall dgoodw acc -> Forall dgoodw r) (import_group_loop OPS fuel acc).
Proof. dloop import_group_loop fuel. Qed.
Local Hint Resolve P_import_group_loop : doc.

Lemma P_parse_import_decl : DSw (Forall dgoodw) (parse_import_decl OPS).
Proof. dprod parse_import_decl. Qed.
Local Hint Resolve P_parse_import_decl : doc.

Lemma P_imports_loop : forall fuel (acc : list nodeT),
  DSw (fun r => Forall dgoodw acc -> Forall dgoodw r) (imports_loop OPS fuel acc).
Proof. dloop imports_loop fuel. Qed.
Local Hint Resolve P_imports_loop : doc.

Lemma P_parse_top_decl : DSw dgoodw (parse_top_decl OPS self).
Proof.
  intros s r s' Hs. unfold parse_top_decl. hide_nats.
  destruct (s_cur s) as [[pos tok]|] eqn:Ec; [ | discriminate ].
  destruct tok as [|k|o|k name]; try discriminate.
  destruct k; try discriminate; d_steps; try (solve [ d_fin ]).
Qed.
Local Hint Resolve P_parse_top_decl : doc.

Lemma P_decls_loop : forall fuel acc,
  DSw (fun r => Forall dgoodw acc -> Forall dgoodw r) (decls_loop OPS self fuel acc).
Proof. dloop decls_loop fuel. Qed.
Local Hint Resolve P_decls_loop : doc.

Lemma P_ensure_started : DSw anyg (ensure_started OPS).
Proof. dprod ensure_started. Qed.
Local Hint Resolve P_ensure_started : doc.

Lemma parse_package_cur (s : pstate) r s' : parse_package OPS s = Ok r s' -> s_cur s <> None.
Proof.
  unfold parse_package. apply bind_inv. intros p s1 Hx _. revert Hx. unfold expect.
  destruct (s_cur s); [ discriminate | discriminate ].
Qed.

Ltac d_shape_more Hm ::=
  lazymatch type of Hm with
  | parse_package _ _ = Ok _ _ =>
      let H := fresh "Hcur" in pose proof (parse_package_cur _ _ _ Hm) as H
  | _ => idtac
  end.

Lemma P_parse_file : DSw dgoodw (parse_file OPS self).
Proof. dprod parse_file. Qed.

Lemma P_entry_expression : DSw dgoodw (entry_expression OPS self).
Proof. dprod entry_expression. Qed.

Lemma P_entry_stmt : DSw dgoodw (entry_stmt OPS self).
Proof. dprod entry_stmt. Qed.

(* the entry points may also be entered before the first Parser::next *)
Lemma ensure_started_init (s : pstate) y s0 :
  Init E whole s -> ensure_started OPS s = Ok y s0 ->
  Fi lines E whole s0 /\ ensure_started OPS s0 = Ok tt s0.
Proof.
  intros Hi. pose proof Hi as (_ & Hst & _). unfold ensure_started. rewrite Hst. intros Hn.
  pose proof (F_next_init _ _ _ _ _ _ Hi Hn) as HF. split; [ exact HF | ].
  destruct HF as ((_ & _ & _ & (Hs0 & _) & _) & _). rewrite Hs0. reflexivity.
Qed.

Lemma P_parse_file_init (s : pstate) r s' :
  Init E whole s -> parse_file OPS self s = Ok r s' -> Fi lines E whole s' /\ dgoodw r.
Proof.
  intros Hi H. revert H. unfold parse_file at 1. apply bind_inv. intros y s0 He Hk.
  destruct (ensure_started_init _ _ _ Hi He) as (HF & He0).
  apply (P_parse_file s0 r s' HF). unfold parse_file. rewrite He0. exact Hk.
Qed.

Lemma P_entry_stmt_init (s : pstate) r s' :
  Init E whole s -> entry_stmt OPS self s = Ok r s' -> Fi lines E whole s' /\ dgoodw r.
Proof.
  intros Hi H. revert H. unfold entry_stmt at 1. apply bind_inv. intros y s0 He Hk.
  destruct (ensure_started_init _ _ _ Hi He) as (HF & He0).
  apply (P_entry_stmt s0 r s' HF). unfold entry_stmt. rewrite He0. exact Hk.
Qed.

Lemma P_entry_expression_init (s : pstate) r s' :
  Init E whole s -> entry_expression OPS self s = Ok r s' -> Fi lines E whole s' /\ dgoodw r.
Proof.
  intros Hi H. revert H. unfold entry_expression at 1. apply bind_inv. intros y s0 He Hk.
  destruct (ensure_started_init _ _ _ Hi He) as (HF & He0).
  apply (P_entry_expression s0 r s' HF). unfold entry_expression. rewrite He0. exact Hk.
Qed.

End Step3.


(* ------------------------------------------------------------------ closing the recursion *)

Section Close.
Variable lines : list N.
Variable E : Type.
Notation cm := Policy.comment.
Notation OPS := (policy_ops lines).
Notation pstate := (Core.pstate N (list cm) cstate E).
Notation res := (Core.res N (list cm) cstate E).
Notation parsers := (Core.parsers N (list cm) cstate (list cm) E).
Notation selem := (Core.selem N (list cm)).
Notation sterm := (Core.sterm N (list cm) E).
Notation nodeT := (node N (list cm)).

Theorem GoodD_parsers_at whole d : GoodD lines E whole (parsers_at OPS d).
Proof.
  apply (parsers_at_ind _ _ _ _ E OPS (fun self => GoodD lines E whole self)).
  - apply GoodD_no_fuel.
  - intros self H. apply GoodD_step, H.
Qed.

Definition node_doc_ok (whole : list selem) (n : nodeT) : Prop :=
  own_doc_ok lines whole (n_tag n) (n_ps n) (n_docs n) (n_kids n).

Lemma dgood_all whole f : dgood lines whole f -> forall n, occurs n f -> node_doc_ok whole n.
Proof. intros Hf n Hn. apply dgood_own. eapply dgood_occurs; eassumption. Qed.

Theorem parse_file_nested d a0 d0 elems (term : sterm) f s' :
  c_prev d0 = None ->
  parse_file OPS (parsers_at OPS d) (init_state a0 d0 elems term) = Ok f s' ->
  forall n, occurs n f -> node_doc_ok elems n.
Proof.
  intros H0 H. apply dgood_all.
  eapply (P_parse_file_init lines E elems _ (GoodD_parsers_at elems d)); [ | exact H ].
  apply Init_init, H0.
Qed.

Theorem entry_stmt_nested_init d a0 d0 elems (term : sterm) e s' :
  c_prev d0 = None ->
  entry_stmt OPS (parsers_at OPS d) (init_state a0 d0 elems term) = Ok e s' ->
  forall n, occurs n e -> node_doc_ok elems n.
Proof.
  intros H0 H. apply dgood_all.
  eapply (P_entry_stmt_init lines E elems _ (GoodD_parsers_at elems d)); [ | exact H ].
  apply Init_init, H0.
Qed.

Theorem entry_expression_nested_init d a0 d0 elems (term : sterm) e s' :
  c_prev d0 = None ->
  entry_expression OPS (parsers_at OPS d) (init_state a0 d0 elems term) = Ok e s' ->
  forall n, occurs n e -> node_doc_ok elems n.
Proof.
  intros H0 H. apply dgood_all.
  eapply (P_entry_expression_init lines E elems _ (GoodD_parsers_at elems d)); [ | exact H ].
  apply Init_init, H0.
Qed.

Theorem entry_stmt_nested d elems (s : pstate) e s' :
  Fi lines E elems s -> entry_stmt OPS (parsers_at OPS d) s = Ok e s' ->
  Fi lines E elems s' /\ forall n, occurs n e -> node_doc_ok elems n.
Proof.
  intros Hs H.
  destruct (P_entry_stmt lines E elems _ (GoodD_parsers_at elems d) _ _ _ Hs H) as (Hs' & Hg).
  split; [ exact Hs' | apply dgood_all, Hg ].
Qed.

Theorem entry_expression_nested d elems (s : pstate) e s' :
  Fi lines E elems s -> entry_expression OPS (parsers_at OPS d) s = Ok e s' ->
  Fi lines E elems s' /\ forall n, occurs n e -> node_doc_ok elems n.
Proof.
  intros Hs H.
  destruct (P_entry_expression lines E elems _ (GoodD_parsers_at elems d) _ _ _ Hs H) as (Hs' & Hg).
  split; [ exact Hs' | apply dgood_all, Hg ].
Qed.

(* [node_doc_ok], tag by tag *)
Lemma node_doc_ok_func whole n :
  node_doc_ok whole n -> n_tag n = GFuncDecl ->
  exists c, n_docs n = [c] /\ doc_at lines whole (func_pos n) c.
Proof. unfold node_doc_ok. intros H Ht. rewrite Ht in H. exact H. Qed.

Lemma node_doc_ok_field whole n :
  node_doc_ok whole n -> n_tag n = GField ->
  exists c c0, n_docs n = [c] /\ (c = c0 \/ exists x, c = c0 ++ [x]) /\
               doc_at lines whole (field_pos n) c0.
Proof. unfold node_doc_ok. intros H Ht. rewrite Ht in H. exact H. Qed.

Lemma node_doc_ok_decl whole n k :
  node_doc_ok whole n -> n_tag n = decl_tag k ->
  match n_ps n with
  | [pos0] =>
      n_docs n = [[]] /\
      exists sp c, n_kids n = [sp] /\ n_tag sp = spec_tag_of k /\ n_docs sp = [c] /\
                   doc_at lines whole (Some pos0) c
  | pos0 :: _ =>
      exists c, n_docs n = [c] /\ doc_at lines whole (Some pos0) c /\
                Forall (spec_ok lines whole (spec_tag_of k)) (n_kids n)
  | [] => False
  end.
Proof.
  unfold node_doc_ok. intros H Ht. rewrite Ht in H. rewrite <- spec_of_decl_tag.
  destruct k; exact H.
Qed.

(* what [doc_at] says, without the bookkeeping: the token is in the input, and
   the documentation is computed from its own comments and the true end of
   what precedes it *)
Lemma doc_at_inv whole po c :
  doc_at lines whole po c -> c <> [] ->
  exists pos a1 t g prev g',
    po = Some pos /\ In (SE pos a1 t g) whole /\
    c = lead_spec (line_c lines) (line_start_c lines) prev g' (Some pos) /\
    ((g' = g /\ exists pre p0 a0 t0 g0 rest,
         whole = pre ++ SE p0 a0 t0 g0 :: SE pos a1 t g :: rest /\ prev = Some a0) \/
     (g' = g /\ exists rest, whole = SE pos a1 t g :: rest /\ prev = None) \/
     (exists x, g = x :: g' /\ prev = Some (cend x))).
Proof.
  intros [-> | (pos & a1 & t & g & prev & g' & Hp & Hs & Hc)] Hne; [ contradiction Hne; reflexivity | ].
  exists pos, a1, t, g, prev, g'. split; [ exact Hp | ].
  assert (Hin : In (SE pos a1 t g) whole).
  { destruct Hs as [(_ & pre & p0 & a0 & t0 & g0 & rest & -> & _) | [(_ & rest & -> & _) | (x & _ & _ & Hi)]].
    - apply in_or_app. right. right. left. reflexivity.
    - left. reflexivity.
    - exact Hi. }
  split; [ exact Hin | ]. split; [ exact Hc | ].
  destruct Hs as [H1 | [H2 | (x & Hg & Hpv & _)]]; [ left; exact H1 | right; left; exact H2 | ].
  right; right. exists x. split; assumption.
Qed.

(* EVERY documentation value stored anywhere: the documentation of a token of
   the input, plus possibly the comment after a struct field *)
Theorem node_doc_ok_all whole n :
  node_doc_ok whole n -> forall c, In c (n_docs n) ->
  exists c0 po, (c = c0 \/ exists x, c = c0 ++ [x]) /\ doc_at lines whole po c0.
Proof.
  unfold node_doc_ok. intros H c Hc.
  assert (Hnil : n_docs n = [] -> exists c0 po, (c = c0 \/ exists x, c = c0 ++ [x]) /\
                                              doc_at lines whole po c0).
  { intros Hn. rewrite Hn in Hc. destruct Hc. }
  assert (Hone : forall c' po, n_docs n = [c'] -> doc_at lines whole po c' ->
                 exists c0 po, (c = c0 \/ exists x, c = c0 ++ [x]) /\ doc_at lines whole po c0).
  { intros c' po Hn Hd. rewrite Hn in Hc. destruct Hc as [<- | []]. exists c', po. auto. }
  assert (Hdecl : forall t, n_tag n = t ->
            match n_ps n with
            | [pos0] =>
                n_docs n = [[]] /\
                exists sp c, n_kids n = [sp] /\ n_tag sp = spec_of_decl t /\ n_docs sp = [c] /\
                             doc_at lines whole (Some pos0) c
            | pos0 :: _ =>
                exists c, n_docs n = [c] /\ doc_at lines whole (Some pos0) c /\
                          Forall (spec_ok lines whole (spec_of_decl t)) (n_kids n)
            | [] => False
            end ->
            exists c0 po, (c = c0 \/ exists x, c = c0 ++ [x]) /\ doc_at lines whole po c0).
  { intros t _ Hd. destruct (n_ps n) as [|pos0 [|l r]]; [ destruct Hd | | ].
    - destruct Hd as (Hn & _). eapply Hone; [ exact Hn | apply (doc_at_nil lines whole None) ].
    - destruct Hd as (c' & Hn & Hd & _). eapply Hone; eassumption. }
  destruct (n_tag n) eqn:Et; cbn [own_doc_ok] in H; try (apply Hnil; exact H);
    try (eapply Hdecl; [ reflexivity | exact H ]).
  - (* Field *)
    destruct H as (c' & c0 & Hn & Hs & Hd). rewrite Hn in Hc. destruct Hc as [<- | []].
    exists c0, (fpos (n_kids (nth 0 (n_kids n) nnone)) (nth 1 (n_kids n) nnone)). auto.
  - destruct H as (c' & po & Hn & Hd). eapply Hone; eassumption.
  - destruct H as (c' & po & Hn & Hd). eapply Hone; eassumption.
  - destruct H as (c' & po & Hn & Hd). eapply Hone; eassumption.
  - destruct H as (c' & Hn & Hd). eapply Hone; eassumption.
  - destruct H as (c' & po & Hn & Hd). eapply Hone; eassumption.
Qed.

Theorem parse_file_all_docs d a0 d0 elems (term : sterm) f s' :
  c_prev d0 = None ->
  parse_file OPS (parsers_at OPS d) (init_state a0 d0 elems term) = Ok f s' ->
  forall n, occurs n f -> forall c, In c (n_docs n) ->
  exists c0 po, (c = c0 \/ exists x, c = c0 ++ [x]) /\ doc_at lines elems po c0.
Proof.
  intros H0 H n Hn. apply node_doc_ok_all. eapply parse_file_nested; eassumption.
Qed.

(* the clauses of the property, for any documented node at any depth: every
   comment of the documentation is one of the token's own comments and does
   not trail what precedes the token (the TRUE previous end) *)
Theorem doc_at_comments whole po c x :
  doc_at lines whole po c -> In x c ->
  exists pos a1 t g prev g',
    po = Some pos /\ src whole pos a1 t g prev g' /\
    In x g' /\ ~ trailing (line_start_c lines) prev x.
Proof.
  intros [-> | (pos & a1 & t & g & prev & g' & Hp & Hs & ->)] Hx; [ destruct Hx | ].
  exists pos, a1, t, g, prev, g'. split; [ exact Hp | ]. split; [ exact Hs | ]. split.
  - eapply lead_spec_incl. exact Hx.
  - eapply lead_spec_not_trailing. exact Hx.
Qed.

End Close.
