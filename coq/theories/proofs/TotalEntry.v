(* TOTALITY at the public entry points of the model (Entry.run_entry): the
   instance with the crate's comment policy, started on a prepared source. *)
From Coq Require Import List NArith Bool Arith Lia.
From GoSyn Require Import Token Tok Scanner Ast Core Policy Entry.
From GoSyn.proofs Require Import Lift TotalBase TotalStepD TotalMeas TotalProofs.
Import ListNotations.
Close Scope N_scope.
Open Scope nat_scope.

Lemma wf_start_state p : wf (start_state p).
Proof. intros H. discriminate H. Qed.

(* EStmts is [stmts_run] *)
Lemma run_entry_stmts p k :
  run_entry (EStmts k) p =
  stmts_run (policy_ops (pr_lines p)) (parsers_at (policy_ops (pr_lines p)) (depth_fuel p)) k []
            (start_state p).
Proof.
  unfold run_entry. cbv zeta.
  match goal with |- context [@parsers_at ?a ?g ?d0 ?c ?e ?o ?d] =>
    generalize (@parsers_at a g d0 c e o d) end. intros P.
  match goal with |- ?F k [] ?s0 = _ =>
    enough (H : forall k' acc s, F k' acc s = stmts_run (policy_ops (pr_lines p)) P k' acc s)
      by apply H end.
  induction k' as [|k' IH]; intros acc s; [ reflexivity | ].
  cbn [stmts_run]. cbv beta iota.
  destruct (entry_stmt (policy_ops (pr_lines p)) P s); [ apply IH | reflexivity .. ].
Qed.

Theorem run_entry_no_panic e p n : run_entry e p <> Panic n.
Proof.
  destruct e as [ | | |k].
  - apply no_panic_parse_file, wf_start_state.
  - apply no_panic_entry_expression, wf_start_state.
  - apply no_panic_entry_stmt, wf_start_state.
  - rewrite run_entry_stmts. apply no_panic_stmts_run, wf_start_state.
Qed.

(* the depth fuel the model gives itself is always enough *)
Lemma meas_start_state p : meas (start_state p) = length (pr_elems p).
Proof. unfold meas, start_state, init_state. cbn. lia. Qed.

Lemma depth_fuel_small p : 6 * (meas (start_state p) + 1) <= depth_fuel p.
Proof. rewrite meas_start_state. unfold depth_fuel. lia. Qed.

Theorem run_entry_no_fuel e p : run_entry e p <> Fuel.
Proof.
  pose proof (depth_fuel_small p) as Hd. pose proof (wf_start_state p) as Hw.
  destruct e as [ | | |k].
  - apply (no_fuel_small_entries _ _ _ _ _ _ _ _ Hw Hd).
  - apply (no_fuel_small_entries _ _ _ _ _ _ _ _ Hw Hd).
  - apply (no_fuel_small_entries _ _ _ _ _ _ _ _ Hw Hd).
  - rewrite run_entry_stmts. apply no_fuel_small_stmts_run; assumption.
Qed.

(* every call of a public entry point of the model returns a tree or an error value *)
Theorem run_entry_total e p :
  (exists x s', run_entry e p = Ok x s') \/ (exists err s', run_entry e p = Err err s').
Proof.
  pose proof (run_entry_no_fuel e p) as Hf. pose proof (fun n => run_entry_no_panic e p n) as Hp.
  destruct (run_entry e p) as [x s'|err s'|n|]; eauto.
  - exfalso. eapply Hp. reflexivity.
  - contradiction.
Qed.
