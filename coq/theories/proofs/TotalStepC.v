(* TOTALITY, part 5: one unfolding of the recursion -- statements. *)
From Coq Require Import List Bool Arith Lia.
From GoSyn Require Import Token Tok Ast Core.
From GoSyn.proofs Require Import Lift TotalBase TotalLeaf TotalStepA TotalStepB.
Import ListNotations.

Section StmtValues.
Variables (A C : Type).
Notation nodeT := (node A C).

Lemma stmt_ok_other t ps ats (ks : list nodeT) : t <> GAssign -> stmt_ok (mk t ps ats ks).
Proof. intros H Ht. cbn in Ht. contradiction. Qed.

Lemma stmt_ok_assign pos ats (left right : list nodeT) :
  (exists r, right = [r]) \/ Forall ex_ok right ->
  stmt_ok (mk GAssign [pos] ats [nlist left; nlist right]).
Proof.
  intros H _. split; [ discriminate | ]. cbn.
  destruct H as [H | H]; [ left; exact H | right ].
  eapply Forall_impl; [ | exact H ]. intros e [_ He]. exact He.
Qed.

(* site 2169: a range clause is the only element of its right-hand side *)
Lemma range_last (st : nodeT) :
  stmt_ok st -> assign_is_range st = true ->
  exists r, pop_last (n_kids (kid st 1)) = Some ([], r) /\ is_tag GRange r = true.
Proof.
  unfold assign_is_range. intros Hs Ha. apply andb_true_iff in Ha as [Ha Hr].
  apply is_tag_true in Ha. destruct (Hs Ha) as [_ [[r Hk] | Hf]].
  - rewrite Hk in *. exists r. split; [ reflexivity | exact Hr ].
  - exfalso. destruct (n_kids (kid st 1)) as [|e l].
    + cbn in Hr. discriminate.
    + inversion Hf as [|? ? He _]; subst. cbn [nth] in Hr. apply is_tag_true in Hr. contradiction.
Qed.

End StmtValues.

#[export] Hint Extern 1 (stmt_ok (mk GAssign _ _ _)) => apply stmt_ok_assign : total.
#[export] Hint Extern 2 (stmt_ok (mk _ _ _ _)) => apply stmt_ok_other; discriminate : total.
#[export] Hint Extern 1 (exists r, [_] = [r]) => eexists; reflexivity : total.

Lemma stmt_list_end_false A G D E (s : pstate A G D E) :
  stmt_list_end s = false -> cur_is s (KOp OBraceRight) = false.
Proof.
  unfold stmt_list_end, cur_is. destruct (s_cur s) as [[p [tx|k|o|lk v]]|]; try reflexivity.
  destruct o; try reflexivity. discriminate.
Qed.
#[export] Hint Resolve stmt_list_end_false : total.

Section StepC.
Variables (A G D C E : Type) (OPS : ops A G D C).
Variable AF : Prop.
Variable adm : Core.pstate A G D E -> Prop.
Hypothesis adm_le : forall s s' : Core.pstate A G D E,
  adm s -> s_depth s' = s_depth s -> meas s' <= meas s -> adm s'.
Local Hint Extern 2 (adm _) =>
  eapply adm_le; [ eassumption | sproj; lia | norm_goal; lia ] : total.
Notation pstate := (Core.pstate A G D E).
Notation res := (Core.res A G D E).
Notation parsers := (Core.parsers A G D C E).
Notation nodeT := (node A C).

Notation tspec Q p := (forall s : pstate, WF s -> adm s -> spec AF s (Q s) (p s)).

Variable self : parsers.
Hypothesis HG : GoodT AF adm self.
Set Default Proof Using "adm_le HG".

Lemma T_parse_range_expr :
  tspec (fun s (_ : nodeT) s' => meas s' < meas s) (parse_range_expr OPS self).
Proof. tprod parse_range_expr. Qed.
Local Hint Resolve T_parse_range_expr : total.

Lemma T_parse_simple_stmt :
  tspec (fun s st s' => stmt_ok st /\ meas s' < meas s) (parse_simple_stmt OPS self).
Proof. tprod parse_simple_stmt. Qed.
Local Hint Resolve T_parse_simple_stmt : total.

Lemma T_stmts_until_brace : forall fuel acc (s : pstate),
  WF s -> adm s -> AF \/ meas s < fuel ->
  spec AF s (fun _ _ => True) (stmts_until_brace self fuel acc s).
Proof. tloop stmts_until_brace fuel. Qed.
Local Hint Resolve T_stmts_until_brace : total.

Lemma T_block_body : tspec (fun s (_ : nodeT) s' => meas s' < meas s) (block_body OPS self).
Proof. tprod block_body. Qed.

Lemma T_stmt_list_loop : forall fuel acc (s : pstate),
  WF s -> adm s -> AF \/ meas s < fuel ->
  spec AF s (fun _ _ => True) (stmt_list_loop self fuel acc s).
Proof. tloop stmt_list_loop fuel. Qed.
Local Hint Resolve T_stmt_list_loop : total.

Lemma T_parse_stmt_list :
  tspec (fun s (_ : list nodeT) s' => True) (parse_stmt_list self).
Proof. tprod parse_stmt_list. Qed.
Local Hint Resolve T_parse_stmt_list : total.

Lemma T_parse_go_defer is_go :
  tspec (fun s (_ : nodeT) s' => meas s' < meas s) (parse_go_defer OPS self is_go).
Proof. tprod parse_go_defer. Qed.
Local Hint Resolve T_parse_go_defer : total.

Lemma T_parse_return_stmt :
  tspec (fun s (_ : nodeT) s' => meas s' < meas s) (parse_return_stmt OPS self).
Proof. tprod parse_return_stmt. Qed.
Local Hint Resolve T_parse_return_stmt : total.

Lemma T_parse_if_header :
  tspec (fun s (_ : option nodeT * nodeT) s' => True) (parse_if_header OPS self).
Proof. tprod parse_if_header. Qed.
Local Hint Resolve T_parse_if_header : total.

Lemma T_if_body : tspec (fun s (_ : nodeT) s' => meas s' < meas s) (if_body OPS self).
Proof. tprod if_body. Qed.

Lemma T_case_block_loop : forall fuel ta acc (s : pstate),
  WF s -> adm s -> AF \/ meas s < fuel ->
  spec AF s (fun _ _ => True) (case_block_loop OPS self fuel ta acc s).
Proof. tloop case_block_loop fuel. Qed.
Local Hint Resolve T_case_block_loop : total.

Lemma T_parse_case_block ta :
  tspec (fun s (_ : nodeT) s' => meas s' < meas s) (parse_case_block OPS self ta).
Proof. tprod parse_case_block. Qed.
Local Hint Resolve T_parse_case_block : total.

(* site 2043 *)
Lemma T_parse_switch_stmt :
  tspec (fun s (_ : nodeT) s' => meas s' < meas s) (parse_switch_stmt OPS self).
Proof. tprod parse_switch_stmt. Qed.
Local Hint Resolve T_parse_switch_stmt : total.

Lemma T_parse_comm_stmt :
  tspec (fun s (_ : nodeT) s' => meas s' < meas s) (parse_comm_stmt OPS self).
Proof. tprod parse_comm_stmt. Qed.
Local Hint Resolve T_parse_comm_stmt : total.

Lemma T_comm_block_loop : forall fuel acc (s : pstate),
  WF s -> adm s -> AF \/ meas s < fuel ->
  spec AF s (fun _ _ => True) (comm_block_loop OPS self fuel acc s).
Proof. tloop comm_block_loop fuel. Qed.
Local Hint Resolve T_comm_block_loop : total.

Lemma T_parse_select_stmt :
  tspec (fun s (_ : nodeT) s' => meas s' < meas s) (parse_select_stmt OPS self).
Proof. tprod parse_select_stmt. Qed.
Local Hint Resolve T_parse_select_stmt : total.

(* site 2169 *)
Lemma T_parse_for_stmt :
  tspec (fun s (_ : nodeT) s' => meas s' < meas s) (parse_for_stmt OPS self).
Proof.
  Ltac tstep_hook ::=
    match goal with
    | Hs : stmt_ok ?st, Ha : assign_is_range ?st = true
      |- context [pop_last (n_kids (kid ?st 1))] =>
        let r := fresh "r" in let Hp := fresh "Hp" in let Hr := fresh "Hr" in
        destruct (range_last _ _ st Hs Ha) as (r & Hp & Hr); rewrite Hp; cbv beta iota; rewrite Hr
    end.
  tprod parse_for_stmt.
  Ltac tstep_hook ::= fail.
Qed.
Local Hint Resolve T_parse_for_stmt : total.

Unset Default Proof Using.
End StepC.

#[export] Hint Resolve T_parse_range_expr T_parse_simple_stmt T_stmts_until_brace T_block_body
  T_stmt_list_loop T_parse_stmt_list T_parse_go_defer T_parse_return_stmt T_parse_if_header
  T_if_body T_case_block_loop T_parse_case_block T_parse_switch_stmt T_parse_comm_stmt
  T_comm_block_loop T_parse_select_stmt T_parse_for_stmt : total.
