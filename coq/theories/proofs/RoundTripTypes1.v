(* Round trip for types, part 1: type names, qualified names, instantiation,
   pointer / slice / array / map / channel / parenthesised types. *)
From Coq Require Import List Arith NArith Lia Bool.
From GoSyn Require Import Token Tok Ast Core.
From GoSyn.spec Require Import Prec Print Print2.
From GoSyn.proofs Require Import PrecProofs RoundTripProofs RoundTripTypesBase RoundTripTypesAot.
Import ListNotations.

Section T1.
Variables (A G D C E : Type).
Variable OPS : ops A G D C.
Notation nodeT := (node A C).
Notation pstateT := (pstate A G D E).
Notation cur := (s_cur A G D E).
Notation srest := (s_rest A G D E).
Notation sdepth := (s_depth A G D E).
Notation lp := (s_lp A G D E).
Notation ln := (s_ln A G D E).
Notation PA := (parsers_at A G D C E OPS).
Notation erase := (@erase A C).
Notation at_toks := (@at_toks A G D E).
Notation frame := (@frame A G D E).
Variable X : Type.
Variables (printX : X -> list token) (shapeX : X -> shapeT) (wfX : X -> Prop).
Variables (depthX needX : X -> nat).
Notation typ := (typ X).
Notation printT := (printT printX).
Notation shapeTy := (shapeTy shapeX).
Notation wfT := (wfT wfX).
Notation depthT := (depthT depthX).
Notation needT := (needT needX).
Notation TNP := (TNP A G D C E OPS X printX shapeX depthX needX).
Notation TP := (TP A G D C E OPS X printX shapeX depthX needX).
Notation TOB := (type_or_none_body A G D C E OPS).
Notation KTN := (k_type_or_none A G D C E).

Notation TBP := (TBP A G D C E OPS X printX shapeX depthX needX).

Notation XOK := (XOK A G D C E OPS X printX shapeX depthX needX).

(*  T   pkg.T   T[A, B]   pkg.T[A]  *)
Lemma TB_named : forall t, named_type X t -> wfT t ->
  (forall b args, t = TInst b args -> Forall (fun a => wfT a /\ TNP a) args) -> TBP t.
Proof.
  intros t Hnt Hwf Hargs d s rst Hd Hat Hfo Hdep Hlev.
  pose proof Hat as Hat'. rewrite (printT_named X printX t Hnt) in Hat'. cbn [app] in Hat'.
  destruct (at_toks_cur _ _ _ Hat') as (p & Hc).
  assert (Hnb : is_blank (first_ident X t) = false).
  { destruct t as [name | pkg name | b args | | | | | | | | | |]; try destruct Hnt.
    - apply blank_false. exact Hwf.
    - apply blank_false. exact Hwf.
    - destruct Hwf as (Hb & Hwb & _). destruct b; try destruct Hb; apply blank_false; exact Hwb. }
  destruct (qualified_ident_ok A G D C E OPS X printX shapeX wfX depthX needX t Hnt Hwf Hargs
              None d s rst Hd Hat Hfo Hdep Hlev) as (n & s1 & Hq & He & Hat1 & Hf1).
  exists n, s1. split; [| split; [exact He | split; [exact Hat1 | exact Hf1]]].
  unfold type_or_none_body. rewrite Hc. unfold ident_tok. rewrite Hnb. rewrite Hq. reflexivity.
Qed.

Lemma TB_ptr : forall t, TP t -> TBP (TPtr t).
Proof.
  intros t HT d s rst Hd Hat Hfo Hdep Hlev. simpl in Hd, Hat, Hdep, Hlev.
  destruct (at_toks_cur _ _ _ Hat) as (p & Hc).
  destruct (expect_toks OPS s _ _ (KOp OStar) 45 Hat eq_refl) as (p0 & s1 & Hx & Hat1 & Hf1).
  destruct (HT d s1 rst) as (n & s2 & Hk & He & Hat2 & Hf2);
    [side | exact Hat1 | exact Hfo | side | side |].
  exists (mk A C GTypePointer [p0] [] [n]), s2.
  split; [| split; [simpl; rewrite He; reflexivity | split; [exact Hat2 |
            exact (frame_trans _ _ _ Hf1 Hf2)]]].
  unfold type_or_none_body. rewrite Hc. unfold tk. rewrite Hx. cbn [bind]. rewrite Hk. reflexivity.
Qed.

Lemma TB_slice : forall t, TP t -> TBP (TSlice t).
Proof.
  intros t HT d s rst Hd Hat Hfo Hdep Hlev. simpl in Hd, Hat, Hdep, Hlev.
  destruct (at_toks_cur _ _ _ Hat) as (p & Hc).
  destruct (expect_toks OPS s _ _ (KOp OBarackLeft) 48 Hat eq_refl) as (p0 & s1 & Hx & Hat1 & Hf1).
  destruct (expect_toks OPS s1 _ _ (KOp OBarackRight) 49 Hat1 eq_refl) as (p1 & s2 & Hx2 & Hat2 & Hf2).
  pose proof (frame_trans _ _ _ Hf1 Hf2) as Hf12.
  destruct (HT d s2 rst) as (n & s3 & Hk & He & Hat3 & Hf3);
    [side | exact Hat2 | exact Hfo | side | side |].
  exists (mk A C GTypeSlice [p0; p1] [] [n]), s3.
  split; [| split; [simpl; rewrite He; reflexivity | split; [exact Hat3 |
            exact (frame_trans _ _ _ Hf12 Hf3)]]].
  unfold type_or_none_body. rewrite Hc. unfold tk. rewrite Hx. cbn [bind].
  rewrite (cur_is_toks _ _ _ _ Hat1). change (tok_is (tk OBarackRight) (KOp OBarackRight)) with true.
  cbv iota. rewrite Hx2. cbn [bind]. rewrite Hk. reflexivity.
Qed.

Lemma TB_arraydots : forall t, TP t -> TBP (TArrayDots t).
Proof.
  intros t HT d s rst Hd Hat Hfo Hdep Hlev. simpl in Hd, Hat, Hdep, Hlev.
  destruct (at_toks_cur _ _ _ Hat) as (p & Hc).
  destruct (expect_toks OPS s _ _ (KOp OBarackLeft) 48 Hat eq_refl) as (p0 & s1 & Hx & Hat1 & Hf1).
  destruct (skipped_yes OPS s1 _ _ (KOp ODotDotDot) Hat1 eq_refl) as (s2 & Hs & Hat2 & Hf2).
  destruct (expect_toks OPS s2 _ _ (KOp OBarackRight) 50 Hat2 eq_refl) as (p1 & s3 & Hx3 & Hat3 & Hf3).
  pose proof (frame_trans _ _ _ (frame_trans _ _ _ Hf1 Hf2) Hf3) as Hf13.
  destruct (HT d s3 rst) as (n & s4 & Hk & He & Hat4 & Hf4);
    [side | exact Hat3 | exact Hfo | side | side |].
  exists (mk A C GTypeArray [p0; p1] [] [mk A C GEllipsis [cur_pos A G D E s1] [] [nnone]; n]), s4.
  split; [| split; [simpl; rewrite He; reflexivity | split; [exact Hat4 |
            exact (frame_trans _ _ _ Hf13 Hf4)]]].
  unfold type_or_none_body. rewrite Hc. unfold tk. rewrite Hx. cbn [bind].
  rewrite (cur_is_toks _ _ _ _ Hat1). change (tok_is (tk ODotDotDot) (KOp OBarackRight)) with false.
  cbv iota. unfold array_len. rewrite Hs. cbn [bind]. rewrite Hx3. cbn [bind]. rewrite Hk. reflexivity.
Qed.

Lemma TB_array : forall x t, XOK x -> TP t -> TBP (TArray x t).
Proof.
  intros x t (HX & (tok & l0 & Hpx & Hnb & Hnd)) HT d s rst Hd Hat Hfo Hdep Hlev.
  simpl in Hd, Hat, Hdep, Hlev. rewrite <- app_assoc in Hat. cbn [app] in Hat.
  destruct (at_toks_cur _ _ _ Hat) as (p & Hc).
  destruct (expect_toks OPS s _ _ (KOp OBarackLeft) 48 Hat eq_refl) as (p0 & s1 & Hx & Hat1 & Hf1).
  assert (Hc1 : cur_is A G D E s1 (KOp OBarackRight) = false /\
                skipped A G D C E OPS (KOp ODotDotDot) s1 = Ok false s1).
  { pose proof Hat1 as Hat1'. rewrite Hpx in Hat1'. cbn [app] in Hat1'.
    split; [rewrite (cur_is_toks _ _ _ _ Hat1'); exact Hnb |].
    apply (skipped_no OPS s1 _ _ Hat1'). exact Hnd. }
  destruct Hc1 as (Hnb1 & Hsk).
  destruct (xke_pnl A G D C E OPS X printX shapeX depthX needX x HX d s1 (printT t ++ rst))
    as (nx & s2 & Hk & Hex & Hat2 & Hf2);
    [lia | exact Hat1 | side | side |].
  pose proof (frame_trans _ _ _ Hf1 Hf2) as Hf12.
  destruct (expect_toks OPS s2 _ _ (KOp OBarackRight) 50 Hat2 eq_refl) as (p1 & s3 & Hx3 & Hat3 & Hf3).
  pose proof (frame_trans _ _ _ Hf12 Hf3) as Hf13.
  destruct (HT d s3 rst) as (n & s4 & Hkt & He & Hat4 & Hf4);
    [side | exact Hat3 | exact Hfo | side | side |].
  exists (mk A C GTypeArray [p0; p1] [] [nx; n]), s4.
  split; [| split; [simpl; rewrite Hex, He; reflexivity | split; [exact Hat4 |
            exact (frame_trans _ _ _ Hf13 Hf4)]]].
  unfold type_or_none_body. rewrite Hc. unfold tk. rewrite Hx. cbn [bind]. rewrite Hnb1.
  unfold array_len. rewrite Hsk. cbn [bind]. rewrite Hk. cbn [bind]. rewrite Hx3. cbn [bind].
  rewrite Hkt. reflexivity.
Qed.

Lemma TB_map : forall k v, TP k -> TP v -> TBP (TMap k v).
Proof.
  intros k v HK HV d s rst Hd Hat Hfo Hdep Hlev. simpl in Hd, Hat, Hdep, Hlev.
  rewrite <- app_assoc in Hat. cbn [app] in Hat.
  destruct (at_toks_cur _ _ _ Hat) as (p & Hc).
  destruct (next_toks OPS _ _ (at_toks_rest' _ _ _ Hat)) as (s1 & Hn & Hat1 & Hf1).
  destruct (expect_toks OPS s1 _ _ (KOp OBarackLeft) 52 Hat1 eq_refl) as (p0 & s2 & Hx & Hat2 & Hf2).
  pose proof (frame_trans _ _ _ Hf1 Hf2) as Hf12.
  destruct (HK d s2 (tk OBarackRight :: printT v ++ rst)) as (nk & s3 & Hk & Hek & Hat3 & Hf3);
    [side | exact Hat2 | apply tfollow_tok; reflexivity | side | side |].
  pose proof (frame_trans _ _ _ Hf12 Hf3) as Hf13.
  destruct (expect_toks OPS s3 _ _ (KOp OBarackRight) 53 Hat3 eq_refl) as (p1 & s4 & Hx4 & Hat4 & Hf4).
  pose proof (frame_trans _ _ _ Hf13 Hf4) as Hf14.
  destruct (HV d s4 rst) as (nv & s5 & Hkv & Hev & Hat5 & Hf5);
    [side | exact Hat4 | exact Hfo | side | side |].
  exists (mk A C GTypeMap [p0; p1] [] [nk; nv]), s5.
  split; [| split; [simpl; rewrite Hek, Hev; reflexivity | split; [exact Hat5 |
            exact (frame_trans _ _ _ Hf14 Hf5)]]].
  unfold type_or_none_body. rewrite Hc. unfold kw. rewrite Hn. cbn [bind]. rewrite Hx. cbn [bind].
  rewrite Hk. cbn [bind]. rewrite Hx4. cbn [bind]. rewrite Hkv. reflexivity.
Qed.

Lemma TB_paren : forall t, TP t -> TBP (TParen t).
Proof.
  intros t HT d s rst Hd Hat Hfo Hdep Hlev. simpl in Hd, Hat, Hdep, Hlev.
  rewrite <- app_assoc in Hat. cbn [app] in Hat.
  destruct (at_toks_cur _ _ _ Hat) as (p & Hc).
  destruct (next_toks OPS _ _ (at_toks_rest' _ _ _ Hat)) as (s1 & Hn & Hat1 & Hf1).
  destruct (HT d s1 (tk OParenRight :: rst)) as (n & s2 & Hk & He & Hat2 & Hf2);
    [side | exact Hat1 | apply tfollow_tok; reflexivity | side | side |].
  destruct (expect_toks OPS s2 _ _ (KOp OParenRight) 54 Hat2 eq_refl) as (p1 & s3 & Hx & Hat3 & Hf3).
  exists (mk A C GParen [p; p1] [] [n]), s3.
  split; [| split; [simpl; rewrite He; reflexivity | split; [exact Hat3 |
            exact (frame_trans _ _ _ (frame_trans _ _ _ Hf1 Hf2) Hf3)]]].
  unfold type_or_none_body. rewrite Hc. unfold tk. rewrite Hn. cbn [bind]. rewrite Hk. cbn [bind].
  rewrite Hx. reflexivity.
Qed.

Lemma TB_chan : forall dir t, TP t -> wfT (TChan dir t) -> TBP (TChan dir t).
Proof.
  intros dir t HT (Hwt & Hrecv) d s rst Hd Hat Hfo Hdep Hlev. simpl in Hd, Hdep, Hlev.
  destruct dir; cbn [Print2.printT app] in Hat.
  - (* chan T *)
    destruct (at_toks_cur _ _ _ Hat) as (p & Hc).
    destruct (expect_toks OPS s _ _ (KKw KChan) 51 Hat eq_refl) as (p0 & s1 & Hx & Hat1 & Hf1).
    assert (Hsk : skipped A G D C E OPS (KOp OArrow) s1 = Ok false s1).
    { destruct (first_tokT X printX wfX t Hwt) as (tok & l0 & Hpt & _ & _ & Harrow).
      pose proof Hat1 as Hat1'. rewrite Hpt in Hat1'. cbn [app] in Hat1'.
      apply (skipped_no OPS s1 _ _ Hat1').
      destruct (tok_is tok (KOp OArrow)) eqn:Ha; [| reflexivity].
      exfalso. exact (Hrecv eq_refl (Harrow eq_refl)). }
    destruct (HT d s1 rst) as (n & s2 & Hk & He & Hat2 & Hf2);
      [side | exact Hat1 | exact Hfo | side | side |].
    exists (mk A C GTypeChannel [p0; cur_pos A G D E s1] [ADir 0] [n]), s2.
    split; [| split; [simpl; rewrite He; reflexivity | split; [exact Hat2 |
              exact (frame_trans _ _ _ Hf1 Hf2)]]].
    unfold type_or_none_body. rewrite Hc. unfold kw. rewrite Hx. cbn [bind]. rewrite Hsk. cbn [bind].
    rewrite Hk. reflexivity.
  - (* chan<- T *)
    destruct (at_toks_cur _ _ _ Hat) as (p & Hc).
    destruct (expect_toks OPS s _ _ (KKw KChan) 51 Hat eq_refl) as (p0 & s1 & Hx & Hat1 & Hf1).
    destruct (skipped_yes OPS s1 _ _ (KOp OArrow) Hat1 eq_refl) as (s2 & Hsk & Hat2 & Hf2).
    pose proof (frame_trans _ _ _ Hf1 Hf2) as Hf12.
    destruct (HT d s2 rst) as (n & s3 & Hk & He & Hat3 & Hf3);
      [side | exact Hat2 | exact Hfo | side | side |].
    exists (mk A C GTypeChannel [p0; cur_pos A G D E s1] [ADir 1] [n]), s3.
    split; [| split; [simpl; rewrite He; reflexivity | split; [exact Hat3 |
              exact (frame_trans _ _ _ Hf12 Hf3)]]].
    unfold type_or_none_body. rewrite Hc. unfold kw. rewrite Hx. cbn [bind]. rewrite Hsk. cbn [bind].
    rewrite Hk. reflexivity.
  - (* <-chan T *)
    destruct (at_toks_cur _ _ _ Hat) as (p & Hc).
    destruct (expect_toks OPS s _ _ (KOp OArrow) 46 Hat eq_refl) as (p0 & s1 & Hx & Hat1 & Hf1).
    destruct (expect_toks OPS s1 _ _ (KKw KChan) 47 Hat1 eq_refl) as (p1 & s2 & Hx2 & Hat2 & Hf2).
    pose proof (frame_trans _ _ _ Hf1 Hf2) as Hf12.
    destruct (HT d s2 rst) as (n & s3 & Hk & He & Hat3 & Hf3);
      [side | exact Hat2 | exact Hfo | side | side |].
    exists (mk A C GTypeChannel [p1; p0] [ADir 2] [n]), s3.
    split; [| split; [simpl; rewrite He; reflexivity | split; [exact Hat3 |
              exact (frame_trans _ _ _ Hf12 Hf3)]]].
    unfold type_or_none_body. rewrite Hc. unfold tk. rewrite Hx. cbn [bind]. rewrite Hx2. cbn [bind].
    rewrite Hk. reflexivity.
Qed.

End T1.
