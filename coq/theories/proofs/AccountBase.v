(* TOKEN ACCOUNTING (C06): the identifier and literal tokens a production
   consumes are exactly the identifier and literal leaves of the tree it
   returns, in order, each once.

   RESULT-LEVEL framework: where Lift.v lifts predicates on states, here a
   specification relates the state before, the value returned and the state
   after:   [Spec LV pre Sh p]  says that whenever [p s = Ok r s'],
     - [Sh r]                          (a shape fact about the value, often True)
     - [acct s L s']                   for some list L of leaves, i.e.
            remaining s = used ++ remaining s'   and   L = identlits used
     - [LV r = pre ++ L]               the leaves of the value are those of the
                                       already parsed arguments ([pre]) followed
                                       by the identifier / literal tokens used.
   [remaining s] is the current token followed by the unread stream.  [acct]
   carries the well-formedness of the backtracking mark ([wf]: the mark IS the
   remaining input), so that [goback] to a mark taken in a state s0 restores
   [remaining s0]: whatever a speculative parse consumed is given back, and its
   discarded result contributes no leaves.  No fact about [Err] states is
   needed: the interface loop continues from an error only through goback.

   BRACKETS (second half of C06): [acct] also runs the bracket tokens of [used]
   through a stack machine ([run st used = Some st']).  A production is
   NEUTRAL ([nacct]): from every stack it returns to the same stack; the
   primitives that take an opening / closing bracket push / pop.  Hence the
   round, square and curly brackets of an accepted source are properly nested
   ([balanced]: run [] all = Some []). *)
From Coq Require Import List Bool Arith NArith Lia.
From GoSyn Require Import Token Tok Ast Core.
From GoSyn.proofs Require Import Lift.
Import ListNotations.

Arguments mk {A C}.
Arguments mkd {A C}.
Arguments n_ident {A C}.
Arguments n_basic {A C}.
Arguments n_strlit {A C}.
Arguments n_field {A C}.
Arguments field_of {A G D C}.
Arguments n_fieldlist {A C}.
Arguments n_operation {A C}.
Arguments n_functype {A C}.
Arguments empty_fieldlist {A C}.
Arguments ident_name {A C}.
Arguments expr_pos {A C}.
Arguments unparen {A C}.
Arguments extract {A C}.

(* ------------------------------------------------------------------ leaves *)

Definition is_dot (name : str) : bool := str_eqb name [46%N].

(* identifier and literal tokens.  The one exception of the model: an
   identifier spelled "." (the scanner never produces one; the parser builds
   such an Ident for `import . "x"` from the operator token) is not counted on
   either side. *)
Definition is_lit_tok (t : token) : bool :=
  match t with
  | TLiteral LIdent name => negb (is_dot name)
  | TLiteral _ _ => true
  | _ => false
  end.

Section Leaves.
Variables (A C : Type).
Definition leaf : Type := (A * token)%type.
Definition is_lit (l : leaf) : bool := is_lit_tok (snd l).
Definition identlits (l : list leaf) : list leaf := filter is_lit l.

Definition own_leaf (t : tag) (ps : list A) (ats : list attr) : list leaf :=
  match t, ps, ats with
  | GIdent, p :: _, AStr name :: _ => identlits [(p, TLiteral LIdent name)]
  | GBasicLit, p :: _, ALk k :: AStr v :: _ => identlits [(p, TLiteral k v)]
  | GStringLit, p :: _, AStr v :: _ => identlits [(p, TLiteral LString v)]
  | _, _, _ => []
  end.

Fixpoint leaves (n : node A C) : list leaf :=
  match n with
  | Nd t ps ats _ ks => own_leaf t ps ats ++ flat_map leaves ks
  end.

Notation leavesl := (flat_map leaves).
Definition leaveso (o : option (node A C)) : list leaf :=
  match o with Some n => leaves n | None => [] end.

Lemma identlits_app l1 l2 : identlits (l1 ++ l2) = identlits l1 ++ identlits l2.
Proof. apply filter_app. Qed.

Lemma leavesl_app l1 l2 : leavesl (l1 ++ l2) = leavesl l1 ++ leavesl l2.
Proof. apply flat_map_app. Qed.
Lemma leavesl_cons x l : leavesl (x :: l) = leaves x ++ leavesl l.
Proof. reflexivity. Qed.
Lemma leavesl_nil : leavesl [] = [].
Proof. reflexivity. Qed.
Lemma leaves_nlist l : leaves (nlist l) = leavesl l.
Proof. reflexivity. Qed.
Lemma leaves_nopt o : leaves (nopt o) = leaveso o.
Proof. destruct o; reflexivity. Qed.
Lemma leaves_nnone : leaves (@nnone A C) = [].
Proof. reflexivity. Qed.
Lemma leaves_set_docs n d : leaves (set_docs n d) = leaves n.
Proof. destruct n; reflexivity. Qed.

End Leaves.
Arguments leaf A : clear implicits.
Arguments is_lit {A}.
Arguments identlits {A}.
Arguments leaves {A C}.
Notation leavesl := (flat_map leaves).
Arguments leaveso {A C}.
Arguments own_leaf {A}.

(* ------------------------------------------------------------------ brackets *)

Inductive bkind : Set := BParen | BBrack | BBrace.
Definition bkind_eqb (a b : bkind) : bool :=
  match a, b with
  | BParen, BParen | BBrack, BBrack | BBrace, BBrace => true
  | _, _ => false
  end.

(* opening (true) / closing (false) bracket of which kind *)
Definition tok_bk (t : token) : option (bool * bkind) :=
  match t with
  | TOperator OParenLeft => Some (true, BParen)
  | TOperator OParenRight => Some (false, BParen)
  | TOperator OBarackLeft => Some (true, BBrack)
  | TOperator OBarackRight => Some (false, BBrack)
  | TOperator OBraceLeft => Some (true, BBrace)
  | TOperator OBraceRight => Some (false, BBrace)
  | _ => None
  end.

Section Brackets.
Variable A : Type.
Notation leafT := (leaf A).

(* the stack machine: None = a closing bracket without its opening bracket *)
Fixpoint run (st : list bkind) (l : list leafT) : option (list bkind) :=
  match l with
  | [] => Some st
  | x :: r =>
      match tok_bk (snd x) with
      | None => run st r
      | Some (true, k) => run (k :: st) r
      | Some (false, k) =>
          match st with
          | k' :: st' => if bkind_eqb k k' then run st' r else None
          | [] => None
          end
      end
  end.

Definition balanced (l : list leafT) : Prop := run [] l = Some [].

Lemma run_app l1 : forall st l2,
  run st (l1 ++ l2) = match run st l1 with Some st1 => run st1 l2 | None => None end.
Proof.
  induction l1 as [|x l1 IH]; intros st l2; [ reflexivity | ]. cbn [app run].
  destruct (tok_bk (snd x)) as [[[] k]|]; auto.
  destruct st as [|k' st']; [ reflexivity | ]. destruct (bkind_eqb k k'); auto.
Qed.

(* the effect of one token *)
Definition step1 (t : token) (st st' : list bkind) : Prop :=
  match tok_bk t with
  | None => st' = st
  | Some (true, k) => st' = k :: st
  | Some (false, k) => st = k :: st'
  end.

Lemma run_one (p : A) t st st' : step1 t st st' -> run st [(p, t)] = Some st'.
Proof.
  unfold step1. cbn [run snd]. destruct (tok_bk t) as [[[] k]|].
  - intros ->. reflexivity.
  - intros ->. destruct k; reflexivity.
  - intros ->. reflexivity.
Qed.

Lemma step1_plain t st : tok_bk t = None -> step1 t st st.
Proof. unfold step1. intros ->. reflexivity. Qed.

End Brackets.
Arguments run {A}.
Arguments balanced {A}.

(* ------------------------------------------------------------------ states *)

Section Account.
Variables (A G D C E : Type) (OPS : ops A G D C).
Notation pstate := (Core.pstate A G D E).
Notation res := (Core.res A G D E).
Notation parsers := (Core.parsers A G D C E).
Notation selem := (Core.selem A G).
Notation nodeT := (node A C).
Notation leafT := (leaf A).

Definition pe (e : selem) : leafT := match e with SE a0 _ t _ => (a0, t) end.
Definition curl (s : pstate) : list leafT :=
  match s_cur s with Some c => [c] | None => [] end.
Definition remaining (s : pstate) : list leafT := curl s ++ map pe (s_rest s).
(* the backtracking mark is the remaining input; once started, no current
   token means that the input is exhausted *)
Definition wf (s : pstate) : Prop :=
  map pe (s_mark s) = remaining s /\
  (s_started s = true -> s_cur s = None -> s_rest s = []).

Definition acct (st : list bkind) (s : pstate) (L : list leafT) (st' : list bkind) (s' : pstate)
  : Prop :=
  wf s -> wf s' /\ exists used, remaining s = used ++ remaining s' /\ L = identlits used /\
                               run st used = Some st'.
(* neutral: the bracket stack is left as it was found *)
Definition nacct (s : pstate) (L : list leafT) (s' : pstate) : Prop :=
  forall st, acct st s L st s'.

Lemma acct_refl st s : acct st s [] st s.
Proof. intros H. split; [ exact H | exists []; repeat split ]. Qed.

Lemma acct_trans st1 s1 L1 st2 s2 L2 st3 s3 :
  acct st1 s1 L1 st2 s2 -> acct st2 s2 L2 st3 s3 -> acct st1 s1 (L1 ++ L2) st3 s3.
Proof.
  intros H12 H23 H1. destruct (H12 H1) as (H2 & u1 & E1 & -> & R1).
  destruct (H23 H2) as (H3 & u2 & E2 & -> & R2). split; [ exact H3 | ].
  exists (u1 ++ u2). rewrite E1, E2, app_assoc, identlits_app, run_app, R1. repeat split. exact R2.
Qed.

(* two states with the same current token, unread stream, mark and start flag *)
Definition eqv (s s' : pstate) : Prop :=
  s_cur s = s_cur s' /\ s_rest s = s_rest s' /\ s_mark s = s_mark s' /\
  s_started s = s_started s'.

Lemma acct_eqv s s' : eqv s s' -> nacct s [] s'.
Proof.
  intros (Hc & Hr & Hm & Hs) st H. unfold wf, remaining, curl in *.
  rewrite <- Hc, <- Hr, <- Hm, <- Hs.
  split; [ exact H | exists []; repeat split ].
Qed.

Lemma acct_dec_level s : nacct s [] (dec_level s).
Proof. apply acct_eqv. repeat split. Qed.
Lemma acct_reset_level s : nacct s [] (reset_level s).
Proof. apply acct_eqv. repeat split. Qed.
Lemma acct_upd_level s lp ln : nacct s [] (upd_level s lp ln).
Proof. apply acct_eqv. repeat split. Qed.
Lemma acct_upd_depth s n : nacct s [] (upd_depth s n).
Proof. apply acct_eqv. repeat split. Qed.
Lemma acct_drain s c s' : drain OPS s = (c, s') -> nacct s [] s'.
Proof.
  unfold drain. destruct (d_drain OPS (s_d s)). intros [= _ <-]. apply acct_eqv. repeat split.
Qed.

(* ------------------------------------------------------------------ specifications *)

Definition Spec {X} (LV : X -> list leafT) (pre : list leafT) (Sh : X -> Prop)
           (p : pstate -> res X) : Prop :=
  forall s r s', p s = Ok r s' -> Sh r /\ exists L, nacct s L s' /\ LV r = pre ++ L.

(* with a precondition on the state before *)
Definition SpecP {X} (Pre : pstate -> Prop) (LV : X -> list leafT) (pre : list leafT)
           (Sh : X -> Prop) (p : pstate -> res X) : Prop :=
  forall s r s', Pre s -> p s = Ok r s' -> Sh r /\ exists L, nacct s L s' /\ LV r = pre ++ L.
(* the current token is neither an identifier / literal nor a bracket *)
Definition plaincur (s : pstate) : Prop :=
  match s_cur s with
  | Some (_, t) => is_lit_tok t = false /\ tok_bk t = None
  | None => True
  end.

Definition noleaf {X} (_ : X) : list leafT := [].
Definition anysh {X} (_ : X) : Prop := True.

(* bind inversion *)
Lemma bind_inv X Y (m : res X) (k : X -> pstate -> res Y) r s' (P : Prop) :
  (forall y s1, m = Ok y s1 -> k y s1 = Ok r s' -> P) -> bind m k = Ok r s' -> P.
Proof. destruct m; simpl; intros H H'; try discriminate. eapply H; eauto. Qed.

Lemma bind_assoc X Y Z (m : res X) (g : X -> pstate -> res Y) (f : Y -> pstate -> res Z) :
  bind (bind m g) f = bind m (fun x s => bind (g x s) f).
Proof. destruct m; reflexivity. Qed.

(* ------------------------------------------------------------------ primitives *)

(* Parser::next drops the current token *)
Lemma A_next_gen s s' : next OPS s = Ok tt s' ->
  forall st st', run st (curl s) = Some st' -> acct st s (identlits (curl s)) st' s'.
Proof.
  unfold next. intros H st st' Hrun Hw.
  destruct (s_rest s) as [|[a0 a1 t g] r] eqn:Hr.
  - destruct (s_term s); [ | discriminate ]. injection H as <-.
    unfold wf, remaining. cbn. rewrite Hr. cbn. split; [ split; [ reflexivity | auto ] | ].
    exists (curl s). rewrite app_nil_r. repeat split. exact Hrun.
  - injection H as <-. unfold wf, remaining. cbn. rewrite Hr. cbn.
    split; [ split; [ reflexivity | discriminate ] | ].
    exists (curl s). repeat split. exact Hrun.
Qed.

Lemma A_next_some s s' p t : s_cur s = Some (p, t) -> next OPS s = Ok tt s' ->
  forall st st', step1 t st st' -> acct st s (identlits [(p, t)]) st' s'.
Proof.
  intros Hc H st st' Hs. pose proof (A_next_gen _ _ H st st') as Hn.
  unfold curl in Hn. rewrite Hc in Hn. apply Hn, run_one, Hs.
Qed.

Lemma A_next_none s s' : s_cur s = None -> next OPS s = Ok tt s' -> nacct s [] s'.
Proof.
  intros Hc H st. pose proof (A_next_gen _ _ H st st) as Hn.
  unfold curl in Hn. rewrite Hc in Hn. apply Hn. reflexivity.
Qed.

Lemma A_next_plain s s' : plaincur s -> next OPS s = Ok tt s' -> nacct s [] s'.
Proof.
  unfold plaincur. destruct (s_cur s) as [[p t]|] eqn:Hc.
  - intros (Hl & Hb) H st. pose proof (A_next_some _ _ _ _ Hc H st st (step1_plain _ _ Hb)) as Hn.
    unfold identlits in Hn. cbn [filter] in Hn. unfold is_lit in Hn. cbn [snd] in Hn.
    rewrite Hl in Hn. exact Hn.
  - intros _. apply A_next_none, Hc.
Qed.

(* dropping the current token and moving on *)
Lemma A_take s s' p t :
  s_cur s = Some (p, t) -> next OPS (upd_cur s None) = Ok tt s' ->
  forall st st', step1 t st st' -> acct st s (identlits [(p, t)]) st' s'.
Proof.
  unfold next. intros Hc H st st' Hs Hw. cbn in H.
  assert (Hrem : remaining s = (p, t) :: map pe (s_rest s)).
  { unfold remaining, curl. rewrite Hc. reflexivity. }
  apply (run_one _ p) in Hs.
  destruct (s_rest s) as [|[a0 a1 t0 g] r] eqn:Hr.
  - destruct (s_term s); [ | discriminate ]. injection H as <-.
    unfold wf. rewrite Hrem. cbn. split; [ split; [ reflexivity | auto ] | ].
    exists [(p, t)]. repeat split. exact Hs.
  - injection H as <-. unfold wf. rewrite Hrem. cbn.
    split; [ split; [ reflexivity | discriminate ] | ].
    exists [(p, t)]. repeat split. exact Hs.
Qed.

Lemma A_goback s0 s s' : goback OPS (preback s0) s = Ok tt s' -> nacct s0 [] s'.
Proof.
  unfold goback, preback. intros H st (Hw & _).
  destruct (s_mark s0) as [|[a0 a1 t g] r] eqn:Hm.
  - destruct (s_term s); [ | discriminate ]. injection H as <-.
    rewrite <- Hw. unfold wf. cbn.
    split; [ split; [ reflexivity | auto ] | exists []; repeat split ].
  - injection H as <-. rewrite <- Hw. unfold wf, remaining. cbn.
    split; [ split; [ reflexivity | discriminate ] | exists []; repeat split ].
Qed.

Lemma op_eqb_eq a b : op_eqb a b = true -> a = b.
Proof. destruct a; destruct b; (reflexivity || discriminate). Qed.
Lemma kw_eqb_eq a b : kw_eqb a b = true -> a = b.
Proof. destruct a; destruct b; (reflexivity || discriminate). Qed.

Lemma cur_is_op_inv (s : pstate) o : cur_is s (KOp o) = true -> exists p, s_cur s = Some (p, TOperator o).
Proof.
  unfold cur_is. destruct (s_cur s) as [[p t]|]; [ | discriminate ].
  destruct t; simpl; try discriminate. intros H. apply op_eqb_eq in H. subst. eauto.
Qed.
Lemma cur_is_kw_inv (s : pstate) k : cur_is s (KKw k) = true -> exists p, s_cur s = Some (p, TKeyword k).
Proof.
  unfold cur_is. destruct (s_cur s) as [[p t]|]; [ | discriminate ].
  destruct t; simpl; try discriminate. intros H. apply kw_eqb_eq in H. subst. eauto.
Qed.

Lemma A_line_end c s c' s' : line_end_comment OPS c s = Ok c' s' -> nacct s [] s'.
Proof.
  unfold line_end_comment. destruct (negb (cur_is s (KOp OSemiColon))) eqn:Hsemi.
  - intros [= _ <-] st. apply acct_refl.
  - apply negb_false_iff in Hsemi. destruct (cur_is_op_inv _ _ Hsemi) as (p & Hc).
    intros H st Hw.
    assert (Hrem : remaining s = (p, TOperator OSemiColon) :: map pe (s_rest s)).
    { unfold remaining, curl. rewrite Hc. reflexivity. }
    destruct (s_rest s) as [|[a0 a1 t g] r] eqn:Hr.
    + destruct (s_term s); [ | discriminate ].
      destruct (d_line_end _ _ _ _ _ _) as [[? ?] ?]. injection H as _ <-.
      unfold wf. rewrite Hrem. cbn. split; [ split; [ reflexivity | auto ] | ].
      exists [(p, TOperator OSemiColon)]. repeat split.
    + destruct (d_line_end _ _ _ _ _ _) as [[? ?] ?]. injection H as _ <-.
      unfold wf. rewrite Hrem. cbn.
      split; [ split; [ reflexivity | discriminate ] | ].
      exists [(p, TOperator OSemiColon)]. repeat split.
Qed.

End Account.

Arguments pe {A G}.
Arguments curl {A G D E}.
Arguments remaining {A G D E}.
Arguments wf {A G D E}.
Arguments acct {A G D E}.
Arguments nacct {A G D E}.
Arguments eqv {A G D E}.
Arguments Spec {A G D E X}.
Arguments SpecP {A G D E X}.
Arguments plaincur {A G D E}.
Arguments noleaf {A X}.
Arguments anysh {X}.

Section Account2.
Variables (A G D C E : Type) (OPS : ops A G D C).
Notation pstate := (Core.pstate A G D E).
Notation res := (Core.res A G D E).
Notation nodeT := (node A C).
Notation leafT := (leaf A).

Lemma identlits_op (p : A) o : identlits [(p, TOperator o)] = [].
Proof. reflexivity. Qed.
Lemma identlits_kw (p : A) k : identlits [(p, TKeyword k)] = [].
Proof. reflexivity. Qed.

Lemma cur_tok_inv (s : pstate) site t s0 :
  cur_tok s site = Ok t s0 -> s0 = s /\ exists p, s_cur s = Some (p, t).
Proof.
  unfold cur_tok. destruct (s_cur s) as [[p t']|]; [ | discriminate ].
  intros [= <- <-]. eauto.
Qed.

Lemma A_inc_level (s : pstate) site y s1 : inc_level s site = Ok y s1 -> nacct s [] s1.
Proof.
  unfold inc_level. destruct (_ <=? _); [ discriminate | ]. intros [= _ <-].
  apply acct_upd_level.
Qed.

Lemma check_single_expr_inv (l : list nodeT) (s : pstate) r s' :
  check_single_expr l s = Ok r s' -> s' = s /\ l = [r].
Proof.
  unfold check_single_expr. destruct l as [|e [|e2 l]].
  - discriminate.
  - intros [= <- <-]. auto.
  - destruct (expr_pos e); discriminate.
Qed.

(* operators that the parser steps over with a bare next() are no brackets *)
Lemma assign_op_plain o : is_assign_op o = true -> tok_bk (TOperator o) = None.
Proof. destruct o; (reflexivity || discriminate). Qed.
Lemma unary_op_plain o : classify_unary o <> UCNone -> tok_bk (TOperator o) = None.
Proof. destruct o; try reflexivity; intros H; exfalso; apply H; reflexivity. Qed.
Lemma binary_op_plain o n : (n <? prec_nat o) = true -> tok_bk (TOperator o) = None.
Proof. destruct o; try reflexivity; cbn; intros H; discriminate H. Qed.

(* not a Range node (the result of an expression or type production) *)
Definition nr (n : nodeT) : Prop := is_tag GRange n = false.
Definition onr (o : option nodeT) : Prop := forall t, o = Some t -> nr t.

Lemma Forall_snoc X (P : X -> Prop) l x : Forall P l -> P x -> Forall P (l ++ [x]).
Proof. intros. apply Forall_app. auto. Qed.
Lemma onr_None : onr None.
Proof. intros t HH. discriminate HH. Qed.
Lemma onr_Some n : nr n -> onr (Some n).
Proof. intros H t [= <-]. exact H. Qed.
Lemma onr_Some_inv n : onr (Some n) -> nr n.
Proof. intros H. apply H. reflexivity. Qed.

End Account2.
Arguments nr {A C}.
Arguments onr {A C}.

(* ------------------------------------------------------------------ tactics *)

Create HintDb acct discriminated.
Create HintDb bk discriminated.
#[export] Hint Resolve assign_op_plain binary_op_plain : bk.

Ltac fwd Hm T :=
  let H' := fresh "Hf" in pose proof T as H'; clear Hm; rename H' into Hm.

(* [Hm : forall st st', step1 t st st' -> acct st s L st' s'] for a known token:
   specialise to the neutral / push / pop form *)
Ltac bk_spec Hm :=
  let H' := fresh "Hb" in
  first
    [ pose proof (fun st => Hm st st eq_refl) as H'
    | pose proof (fun st => Hm st (BParen :: st) eq_refl) as H'
    | pose proof (fun st => Hm st (BBrack :: st) eq_refl) as H'
    | pose proof (fun st => Hm st (BBrace :: st) eq_refl) as H'
    | pose proof (fun st => Hm (BParen :: st) st eq_refl) as H'
    | pose proof (fun st => Hm (BBrack :: st) st eq_refl) as H'
    | pose proof (fun st => Hm (BBrace :: st) st eq_refl) as H'
    | let Hp := fresh "Hp" in
      lazymatch type of Hm with
      | forall st st', step1 ?t st st' -> _ =>
          assert (Hp : tok_bk t = None)
            by (first [ reflexivity | solve [ eauto with bk ]
                      | apply unary_op_plain; congruence ]);
          pose proof (fun st => Hm st st (step1_plain t st Hp)) as H'; clear Hp
      end ];
  clear Hm; rewrite ?identlits_op, ?identlits_kw in H'.

(* [Hm : next OPS s = Ok tt s1] *)
Ltac next_spec Hm :=
  lazymatch type of Hm with
  | next _ ?s = Ok tt _ =>
      first
        [ match goal with E : plaincur s |- _ => fwd Hm (A_next_plain _ _ _ _ _ _ _ _ E Hm) end
        | match goal with E : s_cur s = Some (?p, ?t) |- _ =>
            fwd Hm (A_next_some _ _ _ _ _ _ _ _ _ _ E Hm); bk_spec Hm end
        | match goal with E : s_cur s = None |- _ => fwd Hm (A_next_none _ _ _ _ _ _ _ _ E Hm) end
        | match goal with E : cur_is s (KOp ?o) = true |- _ =>
            let p := fresh "p" in let Ec := fresh "Ec" in
            destruct (cur_is_op_inv _ _ _ _ s o E) as (p & Ec);
            fwd Hm (A_next_some _ _ _ _ _ _ _ _ _ _ Ec Hm); bk_spec Hm end
        | match goal with E : cur_is s (KKw ?o) = true |- _ =>
            let p := fresh "p" in let Ec := fresh "Ec" in
            destruct (cur_is_kw_inv _ _ _ _ s o E) as (p & Ec);
            fwd Hm (A_next_some _ _ _ _ _ _ _ _ _ _ Ec Hm); bk_spec Hm end ]
  end.

Ltac use_spec Hm :=
  lazymatch type of Hm with
  | ?p ?s = Ok ?y ?s1 =>
      let HS := fresh "HS" in
      eassert (HS : Spec _ _ _ p) by (solve [ eauto 5 with acct ]);
      specialize (HS s y s1 Hm);
      let Hsh := fresh "Hsh" in
      let L := fresh "L" in
      let Ha := fresh "Ha" in
      let HL := fresh "HL" in
      destruct HS as (Hsh & L & Ha & HL); clear Hm;
      cbv beta in Hsh; cbv beta in HL; unfold anysh in Hsh; cbn [noleaf app] in HL;
      lazymatch type of Hsh with True => clear Hsh | _ => idtac end;
      try subst L
  end.

(* the precondition [plaincur s] from what is known of the current token *)
Ltac plain_goal :=
  try assumption;
  lazymatch goal with
  | |- plaincur ?s =>
      unfold plaincur;
      first
        [ match goal with E : s_cur s = Some _ |- _ => rewrite E; split; reflexivity end
        | match goal with E : s_cur s = None |- _ => rewrite E; exact I end
        | match goal with E : cur_is s (KKw ?o) = true |- _ =>
            let p := fresh "p" in let Ec := fresh "Ec" in
            destruct (cur_is_kw_inv _ _ _ _ s o E) as (p & Ec); rewrite Ec; split; reflexivity end ]
  end.

Ltac use_specP Hm :=
  lazymatch type of Hm with
  | ?p ?s = Ok ?y ?s1 =>
      let HS := fresh "HS" in
      eassert (HS : SpecP _ _ _ _ p) by (solve [ eauto 5 with acct ]);
      let HP := fresh "HP" in
      lazymatch type of HS with
      | SpecP ?Pre _ _ _ _ => assert (HP : Pre s) by (plain_goal)
      end;
      specialize (HS s y s1 HP Hm); clear HP;
      let Hsh := fresh "Hsh" in
      let L := fresh "L" in
      let Ha := fresh "Ha" in
      let HL := fresh "HL" in
      destruct HS as (Hsh & L & Ha & HL); clear Hm;
      cbv beta in Hsh; cbv beta in HL; unfold anysh in Hsh; cbn [noleaf app] in HL;
      lazymatch type of Hsh with True => clear Hsh | _ => idtac end;
      try subst L
  end.

(* productions with a bracket effect of their own are dealt with by this hook
   (redefined where such a production is specified) *)
Ltac spec_hook Hm := fail.

Section ExpectSkip.
Variables (A G D C E : Type) (OPS : ops A G D C).
Notation pstate := (Core.pstate A G D E).

Lemma A_expect_op o site (s : pstate) y s' : expect OPS (KOp o) site s = Ok y s' ->
  forall st st', step1 (TOperator o) st st' -> acct st s [] st' s'.
Proof.
  unfold expect. destruct (s_cur s) as [[p t]|] eqn:Ec; [ | discriminate ].
  destruct (tok_is t (KOp o)) eqn:Ht; [ | discriminate ].
  destruct t; simpl in Ht; try discriminate Ht. apply op_eqb_eq in Ht. subst o0.
  intros HH st st' Hs. revert HH. apply bind_inv. intros [] s1 Hm [= _ <-].
  fwd Hm (A_take _ _ _ _ _ _ _ _ _ _ Ec Hm). apply Hm, Hs.
Qed.

Lemma A_skipped_op o (s : pstate) b s' : skipped OPS (KOp o) s = Ok b s' ->
  forall st st', (if b then step1 (TOperator o) st st' else st' = st) -> acct st s [] st' s'.
Proof.
  unfold skipped. destruct (cur_is s (KOp o)) eqn:Hc.
  - intros HH st st' Hs. revert HH. apply bind_inv. intros [] s1 Hm [= <- <-].
    destruct (cur_is_op_inv _ _ _ _ _ _ Hc) as (p & Ec).
    fwd Hm (A_next_some _ _ _ _ _ _ _ _ _ _ Ec Hm). apply Hm, Hs.
  - intros [= <- <-] st st' ->. apply acct_refl.
Qed.
End ExpectSkip.

Ltac spec_hyp Hm :=
  lazymatch type of Hm with
  | next _ (upd_cur ?s None) = Ok ?y _ =>
      destruct y;
      match goal with E : s_cur s = Some (_, _) |- _ =>
        fwd Hm (A_take _ _ _ _ _ _ _ _ _ _ E Hm) end;
      bk_spec Hm
  | next _ ?s = Ok ?y _ => destruct y; next_spec Hm
  | goback _ (preback _) _ = Ok ?y _ => destruct y; apply A_goback in Hm
  | cur_tok ?s _ = Ok _ ?s0 =>
      apply cur_tok_inv in Hm;
      let p := fresh "p" in let E := fresh "Ecur" in
      destruct Hm as (-> & p & E)
  | inc_level _ _ = Ok _ _ => apply A_inc_level in Hm
  | check_single_expr _ _ = Ok _ _ =>
      apply check_single_expr_inv in Hm; destruct Hm as (-> & ->)
  | expect _ (KOp _) _ _ = Ok _ _ =>
      fwd Hm (A_expect_op _ _ _ _ _ _ _ _ _ _ _ Hm); bk_spec Hm
  | skipped _ (KOp _) _ = Ok ?y _ =>
      fwd Hm (A_skipped_op _ _ _ _ _ _ _ _ _ _ Hm); destruct y; bk_spec Hm
  | _ => first [ spec_hook Hm | use_spec Hm | use_specP Hm | idtac ]
  end.

Ltac gen_states :=
  repeat match goal with
         | |- context [dec_level ?s] =>
             is_var s; let sx := fresh "sx" in let Hx := fresh "Hx" in
             pose proof (acct_dec_level _ _ _ _ s) as Hx; set (sx := dec_level s) in *; clearbody sx
         | |- context [reset_level ?s] =>
             is_var s; let sx := fresh "sx" in let Hx := fresh "Hx" in
             pose proof (acct_reset_level _ _ _ _ s) as Hx; set (sx := reset_level s) in *; clearbody sx
         | |- context [upd_level ?s ?a ?b] =>
             is_var s; let sx := fresh "sx" in let Hx := fresh "Hx" in
             pose proof (acct_upd_level _ _ _ _ s a b) as Hx; set (sx := upd_level s a b) in *;
             clearbody sx
         end.

Ltac destr x :=
  first [ is_var x; destruct x
        | let E := fresh "E" in
          destruct x eqn:E;
          try match type of E with
              | drain _ _ = _ => apply acct_drain in E
              | _ = Ok _ _ => spec_hyp E
              end ].

Ltac istep :=
  lazymatch goal with
  | |- Ok _ _ = Ok _ _ -> _ =>
      let HH := fresh "HH" in intros HH; injection HH as ? ?; subst
  | |- Err _ _ = _ -> _ => let HH := fresh "HH" in intros HH; discriminate HH
  | |- Panic _ = _ -> _ => let HH := fresh "HH" in intros HH; discriminate HH
  | |- Fuel = _ -> _ => let HH := fresh "HH" in intros HH; discriminate HH
  | |- bind (Ok ?x ?s) ?k = ?R -> ?Cc => change (k x s = R -> Cc); cbv beta
  | |- bind (Err _ _) _ = _ -> _ => let HH := fresh "HH" in intros HH; discriminate HH
  | |- bind (Panic _) _ = _ -> _ => let HH := fresh "HH" in intros HH; discriminate HH
  | |- bind Fuel _ = _ -> _ => let HH := fresh "HH" in intros HH; discriminate HH
  | |- bind (bind _ _) _ = _ -> _ => rewrite bind_assoc
  | |- bind (if ?b then _ else _) _ = _ -> _ => destr b
  | |- bind (match ?x with _ => _ end) _ = _ -> _ => destr x
  | |- bind _ _ = _ -> _ =>
      apply bind_inv;
      let y := fresh "y" in let s1 := fresh "s" in let Hm := fresh "Hm" in
      intros y s1 Hm; cbv beta; spec_hyp Hm
  | |- (if ?b then _ else _) = _ -> _ => destr b
  | |- (match ?x with _ => _ end) = _ -> _ => destr x
  | |- _ = Ok _ _ -> _ => let Hm := fresh "Hm" in intros Hm; spec_hyp Hm
  end.

Ltac isteps :=
  cbv beta iota zeta delta [negb];
  repeat (gen_states; istep; cbv beta iota zeta delta [negb]).

(* the chain of accounting facts from the first to the last state; the bracket
   stacks in between are found by unification *)
Ltac chain :=
  first [ apply acct_refl
        | multimatch goal with
          | H : nacct _ _ _ |- _ => eapply acct_trans; [ exact (H _) | chain ]
          | H : forall st : list bkind, _ |- _ => eapply acct_trans; [ exact (H _) | chain ]
          end ].

Ltac lnorm :=
  repeat (progress (cbn [leaves own_leaf flat_map app noleaf fst snd leaveso
                         mk mkd n_field field_of n_fieldlist n_operation n_functype
                         n_ident n_basic n_strlit nlist nnone npos set_kid set_nth];
                    rewrite ?leaves_nopt, ?flat_map_app, ?leaves_set_docs, ?identlits_app,
                      ?app_nil_r, <- ?app_assoc)).

Lemma app_self_nil X (l L : list X) : l = l ++ L -> L = [].
Proof.
  intros H. apply (app_inv_head l). rewrite app_nil_r. symmetry. exact H.
Qed.

Ltac self_nil :=
  repeat match goal with
         | H : ?l = ?l ++ ?L |- _ => apply app_self_nil in H; try subst L
         end.

Ltac lrew1 H :=
  lazymatch type of H with
  | ?l = ?r => lazymatch r with context [l] => fail | _ => rewrite H end
  end.
Ltac lrew :=
  repeat match goal with
         | H : leaves _ = _ |- _ => lrew1 H
         | H : flat_map leaves _ = _ |- _ => lrew1 H
         | H : leaveso _ = _ |- _ => lrew1 H
         | H : flat_map leaveso _ = _ |- _ => lrew1 H
         end.

Ltac lsolve :=
  cbn [fst snd] in *; self_nil; lnorm; lrew; lnorm;
  repeat match goal with
         | |- context [if ?b then _ else _] => destruct b; lnorm
         | |- context [match ?o with Some _ => _ | None => _ end] => is_var o; destruct o; lnorm
         end;
  try reflexivity.

Create HintDb acctsh discriminated.
#[export] Hint Resolve Forall_snoc onr_None onr_Some onr_Some_inv : acctsh.
#[export] Hint Constructors Forall : acctsh.
#[export] Hint Extern 1 (nr _) => reflexivity : acctsh.
Ltac shsolve :=
  cbv beta;
  first [ exact I | reflexivity | solve [ eauto 6 with acctsh ] | idtac ].

Ltac fin :=
  self_nil; split;
  [ shsolve
  | eexists; split; [ let st := fresh "st" in intro st; chain | lsolve ] ].

Tactic Notation "aprod" reference(f) :=
  intros ? ? ?; unfold f; hide_nats; isteps; try fin.
Tactic Notation "aprodP" reference(f) :=
  intros ? ? ? ?; unfold f; hide_nats; isteps; try fin.
Tactic Notation "aloop" reference(f) ident(fuel) :=
  induction fuel; intros; intros ? ? ?; [ discriminate | cbn [f]; hide_nats; isteps; try fin ].

(* ------------------------------------------------------------------ leaf parsers *)

Section Leafs.
Variables (A G D C E : Type) (OPS : ops A G D C).
Notation pstate := (Core.pstate A G D E).
Notation res := (Core.res A G D E).
Notation nodeT := (node A C).
Notation leafT := (leaf A).

Lemma A_expect_kw k site : Spec (E:=E) noleaf [] anysh (expect OPS (KKw k) site).
Proof.
  intros s r s'. unfold expect.
  destruct (s_cur s) as [[p t]|] eqn:Ec; [ | discriminate ].
  destruct (tok_is t (KKw k)) eqn:Ht; [ | discriminate ].
  destruct t; simpl in Ht; try discriminate Ht.
  apply bind_inv. intros [] s1 Hm [= <- <-].
  fwd Hm (A_take _ _ _ _ _ _ _ _ _ _ Ec Hm). bk_spec Hm.
  split; [ exact I | exists []; split; [ exact Hb | reflexivity ] ].
Qed.

Lemma A_skipped_kw k : Spec (E:=E) noleaf [] anysh (skipped OPS (KKw k)).
Proof.
  intros s r s'. unfold skipped. destruct (cur_is s (KKw k)) eqn:Hc.
  - apply bind_inv. intros [] s1 Hm [= <- <-]. next_spec Hm.
    split; [ exact I | exists []; split; [ exact Hb | reflexivity ] ].
  - intros [= <- <-].
    split; [ exact I | exists []; split; [ intro st; apply acct_refl | reflexivity ] ].
Qed.

Lemma A_identifier site : Spec (E:=E) (leaves (C:=C)) [] nr (identifier OPS site).
Proof.
  intros s r s'. unfold identifier.
  destruct (s_cur s) as [[p t]|] eqn:Ec; [ | discriminate ].
  destruct t as [| | |k name]; try discriminate. destruct k; try discriminate.
  apply bind_inv. intros [] s1 Hm [= <- <-].
  fwd Hm (A_take _ _ _ _ _ _ _ _ _ _ Ec Hm). bk_spec Hm.
  split; [ reflexivity | eexists; split; [ exact Hb | lnorm; reflexivity ] ].
Qed.

Lemma A_literal : Spec (E:=E) (leaves (C:=C)) [] nr (literal OPS).
Proof.
  intros s r s'. unfold literal.
  destruct (s_cur s) as [[p t]|] eqn:Ec; [ | discriminate ].
  destruct t as [| | |k name]; try discriminate.
  apply bind_inv. intros [] s1 Hm [= <- <-].
  fwd Hm (A_take _ _ _ _ _ _ _ _ _ _ Ec Hm). bk_spec Hm.
  split; [ reflexivity | eexists; split; [ exact Hb | lnorm; reflexivity ] ].
Qed.

Lemma A_string_literal site : Spec (E:=E) (leaves (C:=C)) [] anysh (string_literal OPS site).
Proof.
  intros s r s'. unfold string_literal.
  destruct (s_cur s) as [[p t]|] eqn:Ec; [ | discriminate ].
  destruct t as [| | |k name]; try discriminate. destruct k; try discriminate.
  apply bind_inv. intros [] s1 Hm [= <- <-].
  fwd Hm (A_take _ _ _ _ _ _ _ _ _ _ Ec Hm). bk_spec Hm.
  split; [ exact I | eexists; split; [ exact Hb | lnorm; reflexivity ] ].
Qed.

Lemma A_string_literal_or_none : Spec (E:=E) (leaveso (C:=C)) [] anysh (string_literal_or_none OPS).
Proof.
  intros s r s'. unfold string_literal_or_none.
  assert (Hnone : Ok None s = Ok r s' ->
                  anysh r /\ exists L, nacct s L s' /\ leaveso r = [] ++ L).
  { intros [= <- <-].
    split; [ exact I | exists []; split; [ intro st; apply acct_refl | reflexivity ] ]. }
  destruct (s_cur s) as [[p t]|] eqn:Ec; [ | exact Hnone ].
  destruct t as [| | |k name]; try exact Hnone.
  destruct k; try exact Hnone.
  apply bind_inv. intros [] s1 Hm [= <- <-].
  fwd Hm (A_take _ _ _ _ _ _ _ _ _ _ Ec Hm). bk_spec Hm.
  split; [ exact I | eexists; split; [ exact Hb | lnorm; reflexivity ] ].
Qed.

Lemma A_line_end_comment (c : C) : Spec (E:=E) noleaf [] anysh (line_end_comment OPS c).
Proof.
  intros s r s' H. apply A_line_end in H.
  split; [ exact I | exists []; split; [ exact H | reflexivity ] ].
Qed.

End Leafs.

#[export] Hint Resolve A_expect_kw A_skipped_kw A_identifier A_literal
  A_string_literal A_string_literal_or_none A_line_end_comment : acct.
