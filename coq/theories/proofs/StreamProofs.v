(* INVARIANT 1: the parser only moves forward through the pre-scanned stream,
   except by its explicit backtracking -- and the backtracking never leaves the
   production that does it.

   (a) [stream_inv whole term]: the unread stream and the backtracking mark are
       suffixes of the stream the parser was started on, the terminal is never
       replaced.  A one-state invariant ([prim_closed]).
   (b) [fwd]: for EVERY production p (those that call goback included), at Ok
       and at Err, the unread stream afterwards is a suffix of the unread
       stream before, provided the mark is well formed ([mark_ok]: it is the
       unread stream, possibly with the current token in front -- true of the
       initial state and preserved).  A two-state relation ([rel_closed]).   *)
From Coq Require Import List Bool Arith NArith Lia.
From GoSyn Require Import Token Tok Ast Core.
From GoSyn.proofs Require Import Lift.
Import ListNotations.

Definition suffix_of {X} (l whole : list X) : Prop := exists pre, whole = pre ++ l.

Lemma suffix_of_refl X (l : list X) : suffix_of l l.
Proof. exists []. reflexivity. Qed.
Lemma suffix_of_nil X (l : list X) : suffix_of [] l.
Proof. exists l. symmetry. apply app_nil_r. Qed.
Lemma suffix_of_tail X (x : X) l w : suffix_of (x :: l) w -> suffix_of l w.
Proof. intros [pre ->]. exists (pre ++ [x]). rewrite <- app_assoc. reflexivity. Qed.
Lemma suffix_of_trans X (a b c : list X) : suffix_of a b -> suffix_of b c -> suffix_of a c.
Proof. intros [p ->] [q ->]. exists (q ++ p). apply app_assoc. Qed.
Lemma suffix_of_length X (l w : list X) : suffix_of l w -> length l <= length w.
Proof. intros [pre ->]. rewrite app_length. lia. Qed.
Lemma suffix_of_skipn X (l w : list X) : suffix_of l w -> exists n, l = skipn n w.
Proof.
  intros [pre ->]. exists (length pre). induction pre; simpl; auto.
Qed.
#[export] Hint Resolve suffix_of_refl suffix_of_nil suffix_of_tail : stream.

Section Stream.
Variables (A G D C E : Type) (OPS : ops A G D C).
Notation pstate := (Core.pstate A G D E).
Notation selem := (Core.selem A G).
Notation sterm := (Core.sterm A G E).

(* ------------------------------------------------------------ (a) *)

Definition stream_inv (whole : list selem) (term : sterm) (s : pstate) : Prop :=
  suffix_of (s_rest s) whole /\ suffix_of (s_mark s) whole /\ s_term s = term.

Lemma stream_inv_closed whole term : prim_closed OPS (stream_inv whole term).
Proof.
  unfold stream_inv. split.
  - intros s s' (Hr & Hm & Ht). unfold next.
    destruct (s_rest s) as [|[a0 a1 t g] r] eqn:Hrest; [ destruct (s_term s) | ];
      intros [= <-]; cbn; eauto 6 with stream.
  - intros s e s' (Hr & Hm & Ht). unfold next.
    destruct (s_rest s) as [|[a0 a1 t g] r] eqn:Hrest; [ destruct (s_term s) | ];
      intros [= <- <-]; cbn; eauto 6 with stream.
  - intros s0 s s' (_ & Hm0 & _) (Hr & Hm & Ht). unfold goback, preback.
    destruct (s_mark s0) as [|[a0 a1 t g] r]; [ destruct (s_term s) | ];
      intros [= <-]; cbn; eauto 6 with stream.
  - intros c s c' s' (Hr & Hm & Ht). unfold line_end_comment.
    destruct (negb _); [ intros [= <- <-]; auto | ].
    destruct (s_rest s) as [|[a0 a1 t g] r] eqn:Hrest; [ destruct (s_term s) | ];
      try destruct (d_line_end _ _ _ _ _ _) as [[? ?] ?];
      intros [= <- <-]; cbn; eauto 6 with stream.
  - intros c s e s' (Hr & Hm & Ht). unfold line_end_comment.
    destruct (negb _); [ discriminate | ].
    destruct (s_rest s) as [|[a0 a1 t g] r] eqn:Hrest; [ destruct (s_term s) | ];
      try destruct (d_line_end _ _ _ _ _ _) as [[? ?] ?];
      intros [= <- <-]; cbn; eauto 6 with stream.
  - intros s c s' H. unfold drain. destruct (d_drain OPS (s_d s)). intros [= _ <-]. exact H.
  - intros s H. exact H.
  - intros s lp ln H. exact H.
  - intros s n H. exact H.
Qed.

(* every field of the parser table, at every depth; every production follows
   with the L_ lemmas of Lift.v *)
Theorem stream_inv_Good whole term d :
  Good (fun _ : unit => stream_inv whole term) (fun _ => stream_inv whole term)
       (parsers_at OPS d).
Proof. apply lift_invariant_Good, stream_inv_closed. Qed.

Theorem stream_inv_parse_file whole term d s x s' :
  stream_inv whole term s -> parse_file OPS (parsers_at OPS d) s = Ok x s' ->
  stream_inv whole term s'.
Proof. apply lift_invariant, stream_inv_closed. Qed.
Theorem stream_inv_parse_file_err whole term d s e s' :
  stream_inv whole term s -> parse_file OPS (parsers_at OPS d) s = Err e s' ->
  stream_inv whole term s'.
Proof. apply lift_invariant_err, stream_inv_closed. Qed.
Theorem stream_inv_expression whole term d s x s' :
  stream_inv whole term s -> entry_expression OPS (parsers_at OPS d) s = Ok x s' ->
  stream_inv whole term s'.
Proof. apply lift_invariant_expression, stream_inv_closed. Qed.
Theorem stream_inv_expression_err whole term d s e s' :
  stream_inv whole term s -> entry_expression OPS (parsers_at OPS d) s = Err e s' ->
  stream_inv whole term s'.
Proof. apply lift_invariant_expression_err, stream_inv_closed. Qed.
Theorem stream_inv_stmt whole term d s x s' :
  stream_inv whole term s -> entry_stmt OPS (parsers_at OPS d) s = Ok x s' ->
  stream_inv whole term s'.
Proof. apply lift_invariant_stmt, stream_inv_closed. Qed.
Theorem stream_inv_stmt_err whole term d s e s' :
  stream_inv whole term s -> entry_stmt OPS (parsers_at OPS d) s = Err e s' ->
  stream_inv whole term s'.
Proof. apply lift_invariant_stmt_err, stream_inv_closed. Qed.

Lemma stream_inv_init a0 d0 elems (term : sterm) :
  stream_inv elems term (init_state (E:=E) a0 d0 elems term).
Proof. repeat split; apply suffix_of_refl. Qed.

(* From the initial state: whatever the outcome, the parser is left somewhere
   inside the stream it was given, with the terminal it was given. *)
Corollary parse_file_within_stream a0 d0 elems (term : sterm) d x s' :
  parse_file OPS (parsers_at OPS d) (init_state a0 d0 elems term) = Ok x s' ->
  (exists n, s_rest s' = skipn n elems) /\ (exists n, s_mark s' = skipn n elems) /\
  s_term s' = term.
Proof.
  intros H. destruct (stream_inv_parse_file _ _ _ _ _ _ (stream_inv_init a0 d0 elems term) H)
    as (Hr & Hm & Ht).
  auto using suffix_of_skipn.
Qed.
Corollary parse_file_within_stream_err a0 d0 elems (term : sterm) d e s' :
  parse_file OPS (parsers_at OPS d) (init_state a0 d0 elems term) = Err e s' ->
  (exists n, s_rest s' = skipn n elems) /\ (exists n, s_mark s' = skipn n elems) /\
  s_term s' = term.
Proof.
  intros H. destruct (stream_inv_parse_file_err _ _ _ _ _ _ (stream_inv_init a0 d0 elems term) H)
    as (Hr & Hm & Ht).
  auto using suffix_of_skipn.
Qed.

(* ------------------------------------------------------------ (b) *)

(* the mark is the unread stream, possibly with the current token in front *)
Definition mark_ok (s : pstate) : Prop :=
  s_mark s = s_rest s \/ exists x, s_mark s = x :: s_rest s.

Definition fwd (s s' : pstate) : Prop :=
  mark_ok s -> mark_ok s' /\ suffix_of (s_rest s') (s_rest s) /\ s_term s' = s_term s.

Lemma fwd_closed : rel_closed OPS fwd.
Proof.
  unfold fwd, mark_ok. split.
  - intros s H. auto with stream.
  - intros s1 s2 s3 H12 H23 H1. destruct (H12 H1) as (H2 & Hs12 & Ht12).
    destruct (H23 H2) as (H3 & Hs23 & Ht23). repeat split; auto.
    + eapply suffix_of_trans; eassumption.
    + congruence.
  - intros s s'. unfold next.
    destruct (s_rest s) as [|[a0 a1 t g] r] eqn:Hrest; [ destruct (s_term s) | ];
      intros [= <-] _; cbn; rewrite ?Hrest; eauto 8 with stream.
  - intros s e s'. unfold next.
    destruct (s_rest s) as [|[a0 a1 t g] r] eqn:Hrest; [ destruct (s_term s) | ];
      intros [= <- <-] _; cbn; rewrite ?Hrest; eauto 8 with stream.
  - intros si s0 s s' H0 H Hg Hi. destruct (H0 Hi) as (Hm0 & Hs0 & Ht0).
    destruct (H Hi) as (Hm & Hs & Ht). revert Hg. unfold goback, preback.
    destruct (s_mark s0) as [|[a0 a1 t g] r] eqn:Hmark; [ destruct (s_term s) | ];
      intros [= <-]; cbn; repeat split; eauto with stream.
    destruct Hm0 as [Hm0 | [x Hm0]].
    + rewrite <- Hm0 in Hs0. eauto with stream.
    + injection Hm0 as _ ->. assumption.
  - intros c s c' s'. unfold line_end_comment.
    destruct (negb _); [ intros [= <- <-]; auto with stream | ].
    destruct (s_rest s) as [|[a0 a1 t g] r] eqn:Hrest; [ destruct (s_term s) | ];
      try destruct (d_line_end _ _ _ _ _ _) as [[? ?] ?];
      intros [= <- <-] _; cbn; rewrite ?Hrest; eauto 8 with stream.
  - intros c s e s'. unfold line_end_comment.
    destruct (negb _); [ discriminate | ].
    destruct (s_rest s) as [|[a0 a1 t g] r] eqn:Hrest; [ destruct (s_term s) | ];
      try destruct (d_line_end _ _ _ _ _ _) as [[? ?] ?];
      intros [= <- <-] _; cbn; rewrite ?Hrest; eauto 8 with stream.
  - intros s c s'. unfold drain. destruct (d_drain OPS (s_d s)). intros [= _ <-] H.
    cbn. auto with stream.
  - intros s H. cbn. auto with stream.
  - intros s lp ln H. cbn. auto with stream.
  - intros s n H. cbn. auto with stream.
Qed.

Lemma mark_ok_init a0 d0 elems (term : sterm) : mark_ok (init_state a0 d0 elems term).
Proof. left. reflexivity. Qed.

(* all nine fields of the table, i.e. type_, type_or_none, expression,
   unary/binary expression, literal value, block, statement, if *)
Theorem fwd_Good d : Good fwd fwd (parsers_at OPS d).
Proof. apply lift_relation_Good, fwd_closed. Qed.

Definition fwd_inv_closed := rel_closed_inv_closed _ _ _ _ _ OPS fwd fwd_closed.

(* The three backtracking sites.  (line_end_comment is a primitive: fwd_closed.) *)
Theorem fwd_parse_type_spec d s :
  post (fwd s) (fwd s) (parse_type_spec OPS (parsers_at OPS d) s).
Proof.
  eapply L_parse_type_spec; [ exact fwd_inv_closed | apply fwd_Good | apply (R_refl fwd_closed) ].
Qed.
Theorem fwd_parse_interface_type d s :
  post (fwd s) (fwd s) (parse_interface_type OPS (parsers_at OPS d) s).
Proof.
  eapply L_parse_interface_type; [ exact fwd_inv_closed | | apply (R_refl fwd_closed) ].
  intros. eapply interface_loop_catch; try eassumption;
    [ exact fwd_inv_closed | apply fwd_Good | auto ].
Qed.
Theorem fwd_interface_loop d fuel acc s :
  post (fwd s) (fwd s) (interface_loop OPS (parsers_at OPS d) fuel acc s).
Proof.
  eapply interface_loop_catch;
    [ exact fwd_inv_closed | apply fwd_Good | auto | apply (R_refl fwd_closed) ].
Qed.

Corollary parse_type_spec_forward d s x s' :
  mark_ok s -> parse_type_spec OPS (parsers_at OPS d) s = Ok x s' ->
  suffix_of (s_rest s') (s_rest s) /\ length (s_rest s') <= length (s_rest s).
Proof.
  intros Hm H. pose proof (fwd_parse_type_spec d s) as Hp. rewrite H in Hp.
  destruct (Hp Hm) as (_ & Hs & _). auto using suffix_of_length.
Qed.
Corollary parse_interface_type_forward d s x s' :
  mark_ok s -> parse_interface_type OPS (parsers_at OPS d) s = Ok x s' ->
  suffix_of (s_rest s') (s_rest s) /\ length (s_rest s') <= length (s_rest s).
Proof.
  intros Hm H. pose proof (fwd_parse_interface_type d s) as Hp. rewrite H in Hp.
  destruct (Hp Hm) as (_ & Hs & _). auto using suffix_of_length.
Qed.

(* entry points *)
Theorem parse_file_forward d s x s' :
  mark_ok s -> parse_file OPS (parsers_at OPS d) s = Ok x s' ->
  mark_ok s' /\ suffix_of (s_rest s') (s_rest s) /\ s_term s' = s_term s.
Proof. intros Hm H. exact (lift_relation _ _ _ _ _ OPS fwd fwd_closed d s x s' H Hm). Qed.
Theorem parse_file_forward_err d s e s' :
  mark_ok s -> parse_file OPS (parsers_at OPS d) s = Err e s' ->
  mark_ok s' /\ suffix_of (s_rest s') (s_rest s) /\ s_term s' = s_term s.
Proof. intros Hm H. exact (lift_relation_err _ _ _ _ _ OPS fwd fwd_closed d s e s' H Hm). Qed.
Theorem entry_expression_forward d s x s' :
  mark_ok s -> entry_expression OPS (parsers_at OPS d) s = Ok x s' ->
  mark_ok s' /\ suffix_of (s_rest s') (s_rest s) /\ s_term s' = s_term s.
Proof. intros Hm H. exact (lift_relation_expression _ _ _ _ _ OPS fwd fwd_closed d s x s' H Hm). Qed.
Theorem entry_stmt_forward d s x s' :
  mark_ok s -> entry_stmt OPS (parsers_at OPS d) s = Ok x s' ->
  mark_ok s' /\ suffix_of (s_rest s') (s_rest s) /\ s_term s' = s_term s.
Proof. intros Hm H. exact (lift_relation_stmt _ _ _ _ _ OPS fwd fwd_closed d s x s' H Hm). Qed.

(* successive Parser::parse_stmt calls (Entry.run_entry's EStmts) keep moving forward *)
Corollary entry_stmt_length d s x s' :
  mark_ok s -> entry_stmt OPS (parsers_at OPS d) s = Ok x s' ->
  length (s_rest s') <= length (s_rest s).
Proof. intros Hm H. apply suffix_of_length. eapply entry_stmt_forward; eassumption. Qed.

End Stream.

Arguments stream_inv {A G D E} whole term s.
Arguments mark_ok {A G D E} s.
Arguments fwd {A G D E} s s'.

(* ------------------------------------------------------------ [mark_ok] is needed:
   started on a state with a stale mark, the interface loop backtracks to it
   and ends with MORE unread input than it started with.  (No state reachable
   from init_state has a stale mark: mark_ok is an invariant.) *)

Module StreamWitness.

Definition tops : ops nat unit unit unit :=
  {| d_next := fun d _ _ _ => d; d_goback := fun d => d; d_drain := fun d => (tt, d);
     d_line_end := fun d _ g _ c => (c, g, d); c_empty := tt; a_plus2 := fun a => a + 2 |}.
Fixpoint stream_from (n : nat) (l : list token) : list (selem nat unit) :=
  match l with [] => [] | t :: r => SE n (S n) t tt :: stream_from (S n) r end.
Definition id_ (c : N) : token := TLiteral LIdent [c].

(* current: A, unread: `}`, but the mark says  A ; B } C D E *)
Definition stale : pstate nat unit unit unit :=
  {| s_cur := Some (0, id_ 65); s_rest := stream_from 1 [TOperator OBraceRight];
     s_mark := stream_from 0 [id_ 65; TOperator OSemiColon; id_ 66; TOperator OBraceRight;
                              id_ 67; id_ 68; id_ 69];
     s_term := TEof 9 tt; s_spos := 1; s_lp := 1; s_ln := 0; s_d := tt; s_started := true; s_depth := 0 |}.

Example stale_mark_moves_backward :
  length (s_rest stale) = 1 /\
  match interface_loop tops (parsers_at tops 6) 10 [] stale with
  | Ok _ s' => length (s_rest s') = 3
  | _ => False
  end.
Proof. vm_compute. split; reflexivity. Qed.

End StreamWitness.
