(* C16 (errors), part 4: one unfolding of the recursion -- statements,
   declarations, the file level and the entry points. *)
From Coq Require Import List Bool Arith Lia.
From GoSyn Require Import Token Tok Ast Core.
From GoSyn.proofs Require Import Lift StreamProofs ErrPosBase ErrPosLeaf ErrPosStepA.
Import ListNotations.

(* what is asked of the state an entry point is called in: the stream and the
   terminal are the given ones; if the parser has been started, the state
   invariant holds.  [init_state] satisfies it. *)
Section Pre.
Variables (A G D C E : Type) (OPS : ops A G D C).
Notation pstate := (Core.pstate A G D E).
Variable whole : list (Core.selem A G).
Variable term : Core.sterm A G E.

Definition Jpre (s : pstate) : Prop :=
  JE whole term s /\ (s_started s = true -> J whole term s).

Lemma Jpre_init a0 d0 : Jpre (init_state a0 d0 whole term).
Proof.
  split; [ repeat split; apply suffix_of_refl | ]. cbn. discriminate.
Qed.

Lemma L_ensure_started s : Jpre s -> rp OPS whole term vtrue (ensure_started OPS s).
Proof.
  intros [He Hs]. unfold ensure_started. destruct (s_started s).
  - split; [ exact I | exact (Hs eq_refl) ].
  - apply L_next, He.
Qed.
End Pre.
Arguments Jpre {A G D E} whole term s.
#[export] Hint Resolve L_ensure_started : epos.
#[export] Hint Extern 1 (Jpre _ _ _) => eassumption : epos.

Section StepB.
Variables (A G D C E : Type) (OPS : ops A G D C).
Notation pstate := (Core.pstate A G D E).
Notation res := (Core.res A G D E).
Notation parsers := (Core.parsers A G D C E).
Notation selem := (Core.selem A G).
Notation sterm := (Core.sterm A G E).
Notation nodeT := (node A C).
Variable whole : list selem.
Variable term : sterm.
Notation J := (J whole term).
Notation JE := (JE whole term).
Notation rp := (rp OPS whole term).
Notation nok := (nok (C:=C) whole term).
Notation onok := (onok (C:=C) whole term).
Notation lnok := (Forall nok).

Variable self : parsers.
Hypothesis HG : GoodR OPS whole term self.

Lemma L_parse_range_expr s : J s -> rp nok (parse_range_expr OPS self s).
Proof. rprod parse_range_expr. Qed.
Local Hint Resolve L_parse_range_expr : epos.

Lemma L_parse_simple_stmt s : J s -> rp nok (parse_simple_stmt OPS self s).
Proof. rprod parse_simple_stmt. Qed.
Local Hint Resolve L_parse_simple_stmt : epos.

Lemma L_stmts_until_brace : forall fuel acc s,
  lnok acc -> J s -> rp lnok (stmts_until_brace self fuel acc s).
Proof. rloop stmts_until_brace fuel. Qed.
Local Hint Resolve L_stmts_until_brace : epos.

Lemma L_block_body s : J s -> rp nok (block_body OPS self s).
Proof. rprod block_body. Qed.
Local Hint Resolve L_block_body : epos.

Lemma L_stmt_list_loop : forall fuel acc s,
  lnok acc -> J s -> rp lnok (stmt_list_loop self fuel acc s).
Proof. rloop stmt_list_loop fuel. Qed.
Local Hint Resolve L_stmt_list_loop : epos.

Lemma L_parse_stmt_list s : J s -> rp lnok (parse_stmt_list self s).
Proof. rprod parse_stmt_list. Qed.
Local Hint Resolve L_parse_stmt_list : epos.

Lemma L_parse_go_defer is_go s : J s -> rp nok (parse_go_defer OPS self is_go s).
Proof. rprod parse_go_defer. Qed.
Local Hint Resolve L_parse_go_defer : epos.

Lemma L_parse_return_stmt s : J s -> rp nok (parse_return_stmt OPS self s).
Proof. rprod parse_return_stmt. Qed.
Local Hint Resolve L_parse_return_stmt : epos.

Lemma L_parse_if_header s :
  J s -> rp (fun x => onok (fst x) /\ nok (snd x)) (parse_if_header OPS self s).
Proof. rprod parse_if_header. Qed.
Local Hint Resolve L_parse_if_header : epos.

Lemma L_if_body s : J s -> rp nok (if_body OPS self s).
Proof. rprod if_body. Qed.
Local Hint Resolve L_if_body : epos.

Lemma L_case_block_loop : forall fuel ta acc s,
  lnok acc -> J s -> rp lnok (case_block_loop OPS self fuel ta acc s).
Proof. rloop case_block_loop fuel. Qed.
Local Hint Resolve L_case_block_loop : epos.

Lemma L_parse_case_block ta s : J s -> rp nok (parse_case_block OPS self ta s).
Proof. rprod parse_case_block. Qed.
Local Hint Resolve L_parse_case_block : epos.

Lemma L_parse_switch_stmt s : J s -> rp nok (parse_switch_stmt OPS self s).
Proof. rprod parse_switch_stmt. Qed.
Local Hint Resolve L_parse_switch_stmt : epos.

Lemma L_parse_comm_stmt s : J s -> rp nok (parse_comm_stmt OPS self s).
Proof. rprod parse_comm_stmt. Qed.
Local Hint Resolve L_parse_comm_stmt : epos.

Lemma L_comm_block_loop : forall fuel acc s,
  lnok acc -> J s -> rp lnok (comm_block_loop OPS self fuel acc s).
Proof. rloop comm_block_loop fuel. Qed.
Local Hint Resolve L_comm_block_loop : epos.

Lemma L_parse_select_stmt s : J s -> rp nok (parse_select_stmt OPS self s).
Proof. rprod parse_select_stmt. Qed.
Local Hint Resolve L_parse_select_stmt : epos.

Lemma L_parse_for_stmt s : J s -> rp nok (parse_for_stmt OPS self s).
Proof.
  rprod parse_for_stmt.
  (* the range form: the pieces of the assignment are taken apart *)
  assert (Hn : lnok l /\ nok n).
  { eapply pop_last_Forall; [ exact Heqo | apply nok_kids, nok_kid; assumption ]. }
  destruct Hn as [_ Hn]. vgo.
Qed.
Local Hint Resolve L_parse_for_stmt : epos.

Lemma L_parse_type_spec s : J s -> rp nok (parse_type_spec OPS self s).
Proof. rprod parse_type_spec. Qed.
Local Hint Resolve L_parse_type_spec : epos.

Lemma L_parse_var_spec s : J s -> rp nok (parse_var_spec OPS self s).
Proof. rprod parse_var_spec. Qed.
Local Hint Resolve L_parse_var_spec : epos.

Lemma L_parse_const_spec index s : J s -> rp nok (parse_const_spec OPS self index s).
Proof. rprod parse_const_spec. Qed.
Local Hint Resolve L_parse_const_spec : epos.

Lemma L_parse_spec sk index s : J s -> rp nok (parse_spec OPS self sk index s).
Proof. rprod parse_spec. Qed.
Local Hint Resolve L_parse_spec : epos.

Lemma L_decl_group_loop : forall fuel sk index acc s,
  lnok acc -> J s -> rp lnok (decl_group_loop OPS self fuel sk index acc s).
Proof. rloop decl_group_loop fuel. Qed.
Local Hint Resolve L_decl_group_loop : epos.

Lemma L_parse_decl sk s : J s -> rp nok (parse_decl OPS self sk s).
Proof. rprod parse_decl. Qed.
Local Hint Resolve L_parse_decl : epos.

Lemma L_parse_func_decl s : J s -> rp nok (parse_func_decl OPS self s).
Proof. rprod parse_func_decl. Qed.
Local Hint Resolve L_parse_func_decl : epos.

Lemma L_stmt_body s : J s -> rp nok (stmt_body OPS self s).
Proof. rprod stmt_body. Qed.
Local Hint Resolve L_stmt_body : epos.

Lemma L_parse_top_decl s : J s -> rp nok (parse_top_decl OPS self s).
Proof. rprod parse_top_decl. Qed.
Local Hint Resolve L_parse_top_decl : epos.

Lemma L_decls_loop : forall fuel acc s,
  lnok acc -> J s -> rp lnok (decls_loop OPS self fuel acc s).
Proof. rloop decls_loop fuel. Qed.
Local Hint Resolve L_decls_loop : epos.

Lemma L_parse_file s : Jpre whole term s -> rp nok (parse_file OPS self s).
Proof. rprod parse_file. Qed.

Lemma L_entry_expression s : Jpre whole term s -> rp nok (entry_expression OPS self s).
Proof. rprod entry_expression. Qed.

Lemma L_entry_stmt s : Jpre whole term s -> rp nok (entry_stmt OPS self s).
Proof. rprod entry_stmt. Qed.

(* one unfolding keeps the specification of the table *)
Lemma GoodR_step : GoodR OPS whole term (step OPS self).
Proof.
  split; cbn [step k_type k_type_or_none k_expr k_unary k_binary k_litvalue k_block k_stmt k_if];
    intros; try (apply L_nested; [ reflexivity | | assumption ]); eauto with epos.
Qed.

End StepB.
