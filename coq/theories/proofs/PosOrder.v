(* PAIRED POSITIONS ARE ORDERED (C05, stretch): with positions in N and a stream
   whose start positions strictly increase (the end-of-input position last),
   the two positions [l; r] of a bracketed node satisfy l < r, and every
   (non-exempt) position stored in the children listed between the brackets
   lies strictly between them.

   Result-level framework in the style of PosBase.v; the state invariant
   [oinv s] says where the state is in the sorted list of positions [allp]
   ([tailpos s]: the position of the current token, of the unread elements and
   of the end of input is a suffix of [allp]; the backtracking mark is the
   remaining input), and a specification
       [OS good p]: whenever oinv s and p s = Ok r s':
                    oinv s', cur_pos s <= cur_pos s', good (cur_pos s) (cur_pos s') r
   places the positions of the returned value in the half-open interval the
   production has moved over:
       [og lo hi n]  every non-exempt position of the tree n is in [lo, hi), and
                     every bracketed node of n is ordered ([pair_here]).
   EXEMPT positions, as in C05_tokens: Empty [p] (it can be the `}` that is not
   consumed) and the second position of a TypeChannel with direction 0. *)
From Coq Require Import List Bool Arith NArith Lia Sorted.
From GoSyn Require Import Token Tok Ast Core.
From GoSyn.proofs Require Import Lift StreamProofs AccountBase PosBase PosExpr.
Import ListNotations.
Local Open Scope N_scope.

(* ------------------------------------------------------------------ positions of a tree *)

Definition inr (lo hi p : N) : Prop := lo <= p /\ p < hi.

(* the positions subject to the ordering *)
Definition opos (t : tag) (ps : list N) (ats : list attr) : list N :=
  match t with
  | GEmpty => []
  | GTypeChannel =>
      match at_dir ats, ps with
      | Some 0%nat, c :: _ => [c]
      | _, _ => ps
      end
  | _ => ps
  end.

Section Trees.
Variable C : Type.
Notation nodeT := (node N C).

Fixpoint allpos (n : nodeT) : list N :=
  match n with Nd t ps ats _ ks => opos t ps ats ++ flat_map allpos ks end.

Fixpoint ranged (lo hi : N) (n : nodeT) : Prop :=
  match n with
  | Nd t ps ats _ ks =>
      Forall (inr lo hi) (opos t ps ats) /\ fold_right (fun k acc => ranged lo hi k /\ acc) True ks
  end.

(* the children listed between the two paired positions *)
Definition inside (t : tag) (ks : list nodeT) : list nodeT :=
  match t with
  | GCall | GIndex | GIndexList | GSlice | GTypeAssert => skipn 1 ks
  | GTypeMap | GTypeArray => firstn 1 ks
  | GParen | GTypeStruct | GLiteralValue | GBlock | GCaseBlock | GCommBlock | GFieldList
  | GDeclVar | GDeclConst | GDeclType => ks
  | _ => []
  end.
(* the paired positions of a node: [l; r], for a declaration group [_; l; r] *)
Definition pair_of (t : tag) (ps : list N) : option (N * N) :=
  match t with
  | GCall | GParen | GIndex | GIndexList | GSlice | GTypeAssert | GTypeMap | GTypeArray
  | GTypeSlice | GTypeStruct | GLiteralValue | GBlock | GCaseBlock | GCommBlock | GFieldList =>
      match ps with [l; r] => Some (l, r) | _ => None end
  | GDeclVar | GDeclConst | GDeclType =>
      match ps with [_; l; r] => Some (l, r) | _ => None end
  | _ => None
  end.
Definition pair_here (t : tag) (ps : list N) (ks : list nodeT) : Prop :=
  match pair_of t ps with
  | Some (l, r) => l < r /\ Forall (ranged (N.succ l) r) (inside t ks)
  | None => True
  end.

Fixpoint og (lo hi : N) (n : nodeT) : Prop :=
  match n with
  | Nd t ps ats _ ks =>
      Forall (inr lo hi) (opos t ps ats) /\ pair_here t ps ks /\
      fold_right (fun k acc => og lo hi k /\ acc) True ks
  end.
Definition ogo (lo hi : N) (o : option nodeT) : Prop :=
  match o with Some n => og lo hi n | None => True end.

Lemma fold_Forall' (P : nodeT -> Prop) l :
  fold_right (fun k acc => P k /\ acc) True l <-> Forall P l.
Proof.
  induction l as [|k l IH]; cbn [fold_right]; split; intros H.
  - constructor.
  - exact I.
  - destruct H as (H1 & H2). constructor; [ exact H1 | apply IH, H2 ].
  - inversion H; subst. split; [ assumption | apply IH; assumption ].
Qed.

Lemma ranged_Nd lo hi t ps ats d ks :
  ranged lo hi (Nd t ps ats d ks) <-> Forall (inr lo hi) (opos t ps ats) /\ Forall (ranged lo hi) ks.
Proof. cbn [ranged]. rewrite fold_Forall'. reflexivity. Qed.
Lemma og_Nd lo hi t ps ats d ks :
  og lo hi (Nd t ps ats d ks) <->
  Forall (inr lo hi) (opos t ps ats) /\ pair_here t ps ks /\ Forall (og lo hi) ks.
Proof. cbn [og]. rewrite fold_Forall'. reflexivity. Qed.

Lemma og_Nd_i lo hi t ps ats d ks :
  Forall (inr lo hi) (opos t ps ats) -> pair_here t ps ks -> Forall (og lo hi) ks ->
  og lo hi (Nd t ps ats d ks).
Proof. intros. apply og_Nd. auto. Qed.
Lemma ranged_Nd_i lo hi t ps ats d ks :
  Forall (inr lo hi) (opos t ps ats) -> Forall (ranged lo hi) ks -> ranged lo hi (Nd t ps ats d ks).
Proof. intros. apply ranged_Nd. auto. Qed.

Lemma inr_mono a b a' b' p : inr a b p -> a' <= a -> b <= b' -> inr a' b' p.
Proof. unfold inr. lia. Qed.

Fixpoint ranged_mono (n : nodeT) : forall a b a' b',
  ranged a b n -> a' <= a -> b <= b' -> ranged a' b' n.
Proof.
  destruct n as [t ps ats d ks]. intros a b a' b' H Ha Hb.
  apply ranged_Nd in H. destruct H as (H1 & H2). apply ranged_Nd_i.
  - eapply Forall_impl; [ | exact H1 ]. intros p Hp. eapply inr_mono; eassumption.
  - induction ks as [|k ks IH]; [ constructor | ].
    inversion H2; subst. constructor; [ eapply ranged_mono; eassumption | auto ].
Qed.

Fixpoint og_ranged (n : nodeT) : forall a b, og a b n -> ranged a b n.
Proof.
  destruct n as [t ps ats d ks]. intros a b H.
  apply og_Nd in H. destruct H as (H1 & _ & H2). apply ranged_Nd_i; [ exact H1 | ].
  induction ks as [|k ks IH]; [ constructor | ].
  inversion H2; subst. constructor; [ apply og_ranged; assumption | auto ].
Qed.

Fixpoint og_mono (n : nodeT) : forall a b a' b',
  og a b n -> a' <= a -> b <= b' -> og a' b' n.
Proof.
  destruct n as [t ps ats d ks]. intros a b a' b' H Ha Hb.
  apply og_Nd in H. destruct H as (H1 & Hp & H2). apply og_Nd_i.
  - eapply Forall_impl; [ | exact H1 ]. intros p Hp'. eapply inr_mono; eassumption.
  - exact Hp.
  - clear Hp H1. induction ks as [|k ks IH]; [ constructor | ].
    inversion H2; subst. constructor; [ eapply og_mono; eassumption | auto ].
Qed.

Lemma og_mono_hi n a b b' : og a b n -> b <= b' -> og a b' n.
Proof. intros H Hb. eapply og_mono; [ exact H | lia | exact Hb ]. Qed.
Lemma ogl_mono l a b a' b' :
  Forall (og a b) l -> a' <= a -> b <= b' -> Forall (og a' b') l.
Proof. intros H Ha Hb. eapply Forall_impl; [ | exact H ]. intros n Hn. eapply og_mono; eassumption. Qed.
Lemma ogl_mono_hi l a b b' : Forall (og a b) l -> b <= b' -> Forall (og a b') l.
Proof. intros H Hb. eapply ogl_mono; [ exact H | lia | exact Hb ]. Qed.
Lemma ogo_mono o a b a' b' : ogo a b o -> a' <= a -> b <= b' -> ogo a' b' o.
Proof. destruct o; cbn [ogo]; [ apply og_mono | auto ]. Qed.
Lemma ogo_mono_hi o a b b' : ogo a b o -> b <= b' -> ogo a b' o.
Proof. intros H Hb. eapply ogo_mono; [ exact H | lia | exact Hb ]. Qed.
Lemma ogol_mono (l : list (option nodeT)) a b a' b' :
  Forall (ogo a b) l -> a' <= a -> b <= b' -> Forall (ogo a' b') l.
Proof. intros H Ha Hb. eapply Forall_impl; [ | exact H ]. intros n Hn. eapply ogo_mono; eassumption. Qed.
Lemma ogol_mono_hi (l : list (option nodeT)) a b b' :
  Forall (ogo a b) l -> b <= b' -> Forall (ogo a b') l.
Proof. intros H Hb. eapply ogol_mono; [ exact H | lia | exact Hb ]. Qed.

Lemma og_ranged_mono n a b a' b' : og a b n -> a' <= a -> b <= b' -> ranged a' b' n.
Proof. intros H Ha Hb. eapply ranged_mono; [ apply og_ranged, H | exact Ha | exact Hb ]. Qed.
Lemma ogl_ranged_mono l a b a' b' :
  Forall (og a b) l -> a' <= a -> b <= b' -> Forall (ranged a' b') l.
Proof.
  intros H Ha Hb. eapply Forall_impl; [ | exact H ]. intros n Hn. eapply og_ranged_mono; eassumption.
Qed.
Lemma ogo_ranged_mono o a b a' b' : ogo a b o -> a' <= a -> b <= b' -> ranged a' b' (nopt o).
Proof.
  destruct o; cbn [ogo nopt]; [ apply og_ranged_mono | ].
  intros _ _ _. apply ranged_Nd_i; constructor.
Qed.

Lemma og_nnone lo hi : og lo hi nnone.
Proof. apply og_Nd_i; [ constructor | exact I | constructor ]. Qed.
Lemma og_nlist lo hi l : Forall (og lo hi) l -> og lo hi (nlist l).
Proof. intros H. apply og_Nd_i; [ constructor | exact I | exact H ]. Qed.
Lemma og_nopt lo hi o : ogo lo hi o -> og lo hi (nopt o).
Proof. destruct o; [ auto | intros _; apply og_nnone ]. Qed.
Lemma og_set_docs lo hi n d : og lo hi n -> og lo hi (set_docs n d).
Proof. destruct n. cbn [set_docs]. rewrite !og_Nd. auto. Qed.
Lemma og_kids lo hi n : og lo hi n -> Forall (og lo hi) (n_kids n).
Proof. destruct n. intros H. apply og_Nd in H. apply H. Qed.
Lemma og_kid lo hi n i : og lo hi n -> og lo hi (kid n i).
Proof.
  intros H. unfold kid. apply og_kids in H. revert i.
  induction H; intros i; destruct i; cbn [nth]; auto using og_nnone.
Qed.
Lemma ogo_nth_error lo hi l i : Forall (og lo hi) l -> ogo lo hi (nth_error l i).
Proof.
  revert i. induction l; intros i Hl; destruct i; cbn; auto; inversion Hl; subst; auto.
Qed.
Lemma ranged_nnone lo hi : ranged lo hi nnone.
Proof. apply ranged_Nd_i; constructor. Qed.
Lemma ranged_nlist lo hi l : Forall (ranged lo hi) l -> ranged lo hi (nlist l).
Proof. intros H. apply ranged_Nd_i; [ constructor | exact H ]. Qed.

Lemma og_somes lo hi (l : list (option nodeT)) :
  Forall (ogo lo hi) l ->
  Forall (og lo hi) (flat_map (fun o => match o with Some e => [e] | None => [] end) l).
Proof.
  induction 1 as [|o l Ho _ IH]; cbn [flat_map]; [ constructor | ].
  destruct o; cbn [app]; [ constructor; assumption | assumption ].
Qed.

(* [ranged] as a statement about the list of positions *)
Lemma ranged_allpos lo hi n : ranged lo hi n <-> Forall (inr lo hi) (allpos n).
Proof.
  revert n. fix IH 1. intros [t ps ats d ks]. rewrite ranged_Nd. cbn [allpos].
  rewrite Forall_app.
  assert (Hks : Forall (ranged lo hi) ks <-> Forall (inr lo hi) (flat_map allpos ks)).
  { induction ks as [|k ks IHks]; cbn [flat_map].
    - split; constructor.
    - rewrite Forall_app, <- IHks, <- (IH k). split.
      + intros H. inversion H; subst. auto.
      + intros (H1 & H2). constructor; assumption. }
  rewrite Hks. reflexivity.
Qed.

(* every node of an ordered tree is ordered *)
Lemma og_occurs lo hi f : og lo hi f -> forall n, occurs n f ->
  pair_here (n_tag n) (n_ps n) (n_kids n).
Proof.
  intros Hf n Ho. induction Ho as [|t ps ats docs ks k Hk _ IH].
  - destruct n. apply og_Nd in Hf. apply Hf.
  - apply IH. apply og_Nd in Hf. destruct Hf as (_ & _ & Hks).
    rewrite Forall_forall in Hks. apply Hks, Hk.
Qed.

End Trees.
Arguments allpos {C}.
Arguments ranged {C}.
Arguments inside {C}.
Arguments pair_here {C}.
Arguments og {C}.
Arguments ogo {C}.

(* ------------------------------------------------------------------ sorted lists *)

Lemma StronglySorted_app_r (l1 l2 : list N) :
  StronglySorted N.lt (l1 ++ l2) -> StronglySorted N.lt l2.
Proof.
  induction l1 as [|x l1 IH]; cbn [app]; [ auto | ].
  intros H. apply StronglySorted_inv in H. apply IH, H.
Qed.

Lemma sorted_suffix_lt (allp : list N) x y tl :
  StronglySorted N.lt allp -> suffix_of (x :: y :: tl) allp -> x < y.
Proof.
  intros Hs (pre & ->). apply StronglySorted_app_r in Hs. apply StronglySorted_inv in Hs.
  destruct Hs as (_ & Hx). inversion Hx; assumption.
Qed.

(* ------------------------------------------------------------------ states *)

Section Order.
Variables (G D C E : Type) (OPS : ops N G D C).
Notation pstate := (Core.pstate N G D E).
Notation res := (Core.res N G D E).
Notation selem := (Core.selem N G).
Notation sterm := (Core.sterm N G E).
Notation nodeT := (node N C).
Variable whole : list selem.
Variable term : sterm.

Definition start (e : selem) : N := match e with SE a0 _ _ _ => a0 end.
Definition eofpos : list N := match term with TEof a _ => [a] | TErr _ _ => [] end.
Definition allp : list N := map start whole ++ eofpos.

Hypothesis Hsorted : StronglySorted N.lt allp.

Definition tailpos (s : pstate) : list N :=
  match s_cur s with
  | Some (p, _) => p :: map start (s_rest s) ++ eofpos
  | None => eofpos
  end.
Definition markpos (s : pstate) : list N := map start (s_mark s) ++ eofpos.

Definition oinv (s : pstate) : Prop :=
  stream_inv whole term s /\ suffix_of (tailpos s) allp /\ markpos s = tailpos s /\
  (s_cur s = None -> s_rest s = [] /\ eofpos = [s_spos s]).

Lemma oinv_stream s : oinv s -> stream_inv whole term s.
Proof. intros H. apply H. Qed.

Lemma oinv_upd_level s lp ln : oinv s -> oinv (upd_level s lp ln).
Proof. exact (fun H => H). Qed.
Lemma oinv_dec_level s : oinv s -> oinv (dec_level s).
Proof. exact (fun H => H). Qed.
Lemma oinv_reset_level s : oinv s -> oinv (reset_level s).
Proof. exact (fun H => H). Qed.
Lemma oinv_upd_depth s n : oinv s -> oinv (upd_depth s n).
Proof. exact (fun H => H). Qed.

Lemma cp_upd_level (s : pstate) lp ln : cur_pos (upd_level s lp ln) = cur_pos s.
Proof. reflexivity. Qed.
Lemma cp_dec_level (s : pstate) : cur_pos (dec_level s) = cur_pos s.
Proof. reflexivity. Qed.
Lemma cp_reset_level (s : pstate) : cur_pos (reset_level s) = cur_pos s.
Proof. reflexivity. Qed.
Lemma cp_upd_depth (s : pstate) n : cur_pos (upd_depth s n) = cur_pos s.
Proof. reflexivity. Qed.

Lemma tailpos_hd s : oinv s -> exists tl, tailpos s = cur_pos s :: tl.
Proof.
  intros (_ & _ & _ & Hn). unfold tailpos, cur_pos.
  destruct (s_cur s) as [[p t]|]; [ eauto | ].
  destruct (Hn eq_refl) as (_ & ->). eauto.
Qed.

Lemma suffix_eofpos : suffix_of eofpos allp.
Proof. exists (map start whole). reflexivity. Qed.

Lemma eofpos_cases :
  (exists a g, term = TEof a g /\ eofpos = [a]) \/ (exists e g, term = TErr e g /\ eofpos = []).
Proof. unfold eofpos. destruct term; [ left | right ]; eauto. Qed.

Lemma oinv_end (s' : pstate) a g :
  term = TEof a g -> stream_inv whole term s' ->
  s_cur s' = None -> s_rest s' = [] -> s_mark s' = [] -> s_spos s' = a -> oinv s'.
Proof.
  intros Et Hst Hc Hr Hm Hp. assert (He : eofpos = [a]) by (unfold eofpos; rewrite Et; reflexivity).
  split; [ exact Hst | ]. unfold tailpos, markpos. rewrite Hc, Hm, He. cbn [map app].
  repeat split; [ rewrite <- He; apply suffix_eofpos | exact Hr | rewrite Hp; reflexivity ].
Qed.

Lemma oinv_some (s' : pstate) a0 t :
  stream_inv whole term s' -> s_cur s' = Some (a0, t) ->
  suffix_of (a0 :: map start (s_rest s') ++ eofpos) allp ->
  map start (s_mark s') = a0 :: map start (s_rest s') -> oinv s'.
Proof.
  intros Hst Hc Hsuf Hm. split; [ exact Hst | ]. unfold tailpos, markpos. rewrite Hc, Hm.
  repeat split; [ exact Hsuf | discriminate | discriminate ].
Qed.

(* the step of Parser::next from a state with a current token (also used with
   the current token already taken) *)
Lemma step_from p t (s0 s : pstate) s' :
  oinv s0 -> s_cur s0 = Some (p, t) ->
  s_rest s = s_rest s0 -> s_term s = s_term s0 -> stream_inv whole term s ->
  next OPS s = Ok tt s' -> oinv s' /\ p < cur_pos s'.
Proof.
  intros (Hst0 & Hsuf & Hmk & Hnone) Hc Hr Ht Hst Hn.
  pose proof (J_next (stream_inv_closed _ _ _ _ _ OPS whole term) _ _ Hst Hn) as Hst'.
  revert Hn. unfold next. rewrite Hr, Ht.
  assert (Hterm : s_term s0 = term) by apply Hst0.
  unfold tailpos in Hsuf. rewrite Hc in Hsuf.
  destruct (s_rest s0) as [|[a0 a1 t0 g] r] eqn:Hrest.
  - rewrite Hterm.
    destruct eofpos_cases as [(a & g & Et & Ee) | (e & g & Et & Ee)]; rewrite Et; [ | discriminate ].
    intros [= <-]. rewrite Ee in Hsuf. cbn [map app] in Hsuf. split.
    + eapply oinv_end; [ exact Et | exact Hst' | reflexivity .. ].
    + cbn. eapply sorted_suffix_lt; [ exact Hsorted | exact Hsuf ].
  - intros [= <-]. cbn [map app] in Hsuf. split.
    + eapply oinv_some; [ exact Hst' | reflexivity | | reflexivity ].
      cbn. eapply suffix_of_tail. exact Hsuf.
    + cbn. eapply sorted_suffix_lt; [ exact Hsorted | exact Hsuf ].
Qed.

Lemma O_next s y s' :
  oinv s -> next OPS s = Ok y s' ->
  oinv s' /\ cur_pos s <= cur_pos s' /\ (s_cur s <> None -> cur_pos s < cur_pos s').
Proof.
  intros Ho Hn. destruct y. destruct (s_cur s) as [[p t]|] eqn:Hc.
  - destruct (step_from p t s s s' Ho Hc eq_refl eq_refl (oinv_stream _ Ho) Hn) as (H1 & H2).
    rewrite (cur_pos_some _ _ _ _ s p t Hc). split; [ exact H1 | split; [ lia | intros _; exact H2 ] ].
  - pose proof (J_next (stream_inv_closed _ _ _ _ _ OPS whole term) _ _ (oinv_stream _ Ho) Hn)
      as Hst'.
    destruct Ho as (Hst & Hsuf & Hmk & Hnone). destruct (Hnone Hc) as (Hr & He).
    revert Hn. unfold next. rewrite Hr.
    assert (Hterm : s_term s = term) by apply Hst. rewrite Hterm.
    destruct eofpos_cases as [(a & g & Et & Ee) | (e & g & Et & Ee)]; rewrite Et;
      [ | discriminate ].
    rewrite Ee in He. injection He as He. intros [= <-]. split; [ | split ].
    + eapply oinv_end; [ exact Et | exact Hst' | reflexivity .. ].
    + unfold cur_pos. rewrite Hc. cbn. lia.
    + intros HH. exfalso. apply HH. reflexivity.
Qed.

(* taking the current token and moving on *)
Lemma O_take s p t y s' :
  oinv s -> s_cur s = Some (p, t) -> next OPS (upd_cur s None) = Ok y s' ->
  oinv s' /\ p < cur_pos s'.
Proof.
  intros Ho Hc Hn. destruct y.
  eapply (step_from p t s (upd_cur s None));
    [ exact Ho | exact Hc | reflexivity | reflexivity | | exact Hn ].
  exact (oinv_stream _ Ho).
Qed.

Lemma O_goback s0 s y s' :
  oinv s0 -> stream_inv whole term s -> goback OPS (preback s0) s = Ok y s' ->
  oinv s' /\ cur_pos s' = cur_pos s0.
Proof.
  intros Ho0 Hst Hg. destruct y.
  assert (Hst' : stream_inv whole term s').
  { eapply (J_goback (stream_inv_closed _ _ _ _ _ OPS whole term)); [ apply Ho0 | exact Hst | ].
    exact Hg. }
  destruct (tailpos_hd _ Ho0) as (tl & Htl).
  destruct Ho0 as (Hst0 & Hsuf & Hmk & Hnone).
  revert Hg. unfold goback, preback. unfold markpos in Hmk.
  destruct (s_mark s0) as [|[a0 a1 t g] r] eqn:Hmark.
  - assert (Hterm : s_term s = term) by apply Hst. rewrite Hterm.
    cbn [map app] in Hmk. rewrite Htl in Hmk.
    destruct eofpos_cases as [(a & g & Et & Ee) | (e & g & Et & Ee)]; rewrite Et;
      [ | discriminate ].
    rewrite Ee in Hmk. injection Hmk as Ha Htl'. intros [= <-]. split.
    + eapply oinv_end; [ exact Et | exact Hst' | reflexivity .. ].
    + cbn. exact Ha.
  - intros [= <-]. cbn [map app start] in Hmk. split.
    + eapply oinv_some; [ exact Hst' | reflexivity | | reflexivity ].
      cbn [s_rest]. rewrite Hmk. exact Hsuf.
    + cbn. rewrite Htl in Hmk. injection Hmk as Ha _. exact Ha.
Qed.

Lemma O_line_end c s c' s' :
  oinv s -> line_end_comment OPS c s = Ok c' s' -> oinv s' /\ cur_pos s <= cur_pos s'.
Proof.
  intros Ho Hl.
  assert (Hst' : stream_inv whole term s').
  { eapply (J_line_end (stream_inv_closed _ _ _ _ _ OPS whole term)); [ apply Ho | exact Hl ]. }
  revert Hl. unfold line_end_comment.
  destruct (negb (cur_is s (KOp OSemiColon))) eqn:Hsemi; [ intros [= _ <-]; split; [ exact Ho | lia ] | ].
  apply negb_false_iff in Hsemi. destruct (cur_is_op_inv _ _ _ _ _ _ Hsemi) as (p & Hc).
  rewrite (cur_pos_some _ _ _ _ s p _ Hc).
  destruct Ho as (Hst & Hsuf & Hmk & Hnone).
  assert (Hterm : s_term s = term) by apply Hst.
  unfold tailpos in Hsuf. rewrite Hc in Hsuf.
  destruct (s_rest s) as [|[a0 a1 t g] r] eqn:Hrest.
  - rewrite Hterm.
    destruct eofpos_cases as [(a & g & Et & Ee) | (e & g & Et & Ee)]; rewrite Et; [ | discriminate ].
    destruct (d_line_end _ _ _ _ _ _) as [[? ?] ?]. intros [= _ <-].
    rewrite Ee in Hsuf. cbn [map app] in Hsuf. split.
    + eapply oinv_end; [ exact Et | exact Hst' | reflexivity .. ].
    + cbn. apply N.lt_le_incl. eapply sorted_suffix_lt; [ exact Hsorted | exact Hsuf ].
  - destruct (d_line_end _ _ _ _ _ _) as [[? ?] ?]. intros [= _ <-]. cbn [map app] in Hsuf. split.
    + eapply oinv_some; [ exact Hst' | reflexivity | | reflexivity ].
      cbn. eapply suffix_of_tail. exact Hsuf.
    + cbn. apply N.lt_le_incl. eapply sorted_suffix_lt; [ exact Hsorted | exact Hsuf ].
Qed.

Lemma O_drain s c s' :
  oinv s -> drain OPS s = (c, s') -> oinv s' /\ cur_pos s' = cur_pos s /\ s_cur s' = s_cur s.
Proof.
  unfold drain. destruct (d_drain OPS (s_d s)). intros H [= _ <-].
  split; [ exact H | split; reflexivity ].
Qed.

Lemma O_inc_level s site y s1 :
  oinv s -> inc_level s site = Ok y s1 -> oinv s1 /\ cur_pos s1 = cur_pos s.
Proof.
  unfold inc_level. destruct (_ <=? _)%nat; [ discriminate | ]. intros H [= _ <-].
  split; [ exact H | reflexivity ].
Qed.

Lemma O_expect k site s p s' :
  oinv s -> expect OPS k site s = Ok p s' -> oinv s' /\ p = cur_pos s /\ cur_pos s < cur_pos s'.
Proof.
  intros Ho. unfold expect. destruct (s_cur s) as [[p0 t]|] eqn:Ec; [ | discriminate ].
  destruct (tok_is t k); [ | discriminate ].
  apply bind_inv. intros y s1 Hn [= <- <-].
  destruct (O_take _ _ _ _ _ Ho Ec Hn) as (H1 & H2).
  rewrite (cur_pos_some _ _ _ _ s p0 t Ec). auto.
Qed.

Lemma O_skipped k s b s' :
  oinv s -> skipped OPS k s = Ok b s' ->
  oinv s' /\ cur_pos s <= cur_pos s' /\ (b = true -> cur_pos s < cur_pos s').
Proof.
  intros Ho. unfold skipped. destruct (cur_is s k) eqn:Hc.
  - apply bind_inv. intros y s1 Hn [= <- <-].
    destruct (O_next _ _ _ Ho Hn) as (H1 & H2 & H3). split; [ exact H1 | split; [ exact H2 | ] ].
    intros _. apply H3. unfold cur_is in Hc. destruct (s_cur s); [ discriminate | discriminate Hc ].
  - intros [= <- <-]. split; [ exact Ho | split; [ lia | discriminate ] ].
Qed.

(* ------------------------------------------------------------------ specifications *)

Definition OS {X} (good : N -> N -> X -> Prop) (p : pstate -> res X) : Prop :=
  forall s r s', oinv s -> p s = Ok r s' ->
                 oinv s' /\ cur_pos s <= cur_pos s' /\ good (cur_pos s) (cur_pos s') r.
Definition OSP {X} (Pre : pstate -> Prop) (good : N -> N -> X -> Prop) (p : pstate -> res X)
  : Prop :=
  forall s r s', oinv s -> Pre s -> p s = Ok r s' ->
                 oinv s' /\ cur_pos s <= cur_pos s' /\ good (cur_pos s) (cur_pos s') r.

Definition anyo {X} (_ _ : N) (_ : X) : Prop := True.

End Order.

Arguments start {G} e.
Arguments eofpos {G E} term.
Arguments allp {G E} whole term.
Arguments tailpos {G D E} term s.
Arguments oinv {G D E} whole term s.
Arguments OS {G D E} whole term {X} good p.
Arguments OSP {G D E} whole term {X} Pre good p.
Arguments anyo {X}.

(* the shapes of [good]: the value alone; a value built on an argument x that
   lies in [lo0, lo) *)
Definition G0l {C} (lo hi : N) (r : list (node N C)) : Prop := Forall (og lo hi) r.
Definition G1 {C} (x : node N C) (lo hi : N) (r : node N C) : Prop :=
  forall lo0, lo0 <= lo -> og lo0 lo x -> og lo0 hi r.
Definition G1o {C} (x : option (node N C)) (lo hi : N) (r : node N C) : Prop :=
  forall lo0, lo0 <= lo -> ogo lo0 lo x -> og lo0 hi r.
Definition G1l {C} (acc : list (node N C)) (lo hi : N) (r : list (node N C)) : Prop :=
  forall lo0, lo0 <= lo -> Forall (og lo0 lo) acc -> Forall (og lo0 hi) r.

(* the surgery of param_decl_loop / field_decl: the first child of an Index
   node (not between the brackets) is replaced *)
Lemma og_set_kid0_index C a b (typ id : node N C) :
  is_tag GIndex typ = true -> og a b typ -> og a b id -> og a b (set_kid typ 0 id).
Proof.
  destruct typ as [tg ps ats d ks]. intros Htag Hg Hid.
  apply is_tag_true in Htag. cbn [n_tag] in Htag. subst tg.
  apply og_Nd in Hg. destruct Hg as (Hown & Hp & Hks). cbn [set_kid]. apply og_Nd_i.
  - exact Hown.
  - unfold pair_here in *. destruct (pair_of GIndex ps) as [[l r]|]; [ | exact I ].
    cbn [inside] in *. destruct ks; cbn [set_nth skipn] in *; exact Hp.
  - destruct ks; cbn [set_nth]; [ constructor | ].
    inversion Hks; subst. constructor; assumption.
Qed.

(* ------------------------------------------------------------------ tactics *)

Lemma cur_is_has A G D E (s : Core.pstate A G D E) k : cur_is s k = true -> s_cur s <> None.
Proof. unfold cur_is. destruct (s_cur s); [ discriminate | discriminate ]. Qed.

Lemma ogol_ranged_somes C (l : list (option (node N C))) a b a' b' :
  Forall (ogo a b) l -> a' <= a -> b <= b' ->
  Forall (ranged a' b') (flat_map (fun o => match o with Some e => [e] | None => [] end) l).
Proof.
  intros H Ha Hb. eapply ogl_ranged_mono; [ apply og_somes, H | exact Ha | exact Hb ].
Qed.

Lemma og_map_field_of G D C (OPS : ops N G D C) lo hi (l : list (node N C)) :
  Forall (og lo hi) l -> Forall (og lo hi) (map (fun i => field_of OPS i) l).
Proof.
  induction 1; cbn [map]; constructor; auto.
  apply og_Nd_i; [ constructor | exact I | ].
  repeat constructor; auto; try apply og_nnone.
Qed.

Create HintDb oinv discriminated.
#[export] Hint Resolve oinv_upd_level oinv_dec_level oinv_reset_level oinv_upd_depth : oinv.
Create HintDb ord discriminated.

Ltac oinv_tac := solve [ eauto 5 with oinv ].
Ltac strm_tac := first [ eassumption | apply oinv_stream; oinv_tac ].
Ltac o_side := first [ eassumption | oinv_tac | strm_tac ].

Ltac o_split3 H :=
  let H1 := fresh "Hov" in let H2 := fresh "Hle" in let H3 := fresh "Hg" in
  destruct H as (H1 & H2 & H3);
  cbv beta in H3; unfold anyo, G0l, G1, G1o, G1l in H3;
  lazymatch type of H3 with True => clear H3 | _ => idtac end.

Ltac o_use Hm :=
  lazymatch type of Hm with
  | ?p ?s = Ok ?y ?s1 =>
      let Hs := fresh "Hov" in
      eassert (Hs : oinv _ _ s) by oinv_tac;
      let HS := fresh "HS" in
      eassert (HS : OS _ _ _ p) by (solve [ eauto 5 with ord ]);
      specialize (HS s y s1 Hs Hm); clear Hs; clear Hm; o_split3 HS
  end.

Ltac opre_tac :=
  first [ assumption
        | match goal with
          | E : s_cur ?s = Some _ |- s_cur ?s <> None => rewrite E; discriminate
          | E : cur_is ?s _ = true |- s_cur ?s <> None => exact (cur_is_has _ _ _ _ _ _ E)
          end ].

Ltac o_useP Hm :=
  lazymatch type of Hm with
  | ?p ?s = Ok ?y ?s1 =>
      let Hs := fresh "Hov" in
      eassert (Hs : oinv _ _ s) by oinv_tac;
      let HS := fresh "HS" in
      eassert (HS : OSP _ _ _ _ p) by (solve [ eauto 5 with ord ]);
      let HP := fresh "HP" in
      lazymatch type of HS with
      | OSP _ _ ?Pre _ _ => assert (HP : Pre s) by (cbv beta; opre_tac)
      end;
      specialize (HS s y s1 Hs HP Hm); clear Hs HP; clear Hm; o_split3 HS
  end.

Ltac o_hyp Hm :=
  lazymatch type of Hm with
  | next _ (upd_cur ?s None) = Ok _ ?s1 =>
      match goal with
      | E : s_cur s = Some (?p, _) |- _ =>
          let H' := fresh "Hx" in
          eassert (H' : oinv _ _ s1 /\ p < cur_pos s1)
            by (eapply O_take; [ .. | exact E | exact Hm ]; o_side);
          let H1 := fresh "Hov" in let H2 := fresh "Hlt" in
          destruct H' as (H1 & H2); clear Hm
      end
  | next _ ?s = Ok _ ?s1 =>
      let H' := fresh "Hx" in
      eassert (H' : oinv _ _ s1 /\ cur_pos s <= cur_pos s1 /\
                    (s_cur s <> None -> cur_pos s < cur_pos s1))
        by (eapply O_next; [ .. | exact Hm ]; o_side);
      let H1 := fresh "Hov" in let H2 := fresh "Hle" in let H3 := fresh "Hlt" in
      destruct H' as (H1 & H2 & H3); clear Hm
  | goback _ (preback ?s0) _ = Ok _ ?s1 =>
      let H' := fresh "Hx" in
      eassert (H' : oinv _ _ s1 /\ cur_pos s1 = cur_pos s0)
        by (eapply O_goback; [ .. | exact Hm ]; o_side);
      let H1 := fresh "Hov" in let H2 := fresh "Heq" in
      destruct H' as (H1 & H2); clear Hm
  | cur_tok ?s _ = Ok _ ?s0 =>
      apply cur_tok_inv in Hm;
      let p := fresh "p" in let E := fresh "Ecur" in
      destruct Hm as (-> & p & E)
  | inc_level ?s _ = Ok _ ?s1 =>
      let H' := fresh "Hx" in
      eassert (H' : oinv _ _ s1 /\ cur_pos s1 = cur_pos s)
        by (eapply O_inc_level; [ .. | exact Hm ]; o_side);
      let H1 := fresh "Hov" in let H2 := fresh "Heq" in
      destruct H' as (H1 & H2); clear Hm
  | check_single_expr _ _ = Ok _ _ =>
      apply check_single_expr_inv in Hm; destruct Hm as (-> & ->)
  | expect _ _ _ ?s = Ok ?p ?s1 =>
      let H' := fresh "Hx" in
      eassert (H' : oinv _ _ s1 /\ p = cur_pos s /\ cur_pos s < cur_pos s1)
        by (eapply O_expect; [ .. | exact Hm ]; o_side);
      let H1 := fresh "Hov" in let H2 := fresh "Heq" in let H3 := fresh "Hlt" in
      destruct H' as (H1 & H2 & H3); clear Hm; try subst p
  | skipped _ _ ?s = Ok ?b ?s1 =>
      let H' := fresh "Hx" in
      eassert (H' : oinv _ _ s1 /\ cur_pos s <= cur_pos s1 /\ (b = true -> cur_pos s < cur_pos s1))
        by (eapply O_skipped; [ .. | exact Hm ]; o_side);
      let H1 := fresh "Hov" in let H2 := fresh "Hle" in let H3 := fresh "Hlt" in
      destruct H' as (H1 & H2 & H3); clear Hm
  | _ => first [ o_use Hm | o_useP Hm | idtac ]
  end.

Ltac o_destr x :=
  first [ is_var x; destruct x
        | let E := fresh "E" in
          destruct x eqn:E;
          try match type of E with
              | drain _ ?s = (_, ?s1) =>
                  let H' := fresh "Hx" in
                  eassert (H' : oinv _ _ s1 /\ cur_pos s1 = cur_pos s /\ s_cur s1 = s_cur s)
                    by (eapply O_drain; [ .. | exact E ]; o_side);
                  let H1 := fresh "Hov" in let H2 := fresh "Heq" in let H3 := fresh "Hsc" in
                  destruct H' as (H1 & H2 & H3)
              | _ = Ok _ _ => o_hyp E
              end ].

Ltac o_step :=
  lazymatch goal with
  | |- Ok _ _ = Ok _ _ -> _ =>
      let HH := fresh "HH" in intros HH; injection HH as ? ?; subst
  | |- Err _ _ = _ -> _ => let HH := fresh "HH" in intros HH; discriminate HH
  | |- Panic _ = _ -> _ => let HH := fresh "HH" in intros HH; discriminate HH
  | |- Fuel = _ -> _ => let HH := fresh "HH" in intros HH; discriminate HH
  | |- bind (Ok ?x ?s) ?k = ?R -> ?Cc => change (k x s = R -> Cc); cbv beta
  | |- bind (Err _ _) _ = _ -> _ => let HH := fresh "HH" in intros HH; discriminate HH
  | |- bind (Panic _) _ = _ -> _ => let HH := fresh "HH" in intros HH; discriminate HH
  | |- bind Fuel _ = _ -> _ => let HH := fresh "HH" in intros HH; discriminate HH
  | |- bind (bind _ _) _ = _ -> _ => rewrite bind_assoc
  | |- bind (if ?b then _ else _) _ = _ -> _ => o_destr b
  | |- bind (match ?x with _ => _ end) _ = _ -> _ => o_destr x
  | |- bind _ _ = _ -> _ =>
      apply bind_inv;
      let y := fresh "y" in let s1 := fresh "s" in let Hm := fresh "Hm" in
      intros y s1 Hm; cbv beta; o_hyp Hm
  | |- (if ?b then _ else _) = _ -> _ => o_destr b
  | |- (match ?x with _ => _ end) = _ -> _ => o_destr x
  | |- _ = Ok _ _ -> _ => let Hm := fresh "Hm" in intros Hm; o_hyp Hm
  end.

Ltac o_steps :=
  cbv beta iota zeta delta [negb];
  repeat (o_step; cbv beta iota zeta delta [negb]).

(* ---- the final goal ---- *)

Ltac o_sat :=
  rewrite ?cp_upd_level, ?cp_dec_level, ?cp_reset_level, ?cp_upd_depth in *;
  repeat match goal with
         | E : s_cur ?s = Some (?p, _) |- _ =>
             progress (rewrite ?(cur_pos_some _ _ _ _ s _ _ E) in * )
         end;
  repeat match goal with
         | H : _ /\ _ |- _ => destruct H
         | H : true = true -> _ |- _ => specialize (H eq_refl)
         | H : false = true -> _ |- _ => clear H
         | H : s_cur ?s <> None -> _, E : s_cur ?s = Some _ |- _ =>
             let HH := fresh "Hlt" in
             assert (HH := H ltac:(rewrite E; discriminate)); clear H
         | H : s_cur ?s <> None -> _, E : cur_is ?s _ = true |- _ =>
             let HH := fresh "Hlt" in
             assert (HH := H (cur_is_has _ _ _ _ _ _ E)); clear H
         | H : s_cur ?s <> None -> _, E1 : s_cur ?s = s_cur ?s0, E : s_cur ?s0 = Some _ |- _ =>
             let HH := fresh "Hlt" in
             assert (HH := H ltac:(rewrite E1, E; discriminate)); clear H
         | H : s_cur ?s <> None -> _, E1 : s_cur ?s = s_cur ?s0, E : s_cur ?s0 <> None |- _ =>
             let HH := fresh "Hlt" in
             assert (HH := H ltac:(rewrite E1; exact E)); clear H
         | H : s_cur ?s <> None -> _, E : s_cur ?s <> None |- _ =>
             let HH := fresh "Hlt" in
             assert (HH := H E); clear H
         end.

Ltac o_cases :=
  repeat match goal with
         | |- context [if ?b then _ else _] => destruct b
         | H : context [if ?b then _ else _] |- _ => is_var b; destruct b
         | |- context [match ?o with Some _ => _ | None => _ end] => is_var o; destruct o
         end.

Ltac o_norm :=
  unfold n_ident, n_basic, n_strlit, n_field, field_of, n_fieldlist, n_operation, n_functype, npos,
    empty_fieldlist, mk, mkd;
  cbn [fst snd ogo nopt]; cbv beta iota.

Ltac o_own :=
  cbn [opos at_dir]; repeat (constructor; try (unfold inr; lia)).

(* [ranged] goals: the children between the brackets *)
Ltac rs :=
  lazymatch goal with
  | |- True => exact I
  | |- Forall _ [] => constructor
  | |- Forall _ (_ :: _) => constructor; rs
  | |- Forall _ (_ ++ _) => apply Forall_app_i; rs
  | |- ranged _ _ (Nd _ _ _ _ _) => apply ranged_Nd_i; [ o_own | rs ]
  | |- ranged _ _ nnone => apply ranged_nnone
  | |- ranged _ _ (nlist _) => apply ranged_nlist; rs
  | |- _ => rs_atom
  end
with rs_atom :=
  match goal with
  | H : og _ _ ?x |- ranged _ _ ?x => solve [ eapply og_ranged_mono; [ exact H | lia | lia ] ]
  | H : ogo _ _ ?o |- ranged _ _ (nopt ?o) =>
      solve [ eapply ogo_ranged_mono; [ exact H | lia | lia ] ]
  | H : Forall (og _ _) ?l |- Forall (ranged _ _) ?l =>
      solve [ eapply ogl_ranged_mono; [ exact H | lia | lia ] ]
  | H : Forall (ogo _ _) ?l |- Forall (ranged _ _) (flat_map _ ?l) =>
      solve [ eapply ogol_ranged_somes; [ exact H | lia | lia ] ]
  | H : forall lo0, lo0 <= _ -> _ |- ranged ?a _ _ =>
      solve [ eapply og_ranged_mono; [ eapply (H a); [ lia | os .. ] | lia | lia ] ]
  | H : forall lo0, lo0 <= _ -> _ |- Forall (ranged ?a _) _ =>
      solve [ eapply ogl_ranged_mono; [ eapply (H a); [ lia | os .. ] | lia | lia ] ]
  | H : Forall _ (_ ++ _) |- _ => solve [ apply Forall_app_l in H; rs ]
  | H : Forall _ (_ ++ _) |- _ => solve [ apply Forall_app_r in H; rs ]
  | H : Forall _ (_ :: _) |- _ => solve [ apply Forall_hd in H; cbn [ogo] in H; rs ]
  | H : Forall _ (_ :: _) |- _ => solve [ apply Forall_tl in H; rs ]
  | H : pop_last _ = Some (_, Some ?x) |- ranged ?a ?b ?x =>
      solve [ apply og_ranged; change (ogo a b (Some x));
              eapply (pop_last_x _ (ogo a b)); [ exact H | os ] ]
  end
with o_pair :=
  unfold pair_here; cbn [pair_of inside skipn firstn];
  lazymatch goal with
  | |- True => exact I
  | |- _ /\ _ => split; [ lia | rs ]
  end
with os :=
  o_norm;
  lazymatch goal with
  | |- True => exact I
  | |- anyo _ _ _ => exact I
  | |- _ < _ => lia
  | |- _ <= _ => lia
  | |- _ /\ _ => split; os
  | |- og _ _ (Nd _ _ _ _ _) => apply og_Nd_i; [ o_own | o_pair | os ]
  | |- og _ _ nnone => apply og_nnone
  | |- og _ _ (nlist _) => apply og_nlist; os
  | |- og _ _ (nopt _) => apply og_nopt; os
  | |- og _ _ (set_docs _ _) => apply og_set_docs; os
  | |- og _ _ (kid _ _) => apply og_kid; os
  | |- og _ _ (set_kid _ 0 _) => apply og_set_kid0_index; [ assumption | os | os ]
  | |- ogo _ _ (nth_error _ _) => apply ogo_nth_error; os
  | |- ogo _ _ (Some _) => cbn [ogo]; os
  | |- ogo _ _ None => exact I
  | |- Forall _ [] => constructor
  | |- Forall _ (_ :: _) => constructor; os
  | |- Forall _ (_ ++ _) => apply Forall_app_i; os
  | |- Forall _ (map _ _) => apply og_map_field_of; os
  | |- Forall _ (flat_map _ _) => apply og_somes; os
  | |- forall _, _ => intro; os
  | |- _ => os_atom
  end
with os_atom :=
  first [ assumption
        | match goal with
          | H : og _ _ ?x |- og _ _ ?x => solve [ eapply og_mono; [ exact H | lia | lia ] ]
          | H : ogo _ _ ?x |- ogo _ _ ?x => solve [ eapply ogo_mono; [ exact H | lia | lia ] ]
          | H : Forall (og _ _) ?x |- Forall (og _ _) ?x =>
              solve [ eapply ogl_mono; [ exact H | lia | lia ] ]
          | H : Forall (ogo _ _) ?x |- Forall (ogo _ _) ?x =>
              solve [ eapply ogol_mono; [ exact H | lia | lia ] ]
          | H : forall lo0, lo0 <= _ -> _ |- og ?a _ _ =>
              solve [ eapply og_mono_hi; [ eapply (H a); [ lia | os .. ] | lia ] ]
          | H : forall lo0, lo0 <= _ -> _ |- ogo ?a _ _ =>
              solve [ eapply ogo_mono_hi; [ eapply (H a); [ lia | os .. ] | lia ] ]
          | H : forall lo0, lo0 <= _ -> _ |- Forall (og ?a _) _ =>
              solve [ eapply ogl_mono_hi; [ eapply (H a); [ lia | os .. ] | lia ] ]
          | H : forall lo0, lo0 <= _ -> _ |- Forall (ogo ?a _) _ =>
              solve [ eapply ogol_mono_hi; [ eapply (H a); [ lia | os .. ] | lia ] ]
          | H : Forall _ (_ ++ _) |- _ => solve [ apply Forall_app_l in H; os ]
          | H : Forall _ (_ ++ _) |- _ => solve [ apply Forall_app_r in H; os ]
          | H : Forall _ (_ :: _) |- _ => solve [ apply Forall_hd in H; cbn [ogo] in H; os ]
          | H : Forall _ (_ :: _) |- _ => solve [ apply Forall_tl in H; os ]
          | H : pop_last _ = Some (_, ?x) |- og ?a ?b ?x =>
              solve [ eapply (pop_last_x _ (og a b)); [ exact H | os ] ]
          | H : pop_last _ = Some (_, Some ?x) |- og ?a ?b ?x =>
              solve [ change (ogo a b (Some x)); eapply (pop_last_x _ (ogo a b)); [ exact H | os ] ]
          | H : pop_last _ = Some (?r, _) |- Forall (og ?a ?b) ?r =>
              solve [ eapply (pop_last_r _ (og a b)); [ exact H | os ] ]
          end ].

Ltac o_fin :=
  cbn [fst snd ogo] in *;
  o_sat; o_cases; try discriminate; o_sat;
  (split; [ oinv_tac | split; [ lia | os ] ]).

Tactic Notation "oprod" reference(f) :=
  intros ? ? ? ?; unfold f; hide_nats; o_steps; try (solve [ o_fin ]).
Tactic Notation "oprodP" reference(f) :=
  intros ? ? ? ? ?; unfold f; hide_nats; o_steps; try (solve [ o_fin ]).
Tactic Notation "oloop" reference(f) ident(fuel) :=
  induction fuel; intros; intros ? ? ? ?; [ discriminate | cbn [f]; hide_nats; o_steps;
                                           try (solve [ o_fin ]) ].

(* ------------------------------------------------------------------ leaf parsers *)

Section Leafs.
Variables (G D C E : Type) (OPS : ops N G D C).
Notation pstate := (Core.pstate N G D E).
Notation res := (Core.res N G D E).
Notation selem := (Core.selem N G).
Notation nodeT := (node N C).
Variable whole : list selem.
Variable term : Core.sterm N G E.
Hypothesis Hsorted : StronglySorted N.lt (allp whole term).
Notation OSw := (OS (D:=D) whole term).

Lemma O_identifier site : OSw (og (C:=C)) (identifier OPS site).
Proof.
  intros s r s' Ho. unfold identifier.
  destruct (s_cur s) as [[p t]|] eqn:Ec; [ | discriminate ].
  destruct t as [| | |k name]; try discriminate. destruct k; try discriminate.
  apply bind_inv. intros y s1 Hm [= <- <-].
  destruct (O_take _ _ _ _ _ _ _ Hsorted _ _ _ _ _ Ho Ec Hm) as (H1 & H2).
  o_sat. split; [ exact H1 | split; [ lia | os ] ].
Qed.

Lemma O_literal : OSw (og (C:=C)) (literal OPS).
Proof.
  intros s r s' Ho. unfold literal.
  destruct (s_cur s) as [[p t]|] eqn:Ec; [ | discriminate ].
  destruct t as [| | |k name]; try discriminate.
  apply bind_inv. intros y s1 Hm [= <- <-].
  destruct (O_take _ _ _ _ _ _ _ Hsorted _ _ _ _ _ Ho Ec Hm) as (H1 & H2).
  o_sat. split; [ exact H1 | split; [ lia | os ] ].
Qed.

Lemma O_string_literal site : OSw (og (C:=C)) (string_literal OPS site).
Proof.
  intros s r s' Ho. unfold string_literal.
  destruct (s_cur s) as [[p t]|] eqn:Ec; [ | discriminate ].
  destruct t as [| | |k name]; try discriminate. destruct k; try discriminate.
  apply bind_inv. intros y s1 Hm [= <- <-].
  destruct (O_take _ _ _ _ _ _ _ Hsorted _ _ _ _ _ Ho Ec Hm) as (H1 & H2).
  o_sat. split; [ exact H1 | split; [ lia | os ] ].
Qed.

Lemma O_string_literal_or_none : OSw (ogo (C:=C)) (string_literal_or_none OPS).
Proof.
  intros s r s' Ho. unfold string_literal_or_none.
  assert (Hnone : Ok None s = Ok r s' ->
                  oinv whole term s' /\ cur_pos s <= cur_pos s' /\ ogo (cur_pos s) (cur_pos s') r).
  { intros [= <- <-]. split; [ exact Ho | split; [ lia | exact I ] ]. }
  destruct (s_cur s) as [[p t]|] eqn:Ec; [ | exact Hnone ].
  destruct t as [| | |k name]; try exact Hnone.
  destruct k; try exact Hnone.
  apply bind_inv. intros y s1 Hm [= <- <-].
  destruct (O_take _ _ _ _ _ _ _ Hsorted _ _ _ _ _ Ho Ec Hm) as (H1 & H2).
  o_sat. split; [ exact H1 | split; [ lia | os ] ].
Qed.

Lemma O_line_end_comment (c : C) : OSw anyo (line_end_comment OPS c).
Proof.
  intros s r s' Ho H. destruct (O_line_end _ _ _ _ _ _ _ Hsorted _ _ _ _ Ho H) as (H1 & H2).
  split; [ exact H1 | split; [ exact H2 | exact I ] ].
Qed.

End Leafs.

#[export] Hint Resolve O_identifier O_literal O_string_literal O_string_literal_or_none
  O_line_end_comment : ord.
