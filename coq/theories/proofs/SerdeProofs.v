(* Proofs for C20: de (ser v) = Some v over well-formed schemas. *)
From Coq Require Import List String Ascii NArith Bool Arith Lia.
From GoSyn Require Import Serde.
Import ListNotations.
Open Scope string_scope.
Open Scope list_scope.

(* ------------------------------------------------------------------ *)
(* association lists, nodupb                                           *)

Lemma nodupb_NoDup : forall l, nodupb l = true -> NoDup l.
Proof.
  induction l as [|x r IH]; simpl; intro H; [constructor|].
  apply andb_true_iff in H. destruct H as [H1 H2].
  constructor; [|auto].
  intro Hin. apply negb_true_iff in H1.
  assert (existsb (String.eqb x) r = true) as E.
  { apply existsb_exists. exists x. split; [assumption|apply String.eqb_refl]. }
  rewrite E in H1. discriminate.
Qed.

Lemma NoDup_nodupb : forall l, NoDup l -> nodupb l = true.
Proof.
  induction 1 as [|x r Hn Hd IH]; simpl; [reflexivity|].
  rewrite IH, andb_true_r. apply negb_true_iff.
  destruct (existsb (String.eqb x) r) eqn:E; [|reflexivity].
  apply existsb_exists in E. destruct E as [y [Hy Hxy]].
  apply String.eqb_eq in Hxy. subst y. contradiction.
Qed.

Lemma lookup_In : forall (A : Type) k (l : list (string * A)) a,
  lookup k l = Some a -> In (k, a) l.
Proof.
  induction l as [|[k' a'] r IH]; simpl; intros a H; [discriminate|].
  destruct (String.eqb k k') eqn:E.
  - apply String.eqb_eq in E. injection H as <-. subst. left; reflexivity.
  - right. auto.
Qed.

Lemma forallb_In : forall (A : Type) (f : A -> bool) l x,
  forallb f l = true -> In x l -> f x = true.
Proof. intros A f l x H Hin. rewrite forallb_forall in H. auto. Qed.

Lemma find_apply_app : forall (A R : Type) (g : A -> R) k pre x rest,
  ~ In k (map fst pre) ->
  find_apply g k (pre ++ (k, x) :: rest) = Some (g x).
Proof.
  induction pre as [|[k' a'] r IH]; simpl; intros x rest Hn.
  - rewrite String.eqb_refl. reflexivity.
  - destruct (String.eqb k k') eqn:E.
    + apply String.eqb_eq in E. subst. exfalso. apply Hn. left; reflexivity.
    + apply IH. intro Hin. apply Hn. right; assumption.
Qed.

(* ------------------------------------------------------------------ *)
(* identifiers <-> code points                                         *)

Lemma uncode_codes : forall s, uncode (codes s) = Some s.
Proof.
  unfold codes. induction s as [|a s IH]; simpl; [reflexivity|].
  assert (N.ltb (N_of_ascii a) 256 = true) as Hlt.
  { apply N.ltb_lt. apply N_ascii_bounded. }
  rewrite Hlt, IH. simpl. rewrite ascii_N_embedding. reflexivity.
Qed.

(* ------------------------------------------------------------------ *)
(* list-level round trips, generic in the element functions            *)

Section Lists.
  Variable sr : ty -> value -> json.
  Variable f : ty -> json -> option value.
  Variable ht : ty -> value -> bool.
  Variable wfT : ty -> bool.

  Definition elem_ok (v : value) : Prop :=
    forall t, wfT t = true -> ht t v = true -> f t (sr t v) = Some v.

  Lemma traverse_roundtrip : forall t vs,
    wfT t = true -> Forall elem_ok vs -> forallb (ht t) vs = true ->
    traverse (f t) (map (sr t) vs) = Some vs.
  Proof.
    intros t vs Hw HF. induction HF as [|v r Hv HF IH]; simpl; intro H; [reflexivity|].
    apply andb_true_iff in H. destruct H as [H1 H2].
    rewrite (Hv t Hw H1), (IH H2). reflexivity.
  Qed.

  Lemma traverse2_roundtrip : forall vs ts,
    forallb wfT ts = true -> Forall elem_ok vs -> forallb2 ht ts vs = true ->
    traverse2 f ts (map2 sr ts vs) = Some vs.
  Proof.
    intros vs ts Hw HF. revert ts Hw.
    induction HF as [|v r Hv HF IH]; intros [|t ts] Hw H; simpl in *;
      try discriminate; [reflexivity|].
    apply andb_true_iff in H. destruct H as [H1 H2].
    apply andb_true_iff in Hw. destruct Hw as [Hw1 Hw2].
    rewrite (Hv t Hw1 H1), (IH ts Hw2 H2). reflexivity.
  Qed.

  Definition ser_fds (fds : list (name * ty)) (fs : list (name * value)) :=
    map2 (fun fd fv => (fst fd, sr (snd fd) (snd fv))) fds fs.
  Definition ht_fds (fds : list (name * ty)) (fs : list (name * value)) :=
    forallb2 (fun fd fv => String.eqb (fst fd) (fst fv) && ht (snd fd) (snd fv)) fds fs.

  Lemma ser_fds_keys : forall fs fds,
    ht_fds fds fs = true -> map fst (ser_fds fds fs) = map fst fds.
  Proof.
    unfold ser_fds, ht_fds.
    induction fs as [|fv fs IH]; intros [|fd fds] H; simpl in *; try discriminate;
      [reflexivity|].
    apply andb_true_iff in H. destruct H as [_ H]. rewrite (IH fds H). reflexivity.
  Qed.

  Lemma de_fields_aux_roundtrip : forall fs fds pre,
    (forall k, In k (map fst fds) -> ~ In k (map fst pre)) ->
    NoDup (map fst fds) ->
    forallb (fun fd => wfT (snd fd)) fds = true ->
    Forall (fun fv => elem_ok (snd fv)) fs ->
    ht_fds fds fs = true ->
    de_fields_aux f (pre ++ ser_fds fds fs) fds = Some fs.
  Proof.
    unfold ser_fds, ht_fds.
    induction fs as [|[fn v] fs IH]; intros [|[fn' t] fds] pre Hdis Hnd Hw HF H;
      simpl in *; try discriminate; [reflexivity|].
    apply andb_true_iff in H. destruct H as [H1 H2].
    apply andb_true_iff in H1. destruct H1 as [Hn Ht].
    apply String.eqb_eq in Hn. subst fn'.
    apply andb_true_iff in Hw. destruct Hw as [Hw1 Hw2].
    inversion HF as [|? ? Hv HF']; subst. simpl in Hv.
    inversion Hnd as [|? ? Hnotin Hnd']; subst.
    rewrite find_apply_app by (apply Hdis; left; reflexivity).
    rewrite (Hv t Hw1 Ht).
    specialize (IH fds (pre ++ [(fn, sr t v)])).
    rewrite <- app_assoc in IH. simpl in IH.
    rewrite IH; [reflexivity| |assumption|assumption|assumption|assumption].
    intros k Hk. rewrite map_app. simpl. intro Hin.
    apply in_app_or in Hin. destruct Hin as [Hin|[Hin|[]]].
    - apply (Hdis k); [right; assumption|assumption].
    - subst k. contradiction.
  Qed.

  Lemma de_fields_roundtrip : forall fds fs,
    nodupb (map fst fds) = true ->
    forallb (fun fd => wfT (snd fd)) fds = true ->
    Forall (fun fv => elem_ok (snd fv)) fs ->
    ht_fds fds fs = true ->
    de_fields f (ser_fds fds fs) fds = Some fs.
  Proof.
    intros fds fs Hnd Hw HF H. unfold de_fields.
    rewrite (ser_fds_keys fs fds H), Hnd.
    apply (de_fields_aux_roundtrip fs fds []); auto.
    apply nodupb_NoDup; assumption.
  Qed.
End Lists.

(* ------------------------------------------------------------------ *)
(* the schema-level facts                                              *)

Section Schema.
  Variable S : schema.
  Hypothesis Hwf : wf_schema S = true.

  Lemma wf_lookup : forall n d, lookup n S = Some d -> wf_def S d = true.
  Proof.
    intros n d H. unfold wf_schema in Hwf.
    apply andb_true_iff in Hwf. destruct Hwf as [_ H2].
    apply lookup_In in H.
    apply (forallb_In _ _ _ _ H2 H).
  Qed.

  Lemma wf_variant : forall vars vn sh,
    wf_def S (DEnum vars) = true -> lookup vn vars = Some sh -> wf_shape S sh = true.
  Proof.
    intros vars vn sh H Hl. simpl in H.
    apply andb_true_iff in H. destruct H as [_ H2].
    apply lookup_In in Hl.
    apply (forallb_In _ _ _ _ H2 Hl).
  Qed.

  Lemma de_nonopt : forall t j, is_option t = false -> de S t j = de1 S t j.
  Proof. intros t j H. destruct t; try reflexivity. discriminate. Qed.

  Lemma nullable_is_option : forall t, nullable t = false -> is_option t = false.
  Proof. intros t H. destruct t; try reflexivity. discriminate. Qed.

  (* a value of a non-nullable type never serialises to null *)
  Lemma ser_nonnull : forall t v,
    nullable t = false -> has_type_b S t v = true -> ser S t v <> JNull.
  Proof.
    intros t v Hn Ht.
    destruct v; destruct t; simpl in Hn, Ht |- *; try discriminate.
    - (* VTup *) destruct ts; [discriminate|]. discriminate.
    - (* VRecord *)
      apply andb_true_iff in Ht. destruct Ht as [_ Ht].
      destruct (lookup n0 S) as [[| |]|]; try discriminate.
    - (* VTupleS *)
      apply andb_true_iff in Ht. destruct Ht as [_ Ht].
      destruct (lookup n0 S) as [[| |]|]; try discriminate.
    - (* VVariant *)
      apply andb_true_iff in Ht. destruct Ht as [_ Ht].
      destruct (lookup n S) as [[| |vars]|]; try discriminate.
      destruct (lookup vn vars) as [[| | |]|]; try discriminate.
      + destruct v; try discriminate.
      + destruct v; try discriminate.
  Qed.

  Ltac red_with El :=
    cbn [ser de_opt de1]; rewrite ?El; cbn [ser de_opt de1]; rewrite ?El;
    cbn [ser de_opt de1].

  Theorem roundtrip : forall v t,
    wf_ty S t = true -> has_type_b S t v = true -> de S t (ser S t v) = Some v.
  Proof.
    induction v using value_ind'; intros t Hw Ht.
    - (* VNum *) destruct t; simpl in Ht; try discriminate.
      unfold de; simpl. rewrite Ht. reflexivity.
    - (* VBool *) destruct t; simpl in Ht; try discriminate. reflexivity.
    - (* VStr *) destruct t; simpl in Ht; try discriminate.
      unfold de; simpl. rewrite Ht. reflexivity.
    - (* VChar *) destruct t; simpl in Ht; try discriminate.
      unfold de; simpl. rewrite Ht. reflexivity.
    - (* VNone *) destruct t; simpl in Ht; try discriminate. reflexivity.
    - (* VSome *) destruct t; simpl in Ht; try discriminate.
      simpl in Hw. apply andb_true_iff in Hw. destruct Hw as [Hn Hw].
      apply negb_true_iff in Hn.
      pose proof (ser_nonnull t v Hn Ht) as Hnn.
      pose proof (IHv t Hw Ht) as IH.
      rewrite de_nonopt in IH by (apply nullable_is_option; assumption).
      simpl. unfold de, de_opt.
      destruct (ser S t v); try congruence; rewrite IH; reflexivity.
    - (* VSeq *) destruct t; simpl in Ht; try discriminate.
      simpl in Hw. unfold de. cbn [ser de_opt de1].
      change (de_opt (de1 S)) with (de S).
      rewrite (traverse_roundtrip (ser S) (de S) (has_type_b S) (wf_ty S)); auto.
    - (* VTup *) destruct t; simpl in Ht; try discriminate.
      simpl in Hw. destruct ts as [|t0 ts].
      + destruct vs; [reflexivity|discriminate].
      + unfold de. cbn [ser de_opt de1].
        change (de_opt (de1 S)) with (de S).
        rewrite (traverse2_roundtrip (ser S) (de S) (has_type_b S) (wf_ty S)); auto.
    - (* VRecord *) destruct t; simpl in Ht; try discriminate.
      apply andb_true_iff in Ht. destruct Ht as [Hn Ht].
      apply String.eqb_eq in Hn. subst n0.
      destruct (lookup n S) as [[fds| |]|] eqn:El; try discriminate.
      unfold de. red_with El.
      pose proof (wf_lookup _ _ El) as Hd. simpl in Hd.
      apply andb_true_iff in Hd. destruct Hd as [Hd1 Hd2].
      change (de_opt (de1 S)) with (de S).
      pose proof (de_fields_roundtrip (ser S) (de S) (has_type_b S) (wf_ty S)
                    fds fs Hd1 Hd2 H Ht) as E.
      unfold ser_fds in E. rewrite E. reflexivity.
    - (* VTupleS *) destruct t; simpl in Ht; try discriminate.
      apply andb_true_iff in Ht. destruct Ht as [Hn Ht].
      apply String.eqb_eq in Hn. subst n0.
      destruct (lookup n S) as [[|ts|]|] eqn:El; try discriminate.
      unfold de. red_with El.
      pose proof (wf_lookup _ _ El) as Hd. simpl in Hd.
      apply andb_true_iff in Hd. destruct Hd as [Hd1 Hd2].
      change (de_opt (de1 S)) with (de S).
      rewrite (traverse2_roundtrip (ser S) (de S) (has_type_b S) (wf_ty S)); auto.
    - (* VVariant *) destruct t; simpl in Ht; try discriminate.
      apply andb_true_iff in Ht. destruct Ht as [Hn Ht].
      apply String.eqb_eq in Hn. subst e.
      destruct (lookup n S) as [[| |vars]|] eqn:El; try discriminate.
      pose proof (wf_lookup _ _ El) as Hd.
      destruct (lookup vn vars) as [[|t'|ts|fds]|] eqn:Ev; try discriminate.
      + (* unit *)
        destruct v; try discriminate. destruct vs; try discriminate.
        unfold de. red_with El. rewrite Ev. red_with El.
        rewrite uncode_codes, Ev. reflexivity.
      + (* newtype *)
        unfold de. red_with El. rewrite Ev. red_with El. rewrite Ev.
        pose proof (wf_variant _ _ _ Hd Ev) as Hs. simpl in Hs.
        change (de_opt (de1 S)) with (de S).
        rewrite (IHv t' Hs Ht). reflexivity.
      + (* tuple *)
        destruct v; try discriminate.
        unfold de. red_with El. rewrite Ev. red_with El. rewrite Ev.
        pose proof (wf_variant _ _ _ Hd Ev) as Hs. simpl in Hs.
        change (de_opt (de1 S)) with (de S).
        rewrite (traverse2_roundtrip (ser S) (de S) (has_type_b S) (wf_ty S)); auto.
      + (* struct *)
        destruct v; try discriminate.
        apply andb_true_iff in Ht. destruct Ht as [Hn Ht].
        apply String.eqb_eq in Hn. subst n0.
        unfold de. red_with El. rewrite Ev. red_with El. rewrite Ev.
        pose proof (wf_variant _ _ _ Hd Ev) as Hs. simpl in Hs.
        apply andb_true_iff in Hs. destruct Hs as [Hs1 Hs2].
        change (de_opt (de1 S)) with (de S).
        pose proof (de_fields_roundtrip (ser S) (de S) (has_type_b S) (wf_ty S)
                      fds fs Hs1 Hs2 H Ht) as E.
        unfold ser_fds in E. rewrite E. reflexivity.
  Qed.
End Schema.

(* ------------------------------------------------------------------ *)
(* corollaries                                                         *)

Lemma has_type_named_wf : forall S n v,
  has_type_b S (TNamed n) v = true -> wf_ty S (TNamed n) = true.
Proof.
  intros S n v H. simpl.
  destruct v; simpl in H; try discriminate;
    apply andb_true_iff in H; destruct H as [_ H];
    destruct (lookup n S); [reflexivity|discriminate| reflexivity|discriminate
                           | reflexivity|discriminate].
Qed.

Lemma reserialize : forall S t v v',
  wf_schema S = true -> wf_ty S t = true -> has_type_b S t v = true ->
  de S t (ser S t v) = Some v' -> ser S t v' = ser S t v.
Proof.
  intros S t v v' Hwf Hw Ht Hd.
  rewrite (roundtrip S Hwf v t Hw Ht) in Hd. injection Hd as <-. reflexivity.
Qed.

Lemma ser_injective : forall S t v1 v2,
  wf_schema S = true -> wf_ty S t = true ->
  has_type_b S t v1 = true -> has_type_b S t v2 = true ->
  ser S t v1 = ser S t v2 -> v1 = v2.
Proof.
  intros S t v1 v2 Hwf Hw H1 H2 E.
  pose proof (roundtrip S Hwf v1 t Hw H1) as R1.
  pose proof (roundtrip S Hwf v2 t Hw H2) as R2.
  rewrite E in R1. rewrite R1 in R2. injection R2 as <-. reflexivity.
Qed.

(* ------------------------------------------------------------------ *)
(* reachability                                                        *)

Lemma memb_In : forall n l, memb n l = true -> In n l.
Proof.
  unfold memb. intros n l H. apply existsb_exists in H.
  destruct H as [y [Hy E]]. apply String.eqb_eq in E. subst. assumption.
Qed.

Theorem closed_reachable : forall S flags R root,
  closed_ok S flags R = true -> memb root R = true ->
  forall n, reachable S root n ->
    In n R /\ (exists d, lookup n S = Some d) /\ flag_ok flags n = true.
Proof.
  intros S flags R root Hc Hr.
  assert (forall n, In n R ->
            (exists d, lookup n S = Some d /\
                       forall n', In n' (def_names d) -> In n' R) /\
            flag_ok flags n = true) as Hstep.
  { intros n Hin. unfold closed_ok in Hc.
    pose proof (forallb_In _ _ _ _ Hc Hin) as H. simpl in H.
    apply andb_true_iff in H. destruct H as [H1 H2]. split; [|assumption].
    destruct (lookup n S) as [d|]; [|discriminate].
    exists d. split; [reflexivity|].
    intros n' Hn'. apply memb_In. apply (forallb_In _ _ _ _ H1 Hn'). }
  assert (forall n, reachable S root n -> In n R) as Hin.
  { induction 1 as [|n n' Hreach IH [d [Hl Hm]]].
    - apply memb_In; assumption.
    - destruct (Hstep n IH) as [[d' [Hl' Hcl]] _].
      rewrite Hl in Hl'. injection Hl' as <-. auto. }
  intros n Hn. pose proof (Hin n Hn) as HR.
  destruct (Hstep n HR) as [[d [Hl _]] Hf].
  split; [assumption|]. split; [exists d; assumption|assumption].
Qed.

(* ------------------------------------------------------------------ *)
(* the deserialiser only produces well-typed values                    *)

Lemma find_apply_In : forall (A R : Type) (g : A -> R) k kvs r,
  find_apply g k kvs = Some r -> exists kv, In kv kvs /\ r = g (snd kv).
Proof.
  induction kvs as [|kv kvs IH]; simpl; intros r H; [discriminate|].
  destruct (String.eqb k (fst kv)).
  - injection H as <-. exists kv. split; [left; reflexivity|reflexivity].
  - destruct (IH r H) as [kv' [Hin E]]. exists kv'. split; [right; assumption|assumption].
Qed.

Section Sound.
  Variable f : ty -> json -> option value.
  Variable ht : ty -> value -> bool.
  Hypothesis ht_none : forall t, is_option t = true -> ht t VNone = true.

  Definition sound_at (j : json) : Prop :=
    forall t v, f t j = Some v -> ht t v = true.

  Lemma traverse_sound : forall t js vs,
    Forall sound_at js -> traverse (f t) js = Some vs -> forallb (ht t) vs = true.
  Proof.
    intros t js vs HF. revert vs.
    induction HF as [|j js Hj HF IH]; simpl; intros vs H.
    - injection H as <-. reflexivity.
    - destruct (f t j) as [v|] eqn:E; [|discriminate].
      destruct (traverse (f t) js) as [vs'|]; [|discriminate].
      simpl in H. injection H as <-. simpl.
      rewrite (Hj t v E), (IH vs' eq_refl). reflexivity.
  Qed.

  Lemma traverse2_sound : forall js ts vs,
    Forall sound_at js -> traverse2 f ts js = Some vs -> forallb2 ht ts vs = true.
  Proof.
    intros js ts vs HF. revert ts vs.
    induction HF as [|j js Hj HF IH]; intros [|t ts] vs H; simpl in H; try discriminate.
    - injection H as <-. reflexivity.
    - destruct (f t j) as [v|] eqn:E; [|discriminate].
      destruct (traverse2 f ts js) as [vs'|] eqn:E'; [|discriminate].
      simpl in H. injection H as <-. simpl.
      rewrite (Hj t v E), (IH ts vs' E'). reflexivity.
  Qed.

  Lemma de_fields_sound : forall kvs fds fs,
    Forall (fun kv => sound_at (snd kv)) kvs ->
    de_fields f kvs fds = Some fs -> ht_fds ht fds fs = true.
  Proof.
    intros kvs fds fs HF H. unfold de_fields in H.
    destruct (nodupb (map fst kvs)); [|discriminate].
    rewrite Forall_forall in HF.
    revert fs H. unfold ht_fds.
    induction fds as [|[fn t] fds IH]; simpl; intros fs H.
    - injection H as <-. reflexivity.
    - destruct (find_apply (f t) fn kvs) as [[v|]|] eqn:E; try discriminate.
      + destruct (de_fields_aux f kvs fds) as [fs'|]; [|discriminate].
        simpl in H. injection H as <-. simpl.
        apply find_apply_In in E. destruct E as [kv [Hin E]].
        rewrite String.eqb_refl, (HF kv Hin t v (eq_sym E)), (IH fs' eq_refl).
        reflexivity.
      + destruct (is_option t) eqn:Eo; [|discriminate].
        destruct (de_fields_aux f kvs fds) as [fs'|]; [|discriminate].
        simpl in H. injection H as <-. simpl.
        rewrite String.eqb_refl, (ht_none t Eo), (IH fs' eq_refl). reflexivity.
  Qed.
End Sound.

Section DeSound.
  Variable S : schema.

  Lemma de_opt_sound : forall j,
    sound_at (de1 S) (has_type_b S) j -> sound_at (de S) (has_type_b S) j.
  Proof.
    intros j H t v Hd. unfold de, de_opt in Hd.
    destruct t; try (apply H; assumption).
    destruct j; try (injection Hd as <-; reflexivity);
      match type of Hd with
      | option_map VSome (de1 S t ?j') = Some v =>
          destruct (de1 S t j') as [v'|] eqn:E; [|discriminate];
          simpl in Hd; injection Hd as <-; simpl; apply (H t v' E)
      end.
  Qed.

  Lemma has_type_none : forall t, is_option t = true -> has_type_b S t VNone = true.
  Proof. intros t H. destruct t; try discriminate. reflexivity. Qed.

  Definition sub_json (Q : json -> Prop) (j : json) : Prop :=
    match j with
    | JArr js => Forall Q js
    | JObj kvs => Forall (fun kv => Q (snd kv)) kvs
    | _ => True
    end.

  Lemma de1_sound_strong : forall j,
    sound_at (de1 S) (has_type_b S) j /\ sub_json (sound_at (de1 S) (has_type_b S)) j.
  Proof.
    induction j using json_ind'.
    1-4: split; [|exact I]; intros t v Hd.
    - (* JNull *)
      destruct t; simpl in Hd; try discriminate.
      + destruct ts; [|discriminate]. injection Hd as <-. reflexivity.
      + destruct (lookup n S) as [[| |]|]; discriminate.
    - (* JBool *)
      destruct t; simpl in Hd; try discriminate.
      + injection Hd as <-. reflexivity.
      + destruct ts; discriminate.
      + destruct (lookup n S) as [[| |]|]; discriminate.
    - (* JNum *)
      destruct t; simpl in Hd; try discriminate.
      + destruct (N.ltb n usize_limit) eqn:E; [|discriminate].
        injection Hd as <-. simpl. assumption.
      + destruct ts; discriminate.
      + destruct (lookup n0 S) as [[| |]|]; discriminate.
    - (* JStr *)
      destruct t; simpl in Hd; try discriminate.
      + destruct (forallb is_scalar s) eqn:E; [|discriminate].
        injection Hd as <-. simpl. assumption.
      + destruct s as [|c [|]]; try discriminate.
        destruct (is_scalar c) eqn:E; [|discriminate].
        injection Hd as <-. simpl. assumption.
      + destruct ts; discriminate.
      + destruct (lookup n S) as [[| |vars]|] eqn:El; try discriminate.
        destruct (uncode s) as [vn|]; [|discriminate].
        destruct (lookup vn vars) as [[| | |]|] eqn:Ev; try discriminate.
        injection Hd as <-. simpl. rewrite String.eqb_refl, El, Ev. reflexivity.
    - (* JArr *)
      assert (Forall (sound_at (de1 S) (has_type_b S)) js) as H1.
      { eapply Forall_impl; [|exact H]. intros a [Ha _]. exact Ha. }
      split; [|exact H1].
      assert (Forall (sound_at (de S) (has_type_b S)) js) as HF.
      { eapply Forall_impl; [|exact H1]. exact de_opt_sound. }
      intros t v Hd.
      destruct t; simpl in Hd; try discriminate.
      + change (de_opt (de1 S)) with (de S) in Hd.
        destruct (traverse (de S t) js) as [vs|] eqn:E; [|discriminate].
        simpl in Hd. injection Hd as <-. simpl.
        exact (traverse_sound _ _ t js vs HF E).
      + destruct ts as [|t0 ts]; [discriminate|].
        change (de_opt (de1 S)) with (de S) in Hd.
        destruct (traverse2 (de S) (t0 :: ts) js) as [vs|] eqn:E; [|discriminate].
        simpl in Hd. injection Hd as <-.
        exact (traverse2_sound _ _ js (t0 :: ts) vs HF E).
      + destruct (lookup n S) as [[|ts|]|] eqn:El; try discriminate.
        change (de_opt (de1 S)) with (de S) in Hd.
        destruct (traverse2 (de S) ts js) as [vs|] eqn:E; [|discriminate].
        simpl in Hd. injection Hd as <-. simpl.
        rewrite String.eqb_refl, El.
        exact (traverse2_sound _ _ js ts vs HF E).
    - (* JObj *)
      assert (Forall (fun kv => sound_at (de1 S) (has_type_b S) (snd kv)) kvs) as H1.
      { eapply Forall_impl; [|exact H]. intros a [Ha _]. exact Ha. }
      split; [|exact H1].
      assert (Forall (fun kv => sound_at (de S) (has_type_b S) (snd kv)) kvs) as HF.
      { eapply Forall_impl; [|exact H1]. intros kv. exact (de_opt_sound (snd kv)). }
      intros t v Hd.
      destruct t; simpl in Hd; try discriminate.
      + destruct ts; discriminate.
      + destruct (lookup n S) as [[fds| |vars]|] eqn:El; try discriminate.
        * change (de_opt (de1 S)) with (de S) in Hd.
          destruct (de_fields (de S) kvs fds) as [fs|] eqn:E; [|discriminate].
          simpl in Hd. injection Hd as <-. simpl.
          rewrite String.eqb_refl, El.
          exact (de_fields_sound _ _ has_type_none kvs fds fs HF E).
        * destruct kvs as [|[vn j'] [|]]; try discriminate.
          inversion HF as [|? ? Hj' _]; subst. simpl in Hj'.
          inversion H as [|? ? [_ Hsub] _]; subst. simpl in Hsub.
          destruct (lookup vn vars) as [[|t'|ts|fds]|] eqn:Ev; try discriminate.
          -- change (de_opt (de1 S)) with (de S) in Hd.
             destruct (de S t' j') as [p|] eqn:E; [|discriminate].
             simpl in Hd. injection Hd as <-. simpl.
             rewrite String.eqb_refl, El, Ev. exact (Hj' t' p E).
          -- destruct j' as [| | | |js|]; try discriminate.
             change (de_opt (de1 S)) with (de S) in Hd.
             destruct (traverse2 (de S) ts js) as [vs|] eqn:E; [|discriminate].
             simpl in Hd. injection Hd as <-. simpl.
             rewrite String.eqb_refl, El, Ev.
             simpl in Hsub.
             refine (traverse2_sound _ _ js ts vs _ E).
             eapply Forall_impl; [|exact Hsub]. exact de_opt_sound.
          -- destruct j' as [| | | | |kvs']; try discriminate.
             change (de_opt (de1 S)) with (de S) in Hd.
             destruct (de_fields (de S) kvs' fds) as [fs|] eqn:E; [|discriminate].
             simpl in Hd. injection Hd as <-. simpl.
             rewrite String.eqb_refl, El, Ev, String.eqb_refl.
             simpl in Hsub.
             refine (de_fields_sound _ _ has_type_none kvs' fds fs _ E).
             eapply Forall_impl; [|exact Hsub]. intros kv. exact (de_opt_sound (snd kv)).
  Qed.

  Theorem de_sound : forall t j v, de S t j = Some v -> has_type_b S t v = true.
  Proof.
    intros t j v H.
    exact (de_opt_sound j (proj1 (de1_sound_strong j)) t v H).
  Qed.
End DeSound.
