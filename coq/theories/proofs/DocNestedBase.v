(* C12, NESTED NODES: the documentation stored in ANY node of a returned tree
   (declaration statements inside function bodies, specs inside groups, struct
   fields inside any type, at any depth) is the specification's documentation
   of the FIRST TOKEN of that node -- although Parser::goback leaves a stale
   lead behind (C12_sync_not_closed_under_goback).

   A ghost MODE, expressed by two state predicates:
     [Fi s]  (fresh)  s comes from the stream [whole] and satisfies sync_inv:
                      the lead is empty or the documentation of the current token
     [sinv whole s]   (stale) s comes from the stream; NO claim about the lead
   goback only yields the second; Parser::next yields the first from the
   second.  RESULT-level specifications in the style of PosBase.v:
     [DS good p]   Fi s   -> p s = Ok r s' -> Fi s' /\ good r
     [DW good p]   sinv s -> p s = Ok r s' -> Fi s' /\ good r     (p moves on
                   before anything drains: it may be entered stale)
   Every drain is reached through [F_drain], which needs Fi: "every drain
   happens in mode fresh" is what the threading through all productions
   proves.  [dgood n]: every node of the tree n that has a documentation slot
   carries [doc_at (position of its first token)].                          *)
From Coq Require Import List Bool Arith NArith Lia.
From GoSyn.spec Require Import LineCol Docs.
From GoSyn Require Import Token Tok Scanner Ast Core Policy.
From GoSyn.proofs Require Import Lift StreamProofs LevelProofs DocProofs AccountBase PosBase.
Import ListNotations.

(* ------------------------------------------------------------------ first tokens *)

Section FirstPos.
Variables (A C : Type).
Notation nodeT := (node A C).

Definition pos_hd (n : nodeT) : option A :=
  match n_ps n with p :: _ => Some p | [] => None end.

(* where a (type) expression that starts with a name starts: a selector and an
   instantiation start where their first child starts *)
Fixpoint lead_pos (n : nodeT) : option A :=
  match n with
  | Nd t ps _ _ ks =>
      match t with
      | GSelector | GIndex => match ks with k :: _ => lead_pos k | [] => None end
      | _ => match ps with p :: _ => Some p | [] => None end
      end
  end.

(* a Field: its first name, else (embedded field) where its type starts *)
Definition fpos (names : list nodeT) (typ : nodeT) : option A :=
  match names with nm :: _ => pos_hd nm | [] => lead_pos typ end.
Definition field_pos (f : nodeT) : option A := fpos (n_kids (kid f 0)) (kid f 1).

(* a spec: its (first) name *)
Definition spec_pos (sp : nodeT) : option A :=
  match n_tag sp with
  | GTypeSpec => pos_hd (kid sp 0)
  | _ => match n_kids (kid sp 0) with nm :: _ => pos_hd nm | [] => None end
  end.

(* a FuncDecl: the `func` keyword, kept in its FuncType *)
Definition func_pos (fd : nodeT) : option A := pos_hd (kid fd 2).

End FirstPos.
Arguments pos_hd {A C} n.
Arguments lead_pos {A C} n.
Arguments fpos {A C} names typ.
Arguments field_pos {A C} f.
Arguments spec_pos {A C} sp.
Arguments func_pos {A C} fd.

Definition spec_of_decl (t : tag) : tag :=
  match t with
  | GDeclVar => GVarSpec
  | GDeclConst => GConstSpec
  | GDeclType => GTypeSpec
  | _ => GNone
  end.

Definition spec_tag_of (k : spec_kind) : tag :=
  match k with SKVar => GVarSpec | SKConst => GConstSpec | SKType => GTypeSpec end.

Lemma spec_of_decl_tag k : spec_of_decl (decl_tag k) = spec_tag_of k.
Proof. destruct k; reflexivity. Qed.

(* ------------------------------------------------------------------ the predicates *)

Section Defs.
Variable lines : list N.
Variable E : Type.
Notation cm := Policy.comment.
Notation OPS := (policy_ops lines).
Notation pstate := (Core.pstate N (list cm) cstate E).
Notation res := (Core.res N (list cm) cstate E).
Notation selem := (Core.selem N (list cm)).
Notation nodeT := (node N (list cm)).
Variable whole : list selem.

(* [c] is empty, or the specification's documentation of the token of the
   stream that starts at [po], computed from that token's own comments (all of
   them, or all but the first when line_end_comment took that one) *)
Definition doc_at (po : option N) (c : list cm) : Prop :=
  c = [] \/
  exists pos a1 t g prev g',
    po = Some pos /\ In (SE pos a1 t g) whole /\ tail_of g' g /\
    c = lead_spec (line_c lines) (line_start_c lines) prev g' (Some pos).

Lemma doc_at_nil po : doc_at po [].
Proof. left. reflexivity. Qed.

Definition spec_ok (st : tag) (sp : nodeT) : Prop :=
  n_tag sp = st /\ exists c, n_docs sp = [c] /\ doc_at (spec_pos sp) c.

(* what the node itself has to satisfy *)
Definition own_doc_ok (t : tag) (ps : list N) (docs : list (list cm)) (ks : list nodeT) : Prop :=
  match t with
  | GField =>
      (* Field.comments = the documentation, plus possibly the comment that
         follows the field on the line of its ';' *)
      exists c c0, docs = [c] /\ (c = c0 \/ exists x, c = c0 ++ [x]) /\
                   doc_at (fpos (n_kids (nth 0 ks nnone)) (nth 1 ks nnone)) c0
  | GFuncDecl => exists c, docs = [c] /\ doc_at (pos_hd (nth 2 ks nnone)) c
  | GDeclVar | GDeclConst | GDeclType =>
      match ps with
      | [pos0] =>
          (* a single declaration: its docs go to the spec *)
          docs = [[]] /\
          exists sp c, ks = [sp] /\ n_tag sp = spec_of_decl t /\ n_docs sp = [c] /\
                       doc_at (Some pos0) c
      | pos0 :: _ =>
          exists c, docs = [c] /\ doc_at (Some pos0) c /\ Forall (spec_ok (spec_of_decl t)) ks
      | [] => False
      end
  | GVarSpec | GConstSpec | GTypeSpec | GFile =>
      (* which token: said by the parent declaration (spec_ok) / by C12_package *)
      exists c po, docs = [c] /\ doc_at po c
  | _ => docs = []          (* no other node has documentation *)
  end.

Fixpoint dgood (n : nodeT) : Prop :=
  match n with
  | Nd t ps _ docs ks => own_doc_ok t ps docs ks /\ fold_right (fun k acc => dgood k /\ acc) True ks
  end.
Definition dgoodo (o : option nodeT) : Prop :=
  match o with Some n => dgood n | None => True end.

Lemma dfold_Forall (P : nodeT -> Prop) l :
  fold_right (fun k acc => P k /\ acc) True l <-> Forall P l.
Proof.
  induction l as [|k l IH]; cbn [fold_right]; split; intros H.
  - constructor.
  - exact I.
  - destruct H as (H1 & H2). constructor; [ exact H1 | apply IH, H2 ].
  - inversion H; subst. split; [ assumption | apply IH; assumption ].
Qed.

Lemma dgood_Nd t ps ats d ks :
  dgood (Nd t ps ats d ks) <-> own_doc_ok t ps d ks /\ Forall dgood ks.
Proof. cbn [dgood]. rewrite dfold_Forall. reflexivity. Qed.
Lemma dgood_Nd_i t ps ats d ks : own_doc_ok t ps d ks -> Forall dgood ks -> dgood (Nd t ps ats d ks).
Proof. intros. apply dgood_Nd. auto. Qed.
Lemma dgood_own n : dgood n -> own_doc_ok (n_tag n) (n_ps n) (n_docs n) (n_kids n).
Proof. destruct n. intros H. apply dgood_Nd in H. apply H. Qed.
Lemma dgood_kids n : dgood n -> Forall dgood (n_kids n).
Proof. destruct n. intros H. apply dgood_Nd in H. apply H. Qed.

Lemma dgood_nnone : dgood nnone.
Proof. apply dgood_Nd_i; [ reflexivity | constructor ]. Qed.
Lemma dgood_nlist l : Forall dgood l -> dgood (nlist l).
Proof. intros H. apply dgood_Nd_i; [ reflexivity | exact H ]. Qed.
Lemma dgood_nopt o : dgoodo o -> dgood (nopt o).
Proof. destruct o; [ auto | intros _; apply dgood_nnone ]. Qed.

Lemma is_tag_eq t (n : nodeT) : is_tag t n = true -> n_tag n = t.
Proof.
  unfold is_tag, tag_eqb. intros H. apply Nat.eqb_eq in H.
  destruct (n_tag n); destruct t; (reflexivity || discriminate H).
Qed.

(* replacing a child of an instantiation *)
Lemma dgood_set_kid_index n i k :
  is_tag GIndex n = true -> dgood n -> dgood k -> dgood (set_kid n i k).
Proof.
  intros Ht. apply is_tag_eq in Ht. destruct n as [t ps ats d ks]. cbn [n_tag] in Ht. subst t.
  cbn [set_kid]. rewrite !dgood_Nd. intros (H1 & H2) Hk.
  split; [ exact H1 | apply Forall_set_nth; assumption ].
Qed.
Lemma dgood_kid n i : dgood n -> dgood (kid n i).
Proof. intros H. unfold kid. apply Forall_nth; [ apply dgood_nnone | apply dgood_kids, H ]. Qed.
Lemma dgoodo_nth_error l i : Forall dgood l -> dgoodo (nth_error l i).
Proof.
  revert i. induction l; intros i Hl; destruct i; cbn; auto; inversion Hl; subst; auto.
Qed.

Lemma dgood_field_of typ : dgood typ -> dgood (field_of OPS typ).
Proof.
  intros H. apply dgood_Nd_i.
  - exists [], []. split; [ reflexivity | ]. split; [ left; reflexivity | apply doc_at_nil ].
  - repeat constructor; auto; apply dgood_nnone.
Qed.
Lemma dgood_map_field_of l :
  Forall dgood l -> Forall dgood (map (fun i => field_of OPS i) l).
Proof. induction 1; cbn [map]; constructor; auto. apply dgood_field_of; assumption. Qed.

Lemma dgood_somes (l : list (option nodeT)) :
  Forall dgoodo l ->
  Forall dgood (flat_map (fun o => match o with Some e => [e] | None => [] end) l).
Proof.
  induction 1 as [|o l Ho _ IH]; cbn [flat_map]; [ constructor | ].
  destruct o; cbn [app]; [ constructor; assumption | assumption ].
Qed.

Lemma dgood_occurs f : dgood f -> forall n, occurs n f -> dgood n.
Proof.
  intros Hf n Ho. induction Ho as [|t ps ats docs ks k Hk _ IH]; [ exact Hf | ].
  apply IH. apply dgood_Nd in Hf. destruct Hf as (_ & Hks).
  rewrite Forall_forall in Hks. apply Hks, Hk.
Qed.

(* a node whose tag has no obligation of its own keeps [dgood] under set_docs *)
Lemma dgood_set_docs_spec k n c po :
  spec_ok (spec_tag_of k) n -> doc_at po c -> dgood n -> dgood (set_docs n [c]).
Proof.
  intros (Ht & _) Hc. destruct n as [t ps ats d0 ks]. cbn [n_tag] in Ht. subst t.
  cbn [set_docs]. rewrite !dgood_Nd. intros (_ & H). split; [ | exact H ].
  destruct k; (exists c, po; split; [ reflexivity | exact Hc ]).
Qed.

(* ------------------------------------------------------------------ states *)

Definition Fi (s : pstate) : Prop := sinv whole s /\ sync_inv lines E s.

Lemma F_W s : Fi s -> sinv whole s.
Proof. intros H. apply H. Qed.
Lemma F_upd_cur s : Fi s -> Fi (upd_cur s None).
Proof. intros (H1 & H2). split; [ apply sinv_upd_cur, H1 | apply sync_upd_cur, H2 ]. Qed.
Lemma F_upd_level s lp ln : Fi s -> Fi (upd_level s lp ln).
Proof. exact (fun H => H). Qed.
Lemma F_dec_level s : Fi s -> Fi (dec_level s).
Proof. exact (fun H => H). Qed.
Lemma F_reset_level s : Fi s -> Fi (reset_level s).
Proof. exact (fun H => H). Qed.
Lemma F_upd_depth s n : Fi s -> Fi (upd_depth s n).
Proof. exact (fun H => H). Qed.

(* Parser::next: fresh, whatever the mode was *)
Lemma F_next s y s' : sinv whole s -> next OPS s = Ok y s' -> Fi s'.
Proof.
  intros Hs Hn. split; [ eapply sinv_next; eassumption | ].
  destruct y. eapply sync_next. exact Hn.
Qed.

Lemma F_expect k site s p s' :
  sinv whole s -> expect OPS k site s = Ok p s' ->
  Fi s' /\ cur_pos s = p /\ s_cur s <> None.
Proof.
  intros Hs. unfold expect. destruct (s_cur s) as [[p0 t]|] eqn:Ec; [ | discriminate ].
  destruct (tok_is t k); [ | discriminate ].
  apply bind_inv. intros y s1 Hn [= <- <-]. split; [ | split ].
  - eapply F_next; [ apply sinv_upd_cur, Hs | exact Hn ].
  - unfold cur_pos. rewrite Ec. reflexivity.
  - discriminate.
Qed.

Lemma F_skipped k s b s' : Fi s -> skipped OPS k s = Ok b s' -> Fi s'.
Proof.
  intros Hs. unfold skipped. destruct (cur_is s k).
  - apply bind_inv. intros y s1 Hn [= _ <-]. eapply F_next; [ apply F_W, Hs | exact Hn ].
  - intros [= _ <-]. exact Hs.
Qed.
Lemma W_skipped k s b s' :
  sinv whole s -> skipped OPS k s = Ok b s' -> sinv whole s' /\ (b = true -> Fi s').
Proof.
  intros Hs. unfold skipped. destruct (cur_is s k).
  - apply bind_inv. intros y s1 Hn [= <- <-].
    pose proof (F_next _ _ _ Hs Hn) as HF. split; [ apply F_W, HF | intros _; exact HF ].
  - intros [= <- <-]. split; [ exact Hs | discriminate ].
Qed.

Lemma F_inc_level s site y s1 : Fi s -> inc_level s site = Ok y s1 -> Fi s1.
Proof.
  unfold inc_level. destruct (_ <=? _)%nat; [ discriminate | ]. intros H [= _ <-]. exact H.
Qed.

(* THE drain: only from a fresh state; what it returns documents the current token *)
Lemma F_drain s c s1 :
  Fi s -> drain OPS s = (c, s1) ->
  Fi s1 /\ s_cur s1 = s_cur s /\ cur_pos s1 = cur_pos s /\
  (s_cur s1 <> None -> doc_at (Some (cur_pos s1)) c).
Proof.
  intros (Hw & Hy) Hd.
  assert (Hc : c = fst (drain OPS s)) by (rewrite Hd; reflexivity).
  assert (Hs1 : s1 = snd (drain OPS s)) by (rewrite Hd; reflexivity).
  assert (Hcur : s_cur s1 = s_cur s).
  { rewrite Hs1. unfold drain. destruct (d_drain OPS (s_d s)). reflexivity. }
  assert (Hpos : cur_pos s1 = cur_pos s).
  { rewrite Hs1. unfold drain. destruct (d_drain OPS (s_d s)). reflexivity. }
  split; [ | split; [ exact Hcur | split; [ exact Hpos | ] ] ].
  - split; [ eapply sinv_drain; eassumption | eapply sync_drain; eassumption ].
  - rewrite Hcur, Hpos. unfold cur_pos. destruct (s_cur s) as [[pos t]|] eqn:Ec; [ | congruence ].
    intros _. destruct (drain_synced lines E s pos t Hy Ec) as [H0 | (a1 & g & prev & g' & Hm & Ht & Hl)].
    + left. congruence.
    + right. exists pos, a1, t, g, prev, g'. split; [ reflexivity | ].
      split; [ | split; [ exact Ht | congruence ] ].
      destruct Hw as (_ & _ & Hmk). apply Hmk. rewrite Hm. left. reflexivity.
Qed.

Lemma F_line_end c s c' s' :
  Fi s -> line_end_comment OPS c s = Ok c' s' ->
  Fi s' /\ (c' = c \/ exists x, c' = c ++ [x]).
Proof.
  intros (Hw & Hy) Hl. split.
  - split; [ eapply sinv_line_end; eassumption | eapply sync_line_end; eassumption ].
  - revert Hl. unfold line_end_comment.
    destruct (negb _); [ intros [= <- _]; left; reflexivity | ].
    destruct (s_rest s) as [|[a0 a1 t g] r]; [ destruct (s_term s) as [a g|e g] | ].
    + destruct (d_line_end OPS (s_d s) (cur_pos s) g None c) as [[c1 g1] d1] eqn:Hle.
      intros [= <- _]. cbn [d_line_end policy_ops] in Hle.
      destruct (p_line_end_docs _ _ _ _ _ _ _ _ _ Hle) as [(-> & _) | (x & -> & _)];
        [ left | right; exists x ]; reflexivity.
    + discriminate.
    + destruct (d_line_end OPS (s_d s) (cur_pos s) g (Some a0) c) as [[c1 g1] d1] eqn:Hle.
      intros [= <- _]. cbn [d_line_end policy_ops] in Hle.
      destruct (p_line_end_docs _ _ _ _ _ _ _ _ _ Hle) as [(-> & _) | (x & -> & _)];
        [ left | right; exists x ]; reflexivity.
Qed.

Lemma F_init a0 d0 (term : Core.sterm N (list cm) E) :
  c_lead d0 = [] -> Fi (init_state a0 d0 whole term).
Proof.
  intros H. split; [ apply sinv_init | ]. split; [ exact I | left; exact H ].
Qed.

(* ------------------------------------------------------------------ specifications *)

Definition DS {X} (good : X -> Prop) (p : pstate -> res X) : Prop :=
  forall s r s', Fi s -> p s = Ok r s' -> Fi s' /\ good r.
(* may be entered stale *)
Definition DW {X} (good : X -> Prop) (p : pstate -> res X) : Prop :=
  forall s r s', sinv whole s -> p s = Ok r s' -> Fi s' /\ good r.
Definition DSP {X} (Pre : pstate -> Prop) (good : X -> Prop) (p : pstate -> res X) : Prop :=
  forall s r s', Fi s -> Pre s -> p s = Ok r s' -> Fi s' /\ good r.
(* type_or_none: a type moves on; None leaves the state (and its mode) alone *)
Definition DOpt (p : pstate -> res (option nodeT)) : Prop :=
  forall s r s', sinv whole s -> p s = Ok r s' ->
    match r with
    | Some t => Fi s' /\ dgood t
    | None => sinv whole s' /\ (Fi s -> Fi s')
    end.

Lemma DW_DS X (good : X -> Prop) p : DW good p -> DS good p.
Proof. intros H s r s' Hs. apply H, F_W, Hs. Qed.
Lemma DOpt_DS p : DOpt p -> DS dgoodo p.
Proof.
  intros H s r s' Hs Hp. specialize (H s r s' (F_W _ Hs) Hp).
  destruct r; [ exact H | split; [ apply H, Hs | exact I ] ].
Qed.

(* ------------------------------------------------------------------ shapes: where a result starts *)

Lemma identifier_shape site (s : pstate) r s' :
  identifier OPS site s = Ok r s' ->
  exists name, r = n_ident (cur_pos s) name /\ s_cur s <> None.
Proof.
  unfold identifier, cur_pos. destruct (s_cur s) as [[p t]|]; [ | discriminate ].
  destruct t as [| | |k name]; try discriminate. destruct k; try discriminate.
  apply bind_inv. intros y s1 _ [= <- _]. exists name. split; [ reflexivity | discriminate ].
Qed.

Lemma identifier_list_loop_shape : forall fuel (acc : list nodeT) (s : pstate) r s',
  identifier_list_loop OPS fuel acc s = Ok r s' -> exists rest, r = acc ++ rest.
Proof.
  induction fuel as [|f IH]; intros acc s r s'; [ discriminate | ]. cbn [identifier_list_loop].
  apply bind_inv. intros b s1 _. destruct b.
  - apply bind_inv. intros id s2 _ Hl. destruct (IH _ _ _ _ Hl) as (rest & ->).
    exists (id :: rest). rewrite <- app_assoc. reflexivity.
  - intros [= <- _]. exists []. symmetry. apply app_nil_r.
Qed.

Lemma identifier_list_shape (first : option nodeT) (s : pstate) r s' :
  identifier_list OPS first s = Ok r s' ->
  match first with
  | Some id => exists rest, r = id :: rest
  | None => exists name rest, r = n_ident (cur_pos s) name :: rest /\ s_cur s <> None
  end.
Proof.
  unfold identifier_list. destruct first as [id|].
  - intros H. destruct (identifier_list_loop_shape _ _ _ _ _ H) as (rest & ->).
    exists rest. reflexivity.
  - apply bind_inv. intros id s1 Hid H.
    destruct (identifier_shape _ _ _ _ Hid) as (name & -> & Hc).
    destruct (identifier_list_loop_shape _ _ _ _ _ H) as (rest & ->).
    exists name, rest. split; [ reflexivity | exact Hc ].
Qed.

End Defs.

Arguments DS lines E whole {X} good p.
Arguments DW lines E whole {X} good p.
Arguments DSP lines E whole {X} Pre good p.
Arguments doc_at : simpl never.

Lemma pop_last_one X (l r : list X) x :
  (length l =? 1)%nat = true -> pop_last l = Some (r, x) -> l = [x].
Proof.
  destruct l as [|a [|b l']]; try discriminate. intros _. unfold pop_last. cbn.
  intros [= _ <-]. reflexivity.
Qed.

(* ------------------------------------------------------------------ tactics *)

Create HintDb finv discriminated.
#[export] Hint Resolve F_upd_cur F_upd_level F_dec_level F_reset_level F_upd_depth : finv.
#[export] Hint Resolve F_W : finv.
Create HintDb doc discriminated.

Ltac f_tac := solve [ eauto 5 with finv ].
Ltac w_tac := solve [ eauto 7 with sinv finv ].

Ltac d_clean Hg :=
  cbv beta in Hg; unfold anyg in Hg;
  lazymatch type of Hg with True => clear Hg | _ => idtac end.

(* a generic specification from the hint base: fresh first, else stale *)
Ltac d_use Hm :=
  lazymatch type of Hm with
  | ?p ?s = Ok ?y ?s1 =>
      first
        [ let Hs := fresh "Hfv" in
          eassert (Hs : Fi _ _ _ s) by f_tac;
          let HS := fresh "HS" in
          eassert (HS : DS _ _ _ _ p) by (solve [ eauto 5 with doc ]);
          specialize (HS s y s1 Hs Hm); clear Hs;
          let Hs1 := fresh "Hfv" in
          let Hg := fresh "Hg" in
          destruct HS as (Hs1 & Hg); clear Hm; d_clean Hg
        | let Hs := fresh "Hwv" in
          eassert (Hs : sinv _ s) by w_tac;
          let HS := fresh "HS" in
          eassert (HS : DW _ _ _ _ p) by (solve [ eauto 5 with doc ]);
          specialize (HS s y s1 Hs Hm); clear Hs;
          let Hs1 := fresh "Hfv" in
          let Hg := fresh "Hg" in
          destruct HS as (Hs1 & Hg); clear Hm; d_clean Hg ]
  end.

Ltac dpre_tac := first [ assumption | congruence ].

Ltac d_useP Hm :=
  lazymatch type of Hm with
  | ?p ?s = Ok ?y ?s1 =>
      let Hs := fresh "Hfv" in
      eassert (Hs : Fi _ _ _ s) by f_tac;
      let HS := fresh "HS" in
      eassert (HS : DSP _ _ _ _ _ p) by (solve [ eauto 5 with doc ]);
      let HP := fresh "HP" in
      lazymatch type of HS with
      | DSP _ _ _ ?Pre _ _ => assert (HP : Pre s) by (cbv beta; dpre_tac)
      end;
      specialize (HS s y s1 Hs HP Hm); clear Hs HP;
      let Hs1 := fresh "Hfv" in
      let Hg := fresh "Hg" in
      destruct HS as (Hs1 & Hg); clear Hm; d_clean Hg
  end.

(* shape facts that relate a result to the state the production started in;
   [d_shape_more]: a hook for productions proved later *)
Ltac d_shape_more Hm := idtac.
Ltac d_shape Hm :=
  lazymatch type of Hm with
  | identifier _ _ ?s = Ok ?r _ =>
      let nm := fresh "nm" in let Hr := fresh "Hr" in let Hc := fresh "Hsome" in
      destruct (identifier_shape _ _ _ _ _ _ Hm) as (nm & Hr & Hc)
  | identifier_list _ (Some _) _ = Ok ?r _ =>
      let rest := fresh "rest" in let Hr := fresh "Hr" in
      destruct (identifier_list_shape _ _ _ _ _ _ Hm) as (rest & Hr)
  | identifier_list _ None _ = Ok ?r _ =>
      let nm := fresh "nm" in let rest := fresh "rest" in
      let Hr := fresh "Hr" in let Hc := fresh "Hsome" in
      destruct (identifier_list_shape _ _ _ _ _ _ Hm) as (nm & rest & Hr & Hc)
  | _ => d_shape_more Hm
  end.

Ltac d_hyp Hm :=
  lazymatch type of Hm with
  | next _ _ = Ok _ ?s1 =>
      let H' := fresh "Hfv" in
      eassert (H' : Fi _ _ _ s1) by (eapply F_next; [ | exact Hm ]; w_tac); clear Hm
  | goback _ (preback _) _ = Ok _ ?s1 =>
      let H' := fresh "Hwv" in
      eassert (H' : sinv _ s1) by (eapply sinv_goback; [ | exact Hm ]; w_tac); clear Hm
  | cur_tok ?s _ = Ok _ ?s0 =>
      apply cur_tok_inv in Hm;
      let p := fresh "p" in let E := fresh "Ecur" in
      destruct Hm as (-> & p & E)
  | inc_level _ _ = Ok _ ?s1 =>
      first
        [ let H' := fresh "Hfv" in
          eassert (H' : Fi _ _ _ s1) by (eapply F_inc_level; [ | exact Hm ]; f_tac); clear Hm
        | let H' := fresh "Hwv" in
          eassert (H' : sinv _ s1) by (eapply sinv_inc_level; [ | exact Hm ]; w_tac); clear Hm ]
  | check_single_expr _ _ = Ok _ _ =>
      apply check_single_expr_inv in Hm; destruct Hm as (-> & ->)
  | expect _ ?k _ ?s = Ok ?p ?s1 =>
      let H' := fresh "Hx" in
      eassert (H' : Fi _ _ _ s1 /\ cur_pos s = p /\ s_cur s <> None)
        by (eapply F_expect; [ | exact Hm ]; w_tac);
      let H1 := fresh "Hfv" in let H2 := fresh "Hcp" in let H3 := fresh "Hsome" in
      destruct H' as (H1 & H2 & H3); clear Hm; try subst p
  | skipped _ ?k ?s = Ok ?b ?s1 =>
      first
        [ let H' := fresh "Hfv" in
          eassert (H' : Fi _ _ _ s1) by (eapply F_skipped; [ | exact Hm ]; f_tac); clear Hm
        | let H' := fresh "Hx" in
          eassert (H' : sinv _ s1 /\ (b = true -> Fi _ _ _ s1))
            by (eapply W_skipped; [ | exact Hm ]; w_tac);
          let H1 := fresh "Hwv" in let H2 := fresh "Hfb" in
          destruct H' as (H1 & H2); clear Hm ]
  | line_end_comment _ ?c ?s = Ok ?c' ?s1 =>
      let H' := fresh "Hx" in
      eassert (H' : Fi _ _ _ s1 /\ (c' = c \/ exists x, c' = c ++ [x]))
        by (eapply F_line_end; [ | exact Hm ]; f_tac);
      let H1 := fresh "Hfv" in let H2 := fresh "Hle" in
      destruct H' as (H1 & H2); clear Hm
  | _ => d_shape Hm; first [ d_use Hm | d_useP Hm | idtac ]
  end.

Ltac d_destr x :=
  first [ is_var x; destruct x
        | let E := fresh "E" in
          destruct x eqn:E;
          try match type of E with
              | drain _ ?s = (?c, ?s1) =>
                  let H' := fresh "Hx" in
                  eassert (H' : Fi _ _ _ s1 /\ s_cur s1 = s_cur s /\ cur_pos s1 = cur_pos s /\
                                (s_cur s1 <> None -> doc_at _ _ (Some (cur_pos s1)) c))
                    by (eapply F_drain; [ | exact E ]; f_tac);
                  let H1 := fresh "Hfv" in let H2 := fresh "Hdc" in
                  let H3 := fresh "Hdp" in let H4 := fresh "Hdoc" in
                  destruct H' as (H1 & H2 & H3 & H4)
              | _ = Ok _ _ => d_hyp E
              end ].

Ltac d_step :=
  lazymatch goal with
  | |- Ok _ _ = Ok _ _ -> _ =>
      let HH := fresh "HH" in intros HH; injection HH as ? ?; subst
  | |- Err _ _ = _ -> _ => let HH := fresh "HH" in intros HH; discriminate HH
  | |- Panic _ = _ -> _ => let HH := fresh "HH" in intros HH; discriminate HH
  | |- Fuel = _ -> _ => let HH := fresh "HH" in intros HH; discriminate HH
  | |- bind (Ok ?x ?s) ?k = ?R -> ?Cc => change (k x s = R -> Cc); cbv beta
  | |- bind (Err _ _) _ = _ -> _ => let HH := fresh "HH" in intros HH; discriminate HH
  | |- bind (Panic _) _ = _ -> _ => let HH := fresh "HH" in intros HH; discriminate HH
  | |- bind Fuel _ = _ -> _ => let HH := fresh "HH" in intros HH; discriminate HH
  | |- bind (bind _ _) _ = _ -> _ => rewrite bind_assoc
  | |- bind (if ?b then _ else _) _ = _ -> _ => d_destr b
  | |- bind (match ?x with _ => _ end) _ = _ -> _ => d_destr x
  | |- bind _ _ = _ -> _ =>
      apply bind_inv;
      let y := fresh "y" in let s1 := fresh "s" in let Hm := fresh "Hm" in
      intros y s1 Hm; cbv beta; d_hyp Hm
  | |- (if ?b then _ else _) = _ -> _ => d_destr b
  | |- (match ?x with _ => _ end) = _ -> _ => d_destr x
  | |- _ = Ok _ _ -> _ => let Hm := fresh "Hm" in intros Hm; d_hyp Hm
  end.

Ltac d_steps :=
  cbv beta iota zeta delta [negb];
  repeat (d_step; cbv beta iota zeta delta [negb]).


(* walking through a production without any specification (for shape lemmas) *)
Ltac r_destr x :=
  first [ is_var x; destruct x | let E := fresh "E" in destruct x eqn:E ].
Ltac r_step :=
  lazymatch goal with
  | |- Ok _ _ = Ok _ _ -> _ =>
      let HH := fresh "HH" in intros HH; injection HH as ? ?; subst
  | |- Err _ _ = _ -> _ => let HH := fresh "HH" in intros HH; discriminate HH
  | |- Panic _ = _ -> _ => let HH := fresh "HH" in intros HH; discriminate HH
  | |- Fuel = _ -> _ => let HH := fresh "HH" in intros HH; discriminate HH
  | |- bind (Ok ?x ?s) ?k = ?R -> ?Cc => change (k x s = R -> Cc); cbv beta
  | |- bind (Err _ _) _ = _ -> _ => let HH := fresh "HH" in intros HH; discriminate HH
  | |- bind (Panic _) _ = _ -> _ => let HH := fresh "HH" in intros HH; discriminate HH
  | |- bind Fuel _ = _ -> _ => let HH := fresh "HH" in intros HH; discriminate HH
  | |- bind (bind _ _) _ = _ -> _ => rewrite bind_assoc
  | |- bind (if ?b then _ else _) _ = _ -> _ => r_destr b
  | |- bind (match ?x with _ => _ end) _ = _ -> _ => r_destr x
  | |- bind _ _ = _ -> _ =>
      apply bind_inv;
      let y := fresh "y" in let s1 := fresh "s" in let Hm := fresh "Hm" in
      intros y s1 Hm; cbv beta
  | |- (if ?b then _ else _) = _ -> _ => r_destr b
  | |- (match ?x with _ => _ end) = _ -> _ => r_destr x
  | |- _ = Ok _ _ -> _ => let Hm := fresh "Hm" in intros Hm
  end.
Ltac r_steps :=
  cbv beta iota zeta delta [negb];
  repeat (r_step; cbv beta iota zeta delta [negb]).

(* ---- the final goal: Fi s' /\ good r ---- *)

Ltac d_norm :=
  unfold n_ident, n_basic, n_strlit, n_field, n_fieldlist, n_operation, n_functype, npos,
    empty_fieldlist, mk, mkd;
  cbn [fst snd dgoodo]; cbv beta iota.

(* the obligation of the node itself: trivial but for Field / FuncDecl / Decl *)
Ltac d_docat :=
  cbn [fpos pos_hd lead_pos field_pos spec_pos func_pos n_ps n_kids n_tag n_docs nth kid nlist];
  first [ assumption
        | apply doc_at_nil
        | match goal with
          | H : _ -> doc_at _ _ _ ?c |- doc_at _ _ _ ?c =>
              apply H; first [ assumption | congruence | discriminate ]
          end ].

Ltac d_own :=
  lazymatch goal with
  | |- own_doc_ok _ _ GField _ _ _ =>
      first [ solve [ exists [], []; split; [ reflexivity | ];
                      split; [ left; reflexivity | apply doc_at_nil ] ]
            | solve [ eexists _, _; split; [ reflexivity | ];
                      split; [ left; reflexivity | d_docat ] ] ]
  | |- own_doc_ok _ _ GFuncDecl _ _ _ =>
      solve [ eexists; split; [ reflexivity | d_docat ] ]
  | |- own_doc_ok _ _ ?t _ _ _ =>
      first [ reflexivity
            | solve [ eexists _, _; split; [ reflexivity | d_docat ] ] ]
  end.

Ltac dg :=
  d_norm;
  lazymatch goal with
  | |- True => exact I
  | |- anyg _ => exact I
  | |- _ /\ _ => split; dg
  | |- dgood _ _ (Nd _ _ _ _ _) => apply dgood_Nd_i; [ d_own | dg ]
  | |- dgood _ _ nnone => apply dgood_nnone
  | |- dgood _ _ (nlist _) => apply dgood_nlist; dg
  | |- dgood _ _ (nopt _) => apply dgood_nopt; dg
  | |- dgood _ _ (field_of _ _) => apply dgood_field_of; dg
  | |- dgood _ _ (set_kid _ _ _) => apply dgood_set_kid_index; [ assumption | dg | dg ]
  | |- dgood _ _ (kid _ _) => apply dgood_kid; dg
  | |- dgoodo _ _ (nth_error _ _) => apply dgoodo_nth_error; dg
  | |- dgoodo _ _ (Some _) => d_norm; dg
  | |- dgoodo _ _ None => exact I
  | |- Forall _ [] => constructor
  | |- Forall _ (_ :: _) => constructor; dg
  | |- Forall _ (_ ++ _) => apply Forall_app_i; dg
  | |- Forall _ (map _ _) => apply dgood_map_field_of; dg
  | |- Forall _ (flat_map _ _) => apply dgood_somes; dg
  | |- _ -> _ => intro; dg
  | |- _ => dg_atom
  end
with dg_atom :=
  first [ assumption
        | match goal with
          | H : _ |- _ => solve [ apply H; dg ]
          | H : Forall _ (_ ++ _) |- _ => solve [ apply Forall_app_l in H; dg ]
          | H : Forall _ (_ ++ _) |- _ => solve [ apply Forall_app_r in H; dg ]
          | H : Forall _ (_ :: _) |- _ => solve [ apply Forall_hd in H; dg ]
          | H : Forall _ (_ :: _) |- _ => solve [ apply Forall_tl in H; dg ]
          | H : pop_last _ = Some (_, ?x) |- dgood ?l ?w ?x =>
              solve [ eapply (pop_last_x _ (dgood l w)); [ exact H | dg ] ]
          | H : pop_last _ = Some (_, Some ?x) |- dgood ?l ?w ?x =>
              solve [ change (dgoodo l w (Some x));
                      eapply (pop_last_x _ (dgoodo l w)); [ exact H | dg ] ]
          | H : pop_last _ = Some (?r, _) |- Forall (dgood ?l ?w) ?r =>
              solve [ eapply (pop_last_r _ (dgood l w)); [ exact H | dg ] ]
          end ].

Ltac d_sat :=
  repeat match goal with
         | H : true = true -> _ |- _ => specialize (H eq_refl)
         | H : false = true -> _ |- _ => clear H
         | H : dgoodo _ _ None -> _ |- _ => specialize (H I)
         | H : dgoodo ?l ?w (Some ?x) -> _ |- _ =>
             let Hp := fresh "Hp" in
             assert (Hp : dgoodo l w (Some x)) by (solve [ dg ]);
             specialize (H Hp); clear Hp
         end.

Ltac d_cases :=
  repeat match goal with
         | |- context [if ?b then _ else _] => destruct b
         | H : context [if ?b then _ else _] |- _ => is_var b; destruct b
         | |- context [match ?o with Some _ => _ | None => _ end] => is_var o; destruct o
         end.

Ltac d_fin :=
  cbn [fst snd] in *;
  d_sat; subst;
  split; [ f_tac | ];
  d_cases; try discriminate; dg.

Tactic Notation "dprod" reference(f) :=
  intros ? ? ? ?; unfold f; hide_nats; d_steps; try (solve [ d_fin ]).
Tactic Notation "dprodP" reference(f) :=
  intros ? ? ? ? ?; unfold f; hide_nats; d_steps; try (solve [ d_fin ]).
Tactic Notation "dloop" reference(f) ident(fuel) :=
  induction fuel; intros; intros ? ? ? ?; [ discriminate | cbn [f]; hide_nats; d_steps;
                                           try (solve [ d_fin ]) ].

(* ------------------------------------------------------------------ leaf parsers *)

Section Leafs.
Variable lines : list N.
Variable E : Type.
Notation cm := Policy.comment.
Notation OPS := (policy_ops lines).
Notation pstate := (Core.pstate N (list cm) cstate E).
Notation res := (Core.res N (list cm) cstate E).
Notation selem := (Core.selem N (list cm)).
Notation nodeT := (node N (list cm)).
Variable whole : list selem.
Notation DSw := (DS lines E whole).
Notation DWw := (DW lines E whole).
Notation dgoodw := (dgood lines whole).
Notation dgoodow := (dgoodo lines whole).

(* moves on at once: may be entered stale *)
Lemma S_identifier site : DWw dgoodw (identifier OPS site).
Proof.
  intros s r s' Hs. unfold identifier.
  destruct (s_cur s) as [[p t]|] eqn:Ec; [ | discriminate ].
  destruct t as [| | |k name]; try discriminate. destruct k; try discriminate.
  apply bind_inv. intros y s1 Hm [= <- <-]. split.
  - eapply F_next; [ apply sinv_upd_cur, Hs | exact Hm ].
  - dg.
Qed.

Lemma S_literal : DWw dgoodw (literal OPS).
Proof.
  intros s r s' Hs. unfold literal.
  destruct (s_cur s) as [[p t]|] eqn:Ec; [ | discriminate ].
  destruct t as [| | |k name]; try discriminate.
  apply bind_inv. intros y s1 Hm [= <- <-]. split.
  - eapply F_next; [ apply sinv_upd_cur, Hs | exact Hm ].
  - dg.
Qed.

Lemma S_string_literal site : DWw dgoodw (string_literal OPS site).
Proof.
  intros s r s' Hs. unfold string_literal.
  destruct (s_cur s) as [[p t]|] eqn:Ec; [ | discriminate ].
  destruct t as [| | |k name]; try discriminate. destruct k; try discriminate.
  apply bind_inv. intros y s1 Hm [= <- <-]. split.
  - eapply F_next; [ apply sinv_upd_cur, Hs | exact Hm ].
  - dg.
Qed.

Lemma P_string_literal_or_none : DSw dgoodow (string_literal_or_none OPS).
Proof.
  intros s r s' Hs. unfold string_literal_or_none.
  assert (Hnone : Ok None s = Ok r s' -> Fi lines E whole s' /\ dgoodow r).
  { intros [= <- <-]. split; [ exact Hs | exact I ]. }
  destruct (s_cur s) as [[p t]|] eqn:Ec; [ | exact Hnone ].
  destruct t as [| | |k name]; try exact Hnone.
  destruct k; try exact Hnone.
  apply bind_inv. intros y s1 Hm [= <- <-]. split.
  - eapply F_next; [ apply sinv_upd_cur, (F_W _ _ _ _ Hs) | exact Hm ].
  - dg.
Qed.

End Leafs.

#[export] Hint Resolve S_identifier S_literal S_string_literal P_string_literal_or_none : doc.
