(* Round trip, stage D part 1: var / const / type declarations, single and
   grouped (Print3.decl), as declaration statements (StDecl) and at the top
   level of a file.

   Productions of Core.v: parse_decl, decl_group_loop, parse_spec,
   parse_var_spec, parse_const_spec, parse_type_spec (SpType, without type
   parameters: the trial parse of `type A [n]T` ends in the array reading;
   SpTypeG, `type A[P, Q C1 | ~C2, R C3] T`: the trial parse stops at the token
   after the first parameter name, the parser goes back to the "[" and reads
   the parameters with params_list "[" "]").

   Exports: the per-spec lemmas [var_spec_ok], [const_spec_ok], [type_spec_ok],
   [typeg_spec_ok] (contracts of the parts as hypotheses), [decl_ok : DPprov],
   [stmt_decl_ok], [wf_stmt_decl], [stmts4_ok]. *)
From Coq Require Import List Arith NArith Lia Bool.
From GoSyn Require Import Token Tok Ast Core.
From GoSyn.spec Require Import Prec Print Print2 Print3.
From GoSyn.proofs Require Import PrecProofs RoundTripProofs RoundTripTypesBase RoundTripTypesAot
  RoundTripTypesSig RoundTripTypesIface RoundTripBase2 RoundTripBase3.
Import ListNotations.

(* ------------------------------------------------------------ facts about the spec *)

(* the measure of one spec: what [ms] folds over the specs of a declaration *)
Definition m_spec (m : bool) (sp : spec2) : nat :=
  match sp with
  | SpVar _ ty vals | SpConst _ ty vals => Nat.max (max2 (me m) vals) (omax (mT m (me m)) ty)
  | SpType _ _ t => mT m (me m) t
  | SpTypeG _ tps _ t =>
      Nat.max (max2 (fun g : list str * list (bool * typ2) =>
                       max2 (fun bt : bool * typ2 => mT m (me m) (snd bt)) (snd g)) tps)
              (mT m (me m) t)
  end.

Lemma ms_decl : forall m k g specs, ms m (StDecl (Decl k g specs)) = cs m + max2 (m_spec m) specs.
Proof. reflexivity. Qed.

Definition size_spec (sp : spec2) : nat :=
  match sp with
  | SpVar _ ty vals | SpConst _ ty vals => S (sum2 size2 vals + omax (sizeX size2) ty)
  | SpType _ _ t => S (sizeX size2 t)
  | SpTypeG _ tps _ t =>
      S (sum2 (fun g : list str * list (bool * typ2) =>
                 sum2 (fun bt : bool * typ2 => sizeX size2 (snd bt)) (snd g)) tps +
         sizeX size2 t)
  end.

Lemma size_decl : forall k g specs, size_stmt (StDecl (Decl k g specs)) = S (sum2 size_spec specs).
Proof. reflexivity. Qed.

Lemma sum2_In : forall (Y : Type) (f : Y -> nat) l a, In a l -> f a <= sum2 f l.
Proof.
  intros Y f l a. induction l as [| b r IH]; simpl; [intros [] |].
  intros [-> | H]; [lia | specialize (IH H); lia].
Qed.

Lemma max2_In : forall (Y : Type) (f : Y -> nat) l a, In a l -> f a <= max2 f l.
Proof.
  intros Y f l a. induction l as [| b r IH]; simpl; [intros [] |].
  intros [-> | H]; [lia | specialize (IH H); lia].
Qed.

Lemma all2_Forall : forall (Y : Type) (P : Y -> Prop) l, all2 P l <-> Forall P l.
Proof.
  intros Y P l; induction l as [| a r IH]; simpl.
  - split; [constructor | exact (fun _ => I)].
  - split.
    + intros [Ha Hr]. constructor; [exact Ha | apply IH; exact Hr].
    + intro H. inversion H; subst. split; [assumption | apply IH; assumption].
Qed.

(* the types `type A [..` is read as an array / slice declaration for *)
Definition bracket_type (t : typ2) : bool :=
  match t with TSlice _ | TArray _ _ | TArrayDots _ => true | _ => false end.

Lemma first_not_bracket : forall t : typ2, wfT (wf2 false) t -> bracket_type t = false ->
  exists tok l, printT print2 t = tok :: l /\ tok_is tok (KOp OBarackLeft) = false /\
                tok_is tok (KOp OAssign) = false.
Proof.
  intros t Hwf Hb.
  destruct t as [name | pkg name | b args | t | t | x t | t | k v | dir t | t | sg | fs | es];
    try discriminate Hb; cbn [printT].
  - eexists _, _. repeat split; reflexivity.
  - eexists _, _. repeat split; reflexivity.
  - destruct Hwf as (Hn & _). destruct b; try destruct Hn; eexists _, _; repeat split; reflexivity.
  - eexists _, _. repeat split; reflexivity.
  - eexists _, _. repeat split; reflexivity.
  - destruct dir; eexists _, _; repeat split; reflexivity.
  - eexists _, _. repeat split; reflexivity.
  - destruct sg as [ps paren rs]. eexists _, _. repeat split; reflexivity.
  - eexists _, _. repeat split; reflexivity.
  - eexists _, _. repeat split; reflexivity.
Qed.

(* the dispatch of parse_type_spec on the token after "[" *)
Lemma tok_dispatch : forall (X : Type) (tok : token) (a b c : X),
  ~ starts_with_ident [tok] -> tok_is tok (KOp OBarackRight) = false ->
  match tok with TLiteral LIdent _ => a | TOperator OBarackRight => b | _ => c end = c.
Proof.
  intros X tok a b c Hn Hb. destruct tok as [txt | k | op | lk txt]; try reflexivity.
  - destruct op; try reflexivity. discriminate Hb.
  - destruct lk; try reflexivity. exfalso. apply Hn. exact I.
Qed.

(* a token that starts a type is neither "=" nor "," nor ";" *)
Lemma type_start_not : forall tok, type_start tok = true ->
  tok_is tok (KOp OAssign) = false /\ tok_is tok (KOp OComma) = false /\
  tok_is tok (KOp OSemiColon) = false.
Proof.
  intros tok H. destruct tok as [txt | k | op | lk txt]; try (repeat split; reflexivity).
  destruct op; try discriminate H; repeat split; reflexivity.
Qed.

(* every spec starts with an identifier *)
Lemma spec_first : forall k i (sp : spec2), wf_spec k i sp ->
  exists n l, print_spec print2 (printT print2) sp = ident_tok n :: l.
Proof.
  intros k i [names ty vals | names ty vals | name alias ty | name tps alias ty] Hwf; cbn [print_spec].
  - destruct Hwf as (_ & Hne & _). destruct names as [| n r]; [exfalso; apply Hne; reflexivity |].
    rewrite printNames_cons. eexists _, _. reflexivity.
  - destruct Hwf as (_ & Hne & _). destruct names as [| n r]; [exfalso; apply Hne; reflexivity |].
    rewrite printNames_cons. eexists _, _. reflexivity.
  - eexists _, _. reflexivity.
  - eexists _, _. reflexivity.
Qed.

Lemma names_tail_length : forall r, length (names_tail r) = 2 * length r.
Proof. induction r as [| n r IH]; simpl; [reflexivity | rewrite IH; lia]. Qed.

Lemma erase_set_docs : forall (A C : Type) (n : node A C) c,
  erase (set_docs n [c]) = set_docs (erase n) [tt].
Proof. intros A C [t ps ats d ks] c. reflexivity. Qed.

Lemma shape_spec_docs : forall sp : spec2,
  set_docs (shape_spec shape2 (shapeTy shape2) sp) [tt] = shape_spec shape2 (shapeTy shape2) sp.
Proof. intros [names ty vals | names ty vals | name alias ty | name tps alias ty]; reflexivity. Qed.

Lemma map_erase_nil : forall (A C : Type) (ns : list (node A C)) (l : list exp2),
  map erase ns = map shape2 l -> l <> [] -> length ns <> 0.
Proof.
  intros A C ns l H Hne. destruct l as [| a r]; [exfalso; apply Hne; reflexivity |].
  destruct ns; [discriminate H | simpl; lia].
Qed.

(* the wf condition of a declaration statement is the one of the declaration *)
Lemma wf_stmt_decl : forall dc : decl2, wf_stmt (StDecl dc) <-> wf_decl dc.
Proof.
  intros [k g specs]. unfold wf_decl. cbn [wf_stmt].
  match goal with
  | |- (_ /\ ?f 0 specs) <-> _ => assert (H : forall l i, f i l <-> wf_specs k i l)
  end.
  { induction l as [| sp r IH]; intro i; [simpl; tauto |].
    cbn [wf_specs]. unfold wf_spec. split; intros [H1 H2]; (split; [exact H1 | apply IH; exact H2]). }
  split; intros [H1 H2]; (split; [exact H1 | apply H; exact H2]).
Qed.

(* ------------------------------------------------------------ type parameters: facts about the spec *)

Definition tgroup : Type := (list str * list (bool * typ2))%type.

(*  names constraint  *)
Definition print_tgroup (g : tgroup) : list token :=
  printNames (fst g) ++ printUnion print2 (snd g).
Definition shape_tgroup (g : tgroup) : shapeT :=
  sh_field (fst g) (shapeUnion shape2 (snd g)) None.

Lemma print_spec_g : forall name (tps : list tgroup) alias ty,
  print_spec print2 (printT print2) (SpTypeG name tps alias ty) =
  ident_tok name :: tk OBarackLeft :: commas (map print_tgroup tps) ++
  tk OBarackRight :: (if alias then [tk OAssign] else []) ++ printT print2 ty.
Proof. reflexivity. Qed.

Lemma shape_spec_g : forall name (tps : list tgroup) alias ty,
  shape_spec shape2 (shapeTy shape2) (SpTypeG name tps alias ty) =
  mkd unit unit GTypeSpec [] [ABool alias] tt
    [sh_ident name; sh_fieldlist true (map shape_tgroup tps); shapeTy shape2 ty].
Proof. reflexivity. Qed.

Definition ttail (l : list tgroup) : list token :=
  flat_map (fun g => tk OComma :: print_tgroup g) l.

Lemma commas_tgroup : forall g l, commas (map print_tgroup (g :: l)) = print_tgroup g ++ ttail l.
Proof.
  intros g l. unfold ttail. simpl. f_equal.
  induction l as [| b r IH]; simpl; [reflexivity | rewrite IH; reflexivity].
Qed.

Lemma ttail_length : forall l, length l <= length (ttail l).
Proof. induction l as [| g l IH]; simpl; [lia | rewrite app_length; lia]. Qed.

(* a constraint that starts with "[" is one slice or array type, read by
   array_or_typeargs *)
Definition first_bracket_ok (terms : list (bool * typ2)) : Prop :=
  match terms with
  | (false, TArrayDots _) :: _ => False
  | (false, (TSlice _ | TArray _ _)) :: r => r = []
  | _ => True
  end.

Definition wf_tgroup (g : tgroup) : Prop :=
  fst g <> [] /\ snd g <> [] /\
  all2 (fun bt : bool * typ2 => wfT (wf2 false) (snd bt)) (snd g) /\ first_bracket_ok (snd g).

(* the first constraint starts with a token the trial parse of parse_type_spec
   stops at *)
Definition tparam_start (t : typ2) : Prop :=
  match t with
  | TName _ | TQual _ _ | TInst _ _ | TInterface _ | TMap _ _ | TChan _ _ | TStruct _
  | TFunc _ => True
  | _ => False
  end.
Definition first_ok (tps : list tgroup) : Prop :=
  match tps with
  | (_, (tilde, t) :: _) :: _ => tilde = true \/ tparam_start t
  | _ => False
  end.

Lemma wf_spec_g : forall k i name (tps : list tgroup) alias ty,
  wf_spec k i (SpTypeG name tps alias ty) <->
  k = SKType /\ wfT (wf2 false) ty /\ all2 wf_tgroup tps /\ first_ok tps.
Proof. intros. reflexivity. Qed.

(* the tokens at which primary_loop and binary_loop (precedence 0) stop at once *)
Definition trial_stop (t : token) : bool :=
  match t with
  | TLiteral LIdent _ => true
  | TKeyword (KInterface | KMap | KChan | KStruct | KFunc) => true
  | TOperator (OComma | OTiled | OArrow) => true
  | _ => false
  end.

Lemma trial_stop_not_close : forall t, trial_stop t = true -> tok_is t (KOp OBarackRight) = false.
Proof.
  intros t H. destruct t as [txt | k | op | lk txt]; try reflexivity.
  destruct op; try reflexivity; discriminate H.
Qed.

(* the parameter list starts with a name, followed by a token of [trial_stop] *)
Lemma tparams_first : forall tps : list tgroup, all2 wf_tgroup tps -> first_ok tps -> forall rst,
  exists n1 tok ts, commas (map print_tgroup tps) ++ rst = ident_tok n1 :: tok :: ts /\
                    trial_stop tok = true.
Proof.
  intros tps Hwf Hfirst rst. destruct tps as [| [names terms] l]; [destruct Hfirst |].
  destruct Hwf as ((Hne & _ & Hwt & _) & _). cbn [fst snd] in Hne, Hwt.
  rewrite commas_tgroup. unfold print_tgroup. cbn [fst snd].
  destruct names as [| n1 r]; [exfalso; apply Hne; reflexivity |].
  rewrite printNames_cons. destruct r as [| m r].
  - cbn [names_tail flat_map app].
    destruct terms as [| [tilde t] rt]; [destruct Hfirst |].
    rewrite printUnion_cons. unfold printTerm. cbn [fst snd].
    destruct Hwt as (Hwt & _). cbn [snd] in Hwt.
    destruct Hfirst as [-> | Hst].
    + cbn [app]. eexists _, _, _. split; reflexivity.
    + destruct tilde; [cbn [app]; eexists _, _, _; split; reflexivity |].
      destruct t as [name | pkg name | b args | t | t | x t | t | k v | dir t | t | [ps paren rs] | fs | es];
        try destruct Hst; cbn [printT app].
      * eexists _, _, _. split; reflexivity.
      * eexists _, _, _. split; reflexivity.
      * destruct Hwt as (Hb & _). destruct b; try destruct Hb; cbn [printT app];
          eexists _, _, _; split; reflexivity.
      * eexists _, _, _. split; reflexivity.
      * destruct dir; eexists _, _, _; split; reflexivity.
      * eexists _, _, _. split; reflexivity.
      * eexists _, _, _. split; reflexivity.
      * eexists _, _, _. split; reflexivity.
  - cbn [names_tail flat_map app]. eexists _, _, _. split; reflexivity.
Qed.

(* the measure of the constraint types *)
Definition m_tparams (m : bool) (tps : list tgroup) : nat :=
  max2 (fun g : tgroup => max2 (fun bt : bool * typ2 => mT m (me m) (snd bt)) (snd g)) tps.

Lemma m_spec_g : forall m name (tps : list tgroup) alias ty,
  m_spec m (SpTypeG name tps alias ty) = Nat.max (m_tparams m tps) (mT m (me m) ty).
Proof. reflexivity. Qed.

Lemma m_tparams_In : forall m (tps : list tgroup) g bt, In g tps -> In bt (snd g) ->
  mT m (me m) (snd bt) <= m_tparams m tps.
Proof.
  intros m tps g bt Hg Hbt.
  pose proof (max2_In _ (fun g : tgroup => max2 (fun bt : bool * typ2 => mT m (me m) (snd bt)) (snd g))
                tps g Hg) as H1.
  pose proof (max2_In _ (fun bt : bool * typ2 => mT m (me m) (snd bt)) (snd g) bt Hbt) as H2.
  cbv beta in H1, H2. unfold m_tparams. lia.
Qed.

Definition size_tparams (tps : list tgroup) : nat :=
  sum2 (fun g : tgroup => sum2 (fun bt : bool * typ2 => sizeX size2 (snd bt)) (snd g)) tps.

Lemma size_spec_g : forall name (tps : list tgroup) alias ty,
  size_spec (SpTypeG name tps alias ty) = S (size_tparams tps + sizeX size2 ty).
Proof. reflexivity. Qed.

Lemma size_tparams_In : forall (tps : list tgroup) g bt, In g tps -> In bt (snd g) ->
  sizeX size2 (snd bt) <= size_tparams tps.
Proof.
  intros tps g bt Hg Hbt.
  pose proof (sum2_In _ (fun g : tgroup => sum2 (fun bt : bool * typ2 => sizeX size2 (snd bt)) (snd g))
                tps g Hg) as H1.
  pose proof (sum2_In _ (fun bt : bool * typ2 => sizeX size2 (snd bt)) (snd g) bt Hbt) as H2.
  cbv beta in H1, H2. unfold size_tparams. lia.
Qed.

Lemma maxT_le : forall (Y : Type) (f : Y -> nat) l n, Forall (fun a => f a <= n) l -> maxT f l <= n.
Proof.
  intros Y f l n H. induction H as [| a r Ha Hr IH]; simpl; [lia |].
  fold (maxT f r). lia.
Qed.

Lemma tok_is_bracket : forall tok, tok_is tok (KOp OBarackLeft) = true -> tok = tk OBarackLeft.
Proof.
  intros tok H. destruct tok as [txt | k | op | lk txt]; try discriminate H.
  destruct op; try discriminate H. reflexivity.
Qed.

Lemma type_start_other : forall tok, type_start tok = true ->
  tok_is tok (KOp OBarackLeft) = false -> other_tok tok = true.
Proof.
  intros tok Hs Hb. destruct tok as [txt | k | op | lk txt]; try reflexivity.
  destruct op; try reflexivity; try discriminate Hs; discriminate Hb.
Qed.

Section Decl.
Variables (A G D C E : Type).
Variable OPS : ops A G D C.
Notation nodeT := (node A C).
Notation pstateT := (pstate A G D E).
Notation cur := (s_cur A G D E).
Notation srest := (s_rest A G D E).
Notation sdepth := (s_depth A G D E).
Notation lp := (s_lp A G D E).
Notation ln := (s_ln A G D E).
Notation PA := (parsers_at A G D C E OPS).
Notation erase := (@erase A C).
Notation at_toks := (@at_toks A G D E).
Notation frame := (@frame A G D E).
Notation lev := (lev A G D E).
Notation levw := (levw A G D E).
Notation KE2 := (KE2 A G D C E OPS).
Notation PNLP2 := (PNLP2 A G D C E OPS).
Notation TNP2 := (TNP A G D C E OPS exp2 print2 shape2 depth2 need2).
Notation TP2 := (TP A G D C E OPS exp2 print2 shape2 depth2 need2).
Notation SC := (SC A G D C E OPS).
Notation DP := (DP A G D C E OPS).
Notation IHS := (IHS A G D C E OPS).
Notation printT2 := (printT print2).
Notation shapeT2 := (shapeTy shape2).
Notation print_spec2 := (print_spec print2 (printT print2)).
Notation shape_spec2 := (shape_spec shape2 (shapeTy shape2)).

Hypothesis first_tok_e : FirstTokE.

(* the contract of parse_spec: the spec is followed by its ";" (left to the caller) *)
Definition SpecP (k : spec_kind) (index : nat) (sp : spec2) : Prop := forall d (s : pstateT) rst,
  m_spec true sp + 2 <= d ->
  at_toks s (print_spec2 sp ++ tk OSemiColon :: rst) ->
  sdepth s + S (m_spec false sp) <= MAX_NESTING -> lev false s (S (m_spec false sp)) ->
  exists n s1, parse_spec A G D C E OPS (PA d) k index s = Ok n s1 /\
               erase n = shape_spec2 sp /\ at_toks s1 (tk OSemiColon :: rst) /\ frame s s1.

Definition optP (P : typ2 -> Prop) (o : option typ2) : Prop :=
  match o with Some t => P t | None => True end.

Lemma semi_list_follow : forall rst, list_follow (tk OSemiColon :: rst).
Proof. intro rst. split; reflexivity. Qed.

Lemma tfollow_semi : forall (t : typ2) rst, tfollow t (tk OSemiColon :: rst).
Proof. intros t rst. apply tfollow_tok; reflexivity. Qed.

Lemma tfollow_assign : forall (t : typ2) rst, tfollow t (tk OAssign :: rst).
Proof. intros t rst. apply tfollow_tok; reflexivity. Qed.

(* identifier_list(None) on  a, b, c  *)
Lemma ident_list_ok : forall names, names <> [] -> forall (s : pstateT) rst,
  at_toks s (printNames names ++ rst) ->
  match rst with [] => True | t :: _ => tok_is t (KOp OComma) = false end ->
  exists ns s1, identifier_list A G D C E OPS None s = Ok ns s1 /\
                map erase ns = map sh_ident names /\ at_toks s1 rst /\ frame s s1.
Proof.
  intros names Hne s rst Hat Hk. destruct names as [| n r]; [exfalso; apply Hne; reflexivity |].
  rewrite printNames_cons in Hat. cbn [app] in Hat.
  destruct (identifier_toks OPS s n _ 1 Hat) as (p & s1 & Hi & Hat1 & Hf1).
  destruct (ident_list_loop_toks A G D C E OPS r (loop_fuel A G D E s1) [n_ident A C p n] s1 rst Hat1 Hk)
    as (ns & s2 & Hl & He & _ & Hat2 & Hf2).
  { pose proof (loop_fuel_toks s1 _ Hat1) as H. rewrite app_length, names_tail_length in H. lia. }
  exists (n_ident A C p n :: ns), s2.
  split; [unfold identifier_list; rewrite Hi; cbn [bind]; exact Hl |].
  split; [simpl; rewrite He; reflexivity |].
  split; [exact Hat2 | exact (frame_trans _ _ _ Hf1 Hf2)].
Qed.

(* ------------------------------------------------------------ var specs *)

(*  names [type] ["=" values]  *)
Lemma var_spec_ok : forall index names ty vals,
  wf_spec SKVar index (SpVar names ty vals) -> optP TNP2 ty -> Forall (KE2 false) vals ->
  SpecP SKVar index (SpVar names ty vals).
Proof.
  intros index names ty vals (_ & Hne & Htv & Hwt & _) HT HV d s rst Hd Hat Hdep Hlev.
  cbn [parse_spec]. unfold parse_var_spec.
  destruct (drain A G D C E OPS s) as [docs s0] eqn:Hdr.
  destruct (drain_toks A G D C E OPS s docs s0 Hdr) as (Hat0 & Hf0 & _ & _).
  cbn [print_spec] in Hat. rewrite <- !app_assoc in Hat. apply Hat0 in Hat.
  cbn [m_spec] in Hd, Hdep, Hlev.
  change (me true) with need2 in Hd. change (me false) with depth2 in Hdep, Hlev.
  destruct ty as [t |]; cbn [omax mT optP opt2] in Hd, Hdep, Hlev, HT, Hwt.
  - (* names T [= values] *)
    destruct (first_tokT exp2 print2 (wf2 false) t Hwt) as (tok & l0 & Hpt & Hst & _ & _).
    destruct (type_start_not tok Hst) as (Hna & Hnc & _).
    destruct (ident_list_ok names Hne s0 _ Hat) as (ns & s1 & Hl & Hen & Hat1 & Hf1).
    { rewrite Hpt. exact Hnc. }
    pose proof (frame_trans _ _ _ Hf0 Hf1) as Hf01.
    rewrite Hl. cbn [bind].
    assert (Hs : skipped A G D C E OPS (KOp OAssign) s1 = Ok false s1).
    { apply (skipped_no OPS s1 _ _ Hat1). rewrite Hpt. exact Hna. }
    rewrite Hs. cbn [bind].
    destruct vals as [| v vs].
    + (* no values *)
      cbn [app] in Hat1.
      destruct (TNP_TP A G D C E OPS exp2 print2 shape2 depth2 need2 t HT d s1 (tk OSemiColon :: rst))
        as (nt & s2 & Hk & Het & Hat2 & Hf2);
        [lia | exact Hat1 | apply tfollow_semi | unframe; lia | destruct Hlev; unframe; lia |].
      rewrite Hk. cbn [bind].
      rewrite (skipped_no OPS s2 _ (KOp OAssign) Hat2) by reflexivity. cbn [bind].
      eexists _, s2. split; [reflexivity |].
      split; [cbn [shape_spec]; simpl; rewrite Het; change (fun x : nodeT => erase x) with erase;
              rewrite Hen; reflexivity |].
      split; [exact Hat2 | exact (frame_trans _ _ _ Hf01 Hf2)].
    + (* = values *)
      cbn [app] in Hat1.
      destruct (TNP_TP A G D C E OPS exp2 print2 shape2 depth2 need2 t HT d s1
                  (tk OAssign :: commas (map print2 (v :: vs)) ++ tk OSemiColon :: rst))
        as (nt & s2 & Hk & Het & Hat2 & Hf2);
        [lia | exact Hat1 | apply tfollow_assign | unframe; lia | destruct Hlev; unframe; lia |].
      rewrite Hk. cbn [bind].
      destruct (skipped_yes OPS s2 _ _ (KOp OAssign) Hat2 eq_refl) as (s3 & Hs3 & Hat3 & Hf3).
      rewrite Hs3. cbn [bind].
      pose proof (frame_trans _ _ _ (frame_trans _ _ _ Hf01 Hf2) Hf3) as Hf03.
      destruct (exprs_ok2 A G D C E OPS false (v :: vs) ltac:(discriminate) HV d s3 _
                  (semi_list_follow rst)) as (nv & s4 & Hx & Hev & Hat4 & Hf4);
        [lia | unframe; lia | apply (lev_frame A G D E false s s3 _ _ Hf03 Hlev); lia | exact Hat3 |].
      rewrite Hx. cbn [bind].
      eexists _, s4. split; [reflexivity |].
      split; [cbn [shape_spec]; simpl; rewrite Het; change (fun x : nodeT => erase x) with erase;
              rewrite Hen, Hev; reflexivity |].
      split; [exact Hat4 | exact (frame_trans _ _ _ Hf03 Hf4)].
  - (* names = values *)
    destruct Htv as [Htv | Hvne]; [exfalso; apply Htv; reflexivity |].
    destruct vals as [| v vs]; [exfalso; apply Hvne; reflexivity |]. cbn [app] in Hat.
    destruct (ident_list_ok names Hne s0 _ Hat) as (ns & s1 & Hl & Hen & Hat1 & Hf1);
      [reflexivity |].
    pose proof (frame_trans _ _ _ Hf0 Hf1) as Hf01.
    rewrite Hl. cbn [bind].
    destruct (skipped_yes OPS s1 _ _ (KOp OAssign) Hat1 eq_refl) as (s2 & Hs2 & Hat2 & Hf2).
    rewrite Hs2. cbn [bind].
    pose proof (frame_trans _ _ _ Hf01 Hf2) as Hf02.
    destruct (exprs_ok2 A G D C E OPS false (v :: vs) ltac:(discriminate) HV d s2 _
                (semi_list_follow rst)) as (nv & s3 & Hx & Hev & Hat3 & Hf3);
      [lia | unframe; lia | apply (lev_frame A G D E false s s2 _ _ Hf02 Hlev); lia | exact Hat2 |].
    rewrite Hx. cbn [bind].
    destruct nv as [| nv0 nvs]; [discriminate Hev |].
    eexists _, s3. split; [reflexivity |].
    split; [cbn [shape_spec]; simpl; change (fun x : nodeT => erase x) with erase;
            rewrite Hen; simpl in Hev; injection Hev as -> ->; reflexivity |].
    split; [exact Hat3 | exact (frame_trans _ _ _ Hf02 Hf3)].
Qed.

(* ------------------------------------------------------------ const specs *)

(*  names [[type] "=" values]  : without values only after the first spec of a group *)
Lemma const_spec_ok : forall index names ty vals,
  wf_spec SKConst index (SpConst names ty vals) -> optP TNP2 ty -> Forall (KE2 false) vals ->
  SpecP SKConst index (SpConst names ty vals).
Proof.
  intros index names ty vals (_ & Hne & Htv & Hwt & _) HT HV d s rst Hd Hat Hdep Hlev.
  cbn [parse_spec]. unfold parse_const_spec.
  destruct (drain A G D C E OPS s) as [docs s0] eqn:Hdr.
  destruct (drain_toks A G D C E OPS s docs s0 Hdr) as (Hat0 & Hf0 & _ & _).
  cbn [print_spec] in Hat. rewrite <- !app_assoc in Hat. apply Hat0 in Hat.
  cbn [m_spec] in Hd, Hdep, Hlev.
  change (me true) with need2 in Hd. change (me false) with depth2 in Hdep, Hlev.
  destruct ty as [t |]; cbn [omax mT optP opt2] in Hd, Hdep, Hlev, HT, Hwt.
  - (* names T = values *)
    destruct vals as [| v vs]; [destruct (Htv eq_refl) as (Hx & _); discriminate Hx |].
    destruct (first_tokT exp2 print2 (wf2 false) t Hwt) as (tok & l0 & Hpt & Hst & _ & _).
    destruct (type_start_not tok Hst) as (Hna & Hnc & _).
    destruct (ident_list_ok names Hne s0 _ Hat) as (ns & s1 & Hl & Hen & Hat1 & Hf1).
    { rewrite Hpt. exact Hnc. }
    pose proof (frame_trans _ _ _ Hf0 Hf1) as Hf01.
    rewrite Hl. cbn [bind].
    assert (Hs : skipped A G D C E OPS (KOp OAssign) s1 = Ok false s1).
    { apply (skipped_no OPS s1 _ _ Hat1). rewrite Hpt. exact Hna. }
    rewrite Hs. cbn [bind]. cbn [app] in Hat1.
    destruct (HT d s1 (tk OAssign :: commas (map print2 (v :: vs)) ++ tk OSemiColon :: rst))
      as (nt & s2 & Hk & Het & Hat2 & Hf2);
      [lia | exact Hat1 | apply tfollow_assign | unframe; lia | destruct Hlev; unframe; lia |].
    rewrite Hk. cbn [bind].
    destruct (expect_toks OPS s2 _ _ (KOp OAssign) 122 Hat2 eq_refl) as (p3 & s3 & Hs3 & Hat3 & Hf3).
    rewrite Hs3. cbn [bind].
    pose proof (frame_trans _ _ _ (frame_trans _ _ _ Hf01 Hf2) Hf3) as Hf03.
    destruct (exprs_ok2 A G D C E OPS false (v :: vs) ltac:(discriminate) HV d s3 _
                (semi_list_follow rst)) as (nv & s4 & Hx & Hev & Hat4 & Hf4);
      [lia | unframe; lia | apply (lev_frame A G D E false s s3 _ _ Hf03 Hlev); lia | exact Hat3 |].
    rewrite Hx. cbn [bind].
    destruct nv as [| nv0 nvs]; [discriminate Hev |]. cbn [length Nat.eqb andb].
    eexists _, s4. split; [reflexivity |].
    split; [cbn [shape_spec]; simpl; rewrite Het; change (fun x : nodeT => erase x) with erase;
            rewrite Hen; simpl in Hev; injection Hev as -> ->; reflexivity |].
    split; [exact Hat4 | exact (frame_trans _ _ _ Hf03 Hf4)].
  - destruct vals as [| v vs].
    + (* names *)
      destruct (Htv eq_refl) as (_ & Hidx). cbn [app] in Hat.
      destruct (ident_list_ok names Hne s0 _ Hat) as (ns & s1 & Hl & Hen & Hat1 & Hf1);
        [reflexivity |].
      pose proof (frame_trans _ _ _ Hf0 Hf1) as Hf01.
      rewrite Hl. cbn [bind].
      rewrite (skipped_no OPS s1 _ (KOp OAssign) Hat1) by reflexivity. cbn [bind].
      destruct d as [| d0]; [lia |].
      destruct (type_or_none_none A G D C E OPS d0 s1 _ Hat1 eq_refl) as (s2 & Hk & Hat2 & Hf2);
        [unframe; lia |].
      rewrite Hk. cbn [bind].
      assert (Hi : Nat.eqb index 0 = false) by (destruct index; [exfalso; apply Hidx |]; reflexivity).
      rewrite Hi. cbn [length Nat.eqb andb orb].
      eexists _, s2. split; [reflexivity |].
      split; [cbn [shape_spec]; simpl; change (fun x : nodeT => erase x) with erase;
              rewrite Hen; reflexivity |].
      split; [exact Hat2 | exact (frame_trans _ _ _ Hf01 Hf2)].
    + (* names = values *)
      cbn [app] in Hat.
      destruct (ident_list_ok names Hne s0 _ Hat) as (ns & s1 & Hl & Hen & Hat1 & Hf1);
        [reflexivity |].
      pose proof (frame_trans _ _ _ Hf0 Hf1) as Hf01.
      rewrite Hl. cbn [bind].
      destruct (skipped_yes OPS s1 _ _ (KOp OAssign) Hat1 eq_refl) as (s2 & Hs2 & Hat2 & Hf2).
      rewrite Hs2. cbn [bind].
      pose proof (frame_trans _ _ _ Hf01 Hf2) as Hf02.
      destruct (exprs_ok2 A G D C E OPS false (v :: vs) ltac:(discriminate) HV d s2 _
                  (semi_list_follow rst)) as (nv & s3 & Hx & Hev & Hat3 & Hf3);
        [lia | unframe; lia | apply (lev_frame A G D E false s s2 _ _ Hf02 Hlev); lia | exact Hat2 |].
      rewrite Hx. cbn [bind].
      destruct nv as [| nv0 nvs]; [discriminate Hev |]. cbn [length Nat.eqb andb].
      eexists _, s3. split; [reflexivity |].
      split; [cbn [shape_spec]; simpl; change (fun x : nodeT => erase x) with erase;
              rewrite Hen; simpl in Hev; injection Hev as -> ->; reflexivity |].
      split; [exact Hat3 | exact (frame_trans _ _ _ Hf02 Hf3)].
Qed.

(* ------------------------------------------------------------ type specs *)

(* the contracts a type spec uses besides the one of its type: `type A [..` is
   read element-wise *)
Definition elemP (ty : typ2) : Prop :=
  match ty with
  | TSlice t | TArrayDots t => TNP2 t
  | TArray x t => KE2 false x /\ TNP2 t
  | _ => True
  end.

(*  "]" T  after the length of `type A [len]T`  *)
Lemma array_tail_ok : forall t, TNP2 t ->
  forall (docs : C) (name len : nodeT) (pos0 : A) d (s : pstateT) rst,
  needT need2 t + 1 <= d -> at_toks s (tk OBarackRight :: printT2 t ++ tk OSemiColon :: rst) ->
  sdepth s + depthT depth2 t <= MAX_NESTING -> ln s <= lp s /\ lp s + depthT depth2 t <= ln s + 64 ->
  exists n s1,
    bind A G D E (expect A G D C E OPS (KOp OBarackRight) 116 s) (fun p1 s3 =>
      bind A G D E (k_type A G D C E (PA d) s3) (fun typ s4 =>
        Ok (mkd A C GTypeSpec [] [ABool false] docs
              [name; empty_fieldlist A C; mk A C GTypeArray [pos0; p1] [] [len; typ]]) s4)) = Ok n s1 /\
    erase n = mkd unit unit GTypeSpec [] [ABool false] tt
                [erase name; sh_fieldlist false [];
                 mk unit unit GTypeArray [tt; tt] [] [erase len; shapeT2 t]] /\
    at_toks s1 (tk OSemiColon :: rst) /\ frame s s1.
Proof.
  intros t HT docs name len pos0 d s rst Hd Hat Hdep Hlev.
  destruct (expect_toks OPS s _ _ (KOp OBarackRight) 116 Hat eq_refl) as (p1 & s1 & Hx & Hat1 & Hf1).
  destruct (TNP_TP A G D C E OPS exp2 print2 shape2 depth2 need2 t HT d s1 (tk OSemiColon :: rst))
    as (nt & s2 & Hk & Het & Hat2 & Hf2);
    [lia | exact Hat1 | apply tfollow_semi | unframe; lia | unframe; lia |].
  rewrite Hx. cbn [bind]. rewrite Hk. cbn [bind].
  eexists _, s2. split; [reflexivity |].
  split; [simpl; rewrite Het; reflexivity |].
  split; [exact Hat2 | exact (frame_trans _ _ _ Hf1 Hf2)].
Qed.

(*  name ["="] type  *)
Lemma type_spec_ok : forall index name alias ty,
  wf_spec SKType index (SpType name alias ty) -> TNP2 ty -> elemP ty ->
  SpecP SKType index (SpType name alias ty).
Proof.
  intros index name alias ty (_ & Hwt & Harr) HT HE d s rst Hd Hat Hdep Hlev.
  cbn [parse_spec]. unfold parse_type_spec.
  destruct (drain A G D C E OPS s) as [docs s0] eqn:Hdr.
  destruct (drain_toks A G D C E OPS s docs s0 Hdr) as (Hat0 & Hf0 & _ & _).
  cbn [print_spec] in Hat. cbn [app] in Hat. rewrite <- app_assoc in Hat. apply Hat0 in Hat.
  cbn [m_spec mT] in Hd, Hdep, Hlev.
  change (me true) with need2 in Hd. change (me false) with depth2 in Hdep, Hlev.
  destruct (identifier_toks OPS s0 name _ 115 Hat) as (p & s1 & Hi & Hat1 & Hf1).
  pose proof (frame_trans _ _ _ Hf0 Hf1) as Hf01.
  rewrite Hi. cbn [bind].
  assert (Hplain : alias = true \/ bracket_type ty = false ->
    exists n s2, bind A G D E (skipped A G D C E OPS (KOp OAssign) s1) (fun al s3 =>
        bind A G D E (k_type A G D C E (PA d) s3) (fun typ s4 =>
          Ok (mkd A C GTypeSpec [] [ABool al] docs [n_ident A C p name; empty_fieldlist A C; typ]) s4))
        = Ok n s2 /\
      skipped A G D C E OPS (KOp OBarackLeft) s1 = Ok false s1 /\
      erase n = shape_spec2 (SpType name alias ty) /\ at_toks s2 (tk OSemiColon :: rst) /\ frame s s2).
  { intro Hc. destruct alias.
    - cbn [app] in Hat1.
      destruct (skipped_yes OPS s1 _ _ (KOp OAssign) Hat1 eq_refl) as (s2 & Hs2 & Hat2 & Hf2).
      pose proof (frame_trans _ _ _ Hf01 Hf2) as Hf02.
      destruct (TNP_TP A G D C E OPS exp2 print2 shape2 depth2 need2 ty HT d s2 (tk OSemiColon :: rst))
        as (nt & s3 & Hk & Het & Hat3 & Hf3);
        [lia | exact Hat2 | apply tfollow_semi | unframe; lia | destruct Hlev; unframe; lia |].
      rewrite Hs2. cbn [bind]. rewrite Hk. cbn [bind].
      eexists _, s3. split; [reflexivity |].
      split; [apply (skipped_no OPS s1 _ _ Hat1); reflexivity |].
      split; [cbn [shape_spec]; simpl; rewrite Het; reflexivity |].
      split; [exact Hat3 | exact (frame_trans _ _ _ Hf02 Hf3)].
    - destruct Hc as [Hc | Hc]; [discriminate Hc |]. cbn [app] in Hat1.
      destruct (first_not_bracket ty Hwt Hc) as (tok & l0 & Hpt & Hnb & Hna).
      assert (Hs2 : skipped A G D C E OPS (KOp OAssign) s1 = Ok false s1).
      { apply (skipped_no OPS s1 _ _ Hat1). rewrite Hpt. exact Hna. }
      destruct (TNP_TP A G D C E OPS exp2 print2 shape2 depth2 need2 ty HT d s1 (tk OSemiColon :: rst))
        as (nt & s3 & Hk & Het & Hat3 & Hf3);
        [lia | exact Hat1 | apply tfollow_semi | unframe; lia | destruct Hlev; unframe; lia |].
      rewrite Hs2. cbn [bind]. rewrite Hk. cbn [bind].
      eexists _, s3. split; [reflexivity |].
      split; [apply (skipped_no OPS s1 _ _ Hat1); rewrite Hpt; exact Hnb |].
      split; [cbn [shape_spec]; simpl; rewrite Het; reflexivity |].
      split; [exact Hat3 | exact (frame_trans _ _ _ Hf01 Hf3)]. }
  destruct alias.
  { destruct (Hplain (or_introl eq_refl)) as (n & s2 & Hq & Hnb & He & Hat2 & Hf2).
    rewrite Hnb. cbn [bind negb]. exists n, s2.
    split; [exact Hq |]. split; [exact He |]. split; [exact Hat2 | exact Hf2]. }
  destruct (bracket_type ty) eqn:Hbt.
  2: { destruct (Hplain (or_intror eq_refl)) as (n & s2 & Hq & Hnb & He & Hat2 & Hf2).
       rewrite Hnb. cbn [bind negb]. exists n, s2.
       split; [exact Hq |]. split; [exact He |]. split; [exact Hat2 | exact Hf2]. }
  clear Hplain. cbn [app] in Hat1.
  assert (Hlev1 : ln s1 < lp s1 /\ lp s1 + S (depthT depth2 ty) <= ln s1 + 65)
    by (destruct Hlev; unframe; lia).
  assert (Hdep1 : sdepth s1 + S (depthT depth2 ty) <= MAX_NESTING) by (unframe; lia).
  clear Hlev Hdep.
  destruct ty as [| | | | t | x t | t | | | | | |]; try discriminate Hbt;
    cbn [printT app] in Hat1; cbn [needT depthT] in Hd, Hlev1, Hdep1; cbn [elemP] in HE.
  - (* type A []T *)
    destruct (skipped_yes OPS s1 _ _ (KOp OBarackLeft) Hat1 eq_refl) as (s2 & Hs2 & Hat2 & Hf2).
    rewrite Hs2. cbn [bind negb].
    rewrite (cur_tok_toks A G D E s2 _ _ 117 Hat2). cbn [bind]. unfold tk at 1.
    destruct (expect_toks OPS s2 _ _ (KOp OBarackRight) 120 Hat2 eq_refl) as (p1 & s3 & Hx & Hat3 & Hf3).
    pose proof (frame_trans _ _ _ Hf2 Hf3) as Hf23.
    destruct (TNP_TP A G D C E OPS exp2 print2 shape2 depth2 need2 t HE d s3 (tk OSemiColon :: rst))
      as (nt & s4 & Hk & Het & Hat4 & Hf4);
      [lia | exact Hat3 | apply tfollow_semi | unframe; lia | unframe; lia |].
    rewrite Hx. cbn [bind]. rewrite Hk. cbn [bind].
    eexists _, s4. split; [reflexivity |].
    split; [cbn [shape_spec]; simpl; rewrite Het; reflexivity |].
    split; [exact Hat4 | exact (frame_trans _ _ _ Hf01 (frame_trans _ _ _ Hf23 Hf4))].
  - (* type A [len]T *)
    destruct HE as (HX & HEt). destruct Hwt as (Hwx & Hwt). rewrite <- app_assoc in Hat1.
    cbn [app] in Hat1.
    destruct (skipped_yes OPS s1 _ _ (KOp OBarackLeft) Hat1 eq_refl) as (s2 & Hs2 & Hat2 & Hf2).
    rewrite Hs2. cbn [bind negb].
    assert (Hx : (exists n, x = E2Ident n) \/ ~ starts_with_ident (print2 x)).
    { destruct x; try (left; eexists; reflexivity);
        (right; destruct Harr as [Ha | Hb]; [discriminate Ha | exact Hb]). }
    destruct Hx as [(nm & ->) | Hnid].
    + (* the length is an identifier: the trial parse finds no type parameter *)
      cbn [print2 app] in Hat2.
      rewrite (cur_tok_toks A G D E s2 _ _ 117 Hat2). cbn [bind].
      destruct (identifier_toks OPS s2 nm _ 118 Hat2) as (p2 & s3 & Hi3 & Hat3 & Hf3).
      rewrite Hi3. cbn [bind].
      rewrite (cur_is_toks s3 _ _ (KOp OBarackRight) Hat3).
      change (tok_is (tk OBarackRight) (KOp OBarackRight)) with true. cbn [bind].
      rewrite (cur_is_toks s3 _ _ (KOp OComma) Hat3).
      change (tok_is (tk OBarackRight) (KOp OComma)) with false.
      cbn [bind extract n_ident mk andb orb negb].
      rewrite (cur_is_toks s3 _ _ (KOp OBarackRight) Hat3).
      change (tok_is (tk OBarackRight) (KOp OBarackRight)) with true. cbn [andb orb negb].
      destruct (array_tail_ok t HEt docs (n_ident A C p name) (n_ident A C p2 nm)
                  (cur_pos A G D E s1) d s3 rst) as (n & s4 & Hq & He & Hat4 & Hf4);
        [lia | exact Hat3 | unframe; lia | unframe; lia |].
      exists n, s4. split; [exact Hq |]. split; [rewrite He; reflexivity |].
      split; [exact Hat4 |
              exact (frame_trans _ _ _ Hf01 (frame_trans _ _ _ (frame_trans _ _ _ Hf2 Hf3) Hf4))].
    + (* the length does not start with an identifier *)
      destruct (first_tok_e x false Hwx) as (tok & l0 & Hpx & Hst).
      rewrite Hpx in Hat2, Hnid. cbn [app] in Hat2.
      destruct Hst as (_ & _ & _ & _ & _ & Hnbr & _ & _ & Hndd & _).
      rewrite (cur_tok_toks A G D E s2 _ _ 117 Hat2). cbn [bind].
      rewrite tok_dispatch; [| exact Hnid | exact Hnbr].
      unfold array_len.
      rewrite (skipped_no OPS s2 _ (KOp ODotDotDot) Hat2) by exact Hndd. cbn [bind].
      change (tok :: l0 ++ tk OBarackRight :: printT2 t ++ tk OSemiColon :: rst)
        with ((tok :: l0) ++ tk OBarackRight :: printT2 t ++ tk OSemiColon :: rst) in Hat2.
      rewrite <- Hpx in Hat2.
      destruct (KE2_PNLP2 A G D C E OPS x HX d s2 (tk OBarackRight :: printT2 t ++ tk OSemiColon :: rst))
        as (nx & s3 & Hk & Hex & Hat3 & Hf3);
        [lia | exact Hat2 | apply efollow_close; reflexivity | unframe; lia | split; unframe; lia |].
      rewrite Hk. cbn [bind].
      destruct (array_tail_ok t HEt docs (n_ident A C p name) nx
                  (cur_pos A G D E s1) d s3 rst) as (n & s4 & Hq & He & Hat4 & Hf4);
        [lia | exact Hat3 | unframe; lia | unframe; lia |].
      exists n, s4. split; [exact Hq |]. split; [rewrite He, Hex; reflexivity |].
      split; [exact Hat4 |
              exact (frame_trans _ _ _ Hf01 (frame_trans _ _ _ (frame_trans _ _ _ Hf2 Hf3) Hf4))].
  - (* type A [...]T *)
    destruct (skipped_yes OPS s1 _ _ (KOp OBarackLeft) Hat1 eq_refl) as (s2 & Hs2 & Hat2 & Hf2).
    rewrite Hs2. cbn [bind negb].
    rewrite (cur_tok_toks A G D E s2 _ _ 117 Hat2). cbn [bind]. unfold tk at 1. unfold array_len.
    destruct (skipped_yes OPS s2 _ _ (KOp ODotDotDot) Hat2 eq_refl) as (s3 & Hs3 & Hat3 & Hf3).
    rewrite Hs3. cbn [bind].
    destruct (array_tail_ok t HE docs (n_ident A C p name)
                (mk A C GEllipsis [cur_pos A G D E s2] [] [nnone])
                (cur_pos A G D E s1) d s3 rst) as (n & s4 & Hq & He & Hat4 & Hf4);
      [lia | exact Hat3 | unframe; lia | unframe; lia |].
    exists n, s4. split; [exact Hq |]. split; [rewrite He; reflexivity |].
    split; [exact Hat4 |
            exact (frame_trans _ _ _ Hf01 (frame_trans _ _ _ (frame_trans _ _ _ Hf2 Hf3) Hf4))].
Qed.

(* ------------------------------------------------------------ type specs with type parameters *)

Notation XOK2 := (XOK A G D C E OPS exp2 print2 shape2 depth2 need2).
Notation PDL := (param_decl_loop A G D C E OPS).
Notation PPD := (parse_parameter_decl A G D C E OPS).
Notation PLB := (fun p f acc s => params_loop A G D C E OPS p f OBarackRight acc s).
Notation cempty := (c_empty A G D C OPS).
Notation sterm := (s_term A G D E).

(* an array length: Parser::expression in front of "]" *)
Lemma xok_of : forall x, wf2 false x -> KE2 false x -> XOK2 x.
Proof.
  intros x Hwf HK. split.
  - intros d s rst Hd Hat Hdep Hlev.
    apply (HK d s (tk OBarackRight :: rst)); try assumption.
    apply efollow_close. reflexivity.
  - destruct (first_tok_e x false Hwf) as (t & l & Hp & Hst). exists t, l.
    split; [exact Hp |]. unfold start_tok in Hst. tauto.
Qed.

(* the contracts of a constraint type: as a type, and element-wise when it is
   read by array_or_typeargs *)
Definition consP (t : typ2) : Prop := TNP2 t /\ elemP t.

(* need / nesting / level bounds N, K for all the constraint types *)
Definition tfit (d : nat) (s : pstateT) (N K : nat) : Prop :=
  N + 1 <= d /\ sdepth s + K <= MAX_NESTING /\ ln s <= lp s /\ lp s + K <= ln s + 64.

Lemma tfit_frame : forall d s s' N K, frame s s' -> tfit d s N K -> tfit d s' N K.
Proof. intros d s s' N K Hf (H1 & H2 & H3 & H4). unfold tfit. unframe. lia. Qed.

Definition termOK (N K : nat) (bt : bool * typ2) : Prop :=
  wfT (wf2 false) (snd bt) /\ consP (snd bt) /\
  needT need2 (snd bt) <= N /\ depthT depth2 (snd bt) <= K.

Definition groupOK (N K : nat) (g : tgroup) : Prop :=
  fst g <> [] /\ snd g <> [] /\ Forall (termOK N K) (snd g) /\ first_bracket_ok (snd g).

(* after a type parameter group: "," or "]" *)
Definition tpfollow (rst : list token) : Prop :=
  exists o r, rst = tk o :: r /\ (o = OComma \/ o = OBarackRight).

Lemma tpfollow_tfollow : forall (t : typ2) rst, tpfollow rst -> tfollow t rst.
Proof. intros t rst (o & r & -> & [-> | ->]); apply tfollow_tok; reflexivity. Qed.

Lemma tpfollow_ufollow : forall rst, tpfollow rst -> ufollow rst.
Proof. intros rst (o & r & -> & [-> | ->]); repeat split. Qed.

Lemma ttail_tpfollow : forall l rst, tpfollow (ttail l ++ tk OBarackRight :: rst).
Proof.
  intros [| g l] rst.
  - exists OBarackRight, rst. split; [reflexivity | right; reflexivity].
  - eexists OComma, _. split; [reflexivity | left; reflexivity].
Qed.

(* the union after the names, read by parse_type_elem *)
Lemma constraint_elem : forall N K terms, terms <> [] -> Forall (termOK N K) terms ->
  forall d (s : pstateT) rst, tfit d s N K ->
    at_toks s (printUnion print2 terms ++ rst) -> tpfollow rst ->
    exists typ s1, parse_type_elem A G D C E OPS (PA d) s = Ok typ s1 /\
                   erase typ = shapeUnion shape2 terms /\ at_toks s1 rst /\ frame s s1.
Proof.
  intros N K terms Hne Hall d s rst (Hd & Hdep & Hl1 & Hl2) Hat Hfo.
  apply (type_elem_toks A G D C E OPS exp2 print2 shape2 (wf2 false) depth2 need2 terms Hne).
  - apply (Forall_impl _ (fun bt (H : termOK N K bt) =>
             conj (proj1 H) (TNP_TP A G D C E OPS exp2 print2 shape2 depth2 need2 _
                                (proj1 (proj1 (proj2 H))))) Hall).
  - assert (H : maxT (fun bt : bool * typ2 => needT need2 (snd bt)) terms <= N).
    { apply maxT_le. apply (Forall_impl _ (fun bt (H : termOK N K bt) => proj1 (proj2 (proj2 H))) Hall). }
    lia.
  - assert (H : maxT (fun bt : bool * typ2 => depthT depth2 (snd bt)) terms <= K).
    { apply maxT_le. apply (Forall_impl _ (fun bt (H : termOK N K bt) => proj2 (proj2 (proj2 H))) Hall). }
    lia.
  - assert (H : maxT (fun bt : bool * typ2 => depthT depth2 (snd bt)) terms <= K).
    { apply maxT_le. apply (Forall_impl _ (fun bt (H : termOK N K bt) => proj2 (proj2 (proj2 H))) Hall). }
    lia.
  - exact Hat.
  - apply tpfollow_ufollow. exact Hfo.
Qed.

(* param_decl_loop at the first token of the constraint *)
Lemma constraint_ok : forall N K terms, terms <> [] -> Forall (termOK N K) terms ->
  first_bracket_ok terms ->
  forall d f ids (s : pstateT) rst, tfit d s N K ->
    at_toks s (printUnion print2 terms ++ rst) -> tpfollow rst ->
    exists typ s1, PDL (PA d) (S f) false ids s = Ok [n_field A C ids typ None cempty] s1 /\
                   erase typ = shapeUnion shape2 terms /\ at_toks s1 rst /\ frame s s1.
Proof.
  intros N K terms Hne Hall Hfb d f ids s rst Hfit Hat Hfo.
  (* a first token that sends param_decl_loop to parse_type_elem *)
  assert (Hother : forall tok l, printUnion print2 terms ++ rst = tok :: l -> other_tok tok = true ->
            exists typ s1, PDL (PA d) (S f) false ids s = Ok [n_field A C ids typ None cempty] s1 /\
                           erase typ = shapeUnion shape2 terms /\ at_toks s1 rst /\ frame s s1).
  { intros tok l Hp Ho.
    destruct (constraint_elem N K terms Hne Hall d s rst Hfit Hat Hfo) as (typ & s1 & Hk & He & Hat1 & Hf1).
    exists typ, s1. split; [| split; [exact He | split; [exact Hat1 | exact Hf1]]].
    rewrite Hp in Hat. rewrite (pdl_other_false A G D C E OPS d f ids s tok l Hat Ho), Hk. reflexivity. }
  destruct terms as [| [b t] r]; [exfalso; apply Hne; reflexivity |].
  destruct b.
  - (* ~T | ... *)
    apply (Hother (tk OTiled) (printT2 t ++ union_tail exp2 print2 r ++ rst)); [| reflexivity].
    rewrite printUnion_cons. unfold printTerm. cbn [fst snd app]. rewrite <- app_assoc. reflexivity.
  - inversion Hall as [| ? ? (Hwt & (HN & HE) & Hnd & Hdp) Hallr]; subst. cbn [snd] in Hwt, HN, HE, Hnd, Hdp.
    destruct (first_tokT exp2 print2 (wf2 false) t Hwt) as (tok & l & Hp & Hst & _ & _).
    destruct (tok_is tok (KOp OBarackLeft)) eqn:Hbl.
    + (* name []T  /  name [n]T : array_or_typeargs *)
      apply tok_is_bracket in Hbl. subst tok.
      destruct Hfit as (Hd & Hdep & Hl1 & Hl2).
      assert (Hcur : cur_tok A G D E s 23 = Ok (tk OBarackLeft) s).
      { rewrite printUnion_cons in Hat. unfold printTerm in Hat. cbn [fst snd app] in Hat.
        rewrite Hp in Hat. cbn [app] in Hat. exact (cur_tok_toks A G D E s _ _ 23 Hat). }
      destruct (bracket_cases exp2 print2 (wf2 false) t l Hwt Hp) as [(e & ->) | [(x & e & ->) | (e & ->)]].
      * cbn [first_bracket_ok] in Hfb. subst r.
        rewrite printUnion_cons in Hat. unfold printTerm in Hat.
        cbn [fst snd app union_tail flat_map] in Hat. rewrite app_nil_r in Hat.
        cbn [elemP] in HE. cbn [needT depthT] in Hnd, Hdp.
        destruct (aot_slice A G D C E OPS exp2 print2 shape2 depth2 need2 e
                    (TNP_TP A G D C E OPS exp2 print2 shape2 depth2 need2 e HE) d s rst)
          as (typ & s1 & Hk & He & Hat1 & Hf1);
          [lia | exact Hat | exact (tpfollow_tfollow e rst Hfo) | lia | lia |].
        exists typ, s1. split; [| split; [exact He | split; [exact Hat1 | exact Hf1]]].
        cbn [param_decl_loop]. rewrite Hcur. cbn [bind tk]. rewrite Hk. cbn [bind].
        rewrite <- (is_tag_erase GIndex typ), He. reflexivity.
      * cbn [first_bracket_ok] in Hfb. subst r.
        rewrite printUnion_cons in Hat. unfold printTerm in Hat.
        cbn [fst snd app union_tail flat_map] in Hat. rewrite app_nil_r in Hat.
        cbn [elemP] in HE. destruct HE as (HX & HNe). destruct Hwt as (Hwx & Hwe).
        cbn [needT depthT] in Hnd, Hdp.
        destruct (aot_array A G D C E OPS exp2 print2 shape2 depth2 need2 x e (xok_of x Hwx HX) HNe d s rst)
          as (typ & s1 & Hk & He & Hat1 & Hf1);
          [lia | lia | exact Hat | exact (tpfollow_tfollow e rst Hfo) | lia | lia |].
        exists typ, s1. split; [| split; [exact He | split; [exact Hat1 | exact Hf1]]].
        cbn [param_decl_loop]. rewrite Hcur. cbn [bind tk]. rewrite Hk. cbn [bind].
        rewrite <- (is_tag_erase GIndex typ), He. reflexivity.
      * destruct Hfb.
    + apply (Hother tok (l ++ union_tail exp2 print2 r ++ rst)); [| exact (type_start_other tok Hst Hbl)].
      rewrite printUnion_cons. unfold printTerm. cbn [fst snd app]. rewrite Hp, <- app_assoc. reflexivity.
Qed.

(* the names of a group, then its constraint *)
Lemma tnames_loop : forall N K terms, terms <> [] -> Forall (termOK N K) terms ->
  first_bracket_ok terms ->
  forall names d fuel ids (s : pstateT) rst, tfit d s N K ->
    at_toks s (names_tail names ++ printUnion print2 terms ++ rst) -> tpfollow rst ->
    length names + 1 <= fuel ->
    exists ns typ s1,
      PDL (PA d) fuel false ids s = Ok [n_field A C (ids ++ ns) typ None cempty] s1 /\
      map erase ns = map sh_ident names /\ erase typ = shapeUnion shape2 terms /\
      at_toks s1 rst /\ frame s s1.
Proof.
  intros N K terms Hne Hall Hfb. induction names as [| n r IH]; intros d fuel ids s rst Hfit Hat Hfo Hfu.
  - cbn [names_tail flat_map app] in Hat. destruct fuel as [| f]; [simpl in Hfu; lia |].
    destruct (constraint_ok N K terms Hne Hall Hfb d f ids s rst Hfit Hat Hfo)
      as (typ & s1 & Hk & He & Hat1 & Hf1).
    exists [], typ, s1. rewrite app_nil_r.
    split; [exact Hk |]. split; [reflexivity |]. split; [exact He |]. split; [exact Hat1 | exact Hf1].
  - cbn [names_tail flat_map app] in Hat. destruct fuel as [| f]; [simpl in Hfu; lia |].
    destruct (next_at A G D C E OPS s _ _ Hat) as (s1 & Hn & Hat1 & Hf1).
    destruct (identifier_toks OPS s1 n _ 26 Hat1) as (p & s2 & Hi & Hat2 & Hf2).
    pose proof (frame_trans _ _ _ Hf1 Hf2) as Hf12.
    destruct (IH d f (ids ++ [n_ident A C p n]) s2 rst (tfit_frame _ _ _ _ _ Hf12 Hfit) Hat2 Hfo)
      as (ns & typ & s3 & Hl & Hes & He & Hat3 & Hf3); [simpl in Hfu; lia |].
    exists (n_ident A C p n :: ns), typ, s3.
    split; [| split; [simpl; rewrite Hes; reflexivity | split; [exact He | split; [exact Hat3 |
              exact (frame_trans _ _ _ Hf12 Hf3)]]]].
    cbn [param_decl_loop]. rewrite (cur_tok_toks A G D E s _ _ 23 Hat). cbn [bind tk].
    rewrite Hn. cbn [bind]. rewrite (cur_is_toks _ _ _ _ Hat1).
    change (tok_is (ident_tok n) (KLit LIdent)) with true. cbv iota.
    rewrite Hi. cbn [bind]. rewrite Hl, <- app_assoc. reflexivity.
Qed.

(* one group: one call of parse_parameter_decl *)
Lemma tgroup_ok : forall N K g, groupOK N K g -> forall d (s : pstateT) rst, tfit d s N K ->
  at_toks s (print_tgroup g ++ rst) -> tpfollow rst ->
  exists f s1, PPD (PA d) s = Ok [f] s1 /\ erase f = shape_tgroup g /\ at_toks s1 rst /\ frame s s1.
Proof.
  intros N K [names terms] (Hnn & Hne & Hall & Hfb) d s rst Hfit Hat Hfo. cbn [fst snd] in *.
  destruct names as [| n names]; [exfalso; apply Hnn; reflexivity |].
  unfold print_tgroup in Hat. cbn [fst snd] in Hat. rewrite printNames_cons in Hat.
  rewrite <- app_assoc in Hat. rewrite <- app_comm_cons in Hat.
  destruct (identifier_toks OPS s n _ 27 Hat) as (p & s1 & Hi & Hat1 & Hf1).
  destruct (tnames_loop N K terms Hne Hall Hfb names d (loop_fuel A G D E s1) [n_ident A C p n] s1 rst
              (tfit_frame _ _ _ _ _ Hf1 Hfit) Hat1 Hfo)
    as (ns & typ & s2 & Hl & Hes & He & Hat2 & Hf2).
  { pose proof (loop_fuel_toks s1 _ Hat1) as H. rewrite app_length, names_tail_length in H. lia. }
  exists (n_field A C ([n_ident A C p n] ++ ns) typ None cempty), s2.
  split; [| split; [| split; [exact Hat2 | exact (frame_trans _ _ _ Hf1 Hf2)]]].
  - unfold parse_parameter_decl. rewrite (cur_is_toks _ _ _ _ Hat).
    rewrite (cur_not_toks A G D E s _ _ _ Hat).
    change (tok_is (ident_tok n) (KOp ODotDotDot)) with false.
    change (tok_is (ident_tok n) (KLit LIdent)) with true. cbn [negb]. cbv iota.
    rewrite Hi. cbn [bind]. exact Hl.
  - rewrite erase_n_field, He. cbn [app map]. rewrite Hes. reflexivity.
Qed.

(* params_loop with close = "]" over the groups *)
Lemma tparams_loop_ok : forall N K l g, groupOK N K g -> Forall (groupOK N K) l ->
  forall d f acc (s : pstateT) rst, tfit d s N K ->
    at_toks s (print_tgroup g ++ ttail l ++ tk OBarackRight :: rst) -> length l + 2 <= f ->
    exists fs s1, PLB (PA d) f acc s = Ok (acc ++ fs) s1 /\
                  map erase fs = map shape_tgroup (g :: l) /\
                  at_toks s1 (tk OBarackRight :: rst) /\ frame s s1.
Proof.
  intros N K. induction l as [| g' l IH]; intros g Hg Hl d f acc s rst Hfit Hat Hfu;
    (destruct f as [| f]; [lia |]).
  - cbn [ttail flat_map app] in Hat.
    destruct (tgroup_ok N K g Hg d s (tk OBarackRight :: rst) Hfit Hat (ttail_tpfollow [] rst))
      as (fd & s1 & Hk & He & Hat1 & Hf1).
    exists [fd], s1. split; [| split; [simpl; rewrite He; reflexivity | split; [exact Hat1 | exact Hf1]]].
    assert (Hc : cur_is A G D E s (KOp OBarackRight) = false).
    { destruct g as [[| n names] terms]; [exfalso; apply (proj1 Hg); reflexivity |].
      unfold print_tgroup in Hat. cbn [fst snd] in Hat. rewrite printNames_cons in Hat.
      rewrite <- app_assoc in Hat. rewrite <- app_comm_cons in Hat.
      rewrite (cur_is_toks _ _ _ _ Hat). reflexivity. }
    cbn [params_loop]. rewrite Hc, Hk. cbn [bind].
    rewrite (skipped_no OPS s1 _ (KOp OComma) Hat1) by reflexivity. cbn [bind].
    destruct f as [| f]; [simpl in Hfu; lia |]. cbn [params_loop].
    rewrite (cur_is_toks _ _ _ _ Hat1). reflexivity.
  - cbn [ttail flat_map] in Hat. fold (ttail l) in Hat. rewrite <- app_assoc in Hat. cbn [app] in Hat.
    destruct (tgroup_ok N K g Hg d s (tk OComma :: print_tgroup g' ++ ttail l ++ tk OBarackRight :: rst)
                Hfit Hat) as (fd & s1 & Hk & He & Hat1 & Hf1).
    { eexists OComma, _. split; [reflexivity | left; reflexivity]. }
    destruct (skipped_yes OPS s1 _ _ (KOp OComma) Hat1 eq_refl) as (s2 & Hs2 & Hat2 & Hf2).
    pose proof (frame_trans _ _ _ Hf1 Hf2) as Hf12.
    inversion Hl as [| ? ? Hg' Hl']; subst.
    destruct (IH g' Hg' Hl' d f (acc ++ [fd]) s2 rst (tfit_frame _ _ _ _ _ Hf12 Hfit) Hat2)
      as (fs & s3 & Hp & Hes & Hat3 & Hf3); [simpl in Hfu; lia |].
    exists (fd :: fs), s3.
    split; [| split; [cbn [map]; rewrite He; cbn [map] in Hes; rewrite Hes; reflexivity |
              split; [exact Hat3 | exact (frame_trans _ _ _ Hf12 Hf3)]]].
    assert (Hc : cur_is A G D E s (KOp OBarackRight) = false).
    { destruct g as [[| n names] terms]; [exfalso; apply (proj1 Hg); reflexivity |].
      unfold print_tgroup in Hat. cbn [fst snd] in Hat. rewrite printNames_cons in Hat.
      rewrite <- app_assoc in Hat. rewrite <- app_comm_cons in Hat.
      rewrite (cur_is_toks _ _ _ _ Hat). reflexivity. }
    cbn [params_loop]. rewrite Hc, Hk. cbn [bind]. rewrite Hs2. cbn [bind].
    rewrite Hp, <- app_assoc. reflexivity.
Qed.

(*  "[" group { "," group } "]"  *)
Lemma type_parameters_ok : forall N K tps, tps <> [] -> Forall (groupOK N K) tps ->
  forall d (s : pstateT) rst, tfit d s N K ->
    at_toks s (tk OBarackLeft :: commas (map print_tgroup tps) ++ tk OBarackRight :: rst) ->
    exists n s1, type_parameters A G D C E OPS (PA d) s = Ok n s1 /\
                 erase n = sh_fieldlist true (map shape_tgroup tps) /\ at_toks s1 rst /\ frame s s1.
Proof.
  intros N K tps Hne Hall d s rst Hfit Hat.
  destruct tps as [| g l]; [exfalso; apply Hne; reflexivity |].
  inversion Hall as [| ? ? Hg Hl]; subst.
  rewrite commas_tgroup, <- app_assoc in Hat.
  destruct (expect_toks OPS s _ _ (KOp OBarackLeft) 28 Hat eq_refl) as (p0 & s1 & Hx & Hat1 & Hf1).
  destruct (tparams_loop_ok N K l g Hg Hl d (loop_fuel A G D E s1) [] s1 rst
              (tfit_frame _ _ _ _ _ Hf1 Hfit) Hat1) as (fs & s2 & Hp & Hes & Hat2 & Hf2).
  { pose proof (loop_fuel_toks s1 _ Hat1) as H. rewrite !app_length in H. cbn [length] in H.
    pose proof (ttail_length l). lia. }
  destruct (expect_toks OPS s2 _ _ (KOp OBarackRight) 29 Hat2 eq_refl) as (p1 & s3 & Hx3 & Hat3 & Hf3).
  exists (n_fieldlist A C (Some (p0, p1)) fs), s3.
  split; [| split; [| split; [exact Hat3 | exact (frame_trans _ _ _ (frame_trans _ _ _ Hf1 Hf2) Hf3)]]].
  - unfold type_parameters, params_list. rewrite Hx. cbn [bind]. rewrite Hp. cbn [bind app].
    rewrite Hx3. reflexivity.
  - simpl. change (fun x : nodeT => erase x) with erase. rewrite Hes. reflexivity.
Qed.

(* ---- the trial parse after the first parameter name *)

Lemma skipped_yes_t : forall (s : pstateT) t ts k, at_toks s (t :: ts) -> tok_is t k = true ->
  exists s1, skipped A G D C E OPS k s = Ok true s1 /\ at_toks s1 ts /\ frame s s1 /\
             sterm s1 = sterm s.
Proof.
  intros s t ts k Hat Hk.
  destruct (next_at A G D C E OPS s _ _ Hat) as (s1 & Hn & Hat1 & Hf1).
  exists s1. split; [| split; [exact Hat1 | split; [exact Hf1 | exact (next_term A G D C E OPS _ _ Hn)]]].
  unfold skipped. rewrite (cur_is_toks _ _ _ _ Hat), Hk, Hn. reflexivity.
Qed.

Lemma trial_primary : forall d (x : nodeT) (s : pstateT) tok ts,
  at_toks s (tok :: ts) -> trial_stop tok = true ->
  primary_expression A G D C E OPS (PA d) (Some x) s = Ok x s.
Proof.
  intros d x s tok ts Hat Hst. destruct (at_toks_cur _ _ _ Hat) as (p & Hc).
  unfold primary_expression, loop_fuel. cbn [bind primary_loop].
  assert (Hs : primary_step A G D C E OPS (PA d) x s = Ok None s).
  { unfold primary_step. rewrite Hc.
    destruct tok as [txt | k | op | lk txt]; try reflexivity.
    destruct op; try reflexivity; discriminate Hst. }
  rewrite Hs. reflexivity.
Qed.

Lemma trial_binary : forall d (x : nodeT) (s : pstateT) tok ts,
  at_toks s (tok :: ts) -> trial_stop tok = true ->
  k_binary A G D C E (PA (S d)) (Some x) 0 s = Ok x s.
Proof.
  intros d x s tok ts Hat Hst. destruct (at_toks_cur _ _ _ Hat) as (p & Hc).
  change (k_binary A G D C E (PA (S d))) with (binary_body A G D C E OPS (PA d)).
  unfold binary_body, loop_fuel. cbn [bind binary_loop]. rewrite Hc.
  destruct tok as [txt | k | op | lk txt]; try reflexivity.
  destruct op; try reflexivity; discriminate Hst.
Qed.

(*  name [tparams] ["="] type  *)
Lemma typeg_spec_ok : forall index name (tps : list tgroup) alias ty,
  wf_spec SKType index (SpTypeG name tps alias ty) -> TNP2 ty ->
  Forall (fun g : tgroup => Forall (fun bt : bool * typ2 => consP (snd bt)) (snd g)) tps ->
  SpecP SKType index (SpTypeG name tps alias ty).
Proof.
  intros index name tps alias ty Hwf HT HC d s rst Hd Hat Hdep Hlev.
  pose proof (proj1 (wf_spec_g _ _ _ _ _ _) Hwf) as (_ & Hwt & Hwg & Hfirst). clear Hwf.
  cbn [parse_spec]. unfold parse_type_spec.
  destruct (drain A G D C E OPS s) as [docs s0] eqn:Hdr.
  destruct (drain_toks A G D C E OPS s docs s0 Hdr) as (Hat0 & Hf0 & _ & _).
  rewrite print_spec_g in Hat. cbn [app] in Hat. rewrite <- app_assoc in Hat. cbn [app] in Hat.
  rewrite <- app_assoc in Hat. apply Hat0 in Hat.
  rewrite m_spec_g in Hd, Hdep, Hlev. set (MK := m_tparams false tps) in *.
  cbn [mT] in Hd, Hdep, Hlev.
  change (me true) with need2 in Hd. change (me false) with depth2 in Hdep, Hlev.
  pose proof (depthT_pos exp2 depth2 ty) as Hdp.
  (* the bounds of the constraint types *)
  assert (Hb : forall (g : tgroup) bt, In g tps -> In bt (snd g) ->
            needT need2 (snd bt) <= d - 1 /\ depthT depth2 (snd bt) <= MK).
  { intros g bt Hg Hbt.
    pose proof (m_tparams_In true tps g bt Hg Hbt) as H1.
    pose proof (m_tparams_In false tps g bt Hg Hbt) as H2. fold MK in H2.
    cbn [mT] in H1, H2. change (me true) with need2 in H1. change (me false) with depth2 in H2. lia. }
  assert (Hgs : Forall (groupOK (d - 1) MK) tps).
  { apply all2_Forall in Hwg. apply Forall_forall. intros g Hg.
    pose proof (proj1 (Forall_forall _ _) Hwg g Hg) as (Hnn & Hne & Hwb & Hfb).
    pose proof (proj1 (Forall_forall _ _) HC g Hg) as HCg.
    split; [exact Hnn |]. split; [exact Hne |]. split; [| exact Hfb].
    apply all2_Forall in Hwb. apply Forall_forall. intros bt Hbt.
    split; [exact (proj1 (Forall_forall _ _) Hwb bt Hbt) |].
    split; [exact (proj1 (Forall_forall _ _) HCg bt Hbt) | exact (Hb g bt Hg Hbt)]. }
  assert (Htne : tps <> []) by (destruct tps; [destruct Hfirst | discriminate]).
  (* the name, "[" *)
  destruct (identifier_toks_m A G D C E OPS s0 name _ 115 Hat) as (p & s1 & Hi & Hat1 & Hf1 & Hm1).
  pose proof (frame_trans _ _ _ Hf0 Hf1) as Hf01.
  rewrite Hi. cbn [bind].
  destruct (skipped_yes_t s1 _ _ (KOp OBarackLeft) Hat1 eq_refl) as (s2 & Hs2 & Hat2 & Hf2 & Ht2).
  rewrite Hs2. cbn [bind negb].
  (* the trial: it stops after the first parameter name *)
  destruct (tparams_first tps Hwg Hfirst
              (tk OBarackRight :: (if alias then [tk OAssign] else []) ++ printT2 ty ++ tk OSemiColon :: rst))
    as (n1 & tok & ts & Hp1 & Hstop).
  assert (Hat2' := Hat2). rewrite Hp1 in Hat2'.
  rewrite (cur_tok_toks A G D E s2 _ _ 117 Hat2'). cbn [bind ident_tok].
  destruct (identifier_toks_t A G D C E OPS s2 n1 _ 118 Hat2') as (p2 & s3 & Hi3 & Hat3 & Hf3 & Ht3).
  rewrite Hi3. cbn [bind].
  rewrite (cur_is_toks s3 _ _ (KOp OBarackRight) Hat3), (trial_stop_not_close tok Hstop).
  assert (Hinc : inc_level A G D E s3 119 = Ok tt (upd_level A G D E s3 (S (lp s3)) (ln s3))).
  { apply inc_level_ok. destruct Hlev. unframe. lia. }
  rewrite Hinc. cbn [bind].
  set (s3' := upd_level A G D E s3 (S (lp s3)) (ln s3)).
  assert (Hat3' : at_toks s3' (tok :: ts)) by exact Hat3.
  rewrite (trial_primary d (n_ident A C p2 n1) s3' tok ts Hat3' Hstop). cbn [bind].
  destruct d as [| d0]; [lia |].
  rewrite (trial_binary d0 (n_ident A C p2 n1) s3' tok ts Hat3' Hstop). cbn [bind].
  set (s4 := dec_level A G D E s3').
  assert (Hat4 : at_toks s4 (tok :: ts)) by exact Hat3.
  assert (Hf34 : frame s3 s4).
  { split; [reflexivity |]. exists 1. split; simpl; lia. }
  assert (Ht4 : sterm s4 = sterm s1) by (change (sterm s4) with (sterm s3); rewrite Ht3; exact Ht2).
  cbn [extract n_ident mk andb orb negb].
  rewrite (cur_is_toks s4 _ _ (KOp OBarackRight) Hat4), (trial_stop_not_close tok Hstop).
  cbn [andb orb negb].
  (* back to the "[" *)
  destruct (goback_toks A G D C E OPS s1 s4 _ _ Hat1 Hm1 Ht4) as (s5 & Hg & Hat5 & Hf5 & _).
  rewrite Hg. cbn [bind].
  pose proof (frame_trans _ _ _ Hf01 (frame_trans _ _ _ (frame_trans _ _ _ (frame_trans _ _ _ Hf2 Hf3) Hf34) Hf5))
    as Hf05.
  destruct (type_parameters_ok (S d0 - 1) MK tps Htne Hgs (S d0) s5
              ((if alias then [tk OAssign] else []) ++ printT2 ty ++ tk OSemiColon :: rst))
    as (params & s6 & Hk6 & He6 & Hat6 & Hf6).
  { destruct Hlev. unfold tfit. unframe. lia. }
  { exact Hat5. }
  rewrite Hk6. cbn [bind].
  pose proof (frame_trans _ _ _ Hf05 Hf6) as Hf06.
  (* ["="] type *)
  destruct alias.
  - cbn [app] in Hat6.
    destruct (skipped_yes OPS s6 _ _ (KOp OAssign) Hat6 eq_refl) as (s7 & Hs7 & Hat7 & Hf7).
    pose proof (frame_trans _ _ _ Hf06 Hf7) as Hf07.
    destruct (TNP_TP A G D C E OPS exp2 print2 shape2 depth2 need2 ty HT (S d0) s7 (tk OSemiColon :: rst))
      as (nt & s8 & Hk & Het & Hat8 & Hf8);
      [lia | exact Hat7 | apply tfollow_semi | unframe; lia | destruct Hlev; unframe; lia |].
    rewrite Hs7. cbn [bind]. rewrite Hk. cbn [bind].
    eexists _, s8. split; [reflexivity |].
    split; [rewrite shape_spec_g; simpl; rewrite Het, He6; reflexivity |].
    split; [exact Hat8 | exact (frame_trans _ _ _ Hf07 Hf8)].
  - cbn [app] in Hat6.
    destruct (first_tokT exp2 print2 (wf2 false) ty Hwt) as (tok0 & l0 & Hpt & Hst0 & _ & _).
    destruct (type_start_not tok0 Hst0) as (Hna & _ & _).
    assert (Hs7 : skipped A G D C E OPS (KOp OAssign) s6 = Ok false s6).
    { apply (skipped_no OPS s6 _ _ Hat6). rewrite Hpt. exact Hna. }
    destruct (TNP_TP A G D C E OPS exp2 print2 shape2 depth2 need2 ty HT (S d0) s6 (tk OSemiColon :: rst))
      as (nt & s8 & Hk & Het & Hat8 & Hf8);
      [lia | exact Hat6 | apply tfollow_semi | unframe; lia | destruct Hlev; unframe; lia |].
    rewrite Hs7. cbn [bind]. rewrite Hk. cbn [bind].
    eexists _, s8. split; [reflexivity |].
    split; [rewrite shape_spec_g; simpl; rewrite Het, He6; reflexivity |].
    split; [exact Hat8 | exact (frame_trans _ _ _ Hf06 Hf8)].
Qed.

(* ------------------------------------------------------------ groups *)

Fixpoint specs_ok (k : spec_kind) (index : nat) (l : list spec2) : Prop :=
  match l with
  | [] => True
  | sp :: r => SpecP k index sp /\ specs_ok k (S index) r
  end.

Definition print_specs (l : list spec2) : list token :=
  flat_map (fun sp => print_spec2 sp ++ [tk OSemiColon]) l.

(*  ( spec ; spec ; ... )  : the specs with their running index *)
Lemma group_loop_ok : forall k specs index, wf_specs k index specs -> specs_ok k index specs ->
  forall d fuel acc (s : pstateT) rst,
    max2 (m_spec true) specs + 2 <= d ->
    at_toks s (print_specs specs ++ tk OParenRight :: rst) ->
    sdepth s + S (max2 (m_spec false) specs) <= MAX_NESTING ->
    lev false s (S (max2 (m_spec false) specs)) ->
    length (print_specs specs) + 1 <= fuel ->
    exists ns s1,
      decl_group_loop A G D C E OPS (PA d) fuel k index acc s = Ok (acc ++ ns) s1 /\
      map erase ns = map shape_spec2 specs /\ at_toks s1 (tk OParenRight :: rst) /\ frame s s1.
Proof.
  intros k specs. induction specs as [| sp r IH];
    intros index Hwf Hok d fuel acc s rst Hd Hat Hdep Hlev Hfu.
  - cbn [print_specs flat_map app] in Hat. destruct fuel as [| f]; [simpl in Hfu; lia |].
    cbn [decl_group_loop]. rewrite (cur_is_toks s _ _ (KOp OParenRight) Hat).
    change (tok_is (tk OParenRight) (KOp OParenRight)) with true. cbv iota.
    exists [], s. rewrite app_nil_r.
    split; [reflexivity |]. split; [reflexivity |]. split; [exact Hat | apply frame_refl].
  - destruct Hwf as (Hws & Hwr). destruct Hok as (HS & Hokr).
    cbn [print_specs flat_map] in Hat, Hfu. fold (print_specs r) in Hat, Hfu.
    rewrite <- !app_assoc in Hat. cbn [app] in Hat.
    rewrite !app_length in Hfu. cbn [length] in Hfu.
    cbn [max2 fold_right] in Hd, Hdep, Hlev.
    fold (max2 (m_spec true) r) in Hd. fold (max2 (m_spec false) r) in Hdep, Hlev.
    destruct fuel as [| f]; [lia |]. cbn [decl_group_loop].
    destruct (spec_first k index sp Hws) as (n0 & l0 & Hp0).
    assert (Hc : cur_is A G D E s (KOp OParenRight) = false).
    { rewrite Hp0 in Hat. cbn [app] in Hat. rewrite (cur_is_toks s _ _ _ Hat). reflexivity. }
    rewrite Hc.
    destruct (HS d s (print_specs r ++ tk OParenRight :: rst)) as (n & s1 & Hk & He & Hat1 & Hf1);
      [lia | exact Hat | lia | apply (lev_frame A G D E false s s _ _ (frame_refl s) Hlev); lia |].
    rewrite Hk. cbn [bind].
    destruct (skipped_yes OPS s1 _ _ (KOp OSemiColon) Hat1 eq_refl) as (s2 & Hs2 & Hat2 & Hf2).
    rewrite Hs2. cbn [bind].
    pose proof (frame_trans _ _ _ Hf1 Hf2) as Hf12.
    destruct (IH (S index) Hwr Hokr d f (acc ++ [n]) s2 rst) as (ns & s3 & Hl & Hes & Hat3 & Hf3);
      [lia | exact Hat2 | unframe; lia | apply (lev_frame A G D E false s s2 _ _ Hf12 Hlev); lia | lia |].
    exists (n :: ns), s3. split; [rewrite Hl, <- app_assoc; reflexivity |].
    split; [simpl; rewrite He; change (fun x : nodeT => erase x) with erase; rewrite Hes; reflexivity |].
    split; [exact Hat3 | exact (frame_trans _ _ _ Hf12 Hf3)].
Qed.

(* ------------------------------------------------------------ the induction hypothesis *)

Lemma spec_from_ihs : forall n k index sp,
  IHS n -> size_spec sp <= n -> wf_spec k index sp -> SpecP k index sp.
Proof.
  intros n k index sp (H1 & _ & _ & _ & H5) Hsz Hwf.
  destruct sp as [names ty vals | names ty vals | name alias ty | name tps alias ty]; cbn [size_spec] in Hsz.
  - pose proof Hwf as (-> & _ & _ & Hwt & Hwv). apply var_spec_ok; [exact Hwf | |].
    + destruct ty as [t |]; [| exact I]. cbn [optP opt2 omax] in *. apply H5; [lia | exact Hwt].
    + apply all2_Forall in Hwv. apply Forall_forall. intros e Hin.
      apply H1; [pose proof (sum2_In _ size2 vals e Hin); lia |].
      exact (proj1 (Forall_forall _ _) Hwv e Hin).
  - pose proof Hwf as (-> & _ & _ & Hwt & Hwv). apply const_spec_ok; [exact Hwf | |].
    + destruct ty as [t |]; [| exact I]. cbn [optP opt2 omax] in *. apply H5; [lia | exact Hwt].
    + apply all2_Forall in Hwv. apply Forall_forall. intros e Hin.
      apply H1; [pose proof (sum2_In _ size2 vals e Hin); lia |].
      exact (proj1 (Forall_forall _ _) Hwv e Hin).
  - pose proof Hwf as (-> & Hwt & _). apply type_spec_ok; [exact Hwf | apply H5; [lia | exact Hwt] |].
    destruct ty; try exact I; cbn [elemP sizeX wfT] in *.
    + apply H5; [lia | exact Hwt].
    + destruct Hwt as (Hwx & Hwt). split; [apply H1; [lia | exact Hwx] | apply H5; [lia | exact Hwt]].
    + apply H5; [lia | exact Hwt].
  - pose proof (proj1 (wf_spec_g _ _ _ _ _ _) Hwf) as (-> & Hwt & Hwg & _).
    change (S (size_tparams tps + sizeX size2 ty) <= n) in Hsz.
    apply typeg_spec_ok; [exact Hwf | apply H5; [lia | exact Hwt] |].
    apply all2_Forall in Hwg. apply Forall_forall. intros g Hg. apply Forall_forall. intros bt Hbt.
    pose proof (proj1 (Forall_forall _ _) Hwg g Hg) as (_ & _ & Hwb & _).
    apply all2_Forall in Hwb. pose proof (proj1 (Forall_forall _ _) Hwb bt Hbt) as Hwbt.
    cbv beta in Hwbt.
    pose proof (size_tparams_In tps g bt Hg Hbt) as Hs1.
    split; [apply H5; [lia | exact Hwbt] |].
    destruct (snd bt) as [| | | | t | x t | t | | | | | |]; try exact I; cbn [elemP sizeX wfT] in *.
    + apply H5; [lia | exact Hwbt].
    + destruct Hwbt as (Hwx & Hwbt). split; [apply H1; [lia | exact Hwx] | apply H5; [lia | exact Hwbt]].
    + apply H5; [lia | exact Hwbt].
Qed.

Lemma specs_from_ihs : forall n k specs index,
  IHS n -> sum2 size_spec specs <= n -> wf_specs k index specs -> specs_ok k index specs.
Proof.
  intros n k specs. induction specs as [| sp r IH]; intros index HI Hsz Hwf; [exact I |].
  destruct Hwf as (Hws & Hwr). cbn [sum2 fold_right] in Hsz. fold (sum2 size_spec r) in Hsz.
  split; [apply (spec_from_ihs n); [exact HI | lia | exact Hws] |].
  apply IH; [exact HI | lia | exact Hwr].
Qed.

(* ------------------------------------------------------------ parse_decl *)

Theorem decl_ok : DPprov A G D C E OPS.
Proof.
  intros n [k g specs] HI Hsz (Hg & Hws) d s rst Hd Hat Hdep Hlev.
  rewrite size_decl in Hsz.
  pose proof (specs_from_ihs n k specs 0 HI ltac:(lia) Hws) as Hok.
  unfold need_stmt2 in Hd. unfold depth_stmt2 in Hdep, Hlev. rewrite ms_decl in Hd, Hdep, Hlev.
  change (cs true) with 6 in Hd. change (cs false) with 4 in Hdep, Hlev.
  cbv beta iota. unfold parse_decl.
  destruct (drain A G D C E OPS s) as [docs s0] eqn:Hdr.
  destruct (drain_toks A G D C E OPS s docs s0 Hdr) as (Hat0 & Hf0 & _ & _).
  apply Hat0 in Hat. destruct g.
  - (* kw ( spec ; ... ) ; *)
    cbn [print_decl] in Hat. fold (print_specs specs) in Hat.
    cbn [app] in Hat. rewrite <- app_assoc in Hat. cbn [app] in Hat.
    destruct (next_toks OPS s0 _ (at_toks_rest' s0 _ _ Hat)) as (s1 & Hn & Hat1 & Hf1).
    rewrite Hn. cbn [bind].
    rewrite (cur_is_toks s1 _ _ (KOp OParenLeft) Hat1).
    change (tok_is (tk OParenLeft) (KOp OParenLeft)) with true. cbv iota.
    destruct (expect_toks OPS s1 _ _ (KOp OParenLeft) 124 Hat1 eq_refl) as (pl & s2 & Hx & Hat2 & Hf2).
    rewrite Hx. cbn [bind].
    pose proof (frame_trans _ _ _ (frame_trans _ _ _ Hf0 Hf1) Hf2) as Hf02.
    destruct (group_loop_ok k specs 0 Hws Hok d (loop_fuel A G D E s2) [] s2 (tk OSemiColon :: rst))
      as (ns & s3 & Hl & Hes & Hat3 & Hf3);
      [lia | exact Hat2 | unframe; lia | apply (lev_frame A G D E false s s2 _ _ Hf02 Hlev); lia | |].
    { pose proof (loop_fuel_toks s2 _ Hat2) as H. rewrite app_length in H. lia. }
    rewrite Hl. cbn [bind app].
    destruct (expect_toks OPS s3 _ _ (KOp OParenRight) 125 Hat3 eq_refl) as (pr & s4 & Hx4 & Hat4 & Hf4).
    rewrite Hx4. cbn [bind].
    destruct (skipped_yes OPS s4 _ _ (KOp OSemiColon) Hat4 eq_refl) as (s5 & Hs5 & Hat5 & Hf5).
    rewrite Hs5. cbn [bind].
    eexists _, s5. split; [reflexivity |].
    split; [cbn [shape_decl]; simpl; change (fun x : nodeT => erase x) with erase; rewrite Hes;
            reflexivity |].
    split; [exact Hat5 |
            exact (frame_trans _ _ _ Hf02 (frame_trans _ _ _ (frame_trans _ _ _ Hf3 Hf4) Hf5))].
  - (* kw spec ; *)
    specialize (Hg eq_refl). destruct specs as [| sp [| sp2 r]]; try discriminate Hg.
    destruct Hws as (Hws & _). destruct Hok as (HS & _).
    cbn [print_decl flat_map] in Hat. rewrite app_nil_r in Hat. cbn [app] in Hat.
    rewrite <- app_assoc in Hat. cbn [app] in Hat.
    cbn [max2 fold_right] in Hd, Hdep, Hlev.
    destruct (next_toks OPS s0 _ (at_toks_rest' s0 _ _ Hat)) as (s1 & Hn & Hat1 & Hf1).
    rewrite Hn. cbn [bind].
    pose proof (frame_trans _ _ _ Hf0 Hf1) as Hf01.
    destruct (spec_first k 0 sp Hws) as (n0 & l0 & Hp0).
    assert (Hc : cur_is A G D E s1 (KOp OParenLeft) = false).
    { rewrite Hp0 in Hat1. cbn [app] in Hat1. rewrite (cur_is_toks s1 _ _ _ Hat1). reflexivity. }
    rewrite Hc.
    destruct (HS d s1 rst) as (nd & s2 & Hk & He & Hat2 & Hf2);
      [lia | exact Hat1 | unframe; lia | apply (lev_frame A G D E false s s1 _ _ Hf01 Hlev); lia |].
    rewrite Hk. cbn [bind].
    destruct (skipped_yes OPS s2 _ _ (KOp OSemiColon) Hat2 eq_refl) as (s3 & Hs3 & Hat3 & Hf3).
    rewrite Hs3. cbn [bind].
    eexists _, s3. split; [reflexivity |].
    split; [cbn [shape_decl map]; unfold mkd, Ast.erase; cbn [nmap map]; fold (erase (set_docs nd [docs]));
            rewrite erase_set_docs, He, shape_spec_docs; reflexivity |].
    split; [exact Hat3 | exact (frame_trans _ _ _ Hf01 (frame_trans _ _ _ Hf2 Hf3))].
Qed.

(* ------------------------------------------------------------ declaration statements *)

Lemma stmt_decl_ok : forall dc : decl2, DP dc -> wf_decl dc -> SC (StDecl dc).
Proof.
  intros dc HD Hwf d s rst Hd Hat _ Hdep Hlev.
  assert (H6 : 6 <= need_stmt2 (StDecl dc)).
  { destruct dc as [k g specs]. unfold need_stmt2. rewrite ms_decl. change (cs true) with 6. lia. }
  assert (H4 : 4 <= depth_stmt2 (StDecl dc)).
  { destruct dc as [k g specs]. unfold depth_stmt2. rewrite ms_decl. change (cs false) with 4. lia. }
  destruct d as [| d0]; [lia |].
  change (k_stmt A G D C E (PA (S d0)) s)
    with (nested A G D E 142 (stmt_body A G D C E OPS (PA d0)) s).
  set (s0 := upd_depth A G D E s (S (sdepth s))).
  cbn [print_stmt] in Hat.
  destruct (HD d0 s0 rst) as (n & s1 & Hk & He & Hat1 & Hf1);
    [lia | exact Hat | change (sdepth s0) with (S (sdepth s)); lia | exact Hlev |].
  exists (mk A C GDeclStmt [] [] [n]), (upd_depth A G D E s1 (pred (sdepth s1))).
  split; [| split; [simpl; rewrite He; reflexivity | split; [exact Hat1 | apply frame_nested; exact Hf1]]].
  apply nested_intro; [lia |]. fold s0.
  destruct dc as [k g specs]. cbv beta iota in Hk.
  assert (Hc : exists p, cur s0 = Some (p, kw (kind_kw k))).
  { destruct g; cbn [print_decl app] in Hat; exact (at_toks_cur s _ _ Hat). }
  destruct Hc as (p & Hc). unfold stmt_body. rewrite Hc.
  destruct k; cbn [kind_kw kw classify_stmt]; rewrite Hk; reflexivity.
Qed.

Theorem stmts4_ok : forall dc : decl2,
  IHS (size_stmt (StDecl dc)) -> wf_stmt (StDecl dc) -> SC (StDecl dc).
Proof.
  intros dc HI Hwf. apply wf_stmt_decl in Hwf.
  apply stmt_decl_ok; [exact (decl_ok _ dc HI (le_n _) Hwf) | exact Hwf].
Qed.

End Decl.
