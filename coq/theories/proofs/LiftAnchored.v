(* ANCHORED LIFTING: a variant of the lifting framework of Lift.v for invariants
   that Lift.v cannot express.

   (1) Lift.v asks that [upd_cur _ None] alone keeps the invariant.  Every
       production that takes the current token either calls Parser::next at
       once or fails; here the closure facts are about those two uses
       ([ac_take], [ac_takeE]), so an invariant may say what [s_cur = None]
       means at the end of a production.
   (2) Lift.v's goback fact relates two arbitrary invariant states.  Here the
       state the mark was taken in is one the ghost is ANCHORED at ([anc k s0]),
       and the ghost can be anchored wherever a mark is taken ([ac_anchor]):
       an invariant may then relate the state that goes back to the earlier
       state that took the mark (monotone quantities).  The state that goes
       back need only satisfy the error-side invariant, so the interface loop's
       catch needs no extra obligation.

   The productions and tactics are those of Lift.v; only parse_type_spec and
   interface_loop (the two backtracking sites) are proved differently. *)
From Coq Require Import List Bool Arith Lia.
From GoSyn Require Import Token Tok Ast Core.
From GoSyn.proofs Require Import Lift.
Import ListNotations.

Section Closed.
Variables (A G D C E : Type) (OPS : ops A G D C).
Notation pstate := (Core.pstate A G D E).
Variable K : Type.
Variable Inv InvE : K -> pstate -> Prop.
Variable anc : K -> pstate -> Prop.
Variable up rst dup : K -> K.

(* The 17 closure facts.  [ac_goback]: backtracking only goes to a mark taken
   ([preback]) in an earlier state that satisfied the invariant with the same
   ghost.  [ac_upd_cur]: productions set the current token only through
   next / goback / line_end_comment or to None.  [ac_drain]: the only update of
   the comment state outside next / goback / line_end_comment. *)
Record anc_closed : Prop := {
  ac_err : forall k s, Inv k s -> InvE k s;
  ac_upE : forall k s, InvE (up k) s -> InvE k s;
  ac_rstE : forall k s, InvE (rst k) s -> InvE k s;
  ac_inc : forall k s, Inv k s -> Inv (up k) (upd_level s (S (s_lp s)) (s_ln s));
  ac_dec : forall k s, Inv (up k) s -> Inv k (dec_level s);
  ac_decE : forall k s, InvE (up k) s -> InvE k (dec_level s);
  ac_reset : forall k s, Inv k s -> Inv (rst k) (reset_level s);
  ac_restore : forall k s s', Inv k s -> Inv (rst k) s' -> Inv k (upd_level s' (s_lp s) (s_ln s));
  (* Parser::nested: the ghost is [dup k] while a recursion hub is open; the
     body runs only below the limit; at the limit the hub fails at once *)
  ac_dinc : forall k s, s_depth s < MAX_NESTING -> Inv k s ->
                        Inv (dup k) (upd_depth s (S (s_depth s)));
  ac_dfail : forall k s, Inv k s ->
                         InvE k (upd_depth (upd_depth s (S (s_depth s))) (s_depth s));
  ac_ddec : forall k s, Inv (dup k) s -> Inv k (upd_depth s (pred (s_depth s)));
  ac_ddecE : forall k s, InvE (dup k) s -> InvE k (upd_depth s (pred (s_depth s)));
  (* taking the current token is always followed by Parser::next, or by an error *)
  ac_take : forall k s, Inv k s -> post (Inv k) (InvE k) (next OPS (upd_cur s None));
  ac_takeE : forall k s, Inv k s -> InvE k (upd_cur s None);
  ac_drain : forall k s c s', drain OPS s = (c, s') -> Inv k s -> Inv k s';
  ac_next : forall k s, Inv k s -> post (Inv k) (InvE k) (next OPS s);
  (* the mark was taken in a state the ghost is anchored at; the state that goes back
     may be one an error left behind *)
  ac_goback : forall k0 k s0 s, Inv k0 s0 -> InvE k s -> anc k s0 ->
                                post (Inv k) (InvE k) (goback OPS (preback s0) s);
  (* where a mark is taken the ghost can be anchored *)
  ac_anchor : forall k s, Inv k s -> exists k', Inv k' s /\ anc k' s /\
      (forall s', Inv k' s' -> Inv k s') /\ (forall s', InvE k' s' -> InvE k s') /\
      (forall s0, anc k s0 -> anc k' s0);
  ac_line_end : forall c k s, Inv k s -> post (Inv k) (InvE k) (line_end_comment OPS c s)
}.
End Closed.
Arguments anc_closed {A G D C E} OPS {K} Inv InvE anc up rst dup.
Arguments ac_err {A G D C E OPS K Inv InvE anc up rst dup} _.
Arguments ac_upE {A G D C E OPS K Inv InvE anc up rst dup} _.
Arguments ac_rstE {A G D C E OPS K Inv InvE anc up rst dup} _.
Arguments ac_inc {A G D C E OPS K Inv InvE anc up rst dup} _.
Arguments ac_dec {A G D C E OPS K Inv InvE anc up rst dup} _.
Arguments ac_decE {A G D C E OPS K Inv InvE anc up rst dup} _.
Arguments ac_reset {A G D C E OPS K Inv InvE anc up rst dup} _.
Arguments ac_restore {A G D C E OPS K Inv InvE anc up rst dup} _.
Arguments ac_dinc {A G D C E OPS K Inv InvE anc up rst dup} _.
Arguments ac_dfail {A G D C E OPS K Inv InvE anc up rst dup} _.
Arguments ac_ddec {A G D C E OPS K Inv InvE anc up rst dup} _.
Arguments ac_ddecE {A G D C E OPS K Inv InvE anc up rst dup} _.
Arguments ac_take {A G D C E OPS K Inv InvE anc up rst dup} _.
Arguments ac_takeE {A G D C E OPS K Inv InvE anc up rst dup} _.
Arguments ac_anchor {A G D C E OPS K Inv InvE anc up rst dup} _.
Arguments ac_drain {A G D C E OPS K Inv InvE anc up rst dup} _.
Arguments ac_next {A G D C E OPS K Inv InvE anc up rst dup} _.
Arguments ac_goback {A G D C E OPS K Inv InvE anc up rst dup} _.
Arguments ac_line_end {A G D C E OPS K Inv InvE anc up rst dup} _.

(* ------------------------------------------------------------------ the framework *)

Section Lift.
Variables (A G D C E : Type) (OPS : ops A G D C).
Notation pstate := (Core.pstate A G D E).
Notation res := (Core.res A G D E).
Notation parsers := (Core.parsers A G D C E).
Notation selem := (Core.selem A G).
Notation nodeT := (node A C).

Variable K : Type.
Variable Inv InvE : K -> pstate -> Prop.
Variable anc : K -> pstate -> Prop.
Variable up rst dup : K -> K.

(* a state transformer / production keeps the invariant *)
Notation pres p := (forall k s, Inv k s -> post (Inv k) (InvE k) (p s)).

Hypothesis HC : anc_closed OPS Inv InvE anc up rst dup.

Lemma AH_err : forall k s, Inv k s -> InvE k s.
Proof. destruct HC; assumption. Qed.
Lemma AH_upE : forall k s, InvE (up k) s -> InvE k s.
Proof. destruct HC; assumption. Qed.
Lemma AH_rstE : forall k s, InvE (rst k) s -> InvE k s.
Proof. destruct HC; assumption. Qed.
Lemma AH_inc : forall k s, Inv k s -> Inv (up k) (upd_level s (S (s_lp s)) (s_ln s)).
Proof. destruct HC; assumption. Qed.
Lemma AH_dec : forall k s, Inv (up k) s -> Inv k (dec_level s).
Proof. destruct HC; assumption. Qed.
Lemma AH_decE : forall k s, InvE (up k) s -> InvE k (dec_level s).
Proof. destruct HC; assumption. Qed.
Lemma AH_reset : forall k s, Inv k s -> Inv (rst k) (reset_level s).
Proof. destruct HC; assumption. Qed.
Lemma AH_restore : forall k s s', Inv k s -> Inv (rst k) s' -> Inv k (upd_level s' (s_lp s) (s_ln s)).
Proof. destruct HC; assumption. Qed.
Lemma AH_dinc : forall k s, s_depth s < MAX_NESTING -> Inv k s ->
  Inv (dup k) (upd_depth s (S (s_depth s))).
Proof. destruct HC; assumption. Qed.
Lemma AH_dfail : forall k s, Inv k s ->
  InvE k (upd_depth (upd_depth s (S (s_depth s))) (s_depth s)).
Proof. destruct HC; assumption. Qed.
Lemma AH_ddec : forall k s, Inv (dup k) s -> Inv k (upd_depth s (pred (s_depth s))).
Proof. destruct HC; assumption. Qed.
Lemma AH_ddecE : forall k s, InvE (dup k) s -> InvE k (upd_depth s (pred (s_depth s))).
Proof. destruct HC; assumption. Qed.
Lemma AH_take : forall k s, Inv k s -> post (Inv k) (InvE k) (next OPS (upd_cur s None)).
Proof. destruct HC; assumption. Qed.
Lemma AH_takeE : forall k s, Inv k s -> InvE k (upd_cur s None).
Proof. destruct HC; assumption. Qed.
Lemma AH_drain : forall k s c s', drain OPS s = (c, s') -> Inv k s -> Inv k s'.
Proof. destruct HC; assumption. Qed.
Lemma AH_next : forall k s, Inv k s -> post (Inv k) (InvE k) (next OPS s).
Proof. destruct HC; assumption. Qed.
Lemma AH_goback : forall k0 k s0 s, Inv k0 s0 -> InvE k s -> anc k s0 ->
  post (Inv k) (InvE k) (goback OPS (preback s0) s).
Proof. destruct HC; assumption. Qed.
Lemma AH_anchor : forall k s, Inv k s -> exists k', Inv k' s /\ anc k' s /\
  (forall s', Inv k' s' -> Inv k s') /\ (forall s', InvE k' s' -> InvE k s') /\
  (forall s0, anc k s0 -> anc k' s0).
Proof. destruct HC; assumption. Qed.
Lemma AH_line_end : forall c k s, Inv k s -> post (Inv k) (InvE k) (line_end_comment OPS c s).
Proof. destruct HC; assumption. Qed.
Local Hint Resolve AH_err AH_upE AH_rstE AH_inc AH_dec AH_decE AH_reset AH_restore AH_take AH_takeE AH_drain
      AH_next AH_goback AH_line_end : lift.

(* ---- primitives ---- *)

Lemma A_inc_level site k s :
  Inv k s -> post (Inv (up k)) (InvE k) (inc_level s site).
Proof. intros H. unfold inc_level. msteps. Qed.
Local Hint Resolve A_inc_level : lift.

(* Parser::nested around a body that keeps the invariant *)
Lemma A_nested X site (f : pstate -> res X) :
  pres f -> pres (nested site f).
Proof.
  intros Hf k s H. unfold nested. cbv zeta. cbn [s_depth upd_depth].
  destruct (S MAX_NESTING <=? S (s_depth s)) eqn:Hlim.
  - apply AH_dfail, H.
  - apply Nat.leb_gt in Hlim.
    assert (Hb : post (Inv (dup k)) (InvE (dup k)) (f (upd_depth s (S (s_depth s))))).
    { apply Hf, AH_dinc; [ lia | exact H ]. }
    destruct (f (upd_depth s (S (s_depth s)))); simpl in *; auto using AH_ddec, AH_ddecE.
Qed.

Lemma A_cur_tok site : pres (fun s => cur_tok s site).
Proof. intros k s H. unfold cur_tok. msteps. Qed.
Local Hint Resolve A_cur_tok : lift.

Lemma A_expect tk site : pres (expect OPS tk site).
Proof. intros k s H. unfold expect. msteps. Qed.
Local Hint Resolve A_expect : lift.

Lemma A_skipped tk : pres (skipped OPS tk).
Proof. intros k s H. unfold skipped. msteps. Qed.
Local Hint Resolve A_skipped : lift.

Lemma A_identifier site : pres (identifier OPS site).
Proof. intros k s H. unfold identifier. msteps. Qed.
Local Hint Resolve A_identifier : lift.

(* ---- leaf parsers (no recursion through [self]) ---- *)

Lemma A_identifier_list_loop : forall fuel acc, pres (identifier_list_loop OPS fuel acc).
Proof. floop identifier_list_loop fuel. Qed.
Local Hint Resolve A_identifier_list_loop : lift.

Lemma A_identifier_list first : pres (identifier_list OPS first).
Proof. prod identifier_list. Qed.
Local Hint Resolve A_identifier_list : lift.

Lemma A_string_literal_or_none : pres (string_literal_or_none OPS).
Proof. prod string_literal_or_none. Qed.
Local Hint Resolve A_string_literal_or_none : lift.

Lemma A_string_literal site : pres (string_literal OPS site).
Proof. prod string_literal. Qed.
Local Hint Resolve A_string_literal : lift.

Lemma A_literal : pres (literal OPS).
Proof. prod literal. Qed.
Local Hint Resolve A_literal : lift.

Lemma A_check_field_list (fl : nodeT) trailing : pres (check_field_list fl trailing).
Proof. prod check_field_list. Qed.
Local Hint Resolve A_check_field_list : lift.

Lemma A_check_single_expr (l : list nodeT) : pres (check_single_expr l).
Proof. prod check_single_expr. Qed.
Local Hint Resolve A_check_single_expr : lift.

Lemma A_check_assign_stmt (l : list nodeT) : pres (check_assign_stmt l).
Proof. induction l; intros; cbn [check_assign_stmt]; msteps. Qed.
Local Hint Resolve A_check_assign_stmt : lift.

Lemma A_is_type_switch (tg : option nodeT) : pres (is_type_switch tg).
Proof. prod is_type_switch. Qed.
Local Hint Resolve A_is_type_switch : lift.

Lemma A_semi_unless_brace site : pres (semi_unless_brace OPS site).
Proof. prod semi_unless_brace. Qed.
Local Hint Resolve A_semi_unless_brace : lift.

Lemma A_finish_field c names typ : pres (finish_field OPS c names typ).
Proof. prod finish_field. Qed.
Local Hint Resolve A_finish_field : lift.

Lemma A_parse_branch_stmt key : pres (parse_branch_stmt OPS key).
Proof. prod parse_branch_stmt. Qed.
Local Hint Resolve A_parse_branch_stmt : lift.

Lemma A_parse_package : pres (parse_package OPS).
Proof. prod parse_package. Qed.
Local Hint Resolve A_parse_package : lift.

Lemma A_parse_import_spec : pres (parse_import_spec OPS).
Proof. prod parse_import_spec. Qed.
Local Hint Resolve A_parse_import_spec : lift.

Lemma A_import_group_loop : forall fuel acc, pres (import_group_loop OPS fuel acc).
Proof. floop import_group_loop fuel. Qed.
Local Hint Resolve A_import_group_loop : lift.

Lemma A_parse_import_decl : pres (parse_import_decl OPS).
Proof. prod parse_import_decl. Qed.
Local Hint Resolve A_parse_import_decl : lift.

Lemma A_imports_loop : forall fuel acc, pres (imports_loop OPS fuel acc).
Proof. floop imports_loop fuel. Qed.
Local Hint Resolve A_imports_loop : lift.

Lemma A_ensure_started : pres (ensure_started OPS).
Proof. prod ensure_started. Qed.
Local Hint Resolve A_ensure_started : lift.


(* ---- the invariant of a table of parsers ---- *)

Record AGood (self : parsers) : Prop := {
  ag_type : pres (k_type self);
  ag_type_or_none : pres (k_type_or_none self);
  ag_expr : pres (k_expr self);
  ag_unary : pres (k_unary self);
  ag_binary : forall p prec, pres (k_binary self p prec);
  ag_litvalue : pres (k_litvalue self);
  ag_block : pres (k_block self);
  ag_stmt : pres (k_stmt self);
  ag_if : pres (k_if self)
}.

Lemma AGood_no_fuel : AGood (no_fuel A G D C E).
Proof. split; intros; exact I. Qed.

(* ---- one unfolding: every production of [step self] ---- *)

Section Step.
Variable self : parsers.
Hypothesis HG : AGood self.

Lemma AS_type : pres (k_type self). Proof. exact (ag_type _ HG). Qed.
Lemma AS_type_or_none : pres (k_type_or_none self). Proof. exact (ag_type_or_none _ HG). Qed.
Lemma AS_expr : pres (k_expr self). Proof. exact (ag_expr _ HG). Qed.
Lemma AS_unary : pres (k_unary self). Proof. exact (ag_unary _ HG). Qed.
Lemma AS_binary p prec : pres (k_binary self p prec). Proof. exact (ag_binary _ HG p prec). Qed.
Lemma AS_litvalue : pres (k_litvalue self). Proof. exact (ag_litvalue _ HG). Qed.
Lemma AS_block : pres (k_block self). Proof. exact (ag_block _ HG). Qed.
Lemma AS_stmt : pres (k_stmt self). Proof. exact (ag_stmt _ HG). Qed.
Lemma AS_if : pres (k_if self). Proof. exact (ag_if _ HG). Qed.
Local Hint Resolve AS_type AS_type_or_none AS_expr AS_unary AS_binary AS_litvalue AS_block AS_stmt AS_if
  : lift.

(* -- expressions and types -- *)

Lemma A_parse_next_level_expr : pres (parse_next_level_expr self).
Proof.
  intros k s H. unfold parse_next_level_expr.
  eapply post_bind; [ call_solve | intros _ s1 H1 ].
  eapply post_res_match with (P1 := Inv (up k)) (Pe1 := InvE (up k));
    [ auto with lift | intros; msteps .. ].
Qed.
Local Hint Resolve A_parse_next_level_expr : lift.

Lemma A_comma_list_loop (item : pstate -> res nodeT) (Hitem : pres item) :
  forall fuel acc, pres (comma_list_loop OPS fuel item acc).
Proof. floop comma_list_loop fuel. Qed.
Local Hint Resolve A_comma_list_loop : lift.

Lemma A_expression_list : pres (expression_list OPS self).
Proof. prod expression_list. Qed.
Local Hint Resolve A_expression_list : lift.

Lemma A_parse_type_list : pres (parse_type_list OPS self).
Proof. prod parse_type_list. Qed.
Local Hint Resolve A_parse_type_list : lift.

Lemma A_type_list_loop : forall fuel acc, pres (type_list_loop OPS self fuel acc).
Proof. floop type_list_loop fuel. Qed.
Local Hint Resolve A_type_list_loop : lift.

Lemma A_type_list strict : pres (type_list OPS self strict).
Proof. prod type_list. Qed.
Local Hint Resolve A_type_list : lift.

Lemma A_type_instance (left : nodeT) : pres (type_instance OPS self left).
Proof. prod type_instance. Qed.
Local Hint Resolve A_type_instance : lift.

Lemma A_qualified_ident (name : option nodeT) : pres (qualified_ident OPS self name).
Proof. prod qualified_ident. Qed.
Local Hint Resolve A_qualified_ident : lift.

Lemma A_parse_type_term : pres (parse_type_term OPS self).
Proof. prod parse_type_term. Qed.
Local Hint Resolve A_parse_type_term : lift.

Lemma A_type_elem_loop : forall fuel typ, pres (type_elem_loop OPS self fuel typ).
Proof. floop type_elem_loop fuel. Qed.
Local Hint Resolve A_type_elem_loop : lift.

Lemma A_parse_type_elem : pres (parse_type_elem OPS self).
Proof. prod parse_type_elem. Qed.
Local Hint Resolve A_parse_type_elem : lift.

Lemma A_array_len : pres (array_len OPS self).
Proof. prod array_len. Qed.
Local Hint Resolve A_array_len : lift.

Lemma A_array_or_typeargs : pres (array_or_typeargs OPS self).
Proof. prod array_or_typeargs. Qed.
Local Hint Resolve A_array_or_typeargs : lift.

Lemma A_ellipsis_type : pres (ellipsis_type OPS self).
Proof. prod ellipsis_type. Qed.
Local Hint Resolve A_ellipsis_type : lift.

Lemma A_param_decl_loop : forall fuel ewc ids, pres (param_decl_loop OPS self fuel ewc ids).
Proof. floop param_decl_loop fuel. Qed.
Local Hint Resolve A_param_decl_loop : lift.

Lemma A_parse_parameter_decl : pres (parse_parameter_decl OPS self).
Proof. prod parse_parameter_decl. Qed.
Local Hint Resolve A_parse_parameter_decl : lift.

Lemma A_params_loop : forall fuel close acc, pres (params_loop OPS self fuel close acc).
Proof. floop params_loop fuel. Qed.
Local Hint Resolve A_params_loop : lift.

Lemma A_params_list open close : pres (params_list OPS self open close).
Proof. prod params_list. Qed.
Local Hint Resolve A_params_list : lift.

Lemma A_parameters : pres (parameters OPS self).
Proof. prod parameters. Qed.
Local Hint Resolve A_parameters : lift.

Lemma A_type_parameters : pres (type_parameters OPS self).
Proof. prod type_parameters. Qed.
Local Hint Resolve A_type_parameters : lift.

Lemma A_parse_result : pres (parse_result OPS self).
Proof. prod parse_result. Qed.
Local Hint Resolve A_parse_result : lift.

Lemma A_signature : pres (signature OPS self).
Proof. prod signature. Qed.
Local Hint Resolve A_signature : lift.

Lemma A_func_type : pres (func_type OPS self).
Proof. prod func_type. Qed.
Local Hint Resolve A_func_type : lift.

Lemma A_type_params_loop : forall fuel acc, pres (type_params_loop OPS self fuel acc).
Proof. floop type_params_loop fuel. Qed.
Local Hint Resolve A_type_params_loop : lift.

Lemma A_parse_type_parameters : pres (parse_type_parameters OPS self).
Proof. prod parse_type_parameters. Qed.
Local Hint Resolve A_parse_type_parameters : lift.

Lemma A_field_decl : pres (field_decl OPS self).
Proof. prod field_decl. Qed.
Local Hint Resolve A_field_decl : lift.

Lemma A_struct_loop : forall fuel acc, pres (struct_loop OPS self fuel acc).
Proof. floop struct_loop fuel. Qed.
Local Hint Resolve A_struct_loop : lift.

Lemma A_struct_type : pres (struct_type OPS self).
Proof. prod struct_type. Qed.
Local Hint Resolve A_struct_type : lift.

Lemma A_parse_method_elem : pres (parse_method_elem OPS self).
Proof. prod parse_method_elem. Qed.
Local Hint Resolve A_parse_method_elem : lift.

(* the loop of parse_interface_type continues from the state an error of
   parse_method_elem left behind and goes back to the mark taken where the
   iteration started: the ghost is anchored there *)
Lemma A_interface_loop : forall fuel acc, pres (interface_loop OPS self fuel acc).
Proof.
  induction fuel; intros acc k s H; [ exact I | ].
  cbn [interface_loop]. hide_nats. cbv zeta.
  destruct (AH_anchor _ _ H) as (k' & Hi & Ha & Hw & HwE & _).
  apply post_weaken with (P' := Inv k') (Pe' := InvE k'); [ | exact Hw | exact HwE ].
  clear H Hw HwE.
  mstep1; [ msteps | ].
  mstep1; [ | msteps ].
  eapply post_res_match with (P1 := Inv k') (Pe1 := InvE k');
    [ auto with lift | intros; msteps | intros e s1 He; msteps ].
Qed.
Local Hint Resolve A_interface_loop : lift.

Lemma A_parse_interface_type : pres (parse_interface_type OPS self).
Proof. prod parse_interface_type. Qed.
Local Hint Resolve A_parse_interface_type : lift.

Lemma A_type_or_none_body : pres (type_or_none_body OPS self).
Proof. prod type_or_none_body. Qed.
Local Hint Resolve A_type_or_none_body : lift.

Lemma A_type_body : pres (type_body self).
Proof. prod type_body. Qed.
Local Hint Resolve A_type_body : lift.

Lemma A_parse_element_value : pres (parse_element_value self).
Proof. prod parse_element_value. Qed.
Local Hint Resolve A_parse_element_value : lift.

Lemma A_parse_element : pres (parse_element OPS self).
Proof. prod parse_element. Qed.
Local Hint Resolve A_parse_element : lift.

Lemma A_lit_value_loop : forall fuel acc, pres (lit_value_loop OPS self fuel acc).
Proof. floop lit_value_loop fuel. Qed.
Local Hint Resolve A_lit_value_loop : lift.

Lemma A_lit_value_body : pres (lit_value_body OPS self).
Proof. prod lit_value_body. Qed.
Local Hint Resolve A_lit_value_body : lift.

Lemma A_index_comma_loop : forall fuel acc, pres (index_comma_loop OPS self fuel acc).
Proof. floop index_comma_loop fuel. Qed.
Local Hint Resolve A_index_comma_loop : lift.

Lemma A_parse_slice_index_or_type_inst : pres (parse_slice_index_or_type_inst OPS self).
Proof. prod parse_slice_index_or_type_inst. Qed.
Local Hint Resolve A_parse_slice_index_or_type_inst : lift.

Lemma A_call_args_loop : forall fuel args ewc, pres (call_args_loop OPS self fuel args ewc).
Proof. floop call_args_loop fuel. Qed.
Local Hint Resolve A_call_args_loop : lift.

Lemma A_primary_step (x : nodeT) : pres (primary_step OPS self x).
Proof. prod primary_step. Qed.
Local Hint Resolve A_primary_step : lift.

Lemma A_primary_loop : forall fuel x, pres (primary_loop OPS self fuel x).
Proof. floop primary_loop fuel. Qed.
Local Hint Resolve A_primary_loop : lift.

Lemma A_operand : pres (operand OPS self).
Proof. prod operand. Qed.
Local Hint Resolve A_operand : lift.

Lemma A_primary_expression (p : option nodeT) : pres (primary_expression OPS self p).
Proof. prod primary_expression. Qed.
Local Hint Resolve A_primary_expression : lift.

Lemma A_unary_body : pres (unary_body OPS self).
Proof. prod unary_body. Qed.
Local Hint Resolve A_unary_body : lift.

Lemma A_binary_loop : forall fuel prec x, pres (binary_loop OPS self fuel prec x).
Proof. floop binary_loop fuel. Qed.
Local Hint Resolve A_binary_loop : lift.

Lemma A_binary_body (p : option nodeT) prec : pres (binary_body OPS self p prec).
Proof. prod binary_body. Qed.
Local Hint Resolve A_binary_body : lift.

Lemma A_expr_body : pres (expr_body self).
Proof. prod expr_body. Qed.
Local Hint Resolve A_expr_body : lift.

(* -- statements -- *)

Lemma A_parse_range_expr : pres (parse_range_expr OPS self).
Proof. prod parse_range_expr. Qed.
Local Hint Resolve A_parse_range_expr : lift.

Lemma A_parse_simple_stmt : pres (parse_simple_stmt OPS self).
Proof. prod parse_simple_stmt. Qed.
Local Hint Resolve A_parse_simple_stmt : lift.

Lemma A_stmts_until_brace : forall fuel acc, pres (stmts_until_brace self fuel acc).
Proof. floop stmts_until_brace fuel. Qed.
Local Hint Resolve A_stmts_until_brace : lift.

Lemma A_block_body : pres (block_body OPS self).
Proof. prod block_body. Qed.
Local Hint Resolve A_block_body : lift.

Lemma A_stmt_list_loop : forall fuel acc, pres (stmt_list_loop self fuel acc).
Proof. floop stmt_list_loop fuel. Qed.
Local Hint Resolve A_stmt_list_loop : lift.

Lemma A_parse_stmt_list : pres (parse_stmt_list self).
Proof. prod parse_stmt_list. Qed.
Local Hint Resolve A_parse_stmt_list : lift.

Lemma A_parse_go_defer is_go : pres (parse_go_defer OPS self is_go).
Proof. prod parse_go_defer. Qed.
Local Hint Resolve A_parse_go_defer : lift.

Lemma A_parse_return_stmt : pres (parse_return_stmt OPS self).
Proof. prod parse_return_stmt. Qed.
Local Hint Resolve A_parse_return_stmt : lift.

Lemma A_parse_if_header : pres (parse_if_header OPS self).
Proof. prod parse_if_header. Qed.
Local Hint Resolve A_parse_if_header : lift.

Lemma A_if_body : pres (if_body OPS self).
Proof. prod if_body. Qed.
Local Hint Resolve A_if_body : lift.

Lemma A_case_block_loop : forall fuel ta acc, pres (case_block_loop OPS self fuel ta acc).
Proof. floop case_block_loop fuel. Qed.
Local Hint Resolve A_case_block_loop : lift.

Lemma A_parse_case_block ta : pres (parse_case_block OPS self ta).
Proof. prod parse_case_block. Qed.
Local Hint Resolve A_parse_case_block : lift.

Lemma A_parse_switch_stmt : pres (parse_switch_stmt OPS self).
Proof. prod parse_switch_stmt. Qed.
Local Hint Resolve A_parse_switch_stmt : lift.

Lemma A_parse_comm_stmt : pres (parse_comm_stmt OPS self).
Proof. prod parse_comm_stmt. Qed.
Local Hint Resolve A_parse_comm_stmt : lift.

Lemma A_comm_block_loop : forall fuel acc, pres (comm_block_loop OPS self fuel acc).
Proof. floop comm_block_loop fuel. Qed.
Local Hint Resolve A_comm_block_loop : lift.

Lemma A_parse_select_stmt : pres (parse_select_stmt OPS self).
Proof. prod parse_select_stmt. Qed.
Local Hint Resolve A_parse_select_stmt : lift.

Lemma A_parse_for_stmt : pres (parse_for_stmt OPS self).
Proof. prod parse_for_stmt. Qed.
Local Hint Resolve A_parse_for_stmt : lift.

(* -- declarations -- *)

(* the mark is taken after the name; only the type-parameter path goes back to it *)
Lemma A_parse_type_spec : pres (parse_type_spec OPS self).
Proof.
  intros k s H. unfold parse_type_spec. hide_nats. cbv beta zeta.
  mstep1. cbv beta zeta.
  eapply post_bind; [ call_solve | intros name s1 H1 ]. cbv beta zeta.
  destruct (AH_anchor _ _ H1) as (k1 & Hi1 & Ha1 & Hw1 & HwE1 & _).
  apply post_weaken with (P' := Inv k1) (Pe' := InvE k1); [ | exact Hw1 | exact HwE1 ].
  clear H H1 Hw1 HwE1.
  msteps.
Qed.
Local Hint Resolve A_parse_type_spec : lift.

Lemma A_parse_var_spec : pres (parse_var_spec OPS self).
Proof. prod parse_var_spec. Qed.
Local Hint Resolve A_parse_var_spec : lift.

Lemma A_parse_const_spec index : pres (parse_const_spec OPS self index).
Proof. prod parse_const_spec. Qed.
Local Hint Resolve A_parse_const_spec : lift.

Lemma A_parse_spec sk index : pres (parse_spec OPS self sk index).
Proof. prod parse_spec. Qed.
Local Hint Resolve A_parse_spec : lift.

Lemma A_decl_group_loop : forall fuel sk index acc, pres (decl_group_loop OPS self fuel sk index acc).
Proof. floop decl_group_loop fuel. Qed.
Local Hint Resolve A_decl_group_loop : lift.

Lemma A_parse_decl sk : pres (parse_decl OPS self sk).
Proof. prod parse_decl. Qed.
Local Hint Resolve A_parse_decl : lift.

Lemma A_parse_func_decl : pres (parse_func_decl OPS self).
Proof. prod parse_func_decl. Qed.
Local Hint Resolve A_parse_func_decl : lift.

Lemma A_stmt_body : pres (stmt_body OPS self).
Proof. prod stmt_body. Qed.
Local Hint Resolve A_stmt_body : lift.

(* -- file level and entry points -- *)

Lemma A_parse_top_decl : pres (parse_top_decl OPS self).
Proof. prod parse_top_decl. Qed.
Local Hint Resolve A_parse_top_decl : lift.

Lemma A_decls_loop : forall fuel acc, pres (decls_loop OPS self fuel acc).
Proof. floop decls_loop fuel. Qed.
Local Hint Resolve A_decls_loop : lift.

Lemma A_parse_file : pres (parse_file OPS self).
Proof. prod parse_file. Qed.
Local Hint Resolve A_parse_file : lift.

Lemma A_entry_expression : pres (entry_expression OPS self).
Proof. prod entry_expression. Qed.
Local Hint Resolve A_entry_expression : lift.

Lemma A_entry_stmt : pres (entry_stmt OPS self).
Proof. prod entry_stmt. Qed.
Local Hint Resolve A_entry_stmt : lift.

Lemma AGood_step : AGood (step OPS self).
Proof.
  split; cbn [step k_type k_type_or_none k_expr k_unary k_binary k_litvalue k_block k_stmt k_if];
    try apply A_nested; auto with lift.
Qed.

End Step.
(* ---- closing the recursion ---- *)

Lemma parsers_at_ind_a (P : parsers -> Prop) :
  P (no_fuel A G D C E) -> (forall self, P self -> P (step OPS self)) ->
  forall d, P (parsers_at OPS d).
Proof. intros H0 HS. induction d; cbn [parsers_at]; auto. Qed.

Theorem AGood_parsers_at d : AGood (parsers_at OPS d).
Proof.
  apply (parsers_at_ind_a AGood); [ exact AGood_no_fuel | intros self Hs; apply AGood_step, Hs ].
Qed.

Theorem apres_parse_file d : pres (parse_file OPS (parsers_at OPS d)).
Proof. apply A_parse_file, AGood_parsers_at. Qed.
Theorem apres_entry_expression d : pres (entry_expression OPS (parsers_at OPS d)).
Proof. apply A_entry_expression, AGood_parsers_at. Qed.
Theorem apres_entry_stmt d : pres (entry_stmt OPS (parsers_at OPS d)).
Proof. apply A_entry_stmt, AGood_parsers_at. Qed.

End Lift.

Arguments AGood {A G D C E K} Inv InvE self.
